import Nsq.Model.InFlight
/-
Helper lemmas for C08 (micro-step model): the heap operations never leave the array bounds
when called inside them, and the fuel given by the callers suffices.
-/
namespace Nsq.Proofs.InFlight
open Nsq.Model.InFlight

theorem swap_some (s : HS) (i j : Nat) (hi : i < s.pq.length) (hj : j < s.pq.length) :
    ∃ s', swap s i j = some s' ∧ s'.pq.length = s.pq.length := by
  unfold swap
  simp [hi, hj]

theorem swap_none (s : HS) (i j : Nat) (h : ¬ (i < s.pq.length ∧ j < s.pq.length)) :
    swap s i j = none := by
  unfold swap
  simp [h]

theorem up_some : ∀ (fuel : Nat) (s : HS) (j : Nat), j < s.pq.length → j < fuel →
    ∃ s', up fuel s j = some s' ∧ s'.pq.length = s.pq.length := by
  intro fuel
  induction fuel with
  | zero => intro s j _ h; omega
  | succ f ih =>
    intro s j hj hf
    unfold up
    by_cases h0 : (j - 1) / 2 = j
    · simp [h0]
    · have hp : (j - 1) / 2 < j := by omega
      have hpl : (j - 1) / 2 < s.pq.length := by omega
      simp only [h0, if_false]
      rw [dif_pos ⟨hj, hpl⟩]
      by_cases hc : (s.objs (s.pq[j]'hj)).pri ≥ (s.objs (s.pq[(j - 1) / 2]'hpl)).pri
      · simp [hc]
      · simp only [hc, if_false]
        obtain ⟨s1, h1, hl1⟩ := swap_some s ((j - 1) / 2) j hpl hj
        rw [h1]
        simp only []
        obtain ⟨s2, h2, hl2⟩ := ih s1 ((j - 1) / 2) (by omega) (by omega)
        exact ⟨s2, h2, by omega⟩

theorem pickChild_some (s : HS) (j1 n : Nat) (h1 : j1 < n) (hn : n ≤ s.pq.length) :
    ∃ j, pickChild s j1 n = some j ∧ j < n ∧ j1 ≤ j := by
  unfold pickChild
  have hj1 : j1 < s.pq.length := by omega
  rw [dif_pos hj1]
  by_cases h2 : j1 + 1 < n
  · have h2l : j1 + 1 < s.pq.length := by omega
    simp only [h2, if_true]
    rw [dif_pos h2l]
    by_cases hc : (s.objs (s.pq[j1]'hj1)).pri ≥ (s.objs (s.pq[j1 + 1]'h2l)).pri
    · simp only [hc, if_true]; exact ⟨j1 + 1, rfl, h2, by omega⟩
    · simp only [hc, if_false]; exact ⟨j1, rfl, h1, by omega⟩
  · simp only [h2, if_false]; exact ⟨j1, rfl, h1, by omega⟩

theorem down_some : ∀ (fuel : Nat) (s : HS) (i n : Nat), n ≤ s.pq.length → n ≤ fuel + i + 1 →
    ∃ s', down (fuel + 1) s i n = some s' ∧ s'.pq.length = s.pq.length := by
  intro fuel
  induction fuel with
  | zero =>
    intro s i n _ hf
    unfold down
    have : 2 * i + 1 ≥ n := by omega
    simp [this]
  | succ f ih =>
    intro s i n hn hf
    unfold down
    by_cases h0 : 2 * i + 1 ≥ n
    · simp [h0]
    · simp only [h0, if_false]
      obtain ⟨j, hj, hjn, hji⟩ := pickChild_some s (2 * i + 1) n (by omega) hn
      rw [hj]
      simp only []
      have hjl : j < s.pq.length := by omega
      have hil : i < s.pq.length := by omega
      rw [dif_pos ⟨hjl, hil⟩]
      by_cases hc : (s.objs (s.pq[j]'hjl)).pri ≥ (s.objs (s.pq[i]'hil)).pri
      · simp [hc]
      · simp only [hc, if_false]
        obtain ⟨s1, h1, hl1⟩ := swap_some s i j hil hjl
        rw [h1]
        simp only []
        obtain ⟨s2, h2, hl2⟩ := ih s1 j n (by omega) (by omega)
        exact ⟨s2, h2, by omega⟩

theorem push_some (s : HS) (x : Nat) :
    ∃ s', push s x = some s' ∧ s'.pq.length = s.pq.length + 1 := by
  unfold push
  obtain ⟨s', h, hl⟩ := up_some (s.pq.length + 1)
    { objs := setIndex s.objs x s.pq.length, pq := s.pq ++ [x] } s.pq.length (by simp) (by omega)
  exact ⟨s', h, by simpa using hl⟩

theorem dropLast_some (s : HS) (h : 0 < s.pq.length) :
    ∃ r, dropLast s = some r ∧ r.1.pq.length = s.pq.length - 1 := by
  unfold dropLast
  rw [dif_pos h]
  refine ⟨_, rfl, ?_⟩
  simp

theorem pop_some (s : HS) (h : 0 < s.pq.length) :
    ∃ r, pop s = some r ∧ r.1.pq.length = s.pq.length - 1 := by
  unfold pop
  have h0 : ¬ s.pq.length = 0 := by omega
  simp only [h0, if_false]
  obtain ⟨s1, h1, hl1⟩ := swap_some s 0 (s.pq.length - 1) h (by omega)
  rw [h1]
  simp only []
  obtain ⟨s2, h2, hl2⟩ := down_some s.pq.length s1 0 (s.pq.length - 1) (by omega) (by omega)
  rw [h2]
  simp only []
  obtain ⟨r, hr, hlr⟩ := dropLast_some s2 (by omega)
  exact ⟨r, hr, by omega⟩

theorem remove_some (s : HS) (i : Int) (h0 : 0 ≤ i) (h1 : i < (s.pq.length : Int)) :
    ∃ r, remove s i = some r ∧ r.1.pq.length = s.pq.length - 1 := by
  unfold remove
  have hg : ¬ (i < 0 ∨ (s.pq.length : Int) ≤ i) := by omega
  simp only [hg, if_false]
  have hpos : 0 < s.pq.length := by omega
  have hi : i.toNat < s.pq.length := by omega
  by_cases hl : i.toNat = s.pq.length - 1
  · simp only [hl, if_true]
    exact dropLast_some s hpos
  · simp only [hl, if_false]
    obtain ⟨s1, e1, l1⟩ := swap_some s i.toNat (s.pq.length - 1) hi (by omega)
    rw [e1]
    simp only []
    obtain ⟨s2, e2, l2⟩ := down_some s.pq.length s1 i.toNat (s.pq.length - 1) (by omega) (by omega)
    rw [e2]
    simp only []
    obtain ⟨s3, e3, l3⟩ := up_some (s.pq.length + 1) s2 i.toNat (by omega) (by omega)
    rw [e3]
    simp only []
    obtain ⟨r, hr, hlr⟩ := dropLast_some s3 (by omega)
    exact ⟨r, hr, by omega⟩

theorem peekAndShift_some (s : HS) (t : Int) : ∃ r, peekAndShift s t = some r := by
  unfold peekAndShift
  by_cases h : 0 < s.pq.length
  · rw [dif_pos h]
    by_cases hc : (s.objs (s.pq[0]'h)).pri > t
    · simp [hc]
    · simp only [hc, if_false]
      obtain ⟨r, hr, _⟩ := pop_some s h
      rw [hr]
      exact ⟨_, rfl⟩
  · rw [dif_neg h]
    exact ⟨_, rfl⟩

/-- the patched `removeFromInFlightPQ` never indexes outside the heap -/
theorem removeFromPQ_fixed_some (s : HS) (o : Nat) : ∃ s', removeFromPQ true s o = some s' := by
  unfold removeFromPQ
  by_cases hs : removeSkips true s o = true
  · simp [hs]
  · simp only [hs]
    have hs' : removeSkips true s o = false := by simpa using hs
    unfold removeSkips at hs'
    simp only [if_true, Bool.or_eq_false_iff, decide_eq_false_iff_not] at hs'
    obtain ⟨r, hr, _⟩ := remove_some s (s.objs o).index (by omega) (by omega)
    simp [hr]

theorem okH_fixed_ne_panic (s : St) (r : Option HS) (f : HS → St) (h : ∃ x, r = some x) :
    (okH s r f).isPanic = false := by
  obtain ⟨x, hx⟩ := h
  subst hx
  rfl

/-- one micro-step of the patched code never panics, from **any** state -/
theorem step_fixed_no_panic (s : St) (a : Step) : (step true s a).isPanic = false := by
  cases a with
  | finPop c o => simp only [step]; split <;> rfl
  | finRemove o =>
    simp only [step]
    split
    · exact okH_fixed_ne_panic _ _ _ (removeFromPQ_fixed_some _ _)
    · rfl
  | reqPop c o d => simp only [step]; repeat' split
                    all_goals rfl
  | reqRemove o =>
    simp only [step]
    split
    · exact okH_fixed_ne_panic _ _ _ (removeFromPQ_fixed_some _ _)
    · rfl
  | reqPut o =>
    simp only [step]
    split
    · split
      · rfl
      · split <;> rfl
    · rfl
  | touchPop c o => simp only [step]; repeat' split
                    all_goals rfl
  | touchRemove o =>
    simp only [step]
    split
    · exact okH_fixed_ne_panic _ _ _ (removeFromPQ_fixed_some _ _)
    · rfl
  | touchMapPush o p =>
    simp only [step]
    split
    · split
      · rfl
      · split
        · obtain ⟨s', h, _⟩ := push_some { s.h with objs := setPri s.h.objs o p } o
          exact okH_fixed_ne_panic _ _ _ ⟨s', h⟩
        · rfl
    · rfl
  | touchPQPush o =>
    simp only [step]
    split
    · split
      · rfl
      · obtain ⟨s', h, _⟩ := push_some s.h o
        exact okH_fixed_ne_panic _ _ _ ⟨s', h⟩
    · rfl
  | startMapPush c o p =>
    simp only [step]
    split
    · split
      · rfl
      · split
        · obtain ⟨s', h, _⟩ := push_some { s.h with objs := setDeliver s.h.objs o c p } o
          exact okH_fixed_ne_panic _ _ _ ⟨s', h⟩
        · rfl
    · rfl
  | startPQPush o =>
    simp only [step]
    split
    · split
      · rfl
      · obtain ⟨s', h, _⟩ := push_some s.h o
        exact okH_fixed_ne_panic _ _ _ ⟨s', h⟩
    · rfl
  | scanPeek t =>
    simp only [step]
    obtain ⟨r, hr⟩ := peekAndShift_some s.h t
    rw [hr]
    split
    · rename_i h; cases h
    · rfl
    · repeat' split
      all_goals rfl
  | scanPop o =>
    simp only [step]
    repeat' split
    all_goals rfl
  | emptyResetInflight => simp only [step]; repeat' split
                          all_goals rfl
  | emptyResetDeferred => simp only [step]; split <;> rfl
  | emptyRest => simp only [step]; split <;> rfl
  | deferMapPush o =>
    simp only [step]
    split
    · split <;> rfl
    · rfl
  | deferPQPush o p =>
    simp only [step]
    repeat' split
    all_goals rfl
  | dscanPeek t =>
    simp only [step]
    split
    · rfl
    · split <;> rfl
  | dscanPop o =>
    simp only [step]
    split
    · split <;> rfl
    · rfl
  | reload o => simp only [step]; split <;> rfl
  | put o => simp only [step]; split <;> rfl

theorem run_fixed_no_panic : ∀ (sched : List Step) (s : St), (run true s sched).isPanic = false := by
  intro sched
  induction sched with
  | nil => intro s; rfl
  | cons a as ih =>
    intro s
    unfold run
    have h := step_fixed_no_panic s a
    split
    · exact ih _
    · rename_i h'; rw [h'] at h; cases h
    · rfl

theorem indexOK_inj {h : HS} (ok : IndexOK h) {i j : Nat} (hi : i < h.pq.length) (hj : j < h.pq.length)
    (e : h.pq[i] = h.pq[j]) : i = j := by
  have a := ok i hi
  have b := ok j hj
  rw [e] at a
  rw [a] at b
  exact Int.ofNat.inj b

theorem swap_eq (s : HS) (i j : Nat) (hi : i < s.pq.length) (hj : j < s.pq.length) :
    swap s i j = some { objs := setIndex (setIndex s.objs (s.pq[j]) i) (s.pq[i]) j,
                        pq := (s.pq.set i (s.pq[j])).set j (s.pq[i]) } := by
  unfold swap
  simp [hi, hj]

theorem swap_indexOK (s s' : HS) (i j : Nat) (ok : IndexOK s) (h : swap s i j = some s') : IndexOK s' := by
  by_cases hb : i < s.pq.length ∧ j < s.pq.length
  · obtain ⟨hi, hj⟩ := hb
    rw [swap_eq s i j hi hj] at h
    cases h
    intro k hk
    simp only [List.length_set] at hk
    simp only [List.getElem_set]
    by_cases hkj : j = k
    · subst hkj
      simp [setIndex]
    · simp only [hkj, if_false]
      by_cases hki : i = k
      · subst hki
        simp only [if_true]
        have hne : s.pq[j] ≠ s.pq[i] := by
          intro e
          exact hkj (indexOK_inj ok hj hi e)
        simp [setIndex, hne]
      · simp only [hki, if_false]
        have h1 : s.pq[k] ≠ s.pq[i] := fun e => hki (indexOK_inj ok hk hi e).symm
        have h2 : s.pq[k] ≠ s.pq[j] := fun e => hkj (indexOK_inj ok hk hj e).symm
        simp [setIndex, h1, h2]
        exact ok k hk
  · rw [swap_none s i j hb] at h
    cases h

theorem up_indexOK : ∀ (fuel : Nat) (s s' : HS) (j : Nat), IndexOK s → up fuel s j = some s' → IndexOK s' := by
  intro fuel
  induction fuel with
  | zero => intro s s' j _ h; simp [up] at h
  | succ f ih =>
    intro s s' j ok h
    unfold up at h
    split at h
    · cases h; exact ok
    · split at h
      · split at h
        · cases h; exact ok
        · split at h
          · cases h
          · rename_i s1 h1
            exact ih s1 s' _ (swap_indexOK s s1 _ _ ok h1) h
      · cases h

theorem down_indexOK : ∀ (fuel : Nat) (s s' : HS) (i n : Nat), IndexOK s → down fuel s i n = some s' → IndexOK s' := by
  intro fuel
  induction fuel with
  | zero => intro s s' i n _ h; simp [down] at h
  | succ f ih =>
    intro s s' i n ok h
    unfold down at h
    split at h
    · cases h; exact ok
    · split at h
      · cases h
      · split at h
        · split at h
          · cases h; exact ok
          · split at h
            · cases h
            · rename_i s1 h1
              exact ih s1 s' _ _ (swap_indexOK s s1 _ _ ok h1) h
        · cases h

/-- `Push(x)` of an object that is not in the heap keeps every index field right -/
theorem push_indexOK (s s' : HS) (x : Nat) (ok : IndexOK s) (hx : x ∉ s.pq) (h : push s x = some s') : IndexOK s' := by
  unfold push at h
  apply up_indexOK _ _ _ _ _ h
  intro k hk
  simp only [List.length_append, List.length_singleton] at hk
  by_cases hkl : k < s.pq.length
  · have : (s.pq ++ [x])[k] = s.pq[k] := List.getElem_append_left hkl
    simp only [this]
    have hne : s.pq[k] ≠ x := fun e => hx (e ▸ List.getElem_mem hkl)
    simp [setIndex, hne]
    exact ok k hkl
  · have hke : k = s.pq.length := by omega
    subst hke
    simp [setIndex]

theorem dropLast_indexOK (s : HS) (r : HS × Nat) (ok : IndexOK s) (h : dropLast s = some r) :
    IndexOK r.1 ∧ (r.1.objs r.2).index = -1 ∧ r.2 ∉ r.1.pq := by
  unfold dropLast at h
  split at h
  · rename_i hpos
    cases h
    simp only []
    have hlast : s.pq.length - 1 < s.pq.length := by omega
    have hnotin : s.pq[s.pq.length - 1] ∉ s.pq.take (s.pq.length - 1) := by
      intro hm
      obtain ⟨k, hk, hke⟩ := List.getElem_of_mem hm
      simp only [List.length_take] at hk
      have hk' : k < s.pq.length := by omega
      rw [List.getElem_take] at hke
      have := indexOK_inj ok hk' hlast hke
      omega
    refine ⟨?_, by simp [setIndex], hnotin⟩
    intro k hk
    simp only [List.length_take] at hk
    have hk' : k < s.pq.length := by omega
    rw [List.getElem_take]
    have hne : s.pq[k] ≠ s.pq[s.pq.length - 1] := by
      intro e
      have := indexOK_inj ok hk' hlast e
      omega
    simp [setIndex, hne]
    exact ok k hk'
  · cases h

theorem pop_indexOK (s : HS) (r : HS × Nat) (ok : IndexOK s) (h : pop s = some r) :
    IndexOK r.1 ∧ (r.1.objs r.2).index = -1 ∧ r.2 ∉ r.1.pq := by
  unfold pop at h
  split at h
  · cases h
  · split at h
    · cases h
    · rename_i s1 h1
      split at h
      · cases h
      · rename_i s2 h2
        exact dropLast_indexOK s2 r (down_indexOK _ _ _ _ _ (swap_indexOK _ _ _ _ ok h1) h2) h

theorem remove_indexOK (s : HS) (i : Int) (r : HS × Nat) (ok : IndexOK s) (h : remove s i = some r) :
    IndexOK r.1 ∧ (r.1.objs r.2).index = -1 ∧ r.2 ∉ r.1.pq := by
  unfold remove at h
  split at h
  · cases h
  · split at h
    · exact dropLast_indexOK s r ok h
    · split at h
      · cases h
      · rename_i s1 h1
        split at h
        · cases h
        · rename_i s2 h2
          split at h
          · cases h
          · rename_i s3 h3
            exact dropLast_indexOK s3 r
              (up_indexOK _ _ _ _ (down_indexOK _ _ _ _ _ (swap_indexOK _ _ _ _ ok h1) h2) h3) h


theorem indexOK_objs_congr (h : HS) (objs' : Nat → Obj) (ok : IndexOK h)
    (hsame : ∀ o ∈ h.pq, (objs' o).index = (h.objs o).index) : IndexOK { h with objs := objs' } := by
  intro i hi
  have := ok i hi
  show (objs' (h.pq[i])).index = (i : Int)
  rw [hsame _ (List.getElem_mem hi)]; exact this

theorem removeFromPQ_indexOK (s s' : HS) (o : Nat) (ok : IndexOK s) (h : removeFromPQ true s o = some s') :
    IndexOK s' := by
  unfold removeFromPQ at h
  split at h
  · cases h; exact ok
  · split at h
    · cases h
    · rename_i r hr
      cases h
      exact (remove_indexOK s _ r ok hr).1

theorem peekAndShift_indexOK (s : HS) (t : Int) (r : HS × Option Nat) (ok : IndexOK s)
    (h : peekAndShift s t = some r) : IndexOK r.1 := by
  unfold peekAndShift at h
  split at h
  · split at h
    · cases h; exact ok
    · split at h
      · cases h
      · rename_i r' hr'
        cases h
        exact (pop_indexOK s r' ok hr').1
  · cases h; exact ok

/-- the step pushes object `o` onto the heap (shape without F48: the separate heap-push sections; with F48
(`pushAtomic`): the section that inserts into the map) -/
def pushes (s : St) (a : Step) (o : Nat) : Prop :=
  (s.pushAtomic = false ∧ (a = Step.startPQPush o ∨ a = Step.touchPQPush o)) ∨
  (s.pushAtomic = true ∧ ((∃ c p, a = Step.startMapPush c o p) ∨ ∃ p, a = Step.touchMapPush o p))

/-- `IndexOK` is preserved by every micro-step of the patched code, provided the step does not push an
object that is already in the heap — the only way the index fields can go wrong -/
theorem step_indexOK (s s' : St) (a : Step) (ok : IndexOK s.h) (h : step true s a = Res.ok s')
    (hnodup : ∀ o, pushes s a o → o ∉ s.h.pq) : IndexOK s'.h := by
  cases a with
  | finPop c o => simp only [step] at h; split at h <;> (cases h; exact ok)
  | finRemove o =>
    simp only [step] at h
    split at h
    · unfold okH at h
      split at h
      · cases h
      · rename_i h1 hr; cases h; exact removeFromPQ_indexOK _ _ _ ok hr
    · cases h
  | reqPop c o d =>
    simp only [step] at h
    repeat' split at h
    all_goals first | (cases h; exact ok) | cases h
  | reqRemove o =>
    simp only [step] at h
    split at h
    · unfold okH at h
      split at h
      · cases h
      · rename_i h1 hr; cases h; exact removeFromPQ_indexOK _ _ _ ok hr
    · cases h
  | reqPut o =>
    simp only [step] at h
    repeat' split at h
    all_goals first | (cases h; exact ok) | cases h
  | touchPop c o =>
    simp only [step] at h
    repeat' split at h
    all_goals first | (cases h; exact ok) | cases h
  | touchRemove o =>
    simp only [step] at h
    split at h
    · unfold okH at h
      split at h
      · cases h
      · rename_i h1 hr; cases h; exact removeFromPQ_indexOK _ _ _ ok hr
    · cases h
  | touchMapPush o p =>
    have okp : IndexOK { s.h with objs := setPri s.h.objs o p } :=
      indexOK_objs_congr s.h _ ok (fun o' _ => by simp only [setPri]; split <;> rfl)
    simp only [step] at h
    split at h
    · split at h
      · cases h; exact okp
      · split at h
        · rename_i hpa
          unfold okH at h
          split at h
          · cases h
          · rename_i h1 hr; cases h
            exact push_indexOK _ _ _ okp (hnodup o (Or.inr ⟨hpa, Or.inr ⟨p, rfl⟩⟩)) hr
        · cases h; exact okp
    · cases h
  | touchPQPush o =>
    simp only [step] at h
    split at h
    · split at h
      · cases h; exact ok
      · rename_i hpa
        unfold okH at h
        split at h
        · cases h
        · rename_i h1 hr; cases h
          exact push_indexOK _ _ _ ok (hnodup o (Or.inl ⟨by simpa using hpa, Or.inr rfl⟩)) hr
    · cases h
  | startMapPush c o p =>
    have okp : IndexOK { s.h with objs := setDeliver s.h.objs o c p } :=
      indexOK_objs_congr s.h _ ok (fun o' _ => by simp only [setDeliver]; split <;> rfl)
    simp only [step] at h
    split at h
    · split at h
      · cases h; exact okp
      · split at h
        · rename_i hpa
          unfold okH at h
          split at h
          · cases h
          · rename_i h1 hr; cases h
            exact push_indexOK _ _ _ okp (hnodup o (Or.inr ⟨hpa, Or.inl ⟨c, p, rfl⟩⟩)) hr
        · cases h; exact okp
    · cases h
  | startPQPush o =>
    simp only [step] at h
    split at h
    · split at h
      · cases h; exact ok
      · rename_i hpa
        unfold okH at h
        split at h
        · cases h
        · rename_i h1 hr; cases h
          exact push_indexOK _ _ _ ok (hnodup o (Or.inl ⟨by simpa using hpa, Or.inl rfl⟩)) hr
    · cases h
  | scanPeek t =>
    simp only [step] at h
    split at h
    · cases h
    · rename_i h1 hr; cases h; exact peekAndShift_indexOK _ _ _ ok hr
    · rename_i h1 o hr
      have hk := peekAndShift_indexOK _ _ _ ok hr
      repeat' split at h
      all_goals (cases h; exact hk)
  | scanPop o =>
    simp only [step] at h
    repeat' split at h
    all_goals first | (cases h; exact ok) | cases h
  | emptyResetInflight =>
    simp only [step] at h
    split at h
    · cases h
    · split at h
      · cases h
      · cases h; intro i hi; simp at hi
  | emptyResetDeferred => simp only [step] at h; split at h <;> first | (cases h; exact ok) | cases h
  | emptyRest => simp only [step] at h; split at h <;> first | (cases h; exact ok) | cases h
  | deferMapPush o =>
    simp only [step] at h
    repeat' split at h
    all_goals first | (cases h; exact ok) | cases h
  | deferPQPush o p =>
    simp only [step] at h
    repeat' split at h
    all_goals first | (cases h; exact ok) | cases h
  | dscanPeek t =>
    simp only [step] at h
    repeat' split at h
    all_goals first | (cases h; exact ok) | cases h
  | dscanPop o =>
    simp only [step] at h
    repeat' split at h
    all_goals first | (cases h; exact ok) | cases h
  | reload o =>
    simp only [step] at h
    split at h
    · rename_i hq
      cases h
      apply indexOK_objs_congr s.h _ ok
      intro o' ho'
      have : o' ≠ o := fun e => hq.2 (e ▸ ho')
      simp [freshObj, this]
    · cases h
  | put o =>
    simp only [step] at h
    split at h
    · cases h
    · rename_i hq
      cases h
      apply indexOK_objs_congr s.h _ ok
      intro o' ho'
      have : o' ≠ o := by
        intro e; apply hq; subst e
        exact Or.inr (Or.inr (Or.inr (Or.inl ho')))
      simp [freshObj, this]

/-- along the schedule no object is pushed while it is already in the heap -/
def NoDupPush : St → List Step → Prop
  | _, [] => True
  | s, a :: as =>
    (∀ o, pushes s a o → o ∉ s.h.pq) ∧
      match step true s a with
      | Res.ok s' => NoDupPush s' as
      | _ => True

theorem run_indexOK : ∀ (sched : List Step) (s s' : St), IndexOK s.h → NoDupPush s sched →
    run true s sched = Res.ok s' → IndexOK s'.h := by
  intro sched
  induction sched with
  | nil => intro s s' ok _ h; simp only [run] at h; cases h; exact ok
  | cons a as ih =>
    intro s s' ok hnd h
    simp only [run] at h
    obtain ⟨h1, h2⟩ := hnd
    cases hs : step true s a with
    | ok s1 =>
      rw [hs] at h h2
      exact ih s1 s' (step_indexOK s s1 a ok hs h1) h2 h
    | panic => rw [hs] at h; cases h
    | disabled => rw [hs] at h; cases h


end Nsq.Proofs.InFlight
