import Nsq.Proofs.DiskQueue
/-! Engine E9 — the API operations of go-diskqueue against the abstract FIFO (`Q s q`). -/
namespace Nsq.Proofs.DiskQueue
open Nsq.Model.Wire Nsq.Model.DiskQueue

/-- abstraction relation: the live queue `s` (at rest: `ioLoop` parked in its `select`) holds exactly
the records `q`, oldest first -/
def Q (s : St) (q : List Bytes) : Prop :=
  ∃ pre recs, Rep s pre recs ∧ Ready s recs ∧ absQ s recs = q

theorem Q_of_rep {s : St} {pre : Bytes} {recs : Nat → List Bytes} (h : Rep s pre recs) : Q (settle s) (absQ s recs) := by
  obtain ⟨pre', a, b, c, _⟩ := settle_rep h
  exact ⟨pre', recs, a, b, c⟩

theorem settle_cfg (s : St) : (settle s).cfg = s.cfg := by
  have step : ∀ t : St, (settleStep t).2.cfg = t.cfg := by
    intro t
    have sd : (syncDue t).cfg = t.cfg := by unfold syncDue; split <;> rfl
    have ro : ∀ u : St, (readOne u).2.cfg = u.cfg := by
      intro u
      rw [readOne_eq]
      have ho : ∀ s1, openRead u = some s1 → s1.cfg = u.cfg := by
        intro s1 h1
        unfold openRead at h1
        split at h1
        · injection h1 with h1; rw [← h1]
        · split at h1
          · exact absurd h1 (by simp)
          · injection h1 with h1; rw [← h1]
      cases h1 : openRead u with
      | none => rfl
      | some s1 =>
        simp only []
        have rc : (readCore s1).2.cfg = s1.cfg := by
          unfold readCore
          split
          · rfl
          · simp only []
            unfold afterRead
            split <;> rfl
        rw [rc, ho s1 h1]
    have ct : ∀ u : St, (checkTail u).cfg = u.cfg := by
      intro u; unfold checkTail
      split
      · rfl
      · split
        · split <;> rfl
        · split <;> rfl
    have he : ∀ u : St, (handleReadError u).cfg = u.cfg := by
      intro u; unfold handleReadError
      split <;> rw [ct]
    unfold settleStep
    split
    · split
      · split
        · rw [ro, sd]
        · rw [he, ro, sd]
      · exact sd
    · exact sd
  have hn : ∀ n (t : St), (settleN n t).cfg = t.cfg := by
    intro n
    induction n with
    | zero => intro t; rfl
    | succ n ih =>
      intro t
      unfold settleN
      split
      · rw [ih, step]
      · exact step t
  exact hn _ s

theorem fresh_Q (cfg : Cfg) (hok : CfgOk cfg) : Q (openQ cfg FS.empty) [] := by
  have hq : ∀ a n, qFrom (fun _ => ([] : List Bytes)) a n = [] := by
    intro a n
    induction n generalizing a with
    | zero => rfl
    | succ n ih => simp [qFrom, ih]
  have h : Rep ({ cfg := cfg, fs := FS.empty } : St) [] (fun _ => []) := by
    refine ⟨hok, rfl, Nat.le_refl _, ?_, rfl, rfl, ?_, ?_, ⟨fun _ => rfl, fun _ => rfl⟩, rfl, fun _ _ => rfl, ?_,
      Or.inl ⟨rfl, rfl⟩, ?_, ?_⟩
    · intro i x hx; exact absurd hx (by simp)
    · intro i _ _; rfl
    · intro i h1 h2
      replace h2 : i < 0 := h2
      omega
    · show (0 : Int) = _
      rw [hq]; rfl
    · intro ho; exact absurd ho (by simp)
    · intro ho; exact absurd ho (by simp)
  have := Q_of_rep h
  have e : absQ ({ cfg := cfg, fs := FS.empty } : St) (fun _ => []) = [] := hq _ _
  rw [e] at this
  exact this

theorem depth_Q {s : St} {q : List Bytes} (h : Q s q) : s.depth = (q.length : Int) := by
  obtain ⟨pre, recs, a, _, c⟩ := h
  rw [a.depth, ← c]; rfl

theorem live_Q {s : St} {q : List Bytes} (h : Q s q) : s.exited = false := by
  obtain ⟨pre, recs, a, _, _⟩ := h
  exact a.live

theorem put_ok_Q {s : St} {q : List Bytes} (h : Q s q) (d : Bytes) (hv : ValidRec s.cfg d) :
    (put s d).1 = .ok ∧ Q (put s d).2 (q ++ [d]) := by
  obtain ⟨pre, recs, a, _, c⟩ := h
  have a' : Rep { s with count := s.count + 1 } pre recs := rep_md a s.fs.md s.needSync (s.count + 1)
  obtain ⟨w1, recs', w2, w3⟩ := writeOne_rep a' d hv
  unfold put
  rw [if_neg (by rw [a.live]; simp), if_pos w1]
  refine ⟨rfl, ?_⟩
  have := Q_of_rep w2
  rw [w3] at this
  have e : absQ ({ s with count := s.count + 1 } : St) recs = absQ s recs := rfl
  rw [e, c] at this
  exact this

theorem put_invalid_Q {s : St} {q : List Bytes} (h : Q s q) (d : Bytes) (hv : ¬ ValidRec s.cfg d) :
    (put s d).1 = .invalid ∧ Q (put s d).2 q := by
  obtain ⟨pre, recs, a, _, c⟩ := h
  have a' : Rep { s with count := s.count + 1 } pre recs := rep_md a s.fs.md s.needSync (s.count + 1)
  unfold put
  rw [if_neg (by rw [a.live]; simp), writeOne_invalid { s with count := s.count + 1 } d hv]
  simp only [Bool.false_eq_true, if_false]
  refine ⟨trivial, ?_⟩
  have := Q_of_rep a'
  have e : absQ ({ s with count := s.count + 1 } : St) recs = absQ s recs := rfl
  rw [e, c] at this
  exact this

theorem canRead_of_cons {s : St} {pre : Bytes} {recs : Nat → List Bytes} (a : Rep s pre recs) {d : Bytes} {q : List Bytes}
    (c : absQ s recs = d :: q) : canRead s = true := by
  cases hc : canRead s with
  | true => rfl
  | false =>
    obtain ⟨_, _, _, e, _⟩ := tail_facts a hc
    rw [e] at c
    exact absurd c (by simp)

theorem recv_head_Q {s : St} {d : Bytes} {q : List Bytes} (h : Q s (d :: q)) :
    (recv s).1 = some d ∧ Q (recv s).2 q := by
  obtain ⟨pre, recs, a, b, c⟩ := h
  have hc := canRead_of_cons a c
  have hb := b.2 hc
  have a' : Rep { s with count := s.count + 1 } pre recs := rep_md a s.fs.md s.needSync (s.count + 1)
  obtain ⟨pre', recs', m1, m2⟩ := moveForward_rep a' hb
  have e : absQ ({ s with count := s.count + 1 } : St) recs = absQ s recs := rfl
  rw [e, c] at m2
  have hp : s.pending = d := by
    have : ({ s with count := s.count + 1 } : St).pending = d := (List.cons.inj m2).1.symm
    exact this
  unfold recv
  rw [if_pos ⟨a.live, hc⟩]
  refine ⟨by rw [hp], ?_⟩
  have := Q_of_rep m1
  rw [← (List.cons.inj m2).2] at this
  exact this

theorem recv_none_Q {s : St} (h : Q s []) : recv s = (none, s) := by
  obtain ⟨pre, recs, a, b, c⟩ := h
  have hc : canRead s = false := by
    cases hc : canRead s with
    | false => rfl
    | true =>
      obtain ⟨d, rest, b1, _, _⟩ := b.2 hc
      exfalso
      unfold absQ at c
      have : qFrom recs s.rf (s.wf - s.rf + 1) = recs s.rf ++ qFrom recs (s.rf + 1) (s.wf - s.rf) := rfl
      rw [this, b1] at c
      exact absurd c (by simp)
  unfold recv
  rw [if_neg (by rw [hc]; simp)]

theorem empty_Q {s : St} {q : List Bytes} (h : Q s q) :
    (empty s).1 = true ∧ Q (empty s).2 [] ∧ (∀ i, (empty s).2.fs.dat i = none) ∧ (empty s).2.fs.md = none ∧
      (empty s).2.fs.bad = s.fs.bad := by
  obtain ⟨pre, recs, a, b, _⟩ := h
  obtain ⟨e1, e2⟩ := empty_rep a
  have hcr : canRead ({ deleteAllFiles s with count := 0 } : St) = false := by
    show (decide (s.wf + 1 < s.wf + 1) || decide (0 < 0)) = false
    simp
  have hst : settle ({ deleteAllFiles s with count := 0 } : St) = { deleteAllFiles s with count := 0 } :=
    settle_at_tail e1 hcr b.1 (by show (0 : Nat) ≠ s.cfg.syncEvery; have := a.cfg.sync; omega)
  unfold empty
  rw [if_neg (by rw [a.live]; simp), hst]
  refine ⟨rfl, ⟨[], fun _ => [], e1, ⟨b.1, fun hh => absurd hh (by rw [hcr]; simp)⟩, ?_⟩, e2, rfl, rfl⟩
  obtain ⟨_, _, _, e, _⟩ := tail_facts e1 hcr
  exact e

theorem reopen_Q {s : St} {q : List Bytes} (h : Q s q) (cfg' : Cfg) (hok : CfgOk cfg')
    (hmin : cfg'.minMsgSize = s.cfg.minMsgSize) (hmax : cfg'.maxMsgSize = s.cfg.maxMsgSize) :
    Q (openQ cfg' (close s).fs) q := by
  obtain ⟨pre, recs, a, _, c⟩ := h
  have a' : Rep { s with fs := { s.fs with md := some s.metaNow } } pre recs := rep_md a (some s.metaNow) s.needSync s.count
  obtain ⟨r1, r2⟩ := reopen_rep a' cfg' hok hmin hmax rfl
  have := Q_of_rep r1
  rw [r2] at this
  have e : absQ ({ s with fs := { s.fs with md := some s.metaNow } } : St) recs = absQ s recs := rfl
  rw [e, c] at this
  exact this

/-- a kill right after a sync (metadata current) is as good as `Close` -/
theorem crash_synced_Q {s : St} {q : List Bytes} (h : Q s q) (hmd : s.fs.md = some s.metaNow) (cfg' : Cfg) (hok : CfgOk cfg')
    (hmin : cfg'.minMsgSize = s.cfg.minMsgSize) (hmax : cfg'.maxMsgSize = s.cfg.maxMsgSize) :
    Q (openQ cfg' (crash s)) q := by
  obtain ⟨pre, recs, a, _, c⟩ := h
  obtain ⟨r1, r2⟩ := reopen_rep a cfg' hok hmin hmax hmd
  have := Q_of_rep r1
  rw [r2, c] at this
  exact this

theorem checkTail_cfg (u : St) : (checkTail u).cfg = u.cfg := by
  unfold checkTail
  split
  · rfl
  · split
    · split <;> rfl
    · split <;> rfl

theorem put_cfg (s : St) (d : Bytes) : (put s d).2.cfg = s.cfg := by
  have w : ∀ t : St, (writeOne t d).2.cfg = t.cfg := by
    intro t; unfold writeOne
    split
    · rfl
    · split <;> rfl
  unfold put
  split
  · rfl
  · split
    · rw [settle_cfg, w]
    · rw [settle_cfg]

theorem recv_cfg (s : St) : (recv s).2.cfg = s.cfg := by
  unfold recv
  split
  · simp only []
    rw [settle_cfg]
    unfold moveForward
    split <;> rw [checkTail_cfg]
  · rfl

theorem openQ_cfg (cfg : Cfg) (fs : FS) : (openQ cfg fs).cfg = cfg := by
  unfold openQ
  rw [settle_cfg]
  unfold retrieve
  split
  · rfl
  · split
    · rfl
    · split <;> rfl

end Nsq.Proofs.DiskQueue
