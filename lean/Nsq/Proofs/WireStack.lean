import Nsq.Model.WireStack
import Nsq.Proofs.Wire
/-! C07 / C11 (audit A2): facts about `Nsq.Model.WireStack` — which transport every output byte goes to. -/
namespace Nsq.Proofs.WireStack
open Nsq.Model.Wire Nsq.Model.WireStack Nsq.Proofs.Wire

/-! ### 1. no byte is lost or reordered, in either tree -/

def StreamInv (c : TConn) : Prop :=
  c.stream = (c.sent.map encodeFrame).flatten ∧ (c.subscribed = false → c.w.buf = [])

theorem streamInv_tconn0 (cap : Nat) : StreamInv (tconn0 cap) := by
  simp [StreamInv, tconn0, TConn.stream, TConn.segs]

theorem streamInv_step (fixed : Bool) (c : TConn) (op : ConnOp) (h : StreamInv c) :
    StreamInv (tstep fixed c op) := by
  obtain ⟨hs, hb⟩ := h
  simp only [TConn.stream, TConn.segs, List.map_append, List.map_cons, List.map_nil,
    List.flatten_append, List.flatten_cons, List.flatten_nil, List.append_nil] at hs
  cases op with
  | sendResponse f =>
    refine ⟨?_, fun _ => by simp [tstep, bufFlush]⟩
    have := writeFrame_stream c.w f
    simp only [tstep, TConn.stream, TConn.segs, bufFlush, List.append_nil, List.map_append, List.map_cons,
      List.map_nil, List.flatten_append, List.flatten_cons, List.flatten_nil, ← hs]
    simp only [List.append_assoc] at this ⊢
    rw [this]
  | sendMessage f =>
    simp only [tstep]
    split
    · rename_i hsub
      refine ⟨?_, fun h' => by simp [hsub] at h'⟩
      have := writeFrame_stream c.w f
      simp only [TConn.stream, TConn.segs, List.map_append, List.map_cons,
        List.map_nil, List.flatten_append, List.flatten_cons, List.flatten_nil, ← hs]
      simp only [List.append_assoc, List.append_nil] at this ⊢
      rw [this]
    · refine ⟨?_, hb⟩
      simp only [TConn.stream, TConn.segs, List.map_append, List.map_cons, List.map_nil,
        List.flatten_append, List.flatten_cons, List.flatten_nil, List.append_nil]
      exact hs
  | flush =>
    refine ⟨?_, fun _ => by simp [tstep, bufFlush]⟩
    simp only [tstep, TConn.stream, TConn.segs, bufFlush, List.append_nil, ← hs, List.append_assoc,
      List.map_append, List.map_cons, List.map_nil, List.flatten_append, List.flatten_cons, List.flatten_nil]
  | setOutputBuffer size =>
    simp only [tstep]
    split
    · refine ⟨?_, hb⟩
      simp only [TConn.stream, TConn.segs, List.map_append, List.map_cons, List.map_nil,
        List.flatten_append, List.flatten_cons, List.flatten_nil, List.append_nil]
      exact hs
    · split
      · refine ⟨?_, fun _ => rfl⟩
        simp only [TConn.stream, TConn.segs, bufFlush, List.append_nil, ← hs, List.append_assoc,
          List.map_append, List.map_cons, List.map_nil, List.flatten_append, List.flatten_cons, List.flatten_nil]
      · refine ⟨?_, fun _ => rfl⟩
        simp only [TConn.stream, TConn.segs, bufFlush, List.append_nil, ← hs, List.append_assoc,
          List.map_append, List.map_cons, List.map_nil, List.flatten_append, List.flatten_cons, List.flatten_nil]
  | upgrade size =>
    simp only [tstep]
    split
    · refine ⟨?_, hb⟩
      simp only [TConn.stream, TConn.segs, List.map_append, List.map_cons, List.map_nil,
        List.flatten_append, List.flatten_cons, List.flatten_nil, List.append_nil]
      exact hs
    · rename_i hsub
      refine ⟨?_, fun _ => rfl⟩
      have hb' := hb (by simpa using hsub)
      simp only [TConn.stream, TConn.segs, List.append_nil, ← hs, hb', List.flatten_append, List.flatten_cons,
        List.flatten_nil, List.map_append, List.map_cons, List.map_nil, List.append_assoc]
  | subscribe =>
    refine ⟨?_, fun h' => by simp [tstep] at h'⟩
    simp only [tstep, TConn.stream, TConn.segs, List.map_append, List.map_cons, List.map_nil,
      List.flatten_append, List.flatten_cons, List.flatten_nil, List.append_nil]
    exact hs

theorem streamInv_run (fixed : Bool) (c : TConn) (ops : List ConnOp) (h : StreamInv c) :
    StreamInv (trun fixed c ops) := by
  induction ops generalizing c with
  | nil => exact h
  | cons op ops ih => exact ih (tstep fixed c op) (streamInv_step fixed c op h)

theorem tstream (fixed : Bool) (cap : Nat) (ops : List ConnOp) :
    (trun fixed (tconn0 cap) ops).stream = (((trun fixed (tconn0 cap) ops).sent).map encodeFrame).flatten :=
  (streamInv_run fixed _ ops (streamInv_tconn0 cap)).1

/-! ### 2. the transport invariant -/

/-- the current writer sits on the client's stack, and so did every finished segment -/
def Good (c : TConn) : Prop := c.dest = c.top ∧ ∀ s ∈ c.closed, s.dest = s.want

theorem good_tconn0 (cap : Nat) : Good (tconn0 cap) := by simp [Good, tconn0]

theorem good_closed_snoc (c : TConn) (h : Good c) (d : Bytes) :
    ∀ s ∈ c.closed ++ [⟨c.dest, c.top, d⟩], s.dest = s.want := by
  intro s hs
  simp only [List.mem_append, List.mem_singleton] at hs
  rcases hs with hs | hs
  · exact h.2 s hs
  · subst hs; exact h.1

/-- the fixed tree keeps the invariant under every action -/
theorem good_step_fixed (c : TConn) (op : ConnOp) (h : Good c) : Good (tstep true c op) := by
  cases op with
  | sendResponse f => exact h
  | sendMessage f => simp only [tstep]; split <;> exact h
  | flush => exact h
  | setOutputBuffer size =>
    simp only [tstep]
    split
    · exact h
    · simp only [Bool.true_or, if_true]; exact h
  | upgrade size =>
    simp only [tstep]
    split
    · exact h
    · exact ⟨rfl, good_closed_snoc c h _⟩
  | subscribe => exact h

def isRebuffer : ConnOp → Bool
  | .setOutputBuffer _ => true
  | _ => false

/-- in either tree: everything except `SetOutputBuffer` keeps the invariant -/
theorem good_step_other (fixed : Bool) (c : TConn) (op : ConnOp) (h : Good c) (hop : isRebuffer op = false) :
    Good (tstep fixed c op) := by
  cases op with
  | sendResponse f => exact h
  | sendMessage f => simp only [tstep]; split <;> exact h
  | flush => exact h
  | setOutputBuffer size => simp [isRebuffer] at hop
  | upgrade size =>
    simp only [tstep]
    split
    · exact h
    · exact ⟨rfl, good_closed_snoc c h _⟩
  | subscribe => exact h

/-- the unfixed `SetOutputBuffer` is harmless as long as nothing has been negotiated -/
theorem good_step_rebuffer_plain (c : TConn) (size : Nat) (h : Good c) (h0 : c.top = 0) :
    Good (tstep false c (.setOutputBuffer size)) ∧ (tstep false c (.setOutputBuffer size)).top = 0 := by
  have hd : c.dest = 0 := by rw [h.1, h0]
  by_cases hs : c.subscribed = true
  · simp only [tstep, hs, if_true]; exact ⟨h, h0⟩
  · simp only [tstep, hs, hd, Bool.false_or, decide_true, if_true]
    exact ⟨⟨by simp [h0], h.2⟩, h0⟩

theorem good_run_fixed (c : TConn) (ops : List ConnOp) (h : Good c) : Good (trun true c ops) := by
  induction ops generalizing c with
  | nil => exact h
  | cons op ops ih => exact ih (tstep true c op) (good_step_fixed c op h)

theorem good_run_other (fixed : Bool) (c : TConn) (ops : List ConnOp) (h : Good c)
    (hops : ops.all (fun o => !isRebuffer o) = true) : Good (trun fixed c ops) := by
  induction ops generalizing c with
  | nil => exact h
  | cons op ops ih =>
    simp only [List.all_cons, Bool.and_eq_true, Bool.not_eq_true'] at hops
    exact ih (tstep fixed c op) (good_step_other fixed c op h hops.1) hops.2

theorem noRebuffer_all (rest : List ConnOp)
    (h : rest.all (fun o => match o with | .setOutputBuffer _ => false | _ => true) = true) :
    rest.all (fun o => !isRebuffer o) = true := by
  induction rest with
  | nil => rfl
  | cons o rest ih =>
    simp only [List.all_cons, Bool.and_eq_true] at h ⊢
    refine ⟨?_, ih h.2⟩
    cases o <;> simp_all [isRebuffer]

theorem top_step_other (fixed : Bool) (c : TConn) (op : ConnOp) (h0 : c.top = 0)
    (hup : ∀ n, op ≠ .upgrade n) : (tstep fixed c op).top = 0 := by
  cases op with
  | sendResponse f => exact h0
  | sendMessage f => simp only [tstep]; split <;> exact h0
  | flush => exact h0
  | setOutputBuffer size =>
    simp only [tstep]
    split
    · exact h0
    · split <;> exact h0
  | upgrade size => exact absurd rfl (hup size)
  | subscribe => exact h0

/-- the unfixed tree, for a connection that never re-buffers after an upgrade -/
theorem good_run_unfixed (c : TConn) (ops : List ConnOp) (h : Good c) (h0 : c.top = 0)
    (hops : NoRebufferAfterUpgrade ops = true) : Good (trun false c ops) := by
  induction ops generalizing c with
  | nil => exact h
  | cons op ops ih =>
    cases op with
    | upgrade size =>
      simp only [NoRebufferAfterUpgrade] at hops
      exact good_run_other false c (.upgrade size :: ops) h (by
        simp only [List.all_cons, isRebuffer, Bool.not_false, Bool.true_and]
        exact noRebuffer_all ops hops)
    | setOutputBuffer size =>
      simp only [NoRebufferAfterUpgrade] at hops
      obtain ⟨g, t⟩ := good_step_rebuffer_plain c size h h0
      exact ih _ g t hops
    | sendResponse f =>
      simp only [NoRebufferAfterUpgrade] at hops
      exact ih _ (good_step_other false c _ h rfl) (top_step_other false c _ h0 (by intro n; simp)) hops
    | sendMessage f =>
      simp only [NoRebufferAfterUpgrade] at hops
      exact ih _ (good_step_other false c _ h rfl) (top_step_other false c _ h0 (by intro n; simp)) hops
    | flush =>
      simp only [NoRebufferAfterUpgrade] at hops
      exact ih _ (good_step_other false c _ h rfl) (top_step_other false c _ h0 (by intro n; simp)) hops
    | subscribe =>
      simp only [NoRebufferAfterUpgrade] at hops
      exact ih _ (good_step_other false c _ h rfl) (top_step_other false c _ h0 (by intro n; simp)) hops

/-! ### 3. consequences of the invariant -/

theorem good_segs (c : TConn) (h : Good c) : ∀ s ∈ c.segs, s.dest = s.want :=
  good_closed_snoc c h _

theorem good_onNegotiated (c : TConn) (h : Good c) : c.OnNegotiated :=
  fun s hs _ => good_segs c h s hs

theorem good_leaked (c : TConn) (h : Good c) : c.leaked = [] := by
  have : c.segs.filter (fun s => s.dest = 0 && s.want != 0) = [] := by
    apply List.filter_eq_nil_iff.mpr
    intro s hs
    have := good_segs c h s hs
    simp [this]
  simp [TConn.leaked, this]

theorem good_seen (c : TConn) (h : Good c) : c.seen = (c.segs.map (·.data)).flatten := by
  have : c.segs.filter (fun s => s.dest = s.want) = c.segs := by
    apply List.filter_eq_self.mpr
    intro s hs
    simpa using good_segs c h s hs
  simp [TConn.seen, this]

/-! ### 4. the fixed tree IS the round-6 connection model -/

theorem forget_step (c : TConn) (op : ConnOp) : (tstep true c op).forget = connStep c.forget op := by
  cases op with
  | sendResponse f => rfl
  | sendMessage f => by_cases hs : c.subscribed = true <;> simp [tstep, connStep, TConn.forget, hs]
  | flush => rfl
  | setOutputBuffer size => by_cases hs : c.subscribed = true <;> simp [tstep, connStep, TConn.forget, hs]
  | upgrade size => by_cases hs : c.subscribed = true <;> simp [tstep, connStep, TConn.forget, hs]
  | subscribe => rfl

theorem forget_run (c : TConn) (ops : List ConnOp) : (trun true c ops).forget = connRun c.forget ops := by
  induction ops generalizing c with
  | nil => rfl
  | cons op ops ih =>
    show (trun true (tstep true c op) ops).forget = connRun (connStep c.forget op) ops
    rw [ih, forget_step]

end Nsq.Proofs.WireStack
