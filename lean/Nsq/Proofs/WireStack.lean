import Nsq.Model.WireStack
import Nsq.Proofs.Wire
/-! C07 / C11 (audit A2): facts about `Nsq.Model.WireStack` — which transport every output byte goes to. -/
namespace Nsq.Proofs.WireStack
open Nsq.Model.Wire Nsq.Model.WireStack Nsq.Proofs.Wire

/-! ### 1. no byte is lost or reordered, in either tree -/

def StreamInv (c : TConn) : Prop :=
  c.stream = (c.sent.map encodeFrame).flatten ∧ (c.subscribed = false → c.w.buf = [])

theorem streamInv_tconn0 (cap : Nat) : StreamInv (tconn0 cap) := by
  simp [StreamInv, tconn0, TConn.stream, TConn.segs]

theorem streamInv_step (fixed : Bool) (c : TConn) (op : ConnOp) (h : StreamInv c) :
    StreamInv (tstep fixed c op) := by
  obtain ⟨hs, hb⟩ := h
  simp only [TConn.stream, TConn.segs, List.map_append, List.map_cons, List.map_nil,
    List.flatten_append, List.flatten_cons, List.flatten_nil, List.append_nil] at hs
  cases op with
  | sendResponse f =>
    refine ⟨?_, fun _ => by simp [tstep, bufFlush]⟩
    have := writeFrame_stream c.w f
    simp only [tstep, TConn.stream, TConn.segs, bufFlush, List.append_nil, List.map_append, List.map_cons,
      List.map_nil, List.flatten_append, List.flatten_cons, List.flatten_nil, ← hs]
    simp only [List.append_assoc] at this ⊢
    rw [this]
  | sendMessage f =>
    simp only [tstep]
    split
    · rename_i hsub
      refine ⟨?_, fun h' => by simp [hsub] at h'⟩
      have := writeFrame_stream c.w f
      simp only [TConn.stream, TConn.segs, List.map_append, List.map_cons,
        List.map_nil, List.flatten_append, List.flatten_cons, List.flatten_nil, ← hs]
      simp only [List.append_assoc, List.append_nil] at this ⊢
      rw [this]
    · refine ⟨?_, hb⟩
      simp only [TConn.stream, TConn.segs, List.map_append, List.map_cons, List.map_nil,
        List.flatten_append, List.flatten_cons, List.flatten_nil, List.append_nil]
      exact hs
  | flush =>
    refine ⟨?_, fun _ => by simp [tstep, bufFlush]⟩
    simp only [tstep, TConn.stream, TConn.segs, bufFlush, List.append_nil, ← hs, List.append_assoc,
      List.map_append, List.map_cons, List.map_nil, List.flatten_append, List.flatten_cons, List.flatten_nil]
  | setOutputBuffer size =>
    simp only [tstep]
    split
    · refine ⟨?_, hb⟩
      simp only [TConn.stream, TConn.segs, List.map_append, List.map_cons, List.map_nil,
        List.flatten_append, List.flatten_cons, List.flatten_nil, List.append_nil]
      exact hs
    · split
      · refine ⟨?_, fun _ => rfl⟩
        simp only [TConn.stream, TConn.segs, bufFlush, List.append_nil, ← hs, List.append_assoc,
          List.map_append, List.map_cons, List.map_nil, List.flatten_append, List.flatten_cons, List.flatten_nil]
      · refine ⟨?_, fun _ => rfl⟩
        simp only [TConn.stream, TConn.segs, bufFlush, List.append_nil, ← hs, List.append_assoc,
          List.map_append, List.map_cons, List.map_nil, List.flatten_append, List.flatten_cons, List.flatten_nil]
  | upgrade size =>
    simp only [tstep]
    split
    · refine ⟨?_, hb⟩
      simp only [TConn.stream, TConn.segs, List.map_append, List.map_cons, List.map_nil,
        List.flatten_append, List.flatten_cons, List.flatten_nil, List.append_nil]
      exact hs
    · rename_i hsub
      refine ⟨?_, fun _ => rfl⟩
      have hb' := hb (by simpa using hsub)
      simp only [TConn.stream, TConn.segs, List.append_nil, ← hs, hb', List.flatten_append, List.flatten_cons,
        List.flatten_nil, List.map_append, List.map_cons, List.map_nil, List.append_assoc]
  | subscribe =>
    refine ⟨?_, fun h' => by simp [tstep] at h'⟩
    simp only [tstep, TConn.stream, TConn.segs, List.map_append, List.map_cons, List.map_nil,
      List.flatten_append, List.flatten_cons, List.flatten_nil, List.append_nil]
    exact hs

theorem streamInv_run (fixed : Bool) (c : TConn) (ops : List ConnOp) (h : StreamInv c) :
    StreamInv (trun fixed c ops) := by
  induction ops generalizing c with
  | nil => exact h
  | cons op ops ih => exact ih (tstep fixed c op) (streamInv_step fixed c op h)

theorem tstream (fixed : Bool) (cap : Nat) (ops : List ConnOp) :
    (trun fixed (tconn0 cap) ops).stream = (((trun fixed (tconn0 cap) ops).sent).map encodeFrame).flatten :=
  (streamInv_run fixed _ ops (streamInv_tconn0 cap)).1

/-! ### 2. the transport invariant -/

/-- the current writer sits on the client's stack, and so did every finished segment -/
def Good (c : TConn) : Prop := c.dest = c.top ∧ ∀ s ∈ c.closed, s.dest = s.want

theorem good_tconn0 (cap : Nat) : Good (tconn0 cap) := by simp [Good, tconn0]

theorem good_closed_snoc (c : TConn) (h : Good c) (d : Bytes) :
    ∀ s ∈ c.closed ++ [⟨c.dest, c.top, d⟩], s.dest = s.want := by
  intro s hs
  simp only [List.mem_append, List.mem_singleton] at hs
  rcases hs with hs | hs
  · exact h.2 s hs
  · subst hs; exact h.1

/-- the fixed tree keeps the invariant under every action -/
theorem good_step_fixed (c : TConn) (op : ConnOp) (h : Good c) : Good (tstep true c op) := by
  cases op with
  | sendResponse f => exact h
  | sendMessage f => simp only [tstep]; split <;> exact h
  | flush => exact h
  | setOutputBuffer size =>
    simp only [tstep]
    split
    · exact h
    · simp only [Bool.true_or, if_true]; exact h
  | upgrade size =>
    simp only [tstep]
    split
    · exact h
    · exact ⟨rfl, good_closed_snoc c h _⟩
  | subscribe => exact h

def isRebuffer : ConnOp → Bool
  | .setOutputBuffer _ => true
  | _ => false

/-- in either tree: everything except `SetOutputBuffer` keeps the invariant -/
theorem good_step_other (fixed : Bool) (c : TConn) (op : ConnOp) (h : Good c) (hop : isRebuffer op = false) :
    Good (tstep fixed c op) := by
  cases op with
  | sendResponse f => exact h
  | sendMessage f => simp only [tstep]; split <;> exact h
  | flush => exact h
  | setOutputBuffer size => simp [isRebuffer] at hop
  | upgrade size =>
    simp only [tstep]
    split
    · exact h
    · exact ⟨rfl, good_closed_snoc c h _⟩
  | subscribe => exact h

/-- the unfixed `SetOutputBuffer` is harmless as long as nothing has been negotiated -/
theorem good_step_rebuffer_plain (c : TConn) (size : Nat) (h : Good c) (h0 : c.top = 0) :
    Good (tstep false c (.setOutputBuffer size)) ∧ (tstep false c (.setOutputBuffer size)).top = 0 := by
  have hd : c.dest = 0 := by rw [h.1, h0]
  by_cases hs : c.subscribed = true
  · simp only [tstep, hs, if_true]; exact ⟨h, h0⟩
  · simp only [tstep, hs, hd, Bool.false_or, decide_true, if_true]
    exact ⟨⟨by simp [h0], h.2⟩, h0⟩

theorem good_run_fixed (c : TConn) (ops : List ConnOp) (h : Good c) : Good (trun true c ops) := by
  induction ops generalizing c with
  | nil => exact h
  | cons op ops ih => exact ih (tstep true c op) (good_step_fixed c op h)

theorem good_run_other (fixed : Bool) (c : TConn) (ops : List ConnOp) (h : Good c)
    (hops : ops.all (fun o => !isRebuffer o) = true) : Good (trun fixed c ops) := by
  induction ops generalizing c with
  | nil => exact h
  | cons op ops ih =>
    simp only [List.all_cons, Bool.and_eq_true, Bool.not_eq_true'] at hops
    exact ih (tstep fixed c op) (good_step_other fixed c op h hops.1) hops.2

theorem noRebuffer_all (rest : List ConnOp)
    (h : rest.all (fun o => match o with | .setOutputBuffer _ => false | _ => true) = true) :
    rest.all (fun o => !isRebuffer o) = true := by
  induction rest with
  | nil => rfl
  | cons o rest ih =>
    simp only [List.all_cons, Bool.and_eq_true] at h ⊢
    refine ⟨?_, ih h.2⟩
    cases o <;> simp_all [isRebuffer]

theorem top_step_other (fixed : Bool) (c : TConn) (op : ConnOp) (h0 : c.top = 0)
    (hup : ∀ n, op ≠ .upgrade n) : (tstep fixed c op).top = 0 := by
  cases op with
  | sendResponse f => exact h0
  | sendMessage f => simp only [tstep]; split <;> exact h0
  | flush => exact h0
  | setOutputBuffer size =>
    simp only [tstep]
    split
    · exact h0
    · split <;> exact h0
  | upgrade size => exact absurd rfl (hup size)
  | subscribe => exact h0

/-- the unfixed tree, for a connection that never re-buffers after an upgrade -/
theorem good_run_unfixed (c : TConn) (ops : List ConnOp) (h : Good c) (h0 : c.top = 0)
    (hops : NoRebufferAfterUpgrade ops = true) : Good (trun false c ops) := by
  induction ops generalizing c with
  | nil => exact h
  | cons op ops ih =>
    cases op with
    | upgrade size =>
      simp only [NoRebufferAfterUpgrade] at hops
      exact good_run_other false c (.upgrade size :: ops) h (by
        simp only [List.all_cons, isRebuffer, Bool.not_false, Bool.true_and]
        exact noRebuffer_all ops hops)
    | setOutputBuffer size =>
      simp only [NoRebufferAfterUpgrade] at hops
      obtain ⟨g, t⟩ := good_step_rebuffer_plain c size h h0
      exact ih _ g t hops
    | sendResponse f =>
      simp only [NoRebufferAfterUpgrade] at hops
      exact ih _ (good_step_other false c _ h rfl) (top_step_other false c _ h0 (by intro n; simp)) hops
    | sendMessage f =>
      simp only [NoRebufferAfterUpgrade] at hops
      exact ih _ (good_step_other false c _ h rfl) (top_step_other false c _ h0 (by intro n; simp)) hops
    | flush =>
      simp only [NoRebufferAfterUpgrade] at hops
      exact ih _ (good_step_other false c _ h rfl) (top_step_other false c _ h0 (by intro n; simp)) hops
    | subscribe =>
      simp only [NoRebufferAfterUpgrade] at hops
      exact ih _ (good_step_other false c _ h rfl) (top_step_other false c _ h0 (by intro n; simp)) hops

/-! ### 3. consequences of the invariant -/

theorem good_segs (c : TConn) (h : Good c) : ∀ s ∈ c.segs, s.dest = s.want :=
  good_closed_snoc c h _

theorem good_onNegotiated (c : TConn) (h : Good c) : c.OnNegotiated :=
  fun s hs _ => good_segs c h s hs

theorem good_leaked (c : TConn) (h : Good c) : c.leaked = [] := by
  have : c.segs.filter (fun s => s.dest = 0 && s.want != 0) = [] := by
    apply List.filter_eq_nil_iff.mpr
    intro s hs
    have := good_segs c h s hs
    simp [this]
  simp [TConn.leaked, this]

theorem good_seen (c : TConn) (h : Good c) : c.seen = (c.segs.map (·.data)).flatten := by
  have : c.segs.filter (fun s => s.dest = s.want) = c.segs := by
    apply List.filter_eq_self.mpr
    intro s hs
    simpa using good_segs c h s hs
  simp [TConn.seen, this]

/-! ### 4. the fixed tree IS the round-6 connection model -/

theorem forget_step (c : TConn) (op : ConnOp) : (tstep true c op).forget = connStep c.forget op := by
  cases op with
  | sendResponse f => rfl
  | sendMessage f => by_cases hs : c.subscribed = true <;> simp [tstep, connStep, TConn.forget, hs]
  | flush => rfl
  | setOutputBuffer size => by_cases hs : c.subscribed = true <;> simp [tstep, connStep, TConn.forget, hs]
  | upgrade size => by_cases hs : c.subscribed = true <;> simp [tstep, connStep, TConn.forget, hs]
  | subscribe => rfl

theorem forget_run (c : TConn) (ops : List ConnOp) : (trun true c ops).forget = connRun c.forget ops := by
  induction ops generalizing c with
  | nil => rfl
  | cons op ops ih =>
    show (trun true (tstep true c op) ops).forget = connRun (connStep c.forget op) ops
    rw [ih, forget_step]

/-! ### 5. upgrade kinds and `c.flateWriter` (round 11) -/

theorem krun_cons (tr : Tree) (c : KConn) (op : KOp) (ops : List KOp) :
    krun tr c (op :: ops) = krun tr (kstep tr c op) ops := rfl

theorem kstep_t (tr : Tree) (c : KConn) (op : KOp) : (kstep tr c op).t = tstep tr.rebufferKeeps c.t op.forget := by
  cases op with
  | sendResponse f => rfl
  | sendMessage f => rfl
  | flush => rfl
  | setOutputBuffer n => rfl
  | upgrade k n =>
    cases k <;> by_cases hs : c.t.subscribed = true <;> simp [kstep, KOp.forget, tstep, hs]
  | subscribe => rfl

/-- the frame-level connection of the kinded model IS the round-8 model: every theorem about `trun` lifts -/
theorem krun_t (tr : Tree) (c : KConn) (ops : List KOp) :
    (krun tr c ops).t = trun tr.rebufferKeeps c.t (ops.map KOp.forget) := by
  induction ops generalizing c with
  | nil => rfl
  | cons op ops ih =>
    rw [krun_cons, ih, kstep_t]; rfl

theorem tstep_top_upgrade (fixed : Bool) (c : TConn) (n : Nat) (hs : c.subscribed = false) :
    (tstep fixed c (.upgrade n)).top = c.top + 1 := by simp [tstep, hs]

theorem tstep_top_other (fixed : Bool) (c : TConn) (op : ConnOp) (hup : ∀ n, op ≠ .upgrade n) :
    (tstep fixed c op).top = c.top := by
  cases op with
  | sendResponse f => rfl
  | sendMessage f => simp only [tstep]; split <;> rfl
  | flush => rfl
  | setOutputBuffer size =>
    simp only [tstep]
    split
    · rfl
    · split <;> rfl
  | upgrade size => exact absurd rfl (hup size)
  | subscribe => rfl

/-- the flate writer, if any, is the current stack's own; nothing stray has been written -/
def Clean (c : KConn) : Prop := (∀ w, c.fw = some w → w.stack = c.t.top) ∧ c.stray = []

theorem clean_kconn0 (cap : Nat) : Clean (kconn0 cap) := by simp [Clean, kconn0]

theorem clean_mark (c : KConn) (t' : TConn) (h : Clean c) (ht : t'.top = c.t.top) : c.mark t' = [] := by
  unfold KConn.mark
  cases hf : c.fw with
  | none => rfl
  | some w => simp [h.1 w hf, ht]

/-- a tree in which BOTH other upgrades drop `c.flateWriter` (F30 + F30b) never has a stale one -/
theorem clean_step (tr : Tree) (hs : tr.snappyClears = true) (ht : tr.tlsClears = true) (c : KConn) (op : KOp)
    (h : Clean c) : Clean (kstep tr c op) := by
  cases op with
  | sendResponse f =>
    have hm := clean_mark c (tstep tr.rebufferKeeps c.t (.sendResponse f)) h rfl
    exact ⟨h.1, by simp [kstep, hm, h.2]⟩
  | sendMessage f =>
    refine ⟨?_, h.2⟩
    intro w hw
    have := h.1 w hw
    simp only [kstep]
    rw [tstep_top_other _ _ _ (by intro n; simp)]; exact this
  | flush =>
    have hm := clean_mark c (tstep tr.rebufferKeeps c.t .flush) h rfl
    exact ⟨h.1, by simp [kstep, hm, h.2]⟩
  | setOutputBuffer n =>
    refine ⟨?_, h.2⟩
    intro w hw
    have := h.1 w hw
    simp only [kstep]
    rw [tstep_top_other _ _ _ (by intro n; simp)]; exact this
  | upgrade k n =>
    by_cases hsub : c.t.subscribed = true
    · cases k <;> simp only [kstep, hsub, if_true] <;> exact h
    · have hsub' : c.t.subscribed = false := by simpa using hsub
      cases k with
      | tls => simp only [kstep, hsub', ht, if_true]; exact ⟨(by intro w hw; cases hw), h.2⟩
      | snappy => simp only [kstep, hsub', hs, if_true]; exact ⟨(by intro w hw; cases hw), h.2⟩
      | deflate =>
        simp only [kstep, hsub']
        refine ⟨?_, h.2⟩
        intro w hw
        simp only [Bool.false_eq_true, if_false, Option.some.injEq] at hw
        subst hw
        simp [tstep_top_upgrade _ _ _ hsub']
  | subscribe => exact ⟨h.1, h.2⟩

theorem clean_run (tr : Tree) (hs : tr.snappyClears = true) (ht : tr.tlsClears = true) (c : KConn) (ops : List KOp)
    (h : Clean c) : Clean (krun tr c ops) := by
  induction ops generalizing c with
  | nil => exact h
  | cons op ops ih => exact ih _ (clean_step tr hs ht c op h)

/-- in EVERY tree: a flate writer writes to a layer below its own stack, which is at most the client's; so a stray
marker never lands on the transport the client decodes with -/
def Layered (c : KConn) : Prop :=
  (∀ w, c.fw = some w → w.layer < w.stack ∧ w.stack ≤ c.t.top) ∧ c.layer ≤ c.t.top ∧ ∀ s ∈ c.stray, s.dest < s.want

theorem layered_kconn0 (cap : Nat) : Layered (kconn0 cap) := by simp [Layered, kconn0, tconn0]

theorem layered_mark (c : KConn) (t' : TConn) (h : Layered c) (ht : t'.top = c.t.top) :
    ∀ s ∈ c.stray ++ c.mark t', s.dest < s.want := by
  intro s hs
  rw [List.mem_append] at hs
  rcases hs with hs | hs
  · exact h.2.2 s hs
  · unfold KConn.mark at hs
    cases hf : c.fw with
    | none => simp [hf] at hs
    | some w =>
      have := h.1 w hf
      by_cases hw : w.stack = t'.top
      · simp [hf, hw] at hs
      · simp only [hf, hw, if_false, List.mem_singleton] at hs
        subst hs
        show w.layer < t'.top
        omega

theorem layered_step (tr : Tree) (c : KConn) (op : KOp) (h : Layered c) : Layered (kstep tr c op) := by
  cases op with
  | sendResponse f => exact ⟨h.1, h.2.1, layered_mark c _ h rfl⟩
  | sendMessage f =>
    have ht : (tstep tr.rebufferKeeps c.t (.sendMessage f)).top = c.t.top := tstep_top_other _ _ _ (by intro n; simp)
    exact ⟨by simpa [kstep, ht] using h.1, by simpa [kstep, ht] using h.2.1, h.2.2⟩
  | flush => exact ⟨h.1, h.2.1, layered_mark c _ h rfl⟩
  | setOutputBuffer n =>
    have ht : (tstep tr.rebufferKeeps c.t (.setOutputBuffer n)).top = c.t.top := tstep_top_other _ _ _ (by intro n; simp)
    exact ⟨by simpa [kstep, ht] using h.1, by simpa [kstep, ht] using h.2.1, h.2.2⟩
  | upgrade k n =>
    by_cases hsub : c.t.subscribed = true
    · cases k <;> simp only [kstep, hsub, if_true] <;> exact h
    · have hsub' : c.t.subscribed = false := by simpa using hsub
      have ht := tstep_top_upgrade tr.rebufferKeeps c.t n hsub'
      obtain ⟨h1, h2, h3⟩ := h
      cases k with
      | tls =>
        simp only [kstep, hsub', Bool.false_eq_true, if_false]
        refine ⟨?_, by simp [ht], h3⟩
        intro w hw
        rw [ht]
        by_cases hc : tr.tlsClears = true
        · simp [hc] at hw
        · simp only [hc] at hw
          have := h1 w hw; omega
      | snappy =>
        simp only [kstep, hsub', Bool.false_eq_true, if_false]
        refine ⟨?_, (by show c.layer ≤ _; rw [ht]; omega), h3⟩
        intro w hw
        rw [ht]
        by_cases hc : tr.snappyClears = true
        · simp [hc] at hw
        · simp only [hc] at hw
          have := h1 w hw; omega
      | deflate =>
        simp only [kstep, hsub', Bool.false_eq_true, if_false]
        refine ⟨?_, (by show c.layer ≤ _; rw [ht]; omega), h3⟩
        intro w hw
        simp only [Option.some.injEq] at hw
        subst hw
        rw [ht]; simp; omega
  | subscribe => exact h

theorem layered_run (tr : Tree) (c : KConn) (ops : List KOp) (h : Layered c) : Layered (krun tr c ops) := by
  induction ops generalizing c with
  | nil => exact h
  | cons op ops ih => exact ih _ (layered_step tr c op h)

/-- the clause with markers = the frame clause + "no stale flate writer has ever been flushed" -/
theorem kOnNegotiated_iff (c : KConn) (h : Layered c) : c.OnNegotiated ↔ c.t.OnNegotiated ∧ c.stray = [] := by
  constructor
  · intro ⟨h1, h2⟩
    refine ⟨h1, ?_⟩
    cases hs : c.stray with
    | nil => rfl
    | cons s rest =>
      have a := h2 s (by simp [hs])
      have b := h.2.2 s (by simp [hs])
      omega
  · intro ⟨h1, h2⟩
    exact ⟨h1, by simp [h2]⟩

/-! which orders leave a stale writer on the d6aa4e3 tree -/

/-- the d6aa4e3 tree's `c.flateWriter` and upgrade count are a function of the upgrade kinds -/
def FwTracks (c : KConn) : Prop := (c.fw.map (·.stack), c.t.top) = fwAfter c.kinds

theorem fwAfter_snoc (ks : List UKind) (k : UKind) : fwAfter (ks ++ [k]) = fwStep (fwAfter ks) k := by
  simp [fwAfter, List.foldl_append]

theorem fwTracks_step (c : KConn) (op : KOp) (h : FwTracks c) : FwTracks (kstep treeF30 c op) := by
  unfold FwTracks at h ⊢
  cases op with
  | sendResponse f => exact h
  | sendMessage f =>
    have ht : (tstep true c.t (.sendMessage f)).top = c.t.top := tstep_top_other _ _ _ (by intro n; simp)
    simpa [kstep, treeF30, ht] using h
  | flush => exact h
  | setOutputBuffer n =>
    have ht : (tstep true c.t (.setOutputBuffer n)).top = c.t.top := tstep_top_other _ _ _ (by intro n; simp)
    simpa [kstep, treeF30, ht] using h
  | upgrade k n =>
    by_cases hsub : c.t.subscribed = true
    · cases k <;> simp only [kstep, hsub, if_true] <;> exact h
    · have hsub' : c.t.subscribed = false := by simpa using hsub
      have ht := tstep_top_upgrade true c.t n hsub'
      have h1 : (fwAfter c.kinds).1 = c.fw.map (·.stack) := by rw [← h]
      have h2 : (fwAfter c.kinds).2 = c.t.top := by rw [← h]
      cases k with
      | tls => simp [kstep, treeF30, hsub', fwAfter_snoc, fwStep, ht, h1, h2]
      | snappy => simp [kstep, treeF30, hsub', fwAfter_snoc, fwStep, ht, h2]
      | deflate => simp [kstep, treeF30, hsub', fwAfter_snoc, fwStep, ht, h2]
  | subscribe => exact h

theorem fwTracks_run (c : KConn) (ops : List KOp) (h : FwTracks c) : FwTracks (krun treeF30 c ops) := by
  induction ops generalizing c with
  | nil => exact h
  | cons op ops ih => exact ih _ (fwTracks_step c op h)

theorem stale_iff_of_tracks (c : KConn) (h : FwTracks c) : c.Stale ↔ staleAfter c.kinds = true := by
  unfold FwTracks at h
  unfold staleAfter KConn.Stale
  rw [← h]
  cases hf : c.fw with
  | none => simp
  | some w => simp

/-! the four shapes of a list of upgrade kinds (every list is exactly one of them) -/

theorem foldl_fwStep_snd (ks : List UKind) (acc : Option Nat × Nat) :
    (ks.foldl fwStep acc).2 = acc.2 + ks.length := by
  induction ks generalizing acc with
  | nil => rfl
  | cons k ks ih => rw [List.foldl_cons, ih]; cases k <;> simp [fwStep] <;> omega

theorem fwAfter_snd (ks : List UKind) : (fwAfter ks).2 = ks.length := by
  simp [fwAfter, foldl_fwStep_snd]

theorem fwAfter_tls (ks : List UKind) (n : Nat) :
    fwAfter (ks ++ List.replicate n .tls) = ((fwAfter ks).1, ks.length + n) := by
  induction n with
  | zero => simp [← fwAfter_snd ks]
  | succ n ih =>
    rw [List.replicate_succ', ← List.append_assoc, fwAfter_snoc, ih]
    simp [fwStep]; omega

/-- no upgrade other than TLS: never stale -/
theorem staleAfter_only_tls (n : Nat) : staleAfter (List.replicate n .tls) = false := by
  unfold staleAfter
  rw [show List.replicate n UKind.tls = [] ++ List.replicate n UKind.tls from rfl, fwAfter_tls]
  simp [fwAfter]

/-- the last non-TLS upgrade was snappy: not stale -/
theorem staleAfter_snappy (ks : List UKind) (n : Nat) :
    staleAfter (ks ++ [.snappy] ++ List.replicate n .tls) = false := by
  unfold staleAfter
  rw [fwAfter_tls, fwAfter_snoc]
  simp [fwStep]

/-- the last upgrade was deflate: not stale -/
theorem staleAfter_deflate_last (ks : List UKind) : staleAfter (ks ++ [.deflate]) = false := by
  simp [staleAfter, fwAfter_snoc, fwStep, fwAfter_snd]

/-- deflate, then one or more TLS upgrades: STALE (`c.flateWriter` is the deflate writer of upgrade `|ks| + 1`) -/
theorem staleAfter_deflate_tls (ks : List UKind) (n : Nat) :
    staleAfter (ks ++ [.deflate] ++ List.replicate (n + 1) .tls) = true := by
  unfold staleAfter
  rw [fwAfter_tls, fwAfter_snoc]
  simp [fwStep, fwAfter_snd]

/-! the d6aa4e3 tree behaves like the F30b tree as long as no TLS upgrade meets a flate writer -/

theorem kstep_F30_eq (c : KConn) (op : KOp) (h : op.isTls = true → c.fw = none) :
    kstep treeF30 c op = kstep treeF30b c op := by
  cases op with
  | upgrade k n =>
    cases k with
    | tls =>
      have := h rfl
      simp [kstep, treeF30, treeF30b, this]
    | snappy => rfl
    | deflate => rfl
  | _ => rfl

theorem krun_F30_eq_notls (c : KConn) (ops : List KOp) (h : ops.all (fun o => !o.isTls) = true) :
    krun treeF30 c ops = krun treeF30b c ops := by
  induction ops generalizing c with
  | nil => rfl
  | cons op ops ih =>
    simp only [List.all_cons, Bool.and_eq_true, Bool.not_eq_true'] at h
    rw [krun_cons, krun_cons, kstep_F30_eq c op (by intro ht; rw [h.1] at ht; cases ht), ih _ h.2]

theorem kstep_fw_none (tr : Tree) (c : KConn) (op : KOp) (h : c.fw = none) (hd : ∀ n, op ≠ .upgrade .deflate n) :
    (kstep tr c op).fw = none := by
  cases op with
  | upgrade k n =>
    cases k with
    | tls => by_cases hs : c.t.subscribed = true <;> simp [kstep, hs, h]
    | snappy => by_cases hs : c.t.subscribed = true <;> simp [kstep, hs, h]
    | deflate => exact absurd rfl (hd n)
  | _ => exact h

theorem krun_F30_eq (c : KConn) (ops : List KOp) (hf : c.fw = none) (h : NoTlsAfterDeflate ops = true) :
    krun treeF30 c ops = krun treeF30b c ops := by
  induction ops generalizing c with
  | nil => rfl
  | cons op ops ih =>
    cases op with
    | upgrade k n =>
      cases k with
      | deflate =>
        simp only [NoTlsAfterDeflate] at h
        exact krun_F30_eq_notls c _ (by simp only [List.all_cons, KOp.isTls, Bool.not_false, Bool.true_and]; exact h)
      | tls =>
        simp only [NoTlsAfterDeflate] at h
        rw [krun_cons, krun_cons, kstep_F30_eq c _ (fun _ => hf)]
        exact ih _ (kstep_fw_none _ c _ hf (by intro n; simp)) h
      | snappy =>
        simp only [NoTlsAfterDeflate] at h
        rw [krun_cons, krun_cons, kstep_F30_eq c _ (fun _ => hf)]
        exact ih _ (kstep_fw_none _ c _ hf (by intro n; simp)) h
    | sendResponse f =>
      simp only [NoTlsAfterDeflate] at h
      rw [krun_cons, krun_cons, kstep_F30_eq c _ (fun _ => hf)]
      exact ih _ (kstep_fw_none _ c _ hf (by intro n; simp)) h
    | sendMessage f =>
      simp only [NoTlsAfterDeflate] at h
      rw [krun_cons, krun_cons, kstep_F30_eq c _ (fun _ => hf)]
      exact ih _ (kstep_fw_none _ c _ hf (by intro n; simp)) h
    | flush =>
      simp only [NoTlsAfterDeflate] at h
      rw [krun_cons, krun_cons, kstep_F30_eq c _ (fun _ => hf)]
      exact ih _ (kstep_fw_none _ c _ hf (by intro n; simp)) h
    | setOutputBuffer m =>
      simp only [NoTlsAfterDeflate] at h
      rw [krun_cons, krun_cons, kstep_F30_eq c _ (fun _ => hf)]
      exact ih _ (kstep_fw_none _ c _ hf (by intro n; simp)) h
    | subscribe =>
      simp only [NoTlsAfterDeflate] at h
      rw [krun_cons, krun_cons, kstep_F30_eq c _ (fun _ => hf)]
      exact ih _ (kstep_fw_none _ c _ hf (by intro n; simp)) h

end Nsq.Proofs.WireStack
