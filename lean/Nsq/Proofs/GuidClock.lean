import Nsq.Model.GuidClock
import Nsq.Proofs.GuidExtra
/-!
Helper lemmas for `Nsq.Props.C12Clock`: what `Topic.GenerateID` does when the clock is behind the
factory (waits, state untouched), when it is released, the 41-bit horizon and restarts.
-/
namespace Nsq.Proofs.GuidClock
open Nsq.Model.Guid Nsq.Model.GuidClock Nsq.Proofs.Guid Nsq.Proofs.GuidExtra

/-! ## 1. behind the factory: nothing happens -/

theorem newGUID_behind {f : St} {now : BitVec 64} (h : (tsOf now).toInt < f.lastTs.toInt) :
    newGUID f now = (f, 0#64, .timeBackwards) := by
  have h1 : BitVec.slt (BitVec.sshiftRight now 20) f.lastTs = true := by
    simpa [BitVec.slt, tsOf] using h
  unfold newGUID
  simp [h1]

theorem generateID_behind (f : St) (clock : List (BitVec 64))
    (h : ∀ now ∈ clock, (tsOf now).toInt < f.lastTs.toInt) : generateID f clock = (f, none) := by
  induction clock with
  | nil => rfl
  | cons now rest ih =>
    have h0 := newGUID_behind (h now (List.mem_cons_self ..))
    unfold generateID
    simp only [h0]
    simpa using ih (fun n hn => h n (List.mem_cons_of_mem _ hn))

theorem run_behind (f : St) (clock : List (BitVec 64))
    (h : ∀ now ∈ clock, (tsOf now).toInt < f.lastTs.toInt) : run f clock = [] ∧ runSt f clock = f := by
  induction clock with
  | nil => exact ⟨rfl, rfl⟩
  | cons now rest ih =>
    have h0 := newGUID_behind (h now (List.mem_cons_self ..))
    have ih' := ih (fun n hn => h n (List.mem_cons_of_mem _ hn))
    unfold run runSt
    simp only [h0]
    simpa using ih'

/-! ## 2. what a returned id looks like -/

theorem newGUID_lastTs_mono (f : St) (now : BitVec 64) :
    f.lastTs.toInt ≤ (newGUID f now).1.lastTs.toInt := by
  unfold newGUID
  simp only []
  by_cases h1 : BitVec.slt (BitVec.sshiftRight now 20) f.lastTs = true
  · simp [h1]
  · have hle : f.lastTs.toInt ≤ (BitVec.sshiftRight now 20).toInt := by
      simpa [BitVec.slt] using h1
    by_cases h2 : (f.lastTs == BitVec.sshiftRight now 20) = true
    · by_cases h3 : ((f.seq + 1#64) &&& 4095#64 == 0#64) = true
      · simp [h1, h2, h3]
      · by_cases h4 : BitVec.sle (pack (BitVec.sshiftRight now 20) f.nodeID ((f.seq + 1#64) &&& 4095#64)) f.lastID = true
        · simp only [h1, h2, h3, h4, if_true, if_false, Bool.false_eq_true]; exact hle
        · simp only [h1, h2, h3, h4, if_true, if_false, Bool.false_eq_true]; exact hle
    · by_cases h4 : BitVec.sle (pack (BitVec.sshiftRight now 20) f.nodeID 0#64) f.lastID = true
      · simp only [h1, h2, h4, if_true, if_false, Bool.false_eq_true]; exact hle
      · simp only [h1, h2, h4, if_true, if_false, Bool.false_eq_true]; exact hle

/-- a successful call was made at a reading that is not behind the factory, stores that reading's
pseudo-millisecond and returns an id carrying it -/
theorem newGUID_ok_ts {f : St} {now : BitVec 64} (h : (newGUID f now).2.2 = .none) :
    f.lastTs.toInt ≤ (tsOf now).toInt ∧ (newGUID f now).1.lastTs = tsOf now := by
  unfold newGUID at h ⊢
  unfold tsOf
  simp only [] at h ⊢
  by_cases h1 : BitVec.slt (BitVec.sshiftRight now 20) f.lastTs = true
  · simp [h1] at h
  · have hle : f.lastTs.toInt ≤ (BitVec.sshiftRight now 20).toInt := by
      simpa [BitVec.slt] using h1
    by_cases h2 : (f.lastTs == BitVec.sshiftRight now 20) = true
    · by_cases h3 : ((f.seq + 1#64) &&& 4095#64 == 0#64) = true
      · simp [h1, h2, h3] at h
      · by_cases h4 : BitVec.sle (pack (BitVec.sshiftRight now 20) f.nodeID ((f.seq + 1#64) &&& 4095#64)) f.lastID = true
        · simp [h1, h2, h3, h4] at h
        · simp only [h1, h2, h3, h4, if_true, if_false, Bool.false_eq_true]; exact ⟨hle, trivial⟩
    · by_cases h4 : BitVec.sle (pack (BitVec.sshiftRight now 20) f.nodeID 0#64) f.lastID = true
      · simp [h1, h2, h4] at h
      · simp only [h1, h2, h4, if_true, if_false, Bool.false_eq_true]; exact ⟨hle, trivial⟩

theorem generateID_nodeID (f : St) (clock : List (BitVec 64)) :
    (generateID f clock).1.nodeID = f.nodeID := by
  induction clock generalizing f with
  | nil => rfl
  | cons now rest ih =>
    unfold generateID
    simp only []
    split
    · exact nodeID_const f now
    · rw [ih]; exact nodeID_const f now

/-- `GenerateID` returns only at a clock reading that is not behind the factory it started from; the
id carries that reading's pseudo-millisecond, the factory's node id and a 12-bit sequence. -/
theorem generateID_waits {f : St} {clock : List (BitVec 64)} {f' : St} {id : BitVec 64}
    (h : generateID f clock = (f', some id)) :
    ∃ now ∈ clock, f.lastTs.toInt ≤ (tsOf now).toInt ∧ f'.lastTs = tsOf now ∧
      ∃ s : BitVec 64, id = pack (tsOf now) f.nodeID (s &&& 4095#64) := by
  induction clock generalizing f with
  | nil => simp [generateID] at h
  | cons now rest ih =>
    unfold generateID at h
    simp only [] at h
    split at h
    · next hok =>
      simp only [Prod.mk.injEq, Option.some.injEq] at h
      obtain ⟨rfl, rfl⟩ := h
      have ⟨a, b⟩ := newGUID_ok_ts hok
      exact ⟨now, List.mem_cons_self .., a, b, newGUID_ok_shape hok⟩
    · next herr =>
      obtain ⟨n, hn, a, b, s, hs⟩ := ih h
      have hm := newGUID_lastTs_mono f now
      refine ⟨n, List.mem_cons_of_mem _ hn, by omega, b, s, ?_⟩
      rw [hs, nodeID_const]

theorem generateID_none_lastID {f : St} {clock : List (BitVec 64)} {f' : St}
    (h : generateID f clock = (f', none)) : f'.lastID = f.lastID := by
  induction clock generalizing f with
  | nil => simp [generateID] at h; rw [h]
  | cons now rest ih =>
    unfold generateID at h
    simp only [] at h
    split at h
    · simp at h
    · next herr => rw [ih h, newGUID_err herr]

/-! ## 3. a sequence of GenerateID calls -/

theorem genMany_gt (f : St) (cs : List (List (BitVec 64))) :
    ∀ x ∈ (genMany f cs).1, f.lastID.toInt < x.toInt := by
  induction cs generalizing f with
  | nil => intro x hx; simp [genMany] at hx
  | cons c cs ih =>
    intro x hx
    unfold genMany at hx
    simp only [] at hx
    split at hx
    · next id hid =>
      have hg : generateID f c = ((generateID f c).1, some id) := by rw [← hid]
      have ⟨h1, h2⟩ := generateID_some hg
      rcases List.mem_cons.mp hx with rfl | hx
      · exact h1
      · have := ih _ x hx
        rw [h2] at this; omega
    · next hnone =>
      have hg : generateID f c = ((generateID f c).1, none) := by rw [← hnone]
      have := ih _ x hx
      rw [generateID_none_lastID hg] at this
      exact this

theorem genMany_pairwise (f : St) (cs : List (List (BitVec 64))) :
    (genMany f cs).1.Pairwise (fun a b => a.toInt < b.toInt) := by
  induction cs generalizing f with
  | nil => simp [genMany]
  | cons c cs ih =>
    unfold genMany
    simp only []
    split
    · next id hid =>
      have hg : generateID f c = ((generateID f c).1, some id) := by rw [← hid]
      refine List.pairwise_cons.mpr ⟨?_, ih _⟩
      intro x hx
      have := genMany_gt _ cs x hx
      rw [(generateID_some hg).2] at this
      exact this
    · exact ih _

/-! ## 4. progress inside the 41-bit horizon -/

/-- a pseudo-millisecond the id layout can hold: after `twepoch`, less than 2^41 later (≈ 2085) -/
def InHorizon (ts : BitVec 64) : Prop :=
  twepoch.toNat < ts.toNat ∧ ts.toNat < twepoch.toNat + 2 ^ 41

/-- states the factory can be in after any in-horizon history from a fresh factory: valid node id,
12-bit sequence, and the last id's time field is not after `lastTs` -/
def WF (f : St) : Prop :=
  f.nodeID.toNat < 1024 ∧ f.seq.toNat < 4096 ∧ f.lastTs.toNat < 2 ^ 63 ∧ f.lastID.toNat < 2 ^ 63 ∧
  (f.lastID.toNat / 2 ^ 22 + twepoch.toNat ≤ f.lastTs.toNat ∨ f.lastID.toNat < 2 ^ 22)

instance (ts : BitVec 64) : Decidable (InHorizon ts) :=
  inferInstanceAs (Decidable (twepoch.toNat < ts.toNat ∧ ts.toNat < twepoch.toNat + 2 ^ 41))
instance (f : St) : Decidable (WF f) :=
  inferInstanceAs (Decidable (f.nodeID.toNat < 1024 ∧ f.seq.toNat < 4096 ∧ f.lastTs.toNat < 2 ^ 63 ∧
    f.lastID.toNat < 2 ^ 63 ∧
    (f.lastID.toNat / 2 ^ 22 + twepoch.toNat ≤ f.lastTs.toNat ∨ f.lastID.toNat < 2 ^ 22)))

theorem twepoch_toNat : twepoch.toNat = 1288834974288 := by decide

theorem sub_twepoch {ts : BitVec 64} (h : InHorizon ts) :
    (ts - twepoch).toNat = ts.toNat - twepoch.toNat ∧ (ts - twepoch).toNat < 2 ^ 41 ∧
    0 < (ts - twepoch).toNat := by
  obtain ⟨h1, h2⟩ := h
  have e : (ts - twepoch).toNat = ts.toNat - twepoch.toNat := by
    rw [BitVec.toNat_sub]
    have := ts.isLt
    rw [twepoch_toNat] at h1 h2 ⊢
    omega
  rw [e]
  omega

theorem toInt_of_lt {a : BitVec 64} (h : a.toNat < 2 ^ 63) : a.toInt = a.toNat :=
  BitVec.toInt_eq_toNat_of_lt (by omega)

theorem and_mask_lt (x : BitVec 64) : (x &&& 4095#64).toNat < 4096 := by
  rw [BitVec.toNat_and]
  have : (4095#64).toNat = 4095 := rfl
  rw [this]
  have := @Nat.and_le_right x.toNat 4095
  omega

/-- the packed id of an in-horizon pseudo-millisecond, as a number -/
theorem pack_val {ts node seq : BitVec 64} (h : InHorizon ts) (hn : node.toNat < 1024) (hs : seq.toNat < 4096) :
    (pack ts node seq).toNat = (ts.toNat - twepoch.toNat) * 2 ^ 22 + node.toNat * 2 ^ 12 + seq.toNat ∧
    (pack ts node seq).toNat < 2 ^ 63 := by
  have ⟨e, hlt, _⟩ := sub_twepoch h
  have := pack_toNat ts node seq hlt hn hs
  rw [e] at this
  refine ⟨this, ?_⟩
  rw [this]
  rw [e] at hlt
  omega

/-- in a later, in-horizon pseudo-millisecond a well-formed factory always succeeds -/
theorem newGUID_fresh_ms {f : St} {now : BitVec 64} (hwf : WF f) (hh : InHorizon (tsOf now))
    (hlt : f.lastTs.toNat < (tsOf now).toNat) : (newGUID f now).2.2 = .none := by
  obtain ⟨hn, hs, hts, hid, hfield⟩ := hwf
  have hts' : (tsOf now).toNat < 2 ^ 63 := by
    have := hh.2; rw [twepoch_toNat] at this; omega
  have ⟨pv, plt⟩ := pack_val (seq := 0#64) hh hn (by decide)
  have h1 : ¬ (BitVec.slt (BitVec.sshiftRight now 20) f.lastTs = true) := by
    have a := toInt_of_lt hts
    have b := toInt_of_lt hts'
    unfold tsOf at b hlt
    simp only [BitVec.slt, decide_eq_true_eq]
    omega
  have h2 : ¬ ((f.lastTs == BitVec.sshiftRight now 20) = true) := by
    intro e
    have e' : f.lastTs = BitVec.sshiftRight now 20 := by simpa using e
    unfold tsOf at hlt
    rw [e'] at hlt
    omega
  have h4 : ¬ (BitVec.sle (pack (BitVec.sshiftRight now 20) f.nodeID 0#64) f.lastID = true) := by
    have a := toInt_of_lt hid
    have b := toInt_of_lt plt
    unfold tsOf at b pv hlt hh
    simp only [BitVec.sle, decide_eq_true_eq]
    have z : (0#64).toNat = 0 := rfl
    rw [z] at pv
    have hh1 := hh.1
    rcases hfield with hf | hf
    · omega
    · omega
  unfold newGUID
  simp [h1, h2, h4]

/-- well-formedness is kept by every call made at an in-horizon reading -/
theorem newGUID_wf {f : St} {now : BitVec 64} (hwf : WF f) (hh : InHorizon (tsOf now)) :
    WF (newGUID f now).1 := by
  obtain ⟨hn, hs, hts, hid, hfield⟩ := hwf
  have hts' : (tsOf now).toNat < 2 ^ 63 := by
    have := hh.2; rw [twepoch_toNat] at this; omega
  have hm := and_mask_lt (f.seq + 1#64)
  have ⟨pv1, plt1⟩ := pack_val (seq := (f.seq + 1#64) &&& 4095#64) hh hn hm
  have ⟨pv0, plt0⟩ := pack_val (seq := 0#64) hh hn (by decide)
  have z : (0#64).toNat = 0 := rfl
  have hh1 := hh.1
  unfold tsOf at hts' pv1 plt1 pv0 plt0 hh1
  unfold newGUID
  simp only []
  by_cases h1 : BitVec.slt (BitVec.sshiftRight now 20) f.lastTs = true
  · simp only [h1, if_true]
    exact ⟨hn, hs, hts, hid, hfield⟩
  · have hle : f.lastTs.toNat ≤ (BitVec.sshiftRight now 20).toNat := by
      have a := toInt_of_lt hts
      have b := toInt_of_lt hts'
      simp only [BitVec.slt, decide_eq_true_eq] at h1
      omega
    by_cases h2 : (f.lastTs == BitVec.sshiftRight now 20) = true
    · have e' : f.lastTs = BitVec.sshiftRight now 20 := by simpa using h2
      by_cases h3 : ((f.seq + 1#64) &&& 4095#64 == 0#64) = true
      · simp only [h1, h2, h3, if_true, if_false, Bool.false_eq_true]
        exact ⟨hn, hm, hts, hid, hfield⟩
      · by_cases h4 : BitVec.sle (pack (BitVec.sshiftRight now 20) f.nodeID ((f.seq + 1#64) &&& 4095#64)) f.lastID = true
        · simp only [h1, h2, h3, h4, if_true, if_false, Bool.false_eq_true]
          refine ⟨hn, hm, hts', hid, ?_⟩
          rw [← e']; exact hfield
        · simp only [h1, h2, h3, h4, if_true, if_false, Bool.false_eq_true]
          refine ⟨hn, hm, hts', plt1, Or.inl ?_⟩
          show (pack (BitVec.sshiftRight now 20) f.nodeID ((f.seq + 1#64) &&& 4095#64)).toNat / 2 ^ 22 + twepoch.toNat
            ≤ (BitVec.sshiftRight now 20).toNat
          rw [pv1]
          omega
    · by_cases h4 : BitVec.sle (pack (BitVec.sshiftRight now 20) f.nodeID 0#64) f.lastID = true
      · simp only [h1, h2, h4, if_true, if_false, Bool.false_eq_true]
        refine ⟨hn, (by show (0#64).toNat < 4096; decide), hts', hid, ?_⟩
        rcases hfield with hf | hf
        · exact Or.inl (by show f.lastID.toNat / 2 ^ 22 + twepoch.toNat ≤ (BitVec.sshiftRight now 20).toNat; omega)
        · exact Or.inr hf
      · simp only [h1, h2, h4, if_true, if_false, Bool.false_eq_true]
        refine ⟨hn, (by show (0#64).toNat < 4096; decide), hts', plt0, Or.inl ?_⟩
        show (pack (BitVec.sshiftRight now 20) f.nodeID 0#64).toNat / 2 ^ 22 + twepoch.toNat
          ≤ (BitVec.sshiftRight now 20).toNat
        rw [pv0, z]
        omega

/-- an error at an in-horizon reading does not move `lastTs` (the factory keeps waiting for the same
pseudo-millisecond to pass) -/
theorem newGUID_err_lastTs {f : St} {now : BitVec 64} (hwf : WF f) (hh : InHorizon (tsOf now))
    (herr : (newGUID f now).2.2 ≠ .none) : (newGUID f now).1.lastTs = f.lastTs := by
  have hts' : (tsOf now).toNat < 2 ^ 63 := by
    have := hh.2; rw [twepoch_toNat] at this; omega
  by_cases hlt : f.lastTs.toNat < (tsOf now).toNat
  · exact absurd (newGUID_fresh_ms hwf hh hlt) herr
  · unfold newGUID at herr ⊢
    simp only [] at herr ⊢
    by_cases h1 : BitVec.slt (BitVec.sshiftRight now 20) f.lastTs = true
    · simp [h1]
    · have heq : f.lastTs = BitVec.sshiftRight now 20 := by
        have a := toInt_of_lt hwf.2.2.1
        have b := toInt_of_lt hts'
        unfold tsOf at b hlt
        simp only [BitVec.slt, decide_eq_true_eq] at h1
        apply BitVec.eq_of_toNat_eq
        omega
      have h2 : (f.lastTs == BitVec.sshiftRight now 20) = true := by simpa using heq
      by_cases h3 : ((f.seq + 1#64) &&& 4095#64 == 0#64) = true
      · simp [h1, h2, h3]
      · by_cases h4 : BitVec.sle (pack (BitVec.sshiftRight now 20) f.nodeID ((f.seq + 1#64) &&& 4095#64)) f.lastID = true
        · simp only [h1, h2, h3, h4, if_true, if_false, Bool.false_eq_true]; exact heq.symm
        · simp [h1, h2, h3, h4] at herr

/-- **Progress**: a well-formed factory whose clock readings stay inside the horizon hands out an id
as soon as the clock shows a pseudo-millisecond after `lastTs` (at the latest). -/
theorem generateID_progress (f : St) (clock : List (BitVec 64)) (hwf : WF f)
    (hh : ∀ now ∈ clock, InHorizon (tsOf now))
    (hlater : ∃ now ∈ clock, f.lastTs.toNat < (tsOf now).toNat) :
    ∃ f' id, generateID f clock = (f', some id) := by
  induction clock generalizing f with
  | nil => obtain ⟨n, hn, _⟩ := hlater; simp at hn
  | cons now rest ih =>
    unfold generateID
    simp only []
    by_cases hok : (newGUID f now).2.2 = .none
    · simp only [hok, if_true]
      exact ⟨_, _, rfl⟩
    · simp only [hok, if_false]
      have hh0 := hh now (List.mem_cons_self ..)
      apply ih _ (newGUID_wf hwf hh0) (fun n hn => hh n (List.mem_cons_of_mem _ hn))
      obtain ⟨n, hn, hl⟩ := hlater
      rw [newGUID_err_lastTs hwf hh0 hok]
      rcases List.mem_cons.mp hn with rfl | hn
      · exact absurd (newGUID_fresh_ms hwf hh0 hl) hok
      · exact ⟨n, hn, hl⟩

theorem fresh_wf (node : BitVec 64) (hn : node.toNat < 1024) : WF (fresh node) :=
  ⟨hn, (by show (0#64).toNat < 4096; decide), (by show (0#64).toNat < 2 ^ 63; decide),
   (by show (0#64).toNat < 2 ^ 63; decide), Or.inr (by show (0#64).toNat < 2 ^ 22; decide)⟩

theorem runSt_wf (f : St) (clock : List (BitVec 64)) (hwf : WF f)
    (hh : ∀ now ∈ clock, InHorizon (tsOf now)) : WF (runSt f clock) := by
  induction clock generalizing f with
  | nil => exact hwf
  | cons now rest ih =>
    unfold runSt
    exact ih _ (newGUID_wf hwf (hh now (List.mem_cons_self ..))) (fun n hn => hh n (List.mem_cons_of_mem _ hn))

/-! ## 5. beyond the horizon -/

/-- between 2^41 and 2^42 pseudo-milliseconds after `twepoch` the packed id has its sign bit set -/
theorem pack_negative (ts node seq : BitVec 64)
    (h : 2 ^ 41 ≤ (ts - twepoch).toNat ∧ (ts - twepoch).toNat < 2 ^ 42) : (pack ts node seq).toInt < 0 := by
  unfold pack
  generalize ts - twepoch = t at h
  have e1 : (t <<< 22).toNat = t.toNat * 2 ^ 22 := by
    rw [BitVec.toNat_shiftLeft, Nat.shiftLeft_eq]
    apply Nat.mod_eq_of_lt
    omega
  have h1 : 2 ^ 63 ≤ ((t <<< 22 ||| node <<< 12) ||| seq).toNat := by
    rw [BitVec.toNat_or, BitVec.toNat_or]
    have a := @Nat.left_le_or ((t <<< 22).toNat ||| (node <<< 12).toNat) seq.toNat
    have b := @Nat.left_le_or (t <<< 22).toNat (node <<< 12).toNat
    omega
  rw [BitVec.toInt_eq_toNat_cond]
  have := ((t <<< 22 ||| node <<< 12) ||| seq).isLt
  split <;> omega

theorem newGUID_beyond {f : St} {now : BitVec 64} (hid : 0 ≤ f.lastID.toInt)
    (h : 2 ^ 41 ≤ (tsOf now - twepoch).toNat ∧ (tsOf now - twepoch).toNat < 2 ^ 42) :
    (newGUID f now).2.2 ≠ .none := by
  intro hok
  have ⟨h1, _⟩ := newGUID_ok hok
  obtain ⟨s, hs⟩ := newGUID_ok_shape hok
  have := pack_negative (BitVec.sshiftRight now 20) f.nodeID (s &&& 4095#64) h
  rw [← hs] at this
  omega

theorem generateID_beyond (f : St) (clock : List (BitVec 64)) (hid : 0 ≤ f.lastID.toInt)
    (h : ∀ now ∈ clock, 2 ^ 41 ≤ (tsOf now - twepoch).toNat ∧ (tsOf now - twepoch).toNat < 2 ^ 42) :
    (generateID f clock).2 = none := by
  induction clock generalizing f with
  | nil => rfl
  | cons now rest ih =>
    have herr := newGUID_beyond hid (h now (List.mem_cons_self ..))
    unfold generateID
    simp only [herr, if_false]
    apply ih
    · rw [newGUID_err herr]; exact hid
    · exact fun n hn => h n (List.mem_cons_of_mem _ hn)

/-! ## 6. restart / re-creation: a fresh factory after an old one -/

theorem run_mem_shape (f : St) (clock : List (BitVec 64)) :
    ∀ x ∈ run f clock, ∃ now ∈ clock, ∃ s : BitVec 64, x = pack (tsOf now) f.nodeID (s &&& 4095#64) := by
  induction clock generalizing f with
  | nil => intro x hx; simp [run] at hx
  | cons now rest ih =>
    intro x hx
    unfold run at hx
    simp only [] at hx
    split at hx
    · next hok =>
      rcases List.mem_cons.mp hx with rfl | hx
      · obtain ⟨s, hs⟩ := newGUID_ok_shape hok
        exact ⟨now, List.mem_cons_self .., s, hs⟩
      · obtain ⟨n, hn, s, hs⟩ := ih _ x hx
        exact ⟨n, List.mem_cons_of_mem _ hn, s, by rw [hs, nodeID_const]⟩
    · obtain ⟨n, hn, s, hs⟩ := ih _ x hx
      exact ⟨n, List.mem_cons_of_mem _ hn, s, by rw [hs, nodeID_const]⟩

/-- every id of an in-horizon pseudo-millisecond after `old.lastTs` is above every id the old
factory ever handed out -/
theorem later_ms_above (old : St) (hwf : WF old) (ts node s : BitVec 64) (hn : node.toNat < 1024)
    (hh : InHorizon ts) (hlt : old.lastTs.toNat < ts.toNat) :
    old.lastID.toInt < (pack ts node (s &&& 4095#64)).toInt := by
  obtain ⟨_, _, hts, hid, hfield⟩ := hwf
  have ⟨pv, plt⟩ := pack_val (seq := s &&& 4095#64) hh hn (and_mask_lt s)
  rw [toInt_of_lt hid, toInt_of_lt plt, pv]
  have hh1 := hh.1
  rcases hfield with hf | hf <;> omega

end Nsq.Proofs.GuidClock
