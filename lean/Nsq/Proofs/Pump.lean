/-
E2 — proofs about the pump / output-buffer model `Nsq.Model.Pump`.
-/
import Nsq.Model.Pump
namespace Nsq.Proofs.Pump
open Nsq.Model.Pump

/-- `flushed` means the bufio writer is empty; in the `select` with something buffered the flusher
case is armed -/
structure PInv (s : PState) : Prop where
  empty : s.flushed = true → s.buf = []
  armed : s.inSelect = true → s.buf ≠ [] → s.fArmed = true

theorem flush_buf (s : PState) : (flush s).buf = [] := by
  unfold flush
  by_cases h : s.buf.isEmpty = true
  · simp only [h, ↓reduceIte]; simpa using h
  · simp [h]

theorem flush_written (s : PState) : written (flush s) = written s := by
  unfold flush written
  by_cases h : s.buf.isEmpty = true
  · simp [h]
  · simp [h]

theorem flush_wire (s : PState) : (flush s).wire.flatten = s.wire.flatten ++ s.buf := by
  unfold flush
  by_cases h : s.buf.isEmpty = true
  · have : s.buf = [] := by simpa using h
    simp [h, this]
  · simp [h]

theorem flush_fields (s : PState) :
    (flush s).sent = s.sent ∧ (flush s).inSelect = s.inSelect ∧ (flush s).qArmed = s.qArmed ∧
    (flush s).fArmed = s.fArmed ∧ (flush s).flushed = s.flushed ∧ (flush s).sub = s.sub ∧
    (flush s).rdy = s.rdy ∧ (flush s).inFlight = s.inFlight ∧ (flush s).paused = s.paused ∧
    (flush s).tickOn = s.tickOn ∧ (flush s).exited = s.exited := by
  unfold flush; split <;> simp

theorem inv_init : PInv {} := ⟨fun _ => rfl, fun h => by cases h⟩

theorem step_inv (s : PState) (h : PInv s) (op : Op) : PInv (step s op).1 := by
  obtain ⟨h1, h2⟩ := h
  cases op with
  | top =>
    simp only [step]
    split
    · exact ⟨h1, h2⟩
    · split
      · exact ⟨h1, h2⟩
      · split
        · exact ⟨fun _ => flush_buf s, fun _ hb => absurd (flush_buf s) hb⟩
        · split
          · rename_i hf
            exact ⟨h1, fun _ hb => absurd (h1 hf) hb⟩
          · exact ⟨h1, fun _ _ => rfl⟩
  | flushTick =>
    simp only [step]
    split
    · exact ⟨h1, h2⟩
    · split
      · exact ⟨h1, h2⟩
      · exact ⟨fun _ => flush_buf s, fun hh => (by cases hh)⟩
  | readyState => simp only [step]; split <;> first | exact ⟨h1, h2⟩ | exact ⟨h1, fun hh => (by cases hh)⟩
  | subEvent =>
    simp only [step]
    split
    · exact ⟨h1, h2⟩
    · split
      · exact ⟨h1, h2⟩
      · exact ⟨h1, fun hh => (by cases hh)⟩
  | identify a b c =>
    simp only [step]
    split
    · exact ⟨h1, h2⟩
    · split
      · exact ⟨h1, h2⟩
      · exact ⟨h1, fun hh => (by cases hh)⟩
  | heartbeat =>
    simp only [step]
    split
    · exact ⟨h1, h2⟩
    · split
      · exact ⟨h1, h2⟩
      · exact ⟨fun _ => flush_buf _, fun hh => (by cases hh)⟩
  | recv =>
    simp only [step]
    split
    · exact ⟨h1, h2⟩
    · split
      · exact ⟨h1, h2⟩
      · exact ⟨fun hh => (by cases hh), fun hh => (by cases hh)⟩
  | sampled =>
    simp only [step]
    split
    · exact ⟨h1, h2⟩
    · split
      · exact ⟨h1, h2⟩
      · split
        · exact ⟨h1, h2⟩
        · exact ⟨h1, fun hh => (by cases hh)⟩
  | exit => simp only [step]; split <;> first | exact ⟨h1, h2⟩ | exact ⟨h1, fun hh => (by cases hh)⟩
  | respond =>
    simp only [step]
    exact ⟨fun _ => flush_buf _, fun _ hb => absurd (flush_buf _) hb⟩
  | setRdy n => exact ⟨h1, h2⟩
  | setInFlight n => exact ⟨h1, h2⟩
  | setPaused p => exact ⟨h1, h2⟩

theorem run_inv (s : PState) (h : PInv s) (ops : List Op) : PInv (run s ops) := by
  induction ops generalizing s with
  | nil => exact h
  | cons op ops ih => exact ih _ (step_inv s h op)

/-- what one step appends to the stream of written frames -/
def appended (s : PState) (op : Op) : List Frame :=
  match op with
  | .recv => if (step s .recv).2 = .ok then [.msg s.sent] else []
  | .heartbeat => if (step s .heartbeat).2 = .ok then [.hb] else []
  | .respond => [.resp]
  | _ => []

theorem step_written (s : PState) (op : Op) : written (step s op).1 = written s ++ appended s op := by
  cases op with
  | top =>
    simp only [step, appended]
    split
    · simp
    · split
      · simp
      · split
        · show written { flush s with qArmed := false, fArmed := false, flushed := true, inSelect := true } = _
          have := flush_written s
          simp only [written] at this ⊢
          simpa using this
        · split <;> simp [written]
  | flushTick =>
    simp only [step, appended]
    split
    · simp
    · split
      · simp
      · have := flush_written s
        simp only [written] at this ⊢
        simpa using this
  | readyState => simp only [step, appended]; split <;> simp [written]
  | subEvent => simp only [step, appended]; split <;> (try split) <;> simp [written]
  | identify a b c => simp only [step, appended]; split <;> (try split) <;> simp [written]
  | heartbeat =>
    simp only [appended]
    simp only [step]
    split
    · simp
    · split
      · simp
      · have := flush_written { s with buf := s.buf ++ [.hb] }
        simp only [written] at this ⊢
        simpa using this
  | recv =>
    simp only [appended]
    simp only [step]
    split
    · simp
    · split
      · simp
      · simp [written]
  | sampled => simp only [step, appended]; split <;> (try split) <;> (try split) <;> simp [written]
  | exit => simp only [step, appended]; split <;> simp [written]
  | respond =>
    simp only [step, appended]
    have := flush_written { s with buf := s.buf ++ [.resp] }
    simp only [written] at this ⊢
    simpa using this
  | setRdy n => simp [step, appended, written]
  | setInFlight n => simp [step, appended, written]
  | setPaused p => simp [step, appended, written]

/-- a run in which every evaluation of the guard at the head of the loop finds "not ready" -/
def quietRun (s : PState) : List Op → Prop
  | [] => True
  | op :: ops => (op = .top → (!s.sub || !ready s) = true) ∧ quietRun (step s op).1 ops

/-- the queue cases are off whenever the pump sits in its `select` -/
def Disarmed (s : PState) : Prop := s.inSelect = true → s.qArmed = false

theorem quiet_step (s : PState) (hd : Disarmed s) (op : Op) (hq : op = .top → (!s.sub || !ready s) = true) :
    Disarmed (step s op).1 ∧ (step s op).1.sent = s.sent := by
  cases op with
  | top =>
    have hq' := hq rfl
    simp only [step]
    split
    · exact ⟨hd, rfl⟩
    · split
      · exact ⟨hd, rfl⟩
      · simp only [hq', ↓reduceIte]
        exact ⟨fun _ => rfl, (flush_fields s).1⟩
  | flushTick =>
    simp only [step]
    split
    · exact ⟨hd, rfl⟩
    · split
      · exact ⟨hd, rfl⟩
      · exact ⟨fun hh => (by cases hh), (flush_fields s).1⟩
  | readyState => simp only [step]; split <;> first | exact ⟨hd, rfl⟩ | exact ⟨fun hh => (by cases hh), rfl⟩
  | subEvent => simp only [step]; split <;> (try split) <;> first | exact ⟨hd, rfl⟩ | exact ⟨fun hh => (by cases hh), rfl⟩
  | identify a b c => simp only [step]; split <;> (try split) <;> first | exact ⟨hd, rfl⟩ | exact ⟨fun hh => (by cases hh), rfl⟩
  | heartbeat =>
    simp only [step]
    split
    · exact ⟨hd, rfl⟩
    · split
      · exact ⟨hd, rfl⟩
      · exact ⟨fun hh => (by cases hh), (flush_fields _).1⟩
  | recv =>
    simp only [step]
    split
    · exact ⟨hd, rfl⟩
    · rename_i hs
      have : s.qArmed = false := hd (by simpa using hs)
      simp only [this, Bool.not_false, ↓reduceIte]
      first | exact ⟨hd, rfl⟩ | exact ⟨hd, trivial⟩
  | sampled => simp only [step]; split <;> (try split) <;> (try split) <;> first | exact ⟨hd, rfl⟩ | exact ⟨fun hh => (by cases hh), rfl⟩
  | exit => simp only [step]; split <;> first | exact ⟨hd, rfl⟩ | exact ⟨fun hh => (by cases hh), rfl⟩
  | respond =>
    simp only [step]
    have hf := flush_fields { s with buf := s.buf ++ [.resp] }
    refine ⟨?_, hf.1⟩
    intro hh
    rw [hf.2.1] at hh
    rw [hf.2.2.1]
    exact hd hh
  | setRdy n => exact ⟨hd, rfl⟩
  | setInFlight n => exact ⟨hd, rfl⟩
  | setPaused p => exact ⟨hd, rfl⟩

theorem appended_no_msg (s : PState) (op : Op) (h : (step s op).1.sent = s.sent) :
    (appended s op).filter Frame.isMsg = [] := by
  cases op with
  | recv =>
    simp only [appended]
    split
    · rename_i hok
      exfalso
      simp only [step] at hok h
      split at hok
      · cases hok
      · split at hok
        · cases hok
        · rename_i h1 h2
          simp only [h1, h2, ↓reduceIte] at h
          simp at h
    · rfl
  | heartbeat => simp only [appended]; split <;> simp [Frame.isMsg]
  | respond => simp [appended, Frame.isMsg]
  | top => rfl
  | flushTick => rfl
  | readyState => rfl
  | subEvent => rfl
  | identify a b c => rfl
  | sampled => rfl
  | exit => rfl
  | setRdy n => rfl
  | setInFlight n => rfl
  | setPaused p => rfl

theorem quiet_run (ops : List Op) : ∀ (s : PState), Disarmed s → quietRun s ops →
    (run s ops).sent = s.sent ∧ (written (run s ops)).filter Frame.isMsg = (written s).filter Frame.isMsg := by
  induction ops with
  | nil => intro s _ _; exact ⟨rfl, rfl⟩
  | cons op ops ih =>
    intro s hd hq
    obtain ⟨h1, h2⟩ := quiet_step s hd op hq.1
    obtain ⟨r1, r2⟩ := ih _ h1 hq.2
    refine ⟨by show (run (step s op).1 ops).sent = _; rw [r1, h2], ?_⟩
    show (written (run (step s op).1 ops)).filter Frame.isMsg = _
    rw [r2, step_written, List.filter_append, appended_no_msg s op h2, List.append_nil]

end Nsq.Proofs.Pump
