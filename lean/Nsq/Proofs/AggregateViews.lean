import Nsq.Model.Aggregate
import Nsq.Model.Int64
import Nsq.Proofs.AggregateSums
import Nsq.Proofs.AggregateMerge
import Nsq.Proofs.AggregateSafe
import Nsq.Proofs.AggregateFetch
import Nsq.Proofs.Int64
/-!
What GetNSQDStats returns, in closed form: the per-node reports are a *pure function of each responding
producer's own `/stats` answer* (`reportsOf`). This is the link between the views and the contents of the
upstreams that the audit (round 7, C24) found missing: `topicsOfNode` / `statsOf` were only used to count failures.
Also: the counter map as a fold over (key, value) entries, and the shape of the producer lists of direct mode.
-/
namespace Nsq.Proofs.AggregateViews
open Nsq.Model.Aggregate Nsq.Proofs.AggregateSums Nsq.Proofs.AggregateMerge Nsq.Proofs.AggregateSafe

/-! ### One `/stats` answer as nsqadmin reads it -/

/-- The clients of a channel object: null entries dropped, `Node` filled in. -/
def clientsPure (node : String) (cl : List (Option Client)) : List ClientV :=
  cl.filterMap (fun c => c.map (fun c => ⟨c.hostname, c.clientId, node⟩))

/-- One channel object of producer `p`'s answer: `memory_depth` / `delivery_msg_count` recomputed, nothing else touched. -/
def chanReport (p : Producer) (topic : String) (c : Chan) : ChanNode :=
  { node := p.addr, hostname := p.hostname, topic := topic, name := c.name, cnt := c.cnt.derive,
    paused := c.paused, clients := clientsPure p.addr c.clients, e2e := c.e2e, upNodes := [] }

def chanReports (p : Producer) (topic : String) (cs : List (Option Chan)) : List ChanNode :=
  cs.filterMap (fun c => c.map (chanReport p topic))

def topicReport (p : Producer) (t : Topic) : TopicNode :=
  { node := p.addr, hostname := p.hostname, name := t.name, cnt := t.cnt.derive, paused := t.paused,
    channels := chanReports p t.name t.channels, e2e := t.e2e }

/-- The topic objects of an answer that GetNSQDStats keeps: not null, and named `sel` when a topic is selected. -/
def topicReports (p : Producer) (sel : String) : List (Option Topic) → List TopicNode
  | [] => []
  | none :: rest => topicReports p sel rest
  | some t :: rest =>
    if sel != "" && t.name != sel then topicReports p sel rest
    else topicReport p t :: topicReports p sel rest

/-- What producer `p` contributes to GetNSQDStats: nothing if its `/stats` request fails. -/
def reportsOf (w : World) (sel selc : String) (incl : Bool) (p : Producer) : List TopicNode :=
  match statsOf w p.addr sel (if sel == "" then "" else selc) incl with
  | none => []
  | some ans => topicReports p sel ans

theorem clientsOf_all (node : String) (cl : List (Option Client)) :
    clientsOf Fixes.all node cl = .ok (clientsPure node cl) := by
  induction cl with
  | nil => rfl
  | cons c rest ih =>
    cases c with
    | none => simpa [clientsOf, clientsPure] using ih
    | some c => simp [clientsOf, ih, clientsPure]

theorem chanNodeOf_all (p : Producer) (topic : String) (c : Chan) :
    chanNodeOf Fixes.all p topic c = .ok (chanReport p topic c) := by
  simp only [chanNodeOf, clientsOf_all]
  rfl

theorem chansOfTopic_reports (p : Producer) (sel topic : String) (cs : List (Option Chan)) :
    ∀ (m m' : ChanMap) (r : List ChanNode),
      chansOfTopic Fixes.all p sel topic cs m = .ok (r, m') → r = chanReports p topic cs := by
  induction cs with
  | nil =>
    intro m m' r h
    simp only [chansOfTopic, Except.ok.injEq, Prod.mk.injEq] at h
    simp [chanReports, ← h.1]
  | cons c rest ih =>
    intro m m' r h
    cases c with
    | none =>
      simp only [chansOfTopic, all_nilElems, if_true] at h
      simpa [chanReports] using ih m m' r h
    | some c =>
      unfold chansOfTopic at h
      simp only [chanNodeOf_all] at h
      split at h
      · cases h
      · rename_i m1 _
        split at h
        · cases h
        · rename_i cns m2 hrest
          simp only [Except.ok.injEq, Prod.mk.injEq] at h
          have := ih m1 m2 cns hrest
          simp [chanReports, ← h.1, this]

theorem topicsOfNode_reports (p : Producer) (sel : String) (ans : List (Option Topic)) :
    ∀ (m m' : ChanMap) (r : List TopicNode),
      topicsOfNode Fixes.all p sel ans m = .ok (r, m') → r = topicReports p sel ans := by
  induction ans with
  | nil =>
    intro m m' r h
    simp only [topicsOfNode, Except.ok.injEq, Prod.mk.injEq] at h
    simp [topicReports, ← h.1]
  | cons t rest ih =>
    intro m m' r h
    cases t with
    | none =>
      simp only [topicsOfNode, all_nilElems, if_true] at h
      simpa only [topicReports] using ih m m' r h
    | some t =>
      unfold topicsOfNode at h
      unfold topicReports
      by_cases hsel : (sel != "" && t.name != sel) = true
      · simp only [hsel, if_true] at h ⊢
        exact ih m m' r h
      · have hsel' := Bool.eq_false_iff.2 hsel
        simp only [hsel', Bool.false_eq_true, if_false] at h ⊢
        cases hc : chansOfTopic Fixes.all p sel t.name t.channels m with
        | error e => simp [hc] at h
        | ok x =>
          obtain ⟨cns, m1⟩ := x
          simp only [hc] at h
          cases hrest : topicsOfNode Fixes.all p sel rest m1 with
          | error e => simp [hrest] at h
          | ok y =>
            obtain ⟨tns, m2⟩ := y
            simp only [hrest, Except.ok.injEq, Prod.mk.injEq] at h
            have h1 := chansOfTopic_reports p sel t.name t.channels m m1 cns hc
            have h2 := ih m1 m2 tns hrest
            rw [← h.1, h1, h2]
            rfl

theorem nsqdStatsGo_reports (w : World) (sel selc : String) (incl : Bool) (ps : List Producer) :
    ∀ (ts ts' : List TopicNode) (m m' : ChanMap) (f f' : Nat),
      nsqdStatsGo Fixes.all w sel selc incl ps ts m f = .ok (ts', m', f') →
      ts' = ts ++ ps.flatMap (reportsOf w sel selc incl) := by
  induction ps with
  | nil =>
    intro ts ts' m m' f f' h
    simp only [nsqdStatsGo, Except.ok.injEq, Prod.mk.injEq] at h
    simp [← h.1]
  | cons p rest ih =>
    intro ts ts' m m' f f' h
    unfold nsqdStatsGo at h
    split at h
    · rename_i hst
      have := ih ts ts' m m' (f + 1) f' h
      have h0 : reportsOf w sel selc incl p = [] := by unfold reportsOf; rw [hst]
      simp [this, h0]
    · rename_i ans hst
      cases ht : nodeAnswer Fixes.all p sel ans m with
      | error e => simp [ht] at h
      | ok r =>
        obtain ⟨tns, m1⟩ := r
        simp only [ht] at h
        have ht' := AggregateDecode.nodeAnswer_ok ht
        have h1 := topicsOfNode_reports p sel ans m m1 tns ht'
        have := ih (ts ++ tns) ts' m1 m' f f' h
        have h0 : reportsOf w sel selc incl p = tns := by unfold reportsOf; rw [hst, h1]
        simp [this, h0, List.append_assoc]

/-- **GetNSQDStats in closed form**: the returned per-node reports are, producer by producer in order, what each
responding producer's own `/stats` answer holds. -/
theorem nsqdStats_reports (w : World) (ps : List Producer) (sel selc : String) (incl : Bool)
    (ts : List TopicNode) (m : ChanMap) (f : Nat)
    (h : nsqdStats Fixes.all w ps sel selc incl = .ok (.got (ts, m) f)) :
    ts = ps.flatMap (reportsOf w sel selc incl) := by
  unfold nsqdStats at h
  cases hgo : nsqdStatsGo Fixes.all w sel selc incl ps [] [] 0 with
  | error e => simp [hgo] at h
  | ok r =>
    obtain ⟨ts', m', f'⟩ := r
    simp only [hgo] at h
    split at h
    · cases h
    · simp only [Except.ok.injEq, Fetched.got.injEq, Prod.mk.injEq] at h
      have := nsqdStatsGo_reports w sel selc incl ps [] ts' [] m' 0 f' hgo
      simp [← h.1.1, this]

theorem mem_topicReports (p : Producer) (sel : String) (ans : List (Option Topic)) (r : TopicNode) :
    r ∈ topicReports p sel ans ↔ ∃ t, some t ∈ ans ∧ (sel = "" ∨ t.name = sel) ∧ r = topicReport p t := by
  induction ans with
  | nil => simp [topicReports]
  | cons t0 rest ih =>
    cases t0 with
    | none =>
      simp only [topicReports, ih, List.mem_cons]
      constructor
      · rintro ⟨t, ht, h⟩; exact ⟨t, Or.inr ht, h⟩
      · rintro ⟨t, ht | ht, h⟩
        · exact absurd ht (by simp)
        · exact ⟨t, ht, h⟩
    | some t0 =>
      unfold topicReports
      by_cases hsel : (sel != "" && t0.name != sel) = true
      · simp only [hsel, if_true, ih, List.mem_cons]
        constructor
        · rintro ⟨t, ht, h⟩; exact ⟨t, Or.inr ht, h⟩
        · rintro ⟨t, ht | ht, h, hr⟩
          · simp only [Option.some.injEq] at ht
            subst ht
            simp only [Bool.and_eq_true, bne_iff_ne, ne_eq] at hsel
            rcases h with h | h
            · exact absurd h hsel.1
            · exact absurd h hsel.2
          · exact ⟨t, ht, h, hr⟩
      · have hsel' := Bool.eq_false_iff.2 hsel
        simp only [hsel', Bool.false_eq_true, if_false, List.mem_cons, ih]
        constructor
        · rintro (h | ⟨t, ht, h⟩)
          · refine ⟨t0, Or.inl rfl, ?_, h⟩
            by_cases hs : sel = ""
            · exact Or.inl hs
            · right
              simp only [Bool.and_eq_true, bne_iff_ne, ne_eq, not_and, Decidable.not_not] at hsel
              exact hsel hs
          · exact ⟨t, Or.inr ht, h⟩
        · rintro ⟨t, ht | ht, h, hr⟩
          · simp only [Option.some.injEq] at ht
            subst ht
            exact Or.inl hr
          · exact Or.inr ⟨t, ht, h, hr⟩

/-- Membership in the reports, spelled out on the upstream's answer. -/
theorem mem_reports (w : World) (sel selc : String) (incl : Bool) (ps : List Producer) (r : TopicNode) :
    r ∈ ps.flatMap (reportsOf w sel selc incl) ↔
      ∃ p ∈ ps, ∃ ans t, statsOf w p.addr sel (if sel == "" then "" else selc) incl = some ans ∧
        some t ∈ ans ∧ (sel = "" ∨ t.name = sel) ∧ r = topicReport p t := by
  simp only [List.mem_flatMap]
  constructor
  · rintro ⟨p, hp, hr⟩
    unfold reportsOf at hr
    split at hr
    · cases hr
    · rename_i ans hst
      obtain ⟨t, ht, hs, rfl⟩ := (mem_topicReports p sel ans r).1 hr
      exact ⟨p, hp, ans, t, hst, ht, hs, rfl⟩
  · rintro ⟨p, hp, ans, t, hst, ht, hsel, rfl⟩
    refine ⟨p, hp, ?_⟩
    unfold reportsOf
    rw [hst]
    exact (mem_topicReports p sel ans _).2 ⟨t, ht, hsel, rfl⟩

/-! ### Sums -/

theorem isum_eq_sum (l : List Int) : isum l = l.sum := by
  induction l with
  | nil => rfl
  | cons x rest ih => rw [isum_cons, ih]; simp

/-- What the view shows of a number whose exact value is the sum of `l`: Go's running int64 sum of `l`. -/
theorem shown_sum (x : Int) (l : List Int) (h : x = isum l) :
    Nsq.Model.Int64.wrap64 x = Nsq.Model.Int64.goSum l := by
  rw [h, isum_eq_sum, Nsq.Proofs.Int64.goSum_eq]

/-! ### The counter map -/

/-- The (key, value) pairs counterHandler walks over: for every entry of the channel map, one per node report. -/
def counterEntries (m : ChanMap) : List (String × Int) :=
  m.flatMap (fun kc => kc.2.nodes.map (fun n => (kc.2.topic ++ ":" ++ kc.2.name ++ ":" ++ n.node, n.cnt.msgCount)))

def counterFold (acc : List (String × Int)) (l : List (String × Int)) : List (String × Int) :=
  l.foldl (fun acc kv => counterAdd acc kv.1 kv.2) acc

theorem counterOf_eq (m : ChanMap) : counterOf m = counterFold [] (counterEntries m) := by
  unfold counterOf counterFold counterEntries
  generalize ([] : List (String × Int)) = acc
  induction m generalizing acc with
  | nil => rfl
  | cons kc rest ih =>
    simp only [List.foldl_cons, List.flatMap_cons, List.foldl_append, List.foldl_map]
    exact ih _

/-- The value stored under `k` (0 when absent). -/
def valueAt (m : List (String × Int)) (k : String) : Int := isum ((m.filter (·.1 == k)).map (·.2))

theorem isum_append (a b : List Int) : isum (a ++ b) = isum a + isum b := by
  rw [isum_eq_sum, isum_eq_sum, isum_eq_sum, List.sum_append]

theorem valueAt_cons (a : String) (b : Int) (rest : List (String × Int)) (k' : String) :
    valueAt ((a, b) :: rest) k' = (if a == k' then b else 0) + valueAt rest k' := by
  by_cases h : (a == k') = true
  · simp [valueAt, List.filter_cons, h, isum_cons]
  · have h' := Bool.eq_false_iff.2 h
    simp [valueAt, List.filter_cons, h']

theorem counterAdd_spec (acc : List (String × Int)) (k : String) (v : Int) (hnd : (acc.map (·.1)).Nodup) :
    ((counterAdd acc k v).map (·.1)).Nodup ∧
    (∀ k', k' ∈ (counterAdd acc k v).map (·.1) ↔ k' ∈ acc.map (·.1) ∨ k' = k) ∧
    (∀ k', valueAt (counterAdd acc k v) k' = valueAt acc k' + (if k == k' then v else 0)) := by
  unfold counterAdd
  by_cases hany : acc.any (·.1 == k) = true
  · simp only [hany, if_true]
    have hkeys : (acc.map (fun kv => if kv.1 == k then (kv.1, kv.2 + v) else kv)).map (·.1) = acc.map (·.1) := by
      simp only [List.map_map]
      apply List.map_congr_left
      intro kv _
      simp only [Function.comp]
      split <;> rfl
    refine ⟨by rw [hkeys]; exact hnd, fun k' => ?_, fun k' => ?_⟩
    · rw [hkeys]
      constructor
      · exact Or.inl
      · rintro (h | h)
        · exact h
        · subst h
          simp only [List.any_eq_true, beq_iff_eq] at hany
          obtain ⟨kv, hkv, rfl⟩ := hany
          exact List.mem_map.2 ⟨kv, hkv, rfl⟩
    · -- exactly one entry has key k (Nodup): its value grows by v
      clear hkeys
      induction acc with
      | nil => simp at hany
      | cons kv rest ih =>
        obtain ⟨kk, vv⟩ := kv
        simp only [List.map_cons, List.nodup_cons] at hnd
        by_cases hk : kk = k
        · subst hk
          have hrest : ∀ x ∈ rest, (x.1 == kk) = false := by
            intro x hx
            apply Bool.eq_false_iff.2
            intro hxk
            exact hnd.1 (List.mem_map.2 ⟨x, hx, by simpa using hxk⟩)
          have hmap : rest.map (fun kv => if kv.1 == kk then (kv.1, kv.2 + v) else kv) = rest := by
            conv => rhs; rw [← List.map_id rest]
            apply List.map_congr_left
            intro x hx
            simp [hrest x hx]
          simp only [List.map_cons, hmap, beq_self_eq_true, if_true]
          rw [valueAt_cons, valueAt_cons]
          by_cases hkk : (kk == k') = true
          · simp only [hkk, if_true]; omega
          · have hkk' := Bool.eq_false_iff.2 hkk
            simp only [hkk', Bool.false_eq_true, if_false]; omega
        · have hk' : (kk == k) = false := by simpa using hk
          have hany' : rest.any (·.1 == k) = true := by simpa [List.any_cons, hk'] using hany
          have := ih hnd.2 hany'
          simp only [List.map_cons, hk', Bool.false_eq_true, if_false]
          rw [valueAt_cons, valueAt_cons, this]
          omega
  · have hany' : acc.any (·.1 == k) = false := Bool.eq_false_iff.2 hany
    simp only [hany', Bool.false_eq_true, if_false]
    have hnot : k ∉ acc.map (·.1) := by
      intro hmem
      obtain ⟨kv, hkv, hk⟩ := List.mem_map.1 hmem
      simp only [List.any_eq_false, beq_iff_eq] at hany'
      exact hany' kv hkv hk
    refine ⟨?_, fun k' => ?_, fun k' => ?_⟩
    · simp only [List.map_append, List.map_cons, List.map_nil]
      exact List.nodup_append.2 ⟨hnd, by simp, by
        intro a ha b hb
        simp only [List.mem_singleton] at hb
        subst hb
        intro hab; subst hab; exact hnot ha⟩
    · simp
    · unfold valueAt
      simp only [List.filter_append, List.map_append, isum_append]
      by_cases hkk : k = k'
      · subst hkk; simp [isum]
      · have : (k == k') = false := by simpa using hkk
        simp [this, isum]

/-- **The counter map as a function of its entries**: one entry per distinct key, holding the sum of the values
given under that key. -/
theorem counterFold_spec (l : List (String × Int)) :
    ∀ acc, (acc.map (·.1)).Nodup →
      ((counterFold acc l).map (·.1)).Nodup ∧
      (∀ k, k ∈ (counterFold acc l).map (·.1) ↔ k ∈ acc.map (·.1) ∨ k ∈ l.map (·.1)) ∧
      (∀ k, valueAt (counterFold acc l) k = valueAt acc k + valueAt l k) := by
  induction l with
  | nil => intro acc h; exact ⟨h, by simp [counterFold], by simp [counterFold, valueAt, isum]⟩
  | cons kv rest ih =>
    intro acc hnd
    obtain ⟨h1, h2, h3⟩ := counterAdd_spec acc kv.1 kv.2 hnd
    obtain ⟨i1, i2, i3⟩ := ih _ h1
    simp only [counterFold, List.foldl_cons] at i1 i2 i3 ⊢
    refine ⟨i1, fun k => ?_, fun k => ?_⟩
    · rw [i2, h2]
      simp only [List.map_cons, List.mem_cons]
      constructor
      · rintro ((h | h) | h)
        · exact Or.inl h
        · exact Or.inr (Or.inl h)
        · exact Or.inr (Or.inr h)
      · rintro (h | h | h)
        · exact Or.inl (Or.inl h)
        · exact Or.inl (Or.inr h)
        · exact Or.inr h
    · rw [i3, h3]
      unfold valueAt
      simp only [List.filter_cons]
      split
      · simp only [List.map_cons, isum_cons]; omega
      · omega

/-! ### Direct mode: the producer lists -/

/-- The producer GetNSQDProducers builds from one nsqd's `/info` and `/stats` answers. -/
def producerOfInfo (i : Info) (ans : List (Option Topic)) : Producer :=
  { hostname := i.hostname, addr := i.addr, tcp := i.tcp, version := i.version, ver := i.ver,
    remote := "", topics := (topicNames ans).map (fun n => ⟨n, false⟩) }

theorem nsqdProducer_eq (w : World) (a : String) (p : Producer) :
    nsqdProducer w a = some p ↔
      ∃ i ans, infoOf w a = some i ∧ statsOf w a "" "" false = some ans ∧ p = producerOfInfo i ans := by
  unfold nsqdProducer producerOfInfo
  cases hi : infoOf w a with
  | none => simp
  | some i =>
    cases hs : statsOf w a "" "" false with
    | none => simp
    | some ans =>
      simp only [Option.some.injEq]
      constructor
      · intro h; exact ⟨i, ans, rfl, rfl, h.symm⟩
      · rintro ⟨i', ans', hi', hs', rfl⟩
        cases hi'; cases hs'; rfl

end Nsq.Proofs.AggregateViews
