/-
E2 / C03 — invariant of the topic pump's cached enable bit (`Nsq.Model.TopicPause`, audit A10).
-/
import Nsq.Model.TopicPause
namespace Nsq.Proofs.TopicPause
open Nsq.Model.TopicPause

structure PInv (s : St) : Prop where
  /-- before `Start()` the queue cases are off -/
  pre   : s.started = false → s.armed = false
  /-- no `Pause()`/`UnPause()` call in progress ⇒ the cached bit is the evaluation of the CURRENT flag -/
  arm   : s.started = true → s.pendP = 0 → s.armed = evalArm s.snap s.paused
  /-- no channel-update hand-shake outstanding ⇒ the pump's snapshot is the channel map -/
  snapOk : s.started = true → s.pendU = 0 → s.snap = s.nchan

theorem pinv_init : PInv {} := ⟨fun _ => rfl, fun h => (by cases h), fun h => (by cases h)⟩

theorem step_pinv {s : St} (h : PInv s) (op : Op) : PInv (step true s op).1 := by
  obtain ⟨h1, h2, h3⟩ := h
  cases op with
  | storeFlag b =>
    refine ⟨h1, ?_, h3⟩
    intro _ hp; simp [step] at hp
  | pauseAck =>
    simp only [step, Bool.true_and]
    split
    · exact ⟨h1, h2, h3⟩
    · refine ⟨?_, ?_, h3⟩
      · intro hs; simp only at hs; simp [hs]
      · intro hs _; simp only at hs; simp [hs]
  | mapChange n =>
    refine ⟨h1, h2, ?_⟩
    intro _ hp; simp [step] at hp
  | updAck =>
    simp only [step]
    split
    · exact ⟨h1, h2, h3⟩
    · split
      · rename_i hs
        refine ⟨?_, ?_, ?_⟩
        · intro hn; simp only at hn; rw [hs] at hn; cases hn
        · intro _ _; rfl
        · intro _ _; rfl
      · rename_i hs
        have hs' : s.started = false := by simpa using hs
        refine ⟨h1, ?_, ?_⟩
        · intro hn; simp only at hn; rw [hs'] at hn; cases hn
        · intro hn; simp only at hn; rw [hs'] at hn; cases hn
  | start =>
    simp only [step]
    split
    · exact ⟨h1, h2, h3⟩
    · refine ⟨?_, ?_, ?_⟩
      · intro hn; cases hn
      · intro _ _; rfl
      · intro _ _; rfl
  | pub id => exact ⟨h1, h2, h3⟩
  | fan id =>
    simp only [step]
    split
    · exact ⟨h1, h2, h3⟩
    · exact ⟨h1, h2, h3⟩

theorem run_pinv {s : St} (h : PInv s) (ops : List Op) : PInv (run true s ops) := by
  induction ops generalizing s with
  | nil => exact h
  | cons op ops ih => exact ih (step_pinv h op)

end Nsq.Proofs.TopicPause
