/-
E2 — proofs about the timed micro-step model `Nsq.Model.ChanMicroT` (round 7 / audit A3):
the untimed component is stepped by `ChanMicro.step` (projection), `msg.pri` and the timed ghost log
move together, and every timeout is decided at/after the deadline stamped last (both code shapes).
-/
import Nsq.Model.ChanMicroT
import Nsq.Proofs.ChanMicro
namespace Nsq.Proofs.ChanMicroT
open Nsq.Model.ChanMicro Nsq.Model.ChanMicroT Nsq.Proofs.ChanMicro

/-- every timed step acts on the untimed component as 0, 1 or 2 steps of `ChanMicro` -/
theorem step_ms (fixed : Bool) (s : TS) (op : TOp) :
    ∃ l : List Op, (stepT fixed s op).1.ms = run s.ms l := by
  have hpush : ∀ (o : Op) (id : Nat) (d : Int), ∃ l : List Op, (pushWith fixed s o id d).1.ms = run s.ms l := by
    intro o id d
    unfold pushWith
    cases h : step s.ms o with
    | mk ms1 r =>
      cases r with
      | ok =>
        cases fixed with
        | true => exact ⟨[o, .heapPush id], by simp [run, h]⟩
        | false => exact ⟨[o], by simp [run, h]⟩
      | fail => exact ⟨[], rfl⟩
      | reject => exact ⟨[], rfl⟩
  cases op with
  | plain o =>
    simp only [stepT]
    split
    · exact ⟨[], rfl⟩
    · have key : ∀ x : TS × Res, x.1.ms = (step s.ms o).1 ∨ x.1.ms = s.ms → ∃ l, x.1.ms = run s.ms l := by
        intro x hx; rcases hx with hx | hx
        · exact ⟨[o], by simp [run, hx]⟩
        · exact ⟨[], hx⟩
      apply key
      split
      · split
        · left; simp_all
        · right; rfl
      · left; simp_all
      · left; simp_all
  | delMapPush k id now to => exact hpush _ _ _
  | touchMapPush k id now to => exact hpush _ _ _
  | scanPop id t =>
    simp only [stepT]
    split
    · split
      · split
        · rename_i h; exact ⟨[.scanPop id], by simp [run, h]⟩
        · rename_i h; exact ⟨[.scanPop id], by simp [run, h]⟩
      · exact ⟨[], rfl⟩
    · exact ⟨[], rfl⟩
  | scanIdle t =>
    simp only [stepT]
    split
    · exact ⟨[], rfl⟩
    · split <;> exact ⟨[], rfl⟩

/-- the untimed component of every reachable timed state is a reachable `ChanMicro` state: `MInv` holds,
so all ownership theorems of `C02Micro` apply to the timed model (both shapes) -/
theorem runT_minv (fixed : Bool) (s : TS) (h : MInv s.ms) (ops : List TOp) : MInv (runT fixed s ops).ms := by
  induction ops generalizing s with
  | nil => exact h
  | cons op ops ih =>
    apply ih
    obtain ⟨l, hl⟩ := step_ms fixed s op
    rw [hl]; exact run_minv h l

theorem run_append (s : MS) (l1 l2 : List Op) : run (run s l1) l2 = run s (l1 ++ l2) := by
  induction l1 generalizing s with
  | nil => rfl
  | cons o l1 ih => exact ih _

/-- … and it is literally a state of an untimed schedule: the concatenation of the per-step projections
(`step_ms`) is a `ChanMicro` op list that reaches it from the same start -/
theorem runT_reaches (fixed : Bool) (s : TS) (ops : List TOp) : ∃ l : List Op, (runT fixed s ops).ms = run s.ms l := by
  induction ops generalizing s with
  | nil => exact ⟨[], rfl⟩
  | cons op ops ih =>
    obtain ⟨l1, h1⟩ := step_ms fixed s op
    obtain ⟨l2, h2⟩ := ih (stepT fixed s op).1
    exact ⟨l1 ++ l2, by rw [← run_append, ← h1]; exact h2⟩

/-- what one step does to the ghost log and to the `pri` fields: nothing, a stamp (both), or a timeout
decided while the object's CURRENT `pri` is `≤ t` -/
theorem step_tl (fixed : Bool) (s : TS) (op : TOp) :
    ((stepT fixed s op).1.tlog = s.tlog ∧ (stepT fixed s op).1.pri = s.pri) ∨
    (∃ id d, (stepT fixed s op).1.tlog = .stamp id d :: s.tlog ∧ (stepT fixed s op).1.pri = (id, d) :: s.pri) ∨
    (∃ id t d, (stepT fixed s op).1.tlog = .timedOut id t :: s.tlog ∧ (stepT fixed s op).1.pri = s.pri ∧
      priOf s id = some d ∧ d ≤ t) := by
  have hpush : ∀ (o : Op) (id : Nat) (d : Int),
      ((pushWith fixed s o id d).1.tlog = s.tlog ∧ (pushWith fixed s o id d).1.pri = s.pri) ∨
      (∃ id' d', (pushWith fixed s o id d).1.tlog = .stamp id' d' :: s.tlog ∧ (pushWith fixed s o id d).1.pri = (id', d') :: s.pri) ∨
      (∃ id' t d', (pushWith fixed s o id d).1.tlog = .timedOut id' t :: s.tlog ∧ (pushWith fixed s o id d).1.pri = s.pri ∧
        priOf s id' = some d' ∧ d' ≤ t) := by
    intro o id d
    unfold pushWith
    cases h : step s.ms o with
    | mk ms1 r =>
      cases r with
      | ok =>
        cases fixed with
        | true => exact Or.inr (Or.inl ⟨id, d, rfl, rfl⟩)
        | false => exact Or.inr (Or.inl ⟨id, d, rfl, rfl⟩)
      | fail => exact Or.inl ⟨rfl, rfl⟩
      | reject => exact Or.inl ⟨rfl, rfl⟩
  cases op with
  | plain o =>
    simp only [stepT]
    split
    · exact Or.inl ⟨rfl, rfl⟩
    · split
      · split <;> exact Or.inl ⟨rfl, rfl⟩
      · exact Or.inl ⟨rfl, rfl⟩
      · exact Or.inl ⟨rfl, rfl⟩
  | delMapPush k id now to => exact hpush _ _ _
  | touchMapPush k id now to => exact hpush _ _ _
  | scanPop id t =>
    simp only [stepT]
    split
    · rename_i m d hm hd
      split
      · rename_i hg
        split
        · right; right
          simp only [Bool.and_eq_true, decide_eq_true_eq] at hg
          exact ⟨id, t, d, rfl, rfl, hd, hg.2⟩
        · exact Or.inl ⟨rfl, rfl⟩
      · exact Or.inl ⟨rfl, rfl⟩
    · exact Or.inl ⟨rfl, rfl⟩
  | scanIdle t =>
    simp only [stepT]
    split
    · exact Or.inl ⟨rfl, rfl⟩
    · split <;> exact Or.inl ⟨rfl, rfl⟩

/-- `msg.pri` is what the last stamp wrote -/
def SInv (s : TS) : Prop := ∀ id, lastStamp s.tlog id = priOf s id

/-- every recorded timeout `timedOut id t` comes after a stamp of `id`, and the LATEST stamp before it is `≤ t` -/
def NeverEarly (s : TS) : Prop :=
  ∀ post pre id t, s.tlog = post ++ .timedOut id t :: pre → ∃ d, lastStamp pre id = some d ∧ d ≤ t

theorem step_inv (fixed : Bool) (s : TS) (op : TOp) (h1 : SInv s) (h2 : NeverEarly s) :
    SInv (stepT fixed s op).1 ∧ NeverEarly (stepT fixed s op).1 := by
  rcases step_tl fixed s op with ⟨ht, hp⟩ | ⟨i, d, ht, hp⟩ | ⟨i, t, d, ht, hp, hd, hle⟩
  · refine ⟨?_, ?_⟩
    · intro id; unfold priOf; rw [ht, hp]; exact h1 id
    · intro post pre id t hs; rw [ht] at hs; exact h2 post pre id t hs
  · refine ⟨?_, ?_⟩
    · intro id
      unfold priOf
      rw [ht, hp]
      simp only [lastStamp, List.lookup_cons]
      by_cases he : i = id
      · subst he; simp
      · have : (id == i) = false := by simp; exact fun h => he h.symm
        simp only [he, ↓reduceIte, this]
        exact h1 id
    · intro post pre id t hs
      rw [ht] at hs
      cases post with
      | nil => simp at hs
      | cons e post' =>
        simp only [List.cons_append, List.cons.injEq] at hs
        exact h2 post' pre id t hs.2
  · refine ⟨?_, ?_⟩
    · intro id; unfold priOf; rw [ht, hp]; simp only [lastStamp]; exact h1 id
    · intro post pre id t' hs
      rw [ht] at hs
      cases post with
      | nil =>
        simp only [List.nil_append, List.cons.injEq, TEv.timedOut.injEq] at hs
        obtain ⟨⟨rfl, rfl⟩, rfl⟩ := hs
        exact ⟨d, (h1 i).trans hd, hle⟩
      | cons e post' =>
        simp only [List.cons_append, List.cons.injEq] at hs
        exact h2 post' pre id t' hs.2

theorem runT_inv (fixed : Bool) (s : TS) (ops : List TOp) (h1 : SInv s) (h2 : NeverEarly s) :
    SInv (runT fixed s ops) ∧ NeverEarly (runT fixed s ops) := by
  induction ops generalizing s with
  | nil => exact ⟨h1, h2⟩
  | cons op ops ih =>
    obtain ⟨a, b⟩ := step_inv fixed s op h1 h2
    exact ih _ a b

end Nsq.Proofs.ChanMicroT
