import Nsq.Model.RelayN2NTool
/-!
Helper lemmas for the history theorems of nsq_to_nsq (`Nsq.Props.C20N2NTool`, audit round 7 item C22).
-/
namespace Nsq.Proofs.RelayN2NTool
open Nsq.Model.Relay Nsq.Model.Relay.N2N

/-- the outputs of `publishTo` never contain a `fin` -/
theorem publishTo_no_fin (c : Cfg) (st : St) (m : Msg) (body : Bytes) (pick : Nat) (ae : Bool) (id : Nat) :
    Out.fin id ∉ (publishTo c st m body pick ae).2 := by
  unfold publishTo
  split
  · simp
  · split <;> simp

/-- where a `fin` can sit in the output of one step -/
theorem step_fin_split (c : Cfg) (st : St) (ev : Ev) (id : Nat) (p q : List Out)
    (h : (step c st ev).2 = p ++ Out.fin id :: q) :
    (∃ i tx, ev = .result i true ∧ st.outstanding[i]? = some tx ∧ tx.id = id ∧ p = [Out.accepted tx.addr id] ∧ q = []) ∨
    (c.filterOn = true ∧ ∃ m pick ae, ev = .msg m .drop pick ae ∧ m.id = id ∧ p = [] ∧ q = []) := by
  have hmem : Out.fin id ∈ (step c st ev).2 := by rw [h]; simp
  cases ev with
  | msg m f pick ae =>
    right
    by_cases hf : c.filterOn = false
    · have e : (step c st (.msg m f pick ae)).2 = (publishTo c st m m.body pick ae).2 := by simp [step, hf]
      rw [e] at hmem
      exact absurd hmem (publishTo_no_fin _ _ _ _ _ _ _)
    · have hf' : c.filterOn = true := by simpa using hf
      cases f with
      | drop =>
        have e : (step c st (.msg m .drop pick ae)).2 = [Out.fin m.id] := by simp [step, hf']
        rw [e] at h
        cases p with
        | nil => simp at h; exact ⟨hf', m, pick, ae, rfl, h.1, rfl, h.2⟩
        | cons x xs => simp at h
      | backoff =>
        have e : (step c st (.msg m .backoff pick ae)).2 = [Out.req m.id] := by simp [step, hf']
        rw [e] at hmem; simp at hmem
      | marshalErr =>
        have e : (step c st (.msg m .marshalErr pick ae)).2 = [Out.req m.id] := by simp [step, hf']
        rw [e] at hmem; simp at hmem
      | pass b =>
        have e : (step c st (.msg m (.pass b) pick ae)).2 = (publishTo c st m b pick ae).2 := by simp [step, hf']
        rw [e] at hmem
        exact absurd hmem (publishTo_no_fin _ _ _ _ _ _ _)
  | result i ok =>
    left
    cases ho : st.outstanding[i]? with
    | none => simp [step, ho] at hmem
    | some tx =>
      cases ok with
      | false => simp [step, ho] at hmem
      | true =>
        have e : (step c st (.result i true)).2 = [Out.accepted tx.addr tx.id, Out.fin tx.id] := by simp [step, ho]
        rw [e] at h
        match p, h with
        | [], h => simp at h
        | [x], h =>
          simp at h
          obtain ⟨h1, h2, h3⟩ := h
          exact ⟨i, tx, rfl, ho, h2, by rw [← h1, h2], h3⟩
        | x :: y :: zs, h => simp at h

/-- a transaction outstanding after a step was outstanding before, or this step is the `HandleMessage` that
published it (and, without a filter, its body is the body of that message) -/
theorem step_outstanding (c : Cfg) (st : St) (ev : Ev) (tx : Tx) (h : tx ∈ (step c st ev).1.outstanding) :
    tx ∈ st.outstanding ∨
    (Out.publish tx.addr tx.id tx.body ∈ (step c st ev).2 ∧
      ∃ m f pick ae, ev = .msg m f pick ae ∧ m.id = tx.id ∧ (c.filterOn = false → tx.body = m.body)
        ∧ (c.filterOn = true → f = .pass tx.body)) := by
  have key : ∀ (m : Msg) (body : Bytes) (pick : Nat) (ae : Bool), tx ∈ (publishTo c st m body pick ae).1.outstanding →
      tx ∈ st.outstanding ∨ (Out.publish tx.addr tx.id tx.body ∈ (publishTo c st m body pick ae).2 ∧ m.id = tx.id ∧ tx.body = body) := by
    intro m body pick ae hin
    unfold publishTo at hin ⊢
    split at hin
    · exact Or.inl hin
    · rename_i h1
      rw [if_neg h1]
      split at hin
      · exact Or.inl hin
      · rename_i h2
        rw [if_neg h2]
        simp at hin
        cases hin with
        | inl hin => exact Or.inl hin
        | inr hin => subst hin; right; simp
  cases ev with
  | result i ok =>
    left
    unfold step at h
    cases ho : st.outstanding[i]? with
    | none => simp [ho] at h; exact h
    | some t => simp only [ho] at h; exact List.mem_of_mem_eraseIdx h
  | msg m f pick ae =>
    by_cases hf : c.filterOn = false
    · have e : step c st (.msg m f pick ae) = publishTo c st m m.body pick ae := by simp [step, hf]
      rw [e] at h ⊢
      cases key m m.body pick ae h with
      | inl h => exact Or.inl h
      | inr h => exact Or.inr ⟨h.1, m, f, pick, ae, rfl, h.2.1, fun _ => h.2.2, fun h' => by rw [hf] at h'; cases h'⟩
    · have hf' : c.filterOn = true := by simpa using hf
      cases f with
      | drop => left; simpa [step, hf'] using h
      | backoff => left; simpa [step, hf'] using h
      | marshalErr => left; simpa [step, hf'] using h
      | pass b =>
        have e : step c st (.msg m (.pass b) pick ae) = publishTo c st m b pick ae := by simp [step, hf']
        rw [e] at h ⊢
        cases key m b pick ae h with
        | inl h => exact Or.inl h
        | inr h =>
          refine Or.inr ⟨h.1, m, _, pick, ae, rfl, h.2.1, ?_, ?_⟩
          · intro h'; rw [hf'] at h'; cases h'
          · intro _; rw [h.2.2]

/-- splitting `A ++ B` at an element: it sits in `A` or in `B` -/
theorem append_split {α : Type} (A B pre post : List α) (x : α) (h : A ++ B = pre ++ x :: post) :
    (∃ q, A = pre ++ x :: q ∧ post = q ++ B) ∨ (∃ p, pre = A ++ p ∧ B = p ++ x :: post) := by
  rcases List.append_eq_append_iff.mp h with ⟨a', h1, h2⟩ | ⟨c', h1, h2⟩
  · exact Or.inr ⟨a', h1, h2⟩
  · cases c' with
    | nil => right; exact ⟨[], by simpa using h1.symm, by simpa using h2.symm⟩
    | cons y ys =>
      simp at h2
      obtain ⟨rfl, rfl⟩ := h2
      exact Or.inl ⟨ys, h1, rfl⟩

/-- what `handlerLoop` does with one event: give up (state untouched, bare `fin`) or run the handler -/
theorem consume_cases (c : Cfg) (k : Nat) (st : St) (t : TEv) :
    (∃ m f p ae, t.ev = .msg m f p ae ∧ Http.shouldFail k t.attempts = true ∧ consume c k st t = (st, [Out.fin m.id])) ∨
    consume c k st t = step c st t.ev := by
  unfold consume
  cases hev : t.ev with
  | result i ok => right; rfl
  | msg m f p ae =>
    by_cases hs : Http.shouldFail k t.attempts = true
    · left; exact ⟨m, f, p, ae, rfl, hs, by simp [hs]⟩
    · right; simp [hs]

/-- where the published transaction `(a, id, b)` of an `accepted a id` comes from -/
def Origin (c : Cfg) (st : St) (tevs : List TEv) (pre' : List Out) (a id : Nat) (b : Bytes) : Prop :=
  (⟨a, id, b⟩ : Tx) ∈ st.outstanding ∨
  (Out.publish a id b ∈ pre' ∧ ∃ t ∈ tevs, ∃ m f p ae, t.ev = .msg m f p ae ∧ m.id = id ∧
      (c.filterOn = false → b = m.body) ∧ (c.filterOn = true → f = .pass b))

def Dropped (c : Cfg) (tevs : List TEv) (id : Nat) : Prop :=
  c.filterOn = true ∧ ∃ t ∈ tevs, ∃ m pick ae, t.ev = .msg m .drop pick ae ∧ m.id = id

def GaveUp (k : Nat) (tevs : List TEv) (id : Nat) : Prop :=
  ∃ t ∈ tevs, ∃ m f p ae, t.ev = .msg m f p ae ∧ m.id = id ∧ Http.shouldFail k t.attempts = true

/-- **every occurrence** of `fin id` in a history of the tool, from any state -/
theorem fin_split_gen (c : Cfg) (k : Nat) (tevs : List TEv) (st : St) (id : Nat) (pre post : List Out)
    (h : consumeRun c k st tevs = pre ++ Out.fin id :: post) :
    (∃ pre' a b, pre = pre' ++ [Out.accepted a id] ∧ Origin c st tevs pre' a id b) ∨ Dropped c tevs id ∨ GaveUp k tevs id := by
  induction tevs generalizing st pre with
  | nil => simp [consumeRun] at h
  | cons t ts ih =>
    unfold consumeRun at h
    rcases append_split _ _ _ _ _ h with ⟨q, hA, _⟩ | ⟨p, hpre, hB⟩
    · rcases consume_cases c k st t with ⟨m, f, pk, ae, hev, hsf, hc⟩ | hc
      · rw [hc] at hA
        have hid : m.id = id := by
          cases pre with
          | nil => simp at hA; exact hA.1
          | cons x xs => simp at hA
        exact Or.inr (Or.inr ⟨t, List.mem_cons_self .., m, f, pk, ae, hev, hid, hsf⟩)
      · rw [hc] at hA
        rcases step_fin_split c st t.ev id pre q hA with ⟨i, tx, _, ho, hid, hp, _⟩ | ⟨hf, m, pick, ae, hev, hid, _, _⟩
        · left
          refine ⟨[], tx.addr, tx.body, by simpa using hp, Or.inl ?_⟩
          have := List.mem_of_getElem? ho
          rw [← hid]
          exact this
        · exact Or.inr (Or.inl ⟨hf, t, List.mem_cons_self .., m, pick, ae, hev, hid⟩)
    · rcases ih _ p hB with ⟨pre', a, b, hp, horig⟩ | ⟨hf, t', ht', hd⟩ | ⟨t', ht', hg⟩
      · left
        refine ⟨(consume c k st t).2 ++ pre', a, b, by rw [hpre, hp]; simp, ?_⟩
        rcases horig with hin | ⟨hpub, t', ht', hrest⟩
        · rcases consume_cases c k st t with ⟨m, f, pk, ae, hev, hsf, hc⟩ | hc
          · rw [hc] at hin; exact Or.inl hin
          · rw [hc] at hin ⊢
            rcases step_outstanding c st t.ev _ hin with hin | ⟨hpub, m, f, pk, ae, hev, hid, hb, hfl⟩
            · exact Or.inl hin
            · exact Or.inr ⟨List.mem_append_left _ hpub, t, List.mem_cons_self .., m, f, pk, ae, hev, hid,
                fun h' => hb h', hfl⟩
        · exact Or.inr ⟨List.mem_append_right _ hpub, t', List.mem_cons_of_mem _ ht', hrest⟩
      · exact Or.inr (Or.inl ⟨hf, t', List.mem_cons_of_mem _ ht', hd⟩)
      · exact Or.inr (Or.inr ⟨t', List.mem_cons_of_mem _ ht', hg⟩)

/-- the handler-only history is the tool with give-up switched off -/
theorem run_eq_consumeRun (c : Cfg) (evs : List Ev) (st : St) :
    run c st evs = consumeRun c 0 st (evs.map (fun e => ⟨0, e⟩)) := by
  induction evs generalizing st with
  | nil => rfl
  | cons e es ih =>
    have hc : consume c 0 st ⟨0, e⟩ = step c st e := by
      cases e <;> simp [consume, Http.shouldFail]
    simp only [run, List.map_cons, consumeRun, hc]
    rw [ih]

/-- if the library never gives up on any delivery, the tool's history is the handler's history -/
theorem consumeRun_eq_run (c : Cfg) (k : Nat) (tevs : List TEv) (st : St)
    (hno : ∀ t ∈ tevs, Http.shouldFail k t.attempts = false) :
    consumeRun c k st tevs = run c st (tevs.map (·.ev)) := by
  induction tevs generalizing st with
  | nil => rfl
  | cons t ts ih =>
    have hc : consume c k st t = step c st t.ev := by
      rcases consume_cases c k st t with ⟨_, _, _, _, _, hs, _⟩ | hc
      · rw [hno t (List.mem_cons_self ..)] at hs; cases hs
      · exact hc
    simp only [consumeRun, List.map_cons, run, hc]
    rw [ih _ (fun t' ht' => hno t' (List.mem_cons_of_mem _ ht'))]

/-! ### "earlier in the history" (claim audit 2, C20 item 7)

`Origin` only says that SOME message event with that id occurs SOMEWHERE in the history. `OriginAt` pins the position:
the history splits as `ts1 ++ t :: ts2`, `t` is the `HandleMessage` event, `outT` is the output of `t`'s own step (the
trace of `ts1 ++ [t]` is the trace of `ts1` followed by `outT`), the `publish` sits in `outT`, and the trace up to and
including `outT` is a prefix of what precedes the `accepted` — so the delivery, and the publish it caused, come before. -/

def OriginAt (c : Cfg) (k : Nat) (st : St) (tevs : List TEv) (pre' : List Out) (a id : Nat) (b : Bytes) : Prop :=
  (⟨a, id, b⟩ : Tx) ∈ st.outstanding ∨
  ∃ ts1 t ts2 outT rest, tevs = ts1 ++ t :: ts2 ∧
    consumeRun c k st (ts1 ++ [t]) = consumeRun c k st ts1 ++ outT ∧ Out.publish a id b ∈ outT ∧
    pre' = consumeRun c k st ts1 ++ outT ++ rest ∧
    ∃ m f p ae, t.ev = .msg m f p ae ∧ m.id = id ∧ (c.filterOn = false → b = m.body) ∧ (c.filterOn = true → f = .pass b)

/-- **every occurrence** of `fin id`, with the position of the delivery that caused the accepted publish -/
theorem fin_split_pos (c : Cfg) (k : Nat) (tevs : List TEv) (st : St) (id : Nat) (pre post : List Out)
    (h : consumeRun c k st tevs = pre ++ Out.fin id :: post) :
    (∃ pre' a b, pre = pre' ++ [Out.accepted a id] ∧ OriginAt c k st tevs pre' a id b) ∨ Dropped c tevs id ∨ GaveUp k tevs id := by
  induction tevs generalizing st pre with
  | nil => simp [consumeRun] at h
  | cons t ts ih =>
    unfold consumeRun at h
    rcases append_split _ _ _ _ _ h with ⟨q, hA, _⟩ | ⟨p, hpre, hB⟩
    · rcases consume_cases c k st t with ⟨m, f, pk, ae, hev, hsf, hc⟩ | hc
      · rw [hc] at hA
        have hid : m.id = id := by
          cases pre with
          | nil => simp at hA; exact hA.1
          | cons x xs => simp at hA
        exact Or.inr (Or.inr ⟨t, List.mem_cons_self .., m, f, pk, ae, hev, hid, hsf⟩)
      · rw [hc] at hA
        rcases step_fin_split c st t.ev id pre q hA with ⟨i, tx, _, ho, hid, hp, _⟩ | ⟨hf, m, pick, ae, hev, hid, _, _⟩
        · left
          refine ⟨[], tx.addr, tx.body, by simpa using hp, Or.inl ?_⟩
          have := List.mem_of_getElem? ho
          rw [← hid]
          exact this
        · exact Or.inr (Or.inl ⟨hf, t, List.mem_cons_self .., m, pick, ae, hev, hid⟩)
    · rcases ih _ p hB with ⟨pre', a, b, hp, horig⟩ | ⟨hf, t', ht', hd⟩ | ⟨t', ht', hg⟩
      · left
        refine ⟨(consume c k st t).2 ++ pre', a, b, by rw [hpre, hp]; simp, ?_⟩
        rcases horig with hin | ⟨ts1, t', ts2, outT, rest, hts, hrun, hpub, hpre', hrest⟩
        · rcases consume_cases c k st t with ⟨m, f, pk, ae, hev, hsf, hc⟩ | hc
          · rw [hc] at hin; exact Or.inl hin
          · have hin' := hin
            rw [hc] at hin'
            rcases step_outstanding c st t.ev _ hin' with hin' | ⟨hpub, m, f, pk, ae, hev, hid, hb, hfl⟩
            · exact Or.inl hin'
            · refine Or.inr ⟨[], t, ts, (consume c k st t).2, pre', rfl, by simp [consumeRun], by rw [hc]; exact hpub,
                by simp [consumeRun], m, f, pk, ae, hev, hid, fun h' => hb h', hfl⟩
        · refine Or.inr ⟨t :: ts1, t', ts2, outT, rest, by rw [hts]; rfl, ?_, hpub, ?_, hrest⟩
          · simp only [List.cons_append, consumeRun, hrun, List.append_assoc]
          · simp only [consumeRun, hpre', List.append_assoc]
      · exact Or.inr (Or.inl ⟨hf, t', List.mem_cons_of_mem _ ht', hd⟩)
      · exact Or.inr (Or.inr ⟨t', List.mem_cons_of_mem _ ht', hg⟩)

end Nsq.Proofs.RelayN2NTool
