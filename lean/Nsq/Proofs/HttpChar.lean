import Nsq.Proofs.HttpApi
/-!
Exact (`↔`) characterisations of the answers of the nsqd HTTP handlers (audit round 7, items B13 and
B20). `Documented` (round 1) only said "status ⇒ some cause", with causes so wide that almost every
request satisfied them. Here every (status, message) pair of every handler is characterised by the
exact condition on the request and the broker under which it is produced, the list of pairs is
exhaustive, and the broker after a 200 is given as an explicit expression.

Vocabulary: `arg rq k` — the value of query argument `k` as the handler sees it (first value wins;
`none` when the query does not parse or has no such key); `QueryBad rq` — `url.ParseQuery` fails.
-/
namespace Nsq.Proofs.HttpChar
open Nsq.Model.HttpApi Nsq.Model.ProtoV2 Nsq.Model.Names Nsq.Model.Base10 Nsq.Model
open Nsq.Proofs.HttpApi

/-- `url.ParseQuery(req.URL.RawQuery)` returns an error. -/
def QueryBad (rq : Request) : Prop := parseQuery rq.rawQuery = none

instance (rq : Request) : Decidable (QueryBad rq) := by unfold QueryBad; infer_instance

/-- `values[k][0]` of the parsed query; `none`: the query does not parse, or has no key `k`. -/
def arg (rq : Request) (k : Bytes) : Option Bytes :=
  match parseQuery rq.rawQuery with
  | none => none
  | some kv => qget kv k

/-! ## Topic endpoints: /topic/create, /topic/empty, /topic/delete, /topic/pause, /topic/unpause -/

/-- What one topic endpoint answers. `validate`: the handler checks the name (`/topic/create` and
`/topic/empty` do, `/topic/delete` and `/topic/(un)pause` look the raw name up); `mustExist`: an unknown
topic is 404 (all but create); `invalidMsg`: the message of the name check; `act t`: the broker after a
200 on topic `t`. Every field is an equivalence or an equation; `exhaustive` lists all answers. -/
structure TopicEndpoint (validate mustExist : Bool) (act : Bytes → Broker) (b : Broker) (rq : Request)
    (r : Out) : Prop where
  invalidRequest : r.1 = ⟨.s400, "INVALID_REQUEST"⟩ ↔ QueryBad rq
  missingTopic : r.1 = ⟨.s400, "MISSING_ARG_TOPIC"⟩ ↔ ¬ QueryBad rq ∧ arg rq kTopic = none
  invalidTopic : r.1 = ⟨.s400, "INVALID_TOPIC"⟩ ↔
    ∃ t, arg rq kTopic = some t ∧ validate = true ∧ isValidName t = false
  notFound : r.1 = ⟨.s404, "TOPIC_NOT_FOUND"⟩ ↔
    ∃ t, arg rq kTopic = some t ∧ (validate = true → isValidName t = true) ∧ mustExist = true ∧ hasTopic b t = false
  ok : r.1 = ⟨.s200, ""⟩ ↔
    ∃ t, arg rq kTopic = some t ∧ (validate = true → isValidName t = true) ∧ (mustExist = true → hasTopic b t = true)
  status200 : r.1.status = .s200 ↔
    ∃ t, arg rq kTopic = some t ∧ (validate = true → isValidName t = true) ∧ (mustExist = true → hasTopic b t = true)
  status400 : r.1.status = .s400 ↔
    QueryBad rq ∨ arg rq kTopic = none ∨ ∃ t, arg rq kTopic = some t ∧ validate = true ∧ isValidName t = false
  status404 : r.1.status = .s404 ↔
    ∃ t, arg rq kTopic = some t ∧ (validate = true → isValidName t = true) ∧ mustExist = true ∧ hasTopic b t = false
  effect : ∀ t, arg rq kTopic = some t → (validate = true → isValidName t = true) →
    (mustExist = true → hasTopic b t = true) → r = (⟨.s200, ""⟩, act t)
  unchanged : r.1.status ≠ .s200 → r.2 = b
  exhaustive : r.1 ∈ [⟨.s400, "INVALID_REQUEST"⟩, ⟨.s400, "MISSING_ARG_TOPIC"⟩, ⟨.s400, "INVALID_TOPIC"⟩,
    ⟨.s404, "TOPIC_NOT_FOUND"⟩, ⟨.s200, ""⟩]

/-- The common shape of the five topic handlers. -/
def topicShape (validate mustExist : Bool) (act : Bytes → Broker) (b : Broker) (rq : Request) : Out :=
  match parseQuery rq.rawQuery with
  | none => resp .s400 "INVALID_REQUEST" b
  | some kv =>
    match qget kv kTopic with
    | none => resp .s400 "MISSING_ARG_TOPIC" b
    | some t =>
      if validate && !isValidName t then resp .s400 "INVALID_TOPIC" b
      else if mustExist && !hasTopic b t then resp .s404 "TOPIC_NOT_FOUND" b
      else resp .s200 "" (act t)

theorem topicShape_char (validate mustExist : Bool) (act : Bytes → Broker) (b : Broker) (rq : Request) :
    TopicEndpoint validate mustExist act b rq (topicShape validate mustExist act b rq) := by
  unfold topicShape
  cases hq : parseQuery rq.rawQuery with
  | none => constructor <;> simp [QueryBad, arg, hq, resp]
  | some kv =>
    cases ht : qget kv kTopic with
    | none => constructor <;> simp [QueryBad, arg, hq, ht, resp]
    | some t =>
      cases validate <;> cases mustExist <;> cases hv : isValidName t <;> cases hh : hasTopic b t <;>
        constructor <;> simp [QueryBad, arg, hq, ht, hv, hh, resp]

theorem doCreateTopic_shape (b : Broker) (rq : Request) :
    doCreateTopic b rq = topicShape true false (fun t => getTopic b t) b rq := by
  unfold doCreateTopic topicFromQuery topicShape
  cases hq : parseQuery rq.rawQuery with
  | none => rfl
  | some kv =>
    cases ht : qget kv kTopic with
    | none => simp [ht, resp]
    | some t => cases hv : isValidName t <;> simp [ht, hv, resp]

theorem doEmptyTopic_shape (b : Broker) (rq : Request) :
    doEmptyTopic b rq = topicShape true true (fun t => modifyTopic b t (fun x => { x with msgs := [] })) b rq := by
  unfold doEmptyTopic topicShape
  cases hq : parseQuery rq.rawQuery with
  | none => rfl
  | some kv =>
    cases ht : qget kv kTopic with
    | none => simp [ht, resp]
    | some t => cases hv : isValidName t <;> cases hh : hasTopic b t <;> simp [ht, hv, hh, resp]

theorem doDeleteTopic_shape (b : Broker) (rq : Request) :
    doDeleteTopic b rq = topicShape false true (fun t => deleteTopic b t) b rq := by
  unfold doDeleteTopic topicShape
  cases hq : parseQuery rq.rawQuery with
  | none => rfl
  | some kv =>
    cases ht : qget kv kTopic with
    | none => simp [ht, resp]
    | some t => cases hh : hasTopic b t <;> simp [ht, hh, resp]

theorem doPauseTopic_shape (b : Broker) (rq : Request) :
    doPauseTopic b rq = topicShape false true
      (fun t => modifyTopic b t (fun x => settle { x with paused := !isUnpause rq.path })) b rq := by
  unfold doPauseTopic topicShape
  cases hq : parseQuery rq.rawQuery with
  | none => rfl
  | some kv =>
    cases ht : qget kv kTopic with
    | none => simp [ht, resp]
    | some t => cases hh : hasTopic b t <;> simp [ht, hh, resp]

/-! ## Channel endpoints -/

/-- Both names are present and valid. -/
def GoodNames (rq : Request) (t c : Bytes) : Prop :=
  arg rq kTopic = some t ∧ isValidName t = true ∧ arg rq kChannel = some c ∧ isValidName c = true

/-- What one channel endpoint answers. `needChan`: an unknown channel is 404 (all but create). -/
structure ChannelEndpoint (needChan : Bool) (act : Bytes → Bytes → Broker) (b : Broker) (rq : Request)
    (r : Out) : Prop where
  invalidRequest : r.1 = ⟨.s400, "INVALID_REQUEST"⟩ ↔ QueryBad rq
  missingTopic : r.1 = ⟨.s400, "MISSING_ARG_TOPIC"⟩ ↔ ¬ QueryBad rq ∧ arg rq kTopic = none
  invalidTopic : r.1 = ⟨.s400, "INVALID_ARG_TOPIC"⟩ ↔ ∃ t, arg rq kTopic = some t ∧ isValidName t = false
  missingChannel : r.1 = ⟨.s400, "MISSING_ARG_CHANNEL"⟩ ↔
    ∃ t, arg rq kTopic = some t ∧ isValidName t = true ∧ arg rq kChannel = none
  invalidChannel : r.1 = ⟨.s400, "INVALID_ARG_CHANNEL"⟩ ↔
    ∃ t c, arg rq kTopic = some t ∧ isValidName t = true ∧ arg rq kChannel = some c ∧ isValidName c = false
  topicNotFound : r.1 = ⟨.s404, "TOPIC_NOT_FOUND"⟩ ↔ ∃ t c, GoodNames rq t c ∧ hasTopic b t = false
  channelNotFound : r.1 = ⟨.s404, "CHANNEL_NOT_FOUND"⟩ ↔
    ∃ t c, GoodNames rq t c ∧ hasTopic b t = true ∧ needChan = true ∧ chanExists b t c = false
  ok : r.1 = ⟨.s200, ""⟩ ↔
    ∃ t c, GoodNames rq t c ∧ hasTopic b t = true ∧ (needChan = true → chanExists b t c = true)
  status200 : r.1.status = .s200 ↔
    ∃ t c, GoodNames rq t c ∧ hasTopic b t = true ∧ (needChan = true → chanExists b t c = true)
  status400 : r.1.status = .s400 ↔ ¬ ∃ t c, GoodNames rq t c
  status404 : r.1.status = .s404 ↔
    ∃ t c, GoodNames rq t c ∧ (hasTopic b t = false ∨ (needChan = true ∧ chanExists b t c = false))
  effect : ∀ t c, GoodNames rq t c → hasTopic b t = true → (needChan = true → chanExists b t c = true) →
    r = (⟨.s200, ""⟩, act t c)
  unchanged : r.1.status ≠ .s200 → r.2 = b
  exhaustive : r.1 ∈ [⟨.s400, "INVALID_REQUEST"⟩, ⟨.s400, "MISSING_ARG_TOPIC"⟩, ⟨.s400, "INVALID_ARG_TOPIC"⟩,
    ⟨.s400, "MISSING_ARG_CHANNEL"⟩, ⟨.s400, "INVALID_ARG_CHANNEL"⟩, ⟨.s404, "TOPIC_NOT_FOUND"⟩,
    ⟨.s404, "CHANNEL_NOT_FOUND"⟩, ⟨.s200, ""⟩]

def channelShape (needChan : Bool) (act : Bytes → Bytes → Broker) (b : Broker) (rq : Request) : Out :=
  match topicChannelArgs b rq with
  | .error e => resp e.1 e.2 b
  | .ok tc =>
    if needChan && !chanExists b tc.1 tc.2 then resp .s404 "CHANNEL_NOT_FOUND" b
    else resp .s200 "" (act tc.1 tc.2)

theorem channelShape_char (needChan : Bool) (act : Bytes → Bytes → Broker) (b : Broker) (rq : Request) :
    ChannelEndpoint needChan act b rq (channelShape needChan act b rq) := by
  unfold channelShape topicChannelArgs
  cases hq : parseQuery rq.rawQuery with
  | none => constructor <;> simp [QueryBad, GoodNames, arg, hq, resp]
  | some kv =>
    cases ht : qget kv kTopic with
    | none => constructor <;> simp [QueryBad, GoodNames, arg, hq, ht, resp]
    | some t =>
      cases hv : isValidName t with
      | false => constructor <;> simp [QueryBad, GoodNames, arg, hq, ht, hv, resp] <;> (intros; subst_vars; simp_all)
      | true =>
        cases hc : qget kv kChannel with
        | none => constructor <;> simp [QueryBad, GoodNames, arg, hq, ht, hv, hc, resp] <;> (intros; subst_vars; simp_all)
        | some c =>
          cases needChan <;> cases hvc : isValidName c <;> cases hh : hasTopic b t <;>
            cases hce : chanExists b t c <;>
            constructor <;> simp [QueryBad, GoodNames, arg, hq, ht, hv, hc, hvc, hh, hce, resp] <;>
              (intros; subst_vars; first | simp_all | exact ⟨t, c, by simp_all⟩ | exact ⟨t, by simp_all⟩ | skip)

theorem doCreateChannel_shape (b : Broker) (rq : Request) :
    doCreateChannel b rq = channelShape false (fun t c => getChannel b t c) b rq := by
  unfold doCreateChannel channelShape
  cases topicChannelArgs b rq <;> simp

theorem doEmptyChannel_shape (b : Broker) (rq : Request) :
    doEmptyChannel b rq = channelShape true (fun t c => modifyChan b t c (fun c => { c with msgs := [] })) b rq := by
  unfold doEmptyChannel channelShape
  cases topicChannelArgs b rq <;> simp

theorem doDeleteChannel_shape (b : Broker) (rq : Request) :
    doDeleteChannel b rq = channelShape true (fun t c => deleteChannel b t c) b rq := by
  unfold doDeleteChannel channelShape
  cases topicChannelArgs b rq <;> simp

theorem doPauseChannel_shape (b : Broker) (rq : Request) :
    doPauseChannel b rq = channelShape true
      (fun t c => modifyChan b t c (fun x => { x with paused := !isUnpause rq.path })) b rq := by
  unfold doPauseChannel channelShape
  cases topicChannelArgs b rq <;> simp

/-! ## /pub -/

/-- 413 of `/pub`: the declared length exceeds max-msg-size, or the limited read
(`io.LimitReader(req.Body, max-msg-size+1)`) was filled. -/
def PubTooBig (hc : HConf) (rq : Request) : Prop :=
  rq.contentLength > hc.maxMsgSize ∨ ((pubData hc rq).length : Int) = hc.maxMsgSize + 1

/-- The body passed the size checks and is not empty. -/
def PubBodyOk (hc : HConf) (rq : Request) : Prop := ¬ PubTooBig hc rq ∧ pubData hc rq ≠ []

/-- A `defer` argument is present and is not a decimal int64 within [0, max-req-timeout in ms]. -/
def DeferBad (hc : HConf) (rq : Request) : Prop :=
  ∃ d, arg rq kDefer = some d ∧ ∀ di, parseInt64 d = some di → di < 0 ∨ di > hc.maxReqTimeoutMs

/-- The delay in nanoseconds the request asks for (0 without a `defer` argument). -/
def deferNs (hc : HConf) (rq : Request) : Option Int :=
  match parseQuery rq.rawQuery with
  | none => none
  | some kv => deferArg hc kv

theorem deferArg_none_iff (hc : HConf) (kv : List (Bytes × Bytes)) :
    deferArg hc kv = none ↔
      ∃ d, qget kv kDefer = some d ∧ ∀ di, parseInt64 d = some di → di < 0 ∨ di > hc.maxReqTimeoutMs := by
  unfold deferArg
  cases hd : qget kv kDefer with
  | none => simp
  | some d =>
    cases hp : parseInt64 d with
    | none => simp [hp]
    | some di =>
      by_cases hr : di < 0 ∨ di > hc.maxReqTimeoutMs
      · simp [hp, hr]
      · simp [hp, hr]

/-- The accepted delays, exactly: no `defer` argument (0), or a decimal `di` ms within range. -/
theorem deferNs_some_iff (hc : HConf) (rq : Request) (ns : Int) :
    deferNs hc rq = some ns ↔ ¬ QueryBad rq ∧
      ((arg rq kDefer = none ∧ ns = 0) ∨
       ∃ d di, arg rq kDefer = some d ∧ parseInt64 d = some di ∧ 0 ≤ di ∧ di ≤ hc.maxReqTimeoutMs ∧
         ns = di * 1000000) := by
  unfold deferNs QueryBad arg
  cases hq : parseQuery rq.rawQuery with
  | none => simp
  | some kv =>
    unfold deferArg
    cases hd : qget kv kDefer with
    | none => simp [hd, eq_comm]
    | some d =>
      cases hp : parseInt64 d with
      | none => simp [hd, hp]
      | some di =>
        by_cases hr : di < 0 ∨ di > hc.maxReqTimeoutMs
        · simp [hd, hp, hr]
          omega
        · simp [hd, hp, hr]
          constructor
          · intro h; exact ⟨by omega, by omega, h.symm⟩
          · intro h; exact h.2.2.symm

structure PubEndpoint (hc : HConf) (b : Broker) (rq : Request) (r : Out) : Prop where
  tooBig : r.1 = ⟨.s413, "MSG_TOO_BIG"⟩ ↔ PubTooBig hc rq
  empty : r.1 = ⟨.s400, "MSG_EMPTY"⟩ ↔ ¬ PubTooBig hc rq ∧ pubData hc rq = []
  invalidRequest : r.1 = ⟨.s400, "INVALID_REQUEST"⟩ ↔ PubBodyOk hc rq ∧ QueryBad rq
  missingTopic : r.1 = ⟨.s400, "MISSING_ARG_TOPIC"⟩ ↔ PubBodyOk hc rq ∧ ¬ QueryBad rq ∧ arg rq kTopic = none
  invalidTopic : r.1 = ⟨.s400, "INVALID_TOPIC"⟩ ↔
    PubBodyOk hc rq ∧ ∃ t, arg rq kTopic = some t ∧ isValidName t = false
  invalidDefer : r.1 = ⟨.s400, "INVALID_DEFER"⟩ ↔
    PubBodyOk hc rq ∧ (∃ t, arg rq kTopic = some t ∧ isValidName t = true) ∧ DeferBad hc rq
  ok : r.1 = ⟨.s200, "OK"⟩ ↔
    PubBodyOk hc rq ∧ (∃ t, arg rq kTopic = some t ∧ isValidName t = true) ∧ ¬ DeferBad hc rq
  status413 : r.1.status = .s413 ↔ PubTooBig hc rq
  status200 : r.1.status = .s200 ↔
    PubBodyOk hc rq ∧ (∃ t, arg rq kTopic = some t ∧ isValidName t = true) ∧ ¬ DeferBad hc rq
  status400 : r.1.status = .s400 ↔ ¬ PubTooBig hc rq ∧
    (pubData hc rq = [] ∨ QueryBad rq ∨ arg rq kTopic = none ∨
     (∃ t, arg rq kTopic = some t ∧ isValidName t = false) ∨ DeferBad hc rq)
  effect : ∀ t ns, PubBodyOk hc rq → arg rq kTopic = some t → isValidName t = true → deferNs hc rq = some ns →
    r = (⟨.s200, "OK"⟩, publish b t [⟨pubData hc rq, ns⟩])
  deferCreates : ∀ t, r.1 = ⟨.s400, "INVALID_DEFER"⟩ → arg rq kTopic = some t → r.2 = getTopic b t
  unchanged : r.1.status ≠ .s200 → r.1.msg ≠ "INVALID_DEFER" → r.2 = b
  exhaustive : r.1 ∈ [⟨.s413, "MSG_TOO_BIG"⟩, ⟨.s400, "MSG_EMPTY"⟩, ⟨.s400, "INVALID_REQUEST"⟩,
    ⟨.s400, "MISSING_ARG_TOPIC"⟩, ⟨.s400, "INVALID_TOPIC"⟩, ⟨.s400, "INVALID_DEFER"⟩, ⟨.s200, "OK"⟩]

theorem doPUB_char (hc : HConf) (b : Broker) (rq : Request) : PubEndpoint hc b rq (doPUB hc b rq) := by
  unfold doPUB topicFromQuery
  have hpd : pubData hc rq = rq.body.take (hc.maxMsgSize + 1).toNat := rfl
  generalize rq.body.take (hc.maxMsgSize + 1).toNat = data at hpd ⊢
  by_cases h1 : rq.contentLength > hc.maxMsgSize
  · constructor <;> simp [PubTooBig, PubBodyOk, h1, resp]
  by_cases h2 : (data.length : Int) = hc.maxMsgSize + 1
  · constructor <;> simp [PubTooBig, PubBodyOk, hpd, h1, h2, resp]
  by_cases h3 : data = []
  · have h2' := h2
    simp [h3] at h2'
    constructor <;> simp [PubTooBig, PubBodyOk, hpd, h1, h2', h3, resp]
  have h3' : data.isEmpty = false := by simpa using h3
  cases hq : parseQuery rq.rawQuery with
  | none => constructor <;> simp [PubTooBig, PubBodyOk, DeferBad, deferNs, QueryBad, arg, hpd, h1, h2, h3, h3', hq, resp]
  | some kv =>
    cases ht : qget kv kTopic with
    | none => constructor <;> simp [PubTooBig, PubBodyOk, DeferBad, deferNs, QueryBad, arg, hpd, h1, h2, h3, h3', hq, ht, resp]
    | some t =>
      cases hv : isValidName t with
      | false =>
        constructor <;> simp [PubTooBig, PubBodyOk, DeferBad, deferNs, QueryBad, arg, hpd, h1, h2, h3, h3', hq, ht, hv, resp] <;>
          (intros; subst_vars; simp_all)
      | true =>
        cases hd : deferArg hc kv with
        | none =>
          have hbad := (deferArg_none_iff hc kv).mp hd
          constructor <;>
            simp [PubTooBig, PubBodyOk, DeferBad, deferNs, QueryBad, arg, hpd, h1, h2, h3, h3', hq, ht, hv, hd, resp] <;>
            first | exact hbad | (obtain ⟨d, hd1, hd2⟩ := hbad; exact ⟨d, hd1, fun x hx h0 => by rcases hd2 x hx with h | h <;> omega⟩) | skip
        | some ns =>
          have hgood : ¬ ∃ d, qget kv kDefer = some d ∧ ∀ di, parseInt64 d = some di → di < 0 ∨ di > hc.maxReqTimeoutMs := by
            rw [← deferArg_none_iff, hd]; simp
          constructor <;>
            simp [PubTooBig, PubBodyOk, DeferBad, deferNs, QueryBad, arg, hpd, h1, h2, h3, h3', hq, ht, hv, hd, resp] <;>
            first | exact hgood | (simpa using hgood) | skip

/-! ## From the handler to `handle` (router + TLS gate) -/

/-- The request is for method `m`, path `p`. -/
def At (rq : Request) (m p : String) : Prop := rq.method = ascii m ∧ rq.path = ascii p

theorem handle_at (hc : HConf) (healthy : Bool) (b : Broker) (rq : Request) (m p : String) (h : Handler)
    (htls : hc.tlsRefuse = false) (hat : At rq m p) (hr : route (ascii m) (ascii p) = .handler h) :
    handle hc healthy b rq = runHandler hc healthy b rq h := by
  unfold handle
  rw [hat.1, hat.2, hr]
  simp [htls]

/-- `/stats`: 400 exactly when the query does not parse. -/
theorem doStats_char (b : Broker) (rq : Request) :
    (doStats b rq = (⟨.s400, "INVALID_REQUEST"⟩, b) ↔ QueryBad rq) ∧
    (doStats b rq = (⟨.s200, "*"⟩, b) ↔ ¬ QueryBad rq) := by
  unfold doStats QueryBad
  cases hq : parseQuery rq.rawQuery <;> simp [resp]

end Nsq.Proofs.HttpChar
