/-
E2 — what a timeout scan leaves behind: helper lemmas for `C01.scan_releases_all_due`.
-/
import Nsq.Proofs.ChanHist
namespace Nsq.Proofs.Chan
open Nsq.Model.Chan

theorem enqueue_msgs (c : Chan) (x : Nat) : ∀ e ∈ (enqueue c x).msgs, e ∈ c.msgs := by
  unfold enqueue
  split
  · exact fun _ h => h
  · split
    · intro e he; exact (mem_removeE.1 he).1
    · exact fun _ h => h

/-- after `timeoutOne c x`: every in-flight entry was in flight before and is not `x` -/
theorem timeoutOne_inflight {c : Chan} (hi : Inv 0 c) (x : Nat) :
    ∀ e ∈ (timeoutOne c x).msgs, isInflight e = true → e ∈ c.msgs ∧ e.id ≠ x := by
  intro e he hin
  unfold timeoutOne at he
  split at he
  · rename_i e0 hf
    obtain ⟨he0, hid⟩ := findE_some hf
    split at he
    · have he' := enqueue_msgs _ _ e he
      obtain ⟨e1, he1, rfl⟩ := mem_setE.1 he'
      by_cases hk : e1.id = x
      · simp [hk, isInflight] at hin
      · simp only [hk, ↓reduceIte] at hin ⊢
        exact ⟨he1, hk⟩
    · rename_i hnot
      refine ⟨he, ?_⟩
      intro hex
      have : e = e0 := eq_of_id_eq hi.core.nodup he he0 (hex.trans hid.symm)
      subst this
      cases hl : e.loc <;> simp_all [isInflight]
  · rename_i hf
    exact ⟨he, findE_none hf e he⟩


theorem fannedIds_nodup {h : List Ev} (hok : okHist h = true) : (fannedIds h).Nodup := by
  induction h with
  | nil => simp [fannedIds]
  | cons ev h ih =>
    have hok' := hok
    simp only [okHist, Bool.and_eq_true] at hok
    cases ev <;> simp only [fannedIds] <;> try exact ih hok.2
    case fanout i d =>
      simp only [List.nodup_cons]
      refine ⟨?_, ih hok.2⟩
      have := hok.1
      simp only [okEv, beq_iff_eq] at this
      rw [mem_fannedIds]
      have hz := (status_none_iff hok.2).1 this
      omega


theorem findE_of_mem {l : List Entry} (hn : (l.map (·.id)).Nodup) {e : Entry} (he : e ∈ l) : findE l e.id = some e := by
  cases hf : findE l e.id with
  | none => exact absurd rfl (findE_none hf e he)
  | some e' =>
    obtain ⟨he', hid⟩ := findE_some hf
    rw [eq_of_id_eq hn he' he hid]


theorem mem_insertByPri {e x : Entry} {l : List Entry} : x ∈ insertByPri e l ↔ x = e ∨ x ∈ l := by
  induction l with
  | nil => simp [insertByPri]
  | cons y l ih =>
    simp only [insertByPri]
    split
    · simp
    · simp only [List.mem_cons, ih]
      constructor
      · rintro (h | h | h) <;> simp [h]
      · rintro (h | h | h) <;> simp [h]

theorem mem_sortByPri {x : Entry} {l : List Entry} : x ∈ sortByPri l ↔ x ∈ l := by
  unfold sortByPri
  induction l with
  | nil => simp
  | cons y l ih => simp only [List.foldr_cons, mem_insertByPri, ih, List.mem_cons]


end Nsq.Proofs.Chan
