/-
E2 — what a timeout scan leaves behind: helper lemmas for `C01.scan_releases_all_due`.
-/
import Nsq.Proofs.ChanInv
namespace Nsq.Proofs.Chan
open Nsq.Model.Chan

theorem enqueue_msgs (c : Chan) (x : Nat) : ∀ e ∈ (enqueue c x).msgs, e ∈ c.msgs := by
  unfold enqueue
  split
  · exact fun _ h => h
  · split
    · intro e he; exact (mem_removeE.1 he).1
    · exact fun _ h => h

/-- after `timeoutOne c x`: every in-flight entry was in flight before and is not `x` -/
theorem timeoutOne_inflight {c : Chan} (hi : Inv 0 c) (x : Nat) :
    ∀ e ∈ (timeoutOne c x).msgs, isInflight e = true → e ∈ c.msgs ∧ e.id ≠ x := by
  intro e he hin
  unfold timeoutOne at he
  split at he
  · rename_i e0 hf
    obtain ⟨he0, hid⟩ := findE_some hf
    split at he
    · have he' := enqueue_msgs _ _ e he
      obtain ⟨e1, he1, rfl⟩ := mem_setE.1 he'
      by_cases hk : e1.id = x
      · simp [hk, isInflight] at hin
      · simp only [hk, ↓reduceIte] at hin ⊢
        exact ⟨he1, hk⟩
    · rename_i hnot
      refine ⟨he, ?_⟩
      intro hex
      have : e = e0 := eq_of_id_eq hi.core.nodup he he0 (hex.trans hid.symm)
      subst this
      cases hl : e.loc <;> simp_all [isInflight]
  · rename_i hf
    exact ⟨he, findE_none hf e he⟩


end Nsq.Proofs.Chan
