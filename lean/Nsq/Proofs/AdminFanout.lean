import Nsq.Model.AdminFanout
import Nsq.Proofs.AdminGate
import Nsq.Tie.AdminGate
/-!
Helpers for the fan-out clauses of C17: lifting the path table to all runs, and membership
lemmas for the request-level model.
-/
namespace Nsq.Proofs.AdminFanout
open Nsq.Model.AdminGate Nsq.Proofs.AdminGate Nsq.Tie.AdminGate

/-- The upstream (`ClusterInfo` / HTTP client) calls among the observed effects. -/
def upstreamObs (obs : List Obs) : List String :=
  obs.filterMap (fun o => match o with | .upstream n => some n | _ => none)

theorem upstreamObs_filterMap (effs : List Eff) :
    upstreamObs (effs.filterMap obsOf) = upstreamsOf effs := by
  induction effs with
  | nil => rfl
  | cons e rest ih =>
    cases e <;> simp_all [upstreamObs, upstreamsOf, obsOf, List.filterMap_cons]

theorem pathHolds_mem (env : Env) (cs : List (Cond × Bool)) (h : pathHolds env cs = true)
    (c : Cond) (b : Bool) (hm : (c, b) ∈ cs) (h1 : c ≠ .errNotNil) (h2 : c ≠ .errNotPartial) :
    evalCond env {} c = b := by
  induction cs with
  | nil => cases hm
  | cons x rest ih =>
    obtain ⟨c', b'⟩ := x
    simp only [pathHolds, Bool.and_eq_true] at h
    rcases List.mem_cons.1 hm with heq | hm'
    · cases heq
      cases c <;> simp_all
    · exact ih h.2 hm'

theorem actionOf_mem (cs : List (Cond × Bool)) (h : actionOf cs ≠ "") :
    (Cond.actionIs (actionOf cs), true) ∈ cs := by
  induction cs with
  | nil => simp [actionOf] at h
  | cons x rest ih =>
    obtain ⟨c, b⟩ := x
    cases c <;> cases b <;> simp_all [actionOf]

theorem expectedAction_insens (h a a' : String) (c c' : Bool) (hna : isActionHandler h = false) :
    expectedAction h a c = expectedAction h a' c' := by
  unfold isActionHandler at hna
  simp only [Bool.or_eq_false_iff, beq_eq_false_iff_ne, ne_eq] at hna
  unfold expectedAction
  simp [hna.1, hna.2]

theorem expectedAction_topic (a : String) (c c' : Bool) :
    expectedAction "topicActionHandler" a c = expectedAction "topicActionHandler" a c' := by
  unfold expectedAction
  simp

/-- From the decidable path table to every run. -/
theorem fanout_lift (handler : String) (sk : Skel) (hok : fanoutOk handler sk = true) (env : Env) :
    (((run env sk).1 = 200 ∨ (run env sk).1 = 502) →
      upstreamObs (run env sk).2 =
        [expectedAction handler env.req.action (env.req.nonEmptyParams.contains "channel")]) ∧
    (¬((run env sk).1 = 200 ∨ (run env sk).1 = 502) → upstreamObs (run env sk).2 = []) := by
  obtain ⟨p, hp, h1, h2, h3⟩ := run_follows_path env sk {}
  simp only [fanoutOk, List.all_eq_true] at hok
  have hp' := hok p hp
  have hobs : upstreamObs (run env sk).2 = upstreamsOf p.2.1 := by
    have : (run env sk).2 = p.2.1.filterMap obsOf := by simpa [run] using h2
    rw [this, upstreamObs_filterMap]
  have hst : (run env sk).1 = p.2.2 := by simpa [run] using h1
  constructor
  · intro hs
    have hcond : (p.2.2 == 200 || p.2.2 == 502) = true := by
      rcases hs with hs | hs <;> simp [← hst, hs]
    simp only [hcond, if_true, Bool.and_eq_true, beq_iff_eq, Bool.or_eq_true, Bool.not_eq_true',
      bne_iff_ne, ne_eq] at hp'
    obtain ⟨⟨hu, hact⟩, hch⟩ := hp'
    rw [hobs, hu]
    congr 1
    by_cases hah : isActionHandler handler = true
    · -- action handlers: the path tested the action (and, for the channel route, the parameter)
      have hne : actionOf p.1 ≠ "" := by
        rcases hact with hact | hact
        · simp [hah] at hact
        · exact hact
      have hmem := actionOf_mem p.1 hne
      have hev := pathHolds_mem env p.1 h3 _ _ hmem (by simp) (by simp)
      have haeq : env.req.action = actionOf p.1 := by simpa [evalCond] using hev
      rw [haeq]
      by_cases hchan : handler = "channelActionHandler"
      · subst hchan
        have hct : channelTested p.1 = true := by
          rcases hch with hch | hch
          · simp at hch
          · exact hch
        simp only [channelTested, Bool.or_eq_true, List.contains_iff_mem] at hct
        rcases hct with hct | hct
        · have hev2 := pathHolds_mem env p.1 h3 _ _ hct (by simp) (by simp)
          have : hasChannelParam p.1 = true := by simpa [hasChannelParam] using hct
          simp only [evalCond] at hev2
          rw [this, hev2]
        · have hev2 := pathHolds_mem env p.1 h3 _ _ hct (by simp) (by simp)
          simp only [evalCond] at hev2
          rw [hev2]
          by_cases hh : hasChannelParam p.1 = true
          · -- both branches recorded: the path is inconsistent with the environment
            have hm : (Cond.paramNonEmpty "channel", true) ∈ p.1 := by
              simpa [hasChannelParam] using hh
            have hev3 := pathHolds_mem env p.1 h3 _ _ hm (by simp) (by simp)
            simp only [evalCond] at hev3
            rw [hev3] at hev2
            cases hev2
          · simp only [Bool.not_eq_true] at hh
            rw [hh]
      · have htop : handler = "topicActionHandler" := by
          unfold isActionHandler at hah
          simp only [Bool.or_eq_true, beq_iff_eq] at hah
          rcases hah with hah | hah
          · exact hah
          · exact absurd hah hchan
        subst htop
        exact expectedAction_topic _ _ _
    · simp only [Bool.not_eq_true] at hah
      exact expectedAction_insens handler _ _ _ _ hah
  · intro hs
    have hcond : (p.2.2 == 200 || p.2.2 == 502) = false := by
      rw [← hst]
      cases h200 : ((run env sk).1 == 200) <;> cases h502 : ((run env sk).1 == 502) <;> simp_all
    simp only [hcond] at hp'
    rw [hobs]
    simpa using hp'

open Nsq.Model.AdminFanout in
theorem producers_posted (w : World) (a : Action) (p : String) (hp : p ∈ producersFor w a) :
    Req.post p (nsqdCommand a) ∈ requests w a := by
  unfold requests producerPosts
  simp only [List.mem_append, List.mem_map]
  exact Or.inr ⟨p, hp, rfl⟩

open Nsq.Model.AdminFanout in
theorem lookupds_posted (w : World) (a : Action) (c : String) (hc : c ∈ lookupdCommands w a)
    (l : Lookupd) (hl : l ∈ w.lookupds) : Req.post l.addr c ∈ requests w a := by
  unfold requests lookupdPosts
  simp only [List.mem_append, List.mem_flatMap, List.mem_map]
  exact Or.inl (Or.inl ⟨c, hc, l, hl, rfl⟩)

end Nsq.Proofs.AdminFanout
