import Nsq.Proofs.LookupSync
/-! The convergence invariant of C16 (tree with F14 + F15): for every connected peer, what that lookupd holds is
justified by the names currently live in nsqd's maps and by the notifications still pending. No hypothesis on the
order in which notifications are consumed is needed. -/
namespace Nsq.Proofs.LookupSync
open Nsq.Model.LookupSync

/-- a notification for exactly that name is pending (it will set the key from the then-current state) -/
def ExactPending (s : State) (k : Key) : Prop := ∃ r ∈ s.bag, r.topic = k.1 ∧ r.chan = k.2

/-- the key of a channel that is still in the map of a topic that is exiting, whose notification is pending
(`UNREGISTER topic` will remove the key; the topic cannot be re-created before the channel itself is deleted) -/
def TopicCover (s : State) (k : Key) : Prop :=
  k.2 ≠ "" ∧ (∃ r ∈ s.bag, r.topic = k.1 ∧ r.chan = "") ∧ ¬ TopicLive s.objs s.dead k.1 ∧
    ∃ x ∈ s.objs, x.key = k ∧ x ∉ s.dead

/-- what a connected lookupd holds: every live name without a pending notification, and nothing that is neither
live nor about to be corrected by a pending notification -/
def PeerOK (s : State) (p : Peer) : Prop :=
  p.conn = .up →
    (∀ k, NameLive s.objs s.dead k → ¬ ExactPending s k → k ∈ p.regs) ∧
    (∀ k ∈ p.regs, NameLive s.objs s.dead k ∨ ExactPending s k ∨ TopicCover s k)

structure Inv (s : State) : Prop where
  chanTopic : ChanHasTopic s.objs
  uniq : ∀ x ∈ s.objs, ∀ y ∈ s.objs, x.key = y.key → x = y
  peers : ∀ p ∈ s.peers, PeerOK s p

theorem mem_mapOutcomes {f : Peer → Outcome → Peer} {ps : List Peer} {outs : List Outcome} {q : Peer}
    (h : q ∈ mapOutcomes f ps outs) : ∃ p ∈ ps, ∃ o, q = f p o := by
  induction ps generalizing outs with
  | nil => simp [mapOutcomes] at h
  | cons p ps ih =>
    cases outs with
    | nil =>
      simp only [mapOutcomes, List.mem_cons] at h
      rcases h with rfl | h
      · exact ⟨p, by simp, .fail, rfl⟩
      · obtain ⟨p', hp', o, ho⟩ := ih h
        exact ⟨p', by simp [hp'], o, ho⟩
    | cons o os =>
      simp only [mapOutcomes, List.mem_cons] at h
      rcases h with rfl | h
      · exact ⟨p, by simp, o, rfl⟩
      · obtain ⟨p', hp', o', ho⟩ := ih h
        exact ⟨p', by simp [hp'], o', ho⟩

theorem peerOK_congr {s s' : State} {p : Peer} (ho : s'.objs = s.objs) (hd : s'.dead = s.dead)
    (hb : s'.bag = s.bag) (h : PeerOK s p) : PeerOK s' p := by
  unfold PeerOK ExactPending TopicCover at *
  rw [ho, hd, hb]
  exact h

theorem hasKey_iff (objs : List Ref) (t c : String) :
    hasKey objs t c = true ↔ ∃ r ∈ objs, r.topic = t ∧ r.chan = c := by
  simp [hasKey]

theorem key_eq (r : Ref) (k : Key) : r.key = k ↔ r.topic = k.1 ∧ r.chan = k.2 := by
  constructor
  · intro h; subst h; exact ⟨rfl, rfl⟩
  · intro ⟨h1, h2⟩; exact Prod.ext h1 h2

/-- the peer-local effect of consuming notification `r` with outcome `o` -/
theorem peerOK_notify {s : State} {r : Ref} {p : Peer} {o : Outcome} (hP : PeerOK s p) (hr : r ∈ s.bag) :
    PeerOK { s with bag := s.bag.erase r, peers := [] }
      (command s.objs s.dead
        (if nameLive s.objs s.dead r.topic r.chan then register r.topic r.chan else unregister r.topic r.chan) p o) := by
  -- pending notifications after the step
  have exact_old : ∀ k, ExactPending s k → ¬ ExactPending { s with bag := s.bag.erase r, peers := [] } k →
      k = (r.topic, r.chan) := by
    intro k ⟨x, hx, h1, h2⟩ hn
    by_cases hxr : x = r
    · subst hxr; exact Prod.ext h1.symm h2.symm
    · exact absurd ⟨x, (List.mem_erase_of_ne hxr).mpr hx, h1, h2⟩ hn
  have exact_sub : ∀ k, ExactPending { s with bag := s.bag.erase r, peers := [] } k → ExactPending s k := by
    intro k ⟨x, hx, h1, h2⟩; exact ⟨x, List.mem_of_mem_erase hx, h1, h2⟩
  by_cases hlive : NameLive s.objs s.dead (r.topic, r.chan)
  · -- REGISTER
    have hb : nameLive s.objs s.dead r.topic r.chan = true := (nameLive_iff _ _ _ _).mpr hlive
    simp only [hb, if_true]
    have new_keys : ∀ k, (k = (r.topic, r.chan) ∨ k = (r.topic, "")) → NameLive s.objs s.dead k := by
      intro k hk
      rcases hk with rfl | rfl
      · exact hlive
      · exact ⟨hlive.1, Or.inl rfl⟩
    have old_keys : ∀ k, (NameLive s.objs s.dead k ∨ ExactPending s k ∨ TopicCover s k) →
        NameLive s.objs s.dead k ∨ ExactPending { s with bag := s.bag.erase r, peers := [] } k ∨
          TopicCover { s with bag := s.bag.erase r, peers := [] } k := by
      intro k h
      rcases h with h | h | h
      · exact Or.inl h
      · by_cases hn : ExactPending { s with bag := s.bag.erase r, peers := [] } k
        · exact Or.inr (Or.inl hn)
        · rw [exact_old k h hn]; exact Or.inl hlive
      · obtain ⟨h1, ⟨x, hx, hx1, hx2⟩, h3, h4⟩ := h
        by_cases hxr : x = r
        · subst hxr
          exfalso
          apply h3
          have := hlive.1
          rw [← hx1]; exact this
        · exact Or.inr (Or.inr ⟨h1, ⟨x, (List.mem_erase_of_ne hxr).mpr hx, hx1, hx2⟩, h3, h4⟩)
    unfold command
    cases hconn : p.conn <;> cases o <;> simp only [PeerOK] <;> intro hup <;> try (simp at hup)
    · refine ⟨?_, ?_⟩
      · intro k hk _
        rw [mem_register]
        exact Or.inr (Or.inr ((mem_callbackRegs _ _ _).mpr hk))
      · intro k hk
        rw [mem_register] at hk
        rcases hk with hk | hk | hk
        · exact Or.inl (new_keys k (Or.inl hk))
        · exact Or.inl (new_keys k (Or.inr hk))
        · exact Or.inl ((mem_callbackRegs _ _ _).mp hk)
    · have ⟨e1, e2⟩ := hP hconn
      refine ⟨?_, ?_⟩
      · intro k hk hn
        rw [mem_register]
        by_cases hold : ExactPending s k
        · exact Or.inl (exact_old k hold hn)
        · exact Or.inr (Or.inr (e1 k hk hold))
      · intro k hk
        rw [mem_register] at hk
        rcases hk with hk | hk | hk
        · exact Or.inl (new_keys k (Or.inl hk))
        · exact Or.inl (new_keys k (Or.inr hk))
        · exact old_keys k (e2 k hk)
  · -- UNREGISTER
    have hb : nameLive s.objs s.dead r.topic r.chan = false := by
      cases h : nameLive s.objs s.dead r.topic r.chan
      · rfl
      · exact absurd ((nameLive_iff _ _ _ _).mp h) hlive
    simp only [hb, Bool.false_eq_true, if_false]
    -- a live name is never removed by this UNREGISTER
    have not_removed : ∀ k, NameLive s.objs s.dead k →
        (if r.chan = "" then k.1 ≠ r.topic else k ≠ (r.topic, r.chan)) := by
      intro k hk
      split
      · rename_i hc
        intro heq
        apply hlive
        refine ⟨?_, Or.inl hc⟩
        have := hk.1
        rw [heq] at this; exact this
      · intro heq; rw [heq] at hk; exact hlive hk
    have old_keys : ∀ k, (NameLive s.objs s.dead k ∨ ExactPending s k ∨ TopicCover s k) →
        (if r.chan = "" then k.1 ≠ r.topic else k ≠ (r.topic, r.chan)) →
        NameLive s.objs s.dead k ∨ ExactPending { s with bag := s.bag.erase r, peers := [] } k ∨
          TopicCover { s with bag := s.bag.erase r, peers := [] } k := by
      intro k h hrem
      rcases h with h | h | h
      · exact Or.inl h
      · by_cases hn : ExactPending { s with bag := s.bag.erase r, peers := [] } k
        · exact Or.inr (Or.inl hn)
        · have hk := exact_old k h hn
          exfalso
          split at hrem
          · exact hrem (by rw [hk])
          · exact hrem hk
      · obtain ⟨h1, ⟨x, hx, hx1, hx2⟩, h3, h4⟩ := h
        by_cases hxr : x = r
        · subst hxr
          exfalso
          rw [if_pos hx2] at hrem
          exact hrem hx1.symm
        · exact Or.inr (Or.inr ⟨h1, ⟨x, (List.mem_erase_of_ne hxr).mpr hx, hx1, hx2⟩, h3, h4⟩)
    unfold command
    cases hconn : p.conn <;> cases o <;> simp only [PeerOK] <;> intro hup <;> try (simp at hup)
    · refine ⟨?_, ?_⟩
      · intro k hk _
        rw [mem_unregister]
        exact ⟨(mem_callbackRegs _ _ _).mpr hk, not_removed k hk⟩
      · intro k hk
        rw [mem_unregister] at hk
        exact Or.inl ((mem_callbackRegs _ _ _).mp hk.1)
    · have ⟨e1, e2⟩ := hP hconn
      refine ⟨?_, ?_⟩
      · intro k hk hn
        rw [mem_unregister]
        refine ⟨?_, not_removed k hk⟩
        by_cases hold : ExactPending s k
        · have := exact_old k hold hn
          rw [this] at hk
          exact absurd hk hlive
        · exact e1 k hk hold
      · intro k hk
        rw [mem_unregister] at hk
        exact old_keys k (e2 k hk.1) hk.2

/-- a heartbeat (or `Command(nil)`) on one peer -/
theorem peerOK_tick {s : State} {p : Peer} {o : Outcome} (hP : PeerOK s p) :
    PeerOK s (command s.objs s.dead id p o) := by
  unfold command
  cases hconn : p.conn <;> cases o <;> simp only [PeerOK] <;> intro hup <;> try (simp at hup)
  · exact ⟨fun k hk _ => (mem_callbackRegs _ _ _).mpr hk, fun k hk => Or.inl ((mem_callbackRegs _ _ _).mp hk)⟩
  · exact hP hconn

/-- creating an object (added to the maps and to the bag) whose key is new -/
theorem inv_create {s : State} (hI : Inv s) (r0 : Ref) (hnew : ∀ x ∈ s.objs, x.key ≠ r0.key)
    (hct : r0.chan ≠ "" → ∃ T ∈ s.objs, T.chan = "" ∧ T.topic = r0.topic)
    (hnotopic : r0.chan = "" → ∀ x ∈ s.objs, x.topic ≠ r0.topic) (g : Nat) :
    Inv { s with objs := s.objs ++ [r0], bag := r0 :: s.bag, nextGen := g } := by
  have live_old : ∀ k, k ≠ r0.key → NameLive (s.objs ++ [r0]) s.dead k → NameLive s.objs s.dead k := by
    intro k hne ⟨⟨T, hT, hTc, hTt, hTd⟩, hch⟩
    have hT' : T ∈ s.objs := by
      simp at hT
      rcases hT with hT | rfl
      · exact hT
      · -- the new object is the topic of `k`: then `k` is a channel key of a brand-new topic: impossible
        exfalso
        rcases hch with h | ⟨x, hx, hxt, hxc, _⟩
        · exact hne (Prod.ext (by simp [Ref.key, hTt]) (by simp [Ref.key, hTc, h]))
        · simp at hx
          rcases hx with hx | rfl
          · exact hnotopic hTc x hx (by rw [hxt, hTt])
          · exact hne (Prod.ext (by simp [Ref.key, hTt]) (by simp [Ref.key, hxc]))
    refine ⟨⟨T, hT', hTc, hTt, hTd⟩, ?_⟩
    rcases hch with h | ⟨x, hx, hxt, hxc, hxd⟩
    · exact Or.inl h
    · simp at hx
      rcases hx with hx | rfl
      · exact Or.inr ⟨x, hx, hxt, hxc, hxd⟩
      · exact absurd (Prod.ext hxt hxc) (Ne.symm hne)
  refine ⟨?_, ?_, ?_⟩
  · intro r hr hc
    simp at hr
    rcases hr with hr | rfl
    · obtain ⟨T, hT, h1, h2⟩ := hI.chanTopic r hr hc
      exact ⟨T, by simp [hT], h1, h2⟩
    · obtain ⟨T, hT, h1, h2⟩ := hct hc
      exact ⟨T, by simp [hT], h1, h2⟩
  · intro x hx y hy hxy
    simp at hx hy
    rcases hx with hx | rfl <;> rcases hy with hy | rfl
    · exact hI.uniq x hx y hy hxy
    · exact absurd hxy (hnew x hx)
    · exact absurd hxy.symm (hnew y hy)
    · rfl
  · intro p hp hup
    have ⟨e1, e2⟩ := hI.peers p hp hup
    refine ⟨?_, ?_⟩
    · intro k hk hn
      have hne : k ≠ r0.key := by
        intro he; apply hn; exact ⟨r0, by simp, by rw [he]; rfl, by rw [he]; rfl⟩
      refine e1 k (live_old k hne hk) ?_
      intro ⟨x, hx, h1, h2⟩
      exact hn ⟨x, by simp [hx], h1, h2⟩
    · intro k hk
      rcases e2 k hk with ⟨⟨T, hT, h1, h2, h3⟩, hch⟩ | ⟨x, hx, h1, h2⟩ | ⟨h1, ⟨x, hx, hx1, hx2⟩, h3, ⟨y, hy, hyk, hyd⟩⟩
      · left
        refine ⟨⟨T, by simp [hT], h1, h2, h3⟩, ?_⟩
        rcases hch with h | ⟨x, hx, a, b, c⟩
        · exact Or.inl h
        · exact Or.inr ⟨x, by simp [hx], a, b, c⟩
      · right; left; exact ⟨x, by simp [hx], h1, h2⟩
      · right; right
        refine ⟨h1, ⟨x, by simp [hx], hx1, hx2⟩, ?_, ⟨y, by simp [hy], hyk, hyd⟩⟩
        intro ⟨T, hT, hTc, hTt, hTd⟩
        simp at hT
        rcases hT with hT | rfl
        · exact h3 ⟨T, hT, hTc, hTt, hTd⟩
        · -- the new object is a topic named like the topic of channel `y`, which is in the maps: impossible
          have : y.topic = k.1 := by rw [← hyk]; rfl
          exact hnotopic hTc y hy (by rw [this, hTt])

theorem inv_step {s s' : State} {st : Step} (hI : Inv s) (hs : step s st = some s') : Inv s' := by
  cases st with
  | createTopic t =>
    simp only [step] at hs
    split at hs; · simp at hs
    rename_i hk
    simp at hs; subst hs
    have hno : ∀ x ∈ s.objs, ¬ (x.topic = t ∧ x.chan = "") := by
      intro x hx hc
      exact hk ((hasKey_iff _ _ _).mpr ⟨x, hx, hc.1, hc.2⟩)
    refine inv_create hI ⟨t, "", s.nextGen⟩ ?_ (fun h => absurd rfl h) ?_ _
    · intro x hx he
      exact hno x hx ((key_eq x _).mp he)
    · intro _ x hx hxt
      by_cases hc : x.chan = ""
      · exact hno x hx ⟨hxt, hc⟩
      · obtain ⟨T, hT, h1, h2⟩ := hI.chanTopic x hx hc
        exact hno T hT ⟨by rw [h2, hxt], h1⟩
  | createChan t c =>
    simp only [step] at hs
    split at hs; · simp at hs
    rename_i hc
    split at hs; · simp at hs
    rename_i hk
    split at hs; · simp at hs
    rename_i hk2
    simp at hs; subst hs
    simp at hk
    obtain ⟨T, hT, h1, h2⟩ := (hasKey_iff s.objs t "").mp hk
    refine inv_create hI ⟨t, c, s.nextGen⟩ ?_ (fun _ => ⟨T, hT, h2, h1⟩) (fun h => absurd h hc) _
    intro x hx he
    exact hk2 ((hasKey_iff _ _ _).mpr ⟨x, hx, ((key_eq x _).mp he).1, ((key_eq x _).mp he).2⟩)
  | delBegin r =>
    simp only [step] at hs
    split at hs; · simp at hs
    rename_i hro
    split at hs; · simp at hs
    rename_i hrd
    simp at hs; subst hs
    simp at hro hrd
    have tl_anti : ∀ t, TopicLive s.objs (r :: s.dead) t → TopicLive s.objs s.dead t := by
      intro t ⟨T, hT, h1, h2, h3⟩
      exact ⟨T, hT, h1, h2, fun h => h3 (by simp [h])⟩
    have nl_anti : ∀ k, NameLive s.objs (r :: s.dead) k → NameLive s.objs s.dead k := by
      intro k ⟨h1, h2⟩
      refine ⟨tl_anti _ h1, ?_⟩
      rcases h2 with h | ⟨x, hx, a, b, c⟩
      · exact Or.inl h
      · exact Or.inr ⟨x, hx, a, b, fun h => c (by simp [h])⟩
    refine ⟨hI.chanTopic, hI.uniq, ?_⟩
    intro p hp hup
    have ⟨e1, e2⟩ := hI.peers p hp hup
    refine ⟨?_, ?_⟩
    · intro k hk hn
      refine e1 k (nl_anti k hk) ?_
      intro ⟨x, hx, h1, h2⟩
      exact hn ⟨x, by simp [hx], h1, h2⟩
    · intro k hk
      rcases e2 k hk with hl | ⟨x, hx, h1, h2⟩ | ⟨h1, ⟨x, hx, hx1, hx2⟩, h3, ⟨y, hy, hyk, hyd⟩⟩
      · by_cases hrk : r.key = k
        · right; left
          exact ⟨r, by simp, ((key_eq r k).mp hrk).1, ((key_eq r k).mp hrk).2⟩
        · obtain ⟨⟨T, hT, hTc, hTt, hTd⟩, hch⟩ := hl
          by_cases hTr : T = r
          · -- the topic of `k` starts exiting; `k` is a channel key (else r.key = k)
            subst hTr
            have hk2 : k.2 ≠ "" := by
              intro h; exact hrk (Prod.ext hTt (by simp [Ref.key, hTc, h]))
            rcases hch with h | ⟨x, hx, hxt, hxc, hxd⟩
            · exact absurd h hk2
            · right; right
              refine ⟨hk2, ⟨T, by simp, hTt, hTc⟩, ?_, ⟨x, hx, Prod.ext hxt hxc, ?_⟩⟩
              · intro ⟨T', hT', h1, h2, h3⟩
                have : T' = T := hI.uniq T' hT' T hT (Prod.ext (by simp [Ref.key, h2, hTt]) (by simp [Ref.key, h1, hTc]))
                subst this
                exact h3 (by simp)
              · intro hmem
                simp at hmem
                rcases hmem with rfl | hmem
                · exact hk2 (by rw [← hxc, hTc])
                · exact hxd hmem
          · have hTd' : T ∉ r :: s.dead := by simp [hTr, hTd]
            rcases hch with h | ⟨x, hx, hxt, hxc, hxd⟩
            · left; exact ⟨⟨T, hT, hTc, hTt, hTd'⟩, Or.inl h⟩
            · by_cases hxr : x = r
              · subst hxr; exact absurd (Prod.ext hxt hxc) hrk
              · left; exact ⟨⟨T, hT, hTc, hTt, hTd'⟩, Or.inr ⟨x, hx, hxt, hxc, by simp [hxr, hxd]⟩⟩
      · right; left; exact ⟨x, by simp [hx], h1, h2⟩
      · by_cases hyr : y = r
        · subst hyr
          right; left
          exact ⟨y, by simp, ((key_eq y k).mp hyk).1, ((key_eq y k).mp hyk).2⟩
        · right; right
          exact ⟨h1, ⟨x, by simp [hx], hx1, hx2⟩, fun h => h3 (tl_anti _ h), ⟨y, hy, hyk, by simp [hyr, hyd]⟩⟩
  | delUnlink r =>
    simp only [step] at hs
    split at hs; · simp at hs
    rename_i hro
    split at hs; · simp at hs
    rename_i hrd
    split at hs; · simp at hs
    rename_i hguard
    simp at hs; subst hs
    simp at hro hrd
    have tl_iff : ∀ t, TopicLive (s.objs.erase r) s.dead t ↔ TopicLive s.objs s.dead t := by
      intro t
      constructor
      · intro ⟨T, hT, a, b, c⟩; exact ⟨T, List.mem_of_mem_erase hT, a, b, c⟩
      · intro ⟨T, hT, a, b, c⟩
        have hne : T ≠ r := by intro he; subst he; exact c hrd
        exact ⟨T, (List.mem_erase_of_ne hne).mpr hT, a, b, c⟩
    have nl_iff : ∀ k, NameLive (s.objs.erase r) s.dead k ↔ NameLive s.objs s.dead k := by
      intro k
      constructor
      · intro ⟨h1, h2⟩
        refine ⟨(tl_iff _).mp h1, ?_⟩
        rcases h2 with h | ⟨x, hx, a, b, c⟩
        · exact Or.inl h
        · exact Or.inr ⟨x, List.mem_of_mem_erase hx, a, b, c⟩
      · intro ⟨h1, h2⟩
        refine ⟨(tl_iff _).mpr h1, ?_⟩
        rcases h2 with h | ⟨x, hx, a, b, c⟩
        · exact Or.inl h
        · have hne : x ≠ r := by intro he; subst he; exact c hrd
          exact Or.inr ⟨x, (List.mem_erase_of_ne hne).mpr hx, a, b, c⟩
    refine ⟨?_, ?_, ?_⟩
    · intro x hx hc
      have hxo : x ∈ s.objs := List.mem_of_mem_erase hx
      obtain ⟨T, hT, h1, h2⟩ := hI.chanTopic x hxo hc
      by_cases hTr : T = r
      · subst hTr
        exfalso
        apply hguard
        simp only [Bool.and_eq_true, List.any_eq_true]
        refine ⟨by simp [isTopic, h1], x, hxo, ?_⟩
        simp [isTopic, hc, h2]
      · exact ⟨T, (List.mem_erase_of_ne hTr).mpr hT, h1, h2⟩
    · intro x hx y hy hxy
      exact hI.uniq x (List.mem_of_mem_erase hx) y (List.mem_of_mem_erase hy) hxy
    · intro p hp hup
      have ⟨e1, e2⟩ := hI.peers p hp hup
      refine ⟨fun k hk hn => e1 k ((nl_iff k).mp hk) hn, ?_⟩
      intro k hk
      rcases e2 k hk with hl | hx | ⟨h1, h2, h3, ⟨y, hy, hyk, hyd⟩⟩
      · exact Or.inl ((nl_iff k).mpr hl)
      · exact Or.inr (Or.inl hx)
      · have hne : y ≠ r := by intro he; subst he; exact hyd hrd
        exact Or.inr (Or.inr ⟨h1, h2, fun h => h3 ((tl_iff _).mp h), ⟨y, (List.mem_erase_of_ne hne).mpr hy, hyk, hyd⟩⟩)
  | notify r outs =>
    simp only [step] at hs
    split at hs; · simp at hs
    rename_i hrb
    simp only [Option.some.injEq] at hs; subst hs
    simp at hrb
    refine ⟨hI.chanTopic, hI.uniq, ?_⟩
    intro q hq
    obtain ⟨p, hp, o, rfl⟩ := mem_mapOutcomes hq
    exact peerOK_congr rfl rfl rfl (peerOK_notify (o := o) (hI.peers p hp) hrb)
  | tick outs =>
    simp only [step] at hs
    simp at hs; subst hs
    refine ⟨hI.chanTopic, hI.uniq, ?_⟩
    intro q hq
    obtain ⟨p, hp, o, rfl⟩ := mem_mapOutcomes hq
    exact peerOK_congr rfl rfl rfl (peerOK_tick (s := s) (hI.peers p hp))
  | lookupdDrop a =>
    simp only [step] at hs
    simp at hs; subst hs
    refine ⟨hI.chanTopic, hI.uniq, ?_⟩
    intro q hq
    simp only [List.mem_map] at hq
    obtain ⟨p, hp, rfl⟩ := hq
    split
    · intro hup
      simp at hup
      split at hup <;> simp at hup
    · exact hI.peers p hp
  | addPeer a o =>
    simp only [step] at hs
    split at hs; · simp at hs
    simp at hs; subst hs
    refine ⟨hI.chanTopic, hI.uniq, ?_⟩
    intro q hq
    simp at hq
    rcases hq with hq | rfl
    · exact hI.peers q hq
    · exact peerOK_congr rfl rfl rfl (peerOK_tick (s := s) (p := ⟨a, .down, []⟩) (fun hup => by simp at hup))
  | removePeer a =>
    simp only [step] at hs
    simp at hs; subst hs
    refine ⟨hI.chanTopic, hI.uniq, ?_⟩
    intro q hq
    exact hI.peers q (List.mem_filter.mp hq).1

theorem inv_init : Inv State.init := by
  refine ⟨?_, ?_, ?_⟩ <;> simp [State.init, ChanHasTopic]

theorem inv_run {s s' : State} {steps : List Step} (hI : Inv s) (hr : run s steps = some s') : Inv s' := by
  induction steps generalizing s with
  | nil => simp [run] at hr; subst hr; exact hI
  | cons st rest ih =>
    simp only [run] at hr
    split at hr
    · simp at hr
    · rename_i s1 h1
      exact ih (inv_step hI h1) hr

end Nsq.Proofs.LookupSync
