import Nsq.Proofs.LookupSync
/-! The convergence invariant of C16: for every connected peer, what that lookupd holds is justified by
nsqd's maps and the notifications still pending. -/
namespace Nsq.Proofs.LookupSync
open Nsq.Model.LookupSync

/-- in the maps and not exiting -/
def Live (s : State) (r : Ref) : Prop := r ∈ s.objs ∧ r ∉ s.dead
/-- live and its creation notification has been consumed -/
def Settled (s : State) (r : Ref) : Prop := Live s r ∧ r ∉ s.bag
/-- a pending UNREGISTER will remove key `k` -/
def Cover (s : State) (k : Key) : Prop :=
  ∃ r ∈ s.bag, r ∈ s.dead ∧ r.topic = k.1 ∧ (r.chan = k.2 ∨ r.chan = "")

/-- what a connected lookupd holds: every settled live object, and nothing that is not live or about to be removed -/
def PeerOK (s : State) (p : Peer) : Prop :=
  p.conn = .up →
    (∀ r, Settled s r → r.key ∈ p.regs) ∧
    (∀ k ∈ p.regs, (∃ r, Live s r ∧ r.key = k) ∨ Cover s k)

structure Inv (s : State) : Prop where
  pendingLive : ∀ r ∈ s.bag, r ∉ s.dead → r ∈ s.objs
  chanTopic : ChanHasTopic s.objs
  peers : ∀ p ∈ s.peers, PeerOK s p

/-- every exiting object still in the maps has its UNREGISTER pending (needed when a peer reconnects) -/
def DyingPending (s : State) : Prop := ∀ r ∈ s.objs, r ∈ s.dead → r ∈ s.bag

/-- the schedule hypothesis `NoStaleNotify`, per step -/
def Orderly (s : State) : Step → Prop
  | .notify r outs =>
    (r ∈ s.dead → r.chan ≠ "" → ¬ ∃ x, Settled s x ∧ x.key = r.key) ∧        -- NoStaleUnregister (channel)
    (r ∈ s.dead → r.chan = "" → ¬ ∃ x, Settled s x ∧ x.topic = r.topic) ∧     -- NoStaleUnregister (topic)
    (r ∉ s.dead → r.chan ≠ "" →
       (∃ T, Live s T ∧ T.key = (r.topic, "")) ∨ Cover s (r.topic, "")) ∧     -- no REGISTER of a channel after its topic's UNREGISTER
    ((∃ p ∈ s.peers, p.conn = .down) → ∀ x ∈ s.objs, x ∈ s.dead → x ∈ s.bag)  -- no reconnect re-REGISTER of a dying object
  | .tick _ => (∃ p ∈ s.peers, p.conn = .down) → DyingPending s
  | .addPeer _ _ => DyingPending s
  | _ => True

theorem mem_mapOutcomes {f : Peer → Outcome → Peer} {ps : List Peer} {outs : List Outcome} {q : Peer}
    (h : q ∈ mapOutcomes f ps outs) : ∃ p ∈ ps, ∃ o, q = f p o := by
  induction ps generalizing outs with
  | nil => simp [mapOutcomes] at h
  | cons p ps ih =>
    cases outs with
    | nil =>
      simp only [mapOutcomes, List.mem_cons] at h
      rcases h with rfl | h
      · exact ⟨p, by simp, .fail, rfl⟩
      · obtain ⟨p', hp', o, ho⟩ := ih h
        exact ⟨p', by simp [hp'], o, ho⟩
    | cons o os =>
      simp only [mapOutcomes, List.mem_cons] at h
      rcases h with rfl | h
      · exact ⟨p, by simp, o, rfl⟩
      · obtain ⟨p', hp', o', ho⟩ := ih h
        exact ⟨p', by simp [hp'], o', ho⟩

theorem mem_erase_ne {α} [DecidableEq α] {a b : α} {l : List α} (h : a ≠ b) : a ∈ l.erase b ↔ a ∈ l :=
  List.mem_erase_of_ne h

theorem eq_of_mem_not_mem_erase {α} [DecidableEq α] {a b : α} {l : List α} (h1 : a ∈ l) (h2 : a ∉ l.erase b) :
    a = b := by
  apply Classical.byContradiction
  intro hne
  exact h2 ((List.mem_erase_of_ne hne).mpr h1)

/-- a pending UNREGISTER other than the processed notification stays pending -/
theorem cover_erase {s : State} {r : Ref} {k : Key} (hc : Cover s k)
    (hne : ∀ x, x ∈ s.bag → x ∈ s.dead → x.topic = k.1 → (x.chan = k.2 ∨ x.chan = "") → x ≠ r) :
    Cover { s with bag := s.bag.erase r } k := by
  obtain ⟨x, hx, hd, ht, hch⟩ := hc
  exact ⟨x, (List.mem_erase_of_ne (hne x hx hd ht hch)).mpr hx, hd, ht, hch⟩

/-- the peer-local effect of processing notification `r` with outcome `o` -/
theorem peerOK_notify {s : State} {r : Ref} {p : Peer} {o : Outcome} (hI : Inv s) (hp : p ∈ s.peers)
    (hr : r ∈ s.bag) (outs : List Outcome) (hO : Orderly s (.notify r outs)) :
    PeerOK { s with bag := s.bag.erase r, peers := [] }
      (command s.objs (if s.dead.contains r then unregister r.topic r.chan else register r.topic r.chan) p o) := by
  obtain ⟨g1, g1', g3, g2⟩ := hO
  have hP := hI.peers p hp
  -- settled objects after the step
  have settled_old : ∀ x, Settled { s with bag := s.bag.erase r, peers := [] } x → x ≠ r → Settled s x := by
    intro x ⟨hl, hb⟩ hne
    exact ⟨hl, fun hxb => hb ((List.mem_erase_of_ne hne).mpr hxb)⟩
  have live_same : ∀ x, Live { s with bag := s.bag.erase r, peers := [] } x ↔ Live s x := fun x => Iff.rfl
  by_cases hdead : r ∈ s.dead
  · -- UNREGISTER
    have hcont : s.dead.contains r = true := by simpa using hdead
    simp only [hcont, if_true]
    -- facts used for both the connected and the reconnecting case
    have keep : ∀ x, Settled { s with bag := s.bag.erase r, peers := [] } x →
        (if r.chan = "" then x.key.1 ≠ r.topic else x.key ≠ (r.topic, r.chan)) ∧ Settled s x := by
      intro x hx
      have hne : x ≠ r := by
        intro he; subst he; exact hx.1.2 hdead
      have hs := settled_old x hx hne
      refine ⟨?_, hs⟩
      split
      · rename_i hc
        intro heq
        exact g1' hdead hc ⟨x, hs, heq⟩
      · rename_i hc
        intro heq
        exact g1 hdead hc ⟨x, hs, by simpa [Ref.key] using heq⟩
    have cover_keep : ∀ k, Cover s k → (if r.chan = "" then k.1 ≠ r.topic else k ≠ (r.topic, r.chan)) →
        Cover { s with bag := s.bag.erase r, peers := [] } k := by
      intro k hc hrem
      obtain ⟨x, hx, hd, ht, hch⟩ := hc
      by_cases hxr : x = r
      · subst hxr
        exfalso
        split at hrem
        · exact hrem ht.symm
        · rename_i hc
          rcases hch with hch | hch
          · exact hrem (Prod.ext ht.symm hch.symm)
          · exact hc hch
      · exact ⟨x, (List.mem_erase_of_ne hxr).mpr hx, hd, ht, hch⟩
    unfold command
    cases hconn : p.conn <;> cases o <;> simp only [PeerOK] <;> intro hup <;> try (simp at hup)
    · -- down, ok : reconnect, callback, then UNREGISTER
      refine ⟨?_, ?_⟩
      · intro x hx
        obtain ⟨hrem, hs⟩ := keep x hx
        rw [mem_unregister]
        exact ⟨(mem_callbackRegs s.objs hI.chanTopic _).mpr ⟨x, hs.1.1, rfl⟩, hrem⟩
      · intro k hk
        rw [mem_unregister] at hk
        obtain ⟨hk1, hrem⟩ := hk
        obtain ⟨x, hx, rfl⟩ := (mem_callbackRegs s.objs hI.chanTopic _).mp hk1
        by_cases hxd : x ∈ s.dead
        · right
          have hxb := g2 ⟨p, hp, hconn⟩ x hx hxd
          exact cover_keep _ ⟨x, hxb, hxd, rfl, Or.inl rfl⟩ hrem
        · left; exact ⟨x, ⟨hx, hxd⟩, rfl⟩
    · -- up, ok
      have ⟨e1, e2⟩ := hP hconn
      refine ⟨?_, ?_⟩
      · intro x hx
        obtain ⟨hrem, hs⟩ := keep x hx
        rw [mem_unregister]
        exact ⟨e1 x hs, hrem⟩
      · intro k hk
        rw [mem_unregister] at hk
        obtain ⟨hk1, hrem⟩ := hk
        rcases e2 k hk1 with h | h
        · left; exact h
        · right; exact cover_keep k h hrem
  · -- REGISTER
    have hcont : s.dead.contains r = false := by simpa using hdead
    simp only [hcont, Bool.false_eq_true, if_false]
    have hrobj : r ∈ s.objs := hI.pendingLive r hr hdead
    have cover_keep : ∀ k, Cover s k → Cover { s with bag := s.bag.erase r, peers := [] } k := by
      intro k ⟨x, hx, hd, ht, hch⟩
      have hxr : x ≠ r := by intro he; subst he; exact hdead hd
      exact ⟨x, (List.mem_erase_of_ne hxr).mpr hx, hd, ht, hch⟩
    have new_keys : ∀ k, (k = (r.topic, r.chan) ∨ k = (r.topic, "")) →
        (∃ x, Live s x ∧ x.key = k) ∨ Cover { s with bag := s.bag.erase r, peers := [] } k := by
      intro k hk
      rcases hk with rfl | rfl
      · left; exact ⟨r, ⟨hrobj, hdead⟩, rfl⟩
      · by_cases hc : r.chan = ""
        · left; exact ⟨r, ⟨hrobj, hdead⟩, by simp [Ref.key, hc]⟩
        · rcases g3 hdead hc with ⟨T, hT, hTk⟩ | hcov
          · left; exact ⟨T, hT, hTk⟩
          · right; exact cover_keep _ hcov
    unfold command
    cases hconn : p.conn <;> cases o <;> simp only [PeerOK] <;> intro hup <;> try (simp at hup)
    · -- down, ok
      refine ⟨?_, ?_⟩
      · intro x hx
        rw [mem_register]
        exact Or.inr (Or.inr ((mem_callbackRegs s.objs hI.chanTopic _).mpr ⟨x, hx.1.1, rfl⟩))
      · intro k hk
        rw [mem_register] at hk
        rcases hk with hk | hk | hk
        · exact new_keys k (Or.inl hk)
        · exact new_keys k (Or.inr hk)
        · obtain ⟨x, hx, rfl⟩ := (mem_callbackRegs s.objs hI.chanTopic _).mp hk
          by_cases hxd : x ∈ s.dead
          · right
            have hxb := g2 ⟨p, hp, hconn⟩ x hx hxd
            exact cover_keep _ ⟨x, hxb, hxd, rfl, Or.inl rfl⟩
          · left; exact ⟨x, ⟨hx, hxd⟩, rfl⟩
    · -- up, ok
      have ⟨e1, e2⟩ := hP hconn
      refine ⟨?_, ?_⟩
      · intro x hx
        rw [mem_register]
        by_cases hxr : x = r
        · subst hxr; exact Or.inl rfl
        · exact Or.inr (Or.inr (e1 x (settled_old x hx hxr)))
      · intro k hk
        rw [mem_register] at hk
        rcases hk with hk | hk | hk
        · exact new_keys k (Or.inl hk)
        · exact new_keys k (Or.inr hk)
        · rcases e2 k hk with h | h
          · left; exact h
          · right; exact cover_keep k h

theorem peerOK_congr {s s' : State} {p : Peer} (ho : s'.objs = s.objs) (hd : s'.dead = s.dead)
    (hb : s'.bag = s.bag) (h : PeerOK s p) : PeerOK s' p := by
  unfold PeerOK Settled Live Cover at *
  rw [ho, hd, hb]
  exact h

/-- a heartbeat (or `Command(nil)`) on one peer -/
theorem peerOK_tick {s : State} {p : Peer} {o : Outcome} (hI : Inv s) (hP : PeerOK s p)
    (hO : p.conn = .down → DyingPending s) : PeerOK s (command s.objs id p o) := by
  unfold command
  cases hconn : p.conn <;> cases o <;> simp only [PeerOK] <;> intro hup <;> try (simp at hup)
  · refine ⟨?_, ?_⟩
    · intro x hx
      exact (mem_callbackRegs s.objs hI.chanTopic _).mpr ⟨x, hx.1.1, rfl⟩
    · intro k hk
      obtain ⟨x, hx, rfl⟩ := (mem_callbackRegs s.objs hI.chanTopic _).mp hk
      by_cases hxd : x ∈ s.dead
      · right; exact ⟨x, hO hconn x hx hxd, hxd, rfl, Or.inl rfl⟩
      · left; exact ⟨x, ⟨hx, hxd⟩, rfl⟩
  · exact hP hconn

theorem hasKey_iff (objs : List Ref) (t c : String) :
    hasKey objs t c = true ↔ ∃ r ∈ objs, r.topic = t ∧ r.chan = c := by
  simp [hasKey]

/-- creating an object (added to the maps and to the bag) -/
theorem inv_create {s : State} (hI : Inv s) (r0 : Ref)
    (hct : r0.chan ≠ "" → ∃ T ∈ s.objs, T.chan = "" ∧ T.topic = r0.topic) (g : Nat) :
    Inv { s with objs := s.objs ++ [r0], bag := r0 :: s.bag, nextGen := g } := by
  refine ⟨?_, ?_, ?_⟩
  · intro r hr hd
    simp at hr
    rcases hr with rfl | hr
    · simp
    · simp [hI.pendingLive r hr hd]
  · intro r hr hc
    simp at hr
    rcases hr with hr | rfl
    · obtain ⟨T, hT, h1, h2⟩ := hI.chanTopic r hr hc
      exact ⟨T, by simp [hT], h1, h2⟩
    · obtain ⟨T, hT, h1, h2⟩ := hct hc
      exact ⟨T, by simp [hT], h1, h2⟩
  · intro p hp hup
    have ⟨e1, e2⟩ := hI.peers p hp hup
    refine ⟨?_, ?_⟩
    · intro x ⟨⟨hxo, hxd⟩, hxb⟩
      simp at hxb hxo
      have hxo' : x ∈ s.objs := by
        rcases hxo with h | h
        · exact h
        · exact absurd h hxb.1
      exact e1 x ⟨⟨hxo', hxd⟩, hxb.2⟩
    · intro k hk
      rcases e2 k hk with ⟨x, ⟨hxo, hxd⟩, hxk⟩ | ⟨x, hx, hd, ht, hch⟩
      · left; exact ⟨x, ⟨by simp [hxo], hxd⟩, hxk⟩
      · right; exact ⟨x, by simp [hx], hd, ht, hch⟩

theorem inv_step {s s' : State} {st : Step} (hI : Inv s) (hO : Orderly s st) (hs : step s st = some s') :
    Inv s' := by
  cases st with
  | createTopic t =>
    simp only [step] at hs
    split at hs; · simp at hs
    simp at hs; subst hs
    exact inv_create hI ⟨t, "", s.nextGen⟩ (fun h => absurd rfl h) _
  | createChan t c =>
    simp only [step] at hs
    split at hs; · simp at hs
    split at hs; · simp at hs
    rename_i hc hk
    split at hs; · simp at hs
    simp at hs; subst hs
    simp at hk
    obtain ⟨T, hT, h1, h2⟩ := (hasKey_iff s.objs t "").mp hk
    exact inv_create hI ⟨t, c, s.nextGen⟩ (fun _ => ⟨T, hT, h2, h1⟩) _
  | delBegin r =>
    simp only [step] at hs
    split at hs; · simp at hs
    rename_i hro
    split at hs; · simp at hs
    rename_i hrd
    simp at hs; subst hs
    simp at hro hrd
    refine ⟨?_, hI.chanTopic, ?_⟩
    · intro x hx hd
      simp at hx hd
      rcases hx with rfl | hx
      · exact absurd rfl hd.1
      · exact hI.pendingLive x hx hd.2
    · intro p hp hup
      have ⟨e1, e2⟩ := hI.peers p hp hup
      refine ⟨?_, ?_⟩
      · intro x ⟨⟨hxo, hxd⟩, hxb⟩
        simp at hxd hxb
        exact e1 x ⟨⟨hxo, hxd.2⟩, hxb.2⟩
      · intro k hk
        rcases e2 k hk with ⟨x, ⟨hxo, hxd⟩, hxk⟩ | ⟨x, hx, hd, ht, hch⟩
        · by_cases hxr : x = r
          · subst hxr
            right; exact ⟨x, by simp, by simp, by simp [← hxk, Ref.key], Or.inl (by simp [← hxk, Ref.key])⟩
          · left; exact ⟨x, ⟨hxo, by simp [hxd, hxr]⟩, hxk⟩
        · right; exact ⟨x, by simp [hx], by simp [hd], ht, hch⟩
  | delUnlink r =>
    simp only [step] at hs
    split at hs; · simp at hs
    rename_i hro
    split at hs; · simp at hs
    rename_i hrd
    split at hs; · simp at hs
    rename_i hguard
    simp at hs; subst hs
    simp at hro hrd
    refine ⟨?_, ?_, ?_⟩
    · intro x hx hd
      have hne : x ≠ r := by intro he; subst he; exact hd hrd
      exact (List.mem_erase_of_ne hne).mpr (hI.pendingLive x hx hd)
    · intro x hx hc
      have hxo : x ∈ s.objs := List.mem_of_mem_erase hx
      obtain ⟨T, hT, h1, h2⟩ := hI.chanTopic x hxo hc
      by_cases hTr : T = r
      · subst hTr
        exfalso
        apply hguard
        simp only [Bool.and_eq_true, List.any_eq_true]
        refine ⟨by simp [isTopic, h1], x, hxo, ?_⟩
        simp [isTopic, hc, h2]
      · exact ⟨T, (List.mem_erase_of_ne hTr).mpr hT, h1, h2⟩
    · intro p hp hup
      have ⟨e1, e2⟩ := hI.peers p hp hup
      refine ⟨?_, ?_⟩
      · intro x ⟨⟨hxo, hxd⟩, hxb⟩
        exact e1 x ⟨⟨List.mem_of_mem_erase hxo, hxd⟩, hxb⟩
      · intro k hk
        rcases e2 k hk with ⟨x, ⟨hxo, hxd⟩, hxk⟩ | h
        · have hne : x ≠ r := by intro he; subst he; exact hxd hrd
          left; exact ⟨x, ⟨(List.mem_erase_of_ne hne).mpr hxo, hxd⟩, hxk⟩
        · right; exact h
  | notify r outs =>
    simp only [step] at hs
    split at hs; · simp at hs
    rename_i hrb
    simp only [Option.some.injEq] at hs; subst hs
    simp at hrb
    refine ⟨?_, hI.chanTopic, ?_⟩
    · intro x hx hd
      exact hI.pendingLive x (List.mem_of_mem_erase hx) hd
    · intro q hq
      obtain ⟨p, hp, o, rfl⟩ := mem_mapOutcomes hq
      exact peerOK_congr rfl rfl rfl (peerOK_notify (o := o) hI hp hrb outs hO)
  | tick outs =>
    simp only [step] at hs
    simp at hs; subst hs
    refine ⟨hI.pendingLive, hI.chanTopic, ?_⟩
    intro q hq
    obtain ⟨p, hp, o, rfl⟩ := mem_mapOutcomes hq
    exact peerOK_congr rfl rfl rfl (peerOK_tick (s := s) hI (hI.peers p hp) (fun hd => hO ⟨p, hp, hd⟩))
  | lookupdDrop a =>
    simp only [step] at hs
    simp at hs; subst hs
    refine ⟨hI.pendingLive, hI.chanTopic, ?_⟩
    intro q hq
    simp only [List.mem_map] at hq
    obtain ⟨p, hp, rfl⟩ := hq
    split
    · intro hup
      simp at hup
      split at hup <;> simp at hup
    · exact hI.peers p hp
  | addPeer a o =>
    simp only [step] at hs
    split at hs; · simp at hs
    simp at hs; subst hs
    refine ⟨hI.pendingLive, hI.chanTopic, ?_⟩
    intro q hq
    simp at hq
    rcases hq with hq | rfl
    · exact hI.peers q hq
    · exact peerOK_congr rfl rfl rfl
        (peerOK_tick (s := s) hI (p := ⟨a, .down, []⟩) (fun hup => by simp at hup) (fun _ => hO))
  | removePeer a =>
    simp only [step] at hs
    simp at hs; subst hs
    refine ⟨hI.pendingLive, hI.chanTopic, ?_⟩
    intro q hq
    exact hI.peers q (List.mem_filter.mp hq).1

theorem inv_init : Inv State.init := by
  refine ⟨?_, ?_, ?_⟩ <;> simp [State.init, ChanHasTopic]

/-- a schedule all of whose steps are enabled and orderly -/
def OrderlyRun : State → List Step → State → Prop
  | s, [], s' => s' = s
  | s, st :: rest, s' => ∃ s1, step s st = some s1 ∧ Orderly s st ∧ OrderlyRun s1 rest s'

theorem inv_run {s s' : State} {steps : List Step} (hI : Inv s) (hr : OrderlyRun s steps s') : Inv s' := by
  induction steps generalizing s with
  | nil => simp [OrderlyRun] at hr; subst hr; exact hI
  | cons st rest ih =>
    obtain ⟨s1, h1, hO, h2⟩ := hr
    exact ih (inv_step hI hO h1) h2

end Nsq.Proofs.LookupSync
