/-
E2 — `in_flight_count` over ALL schedules (atomic ops and the micro-steps `finChan | finClient`,
`guard | deliverArmed`), after fix F13 (`Channel.Empty` subtracts what it dropped instead of
storing 0): a consumer's counter is the number of messages it holds in the in-flight map plus the
number of its FINs that completed on the channel and have not yet run `FinishedMessage`.
In particular it is never negative.
-/
import Nsq.Proofs.ChanInvA
namespace Nsq.Proofs.Chan
open Nsq.Model.Chan

def InFl (c : Chan) : Prop :=
  ∀ cl ∈ c.clients, cl.inFlight = (heldBy c.msgs cl.conn : Int) + (c.pendingFin.count cl.conn : Nat)

theorem inFl_frame {c c' : Chan} (h : InFl c) (hc : c'.clients = c.clients) (hp : c'.pendingFin = c.pendingFin)
    (hh : ∀ k, heldBy c'.msgs k = heldBy c.msgs k) : InFl c' := by
  intro cl hcl
  rw [hc] at hcl
  rw [hp, hh]
  exact h cl hcl

/-- an update of one client that keeps its connection id and its in-flight counter -/
theorem inFl_updC_same {c c' : Chan} {k : Nat} {f : Client → Client} (h : InFl c)
    (hc : c'.clients = updC c.clients k f) (hp : c'.pendingFin = c.pendingFin)
    (hh : ∀ k, heldBy c'.msgs k = heldBy c.msgs k)
    (hf : ∀ cl, (f cl).inFlight = cl.inFlight ∧ (f cl).conn = cl.conn) : InFl c' := by
  intro cl hcl
  rw [hc] at hcl
  obtain ⟨cl0, hcl0, rfl⟩ := mem_updC.1 hcl
  rw [hp, hh]
  have h0 := h cl0 hcl0
  split
  · rw [(hf cl0).1, (hf cl0).2]; exact h0
  · exact h0

theorem inFl_removeC {c c' : Chan} {k : Nat} (h : InFl c) (hc : c'.clients = removeC c.clients k)
    (hp : c'.pendingFin = c.pendingFin) (hh : ∀ k, heldBy c'.msgs k = heldBy c.msgs k) : InFl c' := by
  intro cl hcl
  rw [hc] at hcl
  rw [hp, hh]
  exact h cl (mem_removeC.1 hcl).1

theorem inFl_enqueue {c : Chan} {x : Nat} {e : Entry} (hn : (c.msgs.map (·.id)).Nodup) (he : e ∈ c.msgs)
    (hid : e.id = x) (hq : e.loc = .queued) (h : InFl c) : InFl (enqueue c x) := by
  subst hid
  unfold enqueue
  split
  · exact h
  · split
    · exact inFl_frame h rfl rfl (fun k => heldBy_removeE_queued hn he hq k)
    · exact h

/-- the in-flight message `e` of `k` leaves the in-flight set (it is requeued, deferred, or
removed) and `k`'s counter is decremented -/
theorem inFl_release {c : Chan} (hn : (c.msgs.map (·.id)).Nodup) (h : InFl c) {e : Entry} (he : e ∈ c.msgs)
    {k : Nat} {p d : Int} (hl : e.loc = .inflight k p d) {msgs' : List Entry}
    (hm : ∀ k', (heldBy msgs' k' : Int) = heldBy c.msgs k' - (if k' = k then 1 else 0))
    {f : Client → Client} (hf : ∀ cl, (f cl).inFlight = cl.inFlight - 1 ∧ (f cl).conn = cl.conn)
    {c' : Chan} (hc : c'.clients = updC c.clients k f) (hp : c'.pendingFin = c.pendingFin)
    (hms : c'.msgs = msgs') : InFl c' := by
  intro cl hcl
  rw [hc] at hcl
  obtain ⟨cl0, hcl0, rfl⟩ := mem_updC.1 hcl
  rw [hp, hms]
  have h0 := h cl0 hcl0
  by_cases hk : cl0.conn = k
  · rw [if_pos hk, (hf cl0).1, (hf cl0).2, hm, if_pos hk]
    omega
  · rw [if_neg hk, hm, if_neg hk]; omega

theorem heldBy_setE_out {l : List Entry} (hn : (l.map (·.id)).Nodup) {e : Entry} (he : e ∈ l)
    {k : Nat} {p d : Int} (hl : e.loc = .inflight k p d) (att : Nat) (loc : Loc)
    (hloc : ∀ k', heldByE k' { e with att := att, loc := loc } = false) (k' : Nat) :
    (heldBy (setE l e.id att loc) k' : Int) = heldBy l k' - (if k' = k then 1 else 0) := by
  have h1 := heldBy_setE hn he att loc k'
  rw [hloc k'] at h1
  have e1 : heldByE k' e = (k == k') := by simp [heldByE, hl]
  rw [e1] at h1
  by_cases hk : k' = k
  · subst hk; simp at h1 ⊢; omega
  · have hk2 : ¬ k = k' := fun h => hk h.symm
    simp [hk, hk2] at h1 ⊢; omega

theorem heldBy_removeE_out {l : List Entry} (hn : (l.map (·.id)).Nodup) {e : Entry} (he : e ∈ l)
    {k : Nat} {p d : Int} (hl : e.loc = .inflight k p d) (k' : Nat) :
    (heldBy (removeE l e.id) k' : Int) = heldBy l k' - (if k' = k then 1 else 0) := by
  have h1 := heldBy_removeE hn he k'
  simp only [heldByE, hl, beq_iff_eq] at h1
  by_cases hk : k' = k
  · subst hk; simp at h1 ⊢; omega
  · have hk2 : ¬ k = k' := fun h => hk h.symm
    simp [hk, hk2] at h1 ⊢; omega

theorem inFl_doDeliver {c : Chan} (hi : Inv 0 c) (h : InFl c) (cl : Client) (k id : Nat) (now : Int) :
    InFl (doDeliver c cl k id now).1 := by
  unfold doDeliver
  split
  · exact h
  · rename_i e hfe
    obtain ⟨he, hid⟩ := findE_some hfe
    subst hid
    split
    · exact h
    · rename_i hq
      have hq' : e.loc = .queued := by
        cases hl : e.loc <;> simp [isQueued, hl] at hq ⊢
      intro cl' hcl'
      obtain ⟨cl0, hcl0, rfl⟩ := mem_updC.1 hcl'
      have h0 := h cl0 hcl0
      have h1 := heldBy_setE hi.core.nodup he (e.att + 1) (.inflight k (now + cl.msgTimeout) now) cl0.conn
      simp [heldByE, hq'] at h1
      by_cases hk : cl0.conn = k
      · rw [if_pos hk]
        simp [hk] at h1 h0
        show cl0.inFlight + 1 = (heldBy (setE c.msgs e.id (e.att + 1) (.inflight k (now + cl.msgTimeout) now)) cl0.conn : Int) + (c.pendingFin.count cl0.conn : Nat)
        rw [hk]; omega
      · rw [if_neg hk]
        simp [Ne.symm hk] at h1
        show cl0.inFlight = (heldBy (setE c.msgs e.id (e.att + 1) (.inflight k (now + cl.msgTimeout) now)) cl0.conn : Int) + (c.pendingFin.count cl0.conn : Nat)
        omega

theorem inFl_timeoutOne {c : Chan} (hi : Inv 0 c) (h : InFl c) (id : Nat) : InFl (timeoutOne c id) := by
  unfold timeoutOne
  split
  · rename_i e hfe
    obtain ⟨he, hid⟩ := findE_some hfe
    subst hid
    split
    · rename_i k p dts hl
      have hmem : ({ e with att := e.att, loc := Loc.queued } : Entry) ∈ setE c.msgs e.id e.att .queued :=
        mem_setE.2 ⟨e, he, by simp⟩
      refine inFl_enqueue (e := { e with att := e.att, loc := Loc.queued }) ?_ hmem rfl rfl ?_
      · simp only [map_id_setE]; exact hi.core.nodup
      · exact inFl_release hi.core.nodup h he hl
          (heldBy_setE_out hi.core.nodup he hl e.att .queued (fun _ => by simp [heldByE]))
          (f := decIn) (fun cl => ⟨rfl, rfl⟩) rfl rfl rfl
    · exact h
  · exact h

theorem inFl_deferDueOne {c : Chan} (hi : Inv 0 c) (h : InFl c) (id : Nat) : InFl (deferDueOne c id) := by
  unfold deferDueOne
  split
  · rename_i e hfe
    obtain ⟨he, hid⟩ := findE_some hfe
    subst hid
    split
    · rename_i p hl
      have hmem : ({ e with att := e.att, loc := Loc.queued } : Entry) ∈ setE c.msgs e.id e.att .queued :=
        mem_setE.2 ⟨e, he, by simp⟩
      refine inFl_enqueue (e := { e with att := e.att, loc := Loc.queued }) ?_ hmem rfl rfl ?_
      · simp only [map_id_setE]; exact hi.core.nodup
      · refine inFl_frame h rfl rfl (fun k'' => ?_)
        have h1 := heldBy_setE hi.core.nodup he e.att .queued k''
        simp [heldByE, hl] at h1
        show heldBy (setE c.msgs e.id e.att .queued) k'' = heldBy c.msgs k''
        omega
    · exact h
  · exact h

/-- `Inv 0` and `InFl` together along a fold of per-id steps (the scans) -/
theorem invFl_foldl {f : Chan → Nat → Chan} (hf : ∀ c id, Inv 0 c ∧ InFl c → Inv 0 (f c id) ∧ InFl (f c id))
    (l : List Nat) {c : Chan} (h : Inv 0 c ∧ InFl c) : Inv 0 (l.foldl f c) ∧ InFl (l.foldl f c) := by
  induction l generalizing c with
  | nil => exact h
  | cons x l ih => exact ih (hf c x h)

theorem inFl_finChanPart {c c' : Chan} (hi : Inv 0 c) (h : InFl c) {k id : Nat} (hfc : finChanPart c k id = some c') :
    c'.pendingFin = c.pendingFin ∧ c'.clients = c.clients ∧
    ∀ k', (heldBy c'.msgs k' : Int) = heldBy c.msgs k' - (if k' = k then 1 else 0) := by
  unfold finChanPart at hfc
  split at hfc
  · rename_i e hfe
    obtain ⟨he, hid⟩ := findE_some hfe
    subst hid
    split at hfc
    · rename_i k' p dts hl
      split at hfc
      · rename_i hk
        subst hk
        cases hfc
        exact ⟨rfl, rfl, fun k'' => heldBy_removeE_out hi.core.nodup he hl k''⟩
      · cases hfc
    · cases hfc
  · cases hfc

theorem count_cons_int (k a : Nat) (l : List Nat) :
    (((k :: l).count a : Nat) : Int) = (l.count a : Nat) + (if a = k then 1 else 0) := by
  by_cases h : a = k
  · subst h; simp
  · have : (k == a) = false := by simpa using Ne.symm h
    simp [List.count_cons, this, h]

theorem count_erase_int {k : Nat} {l : List Nat} (hk : k ∈ l) (a : Nat) :
    (((l.erase k).count a : Nat) : Int) = (l.count a : Nat) - (if a = k then 1 else 0) := by
  have : (l.erase k).count a = l.count a - if (k == a) = true then 1 else 0 := List.count_erase
  have hpos : a = k → 0 < l.count a := fun h => h ▸ List.count_pos_iff.2 hk
  by_cases h : a = k
  · have hp := hpos h
    subst h; simp at this ⊢; omega
  · have : (k == a) = false := by simpa using Ne.symm h
    simp_all

/-- **one-step preservation** over all ops, micro-steps included -/
theorem step_inFl (conf : Conf) {c : Chan} (hi : Inv 0 c) (h : InFl c) (op : Op) : InFl (step conf c op).1 := by
  cases op with
  | put id env =>
    simp only [step]
    split
    · exact h
    · rename_i hcond
      simp only [bne_iff_ne, ne_eq, Bool.or_eq_true, not_or, Decidable.not_not, Bool.not_eq_true] at hcond
      have hnone := status_none_of_nFanout_zero hi.okh hcond.1
      have hfresh := not_mem_of_status_none hi.core hnone
      refine inFl_enqueue (e := { id := id, att := 0, loc := .queued, env := env }) ?_ List.mem_cons_self rfl rfl ?_
      · simp only [List.map_cons, List.nodup_cons, List.mem_map, not_exists, not_and]
        exact ⟨fun e he hid => hfresh e he hid, hi.core.nodup⟩
      · exact inFl_frame h rfl rfl (fun k => by simp [heldBy, List.countP_cons, heldByE])
  | putDeferred id pri env =>
    simp only [step]
    split
    · exact h
    · exact inFl_frame h rfl rfl (fun k => by simp [heldBy, List.countP_cons, heldByE])
  | addClient k mt sm =>
    simp only [step]
    split
    · exact h
    · rename_i hcond
      simp only [Bool.or_eq_true, not_or, Bool.not_eq_true, bne_iff_ne, ne_eq, Decidable.not_not] at hcond
      intro cl hcl
      simp only [List.mem_cons] at hcl
      rcases hcl with rfl | hcl
      · have hp : c.pendingFin.count k = 0 := by
          apply List.count_eq_zero.2
          have := hcond.2
          simpa using this
        simp [hcond.1.2, hp]
      · exact h cl hcl
  | removeClient k =>
    simp only [step]
    split
    · exact h
    · exact inFl_removeC h rfl rfl (fun _ => rfl)
  | rdy k n =>
    simp only [step]
    split
    · exact h
    · split
      · exact h
      · split
        · exact inFl_removeC h rfl rfl (fun _ => rfl)
        · exact inFl_updC_same h rfl rfl (fun _ => rfl) (fun _ => ⟨rfl, rfl⟩)
  | cls k =>
    simp only [step]
    split
    · exact h
    · split
      · exact inFl_removeC h rfl rfl (fun _ => rfl)
      · exact inFl_updC_same h rfl rfl (fun _ => rfl) (fun _ => ⟨rfl, rfl⟩)
  | deliver k id now =>
    simp only [step]
    split
    · exact h
    · split
      · exact h
      · exact inFl_doDeliver hi h _ k id now
  | guard k =>
    simp only [step]
    split
    · exact h
    · split
      · exact inFl_updC_same h rfl rfl (fun _ => rfl) (fun _ => ⟨rfl, rfl⟩)
      · exact inFl_updC_same h rfl rfl (fun _ => rfl) (fun _ => ⟨rfl, rfl⟩)
  | deliverArmed k id now =>
    simp only [step]
    split
    · exact h
    · split
      · exact h
      · exact inFl_doDeliver hi h _ k id now
  | sampleDrop k id =>
    simp only [step]
    split
    · exact h
    · split
      · exact h
      · split
        · exact h
        · split
          · exact h
          · rename_i e hfe
            obtain ⟨he, hid⟩ := findE_some hfe
            subst hid
            split
            · exact h
            · rename_i hq
              have hq' : e.loc = .queued := by
                cases hl : e.loc <;> simp [isQueued, hl] at hq ⊢
              exact inFl_frame h rfl rfl (fun k' => heldBy_removeE_queued hi.core.nodup he hq' k')
  | fin k id =>
    simp only [step]
    split
    · exact h
    · split
      · exact h
      · rename_i c' hfc
        obtain ⟨hp, hc, hm⟩ := inFl_finChanPart hi h hfc
        intro cl hcl
        simp only [finClientPart] at hcl ⊢
        rw [hc] at hcl
        obtain ⟨cl0, hcl0, rfl⟩ := mem_updC.1 hcl
        have h0 := h cl0 hcl0
        rw [hp]
        by_cases hk : cl0.conn = k
        · rw [if_pos hk]
          have := hm k
          simp only [↓reduceIte] at this
          rw [hk] at h0
          show cl0.inFlight - 1 = (heldBy c'.msgs cl0.conn : Int) + (c.pendingFin.count cl0.conn : Nat)
          rw [hk]; omega
        · rw [if_neg hk]
          have := hm cl0.conn
          simp only [hk, ↓reduceIte] at this
          omega
  | finChan k id =>
    simp only [step]
    split
    · exact h
    · split
      · exact h
      · rename_i c' hfc
        obtain ⟨hp, hc, hm⟩ := inFl_finChanPart hi h hfc
        intro cl hcl
        have hcl' : cl ∈ c.clients := hc ▸ hcl
        have h0 := h cl hcl'
        show cl.inFlight = (heldBy c'.msgs cl.conn : Int) + ((k :: c'.pendingFin).count cl.conn : Nat)
        rw [count_cons_int, hp, hm]
        omega
  | finClient k =>
    simp only [step]
    split
    · exact h
    · rename_i hcont
      have hk : k ∈ c.pendingFin := by simpa using hcont
      intro cl hcl
      simp only [finClientPart] at hcl ⊢
      obtain ⟨cl0, hcl0, rfl⟩ := mem_updC.1 hcl
      have h0 := h cl0 hcl0
      have hce := count_erase_int hk cl0.conn
      by_cases hk' : cl0.conn = k
      · rw [if_pos hk']
        rw [if_pos hk'] at hce
        show cl0.inFlight - 1 = (heldBy c.msgs cl0.conn : Int) + ((c.pendingFin.erase k).count cl0.conn : Nat)
        omega
      · rw [if_neg hk']
        rw [if_neg hk'] at hce
        show cl0.inFlight = (heldBy c.msgs cl0.conn : Int) + ((c.pendingFin.erase k).count cl0.conn : Nat)
        omega
  | req k id delay now =>
    simp only [step]
    split
    · exact h
    · split
      · exact h
      · rename_i e hfe
        obtain ⟨he, hid⟩ := findE_some hfe
        subst hid
        split
        · rename_i k' p dts hl
          split
          · exact h
          · rename_i hk
            simp only [ne_eq, Decidable.not_not] at hk
            subst hk
            split
            · have hmem : ({ e with att := e.att, loc := Loc.queued } : Entry) ∈ setE c.msgs e.id e.att .queued :=
                mem_setE.2 ⟨e, he, by simp⟩
              refine inFl_enqueue (e := { e with att := e.att, loc := Loc.queued }) ?_ hmem rfl rfl ?_
              · simp only [map_id_setE]; exact hi.core.nodup
              · exact inFl_release hi.core.nodup h he hl
                  (heldBy_setE_out hi.core.nodup he hl e.att .queued (fun _ => by simp [heldByE]))
                  (f := fun cl => { cl with reqCount := cl.reqCount + 1, inFlight := cl.inFlight - 1 })
                  (fun cl => ⟨rfl, rfl⟩) rfl rfl rfl
            · exact inFl_release hi.core.nodup h he hl
                (heldBy_setE_out hi.core.nodup he hl e.att _ (fun _ => by simp [heldByE]))
                (f := fun cl => { cl with reqCount := cl.reqCount + 1, inFlight := cl.inFlight - 1 })
                (fun cl => ⟨rfl, rfl⟩) rfl rfl rfl
        · exact h
  | touch k id now =>
    simp only [step]
    split
    · exact h
    · rename_i cl hf
      split
      · exact h
      · rename_i e hfe
        obtain ⟨he, hid⟩ := findE_some hfe
        subst hid
        split
        · rename_i k' p dts hl
          split
          · exact h
          · rename_i hk
            simp only [ne_eq, Decidable.not_not] at hk
            subst hk
            refine inFl_frame h rfl rfl (fun k'' => ?_)
            have h1 := heldBy_setE hi.core.nodup he e.att (.inflight k' (touchPri conf now cl.msgTimeout dts) dts) k''
            simp only [heldByE, hl, beq_iff_eq] at h1
            show heldBy (setE c.msgs e.id e.att (.inflight k' (touchPri conf now cl.msgTimeout dts) dts)) k'' = heldBy c.msgs k''
            split at h1 <;> omega
        · exact h
  | scanInFlight t =>
    exact (invFl_foldl (fun c id hh => ⟨inv_timeoutOne hh.1 id, inFl_timeoutOne hh.1 hh.2 id⟩) _ ⟨hi, h⟩).2
  | scanDeferred t =>
    exact (invFl_foldl (fun c id hh => ⟨inv_deferDueOne hh.1 id, inFl_deferDueOne hh.1 hh.2 id⟩) _ ⟨hi, h⟩).2
  | pause => exact inFl_frame h rfl rfl (fun _ => rfl)
  | unpause => exact inFl_frame h rfl rfl (fun _ => rfl)
  | empty =>
    simp only [step]
    intro cl hcl
    simp only [List.mem_map] at hcl
    obtain ⟨cl0, hcl0, rfl⟩ := hcl
    have h0 := h cl0 hcl0
    simp only [heldBy, List.countP_nil] at h0 ⊢
    omega
  | resplit m d =>
    simp only [step]
    split
    · exact h
    · exact h

theorem inFl_init (eph : Bool) (cap : Nat) : InFl { ephemeral := eph, memCap := cap } := by
  intro cl hcl; cases hcl

theorem run_invFl (conf : Conf) (ops : List Op) {c : Chan} (hi : Inv 0 c) (h : InFl c) :
    Inv 0 (run conf c ops) ∧ InFl (run conf c ops) := by
  induction ops generalizing c with
  | nil => exact ⟨hi, h⟩
  | cons op ops ih => exact ih (step_inv conf hi op) (step_inFl conf hi h op)

end Nsq.Proofs.Chan
