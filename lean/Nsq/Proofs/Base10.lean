import Nsq.Model.ProtoV2
import Nsq.Spec.ProtoSpec
/-! `ByteToBase10` is exact (value of the digit string or an error, never a wrapped value) and what
that gives for RDY, DPUB and REQ. -/
namespace Nsq.Proofs.Base10
open Nsq.Model.ProtoV2 Nsq.Model.Names Nsq.Model.Base10 Nsq.Model Nsq.Spec.ProtoSpec

theorem decVal_ge : ∀ (ds : Bytes) (m : Nat), m ≤ decVal ds m
  | [], m => Nat.le_refl m
  | d :: ds, m => by
    unfold decVal
    have := decVal_ge ds (m * 10 + (d.toNat - 48))
    omega

theorem b10loop_iff : ∀ (d : Bytes) (acc n : Nat), acc ≤ maxU64 →
    (b10loop d acc = some n ↔ (∀ c ∈ d, IsDigit c) ∧ decVal d acc = n ∧ n ≤ maxU64)
  | [], acc, n, hacc => by
    simp only [b10loop, decVal, Option.some.injEq, List.not_mem_nil, false_implies, implies_true, true_and]
    constructor
    · intro h; subst h; exact ⟨rfl, hacc⟩
    · intro h; exact h.1
  | d :: ds, acc, n, hacc => by
    unfold b10loop decVal
    by_cases hd : 48 ≤ d.toNat ∧ d.toNat ≤ 57
    · simp only [hd, and_self, if_true]
      by_cases hov : acc > (maxU64 - (d.toNat - 48)) / 10
      · simp only [hov, if_true]
        constructor
        · intro h; simp at h
        · rintro ⟨_, hv, hn⟩
          have := decVal_ge ds (acc * 10 + (d.toNat - 48))
          unfold maxU64 at *
          omega
      · simp only [hov, if_false]
        have hacc' : acc * 10 + (d.toNat - 48) ≤ maxU64 := by unfold maxU64 at *; omega
        rw [b10loop_iff ds _ n hacc']
        constructor
        · rintro ⟨h1, h2, h3⟩
          refine ⟨?_, h2, h3⟩
          intro c hc
          rcases List.mem_cons.mp hc with rfl | hc
          · exact hd
          · exact h1 c hc
        · rintro ⟨h1, h2, h3⟩
          exact ⟨fun c hc => h1 c (List.mem_cons_of_mem _ hc), h2, h3⟩
    · simp only [hd, if_false]
      constructor
      · intro h; simp at h
      · rintro ⟨h1, _, _⟩
        exact absurd (h1 d (List.mem_cons_self)) hd

theorem byteToBase10_iff (d : Bytes) (n : Nat) :
    byteToBase10 d = some n ↔ (∀ c ∈ d, IsDigit c) ∧ decVal d 0 = n ∧ n ≤ maxU64 :=
  b10loop_iff d 0 n (by unfold maxU64; omega)

theorem rdy_exact (conf : Conf) (s : ConnState) (b : Broker) (cmd p : Bytes) (tl : List Bytes) (rest : Bytes)
    (n : Int) (h : (rdy conf s b (cmd :: p :: tl) rest).eff = [.rdy n]) :
    (∀ c ∈ p, IsDigit c) ∧ n = (decVal p 0 : Int) ∧ 0 ≤ n ∧ n ≤ conf.maxRdy := by
  unfold rdy at h
  split at h
  · simp [done] at h
  · split at h
    · simp [fatal] at h
    · simp only at h
      split at h
      · simp [fatal] at h
      · rename_i v hv
        obtain ⟨hdig, hval, hle⟩ := (byteToBase10_iff p v).mp hv
        unfold rdySet at h
        split at h
        · simp [fatal] at h
        · rename_i hr
          simp [done] at h
          subst h
          unfold toInt64 at hr ⊢
          unfold maxU64 at hle
          split at hr
          · omega
          · rename_i hlt
            refine ⟨hdig, ?_, by omega, by omega⟩
            simp [hlt, hval]

theorem pubBody_enq (conf : Conf) (s : ConnState) (b : Broker) (t : Bytes) (d : Int) (rest : Bytes)
    (t' : Bytes) (ms : List Msg) (h : (pubBody conf s b t d rest).eff = [.enq t' ms]) :
    ∀ m ∈ ms, m.deferNs = d := by
  unfold pubBody at h
  split at h
  · simp [fatal] at h
  · simp [panicStep] at h
  · split at h
    · simp [fatal] at h
    · simp [done] at h
      obtain ⟨_, rfl⟩ := h
      simp

theorem dpub_exact (conf : Conf) (s : ConnState) (b : Broker) (cmd t d : Bytes) (tl : List Bytes) (rest : Bytes)
    (ms : List Msg) (hmax : conf.maxReqTimeoutNs < maxI64)
    (h : (dpub conf s b (cmd :: t :: d :: tl) rest).eff = [.enq t ms]) :
    (∀ c ∈ d, IsDigit c) ∧ (decVal d 0 : Int) * 1000000 ≤ conf.maxReqTimeoutNs ∧
      ∀ m ∈ ms, m.deferNs = (decVal d 0 : Int) * 1000000 := by
  unfold dpub at h
  simp only at h
  split at h
  · simp [fatal] at h
  · split at h
    · simp [fatal] at h
    · rename_i v hv
      obtain ⟨hdig, hval, hle⟩ := (byteToBase10_iff d v).mp hv
      split at h
      · simp [fatal] at h
      · rename_i hr
        have hdef := pubBody_enq _ _ _ _ _ _ _ _ h
        unfold msToDuration maxI64 at *
        split at hr
        · omega
        · rename_i hsmall
          subst hval
          refine ⟨hdig, by omega, ?_⟩
          intro m hm
          have := hdef m hm
          simp [hsmall] at this
          exact this

theorem req_clamp (conf : Conf) (s : ConnState) (b : Broker) (cmd id t : Bytes) (tl : List Bytes) (rest : Bytes)
    (ns : Int) (h0 : 0 ≤ conf.maxReqTimeoutNs) (hmax : conf.maxReqTimeoutNs ≤ maxI64)
    (h : (req conf s b (cmd :: id :: t :: tl) rest).eff = [.req id ns]) :
    (∀ c ∈ t, IsDigit c) ∧ ns = min ((decVal t 0 : Int) * 1000000) conf.maxReqTimeoutNs := by
  unfold req at h
  split at h
  · simp [fatal] at h
  · simp only at h
    split at h
    · simp [fatal] at h
    · split at h
      · simp [fatal] at h
      · rename_i v hv
        obtain ⟨hdig, hval, hle⟩ := (byteToBase10_iff t v).mp hv
        split at h
        · simp [done] at h
          subst h
          subst hval
          refine ⟨hdig, ?_⟩
          unfold clampReq msToDuration maxI64 at *
          rw [Int.min_def]
          repeat' split
          all_goals omega
        · simp [nonfatal] at h

end Nsq.Proofs.Base10
