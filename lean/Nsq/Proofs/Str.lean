import Nsq.Model.Str
/-!
Lemmas about the byte-string operations of `Nsq.Model.Str` (Go `strings.Replace`/`Contains`/`HasSuffix`).
Main result: `replaceAll_keeps`: an occurrence of a pattern `p` survives `strings.Replace(s, old, new, -1)`
when `p` and `old` cannot overlap (`noOverlap p old`, a decidable condition on the two constants).
-/
namespace Nsq.Proofs.Str
open Nsq.Model.Str

theorem contains_iff (s p : Str) : contains s p = true ↔ p <:+: s := by
  induction s with
  | nil => simp [contains, List.isPrefixOf_iff_prefix]
  | cons c cs ih =>
    rw [contains, Bool.or_eq_true, ih, List.isPrefixOf_iff_prefix, List.infix_cons_iff]

theorem hasSuffix_iff (s p : Str) : hasSuffix s p = true ↔ p <:+ s := by
  unfold hasSuffix
  exact List.isSuffixOf_iff_suffix

/-- dropping the rest of an already replaced occurrence -/
theorem replGo_skip (old new : Str) (a b : Str) : replGo old new a.length (a ++ b) = replGo old new 0 b := by
  induction a with
  | nil => rfl
  | cons x a ih => simpa [replGo] using ih

theorem replGo_match (old new rest : Str) (h : old ≠ []) :
    replGo old new 0 (old ++ rest) = new ++ replGo old new 0 rest := by
  cases old with
  | nil => exact absurd rfl h
  | cons o os =>
    have hp : (o :: os).isPrefixOf (o :: (os ++ rest)) = true :=
      List.isPrefixOf_iff_prefix.mpr (List.prefix_append (o :: os) rest)
    show replGo (o :: os) new 0 (o :: (os ++ rest)) = _
    rw [replGo, if_pos hp]
    congr 1
    simpa using replGo_skip (o :: os) new os rest

theorem replGo_nomatch (old new : Str) (c : UInt8) (cs : Str) (h : old.isPrefixOf (c :: cs) = false) :
    replGo old new 0 (c :: cs) = c :: replGo old new 0 cs := by
  rw [replGo]; simp [h]

/-- `p` and `old` cannot overlap: `old` does not occur inside `p`, no non-empty suffix of `p` is a
prefix of `old`, no suffix of `old` is a prefix of `p`, `p` does not occur inside `old` -/
def noOverlap (p old : Str) : Bool :=
  (List.range p.length).all (fun i => !old.isPrefixOf (p.drop i) && !(p.drop i).isPrefixOf old) &&
  (List.range old.length).all (fun j => !(old.drop j).isPrefixOf p && !p.isPrefixOf (old.drop j))

private theorem no1 {p old : Str} (h : noOverlap p old = true) (i : Nat) (hi : i < p.length) :
    ¬ old <+: p.drop i ∧ ¬ p.drop i <+: old := by
  unfold noOverlap at h
  rw [Bool.and_eq_true, List.all_eq_true, List.all_eq_true] at h
  have := h.1 i (List.mem_range.mpr hi)
  simp only [Bool.and_eq_true, Bool.not_eq_true', ← Bool.not_eq_true, List.isPrefixOf_iff_prefix] at this
  exact this

private theorem no2 {p old : Str} (h : noOverlap p old = true) (j : Nat) (hj : j < old.length) :
    ¬ old.drop j <+: p ∧ ¬ p <+: old.drop j := by
  unfold noOverlap at h
  rw [Bool.and_eq_true, List.all_eq_true, List.all_eq_true] at h
  have := h.2 j (List.mem_range.mpr hj)
  simp only [Bool.and_eq_true, Bool.not_eq_true', ← Bool.not_eq_true, List.isPrefixOf_iff_prefix] at this
  exact this

/-- no occurrence of `old` starts inside `q`: the scanner copies `q` -/
theorem replGo_copy (old new : Str) (q post : Str)
    (h : ∀ i, i < q.length → ¬ old <+: (q.drop i ++ post)) :
    replGo old new 0 (q ++ post) = q ++ replGo old new 0 post := by
  induction q with
  | nil => rfl
  | cons c q ih =>
    have h0 : old.isPrefixOf (c :: (q ++ post)) = false := by
      have := h 0 (by simp)
      simpa [← Bool.not_eq_true, List.isPrefixOf_iff_prefix] using this
    show replGo old new 0 (c :: (q ++ post)) = _
    rw [replGo_nomatch _ _ _ _ h0, ih]
    · rfl
    · intro i hi
      have := h (i + 1) (by simp; omega)
      simpa using this

theorem replGo_copy_pattern (old new p post : Str) (h : noOverlap p old = true) :
    replGo old new 0 (p ++ post) = p ++ replGo old new 0 post := by
  apply replGo_copy
  intro i hi hpre
  obtain ⟨h1, h2⟩ := no1 h i hi
  by_cases hl : old.length ≤ (p.drop i).length
  · exact h1 (List.prefix_of_prefix_length_le hpre (List.prefix_append _ _) hl)
  · exact h2 (List.prefix_of_prefix_length_le (List.prefix_append _ _) hpre (by omega))

/-- the occurrence of `p` after `pre` survives the scan, and what follows it is scanned independently -/
theorem replGo_keeps (old new p : Str) (hold : old ≠ []) (h : noOverlap p old = true) :
    ∀ (n : Nat) (pre post : Str), pre.length = n →
      ∃ x, replGo old new 0 (pre ++ p ++ post) = x ++ p ++ replGo old new 0 post := by
  intro n
  induction n using Nat.strongRecOn with
  | _ n ih =>
    intro pre post hn
    cases pre with
    | nil =>
      refine ⟨[], ?_⟩
      simpa using replGo_copy_pattern old new p post h
    | cons c pre' =>
      by_cases hm : old.isPrefixOf (c :: pre' ++ p ++ post) = true
      · have hpre : old <+: (c :: pre') ++ (p ++ post) := by
          simpa [List.isPrefixOf_iff_prefix, List.append_assoc] using hm
        by_cases hl : old.length ≤ (c :: pre').length
        · -- the occurrence of `old` lies inside `pre`
          have h1 : old <+: (c :: pre') := List.prefix_of_prefix_length_le hpre (List.prefix_append _ _) hl
          obtain ⟨r, hr⟩ := h1
          have hlen : r.length < n := by
            have : (old ++ r).length = (c :: pre').length := by rw [hr]
            have ho : 0 < old.length := List.length_pos_iff.mpr hold
            simp at this hn; omega
          obtain ⟨x, hx⟩ := ih r.length hlen r post rfl
          refine ⟨new ++ x, ?_⟩
          rw [← hr, List.append_assoc, List.append_assoc, replGo_match _ _ _ hold,
            ← List.append_assoc r, hx]
          simp [List.append_assoc]
        · -- `old` would reach into (or over) `p`: excluded
          exfalso
          have hl' : (c :: pre').length < old.length := by omega
          have hsplit : old = (c :: pre') ++ old.drop (c :: pre').length := by
            have h2 : (c :: pre') <+: old :=
              List.prefix_of_prefix_length_le (List.prefix_append _ _) hpre (by omega)
            obtain ⟨t, ht⟩ := h2
            rw [← ht]; simp
          have hr : old.drop (c :: pre').length <+: p ++ post := by
            rw [hsplit] at hpre
            exact (List.prefix_append_right_inj _).mp hpre
          obtain ⟨h3, h4⟩ := no2 h (c :: pre').length hl'
          by_cases hl2 : (old.drop (c :: pre').length).length ≤ p.length
          · exact h3 (List.prefix_of_prefix_length_le hr (List.prefix_append _ _) hl2)
          · exact h4 (List.prefix_of_prefix_length_le (List.prefix_append _ _) hr (by omega))
      · have hm' : old.isPrefixOf (c :: (pre' ++ p ++ post)) = false := by
          exact Bool.eq_false_iff.mpr hm
        obtain ⟨x, hx⟩ := ih pre'.length (by simp at hn; omega) pre' post rfl
        refine ⟨c :: x, ?_⟩
        show replGo old new 0 (c :: (pre' ++ p ++ post)) = _
        rw [replGo_nomatch _ _ _ _ hm', hx]
        simp

/-- `strings.Replace(s, old, new, -1)` keeps an occurrence of `p` when `p` and `old` cannot overlap -/
theorem replaceAll_keeps (s old new p : Str) (h : noOverlap p old = true) (hc : contains s p = true) :
    contains (replaceAll s old new) p = true := by
  unfold replaceAll
  by_cases hold : old = []
  · simp [hold, hc]
  · rw [if_neg hold]
    rw [contains_iff] at hc ⊢
    obtain ⟨pre, post, hs⟩ := hc
    obtain ⟨x, hx⟩ := replGo_keeps old new p hold h pre.length pre post rfl
    rw [← hs, hx]
    exact ⟨x, _, rfl⟩

/-- … and a suffix `p` stays a suffix -/
theorem replaceAll_keeps_suffix (s old new p : Str) (h : noOverlap p old = true) (hc : hasSuffix s p = true) :
    hasSuffix (replaceAll s old new) p = true := by
  unfold replaceAll
  by_cases hold : old = []
  · simp [hold, hc]
  · rw [if_neg hold]
    rw [hasSuffix_iff] at hc ⊢
    obtain ⟨pre, hs⟩ := hc
    obtain ⟨x, hx⟩ := replGo_keeps old new p hold h pre.length pre [] rfl
    rw [← hs]
    simp only [List.append_nil] at hx
    rw [hx]
    exact ⟨x, by simp [replGo]⟩

theorem contains_append_left (s t p : Str) (h : contains s p = true) : contains (s ++ t) p = true := by
  rw [contains_iff] at h ⊢
  obtain ⟨a, b, hab⟩ := h
  exact ⟨a, b ++ t, by rw [← hab]; simp [List.append_assoc]⟩

end Nsq.Proofs.Str
