/-
E2 / C03 — the overshoot bound at HISTORY level, micro-step granularity (round 9, audit A8).

`GInv`: (1) `okG`: every `deliver k _ _` event has a `guardOk k` event between it and the previous `deliver k`
(or the beginning); (2) a connection whose `armed` bit is set has such an unconsumed `guardOk`.
Preserved by EVERY op of `Nsq.Model.Chan.step` except the atomic `deliver` (which is guard + send in one step and
records no `guardOk`): `step_ginv`.
-/
import Nsq.Proofs.ChanInv
namespace Nsq.Proofs.ChanGuard
open Nsq.Model.Chan Nsq.Proofs.Chan

def isGD : Ev → Bool
  | .guardOk _ => true
  | .deliver .. => true
  | _ => false

/-- scanning newest first: the latest guard/deliver event of `k` is a `guardOk` (an unconsumed licence) -/
def pend (k : Nat) : List Ev → Bool
  | [] => false
  | .guardOk c :: h => if c = k then true else pend k h
  | .deliver c _ _ :: h => if c = k then false else pend k h
  | _ :: h => pend k h

/-- every delivery consumes a licence -/
def okG : List Ev → Bool
  | [] => true
  | .deliver k _ _ :: h => pend k h && okG h
  | _ :: h => okG h

def isG (k : Nat) : Ev → Bool
  | .guardOk c => c == k
  | _ => false
def isD (k : Nat) : Ev → Bool
  | .deliver c _ _ => c == k
  | _ => false
def nG (k : Nat) (h : List Ev) : Nat := h.countP (isG k)
def nD (k : Nat) (h : List Ev) : Nat := h.countP (isD k)

theorem pend_filter (k : Nat) (h : List Ev) : pend k (h.filter isGD) = pend k h := by
  induction h with
  | nil => rfl
  | cons e h ih => cases e <;> simp [List.filter_cons, isGD, pend, ih]

theorem okG_filter (h : List Ev) : okG (h.filter isGD) = okG h := by
  induction h with
  | nil => rfl
  | cons e h ih => cases e <;> simp [List.filter_cons, isGD, okG, ih, pend_filter]

/-- deliveries never outnumber successful guard evaluations (per connection, on every history with `okG`) -/
theorem okG_count (k : Nat) (h : List Ev) (hok : okG h = true) :
    nD k h + (pend k h).toNat ≤ nG k h := by
  induction h with
  | nil => simp [nD, nG, pend]
  | cons e h ih =>
    cases e with
    | guardOk c =>
      have := ih (by simpa [okG] using hok)
      by_cases hc : c = k
      · subst hc
        simp only [nD, nG, List.countP_cons, pend, isG, isD] at *
        simp
        cases hp : pend c h <;> simp [hp] at this <;> omega
      · have hb : (c == k) = false := by simpa using hc
        simp only [nD, nG, List.countP_cons, pend, isG, isD, hc, hb] at *
        simpa using this
    | deliver c i a =>
      simp only [okG, Bool.and_eq_true] at hok
      have := ih hok.2
      by_cases hc : c = k
      · subst hc
        simp only [nD, nG, List.countP_cons, pend, isG, isD, hok.1] at *
        simp at this ⊢; omega
      · have hb : (c == k) = false := by simpa using hc
        simp only [nD, nG, List.countP_cons, pend, isG, isD, hc, hb] at *
        simpa using this
    | _ =>
      have := ih (by simpa [okG] using hok)
      simpa [nD, nG, List.countP_cons, pend, isG, isD] using this

/-! armed bits only shrink under the neutral steps -/

def ArmedLe (cs' cs : List Client) : Prop :=
  ∀ cl' ∈ cs', cl'.armed = true → ∃ cl ∈ cs, cl.conn = cl'.conn ∧ cl.armed = true

theorem armedLe_refl (cs : List Client) : ArmedLe cs cs := fun cl h ha => ⟨cl, h, rfl, ha⟩

theorem armedLe_trans {a b c : List Client} (h1 : ArmedLe a b) (h2 : ArmedLe b c) : ArmedLe a c := by
  intro cl h ha
  obtain ⟨cl1, h1m, h1c, h1a⟩ := h1 cl h ha
  obtain ⟨cl2, h2m, h2c, h2a⟩ := h2 cl1 h1m h1a
  exact ⟨cl2, h2m, h2c.trans h1c, h2a⟩

theorem armedLe_updC (cs : List Client) (k : Nat) (f : Client → Client)
    (hf : ∀ c, (f c).conn = c.conn ∧ ((f c).armed = true → c.armed = true)) : ArmedLe (updC cs k f) cs := by
  intro cl' h ha
  obtain ⟨c, hc, rfl⟩ := mem_updC.1 h
  by_cases hk : c.conn = k
  · simp only [hk, ↓reduceIte] at ha ⊢
    exact ⟨c, hc, (hf c).1.symm, (hf c).2 ha⟩
  · simp only [hk, ↓reduceIte] at ha ⊢
    exact ⟨c, hc, rfl, ha⟩

theorem armedLe_removeC (cs : List Client) (k : Nat) : ArmedLe (removeC cs k) cs :=
  fun cl h ha => ⟨cl, (mem_removeC.1 h).1, rfl, ha⟩

theorem armedLe_map (cs : List Client) (f : Client → Client)
    (hf : ∀ c, (f c).conn = c.conn ∧ ((f c).armed = true → c.armed = true)) : ArmedLe (cs.map f) cs := by
  intro cl' h ha
  obtain ⟨c, hc, rfl⟩ := List.mem_map.1 h
  exact ⟨c, hc, (hf c).1.symm, (hf c).2 ha⟩

theorem armedLe_cons {cl : Client} (cs : List Client) (h : cl.armed = false) : ArmedLe (cl :: cs) cs := by
  intro cl' hm ha
  rcases List.mem_cons.1 hm with rfl | hm
  · rw [h] at ha; cases ha
  · exact ⟨cl', hm, rfl, ha⟩

/-- a step that adds no guard / deliver event and arms nobody -/
def Neutral (c c' : Chan) : Prop :=
  c'.hist.filter isGD = c.hist.filter isGD ∧ ArmedLe c'.clients c.clients

theorem neutral_refl (c : Chan) : Neutral c c := ⟨rfl, armedLe_refl _⟩
theorem neutral_trans {a b c : Chan} (h1 : Neutral a b) (h2 : Neutral b c) : Neutral a c :=
  ⟨h2.1.trans h1.1, armedLe_trans h2.2 h1.2⟩

theorem neutral_enqueue {c c1 : Chan} (h : Neutral c c1) (id : Nat) : Neutral c (enqueue c1 id) := by
  unfold enqueue
  split
  · exact h
  · split
    · exact ⟨by simpa [isGD] using h.1, h.2⟩
    · exact h

theorem neutral_timeoutOne (c : Chan) (id : Nat) : Neutral c (timeoutOne c id) := by
  unfold timeoutOne
  split
  · split
    · apply neutral_enqueue
      exact ⟨by simp [isGD], armedLe_updC _ _ _ (fun _ => ⟨rfl, fun hh => hh⟩)⟩
    · exact neutral_refl c
  · exact neutral_refl c

theorem neutral_deferDueOne (c : Chan) (id : Nat) : Neutral c (deferDueOne c id) := by
  unfold deferDueOne
  split
  · split
    · apply neutral_enqueue
      exact ⟨by simp [isGD], armedLe_refl _⟩
    · exact neutral_refl c
  · exact neutral_refl c

theorem neutral_foldl (f : Chan → Nat → Chan) (hf : ∀ c x, Neutral c (f c x)) (l : List Nat) (c : Chan) :
    Neutral c (l.foldl f c) := by
  induction l generalizing c with
  | nil => exact neutral_refl c
  | cons x l ih => simp only [List.foldl_cons]; exact neutral_trans (hf c x) (ih _)

theorem finChanPart_neutral {c c' : Chan} {k id : Nat} (h : finChanPart c k id = some c') : Neutral c c' := by
  unfold finChanPart at h
  split at h
  · split at h
    · split at h
      · cases h; exact ⟨by simp [isGD], armedLe_refl _⟩
      · cases h
    · cases h
  · cases h

/-- is the op one of the three that concern guard / delivery? -/
def gdOp : Op → Bool
  | .guard _ => true
  | .deliver .. => true
  | .deliverArmed .. => true
  | _ => false

theorem step_neutral (conf : Conf) (c : Chan) (op : Op) (hop : gdOp op = false) : Neutral c (step conf c op).1 := by
  cases op with
  | guard k => cases hop
  | deliver k id now => cases hop
  | deliverArmed k id now => cases hop
  | scanInFlight t => exact neutral_foldl _ neutral_timeoutOne _ _
  | scanDeferred t => exact neutral_foldl _ neutral_deferDueOne _ _
  | fin k id =>
    simp only [step]
    split
    · exact neutral_refl c
    · split
      · exact neutral_refl c
      · rename_i c' hfc
        exact neutral_trans (finChanPart_neutral hfc)
          ⟨rfl, armedLe_updC _ _ _ (fun _ => ⟨rfl, fun hh => hh⟩)⟩
  | finChan k id =>
    simp only [step]
    split
    · exact neutral_refl c
    · split
      · exact neutral_refl c
      · rename_i c' hfc
        exact neutral_trans (finChanPart_neutral hfc) ⟨rfl, armedLe_refl _⟩
  | finClient k =>
    simp only [step]
    split
    · exact neutral_refl c
    · exact ⟨rfl, armedLe_updC _ _ _ (fun _ => ⟨rfl, fun hh => hh⟩)⟩
  | req k id delay now =>
    simp only [step]
    repeat' split
    all_goals first
      | exact neutral_refl c
      | (apply neutral_enqueue; exact ⟨by simp [isGD], armedLe_updC _ _ _ (fun _ => ⟨rfl, fun hh => hh⟩)⟩)
      | exact ⟨by simp [isGD], armedLe_updC _ _ _ (fun _ => ⟨rfl, fun hh => hh⟩)⟩
  | put id env =>
    simp only [step]
    split
    · exact neutral_refl c
    · apply neutral_enqueue; exact ⟨by simp [isGD], armedLe_refl _⟩
  | addClient k mt sample =>
    simp only [step]
    split
    · exact neutral_refl c
    · exact ⟨by simp [isGD], armedLe_cons _ rfl⟩
  | empty =>
    simp only [step]
    exact ⟨by simp [isGD], armedLe_map _ _ (fun _ => ⟨rfl, fun hh => hh⟩)⟩
  | _ =>
    simp only [step]
    repeat' split
    all_goals first
      | exact neutral_refl c
      | exact ⟨by simp [isGD], armedLe_refl _⟩
      | exact ⟨rfl, armedLe_removeC _ _⟩
      | exact ⟨by simp [isGD], armedLe_removeC _ _⟩
      | exact ⟨by simp [isGD], armedLe_updC _ _ _ (fun _ => ⟨rfl, fun hh => hh⟩)⟩
      | exact ⟨rfl, armedLe_updC _ _ _ (fun _ => ⟨rfl, fun hh => hh⟩)⟩

/-! the invariant -/

structure GInv (c : Chan) : Prop where
  ok  : okG c.hist = true
  lic : ∀ cl ∈ c.clients, cl.armed = true → pend cl.conn c.hist = true

theorem ginv_init (eph : Bool) (cap : Nat) : GInv { ephemeral := eph, memCap := cap } :=
  ⟨rfl, fun cl h => by cases h⟩

theorem ginv_neutral {c c' : Chan} (h : GInv c) (hn : Neutral c c') : GInv c' := by
  refine ⟨?_, ?_⟩
  · rw [← okG_filter, hn.1, okG_filter]; exact h.ok
  · intro cl' hm ha
    obtain ⟨cl, hcm, hcc, hca⟩ := hn.2 cl' hm ha
    rw [← pend_filter, hn.1, pend_filter, ← hcc]; exact h.lic cl hcm hca

theorem ginv_doDeliver {c : Chan} (h : GInv c) (cl0 : Client) (k id : Nat) (now : Int) (hp : pend k c.hist = true) :
    GInv (doDeliver c cl0 k id now).1 := by
  unfold doDeliver
  split
  · exact h
  · split
    · exact h
    · refine ⟨?_, ?_⟩
      · simp only [okG, hp, h.ok, Bool.and_self]
      · intro cl' hm ha
        obtain ⟨cl, hcm, rfl⟩ := mem_updC.1 hm
        by_cases hk : cl.conn = k
        · simp [hk] at ha
        · simp only [hk, ↓reduceIte] at ha ⊢
          have hk' : ¬ k = cl.conn := fun e => hk e.symm
          simp only [pend, hk', ↓reduceIte]
          exact h.lic cl hcm ha

theorem step_ginv (conf : Conf) {c : Chan} (h : GInv c) (op : Op) (hop : ∀ k id now, op ≠ .deliver k id now) :
    GInv (step conf c op).1 := by
  cases op with
  | deliver k id now => exact absurd rfl (hop k id now)
  | guard k =>
    simp only [step]
    split
    · exact h
    · rename_i cl hf
      split
      · refine ⟨by simpa [okG] using h.ok, ?_⟩
        intro cl' hm ha
        obtain ⟨cl1, hcm, rfl⟩ := mem_updC.1 hm
        by_cases hk : cl1.conn = k
        · simp [hk, pend]
        · simp only [hk, ↓reduceIte] at ha ⊢
          have hk' : ¬ k = cl1.conn := fun e => hk e.symm
          simp only [pend, hk', ↓reduceIte]
          exact h.lic cl1 hcm ha
      · exact ginv_neutral h ⟨rfl, armedLe_updC _ _ _ (fun _ => ⟨rfl, fun hh => by cases hh⟩)⟩
  | deliverArmed k id now =>
    simp only [step]
    split
    · exact h
    · rename_i cl hf
      split
      · exact h
      · rename_i ha
        have := findC_some hf
        apply ginv_doDeliver h
        have hl := h.lic cl this.1 (by simpa using ha)
        rw [this.2] at hl; exact hl
  | _ => exact ginv_neutral h (step_neutral conf c _ rfl)

theorem run_ginv (conf : Conf) {c : Chan} (h : GInv c) (ops : List Op)
    (hops : ∀ op ∈ ops, ∀ k id now, op ≠ .deliver k id now) : GInv (run conf c ops) := by
  induction ops generalizing c with
  | nil => exact h
  | cons op ops ih =>
    simp only [run]
    exact ih (step_ginv conf h op (hops op List.mem_cons_self)) (fun o ho => hops o (List.mem_cons_of_mem _ ho))

end Nsq.Proofs.ChanGuard
