import Nsq.Model.Aggregate
import Nsq.Proofs.AggregateSums
import Nsq.Proofs.AggregateMerge
import Nsq.Proofs.AggregateSafe
import Nsq.Proofs.AggregateNames
/-!
The channel part of `TopicStats.Add` in closed form (audit round 7, C24, leftover (a)): the merged channel list of
`/api/topics/:t` is the channel reports grouped by name — one entry per name, made of the first report with that name
(taken over as it is) and `ChannelStats.Add` of the later ones.
Also: when GetLookupdTopicProducers returns no producer (leftover (b), `?inactive=true`).
-/
namespace Nsq.Proofs.AggregateChannels
open Nsq.Model.Aggregate Nsq.Proofs.AggregateSums Nsq.Proofs.AggregateMerge Nsq.Proofs.AggregateSafe
open Nsq.Proofs.AggregateNames

/-- The aggregate a channel starts as in `TopicStats.Add`: the first reporter's own object. -/
def firstOf (a : ChanNode) : ChanAgg :=
  { node := a.node, topic := a.topic, name := a.name, cnt := a.cnt, paused := a.paused,
    nodes := [], clients := a.clients, junk := a.upNodes }

def mergePure (cs : List ChanAgg) (a : ChanNode) : List ChanAgg :=
  if cs.any (·.name == a.name) then cs.map (fun c => if c.name == a.name then addPure c a else c)
  else cs ++ [firstOf a]

theorem mergeChan_go_pure (fx : Fixes) (a : ChanNode) (cs r : List ChanAgg)
    (h : mergeChan.go fx a cs = .ok r) : r = cs.map (fun c => if c.name == a.name then addPure c a else c) := by
  induction cs generalizing r with
  | nil => simp only [mergeChan.go, Except.ok.injEq] at h; simp [← h]
  | cons c rest ih =>
    unfold mergeChan.go at h
    cases hr : mergeChan.go fx a rest with
    | error e => simp [hr] at h
    | ok r' =>
      simp only [hr] at h
      have := ih r' hr
      by_cases hn : (c.name == a.name) = true
      · simp only [hn, if_true] at h
        split at h
        · cases h
        · cases hadd : c.add fx a with
          | error e => simp [hadd] at h
          | ok c' =>
            simp only [hadd, Except.ok.injEq] at h
            have hc := add_eq_addPure fx c c' a hadd
            rw [← h, hc, this, List.map_cons, if_pos hn]
      · have hn' := Bool.eq_false_iff.2 hn
        simp only [hn', Bool.false_eq_true, if_false, Except.ok.injEq] at h
        rw [← h, this, List.map_cons, if_neg hn]

theorem mergeChan_pure (fx : Fixes) (cs cs' : List ChanAgg) (a : ChanNode)
    (h : mergeChan fx cs a = .ok cs') : cs' = mergePure cs a := by
  unfold mergeChan at h
  unfold mergePure
  split at h
  · rename_i hany
    simp only [hany, if_true]
    exact mergeChan_go_pure fx a cs cs' h
  · rename_i hany
    simp only [Except.ok.injEq] at h
    simp [hany, ← h, firstOf]

theorem mergeChans_pure (fx : Fixes) (as : List ChanNode) : ∀ (cs cs' : List ChanAgg),
    mergeChans fx as cs = .ok cs' → cs' = as.foldl mergePure cs := by
  induction as with
  | nil => intro cs cs' h; simp only [mergeChans, Except.ok.injEq] at h; simp [← h]
  | cons a rest ih =>
    intro cs cs' h
    unfold mergeChans at h
    cases hm : mergeChan fx cs a with
    | error e => simp [hm] at h
    | ok c1 =>
      simp only [hm] at h
      rw [List.foldl_cons, ← mergeChan_pure fx cs c1 a hm]
      exact ih c1 cs' h

theorem addAll_channels (fx : Fixes) (reports : List TopicNode) : ∀ (t r : TopicAgg),
    TopicAgg.addAll fx reports t = .ok r → r.channels = (chansOfTopics reports).foldl mergePure t.channels := by
  induction reports with
  | nil => intro t r h; simp only [TopicAgg.addAll, Except.ok.injEq] at h; simp [← h, chansOfTopics]
  | cons a rest ih =>
    intro t r h
    unfold TopicAgg.addAll at h
    cases hadd : t.add fx a with
    | error e => simp [hadd] at h
    | ok t' =>
      simp only [hadd] at h
      have h1 := ih t' r h
      unfold TopicAgg.add at hadd
      cases hm : mergeChans fx a.channels t.channels with
      | error e => simp [hm] at hadd
      | ok cs =>
        simp only [hm] at hadd
        split at hadd
        · cases hadd
        · simp only [Except.ok.injEq] at hadd
          have hcs := mergeChans_pure fx a.channels t.channels cs hm
          rw [h1, ← hadd]
          simp [chansOfTopics, List.foldl_append, hcs]

/-- The aggregate of name `n` after the channel reports `as`. -/
def aggOf (n : String) (as : List ChanNode) : Option ChanAgg :=
  match as.filter (fun a => a.name == n) with
  | [] => none
  | a :: rest => some (rest.foldl addPure (firstOf a))

structure Inv (cs : List ChanAgg) (as : List ChanNode) : Prop where
  nodup : (cs.map (·.name)).Nodup
  agg : ∀ c ∈ cs, aggOf c.name as = some c
  cover : ∀ a ∈ as, a.name ∈ cs.map (·.name)

theorem beq_symm' (x y : String) (h : (x == y) = true) : (y == x) = true := by
  simp only [beq_iff_eq] at h ⊢; exact h.symm

theorem addPure_name (c : ChanAgg) (a : ChanNode) : (addPure c a).name = c.name := rfl

theorem inv_step (cs : List ChanAgg) (as : List ChanNode) (a : ChanNode) (h : Inv cs as) :
    Inv (mergePure cs a) (as ++ [a]) := by
  unfold mergePure
  by_cases hany : cs.any (·.name == a.name) = true
  · simp only [hany, if_true]
    have hnames : (cs.map (fun c => if c.name == a.name then addPure c a else c)).map (·.name) = cs.map (·.name) := by
      simp only [List.map_map]
      apply List.map_congr_left
      intro c _
      simp only [Function.comp]
      split <;> rfl
    refine ⟨by rw [hnames]; exact h.nodup, ?_, ?_⟩
    · intro c' hc'
      obtain ⟨c, hc, rfl⟩ := List.mem_map.1 hc'
      have hagg := h.agg c hc
      by_cases hn : (c.name == a.name) = true
      · simp only [hn, if_true, addPure_name]
        unfold aggOf at hagg ⊢
        have hn' : (a.name == c.name) = true := beq_symm' _ _ hn
        simp only [List.filter_append, List.filter_cons, hn', if_true, List.filter_nil]
        cases hf : as.filter (fun a => a.name == c.name) with
        | nil => simp [hf] at hagg
        | cons a0 rest =>
          simp only [hf, Option.some.injEq] at hagg
          simp [List.foldl_append, hagg]
      · have hn0 := Bool.eq_false_iff.2 hn
        simp only [hn0, Bool.false_eq_true, if_false]
        unfold aggOf at hagg ⊢
        have hn' : (a.name == c.name) = false := by
          apply Bool.eq_false_iff.2
          intro hx
          exact hn (beq_symm' _ _ hx)
        simpa [List.filter_append, List.filter_cons, hn'] using hagg
    · intro a' ha'
      rw [hnames]
      rcases List.mem_append.1 ha' with h1 | h1
      · exact h.cover a' h1
      · simp only [List.mem_singleton] at h1
        subst h1
        simp only [List.any_eq_true, beq_iff_eq] at hany
        obtain ⟨c, hc, hcn⟩ := hany
        exact List.mem_map.2 ⟨c, hc, hcn⟩
  · have hany' := Bool.eq_false_iff.2 hany
    simp only [hany', Bool.false_eq_true, if_false]
    have hnot : a.name ∉ cs.map (·.name) := by
      intro hmem
      obtain ⟨c, hc, hcn⟩ := List.mem_map.1 hmem
      simp only [List.any_eq_false, beq_iff_eq] at hany'
      exact hany' c hc hcn
    refine ⟨?_, ?_, ?_⟩
    · simp only [List.map_append, List.map_cons, List.map_nil]
      refine List.nodup_append.2 ⟨h.nodup, by simp, ?_⟩
      intro x hx y hy
      simp only [List.mem_singleton] at hy
      subst hy
      intro hxy
      subst hxy
      exact hnot hx
    · intro c hc
      rcases List.mem_append.1 hc with h1 | h1
      · have hagg := h.agg c h1
        have hne : (a.name == c.name) = false := by
          apply Bool.eq_false_iff.2
          intro hx
          simp only [beq_iff_eq] at hx
          exact hnot (hx ▸ List.mem_map.2 ⟨c, h1, rfl⟩)
        unfold aggOf at hagg ⊢
        simpa [List.filter_append, List.filter_cons, hne] using hagg
      · simp only [List.mem_singleton] at h1
        subst h1
        have hnone : as.filter (fun x => x.name == a.name) = [] := by
          rw [List.filter_eq_nil_iff]
          intro x hx hxn
          simp only [beq_iff_eq] at hxn
          exact hnot (hxn ▸ h.cover x hx)
        unfold aggOf
        simp [firstOf, List.filter_append, hnone]
    · intro a' ha'
      simp only [List.map_append, List.map_cons, List.map_nil, List.mem_append, List.mem_singleton]
      rcases List.mem_append.1 ha' with h1 | h1
      · exact Or.inl (h.cover a' h1)
      · simp only [List.mem_singleton] at h1
        subst h1
        exact Or.inr (by simp [firstOf])

theorem inv_fold (as : List ChanNode) : ∀ (cs : List ChanAgg) (done : List ChanNode), Inv cs done →
    Inv (as.foldl mergePure cs) (done ++ as) := by
  induction as with
  | nil => intro cs done h; simpa using h
  | cons a rest ih =>
    intro cs done h
    have := ih _ _ (inv_step cs done a h)
    simpa [List.append_assoc] using this

theorem zero_add (x : Counters) : ({} : Counters).add x = x := by
  cases x; simp [Counters.add]

/-- **The merged channel list in closed form.** -/
theorem merged_spec (as : List ChanNode) (cs : List ChanAgg) (h : cs = as.foldl mergePure []) :
    (cs.map (·.name)).Nodup ∧
    (∀ n, n ∈ cs.map (·.name) ↔ ∃ a ∈ as, a.name = n) ∧
    ∀ c ∈ cs, ∃ a0 rest, as.filter (fun a => a.name == c.name) = a0 :: rest ∧
      c.cnt = sumFrom {} ((a0 :: rest).map (·.cnt)) ∧ c.nodes = rest ∧
      c.clients = (a0 :: rest).flatMap (·.clients) ∧ c.paused = (a0 :: rest).any (·.paused) := by
  have hinv : Inv cs ([] ++ as) := by
    rw [h]
    exact inv_fold as [] [] ⟨by simp, by simp, by simp⟩
  simp only [List.nil_append] at hinv
  refine ⟨hinv.nodup, fun n => ⟨fun hn => ?_, fun ⟨a, ha, han⟩ => han ▸ hinv.cover a ha⟩, fun c hc => ?_⟩
  · obtain ⟨c, hc, rfl⟩ := List.mem_map.1 hn
    have := hinv.agg c hc
    unfold aggOf at this
    cases hf : as.filter (fun a => a.name == c.name) with
    | nil => simp [hf] at this
    | cons a0 rest =>
      have hmem : a0 ∈ as.filter (fun a => a.name == c.name) := by rw [hf]; simp
      simp only [List.mem_filter, beq_iff_eq] at hmem
      exact ⟨a0, hmem.1, hmem.2⟩
  · have := hinv.agg c hc
    unfold aggOf at this
    cases hf : as.filter (fun a => a.name == c.name) with
    | nil => simp [hf] at this
    | cons a0 rest =>
      simp only [hf, Option.some.injEq] at this
      obtain ⟨h1, h2, h3, h4, _, _⟩ := fold_addPure_spec rest (firstOf a0)
      refine ⟨a0, rest, rfl, ?_, ?_, ?_, ?_⟩
      · rw [← this, h1]
        simp [sumFrom, firstOf, zero_add]
      · rw [← this, h3]; simp [firstOf]
      · rw [← this, h2]; simp [firstOf]
      · rw [← this, h4]; simp [firstOf]

/-! ### When GetLookupdTopicProducers returns no producer -/

theorem mergeTopicProducers_nil (dec : List (Option Producer)) : ∀ (acc acc' : List Producer),
    mergeTopicProducers Fixes.all dec acc = .ok acc' → (acc' = [] ↔ acc = [] ∧ ∀ p ∈ dec, p = none) := by
  induction dec with
  | nil => intro acc acc' h; simp only [mergeTopicProducers, Except.ok.injEq] at h; simp [← h]
  | cons p rest ih =>
    intro acc acc' h
    cases p with
    | none =>
      simp only [mergeTopicProducers, all_nilElems, if_true] at h
      rw [ih acc acc' h]
      simp
    | some p =>
      unfold mergeTopicProducers at h
      split at h
      · rename_i hany
        rw [ih acc acc' h]
        have : acc ≠ [] := by intro he; simp [he] at hany
        simp [this]
      · rw [ih _ acc' h]
        simp

theorem unmarshalProducers_none (a : List (Option ProducerJSON)) : ∀ (dec : List (Option Producer)),
    unmarshalProducers Fixes.all a = .ok dec → ((∀ p ∈ dec, p = none) ↔ ∀ p ∈ a, p = none) := by
  induction a with
  | nil => intro dec h; simp only [unmarshalProducers, Except.ok.injEq] at h; simp [← h]
  | cons p rest ih =>
    intro dec h
    cases p with
    | none =>
      unfold unmarshalProducers at h
      cases hr : unmarshalProducers Fixes.all rest with
      | error e => simp [hr] at h
      | ok r =>
        simp only [hr, Except.ok.injEq] at h
        have := ih r hr
        simp [← h, this]
    | some p =>
      unfold unmarshalProducers at h
      cases hq : unmarshalProducer Fixes.all p with
      | error e => simp [hq] at h
      | ok q =>
        simp only [hq] at h
        cases hr : unmarshalProducers Fixes.all rest with
        | error e => simp [hr] at h
        | ok r =>
          simp only [hr, Except.ok.injEq] at h
          simp [← h]

/-- Some responding nsqlookupd lists a (non-null) producer. -/
def anyProducer (ls : List Lookupd) : Bool :=
  ls.any (fun l => match l.lookup with
    | some a => a.any (·.isSome)
    | none => false)

theorem lookupdTopicProducersGo_nil (ls : List Lookupd) : ∀ (acc ps : List Producer) (f f' : Nat),
    lookupdTopicProducersGo Fixes.all ls acc f = .ok (ps, f') → (ps = [] ↔ acc = [] ∧ anyProducer ls = false) := by
  induction ls with
  | nil =>
    intro acc ps f f' h
    simp only [lookupdTopicProducersGo, Except.ok.injEq, Prod.mk.injEq] at h
    simp [← h.1, anyProducer]
  | cons l rest ih =>
    intro acc ps f f' h
    unfold lookupdTopicProducersGo at h
    cases hl : l.lookup with
    | none =>
      simp only [hl] at h
      rw [ih acc ps (f + 1) f' h]
      simp [anyProducer, hl]
    | some a =>
      simp only [hl] at h
      cases hd : unmarshalProducers Fixes.all a with
      | error e => simp [hd] at h
      | ok dec =>
        simp only [hd] at h
        cases hm : mergeTopicProducers Fixes.all dec acc with
        | error e => simp [hm] at h
        | ok acc' =>
          simp only [hm] at h
          rw [ih acc' ps f f' h, mergeTopicProducers_nil dec acc acc' hm, unmarshalProducers_none a dec hd]
          have : (a.any (·.isSome) = false) ↔ ∀ p ∈ a, p = none := by
            simp only [List.any_eq_false]
            constructor
            · intro hx p hp
              cases p with
              | none => rfl
              | some q => exact absurd rfl (hx (some q) hp)
            · intro hx p hp; simp [hx p hp]
          simp only [anyProducer, List.any_cons, hl, Bool.or_eq_false_iff, this]
          constructor
          · rintro ⟨⟨h1, h2⟩, h3⟩; exact ⟨h1, h2, h3⟩
          · rintro ⟨h1, h2, h3⟩; exact ⟨⟨h1, h2⟩, h3⟩

theorem lookupdTopicProducers_nil (ls : List Lookupd) (ps : List Producer) (f : Nat)
    (h : lookupdTopicProducers Fixes.all ls = .ok (.got ps f)) : ps = [] ↔ anyProducer ls = false := by
  unfold lookupdTopicProducers at h
  cases hgo : lookupdTopicProducersGo Fixes.all ls [] 0 with
  | error e => simp [hgo] at h
  | ok r =>
    obtain ⟨ps', f'⟩ := r
    simp only [hgo] at h
    split at h
    · cases h
    · simp only [Except.ok.injEq, Fetched.got.injEq] at h
      rw [← h.1, lookupdTopicProducersGo_nil ls [] ps' 0 f' hgo]
      simp

/-! ### `?inactive=true`: what one pass of the loop and the whole loop return (`Fixes.all`) -/

theorem unionNames_spec (answers : List (Option (List String))) (cs : List String) (f : Nat)
    (h : unionNames answers = .got cs f) :
    cs.Pairwise (· < ·) ∧ ∀ c, c ∈ cs ↔ ∃ a ∈ answers, ∃ names, a = some names ∧ c ∈ names := by
  unfold unionNames at h
  split at h
  · cases h
  · simp only [Fetched.got.injEq] at h
    rw [← h.1]
    refine ⟨names_sorted _, fun c => ?_⟩
    rw [names_mem]
    simp only [List.mem_flatten, List.mem_filterMap, id_eq]
    constructor
    · rintro ⟨names, ⟨a, ha, hs⟩, hc⟩; exact ⟨a, ha, names, hs, hc⟩
    · rintro ⟨a, ha, names, hs, hc⟩; exact ⟨names, ⟨a, ha, hs⟩, hc⟩

theorem inactiveStep_spec (w : World) (t : String) (r : Option (List String)) (wn : Bool)
    (h : inactiveStep Fixes.all w t = .ok (some (r, wn))) :
    r.isSome = (!anyProducer (lookupdsFor w t)) ∧
    ∀ cs, r = some cs → ∃ f2, unionNames (channelAnswers w t) = .got cs f2 := by
  unfold inactiveStep at h
  obtain ⟨s1, hs1⟩ := lookupdTopicProducers_ok (lookupdsFor w t)
  simp only [hs1] at h
  cases s1 with
  | allFailed => simp [Fixes.all] at h
  | got ps f1 =>
    have hnil := lookupdTopicProducers_nil _ ps f1 hs1
    simp only [] at h
    by_cases hps : ps = []
    · have hany := hnil.1 hps
      subst hps
      simp only [List.isEmpty_nil, Bool.not_true, Bool.false_eq_true, if_false] at h
      cases hu : unionNames (channelAnswers w t) with
      | allFailed => simp [hu, Fixes.all] at h
      | got cs f2 =>
        simp only [hu, Except.ok.injEq, Option.some.injEq, Prod.mk.injEq] at h
        refine ⟨by rw [← h.1, hany]; rfl, fun cs' hcs' => ⟨f2, ?_⟩⟩
        rw [← h.1] at hcs'
        cases hcs'
        rfl
    · have hany : anyProducer (lookupdsFor w t) = true := by
        cases hb : anyProducer (lookupdsFor w t) with
        | true => rfl
        | false => exact absurd (hnil.2 hb) hps
      have hne : (!ps.isEmpty) = true := by
        cases ps with
        | nil => exact absurd rfl hps
        | cons _ _ => rfl
      simp only [hne, if_true, Except.ok.injEq, Option.some.injEq, Prod.mk.injEq] at h
      refine ⟨by rw [← h.1, hany]; rfl, fun cs hcs => ?_⟩
      rw [← h.1] at hcs
      cases hcs

theorem inactiveGo_spec (w : World) (ts : List String) : ∀ (m : List (String × List String)) (wn : Bool),
    inactiveGo Fixes.all w ts = .ok (some (m, wn)) →
    m.map (·.1) = ts.filter (fun t => !anyProducer (lookupdsFor w t)) ∧
    ∀ t cs, (t, cs) ∈ m → ∃ f2, unionNames (channelAnswers w t) = .got cs f2 := by
  induction ts with
  | nil =>
    intro m wn h
    simp only [inactiveGo, Except.ok.injEq, Option.some.injEq, Prod.mk.injEq] at h
    simp [← h.1]
  | cons t rest ih =>
    intro m wn h
    unfold inactiveGo at h
    cases hs : inactiveStep Fixes.all w t with
    | error e => simp [hs] at h
    | ok x =>
      cases x with
      | none => simp [hs] at h
      | some y =>
        obtain ⟨r, wn0⟩ := y
        simp only [hs] at h
        cases hg : inactiveGo Fixes.all w rest with
        | error e => simp [hg] at h
        | ok z =>
          cases z with
          | none => simp [hg] at h
          | some u =>
            obtain ⟨acc, wn'⟩ := u
            simp only [hg, Except.ok.injEq, Option.some.injEq, Prod.mk.injEq] at h
            obtain ⟨i1, i2⟩ := ih acc wn' hg
            obtain ⟨s1, s2⟩ := inactiveStep_spec w t r wn0 hs
            rw [← h.1]
            cases r with
            | none =>
              have hp : (!anyProducer (lookupdsFor w t)) = false := by rw [← s1]; rfl
              simp only [List.nil_append, List.filter_cons, hp, Bool.false_eq_true, if_false]
              exact ⟨i1, i2⟩
            | some cs0 =>
              have hp : (!anyProducer (lookupdsFor w t)) = true := by rw [← s1]; rfl
              simp only [List.singleton_append, List.map_cons, List.filter_cons, hp, if_true, i1, List.mem_cons]
              refine ⟨trivial, fun t' cs' hm => ?_⟩
              rcases hm with hm | hm
              · simp only [Prod.mk.injEq] at hm
                obtain ⟨rfl, rfl⟩ := hm
                exact s2 _ rfl
              · exact i2 t' cs' hm

end Nsq.Proofs.AggregateChannels
