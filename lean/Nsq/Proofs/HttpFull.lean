import Nsq.Model.HttpFull
import Nsq.Proofs.HttpApi
/-! Helper lemmas for the whole-table HTTP model (`Nsq.Model.HttpFull`). -/
namespace Nsq.Proofs.HttpFull
open Nsq.Model.HttpFull Nsq.Model.HttpApi Nsq.Model.ProtoV2 Nsq.Model.Names Nsq.Model.Base10 Nsq.Model
open Nsq.Proofs.HttpApi

/-- The handlers `HttpFull` takes over from `HttpApi` unchanged. -/
def IsBase (h : Handler) : Prop :=
  h = .pub ∨ h = .mpub ∨ h = .createTopic ∨ h = .deleteTopic ∨ h = .emptyTopic ∨ h = .pauseTopic ∨
  h = .createChannel ∨ h = .deleteChannel ∨ h = .emptyChannel ∨ h = .pauseChannel

theorem codeTail_mem (c : Code) : codeTail c ∈ errorMessages := by
  cases c <;> decide

theorem topicFromQuery_msg (q : Bytes) (e : String) (h : topicFromQuery q = .error e) : e ∈ errorMessages := by
  unfold topicFromQuery at h
  repeat' split at h
  all_goals first
    | (simp at h; done)
    | (simp at h; subst h; decide)

theorem topicChannelArgs_msg (b : Broker) (rq : Request) (e : Status × String)
    (h : topicChannelArgs b rq = .error e) : e.2 ∈ errorMessages ∧ (e.1 = .s400 ∨ e.1 = .s404) := by
  unfold topicChannelArgs at h
  repeat' split at h
  all_goals first
    | (simp at h; done)
    | (simp at h; subst h; exact ⟨by decide, by simp⟩)

theorem textLoop_msg (m : Int) (over : Bool) (blocks : List Bytes) (e : String)
    (h : textLoop m over blocks = .error e) : e ∈ errorMessages := by
  induction blocks with
  | nil => simp [textLoop] at h
  | cons blk rest ih =>
    unfold textLoop at h
    repeat' split at h
    all_goals first
      | (simp at h; subst h; decide)
      | (exact ih h)
      | (simp at h; done)
      | (simp at h; subst h; exact ih ‹_›)

theorem mpubText_msg (hc : HConf) (body : Bytes) (e : String) (h : mpubText hc body = .error e) :
    e ∈ errorMessages := textLoop_msg _ _ _ e h

/-- Shape of every answer of a base handler: 200 with `OK` / nothing, or an error status with one of
the catalogued messages. -/
def BaseRes (r : Response) : Prop :=
  (r.status = .s200 ∧ (r.msg = "OK" ∨ r.msg = "")) ∨
  ((r.status = .s400 ∨ r.status = .s404 ∨ r.status = .s413 ∨ r.status = .s500) ∧ r.msg ∈ errorMessages)

theorem baseRes_err (s : Status) (m : String) (b : Broker)
    (hs : s = .s400 ∨ s = .s404 ∨ s = .s413 ∨ s = .s500) (hm : m ∈ errorMessages) : BaseRes (resp s m b).1 :=
  Or.inr ⟨hs, hm⟩

theorem baseRes_ok (m : String) (b : Broker) (hm : m = "OK" ∨ m = "") : BaseRes (resp .s200 m b).1 :=
  Or.inl ⟨rfl, hm⟩

theorem doPUB_base (hc : HConf) (b : Broker) (rq : Request) : BaseRes (doPUB hc b rq).1 := by
  unfold doPUB
  split
  · exact baseRes_err _ _ _ (by simp) (by decide)
  · split
    · exact baseRes_err _ _ _ (by simp) (by decide)
    · split
      · exact baseRes_err _ _ _ (by simp) (by decide)
      · split
        · exact baseRes_err _ _ _ (by simp) (topicFromQuery_msg _ _ ‹_›)
        · split
          · exact baseRes_err _ _ _ (by simp) (by decide)
          · exact baseRes_ok _ _ (Or.inl rfl)

theorem doMPUB_base (hc : HConf) (b : Broker) (rq : Request) : BaseRes (doMPUB hc b rq).1 := by
  unfold doMPUB
  split
  · exact baseRes_err _ _ _ (by simp) (by decide)
  · split
    · exact baseRes_err _ _ _ (by simp) (topicFromQuery_msg _ _ ‹_›)
    · split
      · split
        · exact baseRes_err _ _ _ (by simp) (codeTail_mem _)
        · exact baseRes_err _ _ _ (by simp) (by decide)
        · exact baseRes_ok _ _ (Or.inl rfl)
      · split
        · exact baseRes_err _ _ _ (by simp) (mpubText_msg _ _ _ ‹_›)
        · exact baseRes_ok _ _ (Or.inl rfl)

theorem admin_base (hc : HConf) (healthy : Bool) (b : Broker) (rq : Request) (h : Handler)
    (hadmin : h = .createTopic ∨ h = .deleteTopic ∨ h = .emptyTopic ∨ h = .pauseTopic ∨ h = .createChannel ∨
      h = .deleteChannel ∨ h = .emptyChannel ∨ h = .pauseChannel) :
    BaseRes (runHandler hc healthy b rq h).1 := by
  rcases hadmin with rfl | rfl | rfl | rfl | rfl | rfl | rfl | rfl
  all_goals simp only [runHandler]
  · unfold doCreateTopic
    repeat' split
    all_goals first
      | (exact baseRes_err _ _ _ (by simp) (topicFromQuery_msg _ _ ‹_›))
      | (exact baseRes_ok _ _ (Or.inr rfl))
  · unfold doDeleteTopic
    repeat' split
    all_goals first
      | (exact baseRes_err _ _ _ (by simp) (by decide))
      | (exact baseRes_ok _ _ (Or.inr rfl))
  · unfold doEmptyTopic
    repeat' split
    all_goals first
      | (exact baseRes_err _ _ _ (by simp) (by decide))
      | (exact baseRes_ok _ _ (Or.inr rfl))
  · unfold doPauseTopic
    repeat' split
    all_goals first
      | (exact baseRes_err _ _ _ (by simp) (by decide))
      | (exact baseRes_ok _ _ (Or.inr rfl))
  · unfold doCreateChannel
    repeat' split
    all_goals first
      | (exact baseRes_err _ _ _ ((topicChannelArgs_msg _ _ _ ‹_›).2.elim (fun h => Or.inl h) (fun h => Or.inr (Or.inl h))) (topicChannelArgs_msg _ _ _ ‹_›).1)
      | (exact baseRes_ok _ _ (Or.inr rfl))
  · unfold doDeleteChannel
    repeat' split
    all_goals first
      | (exact baseRes_err _ _ _ ((topicChannelArgs_msg _ _ _ ‹_›).2.elim (fun h => Or.inl h) (fun h => Or.inr (Or.inl h))) (topicChannelArgs_msg _ _ _ ‹_›).1)
      | (exact baseRes_err _ _ _ (by simp) (by decide))
      | (exact baseRes_ok _ _ (Or.inr rfl))
  · unfold doEmptyChannel
    repeat' split
    all_goals first
      | (exact baseRes_err _ _ _ ((topicChannelArgs_msg _ _ _ ‹_›).2.elim (fun h => Or.inl h) (fun h => Or.inr (Or.inl h))) (topicChannelArgs_msg _ _ _ ‹_›).1)
      | (exact baseRes_err _ _ _ (by simp) (by decide))
      | (exact baseRes_ok _ _ (Or.inr rfl))
  · unfold doPauseChannel
    repeat' split
    all_goals first
      | (exact baseRes_err _ _ _ ((topicChannelArgs_msg _ _ _ ‹_›).2.elim (fun h => Or.inl h) (fun h => Or.inr (Or.inl h))) (topicChannelArgs_msg _ _ _ ‹_›).1)
      | (exact baseRes_err _ _ _ (by simp) (by decide))
      | (exact baseRes_ok _ _ (Or.inr rfl))

theorem baseHandler_isBase (name : String) (h : Handler) (hn : baseHandler name = some h) : IsBase h := by
  unfold baseHandler at hn
  split at hn <;> simp at hn <;> subst hn <;> simp [IsBase]

theorem runHandler_base (hc : HConf) (healthy : Bool) (b : Broker) (rq : Request) (h : Handler) (hb : IsBase h) :
    BaseRes (runHandler hc healthy b rq h).1 := by
  rcases hb with rfl | rfl | hb
  · exact doPUB_base hc b rq
  · exact doMPUB_base hc b rq
  · exact admin_base hc healthy b rq h hb

/-- `Documented` for the base handlers (from the per-handler lemmas of `Proofs.HttpApi`). -/
theorem runHandler_doc (hc : HConf) (healthy : Bool) (b : Broker) (rq : Request) (h : Handler) (hb : IsBase h) :
    Documented hc healthy b rq (runHandler hc healthy b rq h).1 := by
  rcases hb with rfl | rfl | rfl | rfl | rfl | rfl | rfl | rfl | rfl | rfl
  · exact doPUB_doc hc healthy b rq
  · exact doMPUB_doc hc healthy b rq
  · exact doCreateTopic_doc hc healthy b rq
  · exact doDeleteTopic_doc hc healthy b rq
  · exact doEmptyTopic_doc hc healthy b rq
  · exact doPauseTopic_doc hc healthy b rq
  · exact doCreateChannel_doc hc healthy b rq
  · exact doDeleteChannel_doc hc healthy b rq
  · exact doEmptyChannel_doc hc healthy b rq
  · exact doPauseChannel_doc hc healthy b rq

/-! ## Routing -/

theorem routeFull_handler (m p : Bytes) (name : String) (d : Deco) (h : routeFull m p = .handler name d) :
    ∃ me pat, (me, pat, name, d) ∈ fullTable ∧ ascii me = m ∧ pathMatches pat p = true := by
  unfold routeFull at h
  split at h
  · rename_i r hr
    have hmem := List.mem_of_find?_eq_some hr
    have hp := List.find?_some hr
    simp only [Bool.and_eq_true, beq_iff_eq] at hp
    simp only [FRouted.handler.injEq] at h
    refine ⟨r.1, r.2.1, ?_, hp.1, hp.2⟩
    rw [← h.1, ← h.2]
    exact hmem
  · repeat' split at h
    all_goals cases h

/-! ## Documented causes over the whole table -/

/-- 400 causes of the handlers shared with `HttpApi` (its `BadArgs` without the catch-all for
`/config`). -/
def BadArgsCore (hc : HConf) (rq : Request) : Prop :=
  parseQuery rq.rawQuery = none ∨
  (∃ kv, parseQuery rq.rawQuery = some kv ∧
    (qget kv kTopic = none ∨ (∃ t, qget kv kTopic = some t ∧ isValidName t = false) ∨
     qget kv kChannel = none ∨ (∃ c, qget kv kChannel = some c ∧ isValidName c = false) ∨
     deferArg hc kv = none)) ∨
  (pubData hc rq).isEmpty

/-- 400 of `/config/:opt`: the value does not parse, the option cannot be set, or it does not exist. -/
def ConfigBad (hc : HConf) (rq : Request) : Prop :=
  ∃ opt, configOpt rq.path = some opt ∧
    ((rq.method = ascii "PUT" ∧ opt = kLookupdAddrs ∧ isStrArrayJson (pubData hc rq) = false) ∨
     (rq.method = ascii "PUT" ∧ opt = kLogLevel ∧ parseLogLevel (pubData hc rq) = none) ∨
     (rq.method = ascii "PUT" ∧ opt ≠ kLookupdAddrs ∧ opt ≠ kLogLevel) ∨
     (rq.method ≠ ascii "PUT" ∧ hc.cfgNames.contains opt = false))

/-- 400 of `/debug/setblockrate`: no `rate`, or not an integer. -/
def RateBad (rq : Request) : Prop :=
  ∀ v, qget (lenientPairs (splitOn 38 rq.rawQuery)) (ascii "rate") = some v → parseInt64 v = none

def BadArgsFull (hc : HConf) (rq : Request) : Prop := BadArgsCore hc rq ∨ ConfigBad hc rq ∨ RateBad rq

structure DocFull (hc : HConf) (healthy : Bool) (b : Broker) (rq : Request) (w : Wire) : Prop where
  s413 : w.status = .s413 → Oversize hc rq
  s400 : w.status = .s400 → BadArgsFull hc rq
  s404 : w.status = .s404 → UnknownObject b rq
  s500 : w.status = .s500 → healthy = false ∧ rq.path = ascii "/ping"
  s403 : w.status = .s403 → hc.tlsRefuse = true
  s405 : w.status = .s405 → routeFull rq.method rq.path = .methodNotAllowed
  ext : w.status = .external → ∃ name, routeFull rq.method rq.path = .handler name .raw

theorem renderV1_ofResponse_status (r : Response) : (renderV1 (ofResponse r)).status = r.status := by
  unfold ofResponse
  split
  · split <;> simp [renderV1, *]
  · split <;> simp [renderV1, *]

theorem base_docfull (hc : HConf) (healthy : Bool) (b : Broker) (rq : Request) (h : Handler) (hb : IsBase h)
    (hpath : configOpt rq.path = none) :
    DocFull hc healthy b rq (renderV1 (ofResponse (runHandler hc healthy b rq h).1)) := by
  have hd := runHandler_doc hc healthy b rq h hb
  have hr := runHandler_base hc healthy b rq h hb
  refine ⟨?_, ?_, ?_, ?_, ?_, ?_, ?_⟩
  all_goals rw [renderV1_ofResponse_status]
  · exact hd.s413
  · intro hs
    rcases hd.s400 hs with h1 | h2 | h3 | ⟨opt, hopt⟩
    · exact Or.inl (Or.inl h1)
    · exact Or.inl (Or.inr (Or.inl h2))
    · exact Or.inl (Or.inr (Or.inr h3))
    · rw [hpath] at hopt; cases hopt
  · exact hd.s404
  · exact hd.s500
  · exact hd.s403
  · intro hs
    rcases hr with ⟨h200, _⟩ | ⟨h4, _⟩
    · rw [h200] at hs; cases hs
    · rcases h4 with h | h | h | h <;> (rw [h] at hs; cases hs)
  · intro hs
    rcases hr with ⟨h200, _⟩ | ⟨h4, _⟩
    · rw [h200] at hs; cases hs
    · rcases h4 with h | h | h | h <;> (rw [h] at hs; cases hs)

theorem docfull_of_200 (hc : HConf) (healthy : Bool) (b : Broker) (rq : Request) (w : Wire) (h : w.status = .s200) :
    DocFull hc healthy b rq w :=
  ⟨by simp [h], by simp [h], by simp [h], by simp [h], by simp [h], by simp [h], by simp [h]⟩

theorem stats_docfull (hc : HConf) (healthy : Bool) (b : Broker) (rq : Request) :
    DocFull hc healthy b rq (renderV1 (doStatsFull b rq)) := by
  unfold doStatsFull
  split
  · exact ⟨by simp [renderV1], fun _ => Or.inl (Or.inl ‹_›), by simp [renderV1], by simp [renderV1],
      by simp [renderV1], by simp [renderV1], by simp [renderV1]⟩
  · split
    · exact docfull_of_200 _ _ _ _ _ rfl
    · exact docfull_of_200 _ _ _ _ _ rfl

theorem config_docfull (hc : HConf) (healthy : Bool) (b : Broker) (rq : Request) :
    DocFull hc healthy b rq (renderV1 (doConfigFull hc rq)) := by
  unfold doConfigFull
  split
  · exact ⟨by simp [renderV1], by simp [renderV1], by simp [renderV1], by simp [renderV1],
      by simp [renderV1], by simp [renderV1], by simp [renderV1]⟩
  · rename_i opt hopt
    split
    · rename_i hput
      split
      · rename_i hsz
        refine ⟨fun _ => ?_, by simp [renderV1], by simp [renderV1], by simp [renderV1], by simp [renderV1],
          by simp [renderV1], by simp [renderV1]⟩
        simp only [Bool.or_eq_true, decide_eq_true_eq] at hsz
        rcases hsz with h | h
        · exact Or.inr (Or.inr (Or.inl h))
        · exact Or.inr (Or.inr (Or.inr (Or.inr (Or.inr ⟨hput, h⟩))))
      · split
        · rename_i hl
          split
          · exact docfull_of_200 _ _ _ _ _ rfl
          · rename_i hj
            exact ⟨by simp [renderV1], fun _ => Or.inr (Or.inl ⟨opt, hopt, Or.inl ⟨hput, hl, by simpa [pubData] using hj⟩⟩),
              by simp [renderV1], by simp [renderV1], by simp [renderV1], by simp [renderV1], by simp [renderV1]⟩
        · rename_i hnl
          split
          · rename_i hlv
            split
            · exact docfull_of_200 _ _ _ _ _ rfl
            · rename_i hp
              exact ⟨by simp [renderV1], fun _ => Or.inr (Or.inl ⟨opt, hopt, Or.inr (Or.inl ⟨hput, hlv, by simpa [pubData] using hp⟩)⟩),
                by simp [renderV1], by simp [renderV1], by simp [renderV1], by simp [renderV1], by simp [renderV1]⟩
          · rename_i hnv
            exact ⟨by simp [renderV1], fun _ => Or.inr (Or.inl ⟨opt, hopt, Or.inr (Or.inr (Or.inl ⟨hput, hnl, hnv⟩))⟩),
              by simp [renderV1], by simp [renderV1], by simp [renderV1], by simp [renderV1], by simp [renderV1]⟩
    · rename_i hget
      split
      · split
        · exact docfull_of_200 _ _ _ _ _ rfl
        · exact docfull_of_200 _ _ _ _ _ rfl
      · rename_i hc'
        exact ⟨by simp [renderV1], fun _ => Or.inr (Or.inl ⟨opt, hopt, Or.inr (Or.inr (Or.inr ⟨hget, by simpa using hc'⟩))⟩),
          by simp [renderV1], by simp [renderV1], by simp [renderV1], by simp [renderV1], by simp [renderV1]⟩

theorem rate_docfull (hc : HConf) (healthy : Bool) (b : Broker) (rq : Request) :
    DocFull hc healthy b rq (renderPlain (setBlockRate rq)) := by
  unfold setBlockRate
  split
  · rename_i hq
    exact ⟨by simp [renderPlain], fun _ => Or.inr (Or.inr (fun v hv => by rw [hq] at hv; cases hv)),
      by simp [renderPlain], by simp [renderPlain], by simp [renderPlain], by simp [renderPlain], by simp [renderPlain]⟩
  · rename_i v hq
    split
    · exact docfull_of_200 _ _ _ _ _ rfl
    · rename_i hp
      exact ⟨by simp [renderPlain], fun _ => Or.inr (Or.inr (fun v' hv => by
          rw [hq] at hv; cases hv; simpa using hp)),
        by simp [renderPlain], by simp [renderPlain], by simp [renderPlain], by simp [renderPlain], by simp [renderPlain]⟩

theorem pathMatches_fixed (pat : String) (p : Bytes) (hne : pat ≠ "/config/:opt") (h : pathMatches pat p = true) :
    p = ascii pat := by
  unfold pathMatches at h
  simp only [hne, if_false, beq_iff_eq] at h
  exact h.symm

/-- `httpServer.ServeHTTP`, every registered route: each status has its documented cause. -/
theorem serve_doc (hc : HConf) (healthy : Bool) (b : Broker) (rq : Request) :
    DocFull hc healthy b rq (HttpFull.serve hc healthy b rq).1 := by
  unfold HttpFull.serve
  split
  · exact ⟨by simp, by simp, by simp, by simp, fun _ => ‹_›, by simp, by simp⟩
  · split
    · rename_i name d hr
      obtain ⟨me, pat, hmem, hme, hp⟩ := routeFull_handler _ _ _ _ hr
      simp only [fullTable, List.mem_cons, Prod.mk.injEq, List.not_mem_nil, or_false] at hmem
      rcases hmem with ⟨rfl, rfl, rfl, rfl⟩ | ⟨rfl, rfl, rfl, rfl⟩ | ⟨rfl, rfl, rfl, rfl⟩ | ⟨rfl, rfl, rfl, rfl⟩ |
        ⟨rfl, rfl, rfl, rfl⟩ | ⟨rfl, rfl, rfl, rfl⟩ | ⟨rfl, rfl, rfl, rfl⟩ | ⟨rfl, rfl, rfl, rfl⟩ |
        ⟨rfl, rfl, rfl, rfl⟩ | ⟨rfl, rfl, rfl, rfl⟩ | ⟨rfl, rfl, rfl, rfl⟩ | ⟨rfl, rfl, rfl, rfl⟩ |
        ⟨rfl, rfl, rfl, rfl⟩ | ⟨rfl, rfl, rfl, rfl⟩ | ⟨rfl, rfl, rfl, rfl⟩ | ⟨rfl, rfl, rfl, rfl⟩ |
        ⟨rfl, rfl, rfl, rfl⟩ | ⟨rfl, rfl, rfl, rfl⟩ | ⟨rfl, rfl, rfl, rfl⟩ | ⟨rfl, rfl, rfl, rfl⟩ |
        ⟨rfl, rfl, rfl, rfl⟩ | ⟨rfl, rfl, rfl, rfl⟩ | ⟨rfl, rfl, rfl, rfl⟩ | ⟨rfl, rfl, rfl, rfl⟩ |
        ⟨rfl, rfl, rfl, rfl⟩ | ⟨rfl, rfl, rfl, rfl⟩ | ⟨rfl, rfl, rfl, rfl⟩ | ⟨rfl, rfl, rfl, rfl⟩
      all_goals first
        | (-- ping
           have hpath := pathMatches_fixed _ _ (by decide) hp
           simp only [runFull, baseHandler, render, if_true]
           cases healthy
           · exact ⟨by simp [renderPlain], by simp [renderPlain], by simp [renderPlain],
               fun _ => ⟨rfl, hpath⟩, by simp [renderPlain], by simp [renderPlain], by simp [renderPlain]⟩
           · exact docfull_of_200 _ _ _ _ _ rfl)
        | (-- base handlers
           have hpath := pathMatches_fixed _ _ (by decide) hp
           have hcfg : configOpt rq.path = none := by rw [hpath]; decide
           simp only [runFull, baseHandler, render]
           exact base_docfull hc healthy b rq _ (by simp [IsBase]) hcfg)
        | (simp only [runFull, baseHandler, render]; exact docfull_of_200 _ _ _ _ _ rfl)
        | (simp only [runFull, baseHandler, render]; exact stats_docfull hc healthy b rq)
        | (simp only [runFull, baseHandler, render]; exact config_docfull hc healthy b rq)
        | (simp only [runFull, baseHandler, render]; exact rate_docfull hc healthy b rq)
        | (simp only [runFull, baseHandler, render]
           exact ⟨by simp, by simp, by simp, by simp, by simp, by simp, fun _ => ⟨_, hr⟩⟩)
    · exact docfull_of_200 _ _ _ _ _ rfl
    · exact ⟨by simp [renderV1], by simp [renderV1], by simp [renderV1], by simp [renderV1], by simp [renderV1],
        fun _ => ‹_›, by simp [renderV1]⟩
    · exact ⟨by simp [renderV1], by simp [renderV1], by simp [renderV1], by simp [renderV1], by simp [renderV1],
        by simp [renderV1], by simp [renderV1]⟩

/-! ## The response envelope -/

def isJsonBody : Body → Bool
  | .errJson _ => true | .tlsJson => true | .json _ => true | _ => false

/-- What "a well-formed response" means for the part nsqd's code decides. -/
structure WireOK (hc : HConf) (w : Wire) : Prop where
  /-- the JSON content type is set exactly when the body is a JSON document -/
  ct_iff : w.ctJson = isJsonBody w.body
  /-- an error document carries a catalogued message, the NSQ header and a non-200 status -/
  err_msg : ∀ m, w.body = .errJson m → m ∈ errorMessages ∧ w.nsqHdr = true ∧ w.status ≠ .s200
  tls : w.body = .tlsJson → hc.tlsRefuse = true ∧ w.status = .s403
  /-- an answer that carries the NSQ header and is not 200 is an error document -/
  v1_error : w.nsqHdr = true → w.status ≠ .s200 → (∃ m, w.body = .errJson m) ∨ w.body = .tlsJson
  /-- a 200 never carries an error document -/
  ok_body : w.status = .s200 → ∀ m, w.body ≠ .errJson m

def GoodV1 : HRes → Prop
  | .err s m => m ∈ errorMessages ∧ s ≠ .s200
  | .errText _ => False
  | .external => False
  | _ => True

def GoodPlain : HRes → Prop
  | .okJson _ => False
  | .external => False
  | .err _ _ => False
  | .errText s => s ≠ .s200
  | _ => True

theorem wire_v1 (hc : HConf) (r : HRes) (h : GoodV1 r) : WireOK hc (renderV1 r) := by
  cases r <;> simp only [GoodV1] at h
  case err s m =>
    exact ⟨rfl, fun m' hm => by simp [renderV1] at hm; subst hm; exact ⟨h.1, rfl, h.2⟩, by simp [renderV1],
      fun _ _ => Or.inl ⟨m, rfl⟩, fun hs => absurd hs h.2⟩
  all_goals exact ⟨rfl, by simp [renderV1], by simp [renderV1], by simp [renderV1], by simp [renderV1]⟩

theorem wire_plain (hc : HConf) (r : HRes) (h : GoodPlain r) : WireOK hc (renderPlain r) := by
  cases r <;> simp only [GoodPlain] at h
  all_goals exact ⟨rfl, by simp [renderPlain], by simp [renderPlain], by simp [renderPlain], by simp [renderPlain]⟩

theorem goodV1_base (r : Response) (h : BaseRes r) : GoodV1 (ofResponse r) := by
  unfold ofResponse
  rcases h with ⟨h200, _⟩ | ⟨h4, hm⟩
  · simp only [h200, if_true]
    split <;> simp [GoodV1]
  · have hne : r.status ≠ .s200 := by rcases h4 with h | h | h | h <;> simp [h]
    have hne2 : r.status ≠ .external := by rcases h4 with h | h | h | h <;> simp [h]
    simp only [hne, hne2, if_false]
    exact ⟨hm, hne⟩

theorem goodV1_stats (b : Broker) (rq : Request) : GoodV1 (doStatsFull b rq) := by
  unfold doStatsFull
  repeat' split
  all_goals first
    | (exact ⟨by decide, by simp⟩)
    | trivial

theorem goodV1_config (hc : HConf) (rq : Request) : GoodV1 (doConfigFull hc rq) := by
  unfold doConfigFull
  repeat' split
  all_goals first
    | (exact ⟨by decide, by simp⟩)
    | trivial

theorem goodPlain_rate (rq : Request) : GoodPlain (setBlockRate rq) := by
  unfold setBlockRate
  repeat' split
  all_goals first
    | trivial
    | (simp [GoodPlain])

theorem goodPlain_ping (healthy : Bool) : GoodPlain (if healthy = true then HRes.okStr "OK" else HRes.errText .s500) := by
  cases healthy <;> simp [GoodPlain]

theorem goodV1_err (s : Status) (m : String) (hm : m ∈ errorMessages) (hs : s ≠ .s200) : GoodV1 (.err s m) := ⟨hm, hs⟩

/-- Every response of the server is well formed. -/
theorem serve_wire (hc : HConf) (healthy : Bool) (b : Broker) (rq : Request) :
    WireOK hc (HttpFull.serve hc healthy b rq).1 := by
  unfold HttpFull.serve
  split
  · exact ⟨rfl, by simp, fun _ => ⟨‹_›, rfl⟩, fun _ _ => Or.inr rfl, by simp⟩
  · split
    · rename_i name d hr
      obtain ⟨me, pat, hmem, hme, hp⟩ := routeFull_handler _ _ _ _ hr
      simp only [fullTable, List.mem_cons, Prod.mk.injEq, List.not_mem_nil, or_false] at hmem
      rcases hmem with ⟨rfl, rfl, rfl, rfl⟩ | ⟨rfl, rfl, rfl, rfl⟩ | ⟨rfl, rfl, rfl, rfl⟩ | ⟨rfl, rfl, rfl, rfl⟩ |
        ⟨rfl, rfl, rfl, rfl⟩ | ⟨rfl, rfl, rfl, rfl⟩ | ⟨rfl, rfl, rfl, rfl⟩ | ⟨rfl, rfl, rfl, rfl⟩ |
        ⟨rfl, rfl, rfl, rfl⟩ | ⟨rfl, rfl, rfl, rfl⟩ | ⟨rfl, rfl, rfl, rfl⟩ | ⟨rfl, rfl, rfl, rfl⟩ |
        ⟨rfl, rfl, rfl, rfl⟩ | ⟨rfl, rfl, rfl, rfl⟩ | ⟨rfl, rfl, rfl, rfl⟩ | ⟨rfl, rfl, rfl, rfl⟩ |
        ⟨rfl, rfl, rfl, rfl⟩ | ⟨rfl, rfl, rfl, rfl⟩ | ⟨rfl, rfl, rfl, rfl⟩ | ⟨rfl, rfl, rfl, rfl⟩ |
        ⟨rfl, rfl, rfl, rfl⟩ | ⟨rfl, rfl, rfl, rfl⟩ | ⟨rfl, rfl, rfl, rfl⟩ | ⟨rfl, rfl, rfl, rfl⟩ |
        ⟨rfl, rfl, rfl, rfl⟩ | ⟨rfl, rfl, rfl, rfl⟩ | ⟨rfl, rfl, rfl, rfl⟩ | ⟨rfl, rfl, rfl, rfl⟩
      all_goals simp only [runFull, baseHandler, render]
      all_goals first
        | (exact wire_plain _ _ (goodPlain_ping healthy))
        | (exact wire_v1 _ _ (goodV1_base _ (runHandler_base hc healthy b rq _ (by simp [IsBase]))))
        | (exact wire_v1 _ _ (goodV1_stats b rq))
        | (exact wire_v1 _ _ (goodV1_config hc rq))
        | (exact wire_v1 _ _ trivial)
        | (exact wire_plain _ _ (goodPlain_rate rq))
        | (exact wire_plain _ _ trivial)
        | (exact ⟨rfl, by simp, by simp, by simp, by simp⟩)
    · exact ⟨rfl, by simp, by simp, by simp, by simp⟩
    · exact wire_v1 _ _ (goodV1_err _ _ (by decide) (by simp))
    · exact wire_v1 _ _ (goodV1_err _ _ (by decide) (by simp))

theorem errorMessages_plain : ∀ m ∈ errorMessages, m.toList.all plainJsonChar = true := by decide

/-! ## `/stats` -/

theorem bytesLe_total : ∀ a b : Bytes, (bytesLe a b || bytesLe b a) = true
  | [], _ => by simp [bytesLe]
  | _ :: _, [] => by simp [bytesLe]
  | a :: as, b :: bs => by
    have ih := bytesLe_total as bs
    unfold bytesLe
    by_cases h1 : a < b
    · simp [h1]
    · by_cases h2 : b < a
      · simp [h1, h2]
      · simp only [h1, h2, if_false]
        exact ih

theorem bytesLe_trans : ∀ a b c : Bytes, bytesLe a b = true → bytesLe b c = true → bytesLe a c = true
  | [], _, _, _, _ => by simp [bytesLe]
  | _ :: _, [], _, h, _ => by simp [bytesLe] at h
  | _ :: _, _ :: _, [], _, h => by simp [bytesLe] at h
  | a :: as, b :: bs, c :: cs, h1, h2 => by
    have ih := bytesLe_trans as bs cs
    unfold bytesLe at h1 h2 ⊢
    simp only [UInt8.lt_iff_toNat_lt] at h1 h2 ⊢
    by_cases hab : a.toNat < b.toNat
    · by_cases hbc : b.toNat < c.toNat
      · have : a.toNat < c.toNat := by omega
        simp [this]
      · by_cases hcb : c.toNat < b.toNat
        · simp [hbc, hcb] at h2
        · have : a.toNat < c.toNat := by omega
          simp [this]
    · by_cases hba : b.toNat < a.toNat
      · simp [hab, hba] at h1
      · simp only [hab, hba, if_false] at h1
        have hab' : a.toNat = b.toNat := by omega
        by_cases hbc : b.toNat < c.toNat
        · have : a.toNat < c.toNat := by omega
          simp [this]
        · by_cases hcb : c.toNat < b.toNat
          · simp [hbc, hcb] at h2
          · simp only [hbc, hcb, if_false] at h2
            have h3 : ¬ a.toNat < c.toNat := by omega
            have h4 : ¬ c.toNat < a.toNat := by omega
            simp only [h3, h4, if_false]
            exact ih h1 h2

theorem mem_insertBy {α : Type} (le : α → α → Bool) (x a : α) : ∀ l : List α, a ∈ insertBy le x l ↔ a = x ∨ a ∈ l
  | [] => by simp [insertBy]
  | y :: ys => by
    unfold insertBy
    split
    · simp
    · simp only [List.mem_cons, mem_insertBy le x a ys]
      constructor
      · rintro (h | h | h)
        · exact Or.inr (Or.inl h)
        · exact Or.inl h
        · exact Or.inr (Or.inr h)
      · rintro (h | h | h)
        · exact Or.inr (Or.inl h)
        · exact Or.inl h
        · exact Or.inr (Or.inr h)

theorem mem_sortBy {α : Type} (le : α → α → Bool) (a : α) : ∀ l : List α, a ∈ sortBy le l ↔ a ∈ l
  | [] => by simp [sortBy]
  | x :: xs => by simp [sortBy, mem_insertBy, mem_sortBy le a xs]

theorem length_insertBy {α : Type} (le : α → α → Bool) (x : α) : ∀ l : List α, (insertBy le x l).length = l.length + 1
  | [] => rfl
  | y :: ys => by
    unfold insertBy
    split
    · simp
    · simp [length_insertBy le x ys]

theorem length_sortBy {α : Type} (le : α → α → Bool) : ∀ l : List α, (sortBy le l).length = l.length
  | [] => rfl
  | x :: xs => by simp [sortBy, length_insertBy, length_sortBy le xs]

theorem pairwise_insertBy {α : Type} (le : α → α → Bool)
    (trans : ∀ a b c, le a b = true → le b c = true → le a c = true)
    (total : ∀ a b, (le a b || le b a) = true) (x : α) :
    ∀ l : List α, l.Pairwise (fun a b => le a b = true) → (insertBy le x l).Pairwise (fun a b => le a b = true)
  | [], _ => by simp [insertBy]
  | y :: ys, h => by
    have hy := List.pairwise_cons.mp h
    unfold insertBy
    split
    · rename_i hxy
      refine List.pairwise_cons.mpr ⟨?_, h⟩
      intro z hz
      rcases List.mem_cons.mp hz with rfl | hz
      · exact hxy
      · exact trans _ _ _ hxy (hy.1 z hz)
    · rename_i hxy
      refine List.pairwise_cons.mpr ⟨?_, pairwise_insertBy le trans total x ys hy.2⟩
      intro z hz
      rcases (mem_insertBy le x z ys).mp hz with rfl | hz
      · have := total z y
        simp only [Bool.or_eq_true] at this
        rcases this with h1 | h1
        · exact absurd h1 hxy
        · exact h1
      · exact hy.1 z hz

theorem pairwise_sortBy {α : Type} (le : α → α → Bool)
    (trans : ∀ a b c, le a b = true → le b c = true → le a c = true)
    (total : ∀ a b, (le a b || le b a) = true) :
    ∀ l : List α, (sortBy le l).Pairwise (fun a b => le a b = true)
  | [] => by simp [sortBy]
  | x :: xs => pairwise_insertBy le trans total x _ (pairwise_sortBy le trans total xs)

/-- The `/stats` answer lists topics in name order. -/
theorem statsView_sorted (b : Broker) (topic channel : Bytes) :
    (statsView b topic channel).Pairwise (fun x y => bytesLe x.name y.name = true) := by
  unfold statsView
  refine List.Pairwise.filterMap _ ?_ (pairwise_sortBy (fun x y : Topic => bytesLe x.name y.name)
    (fun a b c => bytesLe_trans a.name b.name c.name) (fun a b => bytesLe_total a.name b.name) _)
  intro t t' hle v hv v' hv'
  have e1 : v.name = t.name := by
    repeat' split at hv
    all_goals first
      | (simp at hv; subst hv; rfl)
      | (simp at hv)
  have e2 : v'.name = t'.name := by
    repeat' split at hv'
    all_goals first
      | (simp at hv'; subst hv'; rfl)
      | (simp at hv')
  rw [e1, e2]; exact hle

/-- … and each topic lists its channels in name order. -/
theorem topicView_chans_sorted (t : Topic) (cs : List Chan) :
    (topicView t cs).chans.Pairwise (fun x y => bytesLe x.name y.name = true) := by
  unfold topicView
  exact List.Pairwise.map _ (fun a b h => h)
    (pairwise_sortBy (fun x y : Chan => bytesLe x.name y.name)
      (fun a b c => bytesLe_trans a.name b.name c.name) (fun a b => bytesLe_total a.name b.name) _)

/-- Exactly the selected topics are shown: `tv` is listed iff it is the view of a topic of the
broker that passes the topic filter and (when a channel is named) has that channel. -/
theorem statsView_mem (b : Broker) (topic channel : Bytes) (tv : TopicView) :
    tv ∈ statsView b topic channel ↔
      ∃ t ∈ b, (topic = [] ∨ t.name = topic) ∧
        ((channel = [] ∧ tv = topicView t t.chans) ∨
         (channel ≠ [] ∧ hasChan t channel = true ∧ tv = topicView t (t.chans.filter (·.name == channel)))) := by
  unfold statsView
  simp only [List.mem_filterMap, mem_sortBy]
  constructor
  · rintro ⟨t, ht, hv⟩
    refine ⟨t, ?_, ?_, ?_⟩
    · by_cases he : topic.isEmpty = true
      · simpa [he] using ht
      · simp only [he] at ht
        exact (List.mem_filter.mp ht).1
    · by_cases he : topic.isEmpty = true
      · exact Or.inl (List.isEmpty_iff.mp he)
      · simp only [he] at ht
        exact Or.inr (by simpa using (List.mem_filter.mp ht).2)
    · by_cases hc : channel.isEmpty = true
      · simp only [hc, if_true, Option.some.injEq] at hv
        exact Or.inl ⟨List.isEmpty_iff.mp hc, hv.symm⟩
      · simp only [hc] at hv
        by_cases hh : hasChan t channel = true
        · simp only [hh, if_true, Bool.false_eq_true, if_false, Option.some.injEq] at hv
          exact Or.inr ⟨fun e => hc (by simp [e]), hh, hv.symm⟩
        · simp [hh] at hv
  · rintro ⟨t, ht, htop, hv⟩
    refine ⟨t, ?_, ?_⟩
    · rcases htop with rfl | rfl
      · simpa using ht
      · by_cases he : t.name.isEmpty = true
        · simpa [he] using ht
        · simp only [he]
          exact List.mem_filter.mpr ⟨ht, by simp⟩
    · rcases hv with ⟨rfl, rfl⟩ | ⟨hne, hh, rfl⟩
      · simp
      · have : channel.isEmpty = false := by
          cases channel with
          | nil => exact absurd rfl hne
          | cons _ _ => rfl
        simp [this, hh]

/-- Without filters every topic of the broker is shown exactly once. -/
theorem statsView_all_length (b : Broker) : (statsView b [] []).length = b.length := by
  unfold statsView
  simp [length_sortBy]

/-! ## `/config`: log levels and the lookupd address list -/

theorem goLower_ascii : ∀ s : Bytes, (∀ c ∈ s, c < 128) → goLower s = asciiLower s
  | [], _ => rfl
  | c :: r, h => by
    have hc : c < 128 := h c (by simp)
    have ih := goLower_ascii r (fun x hx => h x (by simp [hx]))
    unfold goLower
    split
    · rename_i heq; cases heq
    · rename_i heq; injection heq with h1 _; subst h1; exact absurd hc (by decide)
    · rename_i heq; injection heq with h1 _; subst h1; exact absurd hc (by decide)
    · rename_i c' r' _ _ heq
      injection heq with h1 h2
      subst h1; subst h2
      simp [asciiLower, ih]

/-- On ASCII input `ParseLogLevel` is the plain case-insensitive comparison. -/
theorem parseLogLevel_ascii (s : Bytes) (h : ∀ c ∈ s, c < 128) :
    parseLogLevel s = wordLevel (asciiLower s) := by
  unfold parseLogLevel
  rw [goLower_ascii s h]

theorem wordLevel_range (w : Bytes) (n : Nat) (h : wordLevel w = some n) : 1 ≤ n ∧ n ≤ 5 := by
  unfold wordLevel at h
  repeat' split at h
  all_goals first
    | (simp at h; omega)
    | (simp at h)

/-! ### The recogniser accepts the compact rendering of every list of plain strings -/

def Plain (s : Bytes) : Prop := ∀ c ∈ s, 32 ≤ c ∧ c ≠ 34 ∧ c ≠ 92

def quote (s : Bytes) : Bytes := 34 :: (s ++ [34])

def renderTail : List Bytes → Bytes
  | [] => [93]
  | x :: xs => 44 :: (quote x ++ renderTail xs)

/-- `["a","b",…]` without white space. -/
def renderArr : List Bytes → Bytes
  | [] => [91, 93]
  | x :: xs => 91 :: (quote x ++ renderTail xs)

theorem fold_plain : ∀ s : Bytes, Plain s → s.foldl jsStep .str = .str
  | [], _ => rfl
  | c :: r, h => by
    have hc := h c (by simp)
    have h32 : ¬ c < 32 := UInt8.not_lt.mpr hc.1
    simp only [List.foldl_cons, jsStep, hc.2.1, hc.2.2, h32, if_false]
    exact fold_plain r (fun x hx => h x (by simp [hx]))

theorem fold_quote_tail (s : Bytes) (h : Plain s) (rest : Bytes) (st : JS) (hst : jsStep st 34 = .str) :
    (quote s ++ rest).foldl jsStep st = rest.foldl jsStep .after := by
  simp only [quote, List.cons_append, List.foldl_cons, hst, List.append_assoc, List.foldl_append, fold_plain s h]
  simp [jsStep]

theorem fold_renderTail : ∀ xs : List Bytes, (∀ x ∈ xs, Plain x) → (renderTail xs).foldl jsStep .after = .done
  | [], _ => by simp [renderTail, jsStep, isWs]
  | x :: xs, h => by
    have hx := h x (by simp)
    have ih := fold_renderTail xs (fun y hy => h y (by simp [hy]))
    have h44 : jsStep .after 44 = .elem := by simp [jsStep, isWs]
    simp only [renderTail, List.foldl_cons, h44]
    rw [fold_quote_tail x hx _ .elem (by simp [jsStep, isWs])]
    exact ih

theorem accepts_renderArr (xs : List Bytes) (h : ∀ x ∈ xs, Plain x) : isStrArrayJson (renderArr xs) = true := by
  unfold isStrArrayJson
  cases xs with
  | nil => simp [renderArr, jsStep, isWs]
  | cons x r =>
    have h91 : jsStep .start 91 = .arr0 := by simp [jsStep, isWs]
    simp only [renderArr, List.foldl_cons, h91]
    rw [fold_quote_tail x (h x (by simp)) _ .arr0 (by simp [jsStep, isWs])]
    simp [fold_renderTail r (fun y hy => h y (by simp [hy]))]

/-! ## `HttpFull` extends `HttpApi` -/

theorem wordLevel_isSome (w : Bytes) : (wordLevel w).isSome = logLevels.contains w := by
  unfold wordLevel logLevels
  by_cases h1 : w = ascii "debug"
  · subst h1; decide
  · by_cases h2 : w = ascii "info"
    · subst h2; decide
    · by_cases h3 : w = ascii "warn"
      · subst h3; decide
      · by_cases h4 : w = ascii "error"
        · subst h4; decide
        · by_cases h5 : w = ascii "fatal"
          · subst h5; decide
          · simp [h1, h2, h3, h4, h5]

theorem stats_agrees (b : Broker) (rq : Request) :
    (renderV1 (doStatsFull b rq)).status = (doStats b rq).1.status := by
  unfold doStatsFull doStats
  cases parseQuery rq.rawQuery with
  | none => rfl
  | some kv =>
    simp only []
    split <;> rfl

/-- `/config`: same status as the `HttpApi` model wherever that one is not `external` (it is for
`PUT nsqlookupd_tcp_addresses`, which only `HttpFull` models). -/
theorem config_agrees (hc : HConf) (b : Broker) (rq : Request) (h : (doConfig hc b rq).1.status ≠ .external) :
    (renderV1 (doConfigFull hc rq)).status = (doConfig hc b rq).1.status := by
  unfold doConfigFull kLookupdAddrs kLogLevel
  unfold doConfig at h ⊢
  cases hopt : configOpt rq.path with
  | none => rfl
  | some opt =>
    simp only [hopt] at h ⊢
    by_cases hput : rq.method = ascii "PUT"
    · simp only [hput, if_true] at h ⊢
      split
      · rfl
      · rename_i hsz
        by_cases hl : opt = ascii "nsqlookupd_tcp_addresses"
        · exfalso
          simp only [hsz, hl, if_true, if_false, resp] at h
          exact h rfl
        · simp only [hl, if_false]
          by_cases hv : opt = ascii "log_level"
          · simp only [hv, if_true]
            have hw := wordLevel_isSome (goLower (List.take (hc.maxMsgSize + 1).toNat rq.body))
            unfold parseLogLevel
            cases hwl : wordLevel (goLower (List.take (hc.maxMsgSize + 1).toNat rq.body)) with
            | none => rw [hwl] at hw; simp at hw; simp [hw, resp, renderV1]
            | some n => rw [hwl] at hw; simp at hw; simp [hw, resp, renderV1]
          · simp only [hv, if_false]; rfl
    · simp only [hput, if_false]
      split
      · split <;> rfl
      · rfl

/-- The handlers taken over from `HttpApi` answer the same status and leave the same broker (by
construction of `runFull`; stated for the record). -/
theorem base_agrees (hc : HConf) (healthy : Bool) (b : Broker) (rq : Request) (name : String) (h : Handler)
    (hn : baseHandler name = some h) :
    (renderV1 (runFull hc healthy b rq name).1).status = (runHandler hc healthy b rq h).1.status ∧
    (runFull hc healthy b rq name).2 = (runHandler hc healthy b rq h).2 := by
  simp only [runFull, hn]
  exact ⟨renderV1_ofResponse_status _, trivial⟩

/-! ## F18: `PlainText` and a nil result -/

/-- Before the repair the decorator turned the nil result of `freeMemory` / `setBlockRateHandler`
into the recovered-panic answer. -/
theorem plain_nil_old : renderPlainOld .okNil = ⟨.s500, true, true, .errJson "INTERNAL_ERROR"⟩ := rfl

theorem plain_nil_new : renderPlain .okNil = ⟨.s200, false, false, .empty⟩ := rfl

/-! ## Read-only requests -/

/-- A `GET` never changes the broker: the routes registered for GET are /ping, /info, /stats,
/config/:opt and the pprof handlers, none of which touches a topic or channel. -/
theorem get_readonly (hc : HConf) (healthy : Bool) (b : Broker) (rq : Request) (hget : rq.method = ascii "GET") :
    (HttpFull.serve hc healthy b rq).2 = b := by
  unfold HttpFull.serve
  split
  · rfl
  · split
    · rename_i name d hr
      obtain ⟨me, pat, hmem, hme, hp⟩ := routeFull_handler _ _ _ _ hr
      rw [hget] at hme
      simp only [fullTable, List.mem_cons, Prod.mk.injEq, List.not_mem_nil, or_false] at hmem
      rcases hmem with ⟨rfl, rfl, rfl, rfl⟩ | ⟨rfl, rfl, rfl, rfl⟩ | ⟨rfl, rfl, rfl, rfl⟩ | ⟨rfl, rfl, rfl, rfl⟩ |
        ⟨rfl, rfl, rfl, rfl⟩ | ⟨rfl, rfl, rfl, rfl⟩ | ⟨rfl, rfl, rfl, rfl⟩ | ⟨rfl, rfl, rfl, rfl⟩ |
        ⟨rfl, rfl, rfl, rfl⟩ | ⟨rfl, rfl, rfl, rfl⟩ | ⟨rfl, rfl, rfl, rfl⟩ | ⟨rfl, rfl, rfl, rfl⟩ |
        ⟨rfl, rfl, rfl, rfl⟩ | ⟨rfl, rfl, rfl, rfl⟩ | ⟨rfl, rfl, rfl, rfl⟩ | ⟨rfl, rfl, rfl, rfl⟩ |
        ⟨rfl, rfl, rfl, rfl⟩ | ⟨rfl, rfl, rfl, rfl⟩ | ⟨rfl, rfl, rfl, rfl⟩ | ⟨rfl, rfl, rfl, rfl⟩ |
        ⟨rfl, rfl, rfl, rfl⟩ | ⟨rfl, rfl, rfl, rfl⟩ | ⟨rfl, rfl, rfl, rfl⟩ | ⟨rfl, rfl, rfl, rfl⟩ |
        ⟨rfl, rfl, rfl, rfl⟩ | ⟨rfl, rfl, rfl, rfl⟩ | ⟨rfl, rfl, rfl, rfl⟩ | ⟨rfl, rfl, rfl, rfl⟩
      all_goals first
        | (exact absurd hme (by decide))
        | (simp [runFull, baseHandler])
    · rfl
    · rfl
    · rfl

/-- `/config` (GET or PUT), `/debug/*`, `/ping`, `/info`, `/stats` never change the broker either —
whatever the method. -/
theorem admin_free_routes_readonly (hc : HConf) (healthy : Bool) (b : Broker) (rq : Request) (name : String)
    (hn : baseHandler name = none) : (runFull hc healthy b rq name).2 = b := by
  simp only [runFull, hn]
  repeat' split
  all_goals rfl

end Nsq.Proofs.HttpFull
