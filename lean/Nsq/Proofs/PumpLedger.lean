/-
E2 — the delivery pump (`Nsq.Model.Pump`) × a ledger of message ids (round 7, item 5): every message the pump
takes off the channel's queue is registered in flight and written as a frame, or dropped by the `sample_rate`
test; no other step of the pump touches the queue, the in-flight registrations or the frames.
-/
import Nsq.Model.Pump
namespace Nsq.Proofs.PumpLedger
open Nsq.Model.Pump

structure PL where
  p        : PState := {}
  /-- ghost: every id the channel ever offered to this pump, newest first -/
  offered  : List Nat := []
  /-- ids this pump can receive (a bag: Go's `select` chooses) -/
  queue    : List Nat := []
  /-- ids this pump registered in flight (`StartInFlightTimeout`), newest first -/
  inflight : List Nat := []
  /-- ids dropped by `if sampleRate > 0 && rand.Int31n(100) > sampleRate { continue }`, newest first -/
  sampled  : List Nat := []
  /-- the id carried by the n-th message frame, oldest first -/
  frames   : List Nat := []
deriving DecidableEq, Repr

inductive LOp where
  | offer (id : Nat)     -- the channel makes a message available (put / requeue / timeout …)
  | pump (op : Op)       -- any step of the pump or the IOLoop that does not receive a message
  | recv (id : Nat)
  | sampled (id : Nat)
deriving DecidableEq, Repr

def takes : Op → Bool
  | .recv => true
  | .sampled => true
  | _ => false

def step (s : PL) : LOp → PL × Out
  | .offer id => ({ s with offered := id :: s.offered, queue := id :: s.queue }, .ok)
  | .pump op =>
    if takes op then (s, .reject "use recv / sampled") else
    ({ s with p := (Nsq.Model.Pump.step s.p op).1 }, (Nsq.Model.Pump.step s.p op).2)
  | .recv id =>
    if id ∉ s.queue then (s, .reject "not-queued") else
    match Nsq.Model.Pump.step s.p .recv with
    | (p', .ok) => ({ s with p := p', queue := s.queue.erase id, inflight := id :: s.inflight, frames := s.frames ++ [id] }, .ok)
    | (_, r) => (s, r)
  | .sampled id =>
    if id ∉ s.queue then (s, .reject "not-queued") else
    match Nsq.Model.Pump.step s.p .sampled with
    | (p', .ok) => ({ s with p := p', queue := s.queue.erase id, sampled := id :: s.sampled }, .ok)
    | (_, r) => (s, r)

def run (s : PL) : List LOp → PL
  | [] => s
  | op :: ops => run (step s op).1 ops

/-- conservation + the frames are exactly the registrations, in order, and as many as the pump counted -/
structure LInv (s : PL) : Prop where
  cons   : s.offered.Perm (s.queue ++ s.inflight ++ s.sampled)
  frames : s.frames = s.inflight.reverse
  sent   : s.frames.length = s.p.sent

theorem linv_init : LInv {} := ⟨List.Perm.refl _, rfl, rfl⟩

theorem flush_sent (s : PState) : (flush s).sent = s.sent := by
  unfold flush; split <;> rfl

theorem pump_sent (p : PState) (op : Op) (h : takes op = false) : (Nsq.Model.Pump.step p op).1.sent = p.sent := by
  cases op <;> first
    | rfl
    | (simp only [Nsq.Model.Pump.step]; (repeat' split) <;> simp [flush_sent]; done)
    | (simp [takes] at h; done)

theorem recv_ok_sent {p p' : PState} (h : Nsq.Model.Pump.step p .recv = (p', .ok)) : p'.sent = p.sent + 1 := by
  simp only [Nsq.Model.Pump.step] at h
  split at h
  · cases h
  · split at h
    · cases h
    · cases h; rfl

theorem sampled_ok {p p' : PState} (h : Nsq.Model.Pump.step p .sampled = (p', .ok)) :
    p'.sent = p.sent ∧ p.sample ≠ 0 ∧ p.qArmed = true ∧ p.inSelect = true := by
  simp only [Nsq.Model.Pump.step] at h
  split at h
  · cases h
  · split at h
    · cases h
    · split at h
      · cases h
      · cases h
        rename_i h1 h2 h3
        refine ⟨rfl, ?_, ?_, ?_⟩
        · simpa using h3
        · simpa using h2
        · simpa using h1

theorem step_linv {s : PL} (h : LInv s) (op : LOp) : LInv (step s op).1 := by
  cases op with
  | offer id =>
    simp only [step]
    exact ⟨by simpa using List.Perm.cons id h.cons, h.frames, h.sent⟩
  | pump o =>
    simp only [step]
    split
    · exact h
    · rename_i ht
      exact ⟨h.cons, h.frames, by rw [h.sent]; exact (pump_sent s.p o (by simpa using ht)).symm⟩
  | recv id =>
    simp only [step]
    split
    · exact h
    · rename_i hq
      have hq' : id ∈ s.queue := by simpa using hq
      split
      · rename_i p' hs
        refine ⟨?_, ?_, ?_⟩
        · show s.offered.Perm (s.queue.erase id ++ (id :: s.inflight) ++ s.sampled)
          refine h.cons.trans ?_
          have h1 : s.queue.Perm (id :: s.queue.erase id) := List.perm_cons_erase hq'
          have h2 : (s.queue ++ s.inflight ++ s.sampled).Perm ((id :: s.queue.erase id) ++ s.inflight ++ s.sampled) :=
            (h1.append_right _).append_right _
          refine h2.trans ?_
          simp only [List.cons_append, List.append_assoc]
          exact (List.perm_middle).symm
        · show s.frames ++ [id] = (id :: s.inflight).reverse
          rw [List.reverse_cons, h.frames]
        · show (s.frames ++ [id]).length = p'.sent
          rw [recv_ok_sent hs, List.length_append, h.sent]; rfl
      · exact h
  | sampled id =>
    simp only [step]
    split
    · exact h
    · rename_i hq
      have hq' : id ∈ s.queue := by simpa using hq
      split
      · rename_i p' hs
        refine ⟨?_, h.frames, ?_⟩
        · show s.offered.Perm (s.queue.erase id ++ s.inflight ++ (id :: s.sampled))
          refine h.cons.trans ?_
          have h1 : s.queue.Perm (id :: s.queue.erase id) := List.perm_cons_erase hq'
          have h2 : (s.queue ++ s.inflight ++ s.sampled).Perm ((id :: s.queue.erase id) ++ s.inflight ++ s.sampled) :=
            (h1.append_right _).append_right _
          refine h2.trans ?_
          simp only [List.cons_append, List.append_assoc]
          have : (id :: (s.queue.erase id ++ (s.inflight ++ s.sampled))) = id :: ((s.queue.erase id ++ s.inflight) ++ s.sampled) := by
            simp
          rw [this, ← List.append_assoc]
          exact (List.perm_middle).symm
        · show s.frames.length = p'.sent
          rw [(sampled_ok hs).1]; exact h.sent
      · exact h

theorem run_linv {s : PL} (h : LInv s) (ops : List LOp) : LInv (run s ops) := by
  induction ops generalizing s with
  | nil => exact h
  | cons op ops ih => exact ih (step_linv h op)

end Nsq.Proofs.PumpLedger
