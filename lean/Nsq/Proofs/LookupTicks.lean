import Nsq.Model.LookupPeer
import Nsq.Proofs.LookupSyncConv
/-! Helpers for the tick-count theorems of C16 (`Nsq.Props.C16Ticks`). -/
namespace Nsq.Proofs.LookupTicks
open Nsq.Model.LookupSync

/-- distance of a peer connection from "connected and alive": a stale connection needs one command to be
noticed (→ down) and one more to be re-established (→ up) -/
def rank : Conn → Nat
  | .up => 0
  | .down => 1
  | .stale => 2

theorem rank_le_two (c : Conn) : rank c ≤ 2 := by cases c <;> simp [rank]

theorem rank_zero_iff (c : Conn) : rank c = 0 ↔ c = .up := by cases c <;> simp [rank]

theorem command_addr (objs dead : List Ref) (apply : List Key → List Key) (p : Peer) (o : Outcome) :
    (command objs dead apply p o).addr = p.addr := by
  unfold command
  cases p.conn <;> cases o <;> rfl

theorem rank_command_ok (objs dead : List Ref) (apply : List Key → List Key) (p : Peer) :
    rank (command objs dead apply p .ok).conn = rank p.conn - 1 := by
  unfold command
  cases h : p.conn <;> simp [rank]

theorem mem_mapOutcomes (f : Peer → Outcome → Peer) (ps : List Peer) (outs : List Outcome) (q : Peer)
    (h : q ∈ mapOutcomes f ps outs) : ∃ (i : Nat) (p : Peer), ps[i]? = some p ∧ q = f p (outs[i]?.getD .fail) := by
  induction ps generalizing outs with
  | nil => simp [mapOutcomes] at h
  | cons p ps ih =>
    cases outs with
    | nil =>
      simp only [mapOutcomes, List.mem_cons] at h
      rcases h with rfl | h
      · exact ⟨0, p, rfl, rfl⟩
      · obtain ⟨i, p', h1, h2⟩ := ih [] h
        exact ⟨i + 1, p', by simpa using h1, by simpa using h2⟩
    | cons o os =>
      simp only [mapOutcomes, List.mem_cons] at h
      rcases h with rfl | h
      · exact ⟨0, p, rfl, rfl⟩
      · obtain ⟨i, p', h1, h2⟩ := ih os h
        exact ⟨i + 1, p', by simpa using h1, by simpa using h2⟩

/-- a command round (heartbeat or notification) -/
def isRound : Step → Bool
  | .tick _ => true
  | .notify _ _ => true
  | _ => false

def isTick : Step → Bool
  | .tick _ => true
  | _ => false

def rounds (steps : List Step) : Nat := (steps.filter isRound).length
def ticks (steps : List Step) : Nat := (steps.filter isTick).length

theorem ticks_le_rounds (steps : List Step) : ticks steps ≤ rounds steps := by
  induction steps with
  | nil => simp [ticks, rounds]
  | cons st rest ih =>
    simp only [ticks, rounds, List.filter_cons] at ih ⊢
    cases st <;> simp [isTick, isRound] <;> omega

/-- every `Command` to the lookupd at address `a` in this round succeeds -/
def outsOkFor (a : Nat) (peers : List Peer) (outs : List Outcome) : Prop :=
  ∀ (i : Nat) (p : Peer), peers[i]? = some p → p.addr = a → outs[i]? = some Outcome.ok

/-- the step is no fault of the lookupd at address `a`: all its commands succeed, it does not drop the
connection, it is not removed, and if it is added its first connection succeeds -/
def OkFor (a : Nat) (s : State) : Step → Prop
  | .tick outs => outsOkFor a s.peers outs
  | .notify _ outs => outsOkFor a s.peers outs
  | .lookupdDrop b => b ≠ a
  | .removePeer _ => True
  | .addPeer b o => b = a → o = .ok
  | _ => True

/-- the whole schedule is fault-free for `a` -/
def OkRun (a : Nat) : State → List Step → Prop
  | _, [] => True
  | s, st :: rest => OkFor a s st ∧ ∀ s', step s st = some s' → OkRun a s' rest

theorem rank_round (a : Nat) (objs dead : List Ref) (apply : List Key → List Key) (peers : List Peer)
    (outs : List Outcome) (n : Nat) (hok : outsOkFor a peers outs)
    (h : ∀ p ∈ peers, p.addr = a → rank p.conn ≤ n) :
    ∀ q ∈ mapOutcomes (command objs dead apply) peers outs, q.addr = a → rank q.conn ≤ n - 1 := by
  intro q hq ha
  obtain ⟨i, p, hp, rfl⟩ := mem_mapOutcomes _ _ _ _ hq
  rw [command_addr] at ha
  have ho := hok i p hp ha
  rw [ho]
  simp only [Option.getD_some]
  rw [rank_command_ok]
  have := h p (List.mem_of_getElem? hp) ha
  omega

theorem rank_step (a : Nat) (s s' : State) (st : Step) (n : Nat) (hs : step s st = some s') (hok : OkFor a s st)
    (h : ∀ p ∈ s.peers, p.addr = a → rank p.conn ≤ n) :
    ∀ q ∈ s'.peers, q.addr = a → rank q.conn ≤ (if isRound st then n - 1 else n) := by
  cases st with
  | createTopic t =>
    simp only [step] at hs
    split at hs
    · simp at hs
    · simp only [Option.some.injEq] at hs; subst hs; simpa [isRound] using h
  | createChan t c =>
    simp only [step] at hs
    split at hs; · simp at hs
    split at hs; · simp at hs
    split at hs; · simp at hs
    simp only [Option.some.injEq] at hs; subst hs; simpa [isRound] using h
  | delBegin r =>
    simp only [step] at hs
    split at hs; · simp at hs
    split at hs; · simp at hs
    simp only [Option.some.injEq] at hs; subst hs; simpa [isRound] using h
  | delUnlink r =>
    simp only [step] at hs
    split at hs; · simp at hs
    split at hs; · simp at hs
    split at hs; · simp at hs
    simp only [Option.some.injEq] at hs; subst hs; simpa [isRound] using h
  | notify r outs =>
    simp only [step] at hs
    split at hs; · simp at hs
    simp only [Option.some.injEq] at hs; subst hs
    simp only [isRound, if_true]
    exact rank_round a _ _ _ _ outs n hok h
  | tick outs =>
    simp only [step, Option.some.injEq] at hs; subst hs
    simp only [isRound, if_true]
    exact rank_round a _ _ _ _ outs n hok h
  | lookupdDrop b =>
    simp only [step, Option.some.injEq] at hs; subst hs
    simp only [isRound, Bool.false_eq_true, if_false]
    intro q hq ha
    simp only [List.mem_map] at hq
    obtain ⟨p, hp, rfl⟩ := hq
    have hb : b ≠ a := hok
    by_cases hpa : (p.addr == b) = true
    · simp only [hpa, if_true] at ha
      have : p.addr = b := by simpa using hpa
      exact absurd (this.symm.trans ha) hb
    · simp only [hpa] at ha ⊢
      exact h p hp ha
  | addPeer b o =>
    simp only [step] at hs
    split at hs; · simp at hs
    simp only [Option.some.injEq] at hs; subst hs
    simp only [isRound, Bool.false_eq_true, if_false]
    intro q hq ha
    simp only [List.mem_append, List.mem_singleton] at hq
    rcases hq with hq | rfl
    · exact h q hq ha
    · rw [command_addr] at ha
      have ho : o = .ok := hok ha
      subst ho
      rw [rank_command_ok]
      simp [rank]
  | removePeer b =>
    simp only [step, Option.some.injEq] at hs; subst hs
    simp only [isRound, Bool.false_eq_true, if_false]
    intro q hq ha
    exact h q (List.mem_filter.mp hq).1 ha

theorem rank_run (a : Nat) (steps : List Step) : ∀ (s s' : State) (n : Nat), run s steps = some s' → OkRun a s steps →
    (∀ p ∈ s.peers, p.addr = a → rank p.conn ≤ n) →
    ∀ q ∈ s'.peers, q.addr = a → rank q.conn ≤ n - rounds steps := by
  induction steps with
  | nil =>
    intro s s' n hr _ h
    simp only [run, Option.some.injEq] at hr; subst hr
    simpa [rounds] using h
  | cons st rest ih =>
    intro s s' n hr hok h
    simp only [run] at hr
    cases hs : step s st with
    | none => simp [hs] at hr
    | some s1 =>
      simp only [hs] at hr
      have h1 := rank_step a s s1 st n hs hok.1 h
      have h2 := ih s1 s' _ hr (hok.2 s1 hs) h1
      intro q hq ha
      have := h2 q hq ha
      by_cases hrd : isRound st = true
      · simp only [hrd, if_true] at this
        simp only [rounds, List.filter_cons, hrd, if_true, List.length_cons] at this ⊢
        omega
      · simp only [hrd] at this
        simp only [rounds, List.filter_cons, hrd] at this ⊢
        simpa using this

theorem run_append (s : State) (xs ys : List Step) :
    run s (xs ++ ys) = (run s xs).bind (fun s1 => run s1 ys) := by
  induction xs generalizing s with
  | nil => simp [run]
  | cons x xs ih =>
    simp only [List.cons_append, run]
    cases step s x with
    | none => simp
    | some s1 => simp [ih]

end Nsq.Proofs.LookupTicks
