import Nsq.Model.Aggregate
/-!
GetLookupdProducers: one entry per TCP address over all responding nsqlookupds, and every answer
that mentions an address adds one remote address to its entry.
-/
namespace Nsq.Proofs.AggregateDedup
open Nsq.Model.Aggregate

def keys (l : List Producer) : List String := l.map (·.tcp)

/-- Append the keys not seen so far. -/
def dedupAppend (acc : List String) : List String → List String
  | [] => acc
  | x :: xs => if acc.contains x then dedupAppend acc xs else dedupAppend (acc ++ [x]) xs

theorem dedupAppend_nodup (xs : List String) : ∀ acc, acc.Nodup → (dedupAppend acc xs).Nodup := by
  induction xs with
  | nil => intro acc h; exact h
  | cons x rest ih =>
    intro acc h
    unfold dedupAppend
    split
    · exact ih acc h
    · rename_i hc
      apply ih
      have hx : x ∉ acc := by simpa using hc
      exact List.nodup_append.2 ⟨h, by simp, by
        intro a ha b hb
        simp only [List.mem_singleton] at hb
        subst hb
        exact fun heq => hx (heq ▸ ha)⟩

theorem mem_dedupAppend (xs : List String) : ∀ acc k, k ∈ dedupAppend acc xs ↔ k ∈ acc ∨ k ∈ xs := by
  induction xs with
  | nil => intro acc k; simp [dedupAppend]
  | cons x rest ih =>
    intro acc k
    rw [dedupAppend]
    split
    · rename_i hc
      have hx : x ∈ acc := by simpa using hc
      rw [ih]
      constructor
      · rintro (h | h)
        · exact Or.inl h
        · exact Or.inr (List.mem_cons_of_mem _ h)
      · rintro (h | h)
        · exact Or.inl h
        · rcases List.mem_cons.1 h with h | h
          · exact Or.inl (h ▸ hx)
          · exact Or.inr h
    · rw [ih]
      simp only [List.mem_append, List.mem_singleton, List.mem_cons, List.not_mem_nil, or_false]
      constructor
      · rintro ((h | h) | h)
        · exact Or.inl h
        · exact Or.inr (Or.inl h)
        · exact Or.inr (Or.inr h)
      · rintro (h | h | h)
        · exact Or.inl (Or.inl h)
        · exact Or.inl (Or.inr h)
        · exact Or.inr h

def tcps (ps : List (Option Producer)) : List String := ps.filterMap (fun p => p.map (·.tcp))

theorem keys_map_same (acc : List Producer) (f : Producer → Producer) (hf : ∀ q, (f q).tcp = q.tcp) :
    keys (acc.map f) = keys acc := by
  simp [keys, List.map_map, Function.comp_def, hf]

theorem keys_contains (acc : List Producer) (k : String) :
    (keys acc).contains k = acc.any (·.tcp == k) := by
  induction acc with
  | nil => rfl
  | cons a as iha =>
    simp only [keys, List.map_cons, List.contains_cons, List.any_cons] at iha ⊢
    rw [iha]
    congr 1
    exact Bool.beq_comm

theorem mergeProducers_keys (fx : Fixes) (lk : String) (ps : List (Option Producer)) :
    ∀ acc r, mergeProducers fx lk ps acc = .ok r → keys r = dedupAppend (keys acc) (tcps ps) := by
  induction ps with
  | nil =>
    intro acc r h
    simp only [mergeProducers, Except.ok.injEq] at h
    subst h
    simp [tcps, dedupAppend]
  | cons p rest ih =>
    intro acc r h
    cases p with
    | none =>
      unfold mergeProducers at h
      split at h
      · simpa [tcps] using ih acc r h
      · cases h
    | some p =>
      unfold mergeProducers at h
      simp only [] at h
      have hcontains := keys_contains acc p.tcp
      split at h
      · rename_i hany
        have := ih _ r h
        rw [this, keys_map_same]
        · simp only [tcps, List.filterMap_cons, Option.map_some]
          rw [dedupAppend]
          simp only [hcontains, hany, if_true]
        · intro q; split <;> rfl
      · rename_i hany
        have := ih _ r h
        rw [this]
        simp only [tcps, List.filterMap_cons, Option.map_some]
        conv => rhs; rw [dedupAppend]
        have hf : acc.any (·.tcp == p.tcp) = false := by
          rw [← Bool.not_eq_true]; exact hany
        simp only [hcontains, hf, Bool.false_eq_true, if_false]
        simp [keys, tcps]

theorem unmarshalProducer_tcp (fx : Fixes) (p : ProducerJSON) (q : Producer)
    (h : unmarshalProducer fx p = .ok q) : q.tcp = p.tcp := by
  unfold unmarshalProducer at h
  cases hz : zipTombs fx p.tombstones p.topics 0 with
  | error e => simp [hz] at h
  | ok pts =>
    simp only [hz, Except.ok.injEq] at h
    subst h
    rfl

theorem unmarshalProducers_tcps (fx : Fixes) (ps : List (Option ProducerJSON)) :
    ∀ dec, unmarshalProducers fx ps = .ok dec →
      tcps dec = ps.filterMap (fun p => p.map (·.tcp)) := by
  induction ps with
  | nil =>
    intro dec h
    simp only [unmarshalProducers, Except.ok.injEq] at h
    subst h
    rfl
  | cons p rest ih =>
    intro dec h
    cases p with
    | none =>
      unfold unmarshalProducers at h
      cases hr : unmarshalProducers fx rest with
      | error e => simp [hr] at h
      | ok r =>
        simp only [hr, Except.ok.injEq] at h
        subst h
        simpa [tcps] using ih r hr
    | some p =>
      unfold unmarshalProducers at h
      cases hq : unmarshalProducer fx p with
      | error e => simp [hq] at h
      | ok q =>
        simp only [hq] at h
        cases hr : unmarshalProducers fx rest with
        | error e => simp [hr] at h
        | ok r =>
          simp only [hr, Except.ok.injEq] at h
          subst h
          have := ih r hr
          simp only [tcps, List.filterMap_cons, Option.map_some] at this ⊢
          rw [this, unmarshalProducer_tcp fx p q hq]

/-- All TCP addresses mentioned by the responding nsqlookupds, in processing order. -/
def mentioned (ls : List Lookupd) : List String :=
  ls.flatMap (fun l => match l.nodes with
    | some ps => ps.filterMap (fun p => p.map (·.tcp))
    | none => [])

theorem dedupAppend_append (xs ys : List String) : ∀ acc,
    dedupAppend acc (xs ++ ys) = dedupAppend (dedupAppend acc xs) ys := by
  induction xs with
  | nil => intro acc; rfl
  | cons x rest ih =>
    intro acc
    simp only [List.cons_append, dedupAppend]
    split <;> exact ih _

theorem lookupdProducersGo_keys (fx : Fixes) (ls : List Lookupd) :
    ∀ acc failed ps f', lookupdProducersGo fx ls acc failed = .ok (ps, f') →
      keys ps = dedupAppend (keys acc) (mentioned ls) := by
  induction ls with
  | nil =>
    intro acc failed ps f' h
    simp only [lookupdProducersGo, Except.ok.injEq, Prod.mk.injEq] at h
    simp [mentioned, dedupAppend, h.1.symm]
  | cons l rest ih =>
    intro acc failed ps f' h
    unfold lookupdProducersGo at h
    cases hn : l.nodes with
    | none =>
      simp only [hn] at h
      have := ih acc (failed + 1) ps f' h
      simpa [mentioned, hn] using this
    | some pj =>
      simp only [hn] at h
      cases hd : unmarshalProducers fx pj with
      | error e => simp [hd] at h
      | ok dec =>
        simp only [hd] at h
        cases hm : mergeProducers fx l.addr dec acc with
        | error e => simp [hm] at h
        | ok acc' =>
          simp only [hm] at h
          have h1 := ih acc' failed ps f' h
          have h2 := mergeProducers_keys fx l.addr dec acc acc' hm
          have h3 := unmarshalProducers_tcps fx pj dec hd
          rw [h1, h2, h3]
          simp only [mentioned, List.flatMap_cons, hn]
          rw [dedupAppend_append]

theorem keys_markOutOfDate (ps : List Producer) : keys (markOutOfDate ps) = keys ps := by
  simp [keys, markOutOfDate, List.map_map, Function.comp_def]

/-- GetLookupdProducers de-duplicates by TCP address over every responding nsqlookupd. -/
theorem lookupdProducers_dedup (fx : Fixes) (ls : List Lookupd) (ps : List Producer) (f : Nat)
    (h : lookupdProducers fx ls = .ok (.got ps f)) :
    (keys ps).Nodup ∧ ∀ k, k ∈ keys ps ↔ k ∈ mentioned ls := by
  unfold lookupdProducers at h
  cases hgo : lookupdProducersGo fx ls [] 0 with
  | error e => simp [hgo] at h
  | ok r0 =>
    obtain ⟨ps0, f0⟩ := r0
    simp only [hgo] at h
    split at h
    · cases h
    · simp only [Except.ok.injEq, Fetched.got.injEq] at h
      obtain ⟨h1, _⟩ := h
      subst h1
      have hk := lookupdProducersGo_keys fx ls [] 0 ps0 f0 hgo
      rw [keys_markOutOfDate, hk]
      refine ⟨dedupAppend_nodup _ _ (by simp [keys]), fun k => ?_⟩
      rw [mem_dedupAppend]
      simp [keys]

end Nsq.Proofs.AggregateDedup
