import Nsq.Proofs.Meta
/-! Invariant I (C06): with the fix, "nothing outstanding" implies `nsqd.dat = marshal (snap mem)`. -/
namespace Nsq.Proofs.Meta
open Nsq.Model.FS Nsq.Model.Meta

variable {β : Type}

/-! ### list lemmas -/

theorem find?_decomp {α} {p : α → Bool} {l : List α} {a : α} (h : l.find? p = some a) :
    p a = true ∧ ∃ l1 l2, l = l1 ++ a :: l2 ∧ ∀ x ∈ l1, p x = false := by
  rw [List.find?_eq_some_iff_append] at h
  obtain ⟨hp, l1, l2, hl, hn⟩ := h
  exact ⟨hp, l1, l2, hl, fun x hx => by simpa using hn x hx⟩

theorem modFirst_decomp {α} {p : α → Bool} (f : α → α) (l1 l2 : List α) (a : α)
    (hn : ∀ x ∈ l1, p x = false) (hp : p a = true) :
    modFirst p f (l1 ++ a :: l2) = l1 ++ f a :: l2 := by
  induction l1 with
  | nil => simp [modFirst, hp]
  | cons x xs ih =>
    have hx : p x = false := hn x (by simp)
    simp [modFirst, hx]
    exact ih (fun y hy => hn y (by simp [hy]))

theorem eraseP_decomp {α} {p : α → Bool} (l1 l2 : List α) (a : α)
    (hn : ∀ x ∈ l1, p x = false) (hp : p a = true) :
    (l1 ++ a :: l2).eraseP p = l1 ++ l2 := by
  induction l1 with
  | nil => simp [List.eraseP_cons, hp]
  | cons x xs ih =>
    have hx : p x = false := hn x (by simp)
    simp [List.eraseP_cons, hx]
    exact ih (fun y hy => hn y (by simp [hy]))

theorem filter_map_modFirst_same {α γ} (p q : α → Bool) (g : α → γ) (f : α → α) (l : List α)
    (hf : ∀ x, q (f x) = q x ∧ g (f x) = g x) :
    ((modFirst p f l).filter q).map g = (l.filter q).map g := by
  induction l with
  | nil => simp [modFirst]
  | cons x xs ih =>
    simp only [modFirst]
    split
    · simp [List.filter_cons, (hf x).1]
      split <;> simp [(hf x).2]
    · simp [List.filter_cons]
      split <;> simp [ih]

/-! ### snapshots of modified maps -/

theorem snap_append (a b : Mem) : snap (a ++ b) = snap a ++ snap b := by
  simp [snap]

theorem snap_cons (t : Topic) (b : Mem) :
    snap (t :: b) = (if t.eph then [] else [snapTopic t]) ++ snap b := by
  simp [snap, List.filter_cons]; split <;> simp_all

theorem snap_modTopic_same (m : Mem) (t : String) (f : Topic → Topic)
    (hf : ∀ x, (f x).eph = x.eph ∧ snapTopic (f x) = snapTopic x) :
    snap (modTopic m t f) = snap m := by
  unfold snap modTopic
  exact filter_map_modFirst_same _ _ _ _ _ (fun x => by simp [(hf x).1, (hf x).2])

/-- modifying an ephemeral topic (which stays ephemeral) is invisible to the snapshot -/
theorem snap_modTopic_eph (m : Mem) (t : String) (f : Topic → Topic) (tp : Topic)
    (hg : getTopic m t = some tp) (he : tp.eph = true) (hfe : (f tp).eph = true) :
    snap (modTopic m t f) = snap m := by
  obtain ⟨hp, l1, l2, hl, hn⟩ := find?_decomp hg
  subst hl
  unfold modTopic
  rw [modFirst_decomp f l1 l2 tp hn hp]
  simp [snap_append, snap_cons, he, hfe]

theorem snap_dropTopic_eph (m : Mem) (t : String) (tp : Topic)
    (hg : getTopic m t = some tp) (he : tp.eph = true) :
    snap (dropTopic m t) = snap m := by
  obtain ⟨hp, l1, l2, hl, hn⟩ := find?_decomp hg
  subst hl
  unfold dropTopic
  rw [eraseP_decomp l1 l2 tp hn hp]
  simp [snap_append, snap_cons, he]

theorem snapTopic_modChan_same (tp : Topic) (c : String) (f : Chan → Chan)
    (hf : ∀ x, (f x).eph = x.eph ∧ snapChan (f x) = snapChan x) :
    snapTopic (modChan tp c f) = snapTopic tp := by
  unfold snapTopic modChan
  simp only
  congr 1
  exact filter_map_modFirst_same _ _ _ _ _ (fun x => by simp [(hf x).1, (hf x).2])

theorem snapTopic_dropChan_eph (tp : Topic) (c : String) (ch : Chan)
    (hg : getChan tp c = some ch) (he : ch.eph = true) :
    snapTopic (dropChan tp c) = snapTopic tp := by
  obtain ⟨hp, l1, l2, hl, hn⟩ := find?_decomp hg
  unfold snapTopic dropChan
  simp only [hl]
  rw [eraseP_decomp l1 l2 ch hn hp]
  simp [List.filter_cons, he]

/-! ### effect of the map operations on the snapshot (tree with the fix) -/

/-- a topic deletion is in progress on a persisted topic (its unlink will request a persist) -/
def exitingNE (m : Mem) : Prop := ∃ t ∈ m, t.exiting = true ∧ t.eph = false

theorem exitingNE_modTopic (m : Mem) (t : String) (f : Topic → Topic)
    (hf : ∀ x, (f x).eph = x.eph ∧ (x.exiting = true → (f x).exiting = true))
    (h : exitingNE m) : exitingNE (modTopic m t f) := by
  unfold modTopic
  induction m with
  | nil => obtain ⟨x, hx, _⟩ := h; simp at hx
  | cons y ys ih =>
    obtain ⟨x, hx, hex, hep⟩ := h
    simp only [modFirst]
    split
    · rcases List.mem_cons.mp hx with rfl | hx'
      · exact ⟨f x, by simp, (hf x).2 hex, by rw [(hf x).1]; exact hep⟩
      · exact ⟨x, by simp [hx'], hex, hep⟩
    · rcases List.mem_cons.mp hx with rfl | hx'
      · exact ⟨x, by simp, hex, hep⟩
      · obtain ⟨z, hz, h1, h2⟩ := ih ⟨x, hx', hex, hep⟩
        exact ⟨z, by simp [hz], h1, h2⟩

theorem memEffect_clean (stamp : Nat) (m : Mem) (ms : MemStep) (r : Mem × Nat × List Handler)
    (h : memEffect true stamp m ms = some r) :
    0 < r.2.1 ∨ r.2.2 ≠ [] ∨ snap r.1 = snap m ∨ exitingNE r.1 := by
  cases ms with
  | createTopic t eph =>
    simp only [memEffect] at h
    split at h; · simp at h
    simp at h; subst h
    cases eph
    · left; simp [b2n]
    · right; right; left; simp [snap_append, snap_cons, snap]
  | createChan t c eph =>
    simp only [memEffect] at h
    split at h; · simp at h
    split at h; · simp at h
    simp at h; subst h
    cases eph
    · left; simp [b2n]
    · right; right; left
      apply snap_modTopic_same
      intro x; simp [snapTopic]
  | delTopicBegin t =>
    simp only [memEffect] at h
    split at h; · simp at h
    split at h; · simp at h
    simp at h; subst h
    right; right; left
    apply snap_modTopic_same
    intro x; simp [snapTopic]
  | delTopicChan t c =>
    simp only [memEffect] at h
    split at h; · simp at h
    rename_i tp hg
    split at h; · simp at h
    rename_i hex
    split at h; · simp at h
    simp at h; subst h
    simp at hex
    cases hte : tp.eph
    · right; right; right
      obtain ⟨hp, l1, l2, hl, hn⟩ := find?_decomp hg
      refine ⟨dropChan tp c, ?_, by simp [dropChan, hex], by simp [dropChan, hte]⟩
      unfold modTopic; rw [hl, modFirst_decomp _ l1 l2 tp hn hp]; simp
    · right; right; left
      exact snap_modTopic_eph m t _ tp hg hte (by simp [dropChan, hte])
  | delTopicUnlink t =>
    simp only [memEffect] at h
    split at h; · simp at h
    rename_i tp hg
    split at h; · simp at h
    simp at h; subst h
    cases hte : tp.eph
    · right; left; simp
    · right; right; left
      exact snap_dropTopic_eph m t tp hg hte
  | delChanBegin t c =>
    simp only [memEffect] at h
    split at h; · simp at h
    split at h; · simp at h
    split at h; · simp at h
    simp at h; subst h
    right; right; left
    apply snap_modTopic_same
    intro x
    refine ⟨by simp [modChan], ?_⟩
    apply snapTopic_modChan_same
    intro y; simp [snapChan]
  | delChanUnlink t c =>
    simp only [memEffect] at h
    split at h; · simp at h
    rename_i tp hg
    split at h; · simp at h
    rename_i ch hc
    split at h; · simp at h
    simp at h; subst h
    cases hce : ch.eph
    · right; left; simp
    · right; right; left
      obtain ⟨hp, l1, l2, hl, hn⟩ := find?_decomp hg
      unfold modTopic; rw [hl, modFirst_decomp _ l1 l2 tp hn hp]
      have := snapTopic_dropChan_eph tp c ch hc hce
      have he : (dropChan tp c).eph = tp.eph := rfl
      simp only [snap_append, snap_cons, this, he]
  | pauseTopic t flag =>
    simp only [memEffect] at h
    split at h; · simp at h
    simp at h; subst h
    right; left; simp
  | pauseChan t c flag =>
    simp only [memEffect] at h
    split at h; · simp at h
    split at h; · simp at h
    simp at h; subst h
    right; left; simp

theorem memEffect_exiting (stamp : Nat) (m : Mem) (ms : MemStep) (r : Mem × Nat × List Handler)
    (hx : exitingNE m) (h : memEffect true stamp m ms = some r) :
    r.2.2 ≠ [] ∨ exitingNE r.1 := by
  cases ms with
  | createTopic t eph =>
    simp only [memEffect] at h
    split at h; · simp at h
    simp at h; subst h
    right
    obtain ⟨x, hm, h1, h2⟩ := hx
    exact ⟨x, by simp [hm], h1, h2⟩
  | createChan t c eph =>
    simp only [memEffect] at h
    split at h; · simp at h
    split at h; · simp at h
    simp at h; subst h
    right; exact exitingNE_modTopic m t _ (fun x => by simp) hx
  | delTopicBegin t =>
    simp only [memEffect] at h
    split at h; · simp at h
    split at h; · simp at h
    simp at h; subst h
    right; exact exitingNE_modTopic m t _ (fun x => by simp) hx
  | delTopicChan t c =>
    simp only [memEffect] at h
    split at h; · simp at h
    split at h; · simp at h
    split at h; · simp at h
    simp at h; subst h
    right; exact exitingNE_modTopic m t _ (fun x => by simp [dropChan]) hx
  | delTopicUnlink t =>
    simp only [memEffect] at h
    split at h; · simp at h
    rename_i tp hg
    split at h; · simp at h
    simp at h; subst h
    cases hte : tp.eph
    · left; simp
    · right
      obtain ⟨hp, l1, l2, hl, hn⟩ := find?_decomp hg
      obtain ⟨x, hm, h1, h2⟩ := hx
      unfold dropTopic; rw [hl, eraseP_decomp l1 l2 tp hn hp]
      rw [hl] at hm
      simp at hm
      rcases hm with hm | rfl | hm
      · exact ⟨x, by simp [hm], h1, h2⟩
      · simp [hte] at h2
      · exact ⟨x, by simp [hm], h1, h2⟩
  | delChanBegin t c =>
    simp only [memEffect] at h
    split at h; · simp at h
    split at h; · simp at h
    split at h; · simp at h
    simp at h; subst h
    right; exact exitingNE_modTopic m t _ (fun x => by simp [modChan]) hx
  | delChanUnlink t c =>
    simp only [memEffect] at h
    split at h; · simp at h
    split at h; · simp at h
    split at h; · simp at h
    simp at h; subst h
    right; exact exitingNE_modTopic m t _ (fun x => by simp [dropChan]) hx
  | pauseTopic t flag =>
    simp only [memEffect] at h
    split at h; · simp at h
    simp at h; subst h
    left; simp
  | pauseChan t c flag =>
    simp only [memEffect] at h
    split at h; · simp at h
    split at h; · simp at h
    simp at h; subst h
    left; simp

/-! ### Invariant I -/

/-- the file, or the persist in progress, is up to date with the live maps -/
def CleanP (cd : Codec β) (s : Sys β) : Prop :=
  (s.persist = none → s.fs.dat = some (cd.marshal (snap s.mem))) ∧
  (∀ p, s.persist = some p →
    (p.phase = .reading → p.done <+: snap s.mem) ∧ (p.phase ≠ .reading → p.done = snap s.mem))

def InvI (cd : Codec β) (s : Sys β) : Prop :=
  s.alive = true → 0 < s.pending ∨ s.handlers ≠ [] ∨ CleanP cd s ∨ exitingNE s.mem

theorem prefix_snoc_getElem {α} (a l : List α) (e : α) (hp : a <+: l) (he : l[a.length]? = some e) :
    a ++ [e] <+: l := by
  obtain ⟨t, rfl⟩ := hp
  cases t with
  | nil => simp at he
  | cons x xs =>
    simp at he; subst he
    exact ⟨xs, by simp⟩

theorem prefix_full {α} (a l : List α) (hp : a <+: l) (he : l[a.length]? = none) : a = l := by
  obtain ⟨t, rfl⟩ := hp
  cases t with
  | nil => simp
  | cons x xs => simp at he

theorem invI_pstep {cd : Codec β} {s s' : Sys β} {ps : PStep} (hA : InvA cd s) (h : InvI cd s)
    (ha : s.alive = true) (hs : pstep cd s ps = some s') : InvI cd s' := by
  have h0 := h ha
  -- steps that keep `pending`, `handlers`, `mem` and only advance the persist
  have keep : ∀ (p p' : Persist) (fs' : FS β) (tk rn : List Doc) (ak : List Ack), s.persist = some p →
      p'.done = p.done → p.phase ≠ .reading → p'.phase ≠ .reading →
      InvI cd { s with persist := some p', fs := fs', taken := tk, renamed := rn, acks := ak } := by
    intro p p' fs' tk rn ak hp hd h1 h2 _
    rcases h0 with h0 | h0 | h0 | h0
    · exact Or.inl h0
    · exact Or.inr (Or.inl h0)
    · refine Or.inr (Or.inr (Or.inl ⟨by simp, ?_⟩))
      intro q hq; simp at hq; subst hq
      exact ⟨fun hr => absurd hr h2, fun _ => by rw [hd]; exact (h0.2 p hp).2 h1⟩
    · exact Or.inr (Or.inr (Or.inr h0))
  cases ps with
  | beginNotify =>
    simp only [pstep] at hs
    split at hs; · simp at hs
    split at hs; · simp at hs
    simp at hs; subst hs
    intro _
    refine Or.inr (Or.inr (Or.inl ⟨by simp, ?_⟩))
    intro q hq; simp at hq; subst hq; simp
  | beginHandler i =>
    simp only [pstep] at hs
    split at hs; · simp at hs
    split at hs; · simp at hs
    simp at hs; subst hs
    intro _
    refine Or.inr (Or.inr (Or.inl ⟨by simp, ?_⟩))
    intro q hq; simp at hq; subst hq; simp
  | read =>
    simp only [pstep] at hs
    split at hs; · simp at hs
    rename_i p hp
    split at hs; · simp at hs
    rename_i hph
    simp at hph
    split at hs
    · rename_i e he
      simp at hs; subst hs
      intro _
      rcases h0 with h0 | h0 | h0 | h0
      · exact Or.inl h0
      · exact Or.inr (Or.inl h0)
      · refine Or.inr (Or.inr (Or.inl ⟨by simp, ?_⟩))
        intro q hq; simp at hq; subst hq
        exact ⟨fun _ => prefix_snoc_getElem _ _ _ ((h0.2 p hp).1 hph) he, fun hn => absurd hph hn⟩
      · exact Or.inr (Or.inr (Or.inr h0))
    · rename_i he
      simp at hs; subst hs
      intro _
      rcases h0 with h0 | h0 | h0 | h0
      · exact Or.inl h0
      · exact Or.inr (Or.inl h0)
      · refine Or.inr (Or.inr (Or.inl ⟨by simp, ?_⟩))
        intro q hq; simp at hq; subst hq
        exact ⟨fun hr => by simp at hr, fun _ => prefix_full _ _ ((h0.2 p hp).1 hph) he⟩
      · exact Or.inr (Or.inr (Or.inr h0))
  | openTmp r =>
    simp only [pstep] at hs
    split at hs; · simp at hs
    rename_i p hp
    split at hs; · simp at hs
    rename_i hph
    simp at hph
    simp at hs; subst hs
    exact keep p _ _ _ _ _ hp rfl (by simp [hph]) (by simp)
  | writePart k =>
    simp only [pstep] at hs
    split at hs; · simp at hs
    rename_i p hp
    split at hs; · simp at hs
    rename_i hph
    simp at hs; subst hs
    have hnr : p.phase ≠ .reading := by
      intro hr; simp [hr] at hph
    exact keep p _ _ _ _ _ hp rfl hnr (by simp)
  | writeRest =>
    simp only [pstep] at hs
    split at hs; · simp at hs
    rename_i p hp
    split at hs; · simp at hs
    rename_i hph
    simp at hs; subst hs
    have hnr : p.phase ≠ .reading := by
      intro hr; simp [hr] at hph
    exact keep p _ _ _ _ _ hp rfl hnr (by simp)
  | sync =>
    simp only [pstep] at hs
    split at hs; · simp at hs
    rename_i p hp
    split at hs; · simp at hs
    rename_i hph
    simp at hph
    simp at hs; subst hs
    exact keep p _ _ _ _ _ hp rfl (by simp [hph]) (by simp)
  | rename =>
    simp only [pstep] at hs
    split at hs; · simp at hs
    rename_i p hp
    split at hs; · simp at hs
    rename_i hph
    simp at hph
    simp at hs; subst hs
    exact keep p _ _ _ _ _ hp rfl (by simp [hph]) (by simp)
  | finish =>
    simp only [pstep] at hs
    split at hs; · simp at hs
    rename_i p hp
    split at hs; · simp at hs
    rename_i hph
    simp at hph
    simp at hs; subst hs
    intro _
    rcases h0 with h0 | h0 | h0 | h0
    · exact Or.inl h0
    · exact Or.inr (Or.inl h0)
    · refine Or.inr (Or.inr (Or.inl ⟨?_, by simp⟩))
      intro _
      have hd := hA.datEq
      rw [hA.renLast p hp hph] at hd
      have := (h0.2 p hp).2 (by simp [hph])
      simpa [this] using hd
    · exact Or.inr (Or.inr (Or.inr h0))

theorem invI_step {cd : Codec β} {s s' : Sys β} {st : Step} (hA : InvA cd s) (h : InvI cd s)
    (hs : step cd true s st = some s') : InvI cd s' := by
  cases st with
  | start =>
    simp only [step] at hs
    split at hs
    · simp at hs; subst hs; exact h
    · split at hs
      · simp at hs; subst hs; intro _; right; left; simp [boot]
      · split at hs
        · simp at hs; subst hs; intro _; right; left; simp [boot]
        · simp at hs; subst hs; exact h
  | kill =>
    simp only [step] at hs
    split at hs
    · simp at hs; subst hs; intro hc; simp at hc
    · simp at hs
  | exitBegin =>
    simp only [step] at hs
    split at hs; · simp at hs
    simp at hs; subst hs
    intro _; right; left; simp
  | exitEnd =>
    simp only [step] at hs
    split at hs
    · simp at hs; subst hs; intro hc; simp at hc
    · simp at hs
  | mem ms =>
    simp only [step] at hs
    split at hs; · simp at hs
    rename_i hal
    split at hs; · simp at hs
    split at hs; · simp at hs
    rename_i r hr
    simp at hs; subst hs
    intro _
    have h0 := h (by simpa using hal)
    rcases h0 with h0 | h0 | h0 | h0
    · left; show 0 < s.pending + r.2.1; omega
    · right; left; show s.handlers ++ r.2.2 ≠ []; simp [h0]
    · rcases memEffect_clean _ _ _ _ hr with h1 | h1 | h1 | h1
      · left; show 0 < s.pending + r.2.1; omega
      · right; left; show s.handlers ++ r.2.2 ≠ []; simp [h1]
      · right; right; left
        unfold CleanP
        simp only [h1]
        exact h0
      · right; right; right; exact h1
    · rcases memEffect_exiting _ _ _ _ h0 hr with h1 | h1
      · right; left; show s.handlers ++ r.2.2 ≠ []; simp [h1]
      · right; right; right; exact h1
  | persist ps =>
    simp only [step] at hs
    split at hs; · simp at hs
    rename_i hal
    exact invI_pstep hA h (by simpa using hal) hs

theorem invI_init (cd : Codec β) : InvI cd (Sys.init : Sys β) := by
  intro h; simp [Sys.init] at h

theorem reach_invI {cd : Codec β} {s : Sys β} (h : Reach cd true s) : InvI cd s := by
  have : InvA cd s ∧ InvI cd s :=
    reach_induct (fun s => InvA cd s ∧ InvI cd s) ⟨invA_init cd, invI_init cd⟩
      (fun _ _ _ hi hs => ⟨invA_step hi.1 hs, invI_step hi.1 hi.2 hs⟩) s h
  exact this.2

end Nsq.Proofs.Meta
