import Nsq.Model.RelayOpts
/-! Helper lemmas for the option-surface model (`Model/RelayOpts.lean`). -/
namespace Nsq.Proofs.RelayOpts
open Nsq.Model.RelayOpts

theorem cut_none (c : UInt8) (s : Str) (h : c ∉ s) : cut c s = none := by
  induction s with
  | nil => rfl
  | cons b rest ih =>
    simp only [List.mem_cons, not_or] at h
    unfold cut
    simp [Ne.symm h.1, ih h.2]

theorem cut_some (c : UInt8) (s k v : Str) (h : cut c s = some (k, v)) : s = k ++ c :: v ∧ c ∉ k := by
  induction s generalizing k v with
  | nil => simp [cut] at h
  | cons b rest ih =>
    unfold cut at h
    by_cases hb : b = c
    · simp only [hb, if_true, Option.some.injEq, Prod.mk.injEq] at h
      obtain ⟨rfl, rfl⟩ := h
      simp [hb]
    · simp only [hb, if_false] at h
      cases hr : cut c rest with
      | none => simp [hr] at h
      | some kv =>
        obtain ⟨k', v'⟩ := kv
        simp only [hr, Option.some.injEq, Prod.mk.injEq] at h
        obtain ⟨rfl, rfl⟩ := h
        have := ih k' v' hr
        refine ⟨by simp [this.1], ?_⟩
        simp only [List.mem_cons, not_or]
        exact ⟨fun hc => hb hc.symm, this.2⟩

theorem trimLeft_head (s : Str) : ∀ b, (trimLeft s).head? = some b → isSpace b = false := by
  intro b hb
  unfold trimLeft at hb
  have := List.head?_dropWhile_not isSpace s
  rw [hb] at this
  simpa using this

/-- `strings.TrimSpace`: the result neither starts nor ends with an ASCII space -/
theorem trimSpace_last (s : Str) : ∀ b, (trimSpace s).getLast? = some b → isSpace b = false := by
  intro b hb
  unfold trimSpace at hb
  rw [List.getLast?_reverse] at hb
  exact trimLeft_head _ b hb

theorem trimSpace_head (s : Str) : ∀ b, (trimSpace s).head? = some b → isSpace b = false := by
  intro b hb
  unfold trimSpace at hb
  rw [List.head?_reverse] at hb
  -- the last element of a suffix of (trimLeft s).reverse is the last element of that list = head of trimLeft s
  have hsuf : trimLeft (trimLeft s).reverse <:+ (trimLeft s).reverse := by
    unfold trimLeft; exact List.dropWhile_suffix _
  obtain ⟨pre, hpre⟩ := hsuf
  have hne : trimLeft (trimLeft s).reverse ≠ [] := by
    intro h; rw [h] at hb; simp at hb
  have : (trimLeft s).reverse.getLast? = some b := by
    rw [← hpre, List.getLast?_append]
    rw [hb]; rfl
  rw [List.getLast?_reverse] at this
  exact trimLeft_head _ b this

theorem mapGet_mapSet (m : List (Str × Str)) (k v : Str) : mapGet (mapSet m k v) k = some v := by
  induction m with
  | nil => simp [mapSet, mapGet]
  | cons kv rest ih =>
    obtain ⟨k', v'⟩ := kv
    unfold mapSet
    by_cases h : k' = k
    · simp [h, mapGet]
    · simp [h, mapGet, ih]

theorem mapGet_mapSet_ne (m : List (Str × Str)) (k k2 v : Str) (h : k2 ≠ k) :
    mapGet (mapSet m k v) k2 = mapGet m k2 := by
  induction m with
  | nil => simp [mapSet, mapGet, Ne.symm h]
  | cons kv rest ih =>
    obtain ⟨k', v'⟩ := kv
    unfold mapSet
    by_cases h1 : k' = k
    · subst h1; simp [mapGet, Ne.symm h]
    · by_cases h2 : k' = k2
      · subst h2; simp [h, mapGet]
      · simp [h1, h2, mapGet, ih]

theorem foldSteps_snoc (m : List (Str × Str)) (strs : List Str) (s : Str) :
    foldSteps headerStep m (strs ++ [s]) =
      match foldSteps headerStep m strs with
      | .ok m' => headerStep m' s
      | .err => .err
      | .panic => .panic := by
  induction strs generalizing m with
  | nil =>
    simp only [List.nil_append, foldSteps]
    cases headerStep m s <;> rfl
  | cons x rest ih =>
    simp only [List.cons_append, foldSteps]
    cases headerStep m x with
    | ok m' => exact ih m'
    | err => rfl
    | panic => rfl

theorem foldSteps_ok (m m' : List (Str × Str)) (strs : List Str) (h : foldSteps headerStep m strs = .ok m') :
    ∀ s ∈ strs, (parseHeader s).isSome := by
  induction strs generalizing m with
  | nil => simp
  | cons x rest ih =>
    intro s hs
    simp only [foldSteps] at h
    cases hx : headerStep m x with
    | ok m2 =>
      rw [hx] at h
      rcases List.mem_cons.1 hs with rfl | hs
      · unfold headerStep at hx
        cases hp : parseHeader s with
        | none => simp [hp] at hx
        | some kv => simp
      · exact ih m2 h s hs
    | err => rw [hx] at h; cases h
    | panic => rw [hx] at h; cases h

theorem foldSteps_no_panic (m : List (Str × Str)) (strs : List Str) : foldSteps headerStep m strs ≠ .panic := by
  induction strs generalizing m with
  | nil => simp [foldSteps]
  | cons x rest ih =>
    simp only [foldSteps]
    cases hx : headerStep m x with
    | ok m2 => exact ih m2
    | err => simp
    | panic =>
      unfold headerStep at hx
      cases hp : parseHeader x with
      | none => simp [hp] at hx
      | some kv => simp [hp] at hx

theorem mem_dedup (ks : List Str) (k : Str) : k ∈ dedup ks ↔ k ∈ ks := by
  induction ks with
  | nil => simp [dedup]
  | cons x rest ih =>
    simp only [dedup, List.mem_cons, List.mem_filter, ih]
    by_cases h : k = x <;> simp [h]

theorem nodup_dedup (ks : List Str) : (dedup ks).Nodup := by
  induction ks with
  | nil => simp [dedup]
  | cons x rest ih =>
    simp only [dedup, List.nodup_cons, List.mem_filter]
    exact ⟨by simp, ih.filter _⟩

end Nsq.Proofs.RelayOpts
