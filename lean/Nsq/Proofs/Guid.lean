import Nsq.Model.Guid
/-! Helper lemmas about the guid model. -/
namespace Nsq.Proofs.Guid
open Nsq.Model.Guid

theorem not_sle {a b : BitVec 64} : (¬ (BitVec.sle a b = true)) ↔ b.toInt < a.toInt := by
  simp [BitVec.sle]

/-- A successful call returns an id strictly above `lastID` (signed) and records it. -/
theorem newGUID_ok {f : St} {now : BitVec 64} (h : (newGUID f now).2.2 = .none) :
    f.lastID.toInt < (newGUID f now).2.1.toInt ∧ (newGUID f now).1.lastID = (newGUID f now).2.1 := by
  unfold newGUID at h ⊢
  simp only [] at h ⊢
  by_cases h1 : BitVec.slt (BitVec.sshiftRight now 20) f.lastTs = true
  · simp [h1] at h
  · by_cases h2 : (f.lastTs == BitVec.sshiftRight now 20) = true
    · by_cases h3 : ((f.seq + 1#64) &&& 4095#64 == 0#64) = true
      · simp [h1, h2, h3] at h
      · by_cases h4 : BitVec.sle (pack (BitVec.sshiftRight now 20) f.nodeID ((f.seq + 1#64) &&& 4095#64)) f.lastID = true
        · simp [h1, h2, h3, h4] at h
        · simp only [h1, h2, h3, h4, if_false, if_true, Bool.false_eq_true]
          exact ⟨not_sle.mp h4, trivial⟩
    · by_cases h4 : BitVec.sle (pack (BitVec.sshiftRight now 20) f.nodeID 0#64) f.lastID = true
      · simp [h1, h2, h4] at h
      · simp only [h1, h2, h4, if_false, if_true, Bool.false_eq_true]
        exact ⟨not_sle.mp h4, trivial⟩

/-- A failed call leaves `lastID` untouched. -/
theorem newGUID_err {f : St} {now : BitVec 64} (h : (newGUID f now).2.2 ≠ .none) :
    (newGUID f now).1.lastID = f.lastID := by
  unfold newGUID at h ⊢
  simp only [] at h ⊢
  repeat' split
  all_goals simp_all

/-- `lastID` never decreases. -/
theorem newGUID_lastID_mono (f : St) (now : BitVec 64) :
    f.lastID.toInt ≤ (newGUID f now).1.lastID.toInt := by
  by_cases h : (newGUID f now).2.2 = .none
  · have := newGUID_ok h; rw [this.2]; omega
  · rw [newGUID_err h]; exact Int.le_refl _

theorem nodeID_const (f : St) (now : BitVec 64) : (newGUID f now).1.nodeID = f.nodeID := by
  unfold newGUID
  simp only []
  repeat' split
  all_goals rfl

theorem run_gt (f : St) (clock : List (BitVec 64)) :
    ∀ x ∈ run f clock, f.lastID.toInt < x.toInt := by
  induction clock generalizing f with
  | nil => intro x hx; simp [run] at hx
  | cons now rest ih =>
    intro x hx
    unfold run at hx
    simp only [] at hx
    split at hx
    · next hok =>
      have ⟨h1, h2⟩ := newGUID_ok hok
      rcases List.mem_cons.mp hx with rfl | hx
      · exact h1
      · have := ih _ x hx
        rw [h2] at this; omega
    · next herr =>
      have := ih _ x hx
      rw [newGUID_err herr] at this; exact this

theorem run_pairwise (f : St) (clock : List (BitVec 64)) :
    (run f clock).Pairwise (fun a b => a.toInt < b.toInt) := by
  induction clock generalizing f with
  | nil => simp [run]
  | cons now rest ih =>
    unfold run
    simp only []
    split
    · next hok =>
      refine List.pairwise_cons.mpr ⟨?_, ih _⟩
      intro x hx
      have := run_gt _ rest x hx
      rw [(newGUID_ok hok).2] at this; exact this
    · exact ih _

theorem runSt_lastID_mono (f : St) (clock : List (BitVec 64)) :
    f.lastID.toInt ≤ (runSt f clock).lastID.toInt := by
  induction clock generalizing f with
  | nil => exact Int.le_refl _
  | cons now rest ih =>
    unfold runSt
    exact Int.le_trans (newGUID_lastID_mono f now) (ih _)

/-- every id ever returned is ≤ the current lastID -/
theorem run_le_lastID (f : St) (clock : List (BitVec 64)) :
    ∀ x ∈ run f clock, x.toInt ≤ (runSt f clock).lastID.toInt := by
  induction clock generalizing f with
  | nil => intro x hx; simp [run] at hx
  | cons now rest ih =>
    intro x hx
    unfold run at hx
    unfold runSt
    simp only [] at hx
    split at hx
    · next hok =>
      rcases List.mem_cons.mp hx with rfl | hx
      · have := runSt_lastID_mono (newGUID f now).1 rest
        rw [(newGUID_ok hok).2] at this; exact this
      · exact ih _ x hx
    · exact ih _ x hx

theorem generateID_some {f : St} {clock : List (BitVec 64)} {f' : St} {id : BitVec 64}
    (h : generateID f clock = (f', some id)) : f.lastID.toInt < id.toInt ∧ f'.lastID = id := by
  induction clock generalizing f with
  | nil => simp [generateID] at h
  | cons now rest ih =>
    unfold generateID at h
    simp only [] at h
    split at h
    · next hok =>
      have ⟨h1, h2⟩ := newGUID_ok hok
      simp only [Prod.mk.injEq, Option.some.injEq] at h
      obtain ⟨rfl, rfl⟩ := h
      exact ⟨h1, h2⟩
    · next herr =>
      have ⟨h1, h2⟩ := ih h
      rw [newGUID_err herr] at h1
      exact ⟨h1, h2⟩

end Nsq.Proofs.Guid
