import Nsq.Proofs.ProtoV2
/-! The model answers every command as the declarative table `Nsq.Spec.ProtoSpec.allowed` says. -/
namespace Nsq.Proofs.ProtoSpec
open Nsq.Model.ProtoV2 Nsq.Model.Names Nsq.Model.Base10 Nsq.Model Nsq.Spec.ProtoSpec
open Nsq.Proofs.ProtoV2

theorem splitSp_ne_nil : ∀ (l : Bytes), splitSp l ≠ []
  | [] => by simp [splitSp]
  | c :: cs => by
    unfold splitSp
    split
    · simp
    · split <;> simp

/-- Not the "RDY while closing" special case. -/
def Plain (conf : Conf) (s : ConnState) (c : Cmd) : Prop := ¬ (c = .rdy ∧ s.st = .closing ∧ conf.tlsGate = true)

theorem allowed_err (conf : Conf) (s : ConnState) (cmd : Bytes) (tl : List Bytes) (rest : Bytes) (d : Defect)
    (hp : Plain conf s (classify cmd)) (hd : d ∈ allDefects)
    (h : hasDefect conf s (cmd :: tl) rest (classify cmd) d = true) :
    (some (.err (codeOf (classify cmd) d).1), (codeOf (classify cmd) d).2) ∈ allowed conf s (cmd :: tl) rest := by
  have hmem : d ∈ defects conf s (cmd :: tl) rest := by
    unfold defects
    simp only [List.headD_cons]
    exact List.mem_filter.mpr ⟨hd, h⟩
  have hne : defects conf s (cmd :: tl) rest ≠ [] := fun e => by rw [e] at hmem; cases hmem
  unfold allowed
  simp only [List.headD_cons]
  split
  · rename_i h'; exact absurd h' hp
  · first
      | exact List.mem_map.mpr ⟨d, hmem, rfl⟩
      | (split
         · rename_i h'; exact absurd h' hne
         · exact List.mem_map.mpr ⟨d, hmem, rfl⟩)

theorem allowed_ok (conf : Conf) (s : ConnState) (cmd : Bytes) (tl : List Bytes) (rest : Bytes)
    (hp : Plain conf s (classify cmd))
    (h : ∀ d ∈ allDefects, hasDefect conf s (cmd :: tl) rest (classify cmd) d = false) :
    (successReply conf (classify cmd) (conf.decode (bodyOf rest)), false) ∈ allowed conf s (cmd :: tl) rest := by
  have hnil : defects conf s (cmd :: tl) rest = [] := by
    unfold defects
    simp only [List.headD_cons]
    rw [List.filter_eq_nil_iff]
    intro d hd
    rw [h d hd]
    simp
  unfold allowed
  simp only [List.headD_cons]
  split
  · rename_i h'; exact absurd h' hp
  · first
      | exact List.mem_singleton.mpr rfl
      | (split
         · exact List.mem_singleton.mpr rfl
         · rename_i h'; exact absurd hnil h')

theorem bodyOk_of_readBody (limit : Int) (rest body r : Bytes) (h : readBody limit rest = .ok body r) :
    bodyOk limit rest = true ∧ bodyOf rest = body := by
  unfold readBody at h
  unfold bodyOk bodyOf
  split at h
  · simp at h
  · rename_i n r' heq
    rw [heq]
    split at h
    · simp at h
    · split at h
      · simp at h
      · split at h
        · simp at h
        · split at h
          · simp at h
          · simp at h
            obtain ⟨rfl, _⟩ := h
            refine ⟨?_, rfl⟩
            simp only [Bool.and_eq_true, decide_eq_true_eq]
            omega

theorem bodyOk_false_of_readBody (limit : Int) (rest : Bytes) (h : readBody limit rest = .bad) :
    bodyOk limit rest = false := by
  unfold readBody at h
  unfold bodyOk
  split at h
  · rename_i heq; rw [heq]
  · rename_i n r' heq
    rw [heq]
    simp only
    repeat' split at h
    all_goals first
      | (simp at h; done)
      | (simp only [Bool.and_eq_false_iff, decide_eq_false_iff_not]; omega)


theorem allowed_err' (conf : Conf) (s : ConnState) (cmd : Bytes) (tl : List Bytes) (rest : Bytes) (c : Cmd)
    (d : Defect) (hc : classify cmd = c) (hp : Plain conf s c) (hd : d ∈ allDefects)
    (h : hasDefect conf s (cmd :: tl) rest c d = true) :
    (some (.err (codeOf c d).1), (codeOf c d).2) ∈ allowed conf s (cmd :: tl) rest := by
  subst hc; exact allowed_err conf s cmd tl rest d hp hd h

theorem allowed_ok' (conf : Conf) (s : ConnState) (cmd : Bytes) (tl : List Bytes) (rest : Bytes) (c : Cmd)
    (hc : classify cmd = c) (hp : Plain conf s c)
    (h : ∀ d ∈ allDefects, hasDefect conf s (cmd :: tl) rest c d = false) :
    (successReply conf c (conf.decode (bodyOf rest)), false) ∈ allowed conf s (cmd :: tl) rest := by
  subst hc; exact allowed_ok conf s cmd tl rest hp h

/-- The result of a step as the table sees it. -/
def outcome (x : Step) : Option Reply × Bool := (x.reply, decide (x.ctl = .close))

syntax "nodefect" "[" Lean.Parser.Tactic.simpLemma,* "]" : tactic
macro_rules
  | `(tactic| nodefect [$ts,*]) =>
    `(tactic| (intro d hd
               cases d <;>
                 simp [hasDefect, takesTopic, isPublish, takesId, minParams, param, $ts,*] <;>
                 (try (first | omega | (apply decide_eq_false; omega)))))

theorem auth_mem (code : Code) : Defect.auth code ∈ allDefects := by cases code <;> decide
theorem batch_mem (code : Code) : Defect.batch code ∈ allDefects := by cases code <;> decide

theorem pub_refines (conf : Conf) (s : ConnState) (b : Broker) (tl : List Bytes) (rest : Bytes)
    (htls : conf.tlsGate = true) :
    outcome (pub conf s b (cPUB :: tl) rest) ∈ allowed conf s (cPUB :: tl) rest := by
  have hc : classify cPUB = .pub := by decide
  have hp : Plain conf s .pub := by simp [Plain]
  unfold pub
  cases tl with
  | nil =>
    exact allowed_err' conf s cPUB [] rest .pub .params hc hp (by decide) (by simp [hasDefect, minParams])
  | cons t tl' =>
    simp only
    by_cases hv : isValidName t = true
    · simp only [hv, Bool.not_true, Bool.false_eq_true, if_false]
      unfold pubBody
      cases hb : readBody conf.maxMsgSize rest with
      | bad =>
        have := bodyOk_false_of_readBody _ _ hb
        exact allowed_err' conf s cPUB _ rest .pub .bodySize hc hp (by decide) (by simp [hasDefect, this])
      | panic => exact absurd hb (readBody_ne_panic _ _)
      | ok body r =>
        obtain ⟨hok, hbo⟩ := bodyOk_of_readBody _ _ _ _ hb
        cases ha : conf.authGate with
        | some code =>
          exact allowed_err' conf s cPUB _ rest .pub (.auth code) hc hp (auth_mem code)
            (by simp [hasDefect, takesTopic, isPublish, ha])
        | none =>
          refine allowed_ok' conf s cPUB _ rest .pub hc hp ?_
          nodefect [stateOk, hv, hok, ha, htls]
    · have hv' : isValidName t = false := by simpa using hv
      simp only [hv', Bool.not_false, if_true]
      exact allowed_err' conf s cPUB _ rest .pub .topicName hc hp (by decide)
        (by simp [hasDefect, takesTopic, isPublish, param, hv'])

theorem dpub_refines (conf : Conf) (s : ConnState) (b : Broker) (tl : List Bytes) (rest : Bytes)
    (htls : conf.tlsGate = true) :
    outcome (dpub conf s b (cDPUB :: tl) rest) ∈ allowed conf s (cDPUB :: tl) rest := by
  have hc : classify cDPUB = .dpub := by decide
  have hp : Plain conf s .dpub := by simp [Plain]
  unfold dpub
  match tl with
  | [] => exact allowed_err' conf s cDPUB [] rest .dpub .params hc hp (by decide) (by simp [hasDefect, minParams])
  | [t] => exact allowed_err' conf s cDPUB [t] rest .dpub .params hc hp (by decide) (by simp [hasDefect, minParams])
  | t :: d :: tl' =>
    simp only
    by_cases hv : isValidName t = true
    · simp only [hv, Bool.not_true, Bool.false_eq_true, if_false]
      cases hn : byteToBase10 d with
      | none =>
        exact allowed_err' conf s cDPUB _ rest .dpub .number hc hp (by decide) (by simp [hasDefect, param, hn])
      | some ms =>
        simp only
        by_cases hr : msToDuration ms < 0 ∨ msToDuration ms > conf.maxReqTimeoutNs
        · rw [if_pos hr]
          exact allowed_err' conf s cDPUB _ rest .dpub .range hc hp (by decide) (by simp [hasDefect, param, hn, hr])
        · rw [if_neg hr]
          unfold pubBody
          cases hb : readBody conf.maxMsgSize rest with
          | bad =>
            have := bodyOk_false_of_readBody _ _ hb
            exact allowed_err' conf s cDPUB _ rest .dpub .bodySize hc hp (by decide) (by simp [hasDefect, this])
          | panic => exact absurd hb (readBody_ne_panic _ _)
          | ok body r =>
            obtain ⟨hok, hbo⟩ := bodyOk_of_readBody _ _ _ _ hb
            cases ha : conf.authGate with
            | some code =>
              exact allowed_err' conf s cDPUB _ rest .dpub (.auth code) hc hp (auth_mem code)
                (by simp [hasDefect, takesTopic, isPublish, ha])
            | none =>
              refine allowed_ok' conf s cDPUB _ rest .dpub hc hp ?_
              nodefect [stateOk, hv, hok, ha, htls, hn, hr]
    · have hv' : isValidName t = false := by simpa using hv
      simp only [hv', Bool.not_false, if_true]
      exact allowed_err' conf s cDPUB _ rest .dpub .topicName hc hp (by decide)
        (by simp [hasDefect, takesTopic, isPublish, param, hv'])

theorem mpub_refines (conf : Conf) (s : ConnState) (b : Broker) (tl : List Bytes) (rest : Bytes)
    (htls : conf.tlsGate = true) :
    outcome (mpub conf s b (cMPUB :: tl) rest) ∈ allowed conf s (cMPUB :: tl) rest := by
  have hc : classify cMPUB = .mpub := by decide
  have hp : Plain conf s .mpub := by simp [Plain]
  unfold mpub
  cases tl with
  | nil =>
    exact allowed_err' conf s cMPUB [] rest .mpub .params hc hp (by decide) (by simp [hasDefect, minParams])
  | cons t tl' =>
    simp only
    by_cases hv : isValidName t = true
    · simp only [hv, Bool.not_true, Bool.false_eq_true, if_false]
      cases ha : conf.authGate with
      | some code =>
        exact allowed_err' conf s cMPUB _ rest .mpub (.auth code) hc hp (auth_mem code)
          (by simp [hasDefect, takesTopic, isPublish, ha])
      | none =>
        simp only
        cases hl : readLen rest with
        | none =>
          exact allowed_err' conf s cMPUB _ rest .mpub .bodySize hc hp (by decide)
            (by simp [hasDefect, mpubSizeOk, hl])
        | some nr =>
          obtain ⟨n, r⟩ := nr
          simp only
          by_cases h0 : n ≤ 0
          · rw [if_pos h0]
            have : ¬ (1 ≤ n) := by omega
            exact allowed_err' conf s cMPUB _ rest .mpub .bodySize hc hp (by decide)
              (by simp [hasDefect, mpubSizeOk, hl, this])
          · rw [if_neg h0]
            by_cases h1 : n > conf.maxBodySize
            · rw [if_pos h1]
              have : ¬ (n ≤ conf.maxBodySize) := by omega
              exact allowed_err' conf s cMPUB _ rest .mpub .bodySize hc hp (by decide)
                (by simp [hasDefect, mpubSizeOk, hl, this])
            · rw [if_neg h1]
              have hsz : mpubSizeOk conf rest = true := by
                simp only [mpubSizeOk, hl, Bool.and_eq_true, decide_eq_true_eq]; omega
              cases hm : Mpub.readMPUB conf.maxMsgSize conf.maxBodySize (r.take n.toNat) with
              | err code =>
                exact allowed_err' conf s cMPUB _ rest .mpub (.batch code) hc hp (batch_mem code)
                  (by simp [hasDefect, hsz, mpubBatch, hl, hm])
              | panic => exact absurd hm (readMPUB_ne_panic _ _ _)
              | ok bodies r2 =>
                refine allowed_ok' conf s cMPUB _ rest .mpub hc hp ?_
                nodefect [stateOk, hv, ha, htls, hsz, mpubBatch, hl, hm]
    · have hv' : isValidName t = false := by simpa using hv
      simp only [hv', Bool.not_false, if_true]
      exact allowed_err' conf s cMPUB _ rest .mpub .topicName hc hp (by decide)
        (by simp [hasDefect, takesTopic, isPublish, param, hv'])


theorem st_cases (st : St) : st = .init ∨ st = .subscribed ∨ st = .closing := by cases st <;> simp

theorem fin_refines (conf : Conf) (s : ConnState) (b : Broker) (tl : List Bytes) (rest : Bytes)
    (htls : conf.tlsGate = true) :
    outcome (fin s b (cFIN :: tl) rest) ∈ allowed conf s (cFIN :: tl) rest := by
  have hc : classify cFIN = .fin := by decide
  have hp : Plain conf s .fin := by simp [Plain]
  unfold fin
  by_cases hst : s.st ≠ .subscribed ∧ s.st ≠ .closing
  · rw [if_pos hst]
    exact allowed_err' conf s cFIN _ rest .fin .wrongState hc hp (by decide)
      (by rcases st_cases s.st with h | h | h <;> simp_all [hasDefect, stateOk])
  · rw [if_neg hst]
    have hso : stateOk .fin s.st = true := by
      rcases st_cases s.st with h | h | h <;> simp_all [stateOk]
    cases tl with
    | nil => exact allowed_err' conf s cFIN [] rest .fin .params hc hp (by decide) (by simp [hasDefect, minParams])
    | cons id tl' =>
      simp only
      by_cases hid : id.length ≠ 16
      · rw [if_pos hid]
        exact allowed_err' conf s cFIN _ rest .fin .messageId hc hp (by decide)
          (by simp [hasDefect, takesId, param, hid])
      · rw [if_neg hid]
        by_cases hin : id ∈ s.inflight
        · rw [if_pos hin]
          refine allowed_ok' conf s cFIN _ rest .fin hc hp ?_
          nodefect [hso, htls, hid, hin]
        · rw [if_neg hin]
          exact allowed_err' conf s cFIN _ rest .fin .notInFlight hc hp (by decide)
            (by simp [hasDefect, takesId, param, hin])

theorem touch_refines (conf : Conf) (s : ConnState) (b : Broker) (tl : List Bytes) (rest : Bytes)
    (htls : conf.tlsGate = true) :
    outcome (touch s b (cTOUCH :: tl) rest) ∈ allowed conf s (cTOUCH :: tl) rest := by
  have hc : classify cTOUCH = .touch := by decide
  have hp : Plain conf s .touch := by simp [Plain]
  unfold touch
  by_cases hst : s.st ≠ .subscribed ∧ s.st ≠ .closing
  · rw [if_pos hst]
    exact allowed_err' conf s cTOUCH _ rest .touch .wrongState hc hp (by decide)
      (by rcases st_cases s.st with h | h | h <;> simp_all [hasDefect, stateOk])
  · rw [if_neg hst]
    have hso : stateOk .touch s.st = true := by
      rcases st_cases s.st with h | h | h <;> simp_all [stateOk]
    cases tl with
    | nil => exact allowed_err' conf s cTOUCH [] rest .touch .params hc hp (by decide) (by simp [hasDefect, minParams])
    | cons id tl' =>
      simp only
      by_cases hid : id.length ≠ 16
      · rw [if_pos hid]
        exact allowed_err' conf s cTOUCH _ rest .touch .messageId hc hp (by decide)
          (by simp [hasDefect, takesId, param, hid])
      · rw [if_neg hid]
        by_cases hin : id ∈ s.inflight
        · rw [if_pos hin]
          refine allowed_ok' conf s cTOUCH _ rest .touch hc hp ?_
          nodefect [hso, htls, hid, hin]
        · rw [if_neg hin]
          exact allowed_err' conf s cTOUCH _ rest .touch .notInFlight hc hp (by decide)
            (by simp [hasDefect, takesId, param, hin])

theorem req_refines (conf : Conf) (s : ConnState) (b : Broker) (tl : List Bytes) (rest : Bytes)
    (htls : conf.tlsGate = true) :
    outcome (req conf s b (cREQ :: tl) rest) ∈ allowed conf s (cREQ :: tl) rest := by
  have hc : classify cREQ = .req := by decide
  have hp : Plain conf s .req := by simp [Plain]
  unfold req
  by_cases hst : s.st ≠ .subscribed ∧ s.st ≠ .closing
  · rw [if_pos hst]
    exact allowed_err' conf s cREQ _ rest .req .wrongState hc hp (by decide)
      (by rcases st_cases s.st with h | h | h <;> simp_all [hasDefect, stateOk])
  · rw [if_neg hst]
    have hso : stateOk .req s.st = true := by
      rcases st_cases s.st with h | h | h <;> simp_all [stateOk]
    match tl with
    | [] => exact allowed_err' conf s cREQ [] rest .req .params hc hp (by decide) (by simp [hasDefect, minParams])
    | [x] => exact allowed_err' conf s cREQ [x] rest .req .params hc hp (by decide) (by simp [hasDefect, minParams])
    | id :: t :: tl' =>
      simp only
      by_cases hid : id.length ≠ 16
      · rw [if_pos hid]
        exact allowed_err' conf s cREQ _ rest .req .messageId hc hp (by decide)
          (by simp [hasDefect, takesId, param, hid])
      · rw [if_neg hid]
        cases hn : byteToBase10 t with
        | none =>
          exact allowed_err' conf s cREQ _ rest .req .number hc hp (by decide) (by simp [hasDefect, param, hn])
        | some ms =>
          simp only
          by_cases hin : id ∈ s.inflight
          · rw [if_pos hin]
            refine allowed_ok' conf s cREQ _ rest .req hc hp ?_
            nodefect [hso, htls, hid, hin, hn]
          · rw [if_neg hin]
            exact allowed_err' conf s cREQ _ rest .req .notInFlight hc hp (by decide)
              (by simp [hasDefect, takesId, param, hin])

theorem cls_refines (conf : Conf) (s : ConnState) (b : Broker) (tl : List Bytes) (rest : Bytes)
    (htls : conf.tlsGate = true) :
    outcome (cls s b rest) ∈ allowed conf s (cCLS :: tl) rest := by
  have hc : classify cCLS = .cls := by decide
  have hp : Plain conf s .cls := by simp [Plain]
  unfold cls
  by_cases hst : s.st ≠ .subscribed
  · rw [if_pos hst]
    exact allowed_err' conf s cCLS _ rest .cls .wrongState hc hp (by decide)
      (by rcases st_cases s.st with h | h | h <;> simp_all [hasDefect, stateOk])
  · rw [if_neg hst]
    have hs : s.st = .subscribed := by simpa using hst
    refine allowed_ok' conf s cCLS _ rest .cls hc hp ?_
    nodefect [stateOk, htls, hs]

theorem nop_refines (conf : Conf) (s : ConnState) (b : Broker) (tl : List Bytes) (rest : Bytes)
    (htls : conf.tlsGate = true) :
    outcome (done none s b rest []) ∈ allowed conf s (cNOP :: tl) rest := by
  have hc : classify cNOP = .nop := by decide
  have hp : Plain conf s .nop := by simp [Plain]
  refine allowed_ok' conf s cNOP _ rest .nop hc hp ?_
  nodefect [stateOk, htls]

theorem rdy_refines (conf : Conf) (s : ConnState) (b : Broker) (tl : List Bytes) (rest : Bytes)
    (htls : conf.tlsGate = true) :
    outcome (rdy conf s b (cRDY :: tl) rest) ∈ allowed conf s (cRDY :: tl) rest := by
  have hc : classify cRDY = .rdy := by decide
  unfold rdy
  by_cases hcl : s.st = .closing
  · rw [if_pos hcl]
    unfold allowed
    simp only [List.headD_cons, hc, hcl, htls, and_self, if_true]
    exact List.mem_singleton.mpr rfl
  · rw [if_neg hcl]
    have hp : Plain conf s .rdy := by simp [Plain, hcl]
    by_cases hst : s.st ≠ .subscribed
    · rw [if_pos hst]
      exact allowed_err' conf s cRDY _ rest .rdy .wrongState hc hp (by decide)
        (by rcases st_cases s.st with h | h | h <;> simp_all [hasDefect, stateOk])
    · rw [if_neg hst]
      have hs : s.st = .subscribed := by simpa using hst
      cases tl with
      | nil =>
        simp only
        unfold rdySet
        by_cases hr : (1 : Int) < 0 ∨ (1 : Int) > conf.maxRdy
        · rw [if_pos hr]
          have : (1 : Int) > conf.maxRdy := by omega
          exact allowed_err' conf s cRDY _ rest .rdy .range hc hp (by decide) (by simp [hasDefect, param, this])
        · rw [if_neg hr]
          have : ¬ ((1 : Int) > conf.maxRdy) := by omega
          refine allowed_ok' conf s cRDY _ rest .rdy hc hp ?_
          nodefect [stateOk, htls, hs, this]
      | cons p tl' =>
        simp only
        cases hn : byteToBase10 p with
        | none =>
          exact allowed_err' conf s cRDY _ rest .rdy .number hc hp (by decide) (by simp [hasDefect, param, hn])
        | some v =>
          simp only
          unfold rdySet
          by_cases hr : toInt64 v < 0 ∨ toInt64 v > conf.maxRdy
          · rw [if_pos hr]
            exact allowed_err' conf s cRDY _ rest .rdy .range hc hp (by decide) (by simp [hasDefect, param, hn, hr])
          · rw [if_neg hr]
            refine allowed_ok' conf s cRDY _ rest .rdy hc hp ?_
            nodefect [stateOk, htls, hs, hn, hr]

theorem sub_refines (conf : Conf) (s : ConnState) (b : Broker) (tl : List Bytes) (rest : Bytes)
    (htls : conf.tlsGate = true) :
    outcome (sub conf s b (cSUB :: tl) rest) ∈ allowed conf s (cSUB :: tl) rest := by
  have hc : classify cSUB = .sub := by decide
  have hp : Plain conf s .sub := by simp [Plain]
  unfold sub
  by_cases hst : s.st ≠ .init
  · rw [if_pos hst]
    exact allowed_err' conf s cSUB _ rest .sub .wrongState hc hp (by decide)
      (by rcases st_cases s.st with h | h | h <;> simp_all [hasDefect, stateOk])
  · rw [if_neg hst]
    have hs : s.st = .init := by simpa using hst
    by_cases hhb : s.hbNs ≤ 0
    · rw [if_pos hhb]
      exact allowed_err' conf s cSUB _ rest .sub .heartbeatsOff hc hp (by decide) (by simp [hasDefect, hhb])
    · rw [if_neg hhb]
      match tl with
      | [] => exact allowed_err' conf s cSUB [] rest .sub .params hc hp (by decide) (by simp [hasDefect, minParams])
      | [x] => exact allowed_err' conf s cSUB [x] rest .sub .params hc hp (by decide) (by simp [hasDefect, minParams])
      | t :: c :: tl' =>
        simp only
        by_cases hv : isValidName t = true
        · simp only [hv, Bool.not_true, Bool.false_eq_true, if_false]
          by_cases hvc : isValidName c = true
          · simp only [hvc, Bool.not_true, Bool.false_eq_true, if_false]
            cases ha : conf.authGate with
            | some code =>
              exact allowed_err' conf s cSUB _ rest .sub (.auth code) hc hp (auth_mem code)
                (by simp [hasDefect, takesTopic, ha])
            | none =>
              refine allowed_ok' conf s cSUB _ rest .sub hc hp ?_
              nodefect [stateOk, htls, hs, hhb, hv, hvc, ha]
          · have hvc' : isValidName c = false := by simpa using hvc
            simp only [hvc', Bool.not_false, if_true]
            exact allowed_err' conf s cSUB _ rest .sub .channelName hc hp (by decide)
              (by simp [hasDefect, param, hvc'])
        · have hv' : isValidName t = false := by simpa using hv
          simp only [hv', Bool.not_false, if_true]
          exact allowed_err' conf s cSUB _ rest .sub .topicName hc hp (by decide)
            (by simp [hasDefect, takesTopic, param, hv'])

theorem auth_refines (conf : Conf) (s : ConnState) (b : Broker) (tl : List Bytes) (rest : Bytes)
    (htls : conf.tlsGate = true) :
    outcome (auth conf s b (cAUTH :: tl) rest) ∈ allowed conf s (cAUTH :: tl) rest := by
  have hc : classify cAUTH = .auth := by decide
  have hp : Plain conf s .auth := by simp [Plain]
  unfold auth
  by_cases hst : s.st ≠ .init
  · rw [if_pos hst]
    exact allowed_err' conf s cAUTH _ rest .auth .wrongState hc hp (by decide)
      (by rcases st_cases s.st with h | h | h <;> simp_all [hasDefect, stateOk])
  · rw [if_neg hst]
    have hs : s.st = .init := by simpa using hst
    by_cases hpn : (cAUTH :: tl).length ≠ 1
    · rw [if_pos hpn]
      have hne : tl ≠ [] := by
        intro h; apply hpn; simp [h]
      exact allowed_err' conf s cAUTH _ rest .auth .params hc hp (by decide) (by simp [hasDefect, hne])
    · rw [if_neg hpn]
      cases hb : readBody conf.maxBodySize rest with
      | bad =>
        have := bodyOk_false_of_readBody _ _ hb
        exact allowed_err' conf s cAUTH _ rest .auth .bodySize hc hp (by decide) (by simp [hasDefect, this])
      | panic => exact absurd hb (readBody_ne_panic _ _)
      | ok body r =>
        obtain ⟨hok, hbo⟩ := bodyOk_of_readBody _ _ _ _ hb
        simp only
        unfold authStep
        have hlen : tl.length = 0 := by simp at hpn; simpa using hpn
        cases ha : conf.authCmd with
        | alreadySet =>
          exact allowed_err' conf s cAUTH _ rest .auth (.auth .E_INVALID) hc hp (by decide)
            (by simp [hasDefect, takesTopic, isPublish, ha])
        | disabled =>
          exact allowed_err' conf s cAUTH _ rest .auth (.auth .E_AUTH_DISABLED) hc hp (by decide)
            (by simp [hasDefect, takesTopic, isPublish, ha])
        | failed =>
          exact allowed_err' conf s cAUTH _ rest .auth (.auth .E_AUTH_FAILED) hc hp (by decide)
            (by simp [hasDefect, takesTopic, isPublish, ha])
        | noAuthz =>
          exact allowed_err' conf s cAUTH _ rest .auth (.auth .E_UNAUTHORIZED) hc hp (by decide)
            (by simp [hasDefect, takesTopic, isPublish, ha])
        | ok =>
          refine allowed_ok' conf s cAUTH _ rest .auth hc hp ?_
          nodefect [stateOk, htls, hs, hok, ha, hlen]

theorem identify_refines (conf : Conf) (s : ConnState) (b : Broker) (tl : List Bytes) (rest : Bytes) :
    outcome (identify conf s b rest) ∈ allowed conf s (cIDENTIFY :: tl) rest := by
  have hc : classify cIDENTIFY = .identify := by decide
  have hp : Plain conf s .identify := by simp [Plain]
  unfold identify
  by_cases hst : s.st ≠ .init
  · rw [if_pos hst]
    exact allowed_err' conf s cIDENTIFY _ rest .identify .wrongState hc hp (by decide)
      (by rcases st_cases s.st with h | h | h <;> simp_all [hasDefect, stateOk])
  · rw [if_neg hst]
    have hs : s.st = .init := by simpa using hst
    cases hb : readBody conf.maxBodySize rest with
    | bad =>
      have := bodyOk_false_of_readBody _ _ hb
      exact allowed_err' conf s cIDENTIFY _ rest .identify .bodySize hc hp (by decide) (by simp [hasDefect, this])
    | panic => exact absurd hb (readBody_ne_panic _ _)
    | ok body r =>
      obtain ⟨hok, hbo⟩ := bodyOk_of_readBody _ _ _ _ hb
      simp only
      cases hd : conf.decode body with
      | none =>
        exact allowed_err' conf s cIDENTIFY _ rest .identify .bodyContent hc hp (by decide)
          (by simp [hasDefect, hok, hbo, hd])
      | some d =>
        simp only
        cases ha : applyIdentify conf s d with
        | none =>
          exact allowed_err' conf s cIDENTIFY _ rest .identify .bodyContent hc hp (by decide)
            (by simp [hasDefect, hok, hbo, hd, ha])
        | some s' =>
          simp only
          by_cases hfn : d.featureNegotiation = true
          · simp only [hfn, Bool.not_true, Bool.false_eq_true, if_false]
            by_cases hboth : ((conf.deflateEnabled && d.deflate) && (conf.snappyEnabled && d.snappy)) = true
            · rw [if_pos hboth]
              exact allowed_err' conf s cIDENTIFY _ rest .identify .compression hc hp (by decide)
                (by simp [hasDefect, hok, hbo, hd, hfn]; simpa using hboth)
            · rw [if_neg hboth]
              have hsucc : successReply conf .identify (conf.decode (bodyOf rest)) = some .json := by
                simp [successReply, hbo, hd, hfn]
              have hno : ∀ d' ∈ allDefects, hasDefect conf s (cIDENTIFY :: tl) rest .identify d' = false := by
                have hboth' : conf.deflateEnabled = true → d.deflate = true → conf.snappyEnabled = true → d.snappy = false := by
                  intro h1 h2 h3
                  cases h4 : d.snappy with
                  | false => rfl
                  | true => exfalso; apply hboth; simp [h1, h2, h3, h4]
                nodefect [stateOk, hs, hok, hbo, hd, ha, hfn, hboth']
              have := allowed_ok' conf s cIDENTIFY tl rest .identify hc hp hno
              rw [hsucc] at this
              split <;> exact this
          · have hfn' : d.featureNegotiation = false := by simpa using hfn
            simp only [hfn', Bool.not_false, if_true]
            have hsucc : successReply conf .identify (conf.decode (bodyOf rest)) = some .ok := by
              simp [successReply, hbo, hd, hfn']
            have hno : ∀ d' ∈ allDefects, hasDefect conf s (cIDENTIFY :: tl) rest .identify d' = false := by
              nodefect [stateOk, hs, hok, hbo, hd, ha, hfn']
            have := allowed_ok' conf s cIDENTIFY tl rest .identify hc hp hno
            rw [hsucc] at this
            exact this


theorem classify_identify (cmd : Bytes) (h : classify cmd = .identify) : cmd = cIDENTIFY := by
  unfold classify at h
  by_cases h1 : cmd = ascii "IDENTIFY"
  · exact h1
  · rw [if_neg h1] at h
    repeat' split at h
    all_goals cases h

/-- Every command is answered as the table allows. -/
theorem exec_refines (conf : Conf) (s : ConnState) (b : Broker) (ps : List Bytes) (rest : Bytes)
    (hps : ps ≠ []) : outcome (exec conf s b ps rest) ∈ allowed conf s ps rest := by
  cases ps with
  | nil => exact absurd rfl hps
  | cons cmd tl =>
    unfold exec
    simp only
    by_cases h1 : cmd = cIDENTIFY
    · subst h1; rw [if_pos rfl]; exact identify_refines conf s b tl rest
    rw [if_neg h1]
    by_cases htls : conf.tlsGate = true
    · have htls' : ¬ ((!conf.tlsGate) = true) := by simp [htls]
      rw [if_neg htls']
      by_cases h2 : cmd = cFIN
      · subst h2; rw [if_pos rfl]; exact fin_refines conf s b tl rest htls
      rw [if_neg h2]
      by_cases h3 : cmd = cRDY
      · subst h3; rw [if_pos rfl]; exact rdy_refines conf s b tl rest htls
      rw [if_neg h3]
      by_cases h4 : cmd = cREQ
      · subst h4; rw [if_pos rfl]; exact req_refines conf s b tl rest htls
      rw [if_neg h4]
      by_cases h5 : cmd = cPUB
      · subst h5; rw [if_pos rfl]; exact pub_refines conf s b tl rest htls
      rw [if_neg h5]
      by_cases h6 : cmd = cMPUB
      · subst h6; rw [if_pos rfl]; exact mpub_refines conf s b tl rest htls
      rw [if_neg h6]
      by_cases h7 : cmd = cDPUB
      · subst h7; rw [if_pos rfl]; exact dpub_refines conf s b tl rest htls
      rw [if_neg h7]
      by_cases h8 : cmd = cNOP
      · subst h8; rw [if_pos rfl]; exact nop_refines conf s b tl rest htls
      rw [if_neg h8]
      by_cases h9 : cmd = cTOUCH
      · subst h9; rw [if_pos rfl]; exact touch_refines conf s b tl rest htls
      rw [if_neg h9]
      by_cases h10 : cmd = cSUB
      · subst h10; rw [if_pos rfl]; exact sub_refines conf s b tl rest htls
      rw [if_neg h10]
      by_cases h11 : cmd = cCLS
      · subst h11; rw [if_pos rfl]; exact cls_refines conf s b tl rest htls
      rw [if_neg h11]
      by_cases h12 : cmd = cAUTH
      · subst h12; rw [if_pos rfl]; exact auth_refines conf s b tl rest htls
      rw [if_neg h12]
      have hu : classify cmd = .unknown := by
        have e1 : ¬ cmd = ascii "IDENTIFY" := h1
        have e2 : ¬ cmd = ascii "FIN" := h2
        have e3 : ¬ cmd = ascii "RDY" := h3
        have e4 : ¬ cmd = ascii "REQ" := h4
        have e5 : ¬ cmd = ascii "PUB" := h5
        have e6 : ¬ cmd = ascii "MPUB" := h6
        have e7 : ¬ cmd = ascii "DPUB" := h7
        have e8 : ¬ cmd = ascii "NOP" := h8
        have e9 : ¬ cmd = ascii "TOUCH" := h9
        have e10 : ¬ cmd = ascii "SUB" := h10
        have e11 : ¬ cmd = ascii "CLS" := h11
        have e12 : ¬ cmd = ascii "AUTH" := h12
        unfold classify
        rw [if_neg e1, if_neg e12, if_neg e10, if_neg e5, if_neg e6, if_neg e7, if_neg e3, if_neg e2, if_neg e4,
          if_neg e9, if_neg e11, if_neg e8]
      have hp : Plain conf s .unknown := by simp [Plain]
      exact allowed_err' conf s cmd tl rest .unknown .unknownCommand hu hp (by decide) (by simp [hasDefect])
    · have htls' : ((!conf.tlsGate) = true) := by simpa using htls
      have htf : conf.tlsGate = false := by simpa using htls
      rw [if_pos htls']
      by_cases hu : classify cmd = .unknown
      · have hp : Plain conf s .unknown := by simp [Plain]
        exact allowed_err' conf s cmd tl rest .unknown .unknownCommand hu hp (by decide) (by simp [hasDefect])
      · have hni : classify cmd ≠ .identify := fun h => h1 (classify_identify cmd h)
        have hp : Plain conf s (classify cmd) := by simp [Plain, htf]
        have hd : hasDefect conf s (cmd :: tl) rest (classify cmd) .tlsRequired = true := by
          simp [hasDefect, htf, hni]
        have := allowed_err conf s cmd tl rest .tlsRequired hp (by decide) hd
        have hco : codeOf (classify cmd) .tlsRequired = (.E_INVALID, true) := by
          cases classify cmd <;> rfl
        rw [hco] at this
        exact this

end Nsq.Proofs.ProtoSpec
