import Nsq.Model.Aggregate
import Nsq.Proofs.Int64
/-!
The integer counters of the cluster view under Go's int64 arithmetic. `Model.Aggregate` computes with `Int`;
nsqadmin's `TopicStats.Add` / `ChannelStats.Add` / `GetNSQDStats` (`MemoryDepth = Depth - BackendDepth`,
`DeliveryMsgCount = Zone + Region + Global`) / `nodeHandler` totals / `counterHandler` use int64 `+`, `-`, `+=`.
Because `wrap64` commutes with `+` and `-`, running everything in int64 gives `wrap64` of the `Int` result,
field by field — so the driver prints `wrap64` of the model's numbers, and the shown value equals the exact
sum iff the exact sum fits into int64.
-/
namespace Nsq.Proofs.AggregateWrap
open Nsq.Model.Aggregate Nsq.Model.Int64 Nsq.Proofs.Int64

def Counters.wrap (c : Counters) : Counters :=
  { depth := wrap64 c.depth, memDepth := wrap64 c.memDepth, backendDepth := wrap64 c.backendDepth,
    inFlight := wrap64 c.inFlight, deferred := wrap64 c.deferred, requeue := wrap64 c.requeue,
    timeout := wrap64 c.timeout, msgCount := wrap64 c.msgCount, delivery := wrap64 c.delivery,
    zoneLocal := wrap64 c.zoneLocal, regionLocal := wrap64 c.regionLocal, globalMsg := wrap64 c.globalMsg,
    clientCount := wrap64 c.clientCount }

/-- `ChannelStats.Add` / `TopicStats.Add` on int64 fields. -/
def Counters.goAdd (a b : Counters) : Counters :=
  { depth := add64 a.depth b.depth, memDepth := add64 a.memDepth b.memDepth,
    backendDepth := add64 a.backendDepth b.backendDepth, inFlight := add64 a.inFlight b.inFlight,
    deferred := add64 a.deferred b.deferred, requeue := add64 a.requeue b.requeue,
    timeout := add64 a.timeout b.timeout, msgCount := add64 a.msgCount b.msgCount,
    delivery := add64 a.delivery b.delivery, zoneLocal := add64 a.zoneLocal b.zoneLocal,
    regionLocal := add64 a.regionLocal b.regionLocal, globalMsg := add64 a.globalMsg b.globalMsg,
    clientCount := add64 a.clientCount b.clientCount }

/-- GetNSQDStats' recomputed fields on int64. -/
def Counters.goDerive (c : Counters) : Counters :=
  { c with memDepth := sub64 c.depth c.backendDepth,
           delivery := add64 (add64 c.zoneLocal c.regionLocal) c.globalMsg }

def Counters.fits (c : Counters) : Prop :=
  inRange c.depth ∧ inRange c.memDepth ∧ inRange c.backendDepth ∧ inRange c.inFlight ∧ inRange c.deferred ∧
  inRange c.requeue ∧ inRange c.timeout ∧ inRange c.msgCount ∧ inRange c.delivery ∧ inRange c.zoneLocal ∧
  inRange c.regionLocal ∧ inRange c.globalMsg ∧ inRange c.clientCount

theorem add64_wrap (a b : Counters) : Counters.goAdd (Counters.wrap a) b = Counters.wrap (a.add b) := by
  simp [Counters.goAdd, Counters.wrap, Counters.add, add64, wrap64_add_left]

theorem foldl_add64_wrap (l : List Counters) (acc : Counters) :
    l.foldl Counters.goAdd (Counters.wrap acc) = Counters.wrap (l.foldl Counters.add acc) := by
  induction l generalizing acc with
  | nil => rfl
  | cons x rest ih => simp only [List.foldl_cons, add64_wrap, ih]

theorem wrap_of_inRange (c : Counters) (h : Counters.fits c) : Counters.wrap c = c := by
  obtain ⟨h1, h2, h3, h4, h5, h6, h7, h8, h9, h10, h11, h12, h13⟩ := h
  simp [Counters.wrap, wrap64_id, *]

theorem derive64_wrap (c : Counters) :
    Counters.wrap (Counters.goDerive (Counters.wrap c)) = Counters.wrap c.derive := by
  simp only [Counters.wrap, Counters.goDerive, Counters.derive, sub64, add64, wrap64_idem, wrap64_sub,
    wrap64_add_left, wrap64_add_right]

end Nsq.Proofs.AggregateWrap
