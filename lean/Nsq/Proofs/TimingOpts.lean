import Nsq.Proofs.Timing
import Nsq.Model.TimingOpts
/-!
Helpers for `Nsq.Props.C04Opts` (audit item A12): the deadline cap with a bound `B ≥ MaxMsgTimeout`
(so that a default `--msg-timeout` above the cap can be talked about), and the one-delivery scenario
the driver op `optcheck` evaluates.
-/
namespace Nsq.Proofs.TimingOpts
open Nsq.Model.PQ Nsq.Model.Timing Nsq.Model.TimingOpts Nsq.Proofs.PQ Nsq.Proofs.Timing

/-- `cap_touch` with the invariant's bound `B` decoupled from the TOUCH cap `max ≤ B` -/
theorem cap_touch_le (B max : Int) (hle : max ≤ B) (c : Chan) (now client : Int) (id : Nat) (mt : Int)
    (h : ChanInv c) (hc : CapInv B c) : CapInv B (touch c now client id mt max).1 := by
  unfold touch
  split
  · exact hc
  · rename_i r0 hl
    split
    · exact hc
    · split
      · exact hc
      · rename_i pq hpq
        intro r hr p hp
        simp only at hr hp
        rcases List.mem_cons.1 ((push_keys _ _ _).mem_iff.1 hp) with he | hp'
        · simp only [Prod.mk.injEq] at he
          have := lookup_of_mem_nodup h.ifNodup hr
          rw [he.1, hl] at this
          cases this
          rw [he.2, touchDeadline_eq_min]
          omega
        · exact hc r hr p (removeFromPQ_sub hpq _ hp')

theorem cap_step_le (B max : Int) (hle : max ≤ B) (c : Chan) (op : Op) (h : ChanInv c) (hc : CapInv B c)
    (hop : ∀ now id client timeout, op = .inflight now id client timeout → timeout ≤ B) :
    CapInv B (step max c op) := by
  cases op with
  | inflight now id client timeout =>
    exact cap_startInFlight B c now id client timeout h hc (hop _ _ _ _ rfl)
  | touch now client id mt => exact cap_touch_le B max hle c now client id mt h hc
  | finish client id => exact cap_finish B c client id hc
  | requeue now client id timeout => exact cap_requeue B c now client id timeout hc
  | defer now id timeout =>
    obtain ⟨h1, h2, _⟩ := startDeferred_frame c now id timeout
    exact hc.mono (by simp [step, h2]) (by simp [step, h1])
  | scanIf t =>
    obtain ⟨_, _, _, _, _, _, h6, h7, _⟩ := scanInFlightLoop_gen t c false []
    exact hc.mono h7 h6
  | scanDef t =>
    obtain ⟨h1, h2⟩ := scanDeferred_frame c t
    exact hc.mono (by simp [step, h2]) (by simp [step, h1])

theorem cap_run_le (B max : Int) (hle : max ≤ B) (c : Chan) (ops : List Op) (h : ChanInv c) (hc : CapInv B c)
    (hops : ∀ op ∈ ops, ∀ now id client timeout, op = .inflight now id client timeout → timeout ≤ B) :
    CapInv B (run max c ops) := by
  induction ops generalizing c with
  | nil => exact hc
  | cons op ops ih =>
    exact ih _ (step_inv max c op h)
      (cap_step_le B max hle c op h hc (hops op List.mem_cons_self))
      (fun op' hop' => hops op' (List.mem_cons_of_mem _ hop'))

end Nsq.Proofs.TimingOpts
