/-
E2 — where the deliberate drops come from, and the partition of a channel's messages by
location (for the conservation law).
-/
import Nsq.Proofs.ChanHist
namespace Nsq.Proofs.Chan
open Nsq.Model.Chan

/-- a predicate on events that `enqueue` / the scan loops never produce except `ephDrop`, `timeout`, `deferDue` -/
theorem enqueue_count (p : Ev → Bool) (hp : ∀ i, p (.ephDrop i) = false) (c : Chan) (x : Nat) :
    nEv p (enqueue c x).hist = nEv p c.hist := by
  unfold enqueue
  split
  · rfl
  · split
    · simp [nEv, List.countP_cons, hp]
    · rfl

theorem timeoutOne_count (p : Ev → Bool) (hp : ∀ i, p (.ephDrop i) = false) (hp2 : ∀ i k, p (.timeout i k) = false) (c : Chan) (x : Nat) :
    nEv p (timeoutOne c x).hist = nEv p c.hist := by
  unfold timeoutOne
  split
  · split
    · rw [enqueue_count p hp]; simp [nEv, List.countP_cons, hp2]
    · rfl
  · rfl

theorem deferDueOne_count (p : Ev → Bool) (hp : ∀ i, p (.ephDrop i) = false) (hp2 : ∀ i, p (.deferDue i) = false) (c : Chan) (x : Nat) :
    nEv p (deferDueOne c x).hist = nEv p c.hist := by
  unfold deferDueOne
  split
  · split
    · rw [enqueue_count p hp]; simp [nEv, List.countP_cons, hp2]
    · rfl
  · rfl

theorem foldl_count (p : Ev → Bool) (f : Chan → Nat → Chan) (hf : ∀ c x, nEv p (f c x).hist = nEv p c.hist) (l : List Nat) (c : Chan) :
    nEv p (l.foldl f c).hist = nEv p c.hist := by
  induction l generalizing c with
  | nil => rfl
  | cons x l ih => simp only [List.foldl_cons]; rw [ih, hf]

theorem finChanPart_hist {c c' : Chan} {k id : Nat} (h : finChanPart c k id = some c') :
    c'.hist = Ev.finOk k id :: c.hist ∧ c'.ephemeral = c.ephemeral := by
  unfold finChanPart at h
  split at h
  · split at h
    · split at h
      · cases h; exact ⟨rfl, rfl⟩
      · cases h
    · cases h
  · cases h

theorem sampled_only (conf : Conf) (c : Chan) (op : Op)
    (h : nEv isSampled (step conf c op).1.hist ≠ nEv isSampled c.hist) :
    ∃ k id cl, op = .sampleDrop k id ∧ findC c.clients k = some cl ∧ cl.sample ≠ 0 ∧ ready c.paused cl = true := by
  have hE : ∀ i, isSampled (.ephDrop i) = false := fun _ => rfl
  cases op with
  | sampleDrop k id =>
    simp only [step] at h
    split at h
    · exact absurd rfl h
    · rename_i cl hf
      split at h
      · exact absurd rfl h
      · split at h
        · exact absurd rfl h
        · rename_i hr hs
          refine ⟨k, id, cl, rfl, hf, by simpa using hs, by simpa using hr⟩
  | scanInFlight t => exact absurd (foldl_count _ _ (timeoutOne_count _ hE (fun _ _ => rfl)) _ _) h
  | scanDeferred t => exact absurd (foldl_count _ _ (deferDueOne_count _ hE (fun _ => rfl)) _ _) h
  | _ =>
    exfalso
    apply h
    simp only [step, doDeliver]
    repeat' split
    all_goals first
      | rfl
      | (simp [nEv, isSampled, finClientPart]; done)
      | (simp only []; rw [enqueue_count _ hE]; simp [nEv, isSampled]; done)
      | (rename_i hfc; have := (finChanPart_hist hfc).1; simp [finClientPart, this, nEv, isSampled]; done)

theorem enqueue_ephDrop (c : Chan) (x : Nat) (h : c.ephemeral = false) :
    nEv isEphDrop (enqueue c x).hist = nEv isEphDrop c.hist ∧ (enqueue c x).ephemeral = false := by
  unfold enqueue
  split
  · exact ⟨rfl, h⟩
  · split
    · simp_all
    · exact ⟨rfl, h⟩

theorem timeoutOne_ephDrop (c : Chan) (x : Nat) (h : c.ephemeral = false) :
    nEv isEphDrop (timeoutOne c x).hist = nEv isEphDrop c.hist ∧ (timeoutOne c x).ephemeral = false := by
  unfold timeoutOne
  split
  · split
    · refine ⟨?_, (enqueue_ephDrop _ _ (by exact h)).2⟩
      rw [(enqueue_ephDrop _ _ (by exact h)).1]; simp [nEv, isEphDrop]
    · exact ⟨rfl, h⟩
  · exact ⟨rfl, h⟩

theorem deferDueOne_ephDrop (c : Chan) (x : Nat) (h : c.ephemeral = false) :
    nEv isEphDrop (deferDueOne c x).hist = nEv isEphDrop c.hist ∧ (deferDueOne c x).ephemeral = false := by
  unfold deferDueOne
  split
  · split
    · refine ⟨?_, (enqueue_ephDrop _ _ (by exact h)).2⟩
      rw [(enqueue_ephDrop _ _ (by exact h)).1]; simp [nEv, isEphDrop]
    · exact ⟨rfl, h⟩
  · exact ⟨rfl, h⟩

theorem foldl_ephDrop (f : Chan → Nat → Chan)
    (hf : ∀ c x, c.ephemeral = false → nEv isEphDrop (f c x).hist = nEv isEphDrop c.hist ∧ (f c x).ephemeral = false)
    (l : List Nat) (c : Chan) (h : c.ephemeral = false) :
    nEv isEphDrop (l.foldl f c).hist = nEv isEphDrop c.hist ∧ (l.foldl f c).ephemeral = false := by
  induction l generalizing c with
  | nil => exact ⟨rfl, h⟩
  | cons x l ih =>
    simp only [List.foldl_cons]
    have h1 := hf c x h
    have h2 := ih (f c x) h1.2
    exact ⟨h2.1.trans h1.1, h2.2⟩

/-- a durable channel never produces an `ephDrop` event: `Channel.put` on a full memory queue
writes to the disk queue -/
theorem ephDrop_only_ephemeral (conf : Conf) (c : Chan) (op : Op) (h : c.ephemeral = false) :
    nEv isEphDrop (step conf c op).1.hist = nEv isEphDrop c.hist ∧ (step conf c op).1.ephemeral = false := by
  cases op with
  | scanInFlight t => exact foldl_ephDrop _ timeoutOne_ephDrop _ _ h
  | scanDeferred t => exact foldl_ephDrop _ deferDueOne_ephDrop _ _ h
  | _ =>
    simp only [step, doDeliver]
    repeat' split
    all_goals first
      | exact ⟨rfl, h⟩
      | (simp [nEv, isEphDrop, finClientPart, h]; done)
      | (simp only []; refine ⟨?_, (enqueue_ephDrop _ _ (by exact h)).2⟩; rw [(enqueue_ephDrop _ _ (by exact h)).1]; simp [nEv, isEphDrop]; done)
      | (rename_i hfc; have := finChanPart_hist hfc; simp [finClientPart, this.1, this.2, nEv, isEphDrop, h]; done)

theorem length_partition (l : List Entry) :
    l.length = l.countP isQueued + l.countP isInflight + l.countP isDeferred := by
  induction l with
  | nil => rfl
  | cons e l ih =>
    simp only [List.length_cons, List.countP_cons, ih]
    cases hl : e.loc <;> simp [isQueued, isInflight, isDeferred, hl] <;> omega

end Nsq.Proofs.Chan
