import Nsq.Proofs.RegistryRefine
/-! The well-formedness invariant of the implementation-shaped registry (DESIGN appendix A.2)
and its preservation by every operation. -/
namespace Nsq.Proofs.RegistryWF
open Nsq.Model.Registry Nsq.Model.Registry.AMap Nsq.Proofs.RegistryMap Nsq.Proofs.RegistryDB
open Nsq.Spec.RegistrySpec Nsq.Proofs.RegistryRefine

/-- structural part: registration keys are unique; peer ids are unique per key -/
def DBWF (db : DB) : Prop :=
  (mkeys db).Nodup ∧ ∀ k pm, mget db k = some pm → (mkeys pm).Nodup

structure WF (r : Registry) : Prop where
  db : DBWF r.db
  /-- every producer entry belongs to an identified, connected peer -/
  peerKnown : ∀ k id, (getP r.db k id).isSome = true → identifiedB r id = true
  /-- every identified peer is in the `client` registration -/
  live : ∀ id, identifiedB r id = true → (getP r.db clientKey id).isSome = true
  /-- tombstones occur only on topic registrations -/
  tombTopicOnly : ∀ k id tb, getP r.db k id = some tb → tb.tombstoned = true → k.cat = .topic

theorem DBWF_mset (db : DB) (k : Key) (pm : PMap) (h : DBWF db) (hp : (mkeys pm).Nodup) :
    DBWF (mset db k pm) := by
  refine ⟨nodup_mkeys_mset db k pm h.1, ?_⟩
  intro k' pm' hg
  rw [mget_mset] at hg
  by_cases hk : k = k'
  · simp only [hk, if_true, Option.some.injEq] at hg
    rw [← hg]; exact hp
  · simp only [hk, if_false] at hg
    exact h.2 k' pm' hg

theorem DBWF_mdel (db : DB) (k : Key) (h : DBWF db) : DBWF (mdel db k) := by
  refine ⟨nodup_mkeys_mdel db k h.1, ?_⟩
  intro k' pm' hg
  rw [mget_mdel] at hg
  by_cases hk : k = k'
  · simp [hk] at hg
  · simp only [hk, if_false] at hg
    exact h.2 k' pm' hg

theorem DBWF_addRegistration (db : DB) (k : Key) (h : DBWF db) : DBWF (addRegistration db k) := by
  unfold addRegistration
  cases hg : mget db k with
  | some _ => exact h
  | none => exact DBWF_mset db k [] h (by simp [mkeys])

theorem DBWF_addProducer (db : DB) (k : Key) (id : Nat) (h : DBWF db) : DBWF (addProducer db k id) := by
  unfold addProducer
  cases hg : mget db k with
  | none => exact DBWF_mset db k _ h (by simp [mkeys])
  | some pm =>
    cases hg2 : mget pm id with
    | some _ => simp only [hg2]; exact h
    | none =>
      simp only [hg2]
      exact DBWF_mset db k _ h (nodup_mkeys_mset pm id fresh (h.2 k pm hg))

theorem DBWF_removeProducer (db : DB) (k : Key) (id : Nat) (h : DBWF db) : DBWF (removeProducer db k id) := by
  unfold removeProducer
  cases hg : mget db k with
  | none => exact h
  | some pm => exact DBWF_mset db k _ h (nodup_mkeys_mdel pm id (h.2 k pm hg))

theorem DBWF_removeProducerAll (db : DB) (ks : List Key) (id : Nat) (h : DBWF db) :
    DBWF (removeProducerAll db ks id) := by
  unfold removeProducerAll
  induction ks generalizing db with
  | nil => exact h
  | cons k ks ih => exact ih _ (DBWF_removeProducer db k id h)

theorem DBWF_removeRegistrations (db : DB) (ks : List Key) (h : DBWF db) :
    DBWF (removeRegistrations db ks) := by
  unfold removeRegistrations
  induction ks generalizing db with
  | nil => exact h
  | cons k ks ih => exact ih _ (DBWF_mdel db k h)

theorem DBWF_removeAndGC (db : DB) (k : Key) (p : Nat) (eph : Bool) (h : DBWF db) :
    DBWF (removeAndGC db k p eph) := by
  unfold removeAndGC
  split
  · exact DBWF_mdel _ k (DBWF_removeProducer db k p h)
  · exact DBWF_removeProducer db k p h

theorem DBWF_registerDB (db : DB) (p : Nat) (tc : TopicChan) (h : DBWF db) : DBWF (registerDB db p tc) := by
  unfold registerDB
  apply DBWF_addProducer
  split
  · exact DBWF_addProducer _ _ _ h
  · exact h

theorem DBWF_unregisterDB (db : DB) (p : Nat) (tc : TopicChan) (h : DBWF db) : DBWF (unregisterDB db p tc) := by
  unfold unregisterDB
  split
  · exact DBWF_removeAndGC _ _ _ _ h
  · exact DBWF_removeAndGC _ _ _ _ (DBWF_removeProducerAll _ _ _ h)

theorem DBWF_deleteTopicDB (db : DB) (t : Name) (h : DBWF db) : DBWF (deleteTopicDB db t) := by
  unfold deleteTopicDB
  exact DBWF_removeRegistrations _ _ (DBWF_removeRegistrations _ _ h)

theorem mkeys_map_val {α β : Type} (m : List (α × β)) (f : α → β → β) :
    mkeys (m.map (fun e => (e.1, f e.1 e.2))) = mkeys m := by
  simp [mkeys, List.map_map, Function.comp_def]

theorem DBWF_tombstoneDB (r : Registry) (t node : Name) (now : Int) (ht : t ≠ star) (h : DBWF r.db) :
    DBWF (tombstoneDB r t node now) := by
  unfold tombstoneDB
  simp only [ht, if_false]
  cases hg : mget r.db (topicKey t) with
  | none => exact h
  | some pm =>
    apply DBWF_mset _ _ _ h
    rw [tombstonePM_eq, mkeys_map_val pm (fun id tb => if nodeMatches r id node then (⟨true, now⟩ : Tomb) else tb)]
    exact h.2 _ pm hg

theorem WF_init : WF init := by
  refine ⟨⟨by simp [init, mkeys], by simp [init, mget]⟩, ?_, ?_, ?_⟩ <;> simp [init, getP, mget, identifiedB]

theorem identifiedB_disconnect (r : Registry) (p q : Nat) (h : identifiedB r p = true) :
    identifiedB (disconnect r p) q = (!decide (q = p) && identifiedB r q) := by
  have hd : disconnect r p = { db := removeProducerAll r.db (lookupRegistrations r.db p) p, peers := mdel r.peers p } := by
    unfold disconnect; simp [h]
  rw [hd]
  simp only [identifiedB, mget_mdel]
  by_cases hq : q = p
  · subst hq; simp
  · have : ¬ p = q := fun x => hq x.symm
    simp [hq, this]

theorem WF_disconnect (r : Registry) (p : Nat) (h : WF r) : WF (disconnect r p) := by
  cases hi : identifiedB r p with
  | false => unfold disconnect; simp only [hi, Bool.false_eq_true, if_false]; exact h
  | true =>
    have hid := fun q => identifiedB_disconnect r p q hi
    have hdb : (disconnect r p).db = removeProducerAll r.db (lookupRegistrations r.db p) p := by
      unfold disconnect; simp [hi]
    refine ⟨by rw [hdb]; exact DBWF_removeProducerAll _ _ _ h.db, ?_, ?_, ?_⟩
    · intro k id hs
      rw [hdb, getP_disconnectDB] at hs
      rw [hid]
      by_cases hq : id = p
      · simp [hq] at hs
      · simp only [hq, if_false] at hs
        simp [hq, h.peerKnown k id hs]
    · intro id hs
      rw [hid] at hs
      rw [hdb, getP_disconnectDB]
      by_cases hq : id = p
      · simp [hq] at hs
      · simp only [hq, decide_false, Bool.not_false, Bool.true_and] at hs
        simp only [hq, if_false]
        exact h.live id hs
    · intro k id tb hg ht
      rw [hdb, getP_disconnectDB] at hg
      by_cases hq : id = p
      · simp [hq] at hg
      · simp only [hq, if_false] at hg
        exact h.tombTopicOnly k id tb hg ht

theorem WF_identify (r : Registry) (p : Nat) (info : Info) (now : Int) (h : WF r) :
    WF (identify r p info now).1 := by
  unfold identify
  cases hi : identifiedB r p with
  | true => simp only [if_true]; exact WF_disconnect r p h
  | false =>
    simp only [Bool.false_eq_true, if_false]
    cases hm : missingFields info with
    | true => simp only [if_true]; exact h
    | false =>
      simp only [Bool.false_eq_true, if_false]
      have hid : ∀ q, identifiedB ⟨addProducer r.db clientKey p, mset r.peers p ⟨now, info⟩⟩ q
          = (decide (p = q) || identifiedB r q) := by
        intro q; simp only [identifiedB, mget_mset]
        by_cases hq : p = q <;> simp [hq]
      refine ⟨DBWF_addProducer _ _ _ h.db, ?_, ?_, ?_⟩
      · intro k id hs
        rw [hid]
        simp only [getP_addProducer] at hs
        by_cases hq : p = id
        · simp [hq]
        · simp only [hq, false_and, and_false, if_false] at hs
          simp [hq, h.peerKnown k id hs]
      · intro id hs
        rw [hid] at hs
        simp only [getP_addProducer, true_and]
        by_cases hq : p = id
        · subst hq
          cases hg : getP r.db clientKey p <;> simp [hg]
        · simp only [hq, decide_false, Bool.false_or] at hs
          simp only [hq, false_and, if_false]
          exact h.live id hs
      · intro k id tb hg ht
        simp only [getP_addProducer] at hg
        split at hg
        · simp only [Option.some.injEq] at hg
          rw [← hg] at ht; simp [fresh] at ht
        · exact h.tombTopicOnly k id tb hg ht

theorem WF_registerDB (r : Registry) (p : Nat) (tc : TopicChan) (hi : identifiedB r p = true) (h : WF r) :
    WF { r with db := registerDB r.db p tc } := by
  refine ⟨DBWF_registerDB _ _ _ h.db, ?_, ?_, ?_⟩
  · intro k id hs
    simp only [identifiedB]
    rw [isSome_getP_registerDB] at hs
    by_cases hq : p = id
    · subst hq; exact hi
    · simp only [hq, decide_false, Bool.false_and, Bool.false_or] at hs
      exact h.peerKnown k id hs
  · intro id hs
    simp only [isSome_getP_registerDB]
    have := h.live id hs
    simp [this]
  · intro k id tb hg ht
    simp only [getP_registerDB] at hg
    split at hg
    · simp only [Option.some.injEq] at hg
      rw [← hg] at ht; simp [fresh] at ht
    · exact h.tombTopicOnly k id tb hg ht

theorem WF_register (r : Registry) (p : Nat) (params : List Name) (h : WF r) : WF (register r p params).1 := by
  unfold register
  cases hi : identifiedB r p with
  | false => simp only [Bool.not_false, if_true]; exact h
  | true =>
    simp only [Bool.not_true, Bool.false_eq_true, if_false]
    cases hg : getTopicChan "REGISTER" params with
    | error e => exact WF_disconnect r p h
    | ok tc => exact WF_registerDB r p tc hi h

theorem clientKey_unaffected (db : DB) (tc : TopicChan) :
    ¬ ((tc.chan ≠ [] ∧ clientKey = chanKey tc.topic tc.chan) ∨
       (tc.chan = [] ∧ (clientKey = topicKey tc.topic ∨
          (has db clientKey = true ∧ isMatch clientKey .channel tc.topic star = true)))) := by
  simp [clientKey, chanKey, topicKey, isMatch]

theorem WF_unregisterDB (r : Registry) (p : Nat) (tc : TopicChan) (ht : tc.topic ≠ star) (h : WF r) :
    WF { r with db := unregisterDB r.db p tc } := by
  refine ⟨DBWF_unregisterDB _ _ _ h.db, ?_, ?_, ?_⟩
  · intro k id hs
    simp only [getP_unregisterDB _ _ _ _ _ ht] at hs
    split at hs
    · simp at hs
    · exact h.peerKnown k id hs
  · intro id hs
    have hc := clientKey_unaffected r.db tc
    simp only [getP_unregisterDB _ _ _ _ _ ht, hc, and_false, if_false]
    exact h.live id hs
  · intro k id tb hg htb
    simp only [getP_unregisterDB _ _ _ _ _ ht] at hg
    split at hg
    · simp at hg
    · exact h.tombTopicOnly k id tb hg htb

theorem WF_unregister (r : Registry) (p : Nat) (params : List Name) (h : WF r) : WF (unregister r p params).1 := by
  unfold unregister
  cases hi : identifiedB r p with
  | false => simp only [Bool.not_false, if_true]; exact h
  | true =>
    simp only [Bool.not_true, Bool.false_eq_true, if_false]
    cases hg : getTopicChan "UNREGISTER" params with
    | error e => exact WF_disconnect r p h
    | ok tc => exact WF_unregisterDB r p tc (validName_ne_star _ (getTopicChan_ok _ _ _ hg).1) h

theorem WF_ping (r : Registry) (p : Nat) (now : Int) (h : WF r) : WF (ping r p now) := by
  unfold ping
  cases hg : mget r.peers p with
  | none => exact h
  | some pr =>
    have hid : ∀ q, identifiedB ⟨r.db, mset r.peers p { pr with lastUpdate := now }⟩ q = identifiedB r q := by
      intro q; simp only [identifiedB, mget_mset]
      by_cases hq : p = q
      · subst hq; simp [hg]
      · simp [hq]
    refine ⟨h.db, ?_, ?_, h.tombTopicOnly⟩
    · intro k id hs; rw [hid]; exact h.peerKnown k id hs
    · intro id hs; rw [hid] at hs; exact h.live id hs

/-- a DB change that only removes entries / adds keys, never touching the `client` registration -/
theorem WF_of_sub (r : Registry) (db' : DB) (h : WF r) (hdb : DBWF db')
    (hsub : ∀ k id tb, getP db' k id = some tb → getP r.db k id = some tb)
    (hcl : ∀ id, getP db' clientKey id = getP r.db clientKey id) : WF { r with db := db' } := by
  refine ⟨hdb, ?_, ?_, ?_⟩
  · intro k id hs
    cases hg : getP db' k id with
    | none => simp [hg] at hs
    | some tb => exact h.peerKnown k id (by rw [hsub k id tb hg]; rfl)
  · intro id hs; rw [hcl]; exact h.live id hs
  · intro k id tb hg ht; exact h.tombTopicOnly k id tb (hsub k id tb hg) ht

theorem WF_createTopic (r : Registry) (a : HttpArgs) (h : WF r) : WF (createTopic r a).1 := by
  unfold createTopic
  split
  · exact h
  · split
    · exact h
    · split
      · exact h
      · exact WF_of_sub r _ h (DBWF_addRegistration _ _ h.db)
          (by intro k id tb hg; rwa [getP_addRegistration] at hg)
          (by intro id; rw [getP_addRegistration])

theorem WF_createChannel (r : Registry) (a : HttpArgs) (h : WF r) : WF (createChannel r a).1 := by
  unfold createChannel
  split
  · exact h
  · split
    · exact h
    · exact WF_of_sub r _ h (DBWF_addRegistration _ _ (DBWF_addRegistration _ _ h.db))
        (by intro k id tb hg; rwa [getP_addRegistration, getP_addRegistration] at hg)
        (by intro id; rw [getP_addRegistration, getP_addRegistration])

theorem WF_deleteTopic (r : Registry) (a : HttpArgs) (h : WF r) : WF (deleteTopic r a).1 := by
  unfold deleteTopic
  split
  · exact h
  · split
    · exact h
    · rename_i t _
      apply WF_of_sub r _ h (DBWF_deleteTopicDB _ _ h.db)
      · intro k id tb hg
        rw [getP_deleteTopicDB] at hg
        split at hg
        · simp at hg
        · exact hg
      · intro id
        rw [getP_deleteTopicDB]
        simp [isMatch, clientKey]

theorem WF_deleteChannel (r : Registry) (a : HttpArgs) (h : WF r) : WF (deleteChannel r a).1 := by
  unfold deleteChannel
  split
  · exact h
  · split
    · exact h
    · rename_i tc hg
      split
      · exact h
      · have hv := getTopicChannelArgs_ok a tc hg
        have hm := fun k => isMatch_exactKey k tc.topic tc.chan (validName_ne_star _ hv.1) (validName_ne_star _ hv.2)
        apply WF_of_sub r _ h (DBWF_removeRegistrations _ _ h.db)
        · intro k id tb hg
          rw [getP_removeRegistrations] at hg
          split at hg
          · simp at hg
          · exact hg
        · intro id
          rw [getP_removeRegistrations]
          simp [mem_findRegistrations, hm, clientKey, chanKey]

theorem WF_tombstone (r : Registry) (a : HttpArgs) (now : Int) (hm : a.topic ≠ some star) (h : WF r) :
    WF (tombstone r a now).1 := by
  unfold tombstone
  split
  · exact h
  · cases ht : a.topic with
    | none => exact h
    | some t =>
      have hts : t ≠ star := by intro hh; apply hm; rw [ht, hh]
      cases a.node with
      | none => exact h
      | some node =>
        simp only
        refine ⟨DBWF_tombstoneDB r t node now hts h.db, ?_, ?_, ?_⟩
        · intro k id hs
          rw [getP_tombstoneDB _ _ _ _ hts] at hs
          apply h.peerKnown k id
          split at hs
          · simpa using hs
          · exact hs
        · intro id hs
          rw [getP_tombstoneDB _ _ _ _ hts]
          simp only [clientKey, topicKey, Key.mk.injEq, reduceCtorEq, false_and, if_false]
          exact h.live id hs
        · intro k id tb hg htb
          rw [getP_tombstoneDB _ _ _ _ hts] at hg
          split at hg
          · rename_i hc; rw [hc.1]; rfl
          · exact h.tombTopicOnly k id tb hg htb

theorem WF_step (r : Registry) (op : Op) (hm : op.modelled = true) (h : WF r) : WF (step r op).1 := by
  cases op with
  | identify p info now => exact WF_identify r p info now h
  | register p params => exact WF_register r p params h
  | unregister p params => exact WF_unregister r p params h
  | ping p now => exact WF_ping r p now h
  | disconnect p => exact WF_disconnect r p h
  | createTopic a => exact WF_createTopic r a h
  | deleteTopic a => exact WF_deleteTopic r a h
  | createChannel a => exact WF_createChannel r a h
  | deleteChannel a => exact WF_deleteChannel r a h
  | tombstone a now => exact WF_tombstone r a now (by simpa [Op.modelled] using hm) h

theorem WF_run (r : Registry) (ops : List Op) (hm : ∀ op ∈ ops, op.modelled = true) (h : WF r) :
    WF (run r ops) := by
  induction ops generalizing r with
  | nil => exact h
  | cons op ops ih =>
    exact ih _ (fun o ho => hm o (List.mem_cons_of_mem _ ho)) (WF_step r op (hm op List.mem_cons_self) h)

end Nsq.Proofs.RegistryWF
