import Nsq.Model.Fetch
/-! Lemmas about the upstream request loop (helpers for `Nsq.Props.C18.fetch_terminates`). -/
namespace Nsq.Proofs.Fetch
open Nsq.Model.Fetch

/-- On an https endpoint exactly one request is sent: no second upgrade. -/
theorem getV1_https (srv : Endpoint → Resp) (e : Endpoint) (h : e.https = true) :
    (getV1 srv e).2 = [e] ∧ ((getV1 srv e).1 = .ok ↔ srv e = .ok) := by
  rw [getV1]
  cases hs : srv e <;> simp [h]

/-- From a plain endpoint: one request, or one plain request followed by exactly one https request. -/
theorem getV1_plain (srv : Endpoint → Resp) (e : Endpoint) (h : e.https = false) :
    (getV1 srv e).2 = [e] ∨
    ∃ port, srv e = .forbidden (some port) ∧ (getV1 srv e).2 = [e, { https := true, port := port }] ∧
      ((getV1 srv e).1 = .ok ↔ srv { https := true, port := port } = .ok) := by
  rw [getV1]
  cases hs : srv e with
  | ok => simp
  | error => simp
  | forbidden p =>
    cases p with
    | none => simp [h]
    | some port =>
      right
      have h2 := getV1_https srv { https := true, port := port } rfl
      refine ⟨port, rfl, ?_, ?_⟩
      · simp [h, h2.1]
      · simp [h, h2.2]

theorem getV1_bounded (srv : Endpoint → Resp) (e : Endpoint) :
    (getV1 srv e).2.length ≤ 2 ∧ ((getV1 srv e).2.filter (fun x => x.https)).length ≤ 1 + (if e.https then 0 else 0) ∧
    (getV1 srv e).2.head? = some e := by
  cases h : e.https with
  | true =>
    have := (getV1_https srv e h).1
    simp [this, h]
  | false =>
    rcases getV1_plain srv e h with h1 | ⟨port, _, h2, _⟩
    · simp [h1, h]
    · simp [h2, h]

/-- With the condition computed once before the loop, an upstream that answers 403 + https_port on both ports
keeps the loop going for as long as it is allowed to run. -/
theorem stale_uses_all_fuel (port : Nat) (fuel : Nat) : ∀ e,
    (getV1Stale (fun _ => .forbidden (some port)) true fuel e).2.length = fuel := by
  induction fuel with
  | zero => intro e; rfl
  | succ n ih => intro e; simp [getV1Stale, ih]

end Nsq.Proofs.Fetch
