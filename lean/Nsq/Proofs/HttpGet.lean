import Nsq.Model.HttpGet
/-!
Helper lemmas for `Nsq.Props.C20Get` (GET endpoint of nsq_to_http; audit round 7, item C23).
-/
namespace Nsq.Proofs.HttpGet
open Nsq.Model.HttpGet

theorem unhex_hexDigit : ∀ n, n < 16 → unhexDigit (hexDigit n) = some n := by decide

theorem hexDigit_unreserved : ∀ n, n < 16 → unreserved (hexDigit n) = true := by decide

theorem unreserved_ne (b : UInt8) (h : unreserved b = true) : b ≠ 37 ∧ b ≠ 43 := by
  constructor
  · intro e; subst e; exact absurd h (by decide)
  · intro e; subst e; exact absurd h (by decide)

theorem byte_recombine (x : UInt8) : UInt8.ofNat (x.toNat / 16 * 16 + x.toNat % 16) = x := by
  rw [Nat.div_add_mod']
  exact UInt8.ofNat_toNat

theorem toNat_div_lt (x : UInt8) : x.toNat / 16 < 16 := by
  have := UInt8.toNat_lt x
  omega

theorem q_other (b : UInt8) (rest : Bytes) (h37 : b ≠ 37) (h43 : b ≠ 43) :
    queryUnescape (b :: rest) = (queryUnescape rest).map (b :: ·) := by
  conv => lhs; unfold queryUnescape
  simp only [h37, h43, if_false]

theorem q_plus (rest : Bytes) : queryUnescape (43 :: rest) = (queryUnescape rest).map (32 :: ·) := by
  conv => lhs; unfold queryUnescape
  simp

theorem q_pct (h l : UInt8) (rest : Bytes) (a c : Nat) (ha : unhexDigit h = some a) (hc : unhexDigit l = some c) :
    queryUnescape (37 :: h :: l :: rest) = (queryUnescape rest).map (UInt8.ofNat (a * 16 + c) :: ·) := by
  conv => lhs; unfold queryUnescape
  simp only [if_true, ha, hc]
  cases queryUnescape rest <;> rfl

/-- unescaping undoes the escape of one byte in front of anything -/
theorem unescape_escapeByte (x : UInt8) (rest : Bytes) :
    queryUnescape (escapeByte x ++ rest) = (queryUnescape rest).map (x :: ·) := by
  by_cases hu : unreserved x = true
  · have hne := unreserved_ne x hu
    have e : escapeByte x = [x] := by simp [escapeByte, hu]
    rw [e]
    exact q_other x rest hne.1 hne.2
  · by_cases hs : x = 32
    · subst hs
      have e : escapeByte 32 = [43] := by decide
      rw [e]
      exact q_plus rest
    · have e : escapeByte x = [37, hexDigit (x.toNat / 16), hexDigit (x.toNat % 16)] := by simp [escapeByte, hu, hs]
      rw [e]
      show queryUnescape (37 :: hexDigit (x.toNat / 16) :: hexDigit (x.toNat % 16) :: rest) = _
      rw [q_pct _ _ rest _ _ (unhex_hexDigit _ (toNat_div_lt x)) (unhex_hexDigit _ (Nat.mod_lt _ (by decide))), byte_recombine]

theorem render_split (ps : List Piece) :
    (nargs ps = 0 → ∃ l : Bytes, ∀ arg, render arg ps = l) ∧
    (nargs ps = 1 → ∃ l1 l2 : Bytes, ∀ arg, render arg ps = l1 ++ arg ++ l2) := by
  induction ps with
  | nil => exact ⟨fun _ => ⟨[], fun _ => rfl⟩, fun h => by simp [nargs] at h⟩
  | cons p ps ih =>
    cases p with
    | lit b =>
      constructor
      · intro h
        obtain ⟨l, hl⟩ := ih.1 (by simpa [nargs] using h)
        exact ⟨b :: l, fun arg => by simp [render, hl arg]⟩
      · intro h
        obtain ⟨l1, l2, hl⟩ := ih.2 (by simpa [nargs] using h)
        exact ⟨b :: l1, l2, fun arg => by simp [render, hl arg]⟩
    | arg =>
      constructor
      · intro h; simp [nargs] at h
      · intro h
        obtain ⟨l, hl⟩ := ih.1 (by simpa [nargs] using h)
        exact ⟨[], l, fun arg => by simp [render, hl arg]⟩

end Nsq.Proofs.HttpGet
