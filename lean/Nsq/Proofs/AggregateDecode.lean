/-
The decode step of one nsqd's `/stats` answer (`Aggregate.nodeAnswer`): with the F53 guard it is the
identity; in general a successful decode continues with `topicsOfNode`; and the Bool `pctDecodes`
is exactly "`Latency.unmarshal` does not fault".
-/
import Nsq.Model.Aggregate
import Nsq.Proofs.Latency

namespace Nsq.Proofs.AggregateDecode
open Nsq.Model.Aggregate
open Nsq.Model

theorem pctDecodes_all (e2e : Bool) (pct : List Latency.Pct) : pctDecodes Fixes.all e2e pct = true := by
  simp [pctDecodes, Fixes.all]

theorem chanDecodes_all (c : Option Chan) : chanDecodes Fixes.all c = true := by
  cases c <;> simp [chanDecodes, pctDecodes_all]

theorem topicDecodes_all (t : Option Topic) : topicDecodes Fixes.all t = true := by
  cases t with
  | none => rfl
  | some t => simp [topicDecodes, pctDecodes_all, chanDecodes_all]

theorem statsDecodes_all (ans : List (Option Topic)) : statsDecodes Fixes.all ans = true := by
  simp [statsDecodes, topicDecodes_all]

theorem nodeAnswer_all (p : Producer) (sel : String) (ans : List (Option Topic)) (m : ChanMap) :
    nodeAnswer Fixes.all p sel ans m = topicsOfNode Fixes.all p sel ans m := by
  simp [nodeAnswer, statsDecodes_all]

theorem nodeAnswer_ok {fx : Fixes} {p : Producer} {sel : String} {ans : List (Option Topic)} {m : ChanMap}
    {r : List TopicNode × ChanMap} (h : nodeAnswer fx p sel ans m = .ok r) :
    topicsOfNode fx p sel ans m = .ok r := by
  unfold nodeAnswer at h
  split at h
  · exact h
  · cases h

/-- The Bool of the view model is the shape model's verdict on that document. -/
theorem pctDecodes_iff (fx : Fixes) (pct : List Latency.Pct) :
    pctDecodes fx true pct = true ↔ ∃ r, Latency.unmarshal fx.nilPct pct = .ok r := by
  cases hfx : fx.nilPct with
  | true => simp [pctDecodes, hfx, Proofs.Latency.unmarshal_fixed]
  | false =>
    simp only [pctDecodes, hfx, Bool.not_true, Bool.false_or]
    constructor
    · intro h
      refine ⟨pct, Proofs.Latency.unmarshal_unfixed_ok pct ?_⟩
      intro x hx
      have := List.all_eq_true.mp h x hx
      cases x with
      | none => simp at this
      | some q => simp
    · rintro ⟨r, hr⟩
      apply List.all_eq_true.mpr
      intro x hx
      cases x with
      | some q => rfl
      | none =>
        obtain ⟨e, he⟩ := Proofs.Latency.unmarshal_unfixed_panics pct hx
        rw [he] at hr; cases hr

end Nsq.Proofs.AggregateDecode
