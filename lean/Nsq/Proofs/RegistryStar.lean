import Nsq.Spec.RegistryStarSpec
import Nsq.Proofs.RegistryQuery
/-! Refinement of the wild-card (set-valued) operations of nsqlookupd: `tombstoneStar`,
`qLookupStar`, `StepSet` / `RunSet` against `Spec.tombstoneStar`, `Spec.StepSet` / `Spec.RunSet`. -/
namespace Nsq.Proofs.RegistryStar
open Nsq.Model.Registry Nsq.Model.Registry.AMap Nsq.Proofs.RegistryMap Nsq.Proofs.RegistryDB
open Nsq.Spec.RegistrySpec Nsq.Proofs.RegistryRefine Nsq.Proofs.RegistryWF Nsq.Proofs.RegistryQuery

/-! ### the DB after a wild-card tombstone -/

theorem has_tombstoneStarDB (r : Registry) (pick : Pick) (node : Name) (now : Int) (k : Key) :
    has (tombstoneStarDB r pick node now) k = has r.db k := by
  unfold tombstoneStarDB has
  rw [mget_map_val r.db (starTombPM r pick node now) k]
  cases mget r.db k <;> rfl

theorem getP_tombstoneStarDB (r : Registry) (pick : Pick) (node : Name) (now : Int) (k : Key) (q : Nat) :
    getP (tombstoneStarDB r pick node now) k q =
      if isMatch k .topic star [] = true ∧ pick q = k.key ∧ nodeMatches r q node = true
      then (getP r.db k q).map (fun _ => ⟨true, now⟩) else getP r.db k q := by
  unfold tombstoneStarDB getP
  rw [mget_map_val r.db (starTombPM r pick node now) k]
  cases hg : mget r.db k with
  | none => simp
  | some pm =>
    simp only [Option.map_some, Option.bind_some]
    unfold starTombPM
    by_cases hm : isMatch k .topic star [] = true
    · simp only [hm, if_true, true_and]
      rw [mget_map_val pm (starTombVal r pick node now k.key) q]
      unfold starTombVal
      by_cases h1 : pick q = k.key <;> by_cases h2 : nodeMatches r q node = true <;>
        cases mget pm q <;> simp [h1, h2]
    · simp [hm]

theorem mem_topicsOf (db : DB) (id : Nat) (t : Name) (hn : (mkeys db).Nodup) :
    t ∈ topicsOf db id ↔ (getP db (topicKey t) id).isSome = true := by
  unfold topicsOf
  simp only [List.mem_map, List.mem_filter, mem_lookupRegistrations_iff _ _ _ hn, isMatch_topic_star]
  constructor
  · intro ⟨k, ⟨hs, hk⟩, ht⟩
    subst ht
    rw [← hk]; exact hs
  · intro h; exact ⟨topicKey t, ⟨h, rfl⟩, rfl⟩

theorem topicsOf_ne_nil_iff (db : DB) (id : Nat) (hn : (mkeys db).Nodup) :
    topicsOf db id ≠ [] ↔ ∃ t, (getP db (topicKey t) id).isSome = true := by
  constructor
  · intro h
    obtain ⟨t, ht⟩ := List.exists_mem_of_ne_nil _ h
    exact ⟨t, (mem_topicsOf db id t hn).mp ht⟩
  · intro ⟨t, ht⟩
    exact List.ne_nil_of_mem ((mem_topicsOf db id t hn).mpr ht)

/-- the model's and the spec's notion of an admissible pick coincide -/
theorem pickValid_abs (r : Registry) (pick : Pick) (hn : (mkeys r.db).Nodup) :
    PickValid r.db pick ↔ (abs r).PickValid pick := by
  unfold PickValid Spec.PickValid
  simp only [topicsOf_ne_nil_iff _ _ hn, mem_topicsOf _ _ _ hn, abs]

theorem firstPick_valid (db : DB) : PickValid db (firstPick db) := by
  intro id h
  unfold firstPick
  cases hl : topicsOf db id with
  | nil => exact absurd hl h
  | cons a l => simp

/-! ### refinement and invariant -/

theorem abs_tombstoneStar (r : Registry) (pick : Pick) (node : Name) (now : Int) :
    abs (tombstoneStar r pick node now) = (abs r).tombstoneStar pick node now := by
  unfold tombstoneStar Spec.tombstoneStar
  have hmT : ∀ t', isMatch (topicKey t') .topic star [] = true := fun t' => (isMatch_topic_star _).mpr rfl
  have hmC : ∀ t' c, isMatch (chanKey t' c) .topic star [] = false := by
    intro t' c; simp [isMatch, chanKey]
  have hmL : isMatch clientKey .topic star [] = false := by simp [isMatch, clientKey]
  apply Spec.ext'
  · funext t'; simp [abs, has_tombstoneStarDB]
  · funext t' c; simp [abs, has_tombstoneStarDB]
  · funext q t'; apply propext
    simp only [abs, getP_tombstoneStarDB]
    split <;> simp
  · funext q t' c; apply propext
    simp only [abs, getP_tombstoneStarDB, hmC]
    simp
  · funext q t' τ; apply propext
    simp only [nodeIs_abs]
    simp only [abs, getP_tombstoneStarDB, hmT, true_and]
    have hk : (topicKey t').key = t' := rfl
    rw [hk]
    by_cases h1 : pick q = t'
    · subst h1
      by_cases h2 : nodeMatches r q node = true
      · simp only [h2, and_self, if_true, true_and, not_true_eq_false, and_false, or_false]
        cases hg : getP r.db (topicKey (pick q)) q with
        | none => simp
        | some tb => simp; exact eq_comm
      · simp [h2]
    · have h1' : ¬ t' = pick q := fun h => h1 h.symm
      simp [h1, h1']
  · funext q
    simp only [abs, getP_tombstoneStarDB, hmL]
    simp
  · rfl

theorem DBWF_tombstoneStarDB (r : Registry) (pick : Pick) (node : Name) (now : Int) (h : DBWF r.db) :
    DBWF (tombstoneStarDB r pick node now) := by
  unfold tombstoneStarDB
  refine ⟨by rw [mkeys_map_val r.db (starTombPM r pick node now)]; exact h.1, ?_⟩
  intro k pm hg
  rw [mget_map_val r.db (starTombPM r pick node now) k] at hg
  cases hm : mget r.db k with
  | none => simp [hm] at hg
  | some pm0 =>
    simp only [hm, Option.map_some, Option.some.injEq] at hg
    rw [← hg]
    unfold starTombPM
    split
    · rw [mkeys_map_val pm0 (starTombVal r pick node now k.key)]; exact h.2 k pm0 hm
    · exact h.2 k pm0 hm

theorem WF_tombstoneStar (r : Registry) (pick : Pick) (node : Name) (now : Int) (h : WF r) :
    WF (tombstoneStar r pick node now) := by
  unfold tombstoneStar
  have hmL : isMatch clientKey .topic star [] = false := by simp [isMatch, clientKey]
  refine ⟨DBWF_tombstoneStarDB r pick node now h.db, ?_, ?_, ?_⟩
  · intro k id hs
    simp only [getP_tombstoneStarDB] at hs
    apply h.peerKnown k id
    split at hs
    · simpa using hs
    · exact hs
  · intro id hs
    simp only [getP_tombstoneStarDB, hmL]
    simp only [Bool.false_eq_true, false_and, if_false]
    exact h.live id hs
  · intro k id tb hg htb
    simp only [getP_tombstoneStarDB] at hg
    split at hg
    · rename_i hc
      have := hc.1
      simp only [isMatch, Bool.and_eq_true, decide_eq_true_eq] at this
      exact this.1.1.symm
    · exact h.tombTopicOnly k id tb hg htb

theorem starNode_tombstone (a : HttpArgs) (now : Int) :
    (Op.tombstone a now).starNode =
      if a.badQuery = false ∧ a.topic = some star then a.node.map (fun n => (n, now)) else none := rfl

/-- a wild-card tombstone that fails its argument checks changes nothing (it is deterministic) -/
theorem tombstone_starNode_none (r : Registry) (a : HttpArgs) (now : Int)
    (h : (Op.tombstone a now).starNode = none) (hs : a.topic = some star) :
    (tombstone r a now).1 = r ∧ (abs r).tombstone a now = abs r := by
  rw [starNode_tombstone] at h
  unfold tombstone Spec.tombstone
  cases hb : a.badQuery with
  | true => simp
  | false =>
    simp only [hb, hs, and_self, if_true, Option.map_eq_none_iff] at h
    simp [hs, h]

theorem starNode_none_modelled (op : Op) (h : op.starNode = none) :
    op.modelled = true ∨ ∃ a now, op = .tombstone a now ∧ a.topic = some star := by
  cases op with
  | tombstone a now =>
    by_cases hs : a.topic = some star
    · exact Or.inr ⟨a, now, rfl, hs⟩
    · left; simp [Op.modelled, hs]
  | _ => left; rfl

theorem abs_step' (r : Registry) (op : Op) (h : op.starNode = none) :
    abs (step r op).1 = (abs r).step op := by
  cases starNode_none_modelled op h with
  | inl hm => exact abs_step r op hm
  | inr he =>
    obtain ⟨a, now, rfl, hs⟩ := he
    have := tombstone_starNode_none r a now h hs
    show abs (tombstone r a now).1 = (abs r).tombstone a now
    rw [this.1, this.2]

theorem WF_step' (r : Registry) (op : Op) (h : op.starNode = none) (hw : WF r) : WF (step r op).1 := by
  cases starNode_none_modelled op h with
  | inl hm => exact WF_step r op hm hw
  | inr he =>
    obtain ⟨a, now, rfl, hs⟩ := he
    have := tombstone_starNode_none r a now h hs
    show WF (tombstone r a now).1
    rw [this.1]; exact hw

/-- every allowed result of the model is an allowed result of the plain registry, and `WF` is kept -/
theorem StepSet_sound (r : Registry) (op : Op) (r' : Registry) (hw : WF r) (hs : StepSet r op r') :
    (abs r).StepSet op (abs r') ∧ WF r' := by
  unfold StepSet at hs
  unfold Spec.StepSet
  cases hn : op.starNode with
  | none =>
    simp only [hn] at hs ⊢
    subst hs
    exact ⟨abs_step' r op hn, WF_step' r op hn hw⟩
  | some nn =>
    obtain ⟨node, now⟩ := nn
    simp only [hn] at hs ⊢
    obtain ⟨pick, hv, rfl⟩ := hs
    exact ⟨⟨pick, (pickValid_abs r pick hw.db.1).mp hv, abs_tombstoneStar r pick node now⟩,
           WF_tombstoneStar r pick node now hw⟩

/-- … and every result the plain registry allows is the abstraction of a result of the model -/
theorem StepSet_complete (r : Registry) (op : Op) (s' : Spec) (hw : WF r) (hs : (abs r).StepSet op s') :
    ∃ r', StepSet r op r' ∧ abs r' = s' := by
  unfold Spec.StepSet at hs
  unfold StepSet
  cases hn : op.starNode with
  | none =>
    simp only [hn] at hs ⊢
    exact ⟨_, rfl, by rw [hs]; exact abs_step' r op hn⟩
  | some nn =>
    obtain ⟨node, now⟩ := nn
    simp only [hn] at hs ⊢
    obtain ⟨pick, hv, rfl⟩ := hs
    exact ⟨_, ⟨pick, (pickValid_abs r pick hw.db.1).mpr hv, rfl⟩, abs_tombstoneStar r pick node now⟩

/-- the deterministic `step` (list-order iteration) is one of the allowed results -/
theorem step_mem_StepSet (r : Registry) (op : Op) : StepSet r op (step r op).1 := by
  unfold StepSet
  cases hn : op.starNode with
  | none => rfl
  | some nn =>
    obtain ⟨node, now⟩ := nn
    simp only
    cases op with
    | tombstone a now' =>
      rw [starNode_tombstone] at hn
      by_cases hc : a.badQuery = false ∧ a.topic = some star
      · rw [if_pos hc] at hn
        cases hnode : a.node with
        | none => simp [hnode] at hn
        | some n =>
          simp only [hnode, Option.map_some, Option.some.injEq, Prod.mk.injEq] at hn
          obtain ⟨rfl, rfl⟩ := hn
          refine ⟨firstPick r.db, firstPick_valid r.db, ?_⟩
          simp [step, tombstone, hc.1, hc.2, hnode, tombstoneDB, tombstoneStar]
      · rw [if_neg hc] at hn; simp at hn
    | _ => simp [Op.starNode] at hn

theorem RunSet_sound (r : Registry) (ops : List Op) (r' : Registry) (hw : WF r) (h : RunSet r ops r') :
    (abs r).RunSet ops (abs r') ∧ WF r' := by
  induction h with
  | nil r => exact ⟨Spec.RunSet.nil _, hw⟩
  | cons hs _ ih =>
    have h1 := StepSet_sound _ _ _ hw hs
    have h2 := ih h1.2
    exact ⟨Spec.RunSet.cons h1.1 h2.1, h2.2⟩

theorem RunSet_complete (ops : List Op) : ∀ (r : Registry) (s' : Spec), WF r → (abs r).RunSet ops s' →
    ∃ r', RunSet r ops r' ∧ abs r' = s' := by
  induction ops with
  | nil =>
    intro r s' _ h
    cases h
    exact ⟨r, RunSet.nil r, rfl⟩
  | cons op ops ih =>
    intro r s' hw h
    cases h with
    | cons hs hr =>
      obtain ⟨r1, h1, e1⟩ := StepSet_complete r op _ hw hs
      have hw1 := (StepSet_sound r op r1 hw h1).2
      rw [← e1] at hr
      obtain ⟨r', h2, e2⟩ := ih r1 s' hw1 hr
      exact ⟨r', RunSet.cons h1 h2, e2⟩

/-- the deterministic run is one of the allowed runs -/
theorem run_mem_RunSet (ops : List Op) : ∀ r : Registry, RunSet r ops (run r ops) := by
  induction ops with
  | nil => intro r; exact RunSet.nil r
  | cons op ops ih => intro r; exact RunSet.cons (step_mem_StepSet r op) (ih _)

/-! ### the answers with `topic=*` -/

theorem isMatch_chan_starstar (k : Key) : isMatch k .channel star star = true ↔ k.cat = .channel := by
  simp [isMatch, eq_comm]

theorem mem_qChannels_star (r : Registry) (ch : Name) :
    ch ∈ qChannels r star ↔ (abs r).channelsStar ch := by
  unfold qChannels Spec.channelsStar
  simp only [List.mem_map, mem_findRegistrations, abs, isMatch_chan_starstar]
  constructor
  · intro ⟨k, ⟨hk, hc⟩, hs⟩
    refine ⟨k.key, ?_⟩
    have : chanKey k.key ch = k := by cases k; simp_all [chanKey]
    rw [this]; exact hk
  · intro ⟨t, ht⟩
    exact ⟨chanKey t ch, ⟨ht, rfl⟩, rfl⟩

theorem qLookupStar_none_iff (c : Conf) (r : Registry) (pick : Pick) (now : Int) :
    qLookupStar c r pick now = none ↔ ¬ (abs r).lookupStarFound := by
  unfold qLookupStar Spec.lookupStarFound
  simp only [abs]
  constructor
  · intro h ⟨t, hk⟩
    split at h
    · rename_i he
      have : topicKey t ∈ findRegistrations r.db .topic star [] := by
        rw [mem_findRegistrations]; exact ⟨hk, (isMatch_topic_star _).mpr rfl⟩
      rw [List.isEmpty_iff] at he
      rw [he] at this; simp at this
    · simp at h
  · intro hk
    split
    · rfl
    · rename_i he
      exfalso; apply hk
      cases hl : findRegistrations r.db .topic star [] with
      | nil => simp [hl] at he
      | cons k ks =>
        have hm : k ∈ findRegistrations r.db .topic star [] := by rw [hl]; exact List.mem_cons_self
        rw [mem_findRegistrations, isMatch_topic_star] at hm
        exact ⟨k.key, by rw [← hm.2]; exact hm.1⟩

theorem mem_topicPeers (db : DB) (id : Nat) (h : DBWF db) :
    id ∈ topicPeers db ↔ ∃ t, (getP db (topicKey t) id).isSome = true := by
  unfold topicPeers
  simp only [List.mem_eraseDups, List.mem_flatMap, List.mem_filter, List.mem_map, isMatch_topic_star]
  constructor
  · intro ⟨e, ⟨he, hk⟩, pe, hpe, hid⟩
    refine ⟨e.1.key, ?_⟩
    have hg : mget db e.1 = some e.2 := mget_of_mem_nodup db e.1 e.2 h.1 he
    have hg2 : mget e.2 id = some pe.2 := by
      apply mget_of_mem_nodup e.2 id pe.2 (h.2 _ _ hg)
      rw [← hid]; exact hpe
    rw [← hk]
    simp [getP, hg, hg2]
  · intro ⟨t, ht⟩
    unfold getP at ht
    cases hg : mget db (topicKey t) with
    | none => simp [hg] at ht
    | some pm =>
      simp only [hg, Option.bind_some] at ht
      cases hg2 : mget pm id with
      | none => simp [hg2] at ht
      | some tb =>
        exact ⟨(topicKey t, pm), ⟨mget_mem db _ pm hg, rfl⟩, (id, tb), mget_mem pm id tb hg2, rfl⟩

theorem mem_pickedProducers (db : DB) (pick : Pick) (h : DBWF db) (id : Nat) (tb : Tomb) :
    (id, tb) ∈ pickedProducers db pick ↔ getP db (topicKey (pick id)) id = some tb := by
  unfold pickedProducers
  simp only [List.mem_filterMap, Option.map_eq_some_iff, Prod.mk.injEq]
  constructor
  · intro ⟨id', _, tb', hg, hid, htb⟩
    subst hid; subst htb
    exact hg
  · intro hg
    refine ⟨id, (mem_topicPeers db id h).mpr ⟨pick id, by simp [hg]⟩, tb, hg, rfl, rfl⟩

/-- `/lookup?topic=*` under a pick lists exactly the nsqds the plain registry lists
for the topic that represents them. -/
theorem mem_lookupStar_producers (c : Conf) (r : Registry) (pick : Pick) (now : Int) (a : LookupAns)
    (h : WF r) (ha : qLookupStar c r pick now = some a) (p : Nat) (i : Info) :
    (p, i) ∈ a.producers ↔
      (abs r).lookupStarProducers c pick now p ∧ ∃ pr, (abs r).peer p = some pr ∧ pr.info = i := by
  unfold qLookupStar at ha
  split at ha
  · simp at ha
  · simp only [Option.some.injEq] at ha
    rw [← ha]
    simp only [peerInfos, filterByActive, List.mem_filterMap, List.mem_filter, Option.map_eq_some_iff,
      Prod.mk.injEq]
    unfold Spec.lookupStarProducers Spec.producers
    constructor
    · intro ⟨e, ⟨hmem, hact⟩, pr, hpr, hp, hi⟩
      have hg : getP r.db (topicKey (pick e.1)) e.1 = some e.2 :=
        (mem_pickedProducers _ _ h.db e.1 e.2).mp hmem
      subst hp
      unfold activeB at hact
      simp only [hpr, Bool.not_eq_true', Bool.or_eq_false_iff, decide_eq_false_iff_not] at hact
      have hreg : (abs r).topicReg e.1 (pick e.1) := by simp [abs, hg]
      have hlive : (abs r).live e.1 := h.live _ (h.peerKnown (topicKey (pick e.1)) e.1 (by simp [hg]))
      refine ⟨⟨hreg, hlive, (recent_abs c r now e.1).mpr ⟨pr, hpr, hact.1⟩, ?_⟩, pr, hpr, hi⟩
      rw [tombActive_abs c r now e.1 (pick e.1) e.2 hg]
      simp [hact.2]
    · intro ⟨⟨hreg, _, hrec, htomb⟩, pr, hpr, hi⟩
      simp only [abs] at hreg hpr
      cases hg : getP r.db (topicKey (pick p)) p with
      | none => simp [hg] at hreg
      | some tb =>
        refine ⟨(p, tb), ⟨(mem_pickedProducers _ _ h.db p tb).mpr hg, ?_⟩, pr, hpr, rfl, hi⟩
        unfold activeB
        simp only [hpr, Bool.not_eq_true', Bool.or_eq_false_iff, decide_eq_false_iff_not]
        obtain ⟨pr', hpr', hle⟩ := (recent_abs c r now p).mp hrec
        rw [hpr] at hpr'
        simp only [Option.some.injEq] at hpr'
        subst hpr'
        refine ⟨hle, ?_⟩
        rw [tombActive_abs c r now p (pick p) tb hg] at htomb
        simpa using htomb

theorem pickValidB_iff (db : DB) (pick : Pick) (h : DBWF db) : pickValidB db pick = true ↔ PickValid db pick := by
  unfold pickValidB PickValid
  simp only [List.all_eq_true, List.contains_iff_mem, mem_topicPeers db _ h, ← topicsOf_ne_nil_iff db _ h.1]

end Nsq.Proofs.RegistryStar
