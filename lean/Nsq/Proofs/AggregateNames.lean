import Nsq.Model.Aggregate
/-!
Lemmas about `uniq` (stringy.Uniq / stringy.Add) and `sortNames` (sort.Strings): the result is
strictly increasing, has exactly the members of the input, and depends only on the *set* of input
names — in particular not on the order in which upstream answers arrive.
-/
namespace Nsq.Proofs.AggregateNames
open Nsq.Model.Aggregate

theorem mem_uniq (l : List String) (x : String) : x ∈ uniq l ↔ x ∈ l := by
  induction l with
  | nil => simp [uniq]
  | cons a rest ih =>
    simp only [uniq, List.mem_cons, List.mem_filter, bne_iff_ne, ne_eq]
    constructor
    · rintro (h | ⟨h, _⟩)
      · exact Or.inl h
      · exact Or.inr (ih.1 h)
    · rintro (h | h)
      · exact Or.inl h
      · by_cases hx : x = a
        · exact Or.inl hx
        · exact Or.inr ⟨ih.2 h, hx⟩

theorem nodup_uniq (l : List String) : (uniq l).Nodup := by
  induction l with
  | nil => simp [uniq]
  | cons a rest ih =>
    rw [uniq, List.nodup_cons]
    refine ⟨?_, List.Pairwise.filter _ ih⟩
    intro hm
    have := (List.mem_filter.1 hm).2
    simp at this

theorem str_lt_of_le_of_ne {a b : String} (h : a ≤ b) (hne : a ≠ b) : a < b := by
  by_cases hlt : a < b
  · exact hlt
  · exact absurd (String.le_antisymm h (String.not_lt.1 hlt)) hne

theorem sortNames_perm (l : List String) : (sortNames l).Perm l := List.mergeSort_perm _ _

theorem mem_sortNames (l : List String) (x : String) : x ∈ sortNames l ↔ x ∈ l :=
  (sortNames_perm l).mem_iff

theorem sortNames_sorted (l : List String) : (sortNames l).Pairwise (· ≤ ·) := by
  have h := List.pairwise_mergeSort (le := fun a b : String => decide (a ≤ b))
    (fun a b c hab hbc => by
      simp only [decide_eq_true_eq] at *
      exact String.le_trans hab hbc)
    (fun a b => by
      simp only [Bool.or_eq_true, decide_eq_true_eq]
      exact String.le_total a b) l
  exact h.imp (fun hab => by simpa using hab)

/-- Sorted and duplicate-free = strictly increasing. -/
theorem sortNames_strict (l : List String) (hnd : l.Nodup) : (sortNames l).Pairwise (· < ·) := by
  have hs := sortNames_sorted l
  have hn : (sortNames l).Nodup := (sortNames_perm l).nodup_iff.2 hnd
  exact (hs.and hn).imp (fun h => str_lt_of_le_of_ne h.1 h.2)

/-- The names a view lists: strictly increasing (sorted, no duplicates). -/
theorem names_sorted (l : List String) : (sortNames (uniq l)).Pairwise (· < ·) :=
  sortNames_strict _ (nodup_uniq l)

/-- … exactly the names that occur in the input. -/
theorem names_mem (l : List String) (x : String) : x ∈ sortNames (uniq l) ↔ x ∈ l := by
  rw [mem_sortNames, mem_uniq]

/-- … and the same list for any two inputs with the same members (any arrival order, any
multiplicity). -/
theorem names_ext (l₁ l₂ : List String) (h : ∀ x, x ∈ l₁ ↔ x ∈ l₂) :
    sortNames (uniq l₁) = sortNames (uniq l₂) := by
  have hp : (sortNames (uniq l₁)).Perm (sortNames (uniq l₂)) := by
    refine (List.perm_ext_iff_of_nodup ?_ ?_).2 ?_
    · exact (sortNames_perm _).nodup_iff.2 (nodup_uniq l₁)
    · exact (sortNames_perm _).nodup_iff.2 (nodup_uniq l₂)
    · intro x; rw [names_mem, names_mem]; exact h x
  refine List.Perm.eq_of_pairwise (le := (· < ·)) ?_ (names_sorted l₁) (names_sorted l₂) hp
  intro a b _ _ hab hba
  exact absurd (String.lt_trans hab hba) (String.lt_irrefl a)

theorem names_perm (l₁ l₂ : List String) (h : l₁.Perm l₂) :
    sortNames (uniq l₁) = sortNames (uniq l₂) :=
  names_ext l₁ l₂ (fun _ => h.mem_iff)

end Nsq.Proofs.AggregateNames
