/-
E2 — the executable invariant `invOk` / `invOkA` (evaluated by the driver) is implied by the proved
invariant `Inv` / `InvA`: a state on which `invOk` fails is outside the set the theorems speak about.
-/
import Nsq.Proofs.ChanInvA
namespace Nsq.Proofs.Chan
open Nsq.Model.Chan

theorem nodupB_iff (l : List Nat) : nodupB l = true ↔ l.Nodup := by
  induction l with
  | nil => simp [nodupB]
  | cons x xs ih => simp [nodupB, ih, List.nodup_cons]

theorem invOk_of_inv {c : Chan} (h : Inv 0 c) : invOk c = true := by
  unfold invOk
  simp only [Bool.and_eq_true, beq_iff_eq, decide_eq_true_eq, List.all_eq_true, Bool.or_eq_true, Bool.not_eq_true']
  have hcount := h.counts
  refine ⟨⟨⟨⟨⟨⟨⟨⟨⟨⟨⟨⟨⟨?_, ?_⟩, ?_⟩, h.okh⟩, by omega⟩, h.memcap⟩, ?_⟩, h.mcF⟩, h.mcL⟩, h.rq⟩, h.to⟩, ?_⟩, h.paused⟩, ?_⟩
  · exact (nodupB_iff _).2 h.core.nodup
  · intro e he
    exact h.core.agree e he
  · intro i _
    cases hl : (status c.hist i).located
    · exact Or.inr rfl
    · left
      exact hasId_iff.2 (h.core.absent i hl)
  · cases he : c.ephemeral
    · exact Or.inl rfl
    · exact Or.inr (h.eph he)
  · exact (nodupB_iff _).2 h.cnodup
  · intro cl hcl
    obtain ⟨h1, h2, h3, h4, h5, h6⟩ := h.cl cl hcl
    refine ⟨⟨⟨⟨⟨h1, h2⟩, h3⟩, h4⟩, h5⟩, ?_⟩
    cases hc : cl.closing
    · exact Or.inl rfl
    · exact Or.inr (h6 hc)

theorem invOkA_of_invA {conf : Conf} {c : Chan} (h : InvA conf c) : invOkA conf c = true := by
  unfold invOkA
  simp only [Bool.and_eq_true, beq_iff_eq, decide_eq_true_eq, List.all_eq_true, Bool.or_eq_true, List.isEmpty_iff]
  refine ⟨⟨⟨invOk_of_inv h.inv, h.pend⟩, h.okh3⟩, ?_⟩
  intro cl hcl
  obtain ⟨h1, h2, h3, h4, h5⟩ := h.clA cl hcl
  refine ⟨⟨⟨⟨⟨h1, by rw [h.inv.held]; exact h1⟩, h2⟩, h3⟩, h4⟩, ?_⟩
  cases hd : cl.decr
  · exact Or.inr (h5 hd)
  · exact Or.inl rfl

end Nsq.Proofs.Chan
