import Nsq.Model.BackedQueue
import Nsq.Proofs.DiskQueueApi
/-!
The queue of one channel / topic (`Nsq.Model.BackedQueue`: bounded memory queue + E9 backend):
invariant `Inv q disk` = "the backend of `q` is live, at rest and holds exactly the records `disk`"
(`Nsq.Proofs.DiskQueue.Q`), one lemma per operation, and the ledger invariant of histories.
-/
namespace Nsq.Proofs.BackedQueue
open Nsq.Model Nsq.Model.Wire
open Nsq.Model.BackedQueue (BQ PutOut Op Run stepRun fresh run openBQ flushInto)
open Nsq.Model.DiskQueue (St Cfg FS PutRes openQ)
open Nsq.Proofs.DiskQueue

def Inv (q : BQ) (disk : List Bytes) : Prop := Q q.dq disk

/-! ### put -/

theorem put_mem (q : BQ) (b : Bytes) (h : q.mem.length < q.memCap) :
    BackedQueue.put q b = (.mem, { q with mem := q.mem ++ [b] }) := by
  unfold BackedQueue.put
  rw [if_pos h]

theorem put_full (q : BQ) (b : Bytes) (h : ¬ q.mem.length < q.memCap) :
    BackedQueue.put q b = (.backend (DiskQueue.put q.dq b).1, { q with dq := (DiskQueue.put q.dq b).2 }) := by
  unfold BackedQueue.put
  rw [if_neg h]

theorem put_disk_ok {q : BQ} {disk : List Bytes} (hi : Inv q disk) (b : Bytes) (h : ¬ q.mem.length < q.memCap)
    (hv : ValidRec q.dq.cfg b) :
    (BackedQueue.put q b).1 = .backend .ok ∧ (BackedQueue.put q b).2.mem = q.mem ∧
      (BackedQueue.put q b).2.memCap = q.memCap ∧ Inv (BackedQueue.put q b).2 (disk ++ [b]) := by
  rw [put_full q b h]
  obtain ⟨a1, a2⟩ := put_ok_Q hi b hv
  exact ⟨by simp only []; rw [a1], rfl, rfl, a2⟩

theorem put_disk_invalid {q : BQ} {disk : List Bytes} (hi : Inv q disk) (b : Bytes) (h : ¬ q.mem.length < q.memCap)
    (hv : ¬ ValidRec q.dq.cfg b) :
    (BackedQueue.put q b).1 = .backend .invalid ∧ (BackedQueue.put q b).2.mem = q.mem ∧
      (BackedQueue.put q b).2.memCap = q.memCap ∧ Inv (BackedQueue.put q b).2 disk := by
  rw [put_full q b h]
  obtain ⟨a1, a2⟩ := put_invalid_Q hi b hv
  exact ⟨by simp only []; rw [a1], rfl, rfl, a2⟩

theorem put_cfg (q : BQ) (b : Bytes) : (BackedQueue.put q b).2.dq.cfg = q.dq.cfg ∧
    (BackedQueue.put q b).2.memCap = q.memCap := by
  unfold BackedQueue.put
  split
  · exact ⟨rfl, rfl⟩
  · exact ⟨Nsq.Proofs.DiskQueue.put_cfg _ _, rfl⟩

/-! ### the two receive cases of the pumps -/

theorem takeMem_cons (q : BQ) (b : Bytes) (rest : List Bytes) (h : q.mem = b :: rest) :
    BackedQueue.takeMem q = (some b, { q with mem := rest }) := by
  unfold BackedQueue.takeMem
  rw [h]

theorem takeMem_nil (q : BQ) (h : q.mem = []) : BackedQueue.takeMem q = (none, q) := by
  unfold BackedQueue.takeMem
  rw [h]

theorem takeDisk_cons {q : BQ} {d : Bytes} {disk : List Bytes} (hi : Inv q (d :: disk)) :
    (BackedQueue.takeDisk q).1 = some d ∧ (BackedQueue.takeDisk q).2.mem = q.mem ∧
      (BackedQueue.takeDisk q).2.memCap = q.memCap ∧ Inv (BackedQueue.takeDisk q).2 disk := by
  obtain ⟨a1, a2⟩ := recv_head_Q hi
  exact ⟨a1, rfl, rfl, a2⟩

theorem takeDisk_nil {q : BQ} (hi : Inv q []) : BackedQueue.takeDisk q = (none, q) := by
  unfold BackedQueue.takeDisk
  rw [recv_none_Q hi]

theorem takeDisk_cfg (q : BQ) : (BackedQueue.takeDisk q).2.dq.cfg = q.dq.cfg := recv_cfg _

/-! ### Empty, Delete -/

theorem empty_cfg_dq (s : St) : (DiskQueue.empty s).2.cfg = s.cfg := by
  unfold DiskQueue.empty
  split
  · rfl
  · simp only []; rw [settle_cfg]; rfl

theorem empty_inv {q : BQ} {disk : List Bytes} (hi : Inv q disk) :
    (BackedQueue.empty q).1 = true ∧ (BackedQueue.empty q).2.mem = [] ∧ Inv (BackedQueue.empty q).2 [] ∧
      (BackedQueue.empty q).2.memCap = q.memCap ∧ (BackedQueue.empty q).2.dq.cfg = q.dq.cfg := by
  obtain ⟨a1, a2, _⟩ := empty_Q hi
  exact ⟨a1, rfl, a2, rfl, empty_cfg_dq _⟩

/-- `Channel.Delete` at file level: what is on the data path afterwards -/
theorem delete_files {q : BQ} {disk : List Bytes} (hi : Inv q disk) :
    (∀ i, (BackedQueue.delete q).dq.fs.dat i = none) ∧ (BackedQueue.delete q).dq.fs.md = none ∧
      (BackedQueue.delete q).dq.fs.bad = q.dq.fs.bad ∧ (BackedQueue.delete q).mem = [] ∧
      (BackedQueue.delete q).dq.exited = true := by
  obtain ⟨_, _, a3, a4, a5⟩ := empty_Q hi
  exact ⟨a3, a4, a5, rfl, rfl⟩

/-! ### flush, Close, New -/

def validB (cfg : Cfg) (b : Bytes) : Bool := decide (ValidRec cfg b)

theorem flushInto_spec (l : List Bytes) : ∀ (d : St) (disk : List Bytes), Q d disk →
    Q (flushInto d l).1 (disk ++ l.filter (validB d.cfg)) ∧
      (flushInto d l).2 = l.filter (fun b => !validB d.cfg b) ∧ (flushInto d l).1.cfg = d.cfg := by
  induction l with
  | nil => intro d disk h; exact ⟨by simpa [flushInto] using h, rfl, rfl⟩
  | cons b l ih =>
    intro d disk h
    have hc := Nsq.Proofs.DiskQueue.put_cfg d b
    by_cases hv : ValidRec d.cfg b
    · obtain ⟨a1, a2⟩ := put_ok_Q h b hv
      obtain ⟨i1, i2, i3⟩ := ih _ _ a2
      have hb : validB d.cfg b = true := by simp [validB, hv]
      unfold flushInto
      rw [if_pos a1, List.filter_cons_of_pos hb, List.filter_cons_of_neg (by simp [hb])]
      rw [hc] at i1 i2 i3
      exact ⟨by simpa using i1, i2, i3⟩
    · obtain ⟨a1, a2⟩ := put_invalid_Q h b hv
      obtain ⟨i1, i2, i3⟩ := ih _ _ a2
      have hb : validB d.cfg b = false := by simp [validB, hv]
      unfold flushInto
      rw [if_neg (by rw [a1]; simp), List.filter_cons_of_neg (by simp [hb]), List.filter_cons_of_pos (by simp [hb])]
      rw [hc] at i1 i2 i3
      exact ⟨i1, by simp only []; rw [i2], i3⟩

/-- `Channel.Close` then `NewChannel` on the same data path: the memory queue went to the END of the
disk queue (valid records; the others are lost with a log line), the new memory queue is empty -/
theorem restart_inv {q : BQ} {disk : List Bytes} (hi : Inv q disk) (cfg' : Cfg) (hok : CfgOk cfg')
    (hmin : cfg'.minMsgSize = q.dq.cfg.minMsgSize) (hmax : cfg'.maxMsgSize = q.dq.cfg.maxMsgSize) (memCap' : Nat) :
    Inv (openBQ memCap' cfg' (BackedQueue.close q).1.dq.fs) (disk ++ q.mem.filter (validB q.dq.cfg)) ∧
      (BackedQueue.close q).2 = q.mem.filter (fun b => !validB q.dq.cfg b) ∧
      (openBQ memCap' cfg' (BackedQueue.close q).1.dq.fs).mem = [] ∧
      (openBQ memCap' cfg' (BackedQueue.close q).1.dq.fs).dq.cfg = cfg' := by
  obtain ⟨f1, f2, f3⟩ := flushInto_spec q.mem q.dq disk hi
  refine ⟨?_, f2, rfl, openQ_cfg _ _⟩
  exact reopen_Q f1 cfg' hok (by rw [f3]; exact hmin) (by rw [f3]; exact hmax)

theorem filter_all_valid (cfg : Cfg) (l : List Bytes) (h : ∀ b ∈ l, ValidRec cfg b) :
    l.filter (validB cfg) = l ∧ l.filter (fun b => !validB cfg b) = [] := by
  constructor
  · rw [List.filter_eq_self]
    intro b hb; simp [validB, h b hb]
  · rw [List.filter_eq_nil_iff]
    intro b hb; simp [validB, h b hb]

theorem fresh_inv (memCap : Nat) (cfg : Cfg) (hok : CfgOk cfg) : Inv (openBQ memCap cfg FS.empty) [] :=
  fresh_Q cfg hok

/-! ### histories: the ledger -/

/-- what every history from a fresh data path satisfies: the backend is a healthy FIFO holding `disk`;
every accepted record is in exactly one place — handed to a pump, dropped by `Empty` (from memory:
ghost `emptiedMem`; from disk: `gone`), lost in a `flush` because the backend refused it, still in
memory or still on disk -/
structure Ledger (cfg : Cfg) (memCap : Nat) (r : Run) (disk gone : List Bytes) : Prop where
  inv : Inv r.q disk
  cfg : r.q.dq.cfg = cfg
  cap : r.q.memCap = memCap
  bound : r.q.mem.length ≤ memCap
  perm : (r.taken ++ (r.emptiedMem ++ (gone ++ (r.flushLost ++ (r.q.mem ++ disk))))).Perm r.accepted

theorem perm_snoc_mid {α : Type} (a b c : List α) (x : α) (acc : List α) (h : (a ++ (b ++ c)).Perm acc) :
    (a ++ ((b ++ [x]) ++ c)).Perm (acc ++ [x]) := by
  have : (a ++ ((b ++ [x]) ++ c)).Perm ((a ++ (b ++ c)) ++ [x]) := by
    simp only [List.append_assoc]
    refine List.Perm.append_left a (List.Perm.append_left b ?_)
    exact (List.perm_append_comm (l₁ := [x]) (l₂ := c))
  exact this.trans (h.append_right [x])

theorem stepRun_put (cfg : Cfg) (r : Run) (b : Bytes) : stepRun cfg r (.put b) =
    if (BackedQueue.put r.q b).1 = .mem ∨ (BackedQueue.put r.q b).1 = .backend .ok then
      { r with q := (BackedQueue.put r.q b).2, accepted := r.accepted ++ [b] }
    else { r with q := (BackedQueue.put r.q b).2, refused := r.refused ++ [b] } := rfl

theorem stepRun_takeMem (cfg : Cfg) (r : Run) : stepRun cfg r .takeMem =
    match (BackedQueue.takeMem r.q).1 with
    | some b => { r with q := (BackedQueue.takeMem r.q).2, taken := r.taken ++ [b] }
    | none => r := rfl

theorem stepRun_takeDisk (cfg : Cfg) (r : Run) : stepRun cfg r .takeDisk =
    match (BackedQueue.takeDisk r.q).1 with
    | some b => { r with q := (BackedQueue.takeDisk r.q).2, taken := r.taken ++ [b] }
    | none => { r with q := (BackedQueue.takeDisk r.q).2 } := rfl

theorem stepRun_restart (cfg : Cfg) (r : Run) : stepRun cfg r .restart =
    { r with q := openBQ r.q.memCap cfg (BackedQueue.close r.q).1.dq.fs,
             flushLost := r.flushLost ++ (BackedQueue.close r.q).2 } := rfl

theorem stepRun_empty (cfg : Cfg) (r : Run) : stepRun cfg r .empty =
    { r with q := (BackedQueue.empty r.q).2, emptiedMem := r.emptiedMem ++ r.q.mem } := rfl

theorem ledger_step {cfg : Cfg} (hok : CfgOk cfg) {memCap : Nat} {r : Run} {disk gone : List Bytes}
    (h : Ledger cfg memCap r disk gone) (o : Op) :
    ∃ disk' gone', Ledger cfg memCap (stepRun cfg r o) disk' gone' ∧ (o ≠ .empty → gone' = gone) := by
  cases o with
  | put b =>
    by_cases hm : r.q.mem.length < r.q.memCap
    · have e := put_mem r.q b hm
      refine ⟨disk, gone, ?_, fun _ => rfl⟩
      rw [stepRun_put]
      rw [if_pos (Or.inl (by rw [e]))]
      rw [e]
      refine ⟨h.inv, h.cfg, h.cap, ?_, ?_⟩
      · show (r.q.mem ++ [b]).length ≤ memCap
        rw [List.length_append]; have := h.cap; simp only [List.length_cons, List.length_nil]; omega
      · show (r.taken ++ (r.emptiedMem ++ (gone ++ (r.flushLost ++ ((r.q.mem ++ [b]) ++ disk))))).Perm (r.accepted ++ [b])
        have := perm_snoc_mid (r.taken ++ (r.emptiedMem ++ (gone ++ r.flushLost))) r.q.mem disk b r.accepted
          (by simpa only [List.append_assoc] using h.perm)
        simpa only [List.append_assoc] using this
    · by_cases hv : ValidRec r.q.dq.cfg b
      · obtain ⟨a1, a2, a3, a4⟩ := put_disk_ok h.inv b hm hv
        refine ⟨disk ++ [b], gone, ?_, fun _ => rfl⟩
        rw [stepRun_put]
        rw [if_pos (Or.inr a1)]
        refine ⟨a4, by rw [← h.cfg]; exact (put_cfg r.q b).1, by rw [← h.cap]; exact a3, ?_, ?_⟩
        · show (BackedQueue.put r.q b).2.mem.length ≤ memCap
          rw [a2]; exact h.bound
        · show (r.taken ++ (r.emptiedMem ++ (gone ++ (r.flushLost ++ ((BackedQueue.put r.q b).2.mem ++ (disk ++ [b])))))).Perm (r.accepted ++ [b])
          rw [a2]
          have := h.perm.append_right [b]
          simpa only [List.append_assoc] using this
      · obtain ⟨a1, a2, a3, a4⟩ := put_disk_invalid h.inv b hm hv
        refine ⟨disk, gone, ?_, fun _ => rfl⟩
        rw [stepRun_put]
        rw [if_neg (by rw [a1]; simp)]
        refine ⟨a4, by rw [← h.cfg]; exact (put_cfg r.q b).1, by rw [← h.cap]; exact a3, ?_, ?_⟩
        · show (BackedQueue.put r.q b).2.mem.length ≤ memCap
          rw [a2]; exact h.bound
        · show (r.taken ++ (r.emptiedMem ++ (gone ++ (r.flushLost ++ ((BackedQueue.put r.q b).2.mem ++ disk))))).Perm r.accepted
          rw [a2]; exact h.perm
  | takeMem =>
    refine ⟨disk, gone, ?_, fun _ => rfl⟩
    cases hmem : r.q.mem with
    | nil =>
      rw [stepRun_takeMem]
      rw [takeMem_nil r.q hmem]
      exact h
    | cons b rest =>
      rw [stepRun_takeMem]
      rw [takeMem_cons r.q b rest hmem]
      refine ⟨h.inv, h.cfg, h.cap, ?_, ?_⟩
      · show rest.length ≤ memCap
        have := h.bound; rw [hmem] at this; simp only [List.length_cons] at this; omega
      · show ((r.taken ++ [b]) ++ (r.emptiedMem ++ (gone ++ (r.flushLost ++ (rest ++ disk))))).Perm r.accepted
        refine List.Perm.trans ?_ h.perm
        rw [hmem, List.append_assoc]
        refine List.Perm.append_left r.taken ?_
        show (b :: (r.emptiedMem ++ (gone ++ (r.flushLost ++ (rest ++ disk))))).Perm _
        have e : r.emptiedMem ++ (gone ++ (r.flushLost ++ (b :: rest ++ disk))) =
            (r.emptiedMem ++ (gone ++ r.flushLost)) ++ b :: (rest ++ disk) := by simp
        rw [e]
        refine List.Perm.trans ?_ List.perm_middle.symm
        simp only [List.append_assoc]
        exact List.Perm.refl _
  | takeDisk =>
    refine ⟨disk.tail, gone, ?_, fun _ => rfl⟩
    cases hd : disk with
    | nil =>
      have hi := h.inv; rw [hd] at hi
      rw [stepRun_takeDisk]
      rw [takeDisk_nil hi]
      have := h; rw [hd] at this
      exact this
    | cons d rest =>
      have hi := h.inv; rw [hd] at hi
      obtain ⟨a1, a2, a3, a4⟩ := takeDisk_cons hi
      rw [stepRun_takeDisk]
      rw [a1]
      refine ⟨a4, by rw [← h.cfg]; exact takeDisk_cfg r.q, by rw [← h.cap]; exact a3, ?_, ?_⟩
      · show (BackedQueue.takeDisk r.q).2.mem.length ≤ memCap
        rw [a2]; exact h.bound
      · show ((r.taken ++ [d]) ++ (r.emptiedMem ++ (gone ++ (r.flushLost ++ ((BackedQueue.takeDisk r.q).2.mem ++ rest))))).Perm r.accepted
        rw [a2]
        refine List.Perm.trans ?_ h.perm
        rw [hd, List.append_assoc]
        refine List.Perm.append_left r.taken ?_
        show (d :: (r.emptiedMem ++ (gone ++ (r.flushLost ++ (r.q.mem ++ rest))))).Perm _
        have e : r.emptiedMem ++ (gone ++ (r.flushLost ++ (r.q.mem ++ d :: rest))) =
            (r.emptiedMem ++ (gone ++ (r.flushLost ++ r.q.mem))) ++ d :: rest := by simp
        rw [e]
        refine List.Perm.trans ?_ List.perm_middle.symm
        simp only [List.append_assoc]
        exact List.Perm.refl _
  | restart =>
    obtain ⟨a1, a2, a3, a4⟩ := restart_inv h.inv cfg hok (by rw [h.cfg]) (by rw [h.cfg]) r.q.memCap
    refine ⟨disk ++ r.q.mem.filter (validB r.q.dq.cfg), gone, ?_, fun _ => rfl⟩
    rw [stepRun_restart]
    refine ⟨a1, a4, h.cap, ?_, ?_⟩
    · show (openBQ r.q.memCap cfg (BackedQueue.close r.q).1.dq.fs).mem.length ≤ memCap
      rw [a3]; exact Nat.zero_le _
    · show (r.taken ++ (r.emptiedMem ++ (gone ++ ((r.flushLost ++ (BackedQueue.close r.q).2) ++
        ((openBQ r.q.memCap cfg (BackedQueue.close r.q).1.dq.fs).mem ++ (disk ++ r.q.mem.filter (validB r.q.dq.cfg))))))).Perm r.accepted
      rw [a2, a3]
      refine List.Perm.trans ?_ h.perm
      refine List.Perm.append_left _ (List.Perm.append_left _ (List.Perm.append_left _ ?_))
      rw [List.append_assoc]
      refine List.Perm.append_left _ ?_
      simp only [List.nil_append]
      -- bad ++ (disk ++ good) ~ mem ++ disk
      have hp : (r.q.mem.filter (validB r.q.dq.cfg) ++ r.q.mem.filter (fun b => !validB r.q.dq.cfg b)).Perm r.q.mem :=
        List.filter_append_perm _ _
      refine List.Perm.trans ?_ (hp.append_right disk)
      refine (List.perm_append_comm).trans ?_
      rw [List.append_assoc, List.append_assoc]
      refine List.Perm.trans (List.perm_append_comm (l₁ := disk)) ?_
      rw [List.append_assoc]
  | empty =>
    obtain ⟨_, a2, a3, a4, a5⟩ := empty_inv h.inv
    refine ⟨[], gone ++ disk, ?_, fun hne => absurd rfl hne⟩
    rw [stepRun_empty]
    refine ⟨a3, by rw [a5]; exact h.cfg, by rw [a4]; exact h.cap, ?_, ?_⟩
    · show (BackedQueue.empty r.q).2.mem.length ≤ memCap
      rw [a2]; exact Nat.zero_le _
    · show (r.taken ++ ((r.emptiedMem ++ r.q.mem) ++ ((gone ++ disk) ++ (r.flushLost ++ ((BackedQueue.empty r.q).2.mem ++ []))))).Perm r.accepted
      rw [a2]
      refine List.Perm.trans ?_ h.perm
      refine List.Perm.append_left _ ?_
      simp only [List.append_assoc, List.append_nil]
      refine List.Perm.append_left _ ?_
      -- mem ++ gone ++ disk ++ lost ~ gone ++ lost ++ mem ++ disk
      refine List.Perm.trans (List.perm_append_comm (l₁ := r.q.mem)) ?_
      simp only [List.append_assoc]
      refine List.Perm.append_left _ ?_
      refine List.Perm.trans (List.perm_append_comm (l₁ := disk)) ?_
      simp only [List.append_assoc]
      exact List.Perm.refl _

theorem ledger_fresh (cfg : Cfg) (hok : CfgOk cfg) (memCap : Nat) : Ledger cfg memCap (fresh memCap cfg) [] [] :=
  ⟨fresh_inv memCap cfg hok, openQ_cfg _ _, rfl, Nat.zero_le _, List.Perm.refl _⟩

theorem ledger_run (cfg : Cfg) (hok : CfgOk cfg) (memCap : Nat) (ops : List Op) :
    ∃ disk gone, Ledger cfg memCap (run memCap cfg ops) disk gone ∧ ((∀ o ∈ ops, o ≠ .empty) → gone = []) := by
  have gen : ∀ (ops : List Op) (r : Run) (disk gone : List Bytes), Ledger cfg memCap r disk gone →
      ∃ disk' gone', Ledger cfg memCap (ops.foldl (stepRun cfg) r) disk' gone' ∧
        ((∀ o ∈ ops, o ≠ .empty) → gone' = gone) := by
    intro ops
    induction ops with
    | nil => intro r disk gone h; exact ⟨disk, gone, h, fun _ => rfl⟩
    | cons o ops ih =>
      intro r disk gone h
      obtain ⟨d1, g1, h1, e1⟩ := ledger_step hok h o
      obtain ⟨d2, g2, h2, e2⟩ := ih _ d1 g1 h1
      refine ⟨d2, g2, by simpa only [List.foldl_cons] using h2, ?_⟩
      intro hall
      rw [e2 (fun x hx => hall x (by simp [hx])), e1 (hall o (by simp))]
  exact gen ops _ [] [] (ledger_fresh cfg hok memCap)

end Nsq.Proofs.BackedQueue
