import Nsq.Model.BackedQueue
import Nsq.Model.Chan
import Nsq.Proofs.DiskQueueApi
/-!
The queue of one channel / topic (`Nsq.Model.BackedQueue`: bounded memory queue + E9 backend):
invariant `Inv q disk` = "the backend of `q` is live, at rest and holds exactly the records `disk`"
(`Nsq.Proofs.DiskQueue.Q`), one lemma per operation, and the ledger invariant of histories.
-/
namespace Nsq.Proofs.BackedQueue
open Nsq.Model Nsq.Model.Wire
open Nsq.Model.BackedQueue (BQ PutOut Op Run stepRun fresh run openBQ flushInto)
open Nsq.Model.DiskQueue (St Cfg FS PutRes openQ)
open Nsq.Proofs.DiskQueue

def Inv (q : BQ) (disk : List Bytes) : Prop := Q q.dq disk

/-! ### put -/

theorem put_mem (q : BQ) (b : Bytes) (h : q.mem.length < q.memCap) :
    BackedQueue.put q b = (.mem, { q with mem := q.mem ++ [b] }) := by
  unfold BackedQueue.put
  rw [if_pos h]

theorem put_full (q : BQ) (b : Bytes) (h : ¬ q.mem.length < q.memCap) :
    BackedQueue.put q b = (.backend (DiskQueue.put q.dq b).1, { q with dq := (DiskQueue.put q.dq b).2 }) := by
  unfold BackedQueue.put
  rw [if_neg h]

theorem put_disk_ok {q : BQ} {disk : List Bytes} (hi : Inv q disk) (b : Bytes) (h : ¬ q.mem.length < q.memCap)
    (hv : ValidRec q.dq.cfg b) :
    (BackedQueue.put q b).1 = .backend .ok ∧ (BackedQueue.put q b).2.mem = q.mem ∧
      (BackedQueue.put q b).2.memCap = q.memCap ∧ Inv (BackedQueue.put q b).2 (disk ++ [b]) := by
  rw [put_full q b h]
  obtain ⟨a1, a2⟩ := put_ok_Q hi b hv
  exact ⟨by simp only []; rw [a1], rfl, rfl, a2⟩

theorem put_disk_invalid {q : BQ} {disk : List Bytes} (hi : Inv q disk) (b : Bytes) (h : ¬ q.mem.length < q.memCap)
    (hv : ¬ ValidRec q.dq.cfg b) :
    (BackedQueue.put q b).1 = .backend .invalid ∧ (BackedQueue.put q b).2.mem = q.mem ∧
      (BackedQueue.put q b).2.memCap = q.memCap ∧ Inv (BackedQueue.put q b).2 disk := by
  rw [put_full q b h]
  obtain ⟨a1, a2⟩ := put_invalid_Q hi b hv
  exact ⟨by simp only []; rw [a1], rfl, rfl, a2⟩

theorem bq_put_cfg (q : BQ) (b : Bytes) : (BackedQueue.put q b).2.dq.cfg = q.dq.cfg ∧
    (BackedQueue.put q b).2.memCap = q.memCap := by
  unfold BackedQueue.put
  split
  · exact ⟨rfl, rfl⟩
  · exact ⟨Nsq.Proofs.DiskQueue.put_cfg _ _, rfl⟩

/-! ### the two receive cases of the pumps -/

theorem takeMem_cons (q : BQ) (b : Bytes) (rest : List Bytes) (h : q.mem = b :: rest) :
    BackedQueue.takeMem q = (some b, { q with mem := rest }) := by
  unfold BackedQueue.takeMem
  rw [h]

theorem takeMem_nil (q : BQ) (h : q.mem = []) : BackedQueue.takeMem q = (none, q) := by
  unfold BackedQueue.takeMem
  rw [h]

theorem takeDisk_cons {q : BQ} {d : Bytes} {disk : List Bytes} (hi : Inv q (d :: disk)) :
    (BackedQueue.takeDisk q).1 = some d ∧ (BackedQueue.takeDisk q).2.mem = q.mem ∧
      (BackedQueue.takeDisk q).2.memCap = q.memCap ∧ Inv (BackedQueue.takeDisk q).2 disk := by
  obtain ⟨a1, a2⟩ := recv_head_Q hi
  exact ⟨a1, rfl, rfl, a2⟩

theorem takeDisk_nil {q : BQ} (hi : Inv q []) : BackedQueue.takeDisk q = (none, q) := by
  unfold BackedQueue.takeDisk
  rw [recv_none_Q hi]

theorem takeDisk_cfg (q : BQ) : (BackedQueue.takeDisk q).2.dq.cfg = q.dq.cfg := recv_cfg _

/-! ### Empty, Delete -/

theorem empty_cfg_dq (s : St) : (DiskQueue.empty s).2.cfg = s.cfg := by
  unfold DiskQueue.empty
  split
  · rfl
  · simp only []; rw [settle_cfg]; rfl

theorem empty_inv {q : BQ} {disk : List Bytes} (hi : Inv q disk) :
    (BackedQueue.empty q).1 = true ∧ (BackedQueue.empty q).2.mem = [] ∧ Inv (BackedQueue.empty q).2 [] ∧
      (BackedQueue.empty q).2.memCap = q.memCap ∧ (BackedQueue.empty q).2.dq.cfg = q.dq.cfg := by
  obtain ⟨a1, a2, _⟩ := empty_Q hi
  exact ⟨a1, rfl, a2, rfl, empty_cfg_dq _⟩

/-- `Channel.Delete` at file level: what is on the data path afterwards -/
theorem delete_files {q : BQ} {disk : List Bytes} (hi : Inv q disk) :
    (∀ i, (BackedQueue.delete q).dq.fs.dat i = none) ∧ (BackedQueue.delete q).dq.fs.md = none ∧
      (BackedQueue.delete q).dq.fs.bad = q.dq.fs.bad ∧ (BackedQueue.delete q).mem = [] ∧
      (BackedQueue.delete q).dq.exited = true := by
  obtain ⟨_, _, a3, a4, a5⟩ := empty_Q hi
  exact ⟨a3, a4, a5, rfl, rfl⟩

/-! ### flush, Close, New -/

def validB (cfg : Cfg) (b : Bytes) : Bool := decide (ValidRec cfg b)

theorem flushInto_spec (l : List Bytes) : ∀ (d : St) (disk : List Bytes), Q d disk →
    Q (flushInto d l).1 (disk ++ l.filter (validB d.cfg)) ∧
      (flushInto d l).2 = l.filter (fun b => !validB d.cfg b) ∧ (flushInto d l).1.cfg = d.cfg := by
  induction l with
  | nil => intro d disk h; exact ⟨by simpa [flushInto] using h, rfl, rfl⟩
  | cons b l ih =>
    intro d disk h
    have hc := Nsq.Proofs.DiskQueue.put_cfg d b
    by_cases hv : ValidRec d.cfg b
    · obtain ⟨a1, a2⟩ := put_ok_Q h b hv
      obtain ⟨i1, i2, i3⟩ := ih _ _ a2
      have hb : validB d.cfg b = true := by simp [validB, hv]
      unfold flushInto
      rw [if_pos a1, List.filter_cons_of_pos hb, List.filter_cons_of_neg (by simp [hb])]
      rw [hc] at i1 i2 i3
      exact ⟨by simpa using i1, i2, i3⟩
    · obtain ⟨a1, a2⟩ := put_invalid_Q h b hv
      obtain ⟨i1, i2, i3⟩ := ih _ _ a2
      have hb : validB d.cfg b = false := by simp [validB, hv]
      unfold flushInto
      rw [if_neg (by rw [a1]; simp), List.filter_cons_of_neg (by simp [hb]), List.filter_cons_of_pos (by simp [hb])]
      rw [hc] at i1 i2 i3
      exact ⟨i1, by simp only []; rw [i2], i3⟩

/-- `Channel.Close` then `NewChannel` on the same data path: the memory queue went to the END of the
disk queue (valid records; the others are lost with a log line), the new memory queue is empty -/
theorem restart_inv {q : BQ} {disk : List Bytes} (hi : Inv q disk) (cfg' : Cfg) (hok : CfgOk cfg')
    (hmin : cfg'.minMsgSize = q.dq.cfg.minMsgSize) (hmax : cfg'.maxMsgSize = q.dq.cfg.maxMsgSize) (memCap' : Nat) :
    Inv (openBQ memCap' cfg' (BackedQueue.close q).1.dq.fs) (disk ++ q.mem.filter (validB q.dq.cfg)) ∧
      (BackedQueue.close q).2 = q.mem.filter (fun b => !validB q.dq.cfg b) ∧
      (openBQ memCap' cfg' (BackedQueue.close q).1.dq.fs).mem = [] ∧
      (openBQ memCap' cfg' (BackedQueue.close q).1.dq.fs).dq.cfg = cfg' := by
  obtain ⟨f1, f2, f3⟩ := flushInto_spec q.mem q.dq disk hi
  refine ⟨?_, f2, rfl, openQ_cfg _ _⟩
  exact reopen_Q f1 cfg' hok (by rw [f3]; exact hmin) (by rw [f3]; exact hmax)

theorem filter_all_valid (cfg : Cfg) (l : List Bytes) (h : ∀ b ∈ l, ValidRec cfg b) :
    l.filter (validB cfg) = l ∧ l.filter (fun b => !validB cfg b) = [] := by
  constructor
  · rw [List.filter_eq_self]
    intro b hb; simp [validB, h b hb]
  · rw [List.filter_eq_nil_iff]
    intro b hb; simp [validB, h b hb]

theorem fresh_inv (memCap : Nat) (cfg : Cfg) (hok : CfgOk cfg) : Inv (openBQ memCap cfg FS.empty) [] :=
  fresh_Q cfg hok

/-! ### histories: the ledger -/

/-- what every history from a fresh data path satisfies: the backend is a healthy FIFO holding `disk`;
every accepted record is in exactly one place — handed to a pump, dropped by `Empty` (from memory:
ghost `emptiedMem`; from disk: `gone`), lost in a `flush` because the backend refused it, still in
memory or still on disk -/
structure Ledger (cfg : Cfg) (memCap : Nat) (r : Run) (disk gone : List Bytes) : Prop where
  inv : Inv r.q disk
  cfg : r.q.dq.cfg = cfg
  cap : r.q.memCap = memCap
  bound : r.q.mem.length ≤ memCap
  perm : (r.taken ++ (r.emptiedMem ++ (gone ++ (r.flushLost ++ (r.q.mem ++ disk))))).Perm r.accepted

theorem perm_snoc_mid {α : Type} (a b c : List α) (x : α) (acc : List α) (h : (a ++ (b ++ c)).Perm acc) :
    (a ++ ((b ++ [x]) ++ c)).Perm (acc ++ [x]) := by
  have : (a ++ ((b ++ [x]) ++ c)).Perm ((a ++ (b ++ c)) ++ [x]) := by
    simp only [List.append_assoc]
    refine List.Perm.append_left a (List.Perm.append_left b ?_)
    exact (List.perm_append_comm (l₁ := [x]) (l₂ := c))
  exact this.trans (h.append_right [x])

theorem stepRun_put (cfg : Cfg) (r : Run) (b : Bytes) : stepRun cfg r (.put b) =
    if (BackedQueue.put r.q b).1 = .mem ∨ (BackedQueue.put r.q b).1 = .backend .ok then
      { r with q := (BackedQueue.put r.q b).2, accepted := r.accepted ++ [b] }
    else { r with q := (BackedQueue.put r.q b).2, refused := r.refused ++ [b] } := rfl

theorem stepRun_takeMem (cfg : Cfg) (r : Run) : stepRun cfg r .takeMem =
    match (BackedQueue.takeMem r.q).1 with
    | some b => { r with q := (BackedQueue.takeMem r.q).2, taken := r.taken ++ [b] }
    | none => r := rfl

theorem stepRun_takeDisk (cfg : Cfg) (r : Run) : stepRun cfg r .takeDisk =
    match (BackedQueue.takeDisk r.q).1 with
    | some b => { r with q := (BackedQueue.takeDisk r.q).2, taken := r.taken ++ [b] }
    | none => { r with q := (BackedQueue.takeDisk r.q).2 } := rfl

theorem stepRun_restart (cfg : Cfg) (r : Run) : stepRun cfg r .restart =
    { r with q := openBQ r.q.memCap cfg (BackedQueue.close r.q).1.dq.fs,
             flushLost := r.flushLost ++ (BackedQueue.close r.q).2 } := rfl

theorem stepRun_empty (cfg : Cfg) (r : Run) : stepRun cfg r .empty =
    { r with q := (BackedQueue.empty r.q).2, emptiedMem := r.emptiedMem ++ r.q.mem } := rfl

/-- what the backend holds after one operation (the FIFO specification) -/
def specDisk (cfg : Cfg) (r : Run) (disk : List Bytes) : Op → List Bytes
  | .put b => if r.q.mem.length < r.q.memCap then disk else if validB cfg b then disk ++ [b] else disk
  | .takeMem => disk
  | .takeDisk => disk.tail
  | .restart => disk ++ r.q.mem.filter (validB cfg)
  | .empty => []

def specGone (gone disk : List Bytes) : Op → List Bytes
  | .empty => gone ++ disk
  | _ => gone

theorem ledger_step {cfg : Cfg} (hok : CfgOk cfg) {memCap : Nat} {r : Run} {disk gone : List Bytes}
    (h : Ledger cfg memCap r disk gone) (o : Op) :
    ∃ disk' gone', Ledger cfg memCap (stepRun cfg r o) disk' gone' ∧ (o ≠ .empty → gone' = gone) ∧
      disk' = specDisk cfg r disk o ∧ gone' = specGone gone disk o := by
  cases o with
  | put b =>
    by_cases hm : r.q.mem.length < r.q.memCap
    · have e := put_mem r.q b hm
      refine ⟨disk, gone, ?_, fun _ => rfl, by simp [specDisk, hm], rfl⟩
      rw [stepRun_put]
      rw [if_pos (Or.inl (by rw [e]))]
      rw [e]
      refine ⟨h.inv, h.cfg, h.cap, ?_, ?_⟩
      · show (r.q.mem ++ [b]).length ≤ memCap
        rw [List.length_append]; have := h.cap; simp only [List.length_cons, List.length_nil]; omega
      · show (r.taken ++ (r.emptiedMem ++ (gone ++ (r.flushLost ++ ((r.q.mem ++ [b]) ++ disk))))).Perm (r.accepted ++ [b])
        have := perm_snoc_mid (r.taken ++ (r.emptiedMem ++ (gone ++ r.flushLost))) r.q.mem disk b r.accepted
          (by simpa only [List.append_assoc] using h.perm)
        simpa only [List.append_assoc] using this
    · by_cases hv : ValidRec r.q.dq.cfg b
      · obtain ⟨a1, a2, a3, a4⟩ := put_disk_ok h.inv b hm hv
        refine ⟨disk ++ [b], gone, ?_, fun _ => rfl, by simp [specDisk, hm, validB, show ValidRec cfg b from h.cfg ▸ hv], rfl⟩
        rw [stepRun_put]
        rw [if_pos (Or.inr a1)]
        refine ⟨a4, by rw [← h.cfg]; exact (bq_put_cfg r.q b).1, by rw [← h.cap]; exact a3, ?_, ?_⟩
        · show (BackedQueue.put r.q b).2.mem.length ≤ memCap
          rw [a2]; exact h.bound
        · show (r.taken ++ (r.emptiedMem ++ (gone ++ (r.flushLost ++ ((BackedQueue.put r.q b).2.mem ++ (disk ++ [b])))))).Perm (r.accepted ++ [b])
          rw [a2]
          have := h.perm.append_right [b]
          simpa only [List.append_assoc] using this
      · obtain ⟨a1, a2, a3, a4⟩ := put_disk_invalid h.inv b hm hv
        refine ⟨disk, gone, ?_, fun _ => rfl, by simp [specDisk, hm, validB, show ¬ ValidRec cfg b from h.cfg ▸ hv], rfl⟩
        rw [stepRun_put]
        rw [if_neg (by rw [a1]; simp)]
        refine ⟨a4, by rw [← h.cfg]; exact (bq_put_cfg r.q b).1, by rw [← h.cap]; exact a3, ?_, ?_⟩
        · show (BackedQueue.put r.q b).2.mem.length ≤ memCap
          rw [a2]; exact h.bound
        · show (r.taken ++ (r.emptiedMem ++ (gone ++ (r.flushLost ++ ((BackedQueue.put r.q b).2.mem ++ disk))))).Perm r.accepted
          rw [a2]; exact h.perm
  | takeMem =>
    refine ⟨disk, gone, ?_, fun _ => rfl, rfl, rfl⟩
    cases hmem : r.q.mem with
    | nil =>
      rw [stepRun_takeMem]
      rw [takeMem_nil r.q hmem]
      exact h
    | cons b rest =>
      rw [stepRun_takeMem]
      rw [takeMem_cons r.q b rest hmem]
      refine ⟨h.inv, h.cfg, h.cap, ?_, ?_⟩
      · show rest.length ≤ memCap
        have := h.bound; rw [hmem] at this; simp only [List.length_cons] at this; omega
      · show ((r.taken ++ [b]) ++ (r.emptiedMem ++ (gone ++ (r.flushLost ++ (rest ++ disk))))).Perm r.accepted
        refine List.Perm.trans ?_ h.perm
        rw [hmem, List.append_assoc]
        refine List.Perm.append_left r.taken ?_
        show (b :: (r.emptiedMem ++ (gone ++ (r.flushLost ++ (rest ++ disk))))).Perm _
        have e : r.emptiedMem ++ (gone ++ (r.flushLost ++ (b :: rest ++ disk))) =
            (r.emptiedMem ++ (gone ++ r.flushLost)) ++ b :: (rest ++ disk) := by simp
        rw [e]
        refine List.Perm.trans ?_ List.perm_middle.symm
        simp only [List.append_assoc]
        exact List.Perm.refl _
  | takeDisk =>
    refine ⟨disk.tail, gone, ?_, fun _ => rfl, rfl, rfl⟩
    cases hd : disk with
    | nil =>
      have hi := h.inv; rw [hd] at hi
      rw [stepRun_takeDisk]
      rw [takeDisk_nil hi]
      have := h; rw [hd] at this
      exact this
    | cons d rest =>
      have hi := h.inv; rw [hd] at hi
      obtain ⟨a1, a2, a3, a4⟩ := takeDisk_cons hi
      rw [stepRun_takeDisk]
      rw [a1]
      refine ⟨a4, by rw [← h.cfg]; exact takeDisk_cfg r.q, by rw [← h.cap]; exact a3, ?_, ?_⟩
      · show (BackedQueue.takeDisk r.q).2.mem.length ≤ memCap
        rw [a2]; exact h.bound
      · show ((r.taken ++ [d]) ++ (r.emptiedMem ++ (gone ++ (r.flushLost ++ ((BackedQueue.takeDisk r.q).2.mem ++ rest))))).Perm r.accepted
        rw [a2]
        refine List.Perm.trans ?_ h.perm
        rw [hd, List.append_assoc]
        refine List.Perm.append_left r.taken ?_
        show (d :: (r.emptiedMem ++ (gone ++ (r.flushLost ++ (r.q.mem ++ rest))))).Perm _
        have e : r.emptiedMem ++ (gone ++ (r.flushLost ++ (r.q.mem ++ d :: rest))) =
            (r.emptiedMem ++ (gone ++ (r.flushLost ++ r.q.mem))) ++ d :: rest := by simp
        rw [e]
        refine List.Perm.trans ?_ List.perm_middle.symm
        simp only [List.append_assoc]
        exact List.Perm.refl _
  | restart =>
    obtain ⟨a1, a2, a3, a4⟩ := restart_inv h.inv cfg hok (by rw [h.cfg]) (by rw [h.cfg]) r.q.memCap
    refine ⟨disk ++ r.q.mem.filter (validB r.q.dq.cfg), gone, ?_, fun _ => rfl, by show _ = disk ++ r.q.mem.filter (validB cfg); rw [h.cfg], rfl⟩
    rw [stepRun_restart]
    refine ⟨a1, a4, h.cap, ?_, ?_⟩
    · show (openBQ r.q.memCap cfg (BackedQueue.close r.q).1.dq.fs).mem.length ≤ memCap
      rw [a3]; exact Nat.zero_le _
    · show (r.taken ++ (r.emptiedMem ++ (gone ++ ((r.flushLost ++ (BackedQueue.close r.q).2) ++
        ((openBQ r.q.memCap cfg (BackedQueue.close r.q).1.dq.fs).mem ++ (disk ++ r.q.mem.filter (validB r.q.dq.cfg))))))).Perm r.accepted
      rw [a2, a3]
      refine List.Perm.trans ?_ h.perm
      refine List.Perm.append_left _ (List.Perm.append_left _ (List.Perm.append_left _ ?_))
      rw [List.append_assoc]
      refine List.Perm.append_left _ ?_
      simp only [List.nil_append]
      -- bad ++ (disk ++ good) ~ mem ++ disk
      have hp : (r.q.mem.filter (validB r.q.dq.cfg) ++ r.q.mem.filter (fun b => !validB r.q.dq.cfg b)).Perm r.q.mem :=
        List.filter_append_perm _ _
      refine List.Perm.trans ?_ (hp.append_right disk)
      refine (List.perm_append_comm).trans ?_
      rw [List.append_assoc, List.append_assoc]
      refine List.Perm.trans (List.perm_append_comm (l₁ := disk)) ?_
      rw [List.append_assoc]
  | empty =>
    obtain ⟨_, a2, a3, a4, a5⟩ := empty_inv h.inv
    refine ⟨[], gone ++ disk, ?_, fun hne => absurd rfl hne, rfl, rfl⟩
    rw [stepRun_empty]
    refine ⟨a3, by rw [a5]; exact h.cfg, by rw [a4]; exact h.cap, ?_, ?_⟩
    · show (BackedQueue.empty r.q).2.mem.length ≤ memCap
      rw [a2]; exact Nat.zero_le _
    · show (r.taken ++ ((r.emptiedMem ++ r.q.mem) ++ ((gone ++ disk) ++ (r.flushLost ++ ((BackedQueue.empty r.q).2.mem ++ []))))).Perm r.accepted
      rw [a2]
      refine List.Perm.trans ?_ h.perm
      refine List.Perm.append_left _ ?_
      simp only [List.append_assoc, List.append_nil]
      refine List.Perm.append_left _ ?_
      -- mem ++ gone ++ disk ++ lost ~ gone ++ lost ++ mem ++ disk
      refine List.Perm.trans (List.perm_append_comm (l₁ := r.q.mem)) ?_
      simp only [List.append_assoc]
      refine List.Perm.append_left _ ?_
      refine List.Perm.trans (List.perm_append_comm (l₁ := disk)) ?_
      simp only [List.append_assoc]
      exact List.Perm.refl _

theorem ledger_fresh (cfg : Cfg) (hok : CfgOk cfg) (memCap : Nat) : Ledger cfg memCap (fresh memCap cfg) [] [] :=
  ⟨fresh_inv memCap cfg hok, openQ_cfg _ _, rfl, Nat.zero_le _, List.Perm.refl _⟩

theorem ledger_run (cfg : Cfg) (hok : CfgOk cfg) (memCap : Nat) (ops : List Op) :
    ∃ disk gone, Ledger cfg memCap (run memCap cfg ops) disk gone ∧ ((∀ o ∈ ops, o ≠ .empty) → gone = []) := by
  have gen : ∀ (ops : List Op) (r : Run) (disk gone : List Bytes), Ledger cfg memCap r disk gone →
      ∃ disk' gone', Ledger cfg memCap (ops.foldl (stepRun cfg) r) disk' gone' ∧
        ((∀ o ∈ ops, o ≠ .empty) → gone' = gone) := by
    intro ops
    induction ops with
    | nil => intro r disk gone h; exact ⟨disk, gone, h, fun _ => rfl⟩
    | cons o ops ih =>
      intro r disk gone h
      obtain ⟨d1, g1, h1, e1, _, _⟩ := ledger_step hok h o
      obtain ⟨d2, g2, h2, e2⟩ := ih _ d1 g1 h1
      refine ⟨d2, g2, by simpa only [List.foldl_cons] using h2, ?_⟩
      intro hall
      rw [e2 (fun x hx => hall x (by simp [hx])), e1 (hall o (by simp))]
  exact gen ops _ [] [] (ledger_fresh cfg hok memCap)

/-- a generalisation of `ledger_run`: from ANY state with a ledger (e.g. a re-created channel) -/
theorem ledger_foldl (cfg : Cfg) (hok : CfgOk cfg) (memCap : Nat) (ops : List Op) (r : Run) (disk gone : List Bytes)
    (h : Ledger cfg memCap r disk gone) :
    ∃ disk' gone', Ledger cfg memCap (ops.foldl (stepRun cfg) r) disk' gone' ∧
      ((∀ o ∈ ops, o ≠ .empty) → gone' = gone) := by
  induction ops generalizing r disk gone with
  | nil => exact ⟨disk, gone, h, fun _ => rfl⟩
  | cons o ops ih =>
    obtain ⟨d1, g1, h1, e1, _, _⟩ := ledger_step hok h o
    obtain ⟨d2, g2, h2, e2⟩ := ih _ d1 g1 h1
    refine ⟨d2, g2, by simpa only [List.foldl_cons] using h2, ?_⟩
    intro hall
    rw [e2 (fun x hx => hall x (by simp [hx])), e1 (hall o (by simp))]

/-! ### histories of valid records: nothing is refused, every put is accepted -/

def putsOf : List Op → List Bytes
  | [] => []
  | .put b :: ops => b :: putsOf ops
  | _ :: ops => putsOf ops

theorem putsOf_mem {ops : List Op} {b : Bytes} : b ∈ putsOf ops ↔ Op.put b ∈ ops := by
  induction ops with
  | nil => simp [putsOf]
  | cons o ops ih =>
    cases o <;> simp [putsOf, ih]

/-- every record in the memory queue has a size the backend accepts -/
def Clean (cfg : Cfg) (r : Run) : Prop := ∀ b ∈ r.q.mem, ValidRec cfg b

theorem clean_step {cfg : Cfg} (hok : CfgOk cfg) {memCap : Nat} {r : Run} {disk gone : List Bytes}
    (h : Ledger cfg memCap r disk gone) (hc : Clean cfg r) (o : Op) (hv : ∀ b, o = .put b → ValidRec cfg b) :
    Clean cfg (stepRun cfg r o) ∧ (stepRun cfg r o).refused = r.refused ∧
      (stepRun cfg r o).flushLost = r.flushLost ∧ (stepRun cfg r o).accepted = r.accepted ++ putsOf [o] ∧
      ((∀ b, o ≠ .put b) → (stepRun cfg r o).accepted = r.accepted) ∧
      (o ≠ .empty → (stepRun cfg r o).emptiedMem = r.emptiedMem) := by
  cases o with
  | put b =>
    have hvb := hv b rfl
    rw [stepRun_put]
    by_cases hm : r.q.mem.length < r.q.memCap
    · have e := put_mem r.q b hm
      rw [if_pos (Or.inl (by rw [e]))]
      rw [e]
      refine ⟨?_, rfl, rfl, rfl, fun hh => absurd rfl (hh b), fun _ => rfl⟩
      intro x hx
      replace hx : x ∈ r.q.mem ++ [b] := hx
      rw [List.mem_append] at hx
      cases hx with
      | inl h1 => exact hc x h1
      | inr h1 => simp only [List.mem_singleton] at h1; rw [h1]; exact hvb
    · obtain ⟨a1, a2, _, _⟩ := put_disk_ok h.inv b hm (by rw [h.cfg]; exact hvb)
      rw [if_pos (Or.inr a1)]
      refine ⟨?_, rfl, rfl, rfl, fun hh => absurd rfl (hh b), fun _ => rfl⟩
      intro x hx
      replace hx : x ∈ (BackedQueue.put r.q b).2.mem := hx
      rw [a2] at hx
      exact hc x hx
  | takeMem =>
    rw [stepRun_takeMem]
    cases hmem : r.q.mem with
    | nil =>
      rw [takeMem_nil r.q hmem]
      exact ⟨hc, rfl, rfl, by simp [putsOf], fun _ => rfl, fun _ => rfl⟩
    | cons b rest =>
      rw [takeMem_cons r.q b rest hmem]
      refine ⟨?_, rfl, rfl, by simp [putsOf], fun _ => rfl, fun _ => rfl⟩
      intro x hx
      replace hx : x ∈ rest := hx
      exact hc x (by rw [hmem]; exact List.mem_cons_of_mem _ hx)
  | takeDisk =>
    rw [stepRun_takeDisk]
    cases hd : (BackedQueue.takeDisk r.q).1 with
    | none => exact ⟨hc, rfl, rfl, by simp [putsOf], fun _ => rfl, fun _ => rfl⟩
    | some d => exact ⟨hc, rfl, rfl, by simp [putsOf], fun _ => rfl, fun _ => rfl⟩
  | restart =>
    rw [stepRun_restart]
    obtain ⟨_, a2, _, _⟩ := restart_inv h.inv cfg hok (by rw [h.cfg]) (by rw [h.cfg]) r.q.memCap
    have hf := (filter_all_valid r.q.dq.cfg r.q.mem (by rw [h.cfg]; exact hc)).2
    refine ⟨?_, rfl, ?_, by simp [putsOf], fun _ => rfl, fun _ => rfl⟩
    · intro x hx
      exact absurd hx (by show ¬ x ∈ ([] : List Bytes); simp)
    · show r.flushLost ++ (BackedQueue.close r.q).2 = r.flushLost
      rw [a2, hf, List.append_nil]
  | empty =>
    rw [stepRun_empty]
    refine ⟨?_, rfl, rfl, by simp [putsOf], fun _ => rfl, fun hh => absurd rfl hh⟩
    intro x hx
    exact absurd hx (by show ¬ x ∈ ([] : List Bytes); simp)

theorem putsOf_cons (o : Op) (ops : List Op) : putsOf (o :: ops) = putsOf [o] ++ putsOf ops := by
  cases o <;> simp [putsOf]

/-- the ledger of a history of valid-size records: every put is accepted, nothing is ever refused or lost -/
theorem clean_foldl (cfg : Cfg) (hok : CfgOk cfg) (memCap : Nat) (ops : List Op) (hv : ∀ b, Op.put b ∈ ops → ValidRec cfg b)
    (r : Run) (disk gone : List Bytes) (h : Ledger cfg memCap r disk gone) (hc : Clean cfg r) :
    ∃ disk' gone', Ledger cfg memCap (ops.foldl (stepRun cfg) r) disk' gone' ∧
      ((∀ o ∈ ops, o ≠ .empty) → gone' = gone ∧ (ops.foldl (stepRun cfg) r).emptiedMem = r.emptiedMem) ∧
      (ops.foldl (stepRun cfg) r).refused = r.refused ∧ (ops.foldl (stepRun cfg) r).flushLost = r.flushLost ∧
      (ops.foldl (stepRun cfg) r).accepted = r.accepted ++ putsOf ops := by
  induction ops generalizing r disk gone with
  | nil => exact ⟨disk, gone, h, fun _ => ⟨rfl, rfl⟩, rfl, rfl, by simp [putsOf]⟩
  | cons o ops ih =>
    obtain ⟨d1, g1, h1, e1, _, _⟩ := ledger_step hok h o
    obtain ⟨c1, c2, c3, c4, _, c6⟩ := clean_step hok h hc o (fun b hb => hv b (by rw [hb]; simp))
    obtain ⟨d2, g2, h2, e2, i2, i3, i4⟩ := ih (fun b hb => hv b (List.mem_cons_of_mem _ hb)) _ d1 g1 h1 c1
    refine ⟨d2, g2, by simpa only [List.foldl_cons] using h2, ?_, ?_, ?_, ?_⟩
    · intro hall
      obtain ⟨x1, x2⟩ := e2 (fun x hx => hall x (by simp [hx]))
      refine ⟨by rw [x1, e1 (hall o (by simp))], ?_⟩
      simp only [List.foldl_cons]
      rw [x2, c6 (hall o (by simp))]
    · simp only [List.foldl_cons]; rw [i2, c2]
    · simp only [List.foldl_cons]; rw [i3, c3]
    · simp only [List.foldl_cons]; rw [i4, c4, putsOf_cons o ops, List.append_assoc]

/-- with `--mem-queue-size 0` the whole queue is the disk queue: in histories without `Empty` the records
handed out are a PREFIX of the records accepted (global FIFO) -/
theorem zero_mem_fifo_step {cfg : Cfg} (hok : CfgOk cfg) {r : Run} {disk gone : List Bytes}
    (h : Ledger cfg 0 r disk gone) (he : r.accepted = r.taken ++ disk) (o : Op) (hne : o ≠ .empty) :
    ∃ disk' gone', Ledger cfg 0 (stepRun cfg r o) disk' gone' ∧
      (stepRun cfg r o).accepted = (stepRun cfg r o).taken ++ disk' := by
  have hmem : r.q.mem = [] := List.eq_nil_of_length_eq_zero (Nat.le_zero.1 h.bound)
  have hm : ¬ r.q.mem.length < r.q.memCap := by rw [h.cap]; omega
  obtain ⟨d', g', hl, _, hd, _⟩ := ledger_step hok h o
  refine ⟨d', g', hl, ?_⟩
  rw [hd]
  cases o with
  | put b =>
    by_cases hv : ValidRec r.q.dq.cfg b
    · obtain ⟨a1, _, _, _⟩ := put_disk_ok h.inv b hm hv
      rw [stepRun_put, if_pos (Or.inr a1)]
      show r.accepted ++ [b] = r.taken ++ specDisk cfg r disk (.put b)
      have e : specDisk cfg r disk (.put b) = disk ++ [b] := by
        simp [specDisk, hm, validB, show ValidRec cfg b from h.cfg ▸ hv]
      rw [e, he, List.append_assoc]
    · obtain ⟨a1, _, _, _⟩ := put_disk_invalid h.inv b hm hv
      rw [stepRun_put, if_neg (by rw [a1]; simp)]
      show r.accepted = r.taken ++ specDisk cfg r disk (.put b)
      have e : specDisk cfg r disk (.put b) = disk := by
        simp [specDisk, hm, validB, show ¬ ValidRec cfg b from h.cfg ▸ hv]
      rw [e, he]
  | takeMem =>
    rw [stepRun_takeMem, takeMem_nil r.q hmem]
    exact he
  | takeDisk =>
    rw [stepRun_takeDisk]
    cases hdk : disk with
    | nil =>
      have hi := h.inv; rw [hdk] at hi
      rw [takeDisk_nil hi]
      show r.accepted = r.taken ++ []
      rw [he, hdk]
    | cons d rest =>
      have hi := h.inv; rw [hdk] at hi
      obtain ⟨a1, _, _, _⟩ := takeDisk_cons hi
      rw [a1]
      show r.accepted = (r.taken ++ [d]) ++ rest
      rw [he, hdk, List.append_assoc]; rfl
  | restart =>
    rw [stepRun_restart]
    show r.accepted = r.taken ++ (disk ++ r.q.mem.filter (validB cfg))
    rw [hmem, he]; simp
  | empty => exact absurd rfl hne

theorem zero_mem_fifo_foldl (cfg : Cfg) (hok : CfgOk cfg) (ops : List Op) (hne : ∀ o ∈ ops, o ≠ .empty)
    (r : Run) (disk gone : List Bytes) (h : Ledger cfg 0 r disk gone) (he : r.accepted = r.taken ++ disk) :
    ∃ disk' gone', Ledger cfg 0 (ops.foldl (stepRun cfg) r) disk' gone' ∧
      (ops.foldl (stepRun cfg) r).accepted = (ops.foldl (stepRun cfg) r).taken ++ disk' := by
  induction ops generalizing r disk gone with
  | nil => exact ⟨disk, gone, h, he⟩
  | cons o ops ih =>
    obtain ⟨d1, g1, h1, e1⟩ := zero_mem_fifo_step hok h he o (hne o (by simp))
    obtain ⟨d2, g2, h2, e2⟩ := ih (fun x hx => hne x (by simp [hx])) _ d1 g1 h1 e1
    exact ⟨d2, g2, by simpa only [List.foldl_cons] using h2, by simpa only [List.foldl_cons] using e2⟩

/-! ### the counters of the E2 channel model -/

/-- simulation relation between the queue of one channel and the two counters of the E2 model -/
def CntRel (q : BQ) (disk : List Bytes) (c : Chan.Chan) : Prop :=
  c.memLen = q.mem.length ∧ c.dqLen = disk.length ∧ c.memCap = q.memCap ∧ c.ephemeral = false

/-- the counter update of every E2 step that takes a queued message (`doDeliver`, `sampleDrop`):
"`memLen > 0` ? memory : disk" -/
def e2Take (c : Chan.Chan) : Chan.Chan :=
  { c with memLen := if c.memLen > 0 then c.memLen - 1 else c.memLen,
           dqLen := if c.memLen > 0 then c.dqLen else c.dqLen - 1 }

theorem doDeliver_counters (c : Chan.Chan) (cl : Chan.Client) (k id : Nat) (now : Int) (a : Nat)
    (h : (Chan.doDeliver c cl k id now).2 = .msg a) :
    (Chan.doDeliver c cl k id now).1.memLen = (e2Take c).memLen ∧
    (Chan.doDeliver c cl k id now).1.dqLen = (e2Take c).dqLen ∧
    (Chan.doDeliver c cl k id now).1.memCap = c.memCap ∧
    (Chan.doDeliver c cl k id now).1.ephemeral = c.ephemeral := by
  unfold Chan.doDeliver at h ⊢
  split
  · rename_i h1
    rw [h1] at h
    exact absurd h (by simp)
  · rename_i e h1
    rw [h1] at h
    simp only [] at h ⊢
    split
    · rename_i h2
      rw [if_pos h2] at h
      exact absurd h (by simp)
    · exact ⟨rfl, rfl, rfl, rfl⟩

theorem enqueue_counters (c : Chan.Chan) (id : Nat) (he : c.ephemeral = false) :
    (Chan.enqueue c id).memLen = (if c.memLen < c.memCap then c.memLen + 1 else c.memLen) ∧
    (Chan.enqueue c id).dqLen = (if c.memLen < c.memCap then c.dqLen else c.dqLen + 1) ∧
    (Chan.enqueue c id).memCap = c.memCap ∧ (Chan.enqueue c id).ephemeral = false := by
  unfold Chan.enqueue
  by_cases h : c.memLen < c.memCap
  · rw [if_pos h, if_pos h, if_pos h]; exact ⟨rfl, rfl, rfl, he⟩
  · rw [if_neg h, if_neg h, if_neg h, if_neg (by rw [he]; simp)]; exact ⟨rfl, rfl, rfl, he⟩

theorem resplit_counters (conf : Chan.Conf) (c : Chan.Chan) (m d : Nat) (hs : m + d = c.memLen + c.dqLen)
    (hm : m ≤ c.memCap) (he : c.ephemeral = false) :
    (Chan.step conf c (.resplit m d)).1.memLen = m ∧ (Chan.step conf c (.resplit m d)).1.dqLen = d ∧
    (Chan.step conf c (.resplit m d)).1.memCap = c.memCap ∧ (Chan.step conf c (.resplit m d)).1.ephemeral = false ∧
    (Chan.step conf c (.resplit m d)).2 = .ok := by
  have hc : (m + d = c.memLen + c.dqLen && decide (m ≤ c.memCap) && (!c.ephemeral || d == 0)) = true := by
    simp [hs, hm, he]
  have e : Chan.step conf c (.resplit m d) = ({ c with memLen := m, dqLen := d }, Chan.Out.ok) := by
    simp only [Chan.step]
    rw [if_pos hc]
  rw [e]
  exact ⟨rfl, rfl, rfl, he, rfl⟩

theorem e2_empty_counters (conf : Chan.Conf) (c : Chan.Chan) :
    (Chan.step conf c .empty).1.memLen = 0 ∧ (Chan.step conf c .empty).1.dqLen = 0 ∧
    (Chan.step conf c .empty).1.memCap = c.memCap ∧ (Chan.step conf c .empty).1.ephemeral = c.ephemeral := by
  refine ⟨?_, ?_, ?_, ?_⟩ <;> simp only [Chan.step]

/-- the E2 steps (counters only) that one queue operation corresponds to; the outcome of the operation
is the observation of the runtime's choice (`resplit`) -/
def e2Step (conf : Chan.Conf) (r : Run) (c : Chan.Chan) : Op → Chan.Chan
  | .put _ => Chan.enqueue c 0
  | .takeMem => if r.q.mem = [] then c else e2Take c
  | .takeDisk =>
    match (BackedQueue.takeDisk r.q).1 with
    | none => c
    | some _ => (Chan.step conf (e2Take c) (.resplit r.q.mem.length (c.dqLen - 1))).1
  | .restart => (Chan.step conf c (.resplit 0 (c.memLen + c.dqLen))).1
  | .empty => (Chan.step conf c .empty).1

theorem cnt_step {cfg : Cfg} {memCap : Nat} {r : Run} {disk gone : List Bytes}
    (h : Ledger cfg memCap r disk gone) (hc : Clean cfg r) (conf : Chan.Conf) (c : Chan.Chan) (hr : CntRel r.q disk c)
    (o : Op) (hv : ∀ b, o = .put b → ValidRec cfg b) :
    CntRel (stepRun cfg r o).q (specDisk cfg r disk o) (e2Step conf r c o) := by
  obtain ⟨r1, r2, r3, r4⟩ := hr
  cases o with
  | put b =>
    have hvb := hv b rfl
    obtain ⟨e1, e2, e3, e4⟩ := enqueue_counters c 0 r4
    show CntRel _ _ (Chan.enqueue c 0)
    rw [stepRun_put]
    by_cases hm : r.q.mem.length < r.q.memCap
    · have e := put_mem r.q b hm
      have hm' : c.memLen < c.memCap := by rw [r1, r3]; exact hm
      rw [if_pos (Or.inl (by rw [e])), e]
      have sd : specDisk cfg r disk (.put b) = disk := by simp [specDisk, hm]
      rw [sd]
      refine ⟨?_, ?_, by rw [e3, r3], e4⟩
      · rw [e1, if_pos hm', r1]; show _ = (r.q.mem ++ [b]).length; simp
      · rw [e2, if_pos hm', r2]
    · obtain ⟨a1, a2, a3, _⟩ := put_disk_ok h.inv b hm (by rw [h.cfg]; exact hvb)
      have hm' : ¬ c.memLen < c.memCap := by rw [r1, r3]; exact hm
      rw [if_pos (Or.inr a1)]
      have sd : specDisk cfg r disk (.put b) = disk ++ [b] := by simp [specDisk, hm, validB, hvb]
      rw [sd]
      refine ⟨?_, ?_, by rw [e3, r3]; exact a3.symm, e4⟩
      · rw [e1, if_neg hm', r1]; show _ = (BackedQueue.put r.q b).2.mem.length; rw [a2]
      · rw [e2, if_neg hm', r2]; simp
  | takeMem =>
    rw [stepRun_takeMem]
    show CntRel _ disk (if r.q.mem = [] then c else e2Take c)
    cases hmem : r.q.mem with
    | nil =>
      rw [takeMem_nil r.q hmem, if_pos rfl]
      exact ⟨r1, r2, r3, r4⟩
    | cons b rest =>
      rw [takeMem_cons r.q b rest hmem, if_neg (by simp)]
      have hp : c.memLen > 0 := by rw [r1, hmem]; simp
      refine ⟨?_, ?_, r3, r4⟩
      · show (if c.memLen > 0 then c.memLen - 1 else c.memLen) = rest.length
        rw [if_pos hp, r1, hmem]; simp
      · show (if c.memLen > 0 then c.dqLen else c.dqLen - 1) = disk.length
        rw [if_pos hp, r2]
  | takeDisk =>
    rw [stepRun_takeDisk]
    show CntRel _ disk.tail (match (BackedQueue.takeDisk r.q).1 with
      | none => c
      | some _ => (Chan.step conf (e2Take c) (.resplit r.q.mem.length (c.dqLen - 1))).1)
    cases hdk : disk with
    | nil =>
      have hi := h.inv; rw [hdk] at hi
      rw [takeDisk_nil hi]
      exact ⟨r1, by rw [r2, hdk]; rfl, r3, r4⟩
    | cons d rest =>
      have hi := h.inv; rw [hdk] at hi
      obtain ⟨a1, a2, a3, _⟩ := takeDisk_cons hi
      rw [a1]
      have hdl : c.dqLen = rest.length + 1 := by rw [r2, hdk]; rfl
      have hb := h.bound
      have hsum : r.q.mem.length + (c.dqLen - 1) = (e2Take c).memLen + (e2Take c).dqLen := by
        show _ = (if c.memLen > 0 then c.memLen - 1 else c.memLen) + (if c.memLen > 0 then c.dqLen else c.dqLen - 1)
        by_cases hp : c.memLen > 0
        · rw [if_pos hp, if_pos hp]; omega
        · rw [if_neg hp, if_neg hp]; omega
      obtain ⟨s1, s2, s3, s4, _⟩ := resplit_counters conf (e2Take c) r.q.mem.length (c.dqLen - 1) hsum
        (by show r.q.mem.length ≤ c.memCap; rw [r3, h.cap]; exact hb) r4
      refine ⟨?_, ?_, ?_, s4⟩
      · rw [s1]; show _ = (BackedQueue.takeDisk r.q).2.mem.length; rw [a2]
      · rw [s2, hdl]; simp
      · rw [s3]; show c.memCap = (BackedQueue.takeDisk r.q).2.memCap; rw [a3, r3]
  | restart =>
    rw [stepRun_restart]
    show CntRel _ (disk ++ r.q.mem.filter (validB cfg)) (Chan.step conf c (.resplit 0 (c.memLen + c.dqLen))).1
    obtain ⟨s1, s2, s3, s4, _⟩ := resplit_counters conf c 0 (c.memLen + c.dqLen) (by omega) (Nat.zero_le _) r4
    have hf := (filter_all_valid cfg r.q.mem hc).1
    refine ⟨by rw [s1]; rfl, ?_, by rw [s3, r3]; rfl, s4⟩
    rw [s2, hf, List.length_append, r1, r2]; omega
  | empty =>
    rw [stepRun_empty]
    show CntRel _ [] (Chan.step conf c .empty).1
    obtain ⟨s1, s2, s3, s4⟩ := e2_empty_counters conf c
    exact ⟨by rw [s1]; rfl, by rw [s2]; rfl, by rw [s3, r3]; rfl, by rw [s4, r4]⟩

/-- the E2 counters along a whole history -/
def e2Run (conf : Chan.Conf) (cfg : Cfg) : Run → Chan.Chan → List Op → Chan.Chan
  | _, c, [] => c
  | r, c, o :: ops => e2Run conf cfg (stepRun cfg r o) (e2Step conf r c o) ops

theorem cnt_foldl (cfg : Cfg) (hok : CfgOk cfg) (memCap : Nat) (conf : Chan.Conf) (ops : List Op)
    (hv : ∀ b, Op.put b ∈ ops → ValidRec cfg b) (r : Run) (disk gone : List Bytes) (h : Ledger cfg memCap r disk gone)
    (hc : Clean cfg r) (c : Chan.Chan) (hr : CntRel r.q disk c) :
    ∃ disk' gone', Ledger cfg memCap (ops.foldl (stepRun cfg) r) disk' gone' ∧
      CntRel (ops.foldl (stepRun cfg) r).q disk' (e2Run conf cfg r c ops) := by
  induction ops generalizing r disk gone c with
  | nil => exact ⟨disk, gone, h, hr⟩
  | cons o ops ih =>
    have hvo : ∀ b, o = .put b → ValidRec cfg b := fun b hb => hv b (by rw [hb]; simp)
    obtain ⟨d1, g1, h1, _, hd, _⟩ := ledger_step hok h o
    obtain ⟨c1, _⟩ := clean_step hok h hc o hvo
    have hr1 := cnt_step h hc conf c hr o hvo
    rw [← hd] at hr1
    obtain ⟨d2, g2, h2, r2⟩ := ih (fun b hb => hv b (List.mem_cons_of_mem _ hb)) _ d1 g1 h1 c1 _ hr1
    exact ⟨d2, g2, by simpa only [List.foldl_cons] using h2, by simpa only [List.foldl_cons, e2Run] using r2⟩

/-! ### the files of one backend -/

/-- the files go-diskqueue keeps for one queue `name`: `name.diskqueue.%06d.dat`,
`name.diskqueue.%06d.dat.bad`, `name.diskqueue.meta.dat` -/
inductive DFile
  | dat (i : Nat)
  | bad (i : Nat)
  | metadata
deriving DecidableEq, Repr

def onDisk (fs : FS) : DFile → Prop
  | .dat i => fs.dat i ≠ none
  | .bad i => fs.bad i ≠ none
  | .metadata => fs.md ≠ none

def NoBad (fs : FS) : Prop := ∀ i, fs.bad i = none

/-- which data files a healthy queue owns: every number from the read file up to the write file
(the write file only once something was written to it), nothing else -/
theorem dat_exists_iff {s : St} {q : List Bytes} (h : Q s q) (i : Nat) :
    s.fs.dat i ≠ none ↔ (s.rf ≤ i ∧ i < s.wf) ∨ (i = s.wf ∧ 0 < s.wp) := by
  obtain ⟨pre, recs, a, _, _⟩ := h
  have hle := a.le
  by_cases ho : i < s.rf ∨ s.wf < i
  · have := a.out i ho
    constructor
    · intro hh; exact absurd this hh
    · intro hh; omega
  · by_cases hw : i = s.wf
    · rw [hw]
      constructor
      · intro hh
        right
        refine ⟨rfl, ?_⟩
        have : ¬ s.wp = 0 := fun e => hh (a.wex.2 e)
        omega
      · intro hh hn
        have := a.wex.1 hn
        omega
    · constructor
      · intro _; left; omega
      · intro _; exact a.ex i (by omega) (by omega)

/-- a data path that holds only `.bad` files: `diskqueue.New` starts an empty queue at file 0 and the
`.bad` files are not looked at (the state is that of a fresh path, with the `.bad` files carried along) -/
theorem open_leftover (cfg : Cfg) (hok : CfgOk cfg) (fs : FS) (hdat : ∀ i, fs.dat i = none) (hmd : fs.md = none) :
    openQ cfg fs = { cfg := cfg, fs := fs } ∧ Q (openQ cfg fs) [] := by
  have hq : ∀ a n, qFrom (fun _ => ([] : List Bytes)) a n = [] := by
    intro a n
    induction n generalizing a with
    | zero => rfl
    | succ n ih => simp [qFrom, ih]
  have hc0 : fs.content 0 = [] := content_none (hdat 0)
  have h : Rep ({ cfg := cfg, fs := fs } : St) [] (fun _ => []) := by
    refine ⟨hok, rfl, Nat.le_refl _, ?_, ?_, rfl, ?_, ?_, ⟨fun _ => rfl, fun _ => hdat 0⟩, ?_, fun i _ => hdat i, ?_,
      Or.inl ⟨rfl, rfl⟩, ?_, ?_⟩
    · intro i x hx; exact absurd hx (by simp)
    · show fs.content 0 = [] ++ enc []
      rw [hc0]; rfl
    · intro i h1 h2
      replace h1 : 0 < i := h1
      replace h2 : i ≤ 0 := h2
      omega
    · intro i h1 h2
      replace h2 : i < 0 := h2
      omega
    · show 0 = (fs.content 0).length
      rw [hc0]; rfl
    · show (0 : Int) = _
      rw [hq]; rfl
    · intro ho; exact absurd ho (by simp)
    · intro ho; exact absurd ho (by simp)
  have hr : DiskQueue.retrieve cfg fs = { cfg := cfg, fs := fs } := by
    unfold DiskQueue.retrieve
    rw [hmd]
  have hcr : DiskQueue.canRead ({ cfg := cfg, fs := fs } : St) = false := by
    show (decide ((0 : Nat) < 0) || decide ((0 : Nat) < 0)) = false
    simp
  have hst : DiskQueue.settle ({ cfg := cfg, fs := fs } : St) = { cfg := cfg, fs := fs } :=
    settle_at_tail h hcr rfl (by show (0 : Nat) ≠ cfg.syncEvery; have := hok.sync; omega)
  have e : openQ cfg fs = { cfg := cfg, fs := fs } := by
    unfold DiskQueue.openQ
    rw [hr, hst]
  refine ⟨e, ?_⟩
  rw [e]
  exact ⟨[], fun _ => [], h, ⟨rfl, fun hh => absurd hh (by rw [hcr]; simp)⟩, hq _ _⟩

/-! ### when the set of `.bad` files changes -/

theorem readOne_fs (u : St) : (DiskQueue.readOne u).2.fs = u.fs := by
  rw [readOne_eq]
  have ho : ∀ s1, DiskQueue.openRead u = some s1 → s1.fs = u.fs := by
    intro s1 h1
    unfold DiskQueue.openRead at h1
    split at h1
    · injection h1 with h1; rw [← h1]
    · split at h1
      · exact absurd h1 (by simp)
      · injection h1 with h1; rw [← h1]
  cases h1 : DiskQueue.openRead u with
  | none => rfl
  | some s1 =>
    simp only []
    have rc : (readCore s1).2.fs = s1.fs := by
      unfold readCore
      split
      · rfl
      · simp only []
        unfold DiskQueue.afterRead
        split <;> rfl
    rw [rc, ho s1 h1]

/-- a loop pass that does not `continue` (no read error) leaves the `.bad` files alone -/
theorem settleStep_bad_frame (t : St) (h : (DiskQueue.settleStep t).1 = false) :
    (DiskQueue.settleStep t).2.fs.bad = t.fs.bad := by
  obtain ⟨_, _, _, _, _, _, f7, _⟩ := syncDue_frame t
  unfold DiskQueue.settleStep at h ⊢
  split
  · split
    · split
      · simp only []; rw [readOne_fs, f7]
      · rename_i h1 h2 h3
        rw [if_pos h1, if_pos h2, if_neg h3] at h
        exact absurd h (by simp)
    · exact f7
  · exact f7

theorem settle_bad_frame (t : St) (h : (DiskQueue.settleStep t).1 = false) : (DiskQueue.settle t).fs.bad = t.fs.bad := by
  unfold DiskQueue.settle
  cases hn : t.wf + 3 - t.rf with
  | zero => rfl
  | succ n =>
    unfold DiskQueue.settleN
    rw [h]
    simp only [Bool.false_eq_true, if_false]
    exact settleStep_bad_frame t h

/-- `settle` changes the set of `.bad` files only when its first pass finds the reader at the end of a
completed file all of whose records are consumed (`E9DiskQueue.bad_file_only_consumed`) -/
theorem settle_bad_changes {t : St} {pre : Bytes} {recs : Nat → List Bytes} (h : Rep t pre recs)
    (hb : (DiskQueue.settle t).fs.bad ≠ t.fs.bad) :
    t.rf < t.wf ∧ recs t.rf = [] ∧ t.rp = (t.fs.content t.rf).length := by
  cases hc : (DiskQueue.settleStep t).1 with
  | false => exact absurd (settle_bad_frame t hc) hb
  | true =>
    obtain ⟨a, _⟩ := settleStep_rep h
    obtain ⟨_, _, _, a4, a5⟩ := a hc
    refine ⟨a4, a5, ?_⟩
    rw [h.crf, a5, enc_nil, List.append_nil]
    exact h.rp

/-- in a queue at rest the reader never stands at the end of a completed file -/
theorem rest_not_at_eof {s : St} {q : List Bytes} (h : Q s q) (hlt : s.rf < s.wf) :
    s.rp < (s.fs.content s.rf).length := by
  obtain ⟨pre, recs, a, b, _⟩ := h
  have hc : DiskQueue.canRead s = true := by
    simp only [DiskQueue.canRead, Bool.or_eq_true, decide_eq_true_eq]; exact Or.inl hlt
  obtain ⟨d, rest, b1, _, _⟩ := b.2 hc
  rw [a.crf, b1, enc_cons, a.rp]
  simp only [List.length_append, dqRecord_length]
  omega

theorem setFile_content_ne (fs : FS) (i j : Nat) (v : Option Bytes) (hne : j ≠ i) :
    FS.content { fs with dat := DiskQueue.setFile fs.dat i v } j = fs.content j := by
  unfold FS.content DiskQueue.setFile
  simp only []
  rw [if_neg hne]

/-- `Put` changes the set of `.bad` files only when the disk queue was EMPTY (the reader had caught up
with the writer inside the write file) and this `Put` rolls the writer to a new file -/
theorem put_bad_changes {s : St} {q : List Bytes} (h : Q s q) (d : Bytes)
    (hb : (DiskQueue.put s d).2.fs.bad ≠ s.fs.bad) : q = [] ∧ DiskQueue.needRoll s d = true := by
  have h0 := h
  obtain ⟨pre, recs, a, b, c⟩ := h
  have a' : Rep { s with count := s.count + 1 } pre recs := rep_md a s.fs.md s.needSync (s.count + 1)
  by_cases hv : ValidRec s.cfg d
  · obtain ⟨w1, recs', w2, _⟩ := writeOne_rep a' d hv
    have hput : (DiskQueue.put s d).2 = DiskQueue.settle (DiskQueue.writeOne { s with count := s.count + 1 } d).2 := by
      unfold DiskQueue.put
      rw [if_neg (by rw [a.live]; simp), if_pos w1]
    rw [hput] at hb
    have hvs : DiskQueue.validSize s.cfg d = true := by
      simp only [DiskQueue.validSize, Bool.and_eq_true, decide_eq_true_eq]; exact hv
    have hw : DiskQueue.writeOne { s with count := s.count + 1 } d =
        if DiskQueue.needRoll s d then (true, DiskQueue.appendRec (DiskQueue.rollWrite { s with count := s.count + 1 }) d)
        else (true, DiskQueue.appendRec { s with count := s.count + 1 } d) := by
      unfold DiskQueue.writeOne
      rw [if_neg (by show ¬ DiskQueue.validSize s.cfg d = false; rw [hvs]; simp)]
      rfl
    have hle := a.le
    by_cases hr : DiskQueue.needRoll s d = true
    · rw [hw, if_pos hr] at hb w2
      have hbad : (DiskQueue.appendRec (DiskQueue.rollWrite { s with count := s.count + 1 }) d).fs.bad = s.fs.bad := rfl
      rw [← hbad] at hb
      obtain ⟨_, _, g3⟩ := settle_bad_changes w2 hb
      have hcont : (DiskQueue.appendRec (DiskQueue.rollWrite { s with count := s.count + 1 }) d).fs.content s.rf =
          s.fs.content s.rf := setFile_content_ne _ _ _ _ (by show s.rf ≠ s.wf + 1; omega)
      replace g3 : s.rp = ((DiskQueue.appendRec (DiskQueue.rollWrite { s with count := s.count + 1 }) d).fs.content s.rf).length := g3
      rw [hcont] at g3
      refine ⟨?_, hr⟩
      cases hcr : DiskQueue.canRead s with
      | false =>
        obtain ⟨_, _, _, e, _⟩ := tail_facts a hcr
        rw [← c]; exact e
      | true =>
        exfalso
        obtain ⟨d', rest, b1, _, _⟩ := b.2 hcr
        have := a.crf
        rw [b1, enc_cons] at this
        rw [this, a.rp] at g3
        simp only [List.length_append, dqRecord_length] at g3
        omega
    · rw [hw, if_neg hr] at hb w2
      have hbad : (DiskQueue.appendRec { s with count := s.count + 1 } d).fs.bad = s.fs.bad := rfl
      rw [← hbad] at hb
      obtain ⟨g1, _, g3⟩ := settle_bad_changes w2 hb
      replace g1 : s.rf < s.wf := g1
      have hcont : (DiskQueue.appendRec { s with count := s.count + 1 } d).fs.content s.rf = s.fs.content s.rf :=
        setFile_content_ne _ _ _ _ (by show s.rf ≠ s.wf; omega)
      replace g3 : s.rp = ((DiskQueue.appendRec { s with count := s.count + 1 } d).fs.content s.rf).length := g3
      rw [hcont] at g3
      have := rest_not_at_eof h0 g1
      omega
  · exfalso
    have hput : (DiskQueue.put s d).2 = DiskQueue.settle { s with count := s.count + 1 } := by
      unfold DiskQueue.put
      rw [if_neg (by rw [a.live]; simp), writeOne_invalid { s with count := s.count + 1 } d hv]
      simp
    rw [hput] at hb
    have hbad : ({ s with count := s.count + 1 } : St).fs.bad = s.fs.bad := rfl
    rw [← hbad] at hb
    obtain ⟨g1, _, g3⟩ := settle_bad_changes a' hb
    have := rest_not_at_eof h0 g1
    replace g3 : s.rp = (s.fs.content s.rf).length := g3
    omega

theorem checkTail_bad (u : St) : (DiskQueue.checkTail u).fs.bad = u.fs.bad := by
  unfold DiskQueue.checkTail
  split
  · rfl
  · split
    · split <;> rfl
    · split <;> rfl

theorem moveForward_bad (u : St) : (DiskQueue.moveForward u).fs.bad = u.fs.bad := by
  unfold DiskQueue.moveForward
  split <;> rw [checkTail_bad]

/-- contrapositive of `put_bad_changes`, in the form histories use -/
theorem put_bad_same {s : St} {q : List Bytes} (h : Q s q) (d : Bytes) (hc : q ≠ [] ∨ DiskQueue.needRoll s d = false) :
    (DiskQueue.put s d).2.fs.bad = s.fs.bad := by
  apply Classical.byContradiction
  intro hne
  obtain ⟨a1, a2⟩ := put_bad_changes h d hne
  cases hc with
  | inl hq => exact hq a1
  | inr hr => rw [a2] at hr; exact absurd hr (by simp)

/-- a receive changes the set of `.bad` files only when, after the consumer took the pending record, the
reader stands at the end of a completed file (the read-ahead of that record happened while the file
was still the write file; the writer rolled afterwards) -/
theorem recv_bad_changes {s : St} {q : List Bytes} (h : Q s q)
    (hb : (DiskQueue.recv s).2.fs.bad ≠ s.fs.bad) :
    (DiskQueue.moveForward { s with count := s.count + 1 }).rf < (DiskQueue.moveForward { s with count := s.count + 1 }).wf ∧
    (DiskQueue.moveForward { s with count := s.count + 1 }).rp =
      ((DiskQueue.moveForward { s with count := s.count + 1 }).fs.content
        (DiskQueue.moveForward { s with count := s.count + 1 }).rf).length := by
  obtain ⟨pre, recs, a, b, c⟩ := h
  by_cases hc : DiskQueue.canRead s = true
  · have hb' := b.2 hc
    have a' : Rep { s with count := s.count + 1 } pre recs := rep_md a s.fs.md s.needSync (s.count + 1)
    obtain ⟨pre', recs', m1, _⟩ := moveForward_rep a' hb'
    have hmb : (DiskQueue.moveForward { s with count := s.count + 1 }).fs.bad = s.fs.bad := moveForward_bad _
    have hrecv : (DiskQueue.recv s).2 = DiskQueue.settle (DiskQueue.moveForward { s with count := s.count + 1 }) := by
      unfold DiskQueue.recv
      rw [if_pos ⟨a.live, hc⟩]
    rw [hrecv, ← hmb] at hb
    obtain ⟨g1, _, g3⟩ := settle_bad_changes m1 hb
    exact ⟨g1, g3⟩
  · exfalso
    apply hb
    unfold DiskQueue.recv
    rw [if_neg (fun hh => hc hh.2)]

theorem empty_bad_same {s : St} {q : List Bytes} (h : Q s q) : (DiskQueue.empty s).2.fs.bad = s.fs.bad :=
  (empty_Q h).2.2.2.2

/-- `Close` + `New` never changes the set of `.bad` files -/
theorem reopen_bad_same {s : St} {q : List Bytes} (h : Q s q) (cfg' : Cfg) (hok : CfgOk cfg')
    (hmin : cfg'.minMsgSize = s.cfg.minMsgSize) (hmax : cfg'.maxMsgSize = s.cfg.maxMsgSize) :
    (openQ cfg' (DiskQueue.close s).fs).fs.bad = s.fs.bad := by
  obtain ⟨pre, recs, a, b, c⟩ := h
  have a' : Rep { s with fs := { s.fs with md := some s.metaNow } } pre recs := rep_md a (some s.metaNow) s.needSync s.count
  obtain ⟨r1, _⟩ := reopen_rep a' cfg' hok hmin hmax rfl
  have hX : DiskQueue.retrieve cfg' (DiskQueue.close s).fs =
      { cfg := cfg', fs := { s.fs with md := some s.metaNow }, depth := s.depth, rf := s.rf, rp := s.rp, wf := s.wf,
        wp := s.wp, nrf := s.rf, nrp := s.rp } := by
    show DiskQueue.retrieve cfg' { s.fs with md := some s.metaNow } = _
    unfold DiskQueue.retrieve
    simp only []
    cases hd : s.fs.dat s.wf with
    | none =>
      have e : s.fs.dat s.metaNow.wf = none := hd
      simp only [e]
      rfl
    | some c0 =>
      have e : s.fs.dat s.metaNow.wf = some c0 := hd
      have hnlt : ¬ s.metaNow.wp < c0.length := by
        show ¬ s.wp < c0.length
        rw [a.wp, content_some hd]; omega
      simp only [e]
      rw [if_neg hnlt]
      rfl
  have hY : DiskQueue.retrieve cfg' ({ s with fs := { s.fs with md := some s.metaNow } } : St).fs =
      DiskQueue.retrieve cfg' (DiskQueue.close s).fs := rfl
  rw [hY, hX] at r1
  apply Classical.byContradiction
  intro hne
  unfold DiskQueue.openQ at hne
  rw [hX] at hne
  obtain ⟨g1, g2, _⟩ := settle_bad_changes r1 hne
  replace g1 : s.rf < s.wf := g1
  replace g2 : recs s.rf = [] := g2
  have hc : DiskQueue.canRead s = true := by
    simp only [DiskQueue.canRead, Bool.or_eq_true, decide_eq_true_eq]; exact Or.inl g1
  obtain ⟨d', rest, b1, _, _⟩ := b.2 hc
  rw [g2] at b1
  exact absurd b1 (by simp)

/-! ### single-file histories: no `.bad` file -/

/-- while the reader is in the write file (`readFileNum = writeFileNum`) `settle` is one pass without a
read error: positions in files and the `.bad` files stay -/
theorem settle_single {t : St} {pre : Bytes} {recs : Nat → List Bytes} (h : Rep t pre recs) (he : t.rf = t.wf) :
    (DiskQueue.settle t).rf = t.rf ∧ (DiskQueue.settle t).wf = t.wf ∧ (DiskQueue.settle t).fs.bad = t.fs.bad := by
  obtain ⟨a, b⟩ := settleStep_rep h
  have hf : (DiskQueue.settleStep t).1 = false := by
    cases hc : (DiskQueue.settleStep t).1 with
    | false => rfl
    | true =>
      obtain ⟨_, _, _, a4, _⟩ := a hc
      omega
  obtain ⟨_, _, b3, b4⟩ := b hf
  have e : DiskQueue.settle t = (DiskQueue.settleStep t).2 := by
    unfold DiskQueue.settle
    have : t.wf + 3 - t.rf = 2 + 1 := by omega
    rw [this]
    unfold DiskQueue.settleN
    rw [hf]
    simp
  rw [e]
  exact ⟨b3, b4, settleStep_bad_frame t hf⟩

theorem put_single {s : St} {q : List Bytes} (h : Q s q) (d : Bytes) (he : s.rf = s.wf)
    (hr : DiskQueue.needRoll s d = false) :
    (DiskQueue.put s d).2.rf = (DiskQueue.put s d).2.wf ∧ (DiskQueue.put s d).2.fs.bad = s.fs.bad := by
  refine ⟨?_, put_bad_same h d (Or.inr hr)⟩
  obtain ⟨pre, recs, a, b, c⟩ := h
  have a' : Rep { s with count := s.count + 1 } pre recs := rep_md a s.fs.md s.needSync (s.count + 1)
  by_cases hv : ValidRec s.cfg d
  · obtain ⟨w1, recs', w2, _⟩ := writeOne_rep a' d hv
    have hput : (DiskQueue.put s d).2 = DiskQueue.settle (DiskQueue.writeOne { s with count := s.count + 1 } d).2 := by
      unfold DiskQueue.put
      rw [if_neg (by rw [a.live]; simp), if_pos w1]
    have hvs : DiskQueue.validSize s.cfg d = true := by
      simp only [DiskQueue.validSize, Bool.and_eq_true, decide_eq_true_eq]; exact hv
    have hw : DiskQueue.writeOne { s with count := s.count + 1 } d =
        (true, DiskQueue.appendRec { s with count := s.count + 1 } d) := by
      unfold DiskQueue.writeOne
      rw [if_neg (by show ¬ DiskQueue.validSize s.cfg d = false; rw [hvs]; simp)]
      have : DiskQueue.needRoll { s with count := s.count + 1 } d = false := hr
      rw [this]
      simp
    rw [hw] at w2
    rw [hput, hw]
    obtain ⟨x1, x2, _⟩ := settle_single w2 (by show s.rf = s.wf; exact he)
    rw [x1, x2]
    exact he
  · have hput : (DiskQueue.put s d).2 = DiskQueue.settle { s with count := s.count + 1 } := by
      unfold DiskQueue.put
      rw [if_neg (by rw [a.live]; simp), writeOne_invalid { s with count := s.count + 1 } d hv]
      simp
    rw [hput]
    obtain ⟨x1, x2, _⟩ := settle_single a' (by show s.rf = s.wf; exact he)
    rw [x1, x2]
    exact he

theorem recv_single {s : St} {q : List Bytes} (h : Q s q) (he : s.rf = s.wf) :
    (DiskQueue.recv s).2.rf = (DiskQueue.recv s).2.wf ∧ (DiskQueue.recv s).2.fs.bad = s.fs.bad := by
  obtain ⟨pre, recs, a, b, c⟩ := h
  by_cases hc : DiskQueue.canRead s = true
  · have hb' := b.2 hc
    have a' : Rep { s with count := s.count + 1 } pre recs := rep_md a s.fs.md s.needSync (s.count + 1)
    have hn : s.nrf = s.rf := by
      obtain ⟨_, _, _, _, b3⟩ := hb'
      cases b3 with
      | inl x => exact x.1
      | inr x => omega
    obtain ⟨pre', recs', m1, _, m3, _⟩ := moveForward_rep_frame a' hb'
    obtain ⟨m4, _⟩ := m3 hn
    have hrecv : (DiskQueue.recv s).2 = DiskQueue.settle (DiskQueue.moveForward { s with count := s.count + 1 }) := by
      unfold DiskQueue.recv
      rw [if_pos ⟨a.live, hc⟩]
    rw [hrecv]
    rw [m4] at m1 ⊢
    obtain ⟨x1, x2, x3⟩ := settle_single m1 (by show s.nrf = s.wf; rw [hn]; exact he)
    rw [x1, x2, x3]
    exact ⟨by show s.nrf = s.wf; rw [hn]; exact he, rfl⟩
  · have : DiskQueue.recv s = (none, s) := by
      unfold DiskQueue.recv
      rw [if_neg (fun hh => hc hh.2)]
    rw [this]
    exact ⟨he, rfl⟩

theorem empty_single {s : St} {q : List Bytes} (h : Q s q) :
    (DiskQueue.empty s).2.rf = (DiskQueue.empty s).2.wf := by
  obtain ⟨pre, recs, a, b, _⟩ := h
  obtain ⟨e1, _⟩ := empty_rep a
  have hcr : DiskQueue.canRead ({ DiskQueue.deleteAllFiles s with count := 0 } : St) = false := by
    show (decide (s.wf + 1 < s.wf + 1) || decide (0 < 0)) = false
    simp
  have hst : DiskQueue.settle ({ DiskQueue.deleteAllFiles s with count := 0 } : St) = { DiskQueue.deleteAllFiles s with count := 0 } :=
    settle_at_tail e1 hcr b.1 (by show (0 : Nat) ≠ s.cfg.syncEvery; have := a.cfg.sync; omega)
  unfold DiskQueue.empty
  rw [if_neg (by rw [a.live]; simp), hst]
  rfl

theorem retrieve_closed {s : St} {pre : Bytes} {recs : Nat → List Bytes} (a : Rep s pre recs) (cfg' : Cfg) :
    DiskQueue.retrieve cfg' (DiskQueue.close s).fs =
      { cfg := cfg', fs := { s.fs with md := some s.metaNow }, depth := s.depth, rf := s.rf, rp := s.rp, wf := s.wf,
        wp := s.wp, nrf := s.rf, nrp := s.rp } := by
  show DiskQueue.retrieve cfg' { s.fs with md := some s.metaNow } = _
  unfold DiskQueue.retrieve
  simp only []
  cases hd : s.fs.dat s.wf with
  | none =>
    have e : s.fs.dat s.metaNow.wf = none := hd
    simp only [e]
    rfl
  | some c0 =>
    have e : s.fs.dat s.metaNow.wf = some c0 := hd
    have hnlt : ¬ s.metaNow.wp < c0.length := by
      show ¬ s.wp < c0.length
      rw [a.wp, content_some hd]; omega
    simp only [e]
    rw [if_neg hnlt]
    rfl

theorem reopen_single {s : St} {q : List Bytes} (h : Q s q) (he : s.rf = s.wf) (cfg' : Cfg) (hok : CfgOk cfg')
    (hmin : cfg'.minMsgSize = s.cfg.minMsgSize) (hmax : cfg'.maxMsgSize = s.cfg.maxMsgSize) :
    (openQ cfg' (DiskQueue.close s).fs).rf = (openQ cfg' (DiskQueue.close s).fs).wf := by
  obtain ⟨pre, recs, a, b, c⟩ := h
  have a' : Rep { s with fs := { s.fs with md := some s.metaNow } } pre recs := rep_md a (some s.metaNow) s.needSync s.count
  obtain ⟨r1, _⟩ := reopen_rep a' cfg' hok hmin hmax rfl
  have hY : DiskQueue.retrieve cfg' ({ s with fs := { s.fs with md := some s.metaNow } } : St).fs =
      DiskQueue.retrieve cfg' (DiskQueue.close s).fs := rfl
  rw [hY, retrieve_closed a cfg'] at r1
  unfold DiskQueue.openQ
  rw [retrieve_closed a cfg']
  obtain ⟨x1, x2, _⟩ := settle_single r1 (by show s.rf = s.wf; exact he)
  rw [x1, x2]
  exact he

/-- the backend puts of a `flush`, none of which rolls the writer -/
def flushNoRoll : St → List Bytes → Prop
  | _, [] => True
  | d, b :: rest => DiskQueue.needRoll d b = false ∧ flushNoRoll (DiskQueue.put d b).2 rest

/-- no backend `Put` of the history rolls the writer to a new data file (the records queued on disk since the
channel was created / last emptied fit into ONE file of `--max-bytes-per-file`, 100 MB by default) -/
def NoRoll (cfg : Cfg) : Run → List Op → Prop
  | _, [] => True
  | r, .put b :: ops =>
    (r.q.mem.length < r.q.memCap ∨ DiskQueue.needRoll r.q.dq b = false) ∧ NoRoll cfg (stepRun cfg r (.put b)) ops
  | r, .restart :: ops => flushNoRoll r.q.dq r.q.mem ∧ NoRoll cfg (stepRun cfg r .restart) ops
  | r, o :: ops => NoRoll cfg (stepRun cfg r o) ops

theorem flushInto_single (l : List Bytes) : ∀ (d : St) (disk : List Bytes), Q d disk → d.rf = d.wf → flushNoRoll d l →
    (flushInto d l).1.rf = (flushInto d l).1.wf ∧ (flushInto d l).1.fs.bad = d.fs.bad := by
  induction l with
  | nil => intro d disk _ he _; exact ⟨he, rfl⟩
  | cons b l ih =>
    intro d disk h he hn
    obtain ⟨n1, n2⟩ := hn
    obtain ⟨p1, p2⟩ := put_single h b he n1
    have hq : ∃ disk', Q (DiskQueue.put d b).2 disk' := by
      by_cases hv : ValidRec d.cfg b
      · exact ⟨_, (put_ok_Q h b hv).2⟩
      · exact ⟨_, (put_invalid_Q h b hv).2⟩
    obtain ⟨disk', hq'⟩ := hq
    obtain ⟨i1, i2⟩ := ih _ disk' hq' p1 n2
    unfold flushInto
    split
    · exact ⟨i1, by rw [i2, p2]⟩
    · exact ⟨i1, by rw [i2, p2]⟩

/-- SUFFICIENT CONDITION for "no `.bad` file": a history from a fresh data path in which the writer never rolls
keeps the reader in the write file and creates no `.bad` file -/
theorem single_file_step {cfg : Cfg} (hok : CfgOk cfg) {memCap : Nat} {r : Run} {disk gone : List Bytes}
    (h : Ledger cfg memCap r disk gone) (he : r.q.dq.rf = r.q.dq.wf) (o : Op) (ops : List Op) (hn : NoRoll cfg r (o :: ops)) :
    (stepRun cfg r o).q.dq.rf = (stepRun cfg r o).q.dq.wf ∧ (stepRun cfg r o).q.dq.fs.bad = r.q.dq.fs.bad ∧
      NoRoll cfg (stepRun cfg r o) ops := by
  cases o with
  | put b =>
    obtain ⟨n1, n2⟩ := hn
    refine ⟨?_, ?_, n2⟩
    · rw [stepRun_put]
      by_cases hm : r.q.mem.length < r.q.memCap
      · rw [put_mem r.q b hm]
        simp only [true_or, if_true]
        exact he
      · have hr : DiskQueue.needRoll r.q.dq b = false := by
          cases n1 with
          | inl x => exact absurd x hm
          | inr x => exact x
        have := (put_single h.inv b he hr).1
        rw [put_full r.q b hm]
        split <;> exact this
    · rw [stepRun_put]
      by_cases hm : r.q.mem.length < r.q.memCap
      · rw [put_mem r.q b hm]
        simp only [true_or, if_true]
      · have hr : DiskQueue.needRoll r.q.dq b = false := by
          cases n1 with
          | inl x => exact absurd x hm
          | inr x => exact x
        have := (put_single h.inv b he hr).2
        rw [put_full r.q b hm]
        split <;> exact this
  | takeMem =>
    have hdq : (stepRun cfg r .takeMem).q.dq = r.q.dq := by
      rw [stepRun_takeMem]
      cases hmem : r.q.mem with
      | nil => rw [takeMem_nil r.q hmem]
      | cons b rest => rw [takeMem_cons r.q b rest hmem]
    rw [hdq]
    exact ⟨he, rfl, hn⟩
  | takeDisk =>
    obtain ⟨x1, x2⟩ := recv_single h.inv he
    refine ⟨?_, ?_, hn⟩
    · rw [stepRun_takeDisk]
      split <;> exact x1
    · rw [stepRun_takeDisk]
      split <;> exact x2
  | restart =>
    obtain ⟨n1, n2⟩ := hn
    obtain ⟨f1, _, f3⟩ := flushInto_spec r.q.mem r.q.dq disk h.inv
    obtain ⟨s1, s2⟩ := flushInto_single r.q.mem r.q.dq disk h.inv he n1
    refine ⟨?_, ?_, n2⟩
    · rw [stepRun_restart]
      exact reopen_single f1 s1 cfg hok (by rw [f3, h.cfg]) (by rw [f3, h.cfg])
    · rw [stepRun_restart]
      show (openQ cfg (DiskQueue.close (flushInto r.q.dq r.q.mem).1).fs).fs.bad = _
      rw [reopen_bad_same f1 cfg hok (by rw [f3, h.cfg]) (by rw [f3, h.cfg]), s2]
  | empty =>
    refine ⟨?_, ?_, hn⟩
    · rw [stepRun_empty]
      exact empty_single h.inv
    · rw [stepRun_empty]
      exact empty_bad_same h.inv

theorem single_file_foldl (cfg : Cfg) (hok : CfgOk cfg) (memCap : Nat) (ops : List Op) (r : Run) (disk gone : List Bytes)
    (h : Ledger cfg memCap r disk gone) (he : r.q.dq.rf = r.q.dq.wf) (hn : NoRoll cfg r ops) :
    (ops.foldl (stepRun cfg) r).q.dq.fs.bad = r.q.dq.fs.bad ∧
      (ops.foldl (stepRun cfg) r).q.dq.rf = (ops.foldl (stepRun cfg) r).q.dq.wf := by
  induction ops generalizing r disk gone with
  | nil => exact ⟨rfl, he⟩
  | cons o ops ih =>
    obtain ⟨d1, g1, h1, _⟩ := ledger_step hok h o
    obtain ⟨x1, x2, x3⟩ := single_file_step hok h he o ops hn
    obtain ⟨i1, i2⟩ := ih _ d1 g1 h1 x1 x3
    simp only [List.foldl_cons]
    exact ⟨by rw [i1, x2], i2⟩

end Nsq.Proofs.BackedQueue
