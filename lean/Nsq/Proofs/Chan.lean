/-
E2 — helper lemmas for the channel state machine (`Nsq.Model.Chan`): list operations by id,
history functions under one more event, and the `Core` part of the invariant (no id twice; the
location of every message agrees with the status the history assigns; a located status implies
presence).
-/
import Nsq.Model.Chan
import Nsq.Model.ChanInv
namespace Nsq.Proofs.Chan
open Nsq.Model.Chan

/-! ### lists of entries -/

theorem map_id_setE (l : List Entry) (x a : Nat) (loc : Loc) :
    (setE l x a loc).map (·.id) = l.map (·.id) := by
  unfold setE
  induction l with
  | nil => rfl
  | cons e l ih => simp only [List.map_cons, ih]; split <;> simp_all

theorem length_setE (l : List Entry) (x a : Nat) (loc : Loc) : (setE l x a loc).length = l.length := by
  unfold setE; simp

theorem mem_setE {l : List Entry} {x a : Nat} {loc : Loc} {e' : Entry} :
    e' ∈ setE l x a loc ↔ ∃ e ∈ l, (if e.id = x then { e with att := a, loc := loc } else e) = e' := by
  unfold setE; simp [List.mem_map]

theorem mem_removeE {l : List Entry} {x : Nat} {e' : Entry} :
    e' ∈ removeE l x ↔ e' ∈ l ∧ e'.id ≠ x := by
  unfold removeE; simp [List.mem_filter]

theorem findE_some {l : List Entry} {x : Nat} {e : Entry} (h : findE l x = some e) : e ∈ l ∧ e.id = x := by
  unfold findE at h
  have h1 := List.find?_some h
  have h2 := List.mem_of_find?_eq_some h
  simp_all

theorem findE_none {l : List Entry} {x : Nat} (h : findE l x = none) : ∀ e ∈ l, e.id ≠ x := by
  unfold findE at h
  simpa using h

theorem hasId_iff {l : List Entry} {x : Nat} : hasId l x = true ↔ ∃ e ∈ l, e.id = x := by
  unfold hasId; simp

theorem hasId_false {l : List Entry} {x : Nat} : hasId l x = false ↔ ∀ e ∈ l, e.id ≠ x := by
  unfold hasId; simp

theorem mem_ids {l : List Entry} {x : Nat} : x ∈ l.map (·.id) ↔ ∃ e ∈ l, e.id = x := by
  simp [List.mem_map]

theorem nodup_removeE {l : List Entry} (x : Nat) (h : (l.map (·.id)).Nodup) :
    ((removeE l x).map (·.id)).Nodup := by
  unfold removeE
  induction l with
  | nil => simp
  | cons e l ih =>
    simp only [List.map_cons, List.nodup_cons] at h
    simp only [List.filter_cons]
    split
    · simp only [List.map_cons, List.nodup_cons]
      refine ⟨?_, ih h.2⟩
      intro hm
      apply h.1
      simp only [List.mem_map, List.mem_filter] at hm ⊢
      obtain ⟨a, ⟨ha, _⟩, hb⟩ := hm
      exact ⟨a, ha, hb⟩
    · exact ih h.2

/-- with distinct ids, two entries of the list with the same id are the same entry -/
theorem eq_of_id_eq {l : List Entry} (h : (l.map (·.id)).Nodup) {e1 e2 : Entry}
    (h1 : e1 ∈ l) (h2 : e2 ∈ l) (hid : e1.id = e2.id) : e1 = e2 := by
  induction l with
  | nil => cases h1
  | cons e l ih =>
    simp only [List.map_cons, List.nodup_cons, List.mem_map, not_exists, not_and] at h
    simp only [List.mem_cons] at h1 h2
    rcases h1 with rfl | h1 <;> rcases h2 with rfl | h2
    · rfl
    · exact absurd hid.symm (h.1 e2 h2)
    · exact absurd hid (h.1 e1 h1)
    · exact ih h.2 h1 h2

theorem removeE_of_not_mem {l : List Entry} {x : Nat} (h : ∀ e ∈ l, e.id ≠ x) : removeE l x = l := by
  unfold removeE
  apply List.filter_eq_self.2
  intro e he
  simp [h e he]

theorem setE_of_not_mem {l : List Entry} {x a : Nat} {loc : Loc} (h : ∀ e ∈ l, e.id ≠ x) : setE l x a loc = l := by
  unfold setE
  induction l with
  | nil => rfl
  | cons y l ih =>
    have hy := h y List.mem_cons_self
    have ih' := ih (fun e he => h e (List.mem_cons_of_mem _ he))
    simp only [List.map_cons, beq_iff_eq, hy, ↓reduceIte, List.cons.injEq, true_and] at ih' ⊢
    exact ih'

/-- with distinct ids the list is its entry `x` followed by the rest (up to order) -/
theorem perm_removeE {l : List Entry} (hn : (l.map (·.id)).Nodup) {e : Entry} (he : e ∈ l) :
    l.Perm (e :: removeE l e.id) := by
  induction l with
  | nil => cases he
  | cons y l ih =>
    simp only [List.map_cons, List.nodup_cons, List.mem_map, not_exists, not_and] at hn
    simp only [List.mem_cons] at he
    rcases he with rfl | he
    · have : removeE (e :: l) e.id = l := by
        have h1 : removeE l e.id = l := removeE_of_not_mem (fun e' he' h' => hn.1 e' he' h')
        simp only [removeE, List.filter_cons, bne_self_eq_false, Bool.false_eq_true, ↓reduceIte] at h1 ⊢
        exact h1
      rw [this]
    · have hne : y.id ≠ e.id := fun h' => hn.1 e he h'.symm
      have : removeE (y :: l) e.id = y :: removeE l e.id := by
        simp [removeE, List.filter_cons, hne]
      rw [this]
      exact ((ih hn.2 he).cons y).trans (List.Perm.swap e y _)

theorem setE_perm {l : List Entry} (hn : (l.map (·.id)).Nodup) {e : Entry} (he : e ∈ l) (a : Nat) (loc : Loc) :
    (setE l e.id a loc).Perm ({ e with att := a, loc := loc } :: removeE l e.id) := by
  induction l with
  | nil => cases he
  | cons y l ih =>
    simp only [List.map_cons, List.nodup_cons, List.mem_map, not_exists, not_and] at hn
    simp only [List.mem_cons] at he
    rcases he with rfl | he
    · have h1 : removeE l e.id = l := removeE_of_not_mem (fun e' he' h' => hn.1 e' he' h')
      have h2 : setE l e.id a loc = l := setE_of_not_mem (fun e' he' h' => hn.1 e' he' h')
      have : removeE (e :: l) e.id = l := by
        simp only [removeE, List.filter_cons, bne_self_eq_false, Bool.false_eq_true, ↓reduceIte] at h1 ⊢
        exact h1
      rw [this]
      have : setE (e :: l) e.id a loc = { e with att := a, loc := loc } :: l := by
        simp only [setE, List.map_cons, beq_self_eq_true, ↓reduceIte, List.cons.injEq, true_and] at h2 ⊢
        exact h2
      rw [this]
    · have hne : y.id ≠ e.id := fun h' => hn.1 e he h'.symm
      have h1 : removeE (y :: l) e.id = y :: removeE l e.id := by
        simp [removeE, List.filter_cons, hne]
      have h2 : setE (y :: l) e.id a loc = y :: setE l e.id a loc := by
        simp [setE, hne]
      rw [h1, h2]
      exact ((ih hn.2 he).cons y).trans (List.Perm.swap _ y _)

/-- the one counting lemma: replacing the tag of the unique entry `e` moves one unit from
`p e` to `p e'` -/
theorem countP_setE {l : List Entry} (hn : (l.map (·.id)).Nodup) {e : Entry} (he : e ∈ l)
    (a : Nat) (loc : Loc) (p : Entry → Bool) :
    (setE l e.id a loc).countP p + (if p e then 1 else 0)
      = l.countP p + (if p { e with att := a, loc := loc } then 1 else 0) := by
  have h1 := (setE_perm hn he a loc).countP_eq p
  have h2 := (perm_removeE hn he).countP_eq p
  simp only [List.countP_cons] at h1 h2
  omega

theorem countP_removeE {l : List Entry} (hn : (l.map (·.id)).Nodup) {e : Entry} (he : e ∈ l) (p : Entry → Bool) :
    (removeE l e.id).countP p + (if p e then 1 else 0) = l.countP p := by
  have h2 := (perm_removeE hn he).countP_eq p
  simp only [List.countP_cons] at h2
  omega

theorem length_removeE {l : List Entry} (hn : (l.map (·.id)).Nodup) {e : Entry} (he : e ∈ l) :
    (removeE l e.id).length + 1 = l.length := by
  have := (perm_removeE hn he).length_eq
  simp at this
  omega

end Nsq.Proofs.Chan
