import Nsq.Proofs.AggregateSafe
import Nsq.Proofs.AggregateChannels
import Nsq.Proofs.AggregateFetch
/-!
Helpers for C18 (claim audit 2, C18 items 1–2): the committed tree `Fixes.tree` (= `Fixes.all` with the switch of the
reverted F58 off) and `Fixes.all` agree on EVERY function of the view model except the `?inactive=true` handler
(`inactiveStep` / `inactiveGo` / `topicsInactiveView`), the only place that reads `Fixes.inactiveErrs`. Hence every
theorem stated for `Fixes.all` about any other function or view is a theorem about the committed tree (rewrite with the
`*_tree` equations), and `view Fixes.tree w q = view Fixes.all w q` for every request `q ≠ .topicsInactive`
(`view_tree_eq`). The inactive handler of the committed tree is treated separately (`inactiveGo_tree`): it never
answers 502 after the topic list is known, never warns about its own fetches, and lists the same topics / channels.
-/
namespace Nsq.Proofs.AggregateTree
open Nsq.Model.Aggregate Nsq.Proofs.AggregateSafe Nsq.Proofs.AggregateChannels Nsq.Proofs.AggregateFetch

theorem tombAt_tree : tombAt Fixes.tree = tombAt Fixes.all := rfl

theorem zipTombs_tree (tombs : List Bool) (ts : List String) : ∀ i, zipTombs Fixes.tree tombs ts i = zipTombs Fixes.all tombs ts i := by
  induction ts with
  | nil => intro i; rfl
  | cons t rest ih => intro i; simp only [zipTombs, tombAt_tree, ih]

theorem unmarshalProducer_tree (p : ProducerJSON) : unmarshalProducer Fixes.tree p = unmarshalProducer Fixes.all p := by
  simp only [unmarshalProducer, zipTombs_tree]

theorem unmarshalProducers_tree (ps : List (Option ProducerJSON)) :
    unmarshalProducers Fixes.tree ps = unmarshalProducers Fixes.all ps := by
  induction ps with
  | nil => rfl
  | cons p rest ih =>
    cases p with
    | none => simp only [unmarshalProducers, ih]
    | some p => simp only [unmarshalProducers, ih, unmarshalProducer_tree]

theorem mergeProducers_tree (lk : String) (ps : List (Option Producer)) :
    ∀ acc, mergeProducers Fixes.tree lk ps acc = mergeProducers Fixes.all lk ps acc := by
  induction ps with
  | nil => intro acc; rfl
  | cons p rest ih =>
    intro acc
    cases p with
    | none => simp only [mergeProducers, ih]; rfl
    | some p => simp only [mergeProducers, ih]

theorem lookupdProducersGo_tree (ls : List Lookupd) :
    ∀ acc f, lookupdProducersGo Fixes.tree ls acc f = lookupdProducersGo Fixes.all ls acc f := by
  induction ls with
  | nil => intro acc f; rfl
  | cons l rest ih => intro acc f; simp only [lookupdProducersGo, ih, unmarshalProducers_tree, mergeProducers_tree]

theorem lookupdProducers_tree (ls : List Lookupd) : lookupdProducers Fixes.tree ls = lookupdProducers Fixes.all ls := by
  simp only [lookupdProducers, lookupdProducersGo_tree]

theorem getProducers_tree (w : World) : getProducers Fixes.tree w = getProducers Fixes.all w := by
  simp only [getProducers, lookupdProducers_tree]

theorem mergeTopicProducers_tree (ps : List (Option Producer)) :
    ∀ acc, mergeTopicProducers Fixes.tree ps acc = mergeTopicProducers Fixes.all ps acc := by
  induction ps with
  | nil => intro acc; rfl
  | cons p rest ih =>
    intro acc
    cases p with
    | none => simp only [mergeTopicProducers, ih]; rfl
    | some p => simp only [mergeTopicProducers, ih]

theorem lookupdTopicProducersGo_tree (ls : List Lookupd) :
    ∀ acc f, lookupdTopicProducersGo Fixes.tree ls acc f = lookupdTopicProducersGo Fixes.all ls acc f := by
  induction ls with
  | nil => intro acc f; rfl
  | cons l rest ih =>
    intro acc f; simp only [lookupdTopicProducersGo, ih, unmarshalProducers_tree, mergeTopicProducers_tree]

theorem lookupdTopicProducers_tree (ls : List Lookupd) :
    lookupdTopicProducers Fixes.tree ls = lookupdTopicProducers Fixes.all ls := by
  simp only [lookupdTopicProducers, lookupdTopicProducersGo_tree]

theorem getTopicProducers_tree (w : World) (topic : String) :
    getTopicProducers Fixes.tree w topic = getTopicProducers Fixes.all w topic := by
  simp only [getTopicProducers, lookupdTopicProducers_tree]

theorem chanAgg_add_tree (c : ChanAgg) (a : ChanNode) : c.add Fixes.tree a = c.add Fixes.all a := rfl

theorem clientsOf_tree (node : String) (cl : List (Option Client)) : clientsOf Fixes.tree node cl = clientsOf Fixes.all node cl := by
  induction cl with
  | nil => rfl
  | cons c rest ih =>
    cases c with
    | none => simp only [clientsOf, ih]; rfl
    | some c => simp only [clientsOf, ih]

theorem chanNodeOf_tree (p : Producer) (topic : String) (c : Chan) :
    chanNodeOf Fixes.tree p topic c = chanNodeOf Fixes.all p topic c := by
  simp only [chanNodeOf, clientsOf_tree]; rfl

theorem addNode_go_tree (key : String) (a : ChanNode) (m : ChanMap) :
    ChanMap.addNode.go Fixes.tree key a m = ChanMap.addNode.go Fixes.all key a m := by
  induction m with
  | nil => rfl
  | cons kc rest ih =>
    obtain ⟨k, c⟩ := kc
    simp only [ChanMap.addNode.go, ih, chanAgg_add_tree]

theorem addNode_tree (m : ChanMap) (key : String) (a : ChanNode) :
    ChanMap.addNode Fixes.tree m key a = ChanMap.addNode Fixes.all m key a := by
  simp only [ChanMap.addNode, addNode_go_tree, chanAgg_add_tree]

theorem chansOfTopic_tree (p : Producer) (sel topic : String) (cs : List (Option Chan)) :
    ∀ m, chansOfTopic Fixes.tree p sel topic cs m = chansOfTopic Fixes.all p sel topic cs m := by
  induction cs with
  | nil => intro m; rfl
  | cons c rest ih =>
    intro m
    cases c with
    | none => simp only [chansOfTopic, ih]; rfl
    | some c => simp only [chansOfTopic, ih, chanNodeOf_tree, addNode_tree]

theorem topicsOfNode_tree (p : Producer) (sel : String) (ts : List (Option Topic)) :
    ∀ m, topicsOfNode Fixes.tree p sel ts m = topicsOfNode Fixes.all p sel ts m := by
  induction ts with
  | nil => intro m; rfl
  | cons t rest ih =>
    intro m
    cases t with
    | none => simp only [topicsOfNode, ih]; rfl
    | some t => simp only [topicsOfNode, ih, chansOfTopic_tree]

theorem pctDecodes_tree : pctDecodes Fixes.tree = pctDecodes Fixes.all := rfl

theorem chanDecodes_tree : chanDecodes Fixes.tree = chanDecodes Fixes.all := by
  funext c; cases c <;> rfl

theorem topicDecodes_tree : topicDecodes Fixes.tree = topicDecodes Fixes.all := by
  funext t; cases t with
  | none => rfl
  | some t => simp only [topicDecodes, pctDecodes_tree, chanDecodes_tree]

theorem statsDecodes_tree (ans : List (Option Topic)) : statsDecodes Fixes.tree ans = statsDecodes Fixes.all ans := by
  simp only [statsDecodes, topicDecodes_tree]

theorem nodeAnswer_tree (p : Producer) (sel : String) (ans : List (Option Topic)) (m : ChanMap) :
    nodeAnswer Fixes.tree p sel ans m = nodeAnswer Fixes.all p sel ans m := by
  simp only [nodeAnswer, statsDecodes_tree, topicsOfNode_tree]

theorem nsqdStatsGo_tree (w : World) (sel selc : String) (incl : Bool) (ps : List Producer) :
    ∀ ts m f, nsqdStatsGo Fixes.tree w sel selc incl ps ts m f = nsqdStatsGo Fixes.all w sel selc incl ps ts m f := by
  induction ps with
  | nil => intro ts m f; rfl
  | cons p rest ih => intro ts m f; simp only [nsqdStatsGo, ih, nodeAnswer_tree]

theorem nsqdStats_tree (w : World) (ps : List Producer) (sel selc : String) (incl : Bool) :
    nsqdStats Fixes.tree w ps sel selc incl = nsqdStats Fixes.all w ps sel selc incl := by
  simp only [nsqdStats, nsqdStatsGo_tree]

theorem mergeChan_go_tree (a : ChanNode) (cs : List ChanAgg) :
    mergeChan.go Fixes.tree a cs = mergeChan.go Fixes.all a cs := by
  induction cs with
  | nil => rfl
  | cons c rest ih => simp only [mergeChan.go, ih, chanAgg_add_tree]

theorem mergeChan_tree (cs : List ChanAgg) (a : ChanNode) : mergeChan Fixes.tree cs a = mergeChan Fixes.all cs a := by
  simp only [mergeChan, mergeChan_go_tree]

theorem mergeChans_tree (as : List ChanNode) : ∀ cs, mergeChans Fixes.tree as cs = mergeChans Fixes.all as cs := by
  induction as with
  | nil => intro cs; rfl
  | cons a rest ih => intro cs; simp only [mergeChans, ih, mergeChan_tree]

theorem topicAgg_add_tree (t : TopicAgg) (a : TopicNode) : t.add Fixes.tree a = t.add Fixes.all a := by
  simp only [TopicAgg.add, mergeChans_tree]; rfl

theorem addAll_tree (as : List TopicNode) : ∀ t, TopicAgg.addAll Fixes.tree as t = TopicAgg.addAll Fixes.all as t := by
  induction as with
  | nil => intro t; rfl
  | cons a rest ih => intro t; simp only [TopicAgg.addAll, ih, topicAgg_add_tree]

theorem topicView_tree (w : World) (name : String) : topicView Fixes.tree w name = topicView Fixes.all w name := by
  simp only [topicView, getTopicProducers_tree, nsqdStats_tree, addAll_tree]

theorem channelView_tree (w : World) (topic chan : String) :
    channelView Fixes.tree w topic chan = channelView Fixes.all w topic chan := by
  simp only [channelView, getTopicProducers_tree, nsqdStats_tree]; rfl

theorem nodesView_tree (w : World) : nodesView Fixes.tree w = nodesView Fixes.all w := by
  simp only [nodesView, getProducers_tree]

theorem nodeView_tree (w : World) (addr : String) : nodeView Fixes.tree w addr = nodeView Fixes.all w addr := by
  simp only [nodeView, getProducers_tree, nsqdStats_tree]

theorem counterView_tree (w : World) : counterView Fixes.tree w = counterView Fixes.all w := by
  simp only [counterView, getProducers_tree, nsqdStats_tree]

/-- Away from `?inactive=true` the committed tree and `Fixes.all` give the same view, for every cluster. -/
theorem view_tree_eq (w : World) (req : Request) (h : req ≠ .topicsInactive) :
    view Fixes.tree w req = view Fixes.all w req := by
  cases req with
  | topics => rfl
  | topic n => exact topicView_tree w n
  | channel t c => exact channelView_tree w t c
  | nodes => exact nodesView_tree w
  | node a => exact nodeView_tree w a
  | counter => exact counterView_tree w
  | topicsInactive => exact absurd rfl h

/-! ### `?inactive=true` on the committed tree -/

/-- One pass of the loop on the committed tree: never a panic, never a 502, never a warning; the topic is listed iff no
responding nsqlookupd holds a (non-null) producer for it — which includes "no nsqlookupd answered `/lookup`" — and
then with the strictly sorted union of the `/channels` answers that arrived (none arrived: the empty list). -/
theorem inactiveStep_tree (w : World) (t : String) :
    ∃ r, inactiveStep Fixes.tree w t = .ok (some (r, false)) ∧
      r.isSome = (!anyProducer (lookupdsFor w t)) ∧
      ∀ cs, r = some cs → cs.Pairwise (· < ·) ∧
        ∀ c, c ∈ cs ↔ ∃ a ∈ channelAnswers w t, ∃ names, a = some names ∧ c ∈ names := by
  have hch : ∀ cs, (match unionNames (channelAnswers w t) with
        | .allFailed => ([] : List String)
        | .got cs _ => cs) = cs → cs.Pairwise (· < ·) ∧
        ∀ c, c ∈ cs ↔ ∃ a ∈ channelAnswers w t, ∃ names, a = some names ∧ c ∈ names := by
    intro cs hcs
    cases hu : unionNames (channelAnswers w t) with
    | allFailed =>
      simp only [hu] at hcs
      subst hcs
      refine ⟨List.Pairwise.nil, fun c => ⟨fun hc => (nomatch hc), ?_⟩⟩
      rintro ⟨a, ha, names, hs, _⟩
      unfold unionNames at hu
      split at hu
      · rename_i hcf
        have hcf' : countFailed (channelAnswers w t) = (channelAnswers w t).length := by simpa using hcf
        have := (countFailed_eq_length _).1 hcf' a ha
        rw [hs] at this
        cases this
      · cases hu
    | got cs' f2 =>
      simp only [hu] at hcs
      subst hcs
      exact unionNames_spec _ _ f2 hu
  unfold inactiveStep
  rw [lookupdTopicProducers_tree]
  obtain ⟨s1, hs1⟩ := lookupdTopicProducers_ok (lookupdsFor w t)
  simp only [hs1]
  cases s1 with
  | allFailed =>
    have hany : anyProducer (lookupdsFor w t) = false := by
      have hall := (lookupdTopicProducers_rule _ _ _ hs1).1.1 rfl
      simp only [anyProducer, List.any_eq_false]
      intro l hl
      simp [hall l hl]
    cases hu : unionNames (channelAnswers w t) with
    | allFailed =>
      refine ⟨some [], by simp [Fixes.tree, Fixes.all], by simp [hany], fun cs hcs => ?_⟩
      cases hcs
      exact hch [] (by simp [hu])
    | got cs f2 =>
      refine ⟨some cs, by simp [Fixes.tree, Fixes.all], by simp [hany], fun cs' hcs => ?_⟩
      cases hcs
      exact hch cs (by simp [hu])
  | got ps f1 =>
    have hnil := lookupdTopicProducers_nil _ ps f1 hs1
    cases ps with
    | nil =>
      have hany := hnil.1 rfl
      cases hu : unionNames (channelAnswers w t) with
      | allFailed =>
        refine ⟨some [], by simp [Fixes.tree, Fixes.all], by simp [hany], fun cs hcs => ?_⟩
        cases hcs
        exact hch [] (by simp [hu])
      | got cs f2 =>
        refine ⟨some cs, by simp [Fixes.tree, Fixes.all], by simp [hany], fun cs' hcs => ?_⟩
        cases hcs
        exact hch cs (by simp [hu])
    | cons p rest =>
      have hany : anyProducer (lookupdsFor w t) = true := by
        cases hb : anyProducer (lookupdsFor w t) with
        | true => rfl
        | false => exact absurd (hnil.2 hb) (by simp)
      exact ⟨none, by simp [Fixes.tree, Fixes.all], by simp [hany], fun cs hcs => by cases hcs⟩

/-- The whole loop on the committed tree: it always completes (`some`: no 502), its warning flag is `false`, and it lists —
in the order of the topic list — exactly the topics without a producer on any responding nsqlookupd. -/
theorem inactiveGo_tree (w : World) (ts : List String) :
    ∃ m, inactiveGo Fixes.tree w ts = .ok (some (m, false)) ∧
      m.map (·.1) = ts.filter (fun t => !anyProducer (lookupdsFor w t)) ∧
      ∀ t cs, (t, cs) ∈ m → cs.Pairwise (· < ·) ∧
        ∀ c, c ∈ cs ↔ ∃ a ∈ channelAnswers w t, ∃ names, a = some names ∧ c ∈ names := by
  induction ts with
  | nil => exact ⟨[], rfl, rfl, fun t cs h => nomatch h⟩
  | cons t rest ih =>
    obtain ⟨acc, hacc, i1, i2⟩ := ih
    obtain ⟨r, hr, s1, s2⟩ := inactiveStep_tree w t
    cases r with
    | none =>
      have hp : (!anyProducer (lookupdsFor w t)) = false := by rw [← s1]; rfl
      refine ⟨acc, by simp [inactiveGo, hr, hacc], ?_, i2⟩
      simp only [List.filter_cons, hp, Bool.false_eq_true, if_false]
      exact i1
    | some cs0 =>
      have hp : (!anyProducer (lookupdsFor w t)) = true := by rw [← s1]; rfl
      refine ⟨(t, cs0) :: acc, by simp [inactiveGo, hr, hacc], ?_, fun t' cs' hm => ?_⟩
      · simp only [List.map_cons, List.filter_cons, hp, if_true, i1]
      · rcases List.mem_cons.1 hm with hm | hm
        · simp only [Prod.mk.injEq] at hm
          obtain ⟨rfl, rfl⟩ := hm
          exact s2 _ rfl
        · exact i2 t' cs' hm

end Nsq.Proofs.AggregateTree
