/-
E2 / C13 — `message_bytes` at run level (round 9, audit B18a): what every nsqd-level step does to the sum of the
topics' `msgBytes`.
-/
import Nsq.Proofs.ChanNsqd
namespace Nsq.Proofs.TopicBytes
open Nsq.Model.Chan Nsq.Model.ChanNsqd Nsq.Proofs.ChanNsqd

/-- Σ over all topics of `message_bytes` -/
def bytesL (l : List Topic) : Nat := (l.map (·.msgBytes)).sum
def cntT (l : List Topic) (t : Nat) : Nat := l.countP (fun y => y.tid == t)

theorem bytesL_updT_same (l : List Topic) (t : Nat) (f : Topic → Topic) (hf : ∀ y, (f y).msgBytes = y.msgBytes) :
    bytesL (updT l t f) = bytesL l := by
  unfold bytesL updT
  induction l with
  | nil => rfl
  | cons y l ih =>
    simp only [List.map_cons, List.sum_cons] at ih ⊢
    rw [ih]; split <;> simp [hf]

theorem bytesL_updT_add (l : List Topic) (t : Nat) (f : Topic → Topic) (nb : Nat)
    (hf : ∀ y, (f y).msgBytes = y.msgBytes + nb) : bytesL (updT l t f) = bytesL l + nb * cntT l t := by
  unfold bytesL updT cntT
  induction l with
  | nil => simp
  | cons y l ih =>
    simp only [List.map_cons, List.sum_cons, List.countP_cons] at ih ⊢
    rw [ih]
    by_cases hy : y.tid = t
    · simp [hy, hf, Nat.mul_add]; omega
    · have : (y.tid == t) = false := by simpa using hy
      simp [this]; omega

theorem cntT_one {l : List Topic} {t : Nat} (hn : (l.map (·.tid)).Nodup) (hm : ∃ y ∈ l, y.tid = t) : cntT l t = 1 := by
  unfold cntT
  induction l with
  | nil => obtain ⟨y, hy, _⟩ := hm; cases hy
  | cons x l ih =>
    simp only [List.map_cons, List.nodup_cons] at hn
    simp only [List.countP_cons]
    by_cases hx : x.tid = t
    · have : List.countP (fun y => y.tid == t) l = 0 := by
        rw [List.countP_eq_zero]
        intro y hy hyt
        apply hn.1
        rw [hx]
        exact List.mem_map.2 ⟨y, hy, by simpa using hyt⟩
      simp [hx, this]
    · have hb : (x.tid == t) = false := by simpa using hx
      obtain ⟨y, hy, hyt⟩ := hm
      rcases List.mem_cons.1 hy with rfl | hy
      · exact absurd hyt hx
      · simp [hb, ih hn.2 ⟨y, hy, hyt⟩]

theorem bytes_ensureTopic (s : State) (t : Nat) : bytesL (ensureTopic s t).topics = bytesL s.topics := by
  unfold ensureTopic
  split
  · rfl
  · simp [bytesL]

theorem bytes_chanStep (s : State) (t c : Nat) (op : Nsq.Model.Chan.Op) :
    bytesL (chanStep s t c op).1.topics = bytesL s.topics := by
  unfold chanStep
  split
  · rfl
  · split
    · rfl
    · exact bytesL_updT_same _ _ _ (fun _ => rfl)

theorem bytes_reap (l : List Topic) (t c : Nat) : bytesL (updT l t (fun tp => reapEphemeral tp c)) = bytesL l := by
  apply bytesL_updT_same
  intro y
  unfold reapEphemeral
  split
  · split <;> rfl
  · rfl

theorem bytes_connStep (s : State) (k : Nat) (op : Nsq.Model.Chan.Op) :
    bytesL (connStep s k op).1.topics = bytesL s.topics := by
  unfold connStep
  split
  · rfl
  · rename_i sb hs
    simp only
    split
    · exact (bytes_reap _ _ _).trans (bytes_chanStep _ _ _ _)
    · exact bytes_chanStep _ _ _ _

theorem bytes_doCreateChan (s : State) (t c : Nat) (eph : Bool) :
    bytesL (doCreateChan s t c eph).1.topics = bytesL s.topics := by
  unfold doCreateChan
  simp only
  split
  · exact bytes_ensureTopic s t
  · split
    · exact bytes_ensureTopic s t
    · simp only
      refine (bytesL_updT_same _ _ _ ?_).trans (bytes_ensureTopic s t)
      intro y; rfl

/-- the body bytes a step enqueues: PUB/DPUB the message, MPUB all, a failed MPUB the prefix before the failing write -/
def added : Nsq.Model.ChanNsqd.Op → Nat
  | .pub _ sz _ => sz
  | .dpub _ sz _ _ => sz
  | .mpub _ sizes _ => sizes.sum
  | .mpubFail _ sizes j _ => if j ≥ sizes.length then 0 else (sizes.take j).sum
  | _ => 0

theorem putT_bytes (t : Topic) (id sz d : Nat) (env : Env) : (putT t id sz d env).msgBytes = t.msgBytes := by
  obtain ⟨q, hq, _⟩ := putT_spec t id sz d env; rw [hq]
theorem putMany_bytes (t : Topic) (id : Nat) (sizes : List Nat) (envs : List Env) :
    (putMany t id sizes envs).msgBytes = t.msgBytes := by
  obtain ⟨q, el, hq, _⟩ := putMany_spec t id sizes envs; rw [hq]

/-- **every nsqd-level step adds exactly `added op` to the sum of the topics' `message_bytes`** (topic ids distinct) -/
theorem step_bytes {s : State} (hn : (s.topics.map (·.tid)).Nodup) (op : Nsq.Model.ChanNsqd.Op) :
    bytesL (Nsq.Model.ChanNsqd.step s op).1.topics = bytesL s.topics + added op := by
  have hone : ∀ t, cntT (ensureTopic s t).topics t = 1 := by
    intro t
    apply cntT_one _ (ensureTopic_has s t)
    unfold ensureTopic
    split
    · exact hn
    · rename_i hf
      simp only [List.map_append, List.map_cons, List.map_nil]
      rw [List.nodup_append]
      refine ⟨hn, by simp, ?_⟩
      intro a ha b hb
      simp only [List.mem_singleton] at hb
      subst hb
      obtain ⟨y, hy, rfl⟩ := List.mem_map.1 ha
      exact findT_none hf y hy
  cases op with
  | createTopic t => simp only [Nsq.Model.ChanNsqd.step, added, bytes_ensureTopic]; rfl
  | createChanRaw t c e =>
    simp only [Nsq.Model.ChanNsqd.step, added, Nat.add_zero]
    split
    · exact bytes_ensureTopic s t
    · split
      · exact bytes_ensureTopic s t
      · refine (bytesL_updT_same _ _ _ ?_).trans (bytes_ensureTopic s t)
        intro y; rfl
  | refreshPump t => simp only [Nsq.Model.ChanNsqd.step, added, Nat.add_zero]; exact bytesL_updT_same _ _ _ (fun _ => rfl)
  | createChan t c e => simp only [Nsq.Model.ChanNsqd.step, added, Nat.add_zero]; exact bytes_doCreateChan s t c e
  | sub k t c e mt sm =>
    simp only [Nsq.Model.ChanNsqd.step, added, Nat.add_zero]
    split
    · rfl
    · split
      · simp only; rw [bytes_chanStep, bytes_doCreateChan]
      · exact bytes_doCreateChan s t c e
  | disconnect k =>
    simp only [Nsq.Model.ChanNsqd.step, added, Nat.add_zero]
    split
    · rfl
    · exact (bytes_reap _ _ _).trans (bytes_chanStep _ _ _ _)
  | rdy k n =>
    simp only [Nsq.Model.ChanNsqd.step, added, Nat.add_zero]
    repeat' split
    all_goals first | rfl | exact bytes_connStep _ _ _
  | cls k => exact bytes_connStep _ _ _
  | pub t sz env =>
    simp only [Nsq.Model.ChanNsqd.step, added]
    rw [bytesL_updT_add _ _ _ sz (fun y => by simp), hone t, bytes_ensureTopic]; omega
  | dpub t sz d env =>
    simp only [Nsq.Model.ChanNsqd.step, added]
    rw [bytesL_updT_add _ _ _ sz (fun y => by simp), hone t, bytes_ensureTopic]; omega
  | mpub t sizes envs =>
    simp only [Nsq.Model.ChanNsqd.step, added]
    rw [bytesL_updT_add _ _ _ sizes.sum (fun y => by simp), hone t, bytes_ensureTopic]; omega
  | mpubFail t sizes j envs =>
    simp only [Nsq.Model.ChanNsqd.step, added]
    split
    · simp only [Nat.add_zero]; exact bytes_ensureTopic s t
    · simp only
      rw [bytesL_updT_add _ _ _ (sizes.take j).sum (fun y => by simp), hone t, bytes_ensureTopic]; omega
  | pumpTopic t id kept pris =>
    simp only [Nsq.Model.ChanNsqd.step, added, Nat.add_zero]
    split
    · rfl
    · split
      · rfl
      · split
        · rfl
        · split
          · rfl
          · exact bytesL_updT_same _ _ _ (fun _ => rfl)
  | pauseTopic t =>
    simp only [Nsq.Model.ChanNsqd.step, added, Nat.add_zero]
    split
    · rfl
    · exact bytesL_updT_same _ _ _ (fun _ => rfl)
  | unpauseTopic t =>
    simp only [Nsq.Model.ChanNsqd.step, added, Nat.add_zero]
    split
    · rfl
    · exact bytesL_updT_same _ _ _ (fun _ => rfl)
  | deliver k id now => exact bytes_connStep _ _ _
  | sampleDrop k id => exact bytes_connStep _ _ _
  | fin k id => exact bytes_connStep _ _ _
  | finChan k id => exact bytes_connStep _ _ _
  | finClient k => exact bytes_connStep _ _ _
  | guard k => exact bytes_connStep _ _ _
  | deliverArmed k id now => exact bytes_connStep _ _ _
  | req k id delay now => exact bytes_connStep _ _ _
  | touch k id now => exact bytes_connStep _ _ _
  | scanInFlight t c time => exact bytes_chanStep _ _ _ _
  | scanDeferred t c time => exact bytes_chanStep _ _ _ _
  | pauseChan t c => exact bytes_chanStep _ _ _ _
  | unpauseChan t c => exact bytes_chanStep _ _ _ _
  | emptyChan t c => exact bytes_chanStep _ _ _ _
  | resplit t c m d => exact bytes_chanStep _ _ _ _

end Nsq.Proofs.TopicBytes
