import Nsq.Model.Life
/-
Helper lemmas for the atomic life-cycle model (C08, C05): lookups after updates.
-/
namespace Nsq.Proofs.Life
open Nsq.Model.Life

theorem find_map_if {α} (l : List α) (p : α → Bool) (f : α → α) (hf : ∀ a, p (f a) = p a) :
    (l.map (fun a => if p a then f a else a)).find? p = (l.find? p).map f := by
  induction l with
  | nil => rfl
  | cons a l ih =>
    by_cases h : p a
    · simp [List.find?, h, hf]
    · simp [List.find?, h, ih]

theorem find_filter_not {α} (l : List α) (p : α → Bool) :
    (l.filter (fun a => !p a)).find? p = none := by
  induction l with
  | nil => rfl
  | cons a l ih =>
    by_cases h : p a
    · simp [List.filter, h, ih]
    · simp [List.filter, h, List.find?, ih]

theorem find_map_pres {α} (l : List α) (q : α → Bool) (g : α → α) (hg : ∀ a, q (g a) = q a) :
    (l.map g).find? q = (l.find? q).map g := by
  induction l with
  | nil => rfl
  | cons a l ih =>
    by_cases h : q a
    · simp [List.find?, h, hg]
    · simp [List.find?, h, hg, ih]

theorem find_append_new {α} (l : List α) (p : α → Bool) (a : α) (h : l.find? p = none) (ha : p a = true) :
    (l ++ [a]).find? p = some a := by
  simp [List.find?_append, h, List.find?, ha]

/-- updating with a name-preserving function -/
theorem getTopic_modTopic (s : St) (t : String) (f : Topic → Topic) (hf : ∀ T, (f T).name = T.name) :
    getTopic (modTopic s t f) t = (getTopic s t).map f := by
  unfold getTopic modTopic
  exact find_map_if s.topics (fun T => T.name == t) f (by intro T; simp [hf])

theorem getChan_modChan_topic (T : Topic) (c : String) (f : Chan → Chan) (hf : ∀ C, (f C).name = C.name) :
    (T.modChan c f).getChan c = (T.getChan c).map f := by
  unfold Topic.getChan Topic.modChan
  exact find_map_if T.chans (fun C => C.name == c) f (by intro C; simp [hf])

theorem modChan_name (T : Topic) (c : String) (f : Chan → Chan) : (T.modChan c f).name = T.name := rfl

theorem getChan_modChan (s : St) (t c : String) (f : Chan → Chan) (hf : ∀ C, (f C).name = C.name) :
    getChan (modChan s t c f) t c = (getChan s t c).map f := by
  unfold getChan modChan
  rw [getTopic_modTopic s t _ (fun T => modChan_name T c f)]
  cases h : getTopic s t with
  | none => rfl
  | some T => simp [getChan_modChan_topic T c f hf]

theorem getTopic_filter_ne (s : St) (t : String) (s' : St)
    (h : s'.topics = s.topics.filter (fun X => X.name != t)) : getTopic s' t = none := by
  unfold getTopic
  rw [h]
  have := find_filter_not s.topics (fun X => X.name == t)
  simpa [bne] using this

theorem getChan_filter_ne (T : Topic) (c : String) :
    ({ T with chans := T.chans.filter (fun X => X.name != c) } : Topic).getChan c = none := by
  unfold Topic.getChan
  have := find_filter_not T.chans (fun X => X.name == c)
  simpa [bne] using this

/-- lookup of any topic after a name-preserving update of topic `t` -/
theorem getTopic_modTopic_any (s : St) (t t' : String) (f : Topic → Topic) (hf : ∀ T, (f T).name = T.name) :
    getTopic (modTopic s t f) t' = (getTopic s t').map (fun T => if T.name == t then f T else T) := by
  unfold getTopic modTopic
  apply find_map_pres
  intro T
  by_cases h : T.name == t <;> simp [h, hf]

theorem getChan_modChan_topic_any (T : Topic) (c c' : String) (f : Chan → Chan) (hf : ∀ C, (f C).name = C.name) :
    (T.modChan c f).getChan c' = (T.getChan c').map (fun C => if C.name == c then f C else C) := by
  unfold Topic.getChan Topic.modChan
  apply find_map_pres
  intro C
  by_cases h : C.name == c <;> simp [h, hf]

theorem getTopic_name {s : St} {t : String} {T : Topic} (h : getTopic s t = some T) : T.name = t := by
  unfold getTopic at h
  have := List.find?_some h
  exact eq_of_beq this

theorem getChan_name {T : Topic} {c : String} {C : Chan} (h : T.getChan c = some C) : C.name = c := by
  unfold Topic.getChan at h
  have := List.find?_some h
  exact eq_of_beq this

theorem getChan_modChan_other (s : St) (t c t' c' : String) (f : Chan → Chan)
    (hf : ∀ C, (f C).name = C.name) (hne : ¬ (t' = t ∧ c' = c)) :
    getChan (modChan s t c f) t' c' = getChan s t' c' := by
  unfold getChan modChan
  rw [getTopic_modTopic_any s t t' _ (fun T => modChan_name T c f)]
  cases hT : getTopic s t' with
  | none => rfl
  | some T =>
    simp only [Option.map]
    by_cases htt : T.name == t
    · simp only [htt, if_true]
      rw [getChan_modChan_topic_any T c c' f hf]
      cases hC : T.getChan c' with
      | none => rfl
      | some C =>
        simp only [Option.map]
        have h1 : T.name = t' := getTopic_name hT
        have h2 : C.name = c' := getChan_name hC
        have h3 : t' = t := by rw [← h1]; exact eq_of_beq htt
        have h4 : ¬ (C.name == c) = true := by
          intro hcc
          exact hne ⟨h3, by rw [← h2]; exact eq_of_beq hcc⟩
        simp [h4]
    · simp [htt]

theorem deleteBegin_name (C : Chan) : (Chan.deleteBegin C).name = C.name := rfl
theorem empty_name (C : Chan) : (Chan.empty C).name = C.name := rfl

theorem mem_removeFiles (fs : List BName) (b : BName) : b ∉ removeFiles fs b := by
  unfold removeFiles
  simp

theorem getChan_some {s : St} {t c : String} {C : Chan} (h : getChan s t c = some C) :
    ∃ T, getTopic s t = some T ∧ T.getChan c = some C := by
  unfold getChan at h
  cases hT : getTopic s t with
  | none => simp [hT] at h
  | some T => exact ⟨T, rfl, by simpa [hT] using h⟩


/-- `DeleteExistingChannel` = `Channel.Delete()` then the unlink from the topic's map -/
def deleteChan (s : St) (t c : String) : St :=
  (step (step s (.deleteChanBegin t c)).1 (.deleteChanUnlink t c)).1

theorem delete_begin_eq (s : St) (t c : String) (C : Chan)
    (h : getChan s t c = some C) (hx : C.exiting = false) :
    (step s (.deleteChanBegin t c)).1 =
      { modChan s t c Chan.deleteBegin with
          closed := s.closed ++ C.clients.map (·.id), files := removeFiles s.files (t, some c) } := by
  simp [step, h, hx]

theorem empty_located (C : Chan) : (Chan.empty C).located = [] := rfl

theorem empty_clients (C : Chan) :
    (Chan.empty C).clients.map (·.id) = C.clients.map (·.id) ∧
    ∀ k ∈ (Chan.empty C).clients, k.inFlight = 0 := by
  constructor
  · simp [Chan.empty, List.map_map, Function.comp_def]
  · intro k hk
    simp [Chan.empty] at hk
    obtain ⟨a, _, rfl⟩ := hk
    rfl


/-- the backend `b` belongs to a durable (non-ephemeral) topic or channel of `s` -/
def DurableOwner (s : St) (b : BName) : Prop :=
  match b.2 with
  | none => ∃ T ∈ s.topics, T.name = b.1 ∧ T.eph = false
  | some c => ∃ T ∈ s.topics, T.name = b.1 ∧ ∃ C ∈ T.chans, C.name = c ∧ C.eph = false

theorem mem_addFile {fs : List BName} {b x : BName} (h : x ∈ addFile fs b) : x ∈ fs ∨ x = b := by
  unfold addFile at h
  by_cases hb : b ∈ fs
  · simp [hb] at h; exact Or.inl h
  · simp [hb] at h; rcases h with h | h
    · exact Or.inr h
    · exact Or.inl h

theorem getTopic_mem {s : St} {t : String} {T : Topic} (h : getTopic s t = some T) : T ∈ s.topics ∧ T.name = t :=
  ⟨List.mem_of_find?_eq_some h, getTopic_name h⟩

theorem getChan_mem {s : St} {t c : String} {C : Chan} (h : getChan s t c = some C) :
    ∃ T ∈ s.topics, T.name = t ∧ C ∈ T.chans ∧ C.name = c := by
  obtain ⟨T, hT, hC⟩ := getChan_some h
  exact ⟨T, (getTopic_mem hT).1, (getTopic_mem hT).2, List.mem_of_find?_eq_some hC, getChan_name hC⟩

theorem putMessage_eph (cap : Nat) (C : Chan) (m : Msg) :
    (C.putMessage cap m).eph = C.eph ∧ (C.putMessage cap m).name = C.name := by
  unfold Chan.putMessage Chan.put
  by_cases h1 : C.exiting <;> by_cases h2 : C.memLen < cap <;> by_cases h3 : C.eph <;> simp [h1, h2, h3]

theorem foldl_files_mem (t : String) (cap : Nat) (cs : List Chan) : ∀ (fs : List BName) (x : BName),
    x ∈ cs.foldl (fun acc C => if !C.exiting && C.putWrites cap then addFile acc (t, some C.name) else acc) fs →
    x ∈ fs ∨ ∃ C ∈ cs, C.eph = false ∧ x = (t, some C.name) := by
  induction cs with
  | nil => intro fs x h; exact Or.inl h
  | cons Y ys ih =>
    intro fs x h
    simp only [List.foldl] at h
    rcases ih _ x h with h1 | ⟨C, hC, he, hx⟩
    · by_cases hw : (!Y.exiting && Y.putWrites cap) = true
      · simp only [hw, if_true] at h1
        rcases mem_addFile h1 with h2 | h2
        · exact Or.inl h2
        · refine Or.inr ⟨Y, List.mem_cons_self, ?_, h2⟩
          simp [Chan.putWrites] at hw
          exact hw.2.2
      · simp only [hw] at h1
        exact Or.inl h1
    · exact Or.inr ⟨C, List.mem_cons_of_mem _ hC, he, hx⟩

/-- files written by a fan-out belong to durable channels of the topic -/
theorem fanoutFiles_mem (t : String) (cap : Nat) (ms : List Msg) : ∀ (cs : List Chan) (fs : List BName) (x : BName),
    x ∈ fanoutFiles cap t cs ms fs →
    x ∈ fs ∨ ∃ C ∈ cs, C.eph = false ∧ x = (t, some C.name) := by
  induction ms with
  | nil => intro cs fs x h; exact Or.inl h
  | cons m ms ih =>
    intro cs fs x h
    simp only [fanoutFiles] at h
    rcases ih _ _ x h with h1 | ⟨C', hC', he', hx'⟩
    · exact foldl_files_mem t cap cs fs x h1
    · unfold fanout at hC'
      obtain ⟨C, hC, rfl⟩ := List.mem_map.mp hC'
      refine Or.inr ⟨C, hC, ?_, ?_⟩
      · rw [← (putMessage_eph cap C m).1]; exact he'
      · rw [hx', (putMessage_eph cap C m).2]

/-- **files are only ever created for durable owners**: whatever operation runs, a backend that
owns files afterwards either owned files before or belongs to a durable topic/channel of the
state — an ephemeral topic or channel never reaches the disk -/
theorem files_only_for_durable (s : St) (o : Op) (b : BName) (hb : b ∈ (step s o).1.files) :
    b ∈ s.files ∨ DurableOwner s b := by
  cases o with
  | createTopic t e => simp only [step] at hb; split at hb <;> exact Or.inl hb
  | createChan t c e =>
    simp only [step] at hb
    split at hb
    · exact Or.inl hb
    · split at hb <;> exact Or.inl hb
  | deleteTopic t =>
    simp only [step] at hb
    split at hb
    · exact Or.inl hb
    · exact Or.inl (List.mem_filter.mp hb).1
  | deleteChanBegin t c =>
    simp only [step] at hb
    split at hb
    · exact Or.inl hb
    · split at hb
      · exact Or.inl hb
      · exact Or.inl (List.mem_filter.mp hb).1
  | deleteChanUnlink t c =>
    simp only [step] at hb
    split at hb
    · exact Or.inl hb
    · split at hb
      · exact Or.inl hb
      · split at hb
        · exact Or.inl hb
        · split at hb
          · exact Or.inl (List.mem_filter.mp hb).1
          · exact Or.inl hb
  | emptyTopic t =>
    simp only [step] at hb
    split at hb
    · exact Or.inl hb
    · exact Or.inl (List.mem_filter.mp hb).1
  | emptyChan t c =>
    simp only [step] at hb
    split at hb
    · exact Or.inl hb
    · split at hb
      · exact Or.inl hb
      · exact Or.inl (List.mem_filter.mp hb).1
  | pauseTopic t p => simp only [step] at hb; split at hb <;> exact Or.inl hb
  | pauseChan t c p => simp only [step] at hb; split at hb <;> exact Or.inl hb
  | pub t m =>
    simp only [step] at hb
    split at hb
    · exact Or.inl hb
    · rename_i T hT
      have hb' : b ∈ (if T.putWrites s.memCap then addFile s.files (t, none) else s.files) := hb
      by_cases hw : T.putWrites s.memCap = true
      · simp only [hw, if_true] at hb'
        rcases mem_addFile hb' with h | h
        · exact Or.inl h
        · refine Or.inr ?_
          subst h
          simp [Topic.putWrites] at hw
          exact ⟨T, (getTopic_mem hT).1, (getTopic_mem hT).2, hw.2⟩
      · simp only [hw] at hb'
        exact Or.inl hb'
  | pump t =>
    simp only [step] at hb
    split at hb
    · exact Or.inl hb
    · rename_i T hT
      split at hb
      · exact Or.inl hb
      · have hb' : b ∈ fanoutFiles s.memCap t T.chans T.queue s.files := hb
        rcases fanoutFiles_mem t s.memCap T.queue T.chans s.files b hb' with h | ⟨C, hC, he, hx⟩
        · exact Or.inl h
        · subst hx
          exact Or.inr ⟨T, (getTopic_mem hT).1, (getTopic_mem hT).2, C, hC, rfl, he⟩
  | sub t c k =>
    simp only [step] at hb
    repeat' split at hb
    all_goals exact Or.inl hb
  | unsub t c k =>
    simp only [step] at hb
    repeat' split at hb
    all_goals first | exact Or.inl hb | exact Or.inl (List.mem_filter.mp hb).1
  | deliver t c k fm id =>
    simp only [step] at hb
    repeat' split at hb
    all_goals exact Or.inl hb
  | fin t c k id =>
    simp only [step] at hb
    repeat' split at hb
    all_goals exact Or.inl hb
  | req t c k id d =>
    simp only [step] at hb
    split at hb
    · exact Or.inl hb
    · rename_i C hC
      split at hb
      · exact Or.inl hb
      · split at hb
        · exact Or.inl hb
        · have hb' : b ∈ (if C.putWrites s.memCap then addFile s.files (t, some c) else s.files) := hb
          by_cases hw : C.putWrites s.memCap = true
          · simp only [hw, if_true] at hb'
            rcases mem_addFile hb' with h | h
            · exact Or.inl h
            · subst h
              obtain ⟨T, hT, hn, hCm, hcn⟩ := getChan_mem hC
              simp [Chan.putWrites] at hw
              exact Or.inr ⟨T, hT, hn, C, hCm, hcn, hw.2⟩
          · simp only [hw] at hb'
            exact Or.inl hb'
  | release t c id =>
    simp only [step] at hb
    split at hb
    · exact Or.inl hb
    · rename_i C hC
      split at hb
      · exact Or.inl hb
      · have hb' : b ∈ (if C.putWrites s.memCap then addFile s.files (t, some c) else s.files) := hb
        by_cases hw : C.putWrites s.memCap = true
        · simp only [hw, if_true] at hb'
          rcases mem_addFile hb' with h | h
          · exact Or.inl h
          · subst h
            obtain ⟨T, hT, hn, hCm, hcn⟩ := getChan_mem hC
            simp [Chan.putWrites] at hw
            exact Or.inr ⟨T, hT, hn, C, hCm, hcn, hw.2⟩
        · simp only [hw] at hb'
          exact Or.inl hb'


/-- id `x` is nowhere in topic `T`'s own queue nor in any of its channels named `c` -/
def TAbs (T : Topic) (c : String) (x : Nat) : Prop :=
  (∀ m ∈ T.queue, m.id ≠ x) ∧ ∀ C ∈ T.chans, C.name = c → ∀ m ∈ C.located, m.id ≠ x

def AbsentL (ts : List Topic) (os : List (BName × List Msg)) (t c : String) (x : Nat) : Prop :=
  (∀ T ∈ ts, T.name = t → TAbs T c x) ∧ (∀ e ∈ os, ∀ m ∈ e.2, m.id ≠ x)

/-- message id `x` is absent from channel (t, c), from topic t's queue and from every orphaned queue -/
def Absent (s : St) (t c : String) (x : Nat) : Prop := AbsentL s.topics s.orphans t c x

theorem absentL_map (ts : List Topic) (os : List (BName × List Msg)) (t c : String) (x : Nat) (t' : String)
    (f : Topic → Topic) (hn : ∀ T, (f T).name = T.name)
    (hp : ∀ T ∈ ts, T.name = t → t' = t → TAbs T c x → TAbs (f T) c x)
    (h : AbsentL ts os t c x) :
    AbsentL (ts.map (fun T => if T.name == t' then f T else T)) os t c x := by
  refine ⟨?_, h.2⟩
  intro T' hT' hn'
  obtain ⟨T, hT, rfl⟩ := List.mem_map.mp hT'
  by_cases hx : T.name == t'
  · simp only [hx, if_true] at hn' ⊢
    rw [hn] at hn'
    exact hp T hT hn' (by rw [← hn']; exact (eq_of_beq hx).symm) (h.1 T hT hn')
  · simp only [hx] at hn' ⊢
    exact h.1 T hT hn'

theorem tabs_modChan (T : Topic) (c c' : String) (x : Nat) (f : Chan → Chan) (hn : ∀ C, (f C).name = C.name)
    (hp : c' = c → ∀ C ∈ T.chans, C.name = c → ∀ m ∈ (f C).located, m.id ≠ x)
    (h : TAbs T c x) : TAbs (T.modChan c' f) c x := by
  refine ⟨h.1, ?_⟩
  intro C' hC' hcn
  unfold Topic.modChan at hC'
  obtain ⟨C, hC, rfl⟩ := List.mem_map.mp hC'
  by_cases hx : C.name == c'
  · simp only [hx, if_true] at hcn ⊢
    rw [hn] at hcn
    exact hp (by rw [← hcn]; exact (eq_of_beq hx).symm) C hC hcn
  · simp only [hx] at hcn ⊢
    exact h.2 C hC hcn

theorem absentL_filter (ts : List Topic) (os) (t c : String) (x : Nat) (p : Topic → Bool)
    (h : AbsentL ts os t c x) : AbsentL (ts.filter p) os t c x :=
  ⟨fun T hT => h.1 T (List.mem_filter.mp hT).1, h.2⟩

theorem takeId_mem {l : List Msg} {id : Nat} {m : Msg} {rest : List Msg} (h : takeId l id = some (m, rest)) :
    m ∈ l ∧ m.id = id ∧ ∀ y ∈ rest, y ∈ l := by
  unfold takeId at h
  split at h
  · cases h
  · rename_i m0 hf
    cases h
    refine ⟨List.mem_of_find?_eq_some hf, ?_, fun y hy => List.mem_of_mem_erase hy⟩
    have := List.find?_some hf
    exact eq_of_beq this

theorem put_located (cap : Nat) (C : Chan) (m : Msg) : ∀ y ∈ (Chan.put cap C m).located, y ∈ C.located ∨ y = m := by
  intro y hy
  unfold Chan.put at hy
  by_cases h1 : C.memLen < cap
  · simp only [h1, if_true] at hy
    have : y ∈ (C.queue ++ [m]) ++ C.inflight.map (·.1) ++ C.deferred := hy
    simp only [List.mem_append, List.mem_singleton] at this
    unfold Chan.located
    simp only [List.mem_append]
    rcases this with ((h | h) | h) | h
    · exact Or.inl (Or.inl (Or.inl h))
    · exact Or.inr h
    · exact Or.inl (Or.inl (Or.inr h))
    · exact Or.inl (Or.inr h)
  · by_cases h2 : C.eph
    · simp only [h1, h2, if_true, if_false] at hy; exact Or.inl hy
    · simp only [h1, h2, if_false] at hy
      have : y ∈ (C.queue ++ [m]) ++ C.inflight.map (·.1) ++ C.deferred := hy
      simp only [List.mem_append, List.mem_singleton] at this
      unfold Chan.located
      simp only [List.mem_append]
      rcases this with ((h | h) | h) | h
      · exact Or.inl (Or.inl (Or.inl h))
      · exact Or.inr h
      · exact Or.inl (Or.inl (Or.inr h))
      · exact Or.inl (Or.inr h)

theorem mem_located_iff (C : Chan) (y : Msg) :
    y ∈ C.located ↔ y ∈ C.queue ∨ (∃ e ∈ C.inflight, e.1 = y) ∨ y ∈ C.deferred := by
  unfold Chan.located
  simp only [List.mem_append, List.mem_map]
  constructor
  · rintro ((h | h) | h)
    · exact Or.inl h
    · exact Or.inr (Or.inl h)
    · exact Or.inr (Or.inr h)
  · rintro (h | h | h)
    · exact Or.inl (Or.inl h)
    · exact Or.inl (Or.inr h)
    · exact Or.inr h

theorem put_name' (cap : Nat) (C : Chan) (m : Msg) : (Chan.put cap C m).name = C.name := by
  unfold Chan.put
  by_cases h2 : C.memLen < cap <;> by_cases h3 : C.eph <;> simp [h2, h3]

theorem putMessage_located (cap : Nat) (C : Chan) (m : Msg) :
    ∀ y ∈ (C.putMessage cap m).located, y ∈ C.located ∨ y = m := by
  intro y hy
  unfold Chan.putMessage at hy
  by_cases h1 : C.exiting
  · simp only [h1, if_true] at hy; exact Or.inl hy
  · simp only [h1] at hy
    exact put_located cap C m y hy

theorem foldl_putMessage_located (cap : Nat) (ms : List Msg) : ∀ (C : Chan),
    ∀ y ∈ (ms.foldl (fun C m => C.putMessage cap m) C).located, y ∈ C.located ∨ y ∈ ms := by
  induction ms with
  | nil => intro C y hy; exact Or.inl hy
  | cons m ms ih =>
    intro C y hy
    rcases ih (C.putMessage cap m) y hy with h | h
    · rcases putMessage_located cap C m y h with h2 | h2
      · exact Or.inl h2
      · exact Or.inr (by simp [h2])
    · exact Or.inr (List.mem_cons_of_mem _ h)

theorem foldl_putMessage_name (cap : Nat) (ms : List Msg) : ∀ (C : Chan),
    (ms.foldl (fun C m => C.putMessage cap m) C).name = C.name := by
  induction ms with
  | nil => intro C; rfl
  | cons m ms ih => intro C; simp only [List.foldl]; rw [ih]; exact (putMessage_eph cap C m).2

theorem fanoutAll_eq' (cap : Nat) (ms : List Msg) : ∀ (cs : List Chan),
    fanoutAll cap cs ms = cs.map (fun C => ms.foldl (fun C m => C.putMessage cap m) C) := by
  induction ms with
  | nil => intro cs; simp [fanoutAll]
  | cons m ms ih =>
    intro cs
    show fanoutAll cap (fanout cap cs m) ms = _
    rw [ih]; unfold fanout; rw [List.map_map]; rfl

/-- the operation does not publish id `x` to topic `t` -/
def NoPub (o : Op) (t : String) (x : Nat) : Prop := ∀ m, o = Op.pub t m → m.id ≠ x

theorem orphanOf_mem {os : List (BName × List Msg)} {b : BName} {m : Msg} (h : m ∈ orphanOf os b) :
    ∃ e ∈ os, m ∈ e.2 := by
  unfold orphanOf at h
  split at h
  · rename_i e he
    exact ⟨e, List.mem_of_find?_eq_some he, h⟩
  · cases h

theorem openChan_located (os : List (BName × List Msg)) (t c : String) (e : Bool) (m : Msg)
    (h : m ∈ (openChan os t c e).located) : ∃ en ∈ os, m ∈ en.2 := by
  unfold openChan at h
  cases e with
  | true => simp [newChan, Chan.located] at h
  | false =>
    simp only [Chan.located, List.map_nil, List.append_nil, Bool.false_eq_true, if_false] at h
    exact orphanOf_mem h

/-- a channel-level update applied through `modChan` keeps `x` absent when the updated channel only
holds ids it (or the argument channel `C0` of the same name) held before -/
theorem absent_modChan (s : St) (t c : String) (x : Nat) (t' c' : String) (f : Chan → Chan)
    (hn : ∀ C, (f C).name = C.name)
    (hp : t' = t → c' = c → ∀ C, (∀ m ∈ C.located, m.id ≠ x) → ∀ m ∈ (f C).located, m.id ≠ x)
    (h : Absent s t c x) : AbsentL (modChan s t' c' f).topics (modChan s t' c' f).orphans t c x := by
  show AbsentL (modChan s t' c' f).topics s.orphans t c x
  unfold modChan modTopic
  apply absentL_map s.topics s.orphans t c x t' (fun T => T.modChan c' f) (fun _ => rfl) _ h
  intro T _ _ htt hT
  apply tabs_modChan T c c' x f hn _ hT
  intro hcc C hC hcn
  exact hp htt hcc C (hT.2 C hC hcn)

theorem absent_step (s : St) (o : Op) (t c : String) (x : Nat) (h : Absent s t c x) (hno : NoPub o t x) :
    Absent (step s o).1 t c x := by
  unfold Absent
  cases o with
  | createTopic t' e =>
    simp only [step]
    split
    · exact h
    · refine ⟨?_, h.2⟩
      intro T hT hn
      rcases List.mem_append.mp hT with h1 | h1
      · exact h.1 T h1 hn
      · simp at h1; subst h1
        exact ⟨(by intro m hm; cases hm), (by intro C hC; cases hC)⟩
  | createChan t' c' e =>
    simp only [step]
    split
    · exact h
    · split
      · exact h
      · refine ⟨?_, ?_⟩
        · show ∀ T ∈ (modTopic s t' (fun T => T.addChan (openChan s.orphans t' c' e))).topics, _
          have := absentL_map s.topics s.orphans t c x t' (fun T => T.addChan (openChan s.orphans t' c' e))
            (fun _ => rfl) ?_ h
          · exact this.1
          · intro T _ _ _ hT
            refine ⟨hT.1, ?_⟩
            intro C hC hcn
            rcases List.mem_append.mp hC with h1 | h1
            · exact hT.2 C h1 hcn
            · simp at h1; subst h1
              intro m hm
              obtain ⟨en, hen, hmen⟩ := openChan_located _ _ _ _ m hm
              exact h.2 en hen m hmen
        · intro en hen
          by_cases he : e
          · simp only [he, if_true] at hen; exact h.2 en hen
          · simp only [he] at hen; exact h.2 en (List.mem_filter.mp hen).1
  | deleteTopic t' =>
    simp only [step]
    split
    · exact h
    · exact absentL_filter s.topics s.orphans t c x _ h
  | deleteChanBegin t' c' =>
    simp only [step]
    split
    · exact h
    · split
      · exact h
      · exact absent_modChan s t c x t' c' Chan.deleteBegin deleteBegin_name
          (fun _ _ C _ m hm => by simp [Chan.deleteBegin, Chan.empty, Chan.located] at hm) h
  | deleteChanUnlink t' c' =>
    simp only [step]
    split
    · exact h
    · split
      · exact h
      · split
        · exact h
        · split
          · exact absentL_filter s.topics s.orphans t c x _ h
          · show AbsentL (modTopic s t' (fun T => T.dropChan c')).topics s.orphans t c x
            apply absentL_map s.topics s.orphans t c x t' (fun T => T.dropChan c') (fun _ => rfl) _ h
            intro T _ _ _ hT
            exact ⟨hT.1, fun C hC hcn => hT.2 C (List.mem_filter.mp hC).1 hcn⟩
  | emptyTopic t' =>
    simp only [step]
    split
    · exact h
    · show AbsentL (modTopic s t' Topic.clearQueue).topics s.orphans t c x
      apply absentL_map s.topics s.orphans t c x t' Topic.clearQueue (fun _ => rfl) _ h
      intro T _ _ _ hT
      exact ⟨(by intro m hm; cases hm), hT.2⟩
  | emptyChan t' c' =>
    simp only [step]
    split
    · exact h
    · split
      · exact h
      · exact absent_modChan s t c x t' c' Chan.empty empty_name
          (fun _ _ C _ m hm => by simp [Chan.empty, Chan.located] at hm) h
  | pauseTopic t' p =>
    simp only [step]
    split
    · exact h
    · show AbsentL (modTopic s t' (fun T => { T with paused := p })).topics s.orphans t c x
      apply absentL_map s.topics s.orphans t c x t' (fun T => { T with paused := p }) (fun _ => rfl) _ h
      intro T _ _ _ hT; exact hT
  | pauseChan t' c' p =>
    simp only [step]
    split
    · exact h
    · exact absent_modChan s t c x t' c' (fun C => { C with paused := p }) (fun _ => rfl)
        (fun _ _ C hC m hm => hC m hm) h
  | pub t' m =>
    simp only [step]
    split
    · exact h
    · show AbsentL (modTopic s t' (fun T => T.put s.memCap m)).topics s.orphans t c x
      apply absentL_map s.topics s.orphans t c x t' (fun T => T.put s.memCap m) _ _ h
      · intro T; unfold Topic.put
        by_cases h2 : T.memLen < s.memCap <;> by_cases h3 : T.eph <;> simp [h2, h3]
      · intro T _ _ htt hT
        have hmx : m.id ≠ x := hno m (by rw [htt])
        unfold Topic.put
        by_cases h2 : T.memLen < s.memCap
        · simp only [h2, if_true]
          refine ⟨?_, hT.2⟩
          intro y hy
          rcases List.mem_append.mp hy with h1 | h1
          · exact hT.1 y h1
          · simp at h1; subst h1; exact hmx
        · by_cases h3 : T.eph
          · simp only [h2, h3, if_true, if_false]; exact hT
          · simp only [h2, h3, if_false]
            refine ⟨?_, hT.2⟩
            intro y hy
            rcases List.mem_append.mp hy with h1 | h1
            · exact hT.1 y h1
            · simp at h1; subst h1; exact hmx
  | pump t' =>
    simp only [step]
    split
    · exact h
    · split
      · exact h
      · apply absentL_map s.topics s.orphans t c x t'
          (fun T => Topic.mk T.name T.eph T.paused [] 0 (fanoutAll s.memCap T.chans T.queue) T.msgCount)
          (fun _ => rfl) _ h
        intro T _ _ _ hT
        refine ⟨(by intro m hm; cases hm), ?_⟩
        intro C' hC' hcn
        rw [fanoutAll_eq'] at hC'
        obtain ⟨C, hC, rfl⟩ := List.mem_map.mp hC'
        rw [foldl_putMessage_name] at hcn
        intro m hm
        rcases foldl_putMessage_located s.memCap T.queue C m hm with h1 | h1
        · exact hT.2 C hC hcn m h1
        · exact hT.1 m h1
  | sub t' c' k =>
    simp only [step]
    repeat' split
    all_goals first
      | exact h
      | exact absent_modChan s t c x t' c' _ (fun _ => rfl) (fun _ _ C hC m hm => hC m hm) h
  | unsub t' c' k =>
    simp only [step]
    repeat' split
    all_goals first
      | exact h
      | exact absent_modChan s t c x t' c' Chan.deleteBegin deleteBegin_name
          (fun _ _ C _ m hm => by simp [Chan.deleteBegin, Chan.empty, Chan.located] at hm) h
      | exact absent_modChan s t c x t' c' _ (fun _ => rfl) (fun _ _ C hC m hm => hC m hm) h
  | deliver t' c' k fm id =>
    simp only [step]
    cases hC0 : getChan s t' c' with
    | none => exact h
    | some C0 =>
      simp only []
      by_cases hg : (C0.exiting || C0.paused || !hasClient C0 k) = true
      · rw [if_pos hg]; exact h
      · rw [if_neg hg]
        by_cases hz : (if fm = true then C0.memLen else C0.diskLen) = 0
        · rw [if_pos hz]; exact h
        · rw [if_neg hz]
          cases htake : takeId C0.queue id with
          | none => exact h
          | some p =>
            obtain ⟨m, rest⟩ := p
            simp only []
            obtain ⟨hm0, _, hrest⟩ := takeId_mem htake
            obtain ⟨T0, hT0, hn0, hCm0, hcn0⟩ := getChan_mem hC0
            refine absent_modChan s t c x t' c' _ (fun _ => rfl) ?_ h
            intro htt hcc C hC y hy
            have hC0abs : ∀ z ∈ C0.located, z.id ≠ x :=
              (h.1 T0 hT0 (by rw [hn0, htt])).2 C0 hCm0 (by rw [hcn0, hcc])
            rcases (mem_located_iff _ y).mp hy with h1 | ⟨en, hen, rfl⟩ | h1
            · exact hC0abs y ((mem_located_iff C0 y).mpr (Or.inl (hrest y h1)))
            · rcases List.mem_append.mp hen with h2 | h2
              · exact hC en.1 ((mem_located_iff C en.1).mpr (Or.inr (Or.inl ⟨en, h2, rfl⟩)))
              · simp at h2; subst h2
                exact hC0abs m ((mem_located_iff C0 m).mpr (Or.inl hm0))
            · exact hC y ((mem_located_iff C y).mpr (Or.inr (Or.inr h1)))
  | fin t' c' k id =>
    simp only [step]
    cases hC0 : getChan s t' c' with
    | none => exact h
    | some C0 =>
      simp only []
      cases he0 : findInflight C0 k id with
      | none => exact h
      | some e0 =>
        simp only []
        refine absent_modChan s t c x t' c' _ (fun _ => rfl) ?_ h
        intro _ _ C hC y hy
        rcases (mem_located_iff _ y).mp hy with h1 | ⟨en, hen, rfl⟩ | h1
        · exact hC y ((mem_located_iff C y).mpr (Or.inl h1))
        · exact hC en.1 ((mem_located_iff C en.1).mpr (Or.inr (Or.inl ⟨en, List.mem_of_mem_erase hen, rfl⟩)))
        · exact hC y ((mem_located_iff C y).mpr (Or.inr (Or.inr h1)))
  | req t' c' k id d =>
    simp only [step]
    cases hC0 : getChan s t' c' with
    | none => exact h
    | some C0 =>
      simp only []
      cases he0 : findInflight C0 k id with
      | none => exact h
      | some e0 =>
        simp only []
        obtain ⟨T0, hT0, hn0, hCm0, hcn0⟩ := getChan_mem hC0
        have he0m : e0 ∈ C0.inflight := by
          unfold findInflight at he0
          exact List.mem_of_find?_eq_some he0
        have hC0abs : t' = t → c' = c → ∀ z ∈ C0.located, z.id ≠ x := fun htt hcc =>
          (h.1 T0 hT0 (by rw [hn0, htt])).2 C0 hCm0 (by rw [hcn0, hcc])
        cases d with
        | true =>
          simp only [if_true]
          refine absent_modChan s t c x t' c' _ (fun _ => rfl) ?_ h
          intro htt hcc C hC y hy
          rcases (mem_located_iff _ y).mp hy with h1 | ⟨en, hen, rfl⟩ | h1
          · exact hC y ((mem_located_iff C y).mpr (Or.inl h1))
          · exact hC en.1 ((mem_located_iff C en.1).mpr (Or.inr (Or.inl ⟨en, List.mem_of_mem_erase hen, rfl⟩)))
          · rcases List.mem_append.mp h1 with h2 | h2
            · exact hC y ((mem_located_iff C y).mpr (Or.inr (Or.inr h2)))
            · simp at h2; subst h2
              exact hC0abs htt hcc e0.1 ((mem_located_iff C0 e0.1).mpr (Or.inr (Or.inl ⟨e0, he0m, rfl⟩)))
        | false =>
          simp only [Bool.false_eq_true, if_false]
          refine absent_modChan s t c x t' c' _ ?_ ?_ h
          · intro C; exact put_name' s.memCap _ _
          · intro htt hcc C hC y hy
            rcases put_located s.memCap _ e0.1 y hy with h1 | h1
            · rcases (mem_located_iff _ y).mp h1 with h2 | ⟨en, hen, rfl⟩ | h2
              · exact hC y ((mem_located_iff C y).mpr (Or.inl h2))
              · exact hC en.1 ((mem_located_iff C en.1).mpr (Or.inr (Or.inl ⟨en, List.mem_of_mem_erase hen, rfl⟩)))
              · exact hC y ((mem_located_iff C y).mpr (Or.inr (Or.inr h2)))
            · subst h1
              exact hC0abs htt hcc e0.1 ((mem_located_iff C0 e0.1).mpr (Or.inr (Or.inl ⟨e0, he0m, rfl⟩)))
  | release t' c' id =>
    simp only [step]
    cases hC0 : getChan s t' c' with
    | none => exact h
    | some C0 =>
      simp only []
      cases htake : takeId C0.deferred id with
      | none => exact h
      | some p =>
        obtain ⟨m, rest⟩ := p
        simp only []
        obtain ⟨hm0, _, hrest⟩ := takeId_mem htake
        obtain ⟨T0, hT0, hn0, hCm0, hcn0⟩ := getChan_mem hC0
        refine absent_modChan s t c x t' c' _ ?_ ?_ h
        · intro C; exact put_name' s.memCap _ _
        · intro htt hcc C hC y hy
          have hC0abs : ∀ z ∈ C0.located, z.id ≠ x :=
            (h.1 T0 hT0 (by rw [hn0, htt])).2 C0 hCm0 (by rw [hcn0, hcc])
          rcases put_located s.memCap _ m y hy with h1 | h1
          · rcases (mem_located_iff _ y).mp h1 with h2 | ⟨en, hen, rfl⟩ | h2
            · exact hC y ((mem_located_iff C y).mpr (Or.inl h2))
            · exact hC en.1 ((mem_located_iff C en.1).mpr (Or.inr (Or.inl ⟨en, hen, rfl⟩)))
            · exact hC0abs y ((mem_located_iff C0 y).mpr (Or.inr (Or.inr (hrest y h2))))
          · rw [h1]
            exact hC0abs m ((mem_located_iff C0 m).mpr (Or.inr (Or.inr hm0)))

/-- a `deliver` of an absent id is never accepted -/
theorem deliver_absent (s : St) (t c : String) (k : Nat) (fm : Bool) (x : Nat) (h : Absent s t c x) :
    (step s (.deliver t c k fm x)).2 ≠ Ans.ok := by
  simp only [step]
  cases hC0 : getChan s t c with
  | none => simp
  | some C0 =>
    simp only []
    by_cases hg : (C0.exiting || C0.paused || !hasClient C0 k) = true
    · rw [if_pos hg]; simp
    · rw [if_neg hg]
      by_cases hz : (if fm = true then C0.memLen else C0.diskLen) = 0
      · rw [if_pos hz]; simp
      · rw [if_neg hz]
        cases htake : takeId C0.queue x with
        | none => simp
        | some p =>
          obtain ⟨m, rest⟩ := p
          obtain ⟨hm0, hid, _⟩ := takeId_mem htake
          obtain ⟨T0, hT0, hn0, hCm0, hcn0⟩ := getChan_mem hC0
          exact absurd hid ((h.1 T0 hT0 hn0).2 C0 hCm0 hcn0 m ((mem_located_iff C0 m).mpr (Or.inl hm0)))

/-- what happened to the state: run with the answers -/
def runAns (s : St) : List Op → List Ans
  | [] => []
  | o :: os => (step s o).2 :: runAns (step s o).1 os

theorem absent_run : ∀ (ops : List Op) (s : St) (t c : String) (x : Nat), Absent s t c x →
    (∀ o ∈ ops, NoPub o t x) → Absent (run s ops) t c x := by
  intro ops
  induction ops with
  | nil => intro s t c x h _; exact h
  | cons o os ih =>
    intro s t c x h hno
    exact ih _ t c x (absent_step s o t c x h (hno o List.mem_cons_self))
      (fun o' ho' => hno o' (List.mem_cons_of_mem _ ho'))

/-- after `f` (which empties a channel: `Chan.empty` / `Chan.deleteBegin`) has been applied to (t, c),
an id that is neither waiting in topic t's own queue nor in an orphaned queue is absent -/
theorem absent_after_clear (s : St) (t c : String) (x : Nat) (f : Chan → Chan) (hn : ∀ C, (f C).name = C.name)
    (hf : ∀ C, (f C).located = [])
    (hq : ∀ T ∈ s.topics, T.name = t → ∀ m ∈ T.queue, m.id ≠ x)
    (ho : ∀ e ∈ s.orphans, ∀ m ∈ e.2, m.id ≠ x) :
    AbsentL (modChan s t c f).topics s.orphans t c x := by
  refine ⟨?_, ho⟩
  intro T' hT' hn'
  unfold modChan modTopic at hT'
  obtain ⟨T, hT, rfl⟩ := List.mem_map.mp hT'
  by_cases hx : T.name == t
  · simp only [hx, if_true] at hn' ⊢
    refine ⟨hq T hT (eq_of_beq hx), ?_⟩
    intro C' hC' hcn
    unfold Topic.modChan at hC'
    obtain ⟨C, hC, rfl⟩ := List.mem_map.mp hC'
    by_cases hc : C.name == c
    · simp only [hc, if_true]
      rw [hf]; intro m hm; cases hm
    · simp only [hc] at hcn
      exact absurd hcn (by simpa using hc)
  · simp only [hx] at hn'
    exact absurd hn' (by simpa using hx)


end Nsq.Proofs.Life
