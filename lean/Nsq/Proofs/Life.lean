import Nsq.Model.Life
/-
Helper lemmas for the atomic life-cycle model (C08, C05): lookups after updates.
-/
namespace Nsq.Proofs.Life
open Nsq.Model.Life

theorem find_map_if {α} (l : List α) (p : α → Bool) (f : α → α) (hf : ∀ a, p (f a) = p a) :
    (l.map (fun a => if p a then f a else a)).find? p = (l.find? p).map f := by
  induction l with
  | nil => rfl
  | cons a l ih =>
    by_cases h : p a
    · simp [List.find?, h, hf]
    · simp [List.find?, h, ih]

theorem find_filter_not {α} (l : List α) (p : α → Bool) :
    (l.filter (fun a => !p a)).find? p = none := by
  induction l with
  | nil => rfl
  | cons a l ih =>
    by_cases h : p a
    · simp [List.filter, h, ih]
    · simp [List.filter, h, List.find?, ih]

theorem find_map_pres {α} (l : List α) (q : α → Bool) (g : α → α) (hg : ∀ a, q (g a) = q a) :
    (l.map g).find? q = (l.find? q).map g := by
  induction l with
  | nil => rfl
  | cons a l ih =>
    by_cases h : q a
    · simp [List.find?, h, hg]
    · simp [List.find?, h, hg, ih]

theorem find_append_new {α} (l : List α) (p : α → Bool) (a : α) (h : l.find? p = none) (ha : p a = true) :
    (l ++ [a]).find? p = some a := by
  simp [List.find?_append, h, List.find?, ha]

/-- updating with a name-preserving function -/
theorem getTopic_modTopic (s : St) (t : String) (f : Topic → Topic) (hf : ∀ T, (f T).name = T.name) :
    getTopic (modTopic s t f) t = (getTopic s t).map f := by
  unfold getTopic modTopic
  exact find_map_if s.topics (fun T => T.name == t) f (by intro T; simp [hf])

theorem getChan_modChan_topic (T : Topic) (c : String) (f : Chan → Chan) (hf : ∀ C, (f C).name = C.name) :
    (T.modChan c f).getChan c = (T.getChan c).map f := by
  unfold Topic.getChan Topic.modChan
  exact find_map_if T.chans (fun C => C.name == c) f (by intro C; simp [hf])

theorem modChan_name (T : Topic) (c : String) (f : Chan → Chan) : (T.modChan c f).name = T.name := rfl

theorem getChan_modChan (s : St) (t c : String) (f : Chan → Chan) (hf : ∀ C, (f C).name = C.name) :
    getChan (modChan s t c f) t c = (getChan s t c).map f := by
  unfold getChan modChan
  rw [getTopic_modTopic s t _ (fun T => modChan_name T c f)]
  cases h : getTopic s t with
  | none => rfl
  | some T => simp [getChan_modChan_topic T c f hf]

theorem getTopic_filter_ne (s : St) (t : String) (s' : St)
    (h : s'.topics = s.topics.filter (fun X => X.name != t)) : getTopic s' t = none := by
  unfold getTopic
  rw [h]
  have := find_filter_not s.topics (fun X => X.name == t)
  simpa [bne] using this

theorem getChan_filter_ne (T : Topic) (c : String) :
    ({ T with chans := T.chans.filter (fun X => X.name != c) } : Topic).getChan c = none := by
  unfold Topic.getChan
  have := find_filter_not T.chans (fun X => X.name == c)
  simpa [bne] using this

/-- lookup of any topic after a name-preserving update of topic `t` -/
theorem getTopic_modTopic_any (s : St) (t t' : String) (f : Topic → Topic) (hf : ∀ T, (f T).name = T.name) :
    getTopic (modTopic s t f) t' = (getTopic s t').map (fun T => if T.name == t then f T else T) := by
  unfold getTopic modTopic
  apply find_map_pres
  intro T
  by_cases h : T.name == t <;> simp [h, hf]

theorem getChan_modChan_topic_any (T : Topic) (c c' : String) (f : Chan → Chan) (hf : ∀ C, (f C).name = C.name) :
    (T.modChan c f).getChan c' = (T.getChan c').map (fun C => if C.name == c then f C else C) := by
  unfold Topic.getChan Topic.modChan
  apply find_map_pres
  intro C
  by_cases h : C.name == c <;> simp [h, hf]

theorem getTopic_name {s : St} {t : String} {T : Topic} (h : getTopic s t = some T) : T.name = t := by
  unfold getTopic at h
  have := List.find?_some h
  exact eq_of_beq this

theorem getChan_name {T : Topic} {c : String} {C : Chan} (h : T.getChan c = some C) : C.name = c := by
  unfold Topic.getChan at h
  have := List.find?_some h
  exact eq_of_beq this

theorem getChan_modChan_other (s : St) (t c t' c' : String) (f : Chan → Chan)
    (hf : ∀ C, (f C).name = C.name) (hne : ¬ (t' = t ∧ c' = c)) :
    getChan (modChan s t c f) t' c' = getChan s t' c' := by
  unfold getChan modChan
  rw [getTopic_modTopic_any s t t' _ (fun T => modChan_name T c f)]
  cases hT : getTopic s t' with
  | none => rfl
  | some T =>
    simp only [Option.map]
    by_cases htt : T.name == t
    · simp only [htt, if_true]
      rw [getChan_modChan_topic_any T c c' f hf]
      cases hC : T.getChan c' with
      | none => rfl
      | some C =>
        simp only [Option.map]
        have h1 : T.name = t' := getTopic_name hT
        have h2 : C.name = c' := getChan_name hC
        have h3 : t' = t := by rw [← h1]; exact eq_of_beq htt
        have h4 : ¬ (C.name == c) = true := by
          intro hcc
          exact hne ⟨h3, by rw [← h2]; exact eq_of_beq hcc⟩
        simp [h4]
    · simp [htt]

theorem deleteBegin_name (C : Chan) : (Chan.deleteBegin C).name = C.name := rfl
theorem empty_name (C : Chan) : (Chan.empty C).name = C.name := rfl

theorem mem_removeFiles (fs : List BName) (b : BName) : b ∉ removeFiles fs b := by
  unfold removeFiles
  simp

theorem getChan_some {s : St} {t c : String} {C : Chan} (h : getChan s t c = some C) :
    ∃ T, getTopic s t = some T ∧ T.getChan c = some C := by
  unfold getChan at h
  cases hT : getTopic s t with
  | none => simp [hT] at h
  | some T => exact ⟨T, rfl, by simpa [hT] using h⟩


/-- `DeleteExistingChannel` = `Channel.Delete()` then the unlink from the topic's map -/
def deleteChan (s : St) (t c : String) : St :=
  (step (step s (.deleteChanBegin t c)).1 (.deleteChanUnlink t c)).1

theorem delete_begin_eq (s : St) (t c : String) (C : Chan)
    (h : getChan s t c = some C) (hx : C.exiting = false) :
    (step s (.deleteChanBegin t c)).1 =
      { modChan s t c Chan.deleteBegin with
          closed := s.closed ++ C.clients.map (·.id), files := removeFiles s.files (t, some c) } := by
  simp [step, h, hx]

theorem empty_located (C : Chan) : (Chan.empty C).located = [] := rfl

theorem empty_clients (C : Chan) :
    (Chan.empty C).clients.map (·.id) = C.clients.map (·.id) ∧
    ∀ k ∈ (Chan.empty C).clients, k.inFlight = 0 := by
  constructor
  · simp [Chan.empty, List.map_map, Function.comp_def]
  · intro k hk
    simp [Chan.empty] at hk
    obtain ⟨a, _, rfl⟩ := hk
    rfl


/-- the backend `b` belongs to a durable (non-ephemeral) topic or channel of `s` -/
def DurableOwner (s : St) (b : BName) : Prop :=
  match b.2 with
  | none => ∃ T ∈ s.topics, T.name = b.1 ∧ T.eph = false
  | some c => ∃ T ∈ s.topics, T.name = b.1 ∧ ∃ C ∈ T.chans, C.name = c ∧ C.eph = false

theorem mem_addFile {fs : List BName} {b x : BName} (h : x ∈ addFile fs b) : x ∈ fs ∨ x = b := by
  unfold addFile at h
  by_cases hb : b ∈ fs
  · simp [hb] at h; exact Or.inl h
  · simp [hb] at h; rcases h with h | h
    · exact Or.inr h
    · exact Or.inl h

theorem getTopic_mem {s : St} {t : String} {T : Topic} (h : getTopic s t = some T) : T ∈ s.topics ∧ T.name = t :=
  ⟨List.mem_of_find?_eq_some h, getTopic_name h⟩

theorem getChan_mem {s : St} {t c : String} {C : Chan} (h : getChan s t c = some C) :
    ∃ T ∈ s.topics, T.name = t ∧ C ∈ T.chans ∧ C.name = c := by
  obtain ⟨T, hT, hC⟩ := getChan_some h
  exact ⟨T, (getTopic_mem hT).1, (getTopic_mem hT).2, List.mem_of_find?_eq_some hC, getChan_name hC⟩

theorem putMessage_eph (cap : Nat) (C : Chan) (m : Msg) :
    (C.putMessage cap m).eph = C.eph ∧ (C.putMessage cap m).name = C.name := by
  unfold Chan.putMessage Chan.put
  by_cases h1 : C.exiting <;> by_cases h2 : C.memLen < cap <;> by_cases h3 : C.eph <;> simp [h1, h2, h3]

theorem foldl_files_mem (t : String) (cap : Nat) (cs : List Chan) : ∀ (fs : List BName) (x : BName),
    x ∈ cs.foldl (fun acc C => if !C.exiting && C.putWrites cap then addFile acc (t, some C.name) else acc) fs →
    x ∈ fs ∨ ∃ C ∈ cs, C.eph = false ∧ x = (t, some C.name) := by
  induction cs with
  | nil => intro fs x h; exact Or.inl h
  | cons Y ys ih =>
    intro fs x h
    simp only [List.foldl] at h
    rcases ih _ x h with h1 | ⟨C, hC, he, hx⟩
    · by_cases hw : (!Y.exiting && Y.putWrites cap) = true
      · simp only [hw, if_true] at h1
        rcases mem_addFile h1 with h2 | h2
        · exact Or.inl h2
        · refine Or.inr ⟨Y, List.mem_cons_self, ?_, h2⟩
          simp [Chan.putWrites] at hw
          exact hw.2.2
      · simp only [hw] at h1
        exact Or.inl h1
    · exact Or.inr ⟨C, List.mem_cons_of_mem _ hC, he, hx⟩

/-- files written by a fan-out belong to durable channels of the topic -/
theorem fanoutFiles_mem (t : String) (cap : Nat) (ms : List Msg) : ∀ (cs : List Chan) (fs : List BName) (x : BName),
    x ∈ fanoutFiles cap t cs ms fs →
    x ∈ fs ∨ ∃ C ∈ cs, C.eph = false ∧ x = (t, some C.name) := by
  induction ms with
  | nil => intro cs fs x h; exact Or.inl h
  | cons m ms ih =>
    intro cs fs x h
    simp only [fanoutFiles] at h
    rcases ih _ _ x h with h1 | ⟨C', hC', he', hx'⟩
    · exact foldl_files_mem t cap cs fs x h1
    · unfold fanout at hC'
      obtain ⟨C, hC, rfl⟩ := List.mem_map.mp hC'
      refine Or.inr ⟨C, hC, ?_, ?_⟩
      · rw [← (putMessage_eph cap C m).1]; exact he'
      · rw [hx', (putMessage_eph cap C m).2]

/-- **files are only ever created for durable owners**: whatever operation runs, a backend that
owns files afterwards either owned files before or belongs to a durable topic/channel of the
state — an ephemeral topic or channel never reaches the disk -/
theorem files_only_for_durable (s : St) (o : Op) (b : BName) (hb : b ∈ (step s o).1.files) :
    b ∈ s.files ∨ DurableOwner s b := by
  cases o with
  | createTopic t e => simp only [step] at hb; split at hb <;> exact Or.inl hb
  | createChan t c e =>
    simp only [step] at hb
    split at hb
    · exact Or.inl hb
    · split at hb <;> exact Or.inl hb
  | deleteTopic t =>
    simp only [step] at hb
    split at hb
    · exact Or.inl hb
    · exact Or.inl (List.mem_filter.mp hb).1
  | deleteChanBegin t c =>
    simp only [step] at hb
    split at hb
    · exact Or.inl hb
    · split at hb
      · exact Or.inl hb
      · exact Or.inl (List.mem_filter.mp hb).1
  | deleteChanUnlink t c =>
    simp only [step] at hb
    split at hb
    · exact Or.inl hb
    · split at hb
      · exact Or.inl hb
      · split at hb
        · exact Or.inl hb
        · split at hb
          · exact Or.inl (List.mem_filter.mp hb).1
          · exact Or.inl hb
  | emptyTopic t =>
    simp only [step] at hb
    split at hb
    · exact Or.inl hb
    · exact Or.inl (List.mem_filter.mp hb).1
  | emptyChan t c =>
    simp only [step] at hb
    split at hb
    · exact Or.inl hb
    · split at hb
      · exact Or.inl hb
      · exact Or.inl (List.mem_filter.mp hb).1
  | pauseTopic t p => simp only [step] at hb; split at hb <;> exact Or.inl hb
  | pauseChan t c p => simp only [step] at hb; split at hb <;> exact Or.inl hb
  | pub t m =>
    simp only [step] at hb
    split at hb
    · exact Or.inl hb
    · rename_i T hT
      have hb' : b ∈ (if T.putWrites s.memCap then addFile s.files (t, none) else s.files) := hb
      by_cases hw : T.putWrites s.memCap = true
      · simp only [hw, if_true] at hb'
        rcases mem_addFile hb' with h | h
        · exact Or.inl h
        · refine Or.inr ?_
          subst h
          simp [Topic.putWrites] at hw
          exact ⟨T, (getTopic_mem hT).1, (getTopic_mem hT).2, hw.2⟩
      · simp only [hw] at hb'
        exact Or.inl hb'
  | pump t =>
    simp only [step] at hb
    split at hb
    · exact Or.inl hb
    · rename_i T hT
      split at hb
      · exact Or.inl hb
      · have hb' : b ∈ fanoutFiles s.memCap t T.chans T.queue s.files := hb
        rcases fanoutFiles_mem t s.memCap T.queue T.chans s.files b hb' with h | ⟨C, hC, he, hx⟩
        · exact Or.inl h
        · subst hx
          exact Or.inr ⟨T, (getTopic_mem hT).1, (getTopic_mem hT).2, C, hC, rfl, he⟩
  | sub t c k =>
    simp only [step] at hb
    repeat' split at hb
    all_goals exact Or.inl hb
  | unsub t c k =>
    simp only [step] at hb
    repeat' split at hb
    all_goals first | exact Or.inl hb | exact Or.inl (List.mem_filter.mp hb).1
  | deliver t c k fm id =>
    simp only [step] at hb
    repeat' split at hb
    all_goals exact Or.inl hb
  | fin t c k id =>
    simp only [step] at hb
    repeat' split at hb
    all_goals exact Or.inl hb
  | req t c k id d =>
    simp only [step] at hb
    split at hb
    · exact Or.inl hb
    · rename_i C hC
      split at hb
      · exact Or.inl hb
      · split at hb
        · exact Or.inl hb
        · have hb' : b ∈ (if C.putWrites s.memCap then addFile s.files (t, some c) else s.files) := hb
          by_cases hw : C.putWrites s.memCap = true
          · simp only [hw, if_true] at hb'
            rcases mem_addFile hb' with h | h
            · exact Or.inl h
            · subst h
              obtain ⟨T, hT, hn, hCm, hcn⟩ := getChan_mem hC
              simp [Chan.putWrites] at hw
              exact Or.inr ⟨T, hT, hn, C, hCm, hcn, hw.2⟩
          · simp only [hw] at hb'
            exact Or.inl hb'
  | release t c id =>
    simp only [step] at hb
    split at hb
    · exact Or.inl hb
    · rename_i C hC
      split at hb
      · exact Or.inl hb
      · have hb' : b ∈ (if C.putWrites s.memCap then addFile s.files (t, some c) else s.files) := hb
        by_cases hw : C.putWrites s.memCap = true
        · simp only [hw, if_true] at hb'
          rcases mem_addFile hb' with h | h
          · exact Or.inl h
          · subst h
            obtain ⟨T, hT, hn, hCm, hcn⟩ := getChan_mem hC
            simp [Chan.putWrites] at hw
            exact Or.inr ⟨T, hT, hn, C, hCm, hcn, hw.2⟩
        · simp only [hw] at hb'
          exact Or.inl hb'


end Nsq.Proofs.Life
