import Nsq.Model.ProtoEnv
import Nsq.Proofs.ProtoV2
import Nsq.Proofs.ProtoSpec
/-!
Helper lemmas for `Nsq.Props.C09Audit` (audit round 7): the protocol model with the consumer limit,
backend faults and the authorization state (`Nsq.Model.ProtoEnv`).
-/
namespace Nsq.Proofs.ProtoEnv
open Nsq.Model.ProtoV2 Nsq.Model.Names Nsq.Model.ProtoEnv Nsq.Model Nsq.Spec.ProtoSpec
open Nsq.Proofs.ProtoV2

/-! ## The base step that accepted a publish / a SUB -/

/-- A base step whose accepted effect is a publish enqueued exactly that publish and answered OK. -/
theorem exec_enq (conf : Conf) (s : ConnState) (b : Broker) (ps : List Bytes) (rest : Bytes)
    (t : Bytes) (ms : List Msg) (h : (exec conf s b ps rest).eff = [.enq t ms]) :
    (exec conf s b ps rest).broker = publish b t ms ∧ (exec conf s b ps rest).reply = some .ok ∧
      (exec conf s b ps rest).ctl = .cont := by
  revert h
  apply exec_cases (fun x => x.eff = [.enq t ms] → x.broker = publish b t ms ∧ x.reply = some .ok ∧ x.ctl = .cont)
  · simp [fatal]
  · simp [done]
  · unfold identify
    repeat' split
    all_goals simp [fatal, done, panicStep]
  · unfold fin
    repeat' split
    all_goals simp [fatal, done, nonfatal]
  · unfold rdy rdySet
    repeat' split
    all_goals simp [fatal, done]
  · unfold req
    repeat' split
    all_goals simp [fatal, done, nonfatal]
  · unfold pub pubBody
    repeat' split
    all_goals first
      | (simp [fatal, done, panicStep]; done)
      | (simp only [done, List.cons.injEq, Effect.enq.injEq, and_true]; rintro ⟨rfl, rfl⟩; first | rfl | trivial | simp)
  · unfold mpub
    repeat' split
    all_goals first
      | (simp [fatal, done, panicStep]; done)
      | (simp only [done, List.cons.injEq, Effect.enq.injEq, and_true]; rintro ⟨rfl, rfl⟩; first | rfl | trivial | simp)
  · unfold dpub pubBody
    repeat' split
    all_goals first
      | (simp [fatal, done, panicStep]; done)
      | (simp only [done, List.cons.injEq, Effect.enq.injEq, and_true]; rintro ⟨rfl, rfl⟩; first | rfl | trivial | simp)
  · unfold touch
    repeat' split
    all_goals simp [fatal, done, nonfatal]
  · unfold sub
    repeat' split
    all_goals simp [fatal, done]
  · unfold cls
    repeat' split
    all_goals simp [fatal, done]
  · unfold auth authStep
    repeat' split
    all_goals simp [fatal, done, panicStep]

/-- A base step whose accepted effect is a SUB answered OK. -/
theorem exec_sub_ok (conf : Conf) (s : ConnState) (b : Broker) (ps : List Bytes) (rest : Bytes)
    (t c : Bytes) (h : (exec conf s b ps rest).eff = [.sub t c]) :
    (exec conf s b ps rest).reply = some .ok := by
  rcases hr : (exec conf s b ps rest).reply with _ | r
  · -- no reply: only RDY/FIN/REQ/TOUCH/NOP, none of which has a SUB effect
    revert h hr
    apply exec_cases (fun x => x.eff = [.sub t c] → x.reply = none → none = some Reply.ok)
    · simp [fatal]
    · simp [done]
    · unfold identify; repeat' split
      all_goals simp [fatal, done, panicStep]
    · unfold fin; repeat' split
      all_goals simp [fatal, done, nonfatal]
    · unfold rdy rdySet; repeat' split
      all_goals simp [fatal, done]
    · unfold req; repeat' split
      all_goals simp [fatal, done, nonfatal]
    · unfold pub pubBody; repeat' split
      all_goals simp [fatal, done, panicStep]
    · unfold mpub; repeat' split
      all_goals simp [fatal, done, panicStep]
    · unfold dpub pubBody; repeat' split
      all_goals simp [fatal, done, panicStep]
    · unfold touch; repeat' split
      all_goals simp [fatal, done, nonfatal]
    · unfold sub; repeat' split
      all_goals simp [fatal, done]
    · unfold cls; repeat' split
      all_goals simp [fatal, done]
    · unfold auth authStep; repeat' split
      all_goals simp [fatal, done, panicStep]
  · cases r with
    | ok => rfl
    | err code =>
      have := (exec_err conf s b ps rest code hr).2
      rw [this] at h; simp at h
    | closeWait =>
      revert h hr
      apply exec_cases (fun x => x.eff = [.sub t c] → x.reply = some .closeWait → some Reply.closeWait = some Reply.ok)
      · simp [fatal]
      · simp [done]
      · unfold identify; repeat' split
        all_goals simp [fatal, done, panicStep]
      · unfold fin; repeat' split
        all_goals simp [fatal, done, nonfatal]
      · unfold rdy rdySet; repeat' split
        all_goals simp [fatal, done]
      · unfold req; repeat' split
        all_goals simp [fatal, done, nonfatal]
      · unfold pub pubBody; repeat' split
        all_goals simp [fatal, done, panicStep]
      · unfold mpub; repeat' split
        all_goals simp [fatal, done, panicStep]
      · unfold dpub pubBody; repeat' split
        all_goals simp [fatal, done, panicStep]
      · unfold touch; repeat' split
        all_goals simp [fatal, done, nonfatal]
      · unfold sub; repeat' split
        all_goals simp [fatal, done]
      · unfold cls; repeat' split
        all_goals simp [fatal, done]
      · unfold auth authStep; repeat' split
        all_goals simp [fatal, done, panicStep]
    | json =>
      revert h hr
      apply exec_cases (fun x => x.eff = [.sub t c] → x.reply = some .json → some Reply.json = some Reply.ok)
      · simp [fatal]
      · simp [done]
      · unfold identify; repeat' split
        all_goals simp [fatal, done, panicStep]
      · unfold fin; repeat' split
        all_goals simp [fatal, done, nonfatal]
      · unfold rdy rdySet; repeat' split
        all_goals simp [fatal, done]
      · unfold req; repeat' split
        all_goals simp [fatal, done, nonfatal]
      · unfold pub pubBody; repeat' split
        all_goals simp [fatal, done, panicStep]
      · unfold mpub; repeat' split
        all_goals simp [fatal, done, panicStep]
      · unfold dpub pubBody; repeat' split
        all_goals simp [fatal, done, panicStep]
      · unfold touch; repeat' split
        all_goals simp [fatal, done, nonfatal]
      · unfold sub; repeat' split
        all_goals simp [fatal, done]
      · unfold cls; repeat' split
        all_goals simp [fatal, done]
      · unfold auth authStep; repeat' split
        all_goals simp [fatal, done, panicStep]

theorem tdiv2_pos (c : Int) : 0 < Int.tdiv c 2 ↔ 2 ≤ c := by
  by_cases h : c < 0
  · have e : c = -(-c) := by omega
    rw [e, Int.neg_tdiv, Int.tdiv_eq_ediv_of_nonneg (by omega)]; omega
  · rw [Int.tdiv_eq_ediv_of_nonneg (by omega)]; omega

/-! ## The shape of a step of the extended model -/

/-- The base step of `execX`. -/
abbrev baseStep (xc : XConf) (x : XState) (b : Broker) (ps : List Bytes) (rest : Bytes) : Step :=
  exec (stepConf xc x ps rest) x.conn b ps rest

/-- `execX` is the base step, unless the consumer limit refuses the SUB it accepted or a backend
write of the publish it accepted fails. -/
theorem execX_cases (xc : XConf) (x : XState) (b : Broker) (ps : List Bytes) (rest : Bytes) :
    (∃ t c, (baseStep xc x b ps rest).eff = [.sub t c] ∧ limitHit xc b t c = true ∧
        execX xc x b ps rest = (subRefused x b t c, x)) ∨
    (∃ t ms k, (baseStep xc x b ps rest).eff = [.enq t ms] ∧ x.putsOk = some k ∧ k < ms.length ∧
        execX xc x b ps rest = (pubFailed x b ps t ms k, { x with putsOk := some 0 })) ∨
    ((execX xc x b ps rest).1 = baseStep xc x b ps rest ∧
      (execX xc x b ps rest).2.conn = (baseStep xc x b ps rest).st ∧
      (∀ t c, (baseStep xc x b ps rest).eff = [.sub t c] → limitHit xc b t c = false) ∧
      (∀ t ms k, (baseStep xc x b ps rest).eff = [.enq t ms] → x.putsOk = some k → ms.length ≤ k)) := by
  unfold execX baseStep
  split
  · rename_i t c he
    by_cases hl : limitHit xc b t c = true
    · left; exact ⟨t, c, he, hl, by simp [hl]⟩
    · right; right
      simp only [hl, Bool.false_eq_true, if_false, advance, true_and]
      refine ⟨?_, ?_⟩
      · intro t' c' h; rw [he] at h
        simp only [List.cons.injEq, Effect.sub.injEq, and_true] at h
        obtain ⟨rfl, rfl⟩ := h; simpa using hl
      · intro t' ms k h; rw [he] at h; simp at h
  · rename_i t ms he
    split
    · rename_i hk
      right; right
      simp only [advance, true_and]
      refine ⟨?_, ?_⟩
      · intro t' c' h; rw [he] at h; simp at h
      · intro t' ms' k _ hk'; rw [hk] at hk'; simp at hk'
    · rename_i k hk
      by_cases hlt : k < ms.length
      · right; left; exact ⟨t, ms, k, he, hk, hlt, by simp [hlt]⟩
      · right; right
        simp only [hlt, if_false, advance, true_and]
        refine ⟨?_, ?_⟩
        · intro t' c' h; rw [he] at h; simp at h
        · intro t' ms' k' h hk'
          rw [he] at h
          simp only [List.cons.injEq, Effect.enq.injEq, and_true] at h
          obtain ⟨rfl, rfl⟩ := h
          rw [hk] at hk'; injection hk' with hk'; omega
  · rename_i hns hne
    right; right
    simp only [advance, true_and]
    exact ⟨fun t c h => absurd h (hns t c), fun t ms k h _ => absurd h (hne t ms)⟩

/-- The gate computed from the connection's authorization state answers only what `CheckAuth` can. -/
theorem gate_ok (xc : XConf) (x : XState) (ps : List Bytes) (rest : Bytes) :
    AuthGateOk (stepConf xc x ps rest) := by
  intro code h
  simp only [stepConf, gate] at h
  repeat' split at h
  all_goals simp_all

theorem execX_ctl (xc : XConf) (x : XState) (b : Broker) (ps : List Bytes) (rest : Bytes) :
    (execX xc x b ps rest).1.ctl ≠ .panic := by
  rcases execX_cases xc x b ps rest with ⟨t, c, _, _, h⟩ | ⟨t, ms, k, _, _, _, h⟩ | ⟨h, _⟩
  · rw [h]; simp [subRefused]
  · rw [h]; simp [pubFailed]
  · rw [h]; exact exec_ctl _ _ _ _ _

theorem execX_rest (xc : XConf) (x : XState) (b : Broker) (ps : List Bytes) (rest : Bytes) :
    (execX xc x b ps rest).1.rest.length ≤ rest.length := by
  rcases execX_cases xc x b ps rest with ⟨t, c, _, _, h⟩ | ⟨t, ms, k, _, _, _, h⟩ | ⟨h, _⟩
  · rw [h]; simp [subRefused]
  · rw [h]; simp [pubFailed]
  · rw [h]; exact exec_rest _ _ _ _ _

theorem loopX_fin (xc : XConf) : ∀ (fuel : Nat) (x : XState) (b : Broker) (bs : Bytes),
    bs.length < fuel →
    (loopX xc fuel x b bs).fin = .eof ∨ (loopX xc fuel x b bs).fin = .closed ∨
      (loopX xc fuel x b bs).fin = .upgraded
  | 0, _, _, _, h => by omega
  | fuel + 1, x, b, bs, h => by
    unfold loopX
    split
    · simp
    · simp
    · rename_i l rest hl
      have h1 := readLine_len bs l rest hl
      have h2 := execX_rest xc x b (splitSp l) rest
      have h3 := execX_ctl xc x b (splitSp l) rest
      split
      · simp only [Run.cons]
        exact loopX_fin xc fuel _ _ _ (by omega)
      · simp [Run.stop]
      · simp [Run.stop]
      · rename_i hp
        exact absurd hp h3

theorem loopX_eff (xc : XConf) (P : Effect → Prop)
    (h : ∀ x b ps rest, ∀ e ∈ (execX xc x b ps rest).1.eff, P e) :
    ∀ (fuel : Nat) (x : XState) (b : Broker) (bs : Bytes), ∀ e ∈ (loopX xc fuel x b bs).eff, P e
  | 0, _, _, _ => by simp [loopX]
  | fuel + 1, x, b, bs => by
    unfold loopX
    split
    · simp
    · simp
    · rename_i l rest hl
      split
      · simp only [Run.cons]
        intro e he
        rcases List.mem_append.mp he with he | he
        · exact h _ _ _ _ e he
        · exact loopX_eff xc P h fuel _ _ _ e he
      · simp only [Run.stop]; exact h _ _ _ _
      · simp only [Run.stop]; exact h _ _ _ _
      · simp only [Run.stop]; exact h _ _ _ _

/-- The limits do not mention the gate inputs. -/
theorem effOk_stepConf (xc : XConf) (x : XState) (ps : List Bytes) (rest : Bytes) (e : Effect) :
    EffOk (stepConf xc x ps rest) e ↔ EffOk xc.base e := by
  cases e <;> simp [EffOk, MsgOk, IdentOk, stepConf]

theorem execX_eff (xc : XConf) (x : XState) (b : Broker) (ps : List Bytes) (rest : Bytes) :
    ∀ e ∈ (execX xc x b ps rest).1.eff, EffOk xc.base e := by
  rcases execX_cases xc x b ps rest with ⟨t, c, _, _, h⟩ | ⟨t, ms, k, he, _, hk, h⟩ | ⟨h, _⟩
  · rw [h]; simp [subRefused]
  · rw [h]
    have hb := exec_eff (stepConf xc x ps rest) x.conn b ps rest (.enq t ms) (by rw [he]; simp)
    rw [effOk_stepConf] at hb
    simp only [EffOk] at hb
    obtain ⟨hv, hlen, hcnt, hm⟩ := hb
    simp only [pubFailed]
    by_cases h0 : k = 0
    · simp [h0]
    · simp only [h0, if_false, List.mem_singleton, forall_eq, EffOk]
      have hl : (ms.take k).length = k := by simp; omega
      refine ⟨hv, by omega, ?_, fun m hmm => hm m (List.mem_of_mem_take hmm)⟩
      rcases hcnt with h1 | h1
      · omega
      · right; rw [hl]; omega
  · rw [h]
    intro e he
    exact (effOk_stepConf xc x ps rest e).mp (exec_eff _ _ _ _ _ e he)

/-! ## What of the broker an answer reads -/

/-- A step's answer, effects and next state (everything but the broker). -/
def viewX (r : Step × XState) : (Ctl × Option Reply × ConnState × Bytes × List Effect) × XState := (view r.1, r.2)

theorem execX_view (xc : XConf) (x : XState) (b b' : Broker) (ps : List Bytes) (rest : Bytes)
    (hl : ∀ t c, limitHit xc b t c = limitHit xc b' t c) :
    viewX (execX xc x b ps rest) = viewX (execX xc x b' ps rest) := by
  have hv := exec_view (stepConf xc x ps rest) x.conn b b' ps rest
  simp only [view, Prod.mk.injEq] at hv
  obtain ⟨h1, h2, h3, h4, h5⟩ := hv
  unfold execX
  generalize exec (stepConf xc x ps rest) x.conn b ps rest = X at *
  generalize exec (stepConf xc x ps rest) x.conn b' ps rest = Y at *
  rw [← h5]
  split
  · rename_i t c he
    rw [← hl t c]
    by_cases hh : limitHit xc b t c = true
    · simp [hh, viewX, view, subRefused]
    · simp [hh, viewX, view, advance, h1, h2, h3, h4, h5]
  · rename_i t ms he
    split
    · simp [viewX, view, advance, h1, h2, h3, h4, h5]
    · rename_i k hk
      by_cases hlt : k < ms.length
      · simp [hlt, viewX, view, pubFailed]
      · simp [hlt, viewX, view, advance, h1, h2, h3, h4, h5]
  · simp [viewX, view, advance, h1, h2, h3, h4, h5]

theorem loopX_indep (xc : XConf) (hl : ∀ b t c, limitHit xc b t c = false) :
    ∀ (fuel : Nat) (x : XState) (b b' : Broker) (bs : Bytes),
    rview (loopX xc fuel x b bs) = rview (loopX xc fuel x b' bs)
  | 0, _, _, _, _ => by simp [loopX, rview]
  | fuel + 1, x, b, b', bs => by
    unfold loopX
    split
    · simp [rview]
    · simp [rview]
    · rename_i l rest hln
      have hv := execX_view xc x b b' (splitSp l) rest (fun t c => by rw [hl b, hl b'])
      simp only [viewX, view, Prod.mk.injEq] at hv
      obtain ⟨⟨h1, h2, h3, h4, h5⟩, h6⟩ := hv
      generalize execX xc x b (splitSp l) rest = X at *
      generalize execX xc x b' (splitSp l) rest = Y at *
      rw [← h1]
      cases hx : X.1.ctl
      · simp only [Run.cons, rview]
        have ih := loopX_indep xc hl fuel X.2 X.1.broker Y.1.broker X.1.rest
        simp only [rview, Prod.mk.injEq] at ih
        obtain ⟨i1, i2, i3, i4⟩ := ih
        rw [← h2, ← h4, ← h5, ← h6]
        simp [i1, i2, i3, i4]
      · simp [Run.stop, rview, h2, h3, h5]
      · simp [Run.stop, rview, h2, h3, h5]
      · simp [Run.stop, rview, h2, h3, h5]

end Nsq.Proofs.ProtoEnv
