import Nsq.Model.AuthQuery
/-! Lemmas about the auth request model (`Nsq.Model.AuthQuery`). -/
namespace Nsq.Proofs.AuthQuery
open Nsq.Model.AuthQuery Nsq.Model.HttpApi Nsq.Model.Names Nsq.Model

theorem hexVal_upperHex : ∀ n : Fin 16, hexVal (upperHex n.val) = some n.val := by decide

theorem unreserved_ne (c : UInt8) (h : unreserved c = true) : c ≠ 37 ∧ c ≠ 43 ∧ c ≠ 38 ∧ c ≠ 61 ∧ c ≠ 59 := by
  refine ⟨?_, ?_, ?_, ?_, ?_⟩ <;> (intro e; subst e; simp [unreserved] at h)

theorem toUInt8_div_mod (c : UInt8) : (c.toNat / 16 * 16 + c.toNat % 16).toUInt8 = c := by
  have : c.toNat / 16 * 16 + c.toNat % 16 = c.toNat := by omega
  rw [this]
  exact UInt8.ofNat_toNat

/-- What `url.QueryEscape` writes, `url.QueryUnescape` reads back — for every byte string. -/
theorem unescape_queryEscape : ∀ s : Bytes, unescape (queryEscape s) = some s
  | [] => rfl
  | c :: r => by
    have ih := unescape_queryEscape r
    unfold unescape at ih ⊢
    unfold queryEscape
    by_cases hu : unreserved c = true
    · have hne := unreserved_ne c hu
      simp only [hu, if_true, unescapeGo, hne.1, if_false, ih, hne.2.1]
    · simp only [hu, Bool.false_eq_true, if_false]
      by_cases h32 : c = 32
      · subst h32
        simp [unescapeGo, ih]
      · simp only [h32, if_false]
        have hlt : c.toNat < 256 := c.toNat_lt
        have h1 := hexVal_upperHex ⟨c.toNat / 16, by omega⟩
        have h2 := hexVal_upperHex ⟨c.toNat % 16, by omega⟩
        simp only at h1 h2
        simp only [unescapeGo, if_true, h1, h2, ih, toUInt8_div_mod]

/-- Nothing `QueryEscape` writes is a separator of the query syntax. -/
theorem queryEscape_safe : ∀ (s : Bytes) (c : UInt8), c ∈ queryEscape s → c ≠ 38 ∧ c ≠ 61 ∧ c ≠ 59
  | [], c, h => by simp [queryEscape] at h
  | x :: r, c, h => by
    have ih := queryEscape_safe r c
    unfold queryEscape at h
    by_cases hu : unreserved x = true
    · simp only [hu, if_true, List.mem_cons] at h
      rcases h with rfl | h
      · have := unreserved_ne c hu
        exact ⟨this.2.2.1, this.2.2.2.1, this.2.2.2.2⟩
      · exact ih h
    · simp only [hu, Bool.false_eq_true, if_false] at h
      by_cases h32 : x = 32
      · simp only [h32, if_true, List.mem_cons] at h
        rcases h with rfl | h
        · decide
        · exact ih h
      · simp only [h32, if_false, List.mem_cons] at h
        have hx : ∀ n : Fin 16, upperHex n.val ≠ 38 ∧ upperHex n.val ≠ 61 ∧ upperHex n.val ≠ 59 := by decide
        have hlt : x.toNat < 256 := x.toNat_lt
        rcases h with rfl | rfl | rfl | h
        · decide
        · exact hx ⟨x.toNat / 16, by omega⟩
        · exact hx ⟨x.toNat % 16, by omega⟩
        · exact ih h

/-! ## `splitOn` / `cutEq` on text without separators -/

theorem splitOn_nosep (sep : UInt8) : ∀ a : Bytes, (∀ c ∈ a, c ≠ sep) → splitOn sep a = [a]
  | [], _ => rfl
  | x :: r, h => by
    have hx : x ≠ sep := h x (by simp)
    have ih := splitOn_nosep sep r (fun c hc => h c (by simp [hc]))
    simp [splitOn, hx, ih]

theorem splitOn_append_sep (sep : UInt8) : ∀ (a b : Bytes), (∀ c ∈ a, c ≠ sep) →
    splitOn sep (a ++ sep :: b) = a :: splitOn sep b
  | [], b, _ => by simp [splitOn]
  | x :: r, b, h => by
    have hx : x ≠ sep := h x (by simp)
    have ih := splitOn_append_sep sep r b (fun c hc => h c (by simp [hc]))
    simp [splitOn, hx, ih]

theorem cutEq_append : ∀ (k v : Bytes), (∀ c ∈ k, c ≠ 61) → cutEq (k ++ 61 :: v) = (k, v)
  | [], v, _ => by simp [cutEq]
  | x :: r, v, h => by
    have hx : x ≠ 61 := h x (by simp)
    have ih := cutEq_append r v (fun c hc => h c (by simp [hc]))
    simp [cutEq, hx, ih]

/-- One `key=value` segment as `Values.Encode` writes it. -/
def seg (k v : Bytes) : Bytes := k ++ 61 :: queryEscape v

def KeyOK (k : Bytes) : Prop := k ≠ [] ∧ (∀ c ∈ k, c ≠ 38 ∧ c ≠ 61 ∧ c ≠ 59) ∧ unescape k = some k

theorem seg_mem (k v : Bytes) (hk : KeyOK k) (c : UInt8) (h : c ∈ seg k v) : c ≠ 38 ∧ c ≠ 59 := by
  unfold seg at h
  rcases List.mem_append.mp h with h | h
  · exact ⟨(hk.2.1 c h).1, (hk.2.1 c h).2.2⟩
  · rcases List.mem_cons.mp h with rfl | h
    · decide
    · exact ⟨(queryEscape_safe v c h).1, (queryEscape_safe v c h).2.2⟩

theorem contains_false (a : Bytes) (x : UInt8) (h : ∀ c ∈ a, c ≠ x) : a.contains x = false := by
  cases hc : a.contains x with
  | false => rfl
  | true => exact absurd rfl (h x (by simpa using hc))

theorem parsePairs_seg (k v : Bytes) (hk : KeyOK k) (rest : List Bytes) :
    parsePairs (seg k v :: rest) = (parsePairs rest).map (fun r => (k, v) :: r) := by
  have h59 : (seg k v).contains 59 = false := contains_false _ _ (fun c hc => (seg_mem k v hk c hc).2)
  have hne : (seg k v).isEmpty = false := by
    unfold seg
    cases k with
    | nil => exact absurd rfl hk.1
    | cons _ _ => rfl
  have hcut : cutEq (seg k v) = (k, queryEscape v) := cutEq_append k _ (fun c hc => (hk.2.1 c hc).2.1)
  conv => lhs; unfold parsePairs
  simp only [h59, hne, Bool.false_eq_true, if_false, hcut, hk.2.2, unescape_queryEscape]
  cases parsePairs rest <;> rfl

theorem keys_ok : KeyOK kCommonName ∧ KeyOK kRemoteIP ∧ KeyOK kSecret ∧ KeyOK kTLS := by
  refine ⟨⟨by decide, by decide, by decide⟩, ⟨by decide, by decide, by decide⟩, ⟨by decide, by decide, by decide⟩,
    ⟨by decide, by decide, by decide⟩⟩

/-- **No parameter injection.** Whatever bytes the client's secret, its certificate's common name or
the remote address consist of, the auth server's `url.ParseQuery` recovers exactly the four
parameters nsqd meant to send — a secret such as `x&tls=true&common_name=admin` cannot forge one. -/
theorem parse_encodeQuery (ip cn secret : Bytes) (tls : Bool) :
    parseQuery (encodeQuery ip cn secret tls) =
      some [(kCommonName, cn), (kRemoteIP, ip), (kSecret, secret), (kTLS, tlsText tls)] := by
  obtain ⟨k1, k2, k3, k4⟩ := keys_ok
  have e : encodeQuery ip cn secret tls =
      seg kCommonName cn ++ 38 :: (seg kRemoteIP ip ++ 38 :: (seg kSecret secret ++ 38 :: seg kTLS (tlsText tls))) := by
    simp [encodeQuery, seg, List.append_assoc]
  unfold parseQuery
  rw [e, splitOn_append_sep 38 _ _ (fun c hc => (seg_mem _ _ k1 c hc).1),
    splitOn_append_sep 38 _ _ (fun c hc => (seg_mem _ _ k2 c hc).1),
    splitOn_append_sep 38 _ _ (fun c hc => (seg_mem _ _ k3 c hc).1),
    splitOn_nosep 38 _ (fun c hc => (seg_mem _ _ k4 c hc).1)]
  rw [parsePairs_seg _ _ k1, parsePairs_seg _ _ k2, parsePairs_seg _ _ k3, parsePairs_seg _ _ k4]
  simp [parsePairs]

/-! ## `QueryAnyAuthd` -/

theorem walk_spec (n start : Nat) (ok : Nat → Bool) : ∀ (k i : Nat),
    -- the servers asked are the rotation from `i`, cut after the first acceptable one
    ((walk n start ok k i).1 = (List.range ((walk n start ok k i).1.length)).map (fun j => (i + j + start) % n)) ∧
    (walk n start ok k i).1.length ≤ k ∧
    (∀ r, (walk n start ok k i).2 = some r → ok r = true ∧ (walk n start ok k i).1.getLast? = some r) ∧
    ((walk n start ok k i).2 = none → (walk n start ok k i).1.length = k ∧ ∀ x ∈ (walk n start ok k i).1, ok x = false) ∧
    (∀ x ∈ (walk n start ok k i).1.dropLast, ok x = false)
  | 0, i => by simp [walk]
  | k + 1, i => by
    have ih := walk_spec n start ok k (i + 1)
    unfold walk
    by_cases h : ok ((i + start) % n) = true
    · simp [h]
    · have h' : ok ((i + start) % n) = false := by simpa using h
      simp only [h', Bool.false_eq_true, if_false]
      obtain ⟨h1, h2, h3, h4, h5⟩ := ih
      refine ⟨?_, ?_, ?_, ?_, ?_⟩
      · simp only [List.length_cons, List.range_succ_eq_map, List.map_cons, List.map_map, Nat.add_zero]
        congr 1
        rw [h1]
        simp only [List.length_map, List.length_range, List.map_map]
        apply List.map_congr_left
        intro j _
        simp only [Function.comp]
        congr 1; omega
      · simp only [List.length_cons]; omega
      · intro r hr
        obtain ⟨a, b⟩ := h3 r hr
        refine ⟨a, ?_⟩
        cases hw : (walk n start ok k (i + 1)).1 with
        | nil => rw [hw] at b; simp at b
        | cons y ys => rw [hw] at b; simpa [List.getLast?_cons_cons] using b
      · intro hn
        obtain ⟨a, b⟩ := h4 hn
        refine ⟨by simp [a], ?_⟩
        intro x hx
        rcases List.mem_cons.mp hx with rfl | hx
        · exact h'
        · exact b x hx
      · intro x hx
        cases hw : (walk n start ok k (i + 1)).1 with
        | nil => rw [hw] at hx; simp at hx
        | cons y ys =>
          rw [hw] at hx h5
          simp only [List.dropLast_cons₂, List.mem_cons] at hx
          rcases hx with rfl | hx
          · exact h'
          · exact h5 x hx

/-! ## TTL -/

theorem ttlNs_exact (ttl : Int) (h0 : 0 < ttl) (h1 : ttl ≤ 9223372036) : ttlNs ttl = ttl * 1000000000 := by
  unfold ttlNs wrap64 Int.bmod
  simp only []
  omega

theorem ttlNs_never_late (ttl : Int) (h0 : 0 < ttl) (h1 : ttl < 9223372036854775808) : ttlNs ttl ≤ ttl * 1000000000 := by
  unfold ttlNs wrap64 Int.bmod
  simp only []
  omega

end Nsq.Proofs.AuthQuery
