import Nsq.Proofs.Guid
/-!
# More facts about the message-id model (`Nsq.Model.Guid`)

1. the 16-character hex rendering is ordered like the (non-negative) ids and uses only `0-9a-f`;
2. the three bit fields of an id (timestamp, node, sequence) do not overlap;
3. at most 4096 ids are handed out per pseudo-millisecond.
-/
namespace Nsq.Proofs.GuidExtra
open Nsq.Model.Guid Nsq.Proofs.Guid

/-! ## 1. hex order -/

theorem hexBE_length : ∀ w n, (hexBE w n).length = w := by
  intro w
  induction w with
  | zero => intro n; rfl
  | succ w ih => intro n; simp [hexBE, ih]

theorem hexDigit_strictMono {a b : Nat} (hb : b < 16) (hab : a < b) : hexDigit a < hexDigit b := by
  unfold hexDigit
  have key : ∀ b, b < 16 → ∀ a, a < b →
      (if a < 10 then (48 + a).toUInt8 else (87 + a).toUInt8) <
      (if b < 10 then (48 + b).toUInt8 else (87 + b).toUInt8) := by decide
  exact key b hb a hab

/-- "same-length prefix decides" for the lexicographic order. -/
theorem lex_append_of_length_eq {α : Type} {r : α → α → Prop} {l₁ l₂ : List α} (x y : List α)
    (h : List.Lex r l₁ l₂) (hl : l₁.length = l₂.length) : List.Lex r (l₁ ++ x) (l₂ ++ y) := by
  induction h with
  | nil => simp at hl
  | rel h => exact List.Lex.rel h
  | cons _ ih => exact List.Lex.cons (ih (by simpa using hl))

theorem lt_append_of_length_eq {α : Type} [LT α] {l₁ l₂ : List α} (x y : List α)
    (h : l₁ < l₂) (hl : l₁.length = l₂.length) : l₁ ++ x < l₂ ++ y :=
  List.lex_lt.mp (lex_append_of_length_eq x y (List.lex_lt.mpr h) hl)

theorem hexBE_strictMono (w : Nat) (a b : Nat) (hb : b < 16 ^ w) (hab : a < b) :
    hexBE w a < hexBE w b := by
  induction w generalizing a b with
  | zero => simp at hb; omega
  | succ w ih =>
    simp only [hexBE]
    rw [Nat.pow_succ] at hb
    by_cases hq : a / 16 < b / 16
    · exact lt_append_of_length_eq _ _ (ih _ _ (by omega) hq) (by rw [hexBE_length, hexBE_length])
    · have hq' : a / 16 = b / 16 := by omega
      rw [hq']
      apply List.append_left_lt
      apply List.lex_lt.mp
      exact List.Lex.rel (hexDigit_strictMono (Nat.mod_lt _ (by decide)) (by omega))

/-- Non-negative ids: the hex strings consumers see are ordered like the ids. -/
theorem hex_strictMono (a b : BitVec 64) (ha : 0 ≤ a.toInt) (hab : a.toInt < b.toInt) :
    hex a < hex b := by
  unfold hex
  apply hexBE_strictMono 16 _ _ (by have := b.isLt; omega)
  have h1 := a.isLt
  have h2 := b.isLt
  rw [BitVec.toInt_eq_toNat_cond, BitVec.toInt_eq_toNat_cond] at *
  split at ha <;> split at hab <;> omega

theorem hexDigit_charset {n : Nat} (h : n < 16) :
    (48 ≤ (hexDigit n).toNat ∧ (hexDigit n).toNat ≤ 57) ∨
    (97 ≤ (hexDigit n).toNat ∧ (hexDigit n).toNat ≤ 102) := by
  unfold hexDigit
  have key : ∀ n, n < 16 →
      (48 ≤ (if n < 10 then (48 + n).toUInt8 else (87 + n).toUInt8).toNat ∧
        (if n < 10 then (48 + n).toUInt8 else (87 + n).toUInt8).toNat ≤ 57) ∨
      (97 ≤ (if n < 10 then (48 + n).toUInt8 else (87 + n).toUInt8).toNat ∧
        (if n < 10 then (48 + n).toUInt8 else (87 + n).toUInt8).toNat ≤ 102) := by decide
  exact key n h

theorem hexBE_charset (w n : Nat) : ∀ c ∈ hexBE w n,
    (48 ≤ c.toNat ∧ c.toNat ≤ 57) ∨ (97 ≤ c.toNat ∧ c.toNat ≤ 102) := by
  induction w generalizing n with
  | zero => intro c hc; simp [hexBE] at hc
  | succ w ih =>
    intro c hc
    simp only [hexBE, List.mem_append, List.mem_singleton] at hc
    rcases hc with hc | rfl
    · exact ih _ c hc
    · exact hexDigit_charset (Nat.mod_lt _ (by decide))

/-- Only the characters `0-9` and `a-f` occur. -/
theorem hex_charset (g : BitVec 64) : ∀ c ∈ hex g,
    (48 ≤ c.toNat ∧ c.toNat ≤ 57) ∨ (97 ≤ c.toNat ∧ c.toNat ≤ 102) :=
  hexBE_charset 16 g.toNat

/-! ## 2. the bit fields of an id do not overlap -/

theorem pack_toNat (ts node seq : BitVec 64) (hts : (ts - twepoch).toNat < 2 ^ 41)
    (hn : node.toNat < 1024) (hs : seq.toNat < 4096) :
    (pack ts node seq).toNat = (ts - twepoch).toNat * 2 ^ 22 + node.toNat * 2 ^ 12 + seq.toNat := by
  unfold pack
  generalize ts - twepoch = t at hts ⊢
  rw [BitVec.toNat_or, BitVec.toNat_or, BitVec.toNat_shiftLeft, BitVec.toNat_shiftLeft]
  have e1 : t.toNat <<< 22 % 2 ^ 64 = t.toNat <<< 22 := by
    rw [Nat.shiftLeft_eq]; apply Nat.mod_eq_of_lt; omega
  have e2 : node.toNat <<< 12 % 2 ^ 64 = node.toNat <<< 12 := by
    rw [Nat.shiftLeft_eq]; apply Nat.mod_eq_of_lt; omega
  rw [e1, e2, Nat.or_assoc]
  rw [← Nat.shiftLeft_add_eq_or_of_lt (i := 12) (by omega) node.toNat]
  rw [← Nat.shiftLeft_add_eq_or_of_lt (i := 22) (by rw [Nat.shiftLeft_eq]; omega) t.toNat]
  simp only [Nat.shiftLeft_eq]
  omega

theorem pack_unpack (ts node seq : BitVec 64) (hts : (ts - twepoch).toNat < 2 ^ 41)
    (hn : node.toNat < 1024) (hs : seq.toNat < 4096) :
    0 ≤ (pack ts node seq).toInt ∧
    (pack ts node seq).toNat / 2 ^ 22 = (ts - twepoch).toNat ∧
    (pack ts node seq).toNat / 2 ^ 12 % 1024 = node.toNat ∧
    (pack ts node seq).toNat % 4096 = seq.toNat := by
  have h := pack_toNat ts node seq hts hn hs
  refine ⟨?_, ?_, ?_, ?_⟩
  · rw [BitVec.toInt_eq_toNat_of_lt (by omega)]; omega
  · omega
  · omega
  · omega

theorem pack_injective (ts ts' node node' seq seq' : BitVec 64)
    (hts : (ts - twepoch).toNat < 2 ^ 41) (hn : node.toNat < 1024) (hs : seq.toNat < 4096)
    (hts' : (ts' - twepoch).toNat < 2 ^ 41) (hn' : node'.toNat < 1024) (hs' : seq'.toNat < 4096)
    (h : pack ts node seq = pack ts' node' seq') : ts = ts' ∧ node = node' ∧ seq = seq' := by
  have h1 := pack_unpack ts node seq hts hn hs
  have h2 := pack_unpack ts' node' seq' hts' hn' hs'
  rw [h] at h1
  refine ⟨?_, ?_, ?_⟩
  · have e : (ts - twepoch).toNat = (ts' - twepoch).toNat := by omega
    have e' : ts - twepoch = ts' - twepoch := BitVec.eq_of_toNat_eq e
    have : ts - twepoch + twepoch = ts' - twepoch + twepoch := by rw [e']
    simpa using this
  · exact BitVec.eq_of_toNat_eq (by omega)
  · exact BitVec.eq_of_toNat_eq (by omega)

/-! ## 3. at most 4096 ids per pseudo-millisecond -/

theorem run_nodup (f : St) (clock : List (BitVec 64)) : (run f clock).Nodup := by
  refine List.Pairwise.imp ?_ (run_pairwise f clock)
  intro a b hab heq
  subst heq
  omega

theorem length_le_of_nodup_of_subset {α : Type} [DecidableEq α] :
    ∀ (l m : List α), l.Nodup → (∀ x ∈ l, x ∈ m) → l.length ≤ m.length := by
  intro l
  induction l with
  | nil => intro m _ _; simp
  | cons x l ih =>
    intro m hnd hsub
    obtain ⟨hx, hnd'⟩ := List.nodup_cons.mp hnd
    have hxm : x ∈ m := hsub x (List.mem_cons_self ..)
    have h1 : l.length ≤ (m.erase x).length := by
      apply ih _ hnd'
      intro y hy
      have hne : y ≠ x := by intro e; subst e; exact hx hy
      exact (List.mem_erase_of_ne hne).mpr (hsub y (List.mem_cons_of_mem _ hy))
    rw [List.length_erase_of_mem hxm] at h1
    have : 0 < m.length := List.length_pos_of_mem hxm
    simp only [List.length_cons]
    omega

/-- A successful call returns `pack ts nodeID s` with a 12-bit `s`. -/
theorem newGUID_ok_shape {f : St} {now : BitVec 64} (h : (newGUID f now).2.2 = .none) :
    ∃ s : BitVec 64, (newGUID f now).2.1 = pack (BitVec.sshiftRight now 20) f.nodeID (s &&& 4095#64) := by
  unfold newGUID at h ⊢
  simp only [] at h ⊢
  by_cases h1 : BitVec.slt (BitVec.sshiftRight now 20) f.lastTs = true
  · simp [h1] at h
  · by_cases h2 : (f.lastTs == BitVec.sshiftRight now 20) = true
    · by_cases h3 : ((f.seq + 1#64) &&& 4095#64 == 0#64) = true
      · simp [h1, h2, h3] at h
      · by_cases h4 : BitVec.sle (pack (BitVec.sshiftRight now 20) f.nodeID ((f.seq + 1#64) &&& 4095#64)) f.lastID = true
        · simp [h1, h2, h3, h4] at h
        · simp only [h1, h2, h3, h4, if_false, if_true, Bool.false_eq_true]
          exact ⟨_, rfl⟩
    · by_cases h4 : BitVec.sle (pack (BitVec.sshiftRight now 20) f.nodeID 0#64) f.lastID = true
      · simp [h1, h2, h4] at h
      · simp only [h1, h2, h4, if_false, Bool.false_eq_true]
        exact ⟨0#64, by simp⟩

def slots (ts node : BitVec 64) : List (BitVec 64) :=
  (List.range 4096).map (fun k => pack ts node (BitVec.ofNat 64 k))

theorem mem_slots (ts node s : BitVec 64) : pack ts node (s &&& 4095#64) ∈ slots ts node := by
  unfold slots
  refine List.mem_map.mpr ⟨(s &&& 4095#64).toNat, ?_, ?_⟩
  · rw [List.mem_range, BitVec.toNat_and]
    have : s.toNat &&& (4095#64).toNat ≤ (4095#64).toNat := Nat.and_le_right
    have : (4095#64).toNat = 4095 := by decide
    omega
  · simp

theorem run_mem_slots (f : St) (ts : BitVec 64) (clock : List (BitVec 64))
    (h : ∀ now ∈ clock, BitVec.sshiftRight now 20 = ts) :
    ∀ x ∈ run f clock, x ∈ slots ts f.nodeID := by
  induction clock generalizing f with
  | nil => intro x hx; simp [run] at hx
  | cons now rest ih =>
    intro x hx
    have hnow := h now (List.mem_cons_self ..)
    have hrest : ∀ n ∈ rest, BitVec.sshiftRight n 20 = ts :=
      fun n hn => h n (List.mem_cons_of_mem _ hn)
    have ih' := ih (newGUID f now).1 hrest x
    rw [nodeID_const] at ih'
    unfold run at hx
    simp only [] at hx
    split at hx
    · next hok =>
      rcases List.mem_cons.mp hx with rfl | hx
      · obtain ⟨s, hs⟩ := newGUID_ok_shape hok
        rw [hs, hnow]
        exact mem_slots ts f.nodeID s
      · exact ih' hx
    · exact ih' hx

theorem burst_4096 (f : St) (ts : BitVec 64) (clock : List (BitVec 64))
    (h : ∀ now ∈ clock, BitVec.sshiftRight now 20 = ts) : (run f clock).length ≤ 4096 := by
  have := length_le_of_nodup_of_subset (run f clock) (slots ts f.nodeID) (run_nodup f clock)
    (run_mem_slots f ts clock h)
  simpa [slots] using this

/-- In the steady state of a burst the next call succeeds with the next sequence number. -/
theorem newGUID_next (f : St) (now : BitVec 64)
    (hts : f.lastTs = BitVec.sshiftRight now 20)
    (hid : f.lastID = pack f.lastTs f.nodeID f.seq)
    (hr : (f.lastTs - twepoch).toNat < 2 ^ 41) (hn : f.nodeID.toNat < 1024)
    (hk : f.seq.toNat < 4095) :
    newGUID f now =
      ({ f with seq := f.seq + 1#64, lastID := pack f.lastTs f.nodeID (f.seq + 1#64) },
        pack f.lastTs f.nodeID (f.seq + 1#64), .none) := by
  have e : (f.seq + 1#64) &&& 4095#64 = f.seq + 1#64 := by
    apply BitVec.eq_of_toNat_eq
    rw [BitVec.toNat_and, BitVec.toNat_add]
    have h1 : (4095#64).toNat = 2 ^ 12 - 1 := by decide
    have h2 : (1#64).toNat = 1 := by decide
    rw [h1, h2, Nat.and_two_pow_sub_one_eq_mod]
    omega
  have hs1 : (f.seq + 1#64).toNat = f.seq.toNat + 1 := by
    rw [BitVec.toNat_add]
    have h2 : (1#64).toNat = 1 := by decide
    rw [h2]; omega
  have e0 : ((f.seq + 1#64) == 0#64) = false := by
    apply beq_false_of_ne
    intro h0
    have := congrArg BitVec.toNat h0
    rw [hs1] at this
    simp at this
  have e1 : BitVec.slt f.lastTs f.lastTs = false := by simp [BitVec.slt]
  have e2 : BitVec.sle (pack f.lastTs f.nodeID (f.seq + 1#64)) (pack f.lastTs f.nodeID f.seq) = false := by
    have a := pack_unpack f.lastTs f.nodeID (f.seq + 1#64) hr hn (by omega)
    have b := pack_unpack f.lastTs f.nodeID f.seq hr hn (by omega)
    have a' := pack_toNat f.lastTs f.nodeID (f.seq + 1#64) hr hn (by omega)
    have b' := pack_toNat f.lastTs f.nodeID f.seq hr hn (by omega)
    have ha := BitVec.toInt_eq_toNat_of_lt (x := pack f.lastTs f.nodeID (f.seq + 1#64)) (by omega)
    have hb := BitVec.toInt_eq_toNat_of_lt (x := pack f.lastTs f.nodeID f.seq) (by omega)
    apply Bool.eq_false_iff.mpr
    apply not_sle.mpr
    omega
  unfold newGUID
  simp only [← hts, e, e0, e1, hid, e2, beq_self_eq_true, if_true, Bool.false_eq_true, if_false]

theorem run_replicate_length (now : BitVec 64) (j : Nat) : ∀ (f : St),
    f.lastTs = BitVec.sshiftRight now 20 →
    f.lastID = pack f.lastTs f.nodeID f.seq →
    (f.lastTs - twepoch).toNat < 2 ^ 41 → f.nodeID.toNat < 1024 →
    f.seq.toNat + j ≤ 4095 →
    (run f (List.replicate j now)).length = j := by
  induction j with
  | zero => intro f _ _ _ _ _; rfl
  | succ j ih =>
    intro f hts hid hr hn hj
    have hstep := newGUID_next f now hts hid hr hn (by omega)
    have hs1 : (f.seq + 1#64).toNat = f.seq.toNat + 1 := by
      rw [BitVec.toNat_add]
      have h2 : (1#64).toNat = 1 := by decide
      rw [h2]; omega
    rw [List.replicate_succ]
    unfold run
    simp only [hstep, if_true, List.length_cons, Nat.add_right_cancel_iff]
    exact ih { f with seq := f.seq + 1#64, lastID := pack f.lastTs f.nodeID (f.seq + 1#64) }
      hts rfl hr hn (by simp only []; omega)

/-! ### The bound is tight: 4096 calls in one pseudo-millisecond from a fresh state all succeed -/

def tightSt0 : St := { nodeID := 7#64, seq := 0#64, lastTs := 0#64, lastID := 0#64 }
def tightNow : BitVec 64 := 1700000000000000000#64
def tightSt1 : St :=
  { nodeID := 7#64, seq := 0#64, lastTs := BitVec.sshiftRight tightNow 20,
    lastID := pack (BitVec.sshiftRight tightNow 20) 7#64 0#64 }
/-- the first call in a new pseudo-millisecond succeeds with sequence 0 -/
theorem tight_first : newGUID tightSt0 tightNow =
    (tightSt1, pack (BitVec.sshiftRight tightNow 20) 7#64 0#64, .none) := by decide
theorem tight_ts : (tightSt1.lastTs - twepoch).toNat < 2 ^ 41 := by decide
theorem tight_node : tightSt1.nodeID.toNat < 1024 := by decide
theorem tight_seq : tightSt1.seq.toNat + 4095 ≤ 4095 := by decide
theorem tight_aux (j : Nat) (hj : tightSt1.seq.toNat + j ≤ 4095) :
    (run tightSt0 (List.replicate (j+1) tightNow)).length = j + 1 := by
  rw [List.replicate_succ]
  unfold run
  simp only [tight_first, if_true, List.length_cons, Nat.add_right_cancel_iff]
  exact run_replicate_length tightNow j tightSt1 rfl rfl tight_ts tight_node hj
/-- 4096 successive calls at the same clock reading from a fresh state all return an id
(proved by induction, not by evaluating the run). -/
theorem burst_tight : (run tightSt0 (List.replicate 4096 tightNow)).length = 4096 :=
  tight_aux 4095 tight_seq

end Nsq.Proofs.GuidExtra
