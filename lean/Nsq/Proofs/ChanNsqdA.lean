/-
E2 / C13 — the ATOMIC channel invariant `InvA` lifted to the nsqd level (round 9, audit B18c): every channel of
every topic of every daemon state reachable by atomic API-level operations satisfies `InvA`, hence the client-counter
theorems (`C13.client_counters`, `nonneg`; C03's `inflight_le_rdy`, `deliver_needs_guard`) hold for it — not only for a
standalone channel.
-/
import Nsq.Proofs.ChanNsqd
import Nsq.Proofs.ChanInvA
namespace Nsq.Proofs.ChanNsqdA
open Nsq.Model.Chan Nsq.Model.ChanNsqd Nsq.Proofs.Chan Nsq.Proofs.ChanNsqd

def AInvL (conf : Conf) (l : List Topic) : Prop := ∀ t ∈ l, ∀ nc ∈ t.chans, InvA conf nc.ch

theorem ainvL_updT {conf : Conf} {l : List Topic} (h : AInvL conf l) (t : Nat) (f : Topic → Topic)
    (hf : ∀ y ∈ l, ∀ nc' ∈ (f y).chans, InvA conf nc'.ch) : AInvL conf (updT l t f) := by
  intro x hx nc hnc
  obtain ⟨y, hy, rfl⟩ := mem_updT.1 hx
  by_cases hk : y.tid = t
  · simp only [hk, ↓reduceIte] at hnc; exact hf y hy nc hnc
  · simp only [hk, ↓reduceIte] at hnc; exact h y hy nc hnc

theorem ainvL_ensureTopic {conf : Conf} {s : State} (h : AInvL conf s.topics) (t : Nat) :
    AInvL conf (ensureTopic s t).topics ∧ (ensureTopic s t).conf = s.conf := by
  unfold ensureTopic
  split
  · exact ⟨h, rfl⟩
  · refine ⟨?_, rfl⟩
    intro x hx nc hnc
    rcases List.mem_append.1 hx with hx | hx
    · exact h x hx nc hnc
    · simp only [List.mem_singleton] at hx; subst hx; cases hnc

theorem chanStep_ainv {s : State} (hconf : 0 ≤ s.conf.chan.maxRdy) (h : AInvL s.conf.chan s.topics) (t c : Nat)
    (op : Nsq.Model.Chan.Op) (hat : op.atomic = true) :
    AInvL s.conf.chan (chanStep s t c op).1.topics ∧ (chanStep s t c op).1.conf = s.conf := by
  unfold chanStep
  split
  · exact ⟨h, rfl⟩
  · rename_i tp hft
    split
    · exact ⟨h, rfl⟩
    · rename_i nc0 hfn
      refine ⟨?_, rfl⟩
      have hr : InvA s.conf.chan (Nsq.Model.Chan.step s.conf.chan nc0.ch op).1 :=
        step_invA _ hconf (h tp (findT_some hft).1 nc0 (findN_some hfn).1) op hat
      apply ainvL_updT h
      intro y hy nc' hnc'
      simp only at hnc'
      obtain ⟨nc, hnc, rfl⟩ := mem_updN.1 hnc'
      by_cases hk : nc.cid = c
      · simp only [hk, ↓reduceIte]; exact hr
      · simp only [hk, ↓reduceIte]; exact h y hy nc hnc

theorem reap_ainv {conf : Conf} {l : List Topic} (h : AInvL conf l) (t c : Nat) :
    AInvL conf (updT l t (fun tp => reapEphemeral tp c)) := by
  apply ainvL_updT h
  intro y hy nc' hnc'
  unfold reapEphemeral at hnc'
  split at hnc'
  · split at hnc'
    · exact h y hy nc' (List.mem_filter.1 hnc').1
    · exact h y hy nc' hnc'
  · exact h y hy nc' hnc'

theorem connStep_ainv {s : State} (hconf : 0 ≤ s.conf.chan.maxRdy) (h : AInvL s.conf.chan s.topics) (k : Nat)
    (op : Nsq.Model.Chan.Op) (hat : op.atomic = true) :
    AInvL s.conf.chan (connStep s k op).1.topics ∧ (connStep s k op).1.conf = s.conf := by
  unfold connStep
  split
  · exact ⟨h, rfl⟩
  · rename_i sb hs
    have hc := chanStep_ainv hconf h sb.tid sb.cid op hat
    simp only
    split
    · exact ⟨reap_ainv hc.1 _ _, hc.2⟩
    · exact hc

theorem doCreateChan_ainv {s : State} (h : AInvL s.conf.chan s.topics) (t c : Nat) (eph : Bool) :
    AInvL s.conf.chan (doCreateChan s t c eph).1.topics ∧ (doCreateChan s t c eph).1.conf = s.conf := by
  unfold doCreateChan
  have he := ainvL_ensureTopic h t
  simp only
  split
  · exact he
  · split
    · exact he
    · refine ⟨?_, he.2⟩
      apply ainvL_updT he.1
      intro y hy nc' hnc'
      rcases List.mem_append.1 hnc' with hm | hm
      · exact he.1 y hy nc' hm
      · simp only [List.mem_singleton] at hm; subst hm
        exact invA_init _ _ _

/-- the nsqd-level ops whose channel-level step is atomic (everything but the FIN / pump micro-steps) -/
def chanAtomic : Nsq.Model.ChanNsqd.Op → Bool
  | .finChan .. => false
  | .finClient .. => false
  | .guard .. => false
  | .deliverArmed .. => false
  | _ => true

theorem fanOne_ainv (nconf : NConf) (hconf : 0 ≤ nconf.chan.maxRdy) (pump : List Nat) (m : TMsg) (kept : Bool)
    (pris : List (Nat × Int)) {nc : NChan} (h : InvA nconf.chan nc.ch) : InvA nconf.chan (fanOne nconf pump m kept pris nc).ch := by
  unfold fanOne
  split
  · exact h
  · split
    · split <;> exact step_invA _ hconf h _ rfl
    · exact step_invA _ hconf h _ rfl

/-- **one-step preservation at the nsqd level** (the raw halves of channel creation included) -/
theorem nstep_ainv {s : State} (hconf : 0 ≤ s.conf.chan.maxRdy) (h : AInvL s.conf.chan s.topics)
    (op : Nsq.Model.ChanNsqd.Op) (hat : chanAtomic op = true) :
    AInvL s.conf.chan (Nsq.Model.ChanNsqd.step s op).1.topics ∧ (Nsq.Model.ChanNsqd.step s op).1.conf = s.conf := by
  have pubcase : ∀ (t : Nat) (f : Topic → Topic) (n : Nat), (∀ y, (f y).chans = y.chans) →
      AInvL s.conf.chan (updT (ensureTopic s t).topics t f) := by
    intro t f n hf
    apply ainvL_updT (ainvL_ensureTopic h t).1
    intro y hy nc' hnc'
    rw [hf y] at hnc'
    exact (ainvL_ensureTopic h t).1 y hy nc' hnc'
  cases op with
  | finChan k id => cases hat
  | finClient k => cases hat
  | guard k => cases hat
  | deliverArmed k id now => cases hat
  | createTopic t => exact ainvL_ensureTopic h t
  | createChanRaw t c e =>
    simp only [Nsq.Model.ChanNsqd.step]
    have he := ainvL_ensureTopic h t
    split
    · exact he
    · split
      · exact he
      · refine ⟨?_, he.2⟩
        apply ainvL_updT he.1
        intro y hy nc' hnc'
        rcases List.mem_append.1 hnc' with hm | hm
        · exact he.1 y hy nc' hm
        · simp only [List.mem_singleton] at hm; subst hm
          exact invA_init _ _ _
  | refreshPump t =>
    simp only [Nsq.Model.ChanNsqd.step]
    exact ⟨ainvL_updT h t _ (fun y hy nc' hnc' => h y hy nc' hnc'), trivial⟩
  | createChan t c e => exact doCreateChan_ainv h t c e
  | sub k t c e mt sm =>
    simp only [Nsq.Model.ChanNsqd.step]
    split
    · exact ⟨h, rfl⟩
    · have h1 := doCreateChan_ainv h t c e
      have h2 := chanStep_ainv (s := (doCreateChan s t c e).1) (by rw [h1.2]; exact hconf) (by rw [h1.2]; exact h1.1)
        t c (.addClient k mt sm) rfl
      rw [h1.2] at h2
      split
      · exact ⟨h2.1, h2.2⟩
      · exact h1
  | disconnect k =>
    simp only [Nsq.Model.ChanNsqd.step]
    split
    · exact ⟨h, rfl⟩
    · rename_i sb hs
      have hc := chanStep_ainv hconf h sb.tid sb.cid (.removeClient k) rfl
      exact ⟨reap_ainv hc.1 _ _, hc.2⟩
  | rdy k n =>
    simp only [Nsq.Model.ChanNsqd.step]
    repeat' split
    all_goals first | exact ⟨h, rfl⟩ | exact connStep_ainv hconf h _ _ rfl
  | cls k => exact connStep_ainv hconf h _ _ rfl
  | pub t sz env =>
    simp only [Nsq.Model.ChanNsqd.step]
    exact ⟨pubcase t _ 0 (fun y => by obtain ⟨q, hq, _⟩ := putT_spec y s.nextId sz 0 env; simp [(ensureTopic_nextId s t).1, hq]),
      (ainvL_ensureTopic h t).2⟩
  | dpub t sz d env =>
    simp only [Nsq.Model.ChanNsqd.step]
    exact ⟨pubcase t _ 0 (fun y => by obtain ⟨q, hq, _⟩ := putT_spec y s.nextId sz d env; simp [(ensureTopic_nextId s t).1, hq]),
      (ainvL_ensureTopic h t).2⟩
  | mpub t sizes envs =>
    simp only [Nsq.Model.ChanNsqd.step]
    exact ⟨pubcase t _ 0 (fun y => by obtain ⟨q, el, hq, _⟩ := putMany_spec y s.nextId sizes envs; simp [(ensureTopic_nextId s t).1, hq]),
      (ainvL_ensureTopic h t).2⟩
  | mpubFail t sizes j envs =>
    simp only [Nsq.Model.ChanNsqd.step]
    split
    · exact ainvL_ensureTopic h t
    · exact ⟨pubcase t _ 0 (fun y => by obtain ⟨q, el, hq, _⟩ := putMany_spec y s.nextId (sizes.take j) envs; simp [(ensureTopic_nextId s t).1, hq]),
        (ainvL_ensureTopic h t).2⟩
  | pumpTopic t id kept pris =>
    simp only [Nsq.Model.ChanNsqd.step]
    repeat' split
    all_goals first
      | exact ⟨h, rfl⟩
      | (refine ⟨?_, rfl⟩
         apply ainvL_updT h
         intro y hy nc' hnc'
         obtain ⟨nc, hnc, rfl⟩ := List.mem_map.1 hnc'
         exact fanOne_ainv s.conf hconf _ _ _ _ (h y hy nc hnc))
  | pauseTopic t =>
    simp only [Nsq.Model.ChanNsqd.step]
    split
    · exact ⟨h, rfl⟩
    · exact ⟨ainvL_updT h t _ (fun y hy nc' hnc' => h y hy nc' hnc'), rfl⟩
  | unpauseTopic t =>
    simp only [Nsq.Model.ChanNsqd.step]
    split
    · exact ⟨h, rfl⟩
    · exact ⟨ainvL_updT h t _ (fun y hy nc' hnc' => h y hy nc' hnc'), rfl⟩
  | deliver k id now => exact connStep_ainv hconf h _ _ rfl
  | sampleDrop k id => exact connStep_ainv hconf h _ _ rfl
  | fin k id => exact connStep_ainv hconf h _ _ rfl
  | req k id delay now => exact connStep_ainv hconf h _ _ rfl
  | touch k id now => exact connStep_ainv hconf h _ _ rfl
  | scanInFlight t c time => exact chanStep_ainv hconf h _ _ _ rfl
  | scanDeferred t c time => exact chanStep_ainv hconf h _ _ _ rfl
  | pauseChan t c => exact chanStep_ainv hconf h _ _ _ rfl
  | unpauseChan t c => exact chanStep_ainv hconf h _ _ _ rfl
  | emptyChan t c => exact chanStep_ainv hconf h _ _ _ rfl
  | resplit t c m d => exact chanStep_ainv hconf h _ _ _ rfl

theorem nrun_ainv {s : State} (hconf : 0 ≤ s.conf.chan.maxRdy) (h : AInvL s.conf.chan s.topics)
    (ops : List Nsq.Model.ChanNsqd.Op) (hat : ∀ op ∈ ops, chanAtomic op = true) :
    AInvL s.conf.chan (Nsq.Model.ChanNsqd.run s ops).topics ∧ (Nsq.Model.ChanNsqd.run s ops).conf = s.conf := by
  induction ops generalizing s with
  | nil => exact ⟨h, rfl⟩
  | cons op ops ih =>
    have h1 := nstep_ainv hconf h op (hat op List.mem_cons_self)
    have h2 := ih (s := (Nsq.Model.ChanNsqd.step s op).1) (by rw [h1.2]; exact hconf) (by rw [h1.2]; exact h1.1)
      (fun o ho => hat o (List.mem_cons_of_mem _ ho))
    simp only [Nsq.Model.ChanNsqd.run]
    rw [h1.2] at h2
    exact ⟨h2.1, h2.2⟩

end Nsq.Proofs.ChanNsqdA
