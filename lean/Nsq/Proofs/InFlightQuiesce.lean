import Nsq.Model.InFlight
import Nsq.Proofs.InFlight
import Nsq.Proofs.InFlightHeapMem
import Nsq.Proofs.InFlightEmpty
/-
C08 micro-step model, the tree with F7 + F16 + F48 (`fixed`, `scanAtomic`, `pushAtomic`): an invariant of EVERY
schedule that gives `IndexOK` in every reachable state and `MapHeapAgree` (heap = in-flight map as sets without
duplicates) whenever no operation is in progress.

  ok   : every heap slot's object carries that slot's index
  mp   : every in-flight message has a heap entry             (F48: inserted together; removed heap-first only by the scan,
                                                               which removes the map entry in the same section, F16)
  pm   : a heap entry belongs to an in-flight message or to one an answer (FIN/REQ/TOUCH) has just popped from the map
  own  : every object id has at most ONE owner among: the queue, the in-flight map, the deferred map, an answer /
         timeout scan in progress  (location invariant; ids are unique, C12: `put` is disabled for an id still referred to)
-/
namespace Nsq.Proofs.InFlightQuiesce
open Nsq.Model.InFlight Nsq.Proofs.InFlight

def ownCont : Cont → List Nat
  | .finAfterPop o | .reqAfterPop o _ | .reqAfterRemove o _ | .touchAfterPop o | .touchAfterRemove o
  | .scanAfterPQPop o => [o]
  | _ => []

def owners (cs : List Cont) : List Nat := (cs.map ownCont).flatten

def own (s : St) (o : Nat) : Nat :=
  s.queued.count o + s.map.count o + s.dmap.count o + (owners s.conts).count o

/-- popped from the in-flight map by an answer whose heap removal is still to come -/
def ansCont : Cont → List Nat
  | .finAfterPop o | .reqAfterPop o _ | .touchAfterPop o => [o]
  | _ => []

def answering (cs : List Cont) : List Nat := (cs.map ansCont).flatten

structure QInv (s : St) : Prop where
  ok : IndexOK s.h
  mp : ∀ o ∈ s.map, o ∈ s.h.pq
  pm : ∀ o ∈ s.h.pq, o ∈ s.map ∨ o ∈ answering s.conts
  own : ∀ o, own s o ≤ 1

/-! ### bookkeeping lemmas -/

theorem owners_cons (c : Cont) (cs : List Cont) (x : Nat) :
    (owners (c :: cs)).count x = (ownCont c).count x + (owners cs).count x := by
  simp [owners, List.count_append]

theorem owners_erase {c : Cont} {cs : List Cont} (hc : c ∈ cs) (x : Nat) :
    (owners (cs.erase c)).count x + (ownCont c).count x = (owners cs).count x := by
  induction cs with
  | nil => cases hc
  | cons d ds ih =>
    by_cases hd : d = c
    · subst hd
      rw [List.erase_cons_head, owners_cons]; omega
    · have hc' : c ∈ ds := by
        rcases List.mem_cons.mp hc with h | h
        · exact absurd h.symm hd
        · exact h
      rw [List.erase_cons_tail (by simpa using hd), owners_cons, owners_cons]
      have := ih hc'
      omega

theorem owners_erase_le (c : Cont) (cs : List Cont) (x : Nat) : (owners (cs.erase c)).count x ≤ (owners cs).count x := by
  by_cases hc : c ∈ cs
  · have := owners_erase hc x; omega
  · rw [List.erase_of_not_mem hc]; exact Nat.le_refl _

theorem mem_answering {x : Nat} {cs : List Cont} : x ∈ answering cs ↔ ∃ c ∈ cs, x ∈ ansCont c := by
  simp [answering, List.mem_flatten, List.mem_map]
  constructor
  · rintro ⟨l, ⟨c, hc, rfl⟩, hx⟩; exact ⟨c, hc, hx⟩
  · rintro ⟨c, hc, hx⟩; exact ⟨_, ⟨c, hc, rfl⟩, hx⟩

theorem answering_cons {x : Nat} {c : Cont} {cs : List Cont} : x ∈ answering (c :: cs) ↔ x ∈ ansCont c ∨ x ∈ answering cs := by
  simp [answering]

theorem answering_erase_of {x : Nat} {c : Cont} {cs : List Cont} (h : x ∈ answering cs) (hn : x ∉ ansCont c) :
    x ∈ answering (cs.erase c) := by
  obtain ⟨c', hc', hx⟩ := mem_answering.mp h
  have hne : c' ≠ c := fun e => hn (e ▸ hx)
  exact mem_answering.mpr ⟨c', (List.mem_erase_of_ne hne).mpr hc', hx⟩

theorem ans_sub_own (c : Cont) (x : Nat) (h : x ∈ ansCont c) : x ∈ ownCont c := by
  cases c <;> simp [ansCont, ownCont] at h ⊢ <;> exact h

theorem count_own_of_mem {x : Nat} {c : Cont} {cs : List Cont} (hc : c ∈ cs) (hx : x ∈ ownCont c) :
    1 ≤ (owners cs).count x := by
  have h1 := owners_erase hc x
  have h2 : 1 ≤ (ownCont c).count x := List.count_pos_iff.mpr hx
  omega

theorem count_own_of_answering {x : Nat} {cs : List Cont} (h : x ∈ answering cs) : 1 ≤ (owners cs).count x := by
  obtain ⟨c, hc, hx⟩ := mem_answering.mp h
  exact count_own_of_mem hc (ans_sub_own c x hx)

/-- an owner cont `c` of `x` and an answering cont (a different one, since `x ∉ ansCont c`) : two owners -/
theorem count_own_two {x : Nat} {c : Cont} {cs : List Cont} (hc : c ∈ cs) (hx : x ∈ ownCont c) (hn : x ∉ ansCont c)
    (ha : x ∈ answering cs) : 2 ≤ (owners cs).count x := by
  have h1 := owners_erase hc x
  have h2 : 1 ≤ (ownCont c).count x := List.count_pos_iff.mpr hx
  have h3 := count_own_of_answering (answering_erase_of ha hn)
  omega

theorem owners_sub_contObjs {x : Nat} {cs : List Cont} (h : x ∈ owners cs) : x ∈ contObjs cs := by
  simp only [owners, contObjs, List.mem_flatten, List.mem_map] at h ⊢
  obtain ⟨l, ⟨c, hc, rfl⟩, hx⟩ := h
  refine ⟨contObj c, ⟨c, hc, rfl⟩, ?_⟩
  cases c <;> simp [ownCont, contObj] at hx ⊢ <;> exact hx

theorem count_erase_nat (l : List Nat) (a x : Nat) : (l.erase a).count x = l.count x - if a = x then 1 else 0 := by
  rw [List.count_erase]
  by_cases h : a = x <;> simp [h]

theorem cnt_cons (o x : Nat) (l : List Nat) : (o :: l).count x = l.count x + (if o = x then 1 else 0) := by
  rw [List.count_cons]
  by_cases h : o = x <;> simp [h]

theorem cnt_single (o x : Nat) : [o].count x = if o = x then 1 else 0 := by
  rw [cnt_cons]; simp

/-- counting argument: unfold the owner count on both sides, split on `o = x`, linear arithmetic -/
macro "count_tac" o:term "," x:term : tactic => `(tactic| (
  simp only [own, owners_cons, ownCont, cnt_cons, cnt_single, count_erase_nat, List.count_nil, dropCont] at *
  by_cases e : $o = $x
  · subst e; simp only [↓reduceIte] at *; omega
  · simp only [e, ↓reduceIte] at *; omega))

theorem mem_erase_ne_of_count {l : List Nat} {a y : Nat} (hc : l.count a ≤ 1) (hy : y ∈ l.erase a) : y ∈ l ∧ y ≠ a := by
  refine ⟨List.mem_of_mem_erase hy, ?_⟩
  intro e
  subst e
  have h1 : 1 ≤ (l.erase y).count y := List.count_pos_iff.mpr hy
  rw [count_erase_nat] at h1
  simp at h1
  omega

/-! ### the invariant is preserved by every micro-step of the committed shape -/

theorem qinv_objs (s : St) (objs' : Nat → Obj) (inv : QInv s)
    (hsame : ∀ o ∈ s.h.pq, (objs' o).index = (s.h.objs o).index) :
    IndexOK { s.h with objs := objs' } := indexOK_objs_congr s.h objs' inv.ok hsame

theorem step_qinv (s s' : St) (a : Step) (inv : QInv s) (hpa : s.pushAtomic = true) (hsa : s.scanAtomic = true)
    (h : step true s a = Res.ok s') : QInv s' := by
  have cnt := inv.own
  cases a with
  | finPop c o =>
    simp only [step] at h
    split at h
    · rename_i hm
      cases h
      have hc1 := cnt o
      have hmo : 1 ≤ s.map.count o := List.count_pos_iff.mpr hm.1
      refine ⟨inv.ok, fun o' ho' => inv.mp o' (List.mem_of_mem_erase ho'), ?_, ?_⟩
      · intro y hy
        rcases inv.pm y hy with h1 | h1
        · by_cases e : y = o
          · exact Or.inr (answering_cons.mpr (Or.inl (by simp [ansCont, e])))
          · exact Or.inl ((List.mem_erase_of_ne e).mpr h1)
        · exact Or.inr (answering_cons.mpr (Or.inr h1))
      · intro x
        have := cnt x
        count_tac o, x
    · cases h; exact inv
  | finRemove o =>
    simp only [step, okH] at h
    split at h
    · rename_i hm
      split at h
      · cases h
      · rename_i h' hr
        cases h
        have hmem := removeFromPQ_mem s.h h' o inv.ok hr
        have ho1 := count_own_of_mem hm (show o ∈ ownCont (Cont.finAfterPop o) by simp [ownCont])
        have hnm : o ∉ s.map := by
          intro hmm
          have : 1 ≤ s.map.count o := List.count_pos_iff.mpr hmm
          have := cnt o; simp only [own] at this; omega
        refine ⟨removeFromPQ_indexOK _ _ _ inv.ok hr, ?_, ?_, ?_⟩
        · intro o' ho'
          exact (hmem o').mpr ⟨inv.mp o' ho', fun e => hnm (e ▸ ho')⟩
        · intro y hy
          obtain ⟨hy1, hy2⟩ := (hmem y).mp hy
          rcases inv.pm y hy1 with h1 | h1
          · exact Or.inl h1
          · exact Or.inr (answering_erase_of h1 (by simp [ansCont, hy2]))
        · intro x
          have := cnt x
          have := owners_erase_le (Cont.finAfterPop o) s.conts x
          simp only [own, dropCont] at *
          omega
    · cases h
  | reqPop c o d =>
    simp only [step] at h
    split at h
    · cases h
    · split at h
      · rename_i hm
        cases h
        have hc1 := cnt o
        have hmo : 1 ≤ s.map.count o := List.count_pos_iff.mpr hm.1
        refine ⟨inv.ok, fun o' ho' => inv.mp o' (List.mem_of_mem_erase ho'), ?_, ?_⟩
        · intro y hy
          rcases inv.pm y hy with h1 | h1
          · by_cases e : y = o
            · exact Or.inr (answering_cons.mpr (Or.inl (by simp [ansCont, e])))
            · exact Or.inl ((List.mem_erase_of_ne e).mpr h1)
          · exact Or.inr (answering_cons.mpr (Or.inr h1))
        · intro x
          have := cnt x
          count_tac o, x
      · cases h; exact inv
  | reqRemove o =>
    simp only [step, okH] at h
    split at h
    · rename_i o' d hf
      have hm := Nsq.Proofs.InFlightEmpty.find_req_pop hf
      split at h
      · cases h
      · rename_i h' hr
        cases h
        have hmem := removeFromPQ_mem s.h h' o inv.ok hr
        have ho1 := count_own_of_mem hm (show o ∈ ownCont (Cont.reqAfterPop o d) by simp [ownCont])
        have hnm : o ∉ s.map := by
          intro hmm
          have : 1 ≤ s.map.count o := List.count_pos_iff.mpr hmm
          have := cnt o; simp only [own] at this; omega
        refine ⟨removeFromPQ_indexOK _ _ _ inv.ok hr, ?_, ?_, ?_⟩
        · intro o'' ho'
          exact (hmem o'').mpr ⟨inv.mp o'' ho', fun e => hnm (e ▸ ho')⟩
        · intro y hy
          obtain ⟨hy1, hy2⟩ := (hmem y).mp hy
          rcases inv.pm y hy1 with h1 | h1
          · exact Or.inl h1
          · exact Or.inr (answering_cons.mpr (Or.inr (answering_erase_of h1 (by simp [ansCont, hy2]))))
        · intro x
          have := cnt x
          have := owners_erase hm x
          simp only [own, dropCont, owners_cons, ownCont] at *
          omega
    · cases h
  | reqPut o =>
    simp only [step] at h
    split at h
    · rename_i o' d hf
      have hm := Nsq.Proofs.InFlightEmpty.find_req_remove hf
      have her := fun x => owners_erase hm x
      have hans : ∀ y, y ∈ answering s.conts → y ∈ answering (s.conts.erase (Cont.reqAfterRemove o d)) :=
        fun y hy => answering_erase_of hy (by simp [ansCont])
      split at h
      · cases h
        refine ⟨inv.ok, inv.mp, ?_, ?_⟩
        · intro y hy
          rcases inv.pm y hy with h1 | h1
          · exact Or.inl h1
          · exact Or.inr (hans y h1)
        · intro x
          have := cnt x
          have := her x
          count_tac o, x
      · split at h
        · cases h
          refine ⟨inv.ok, inv.mp, ?_, ?_⟩
          · intro y hy
            rcases inv.pm y hy with h1 | h1
            · exact Or.inl h1
            · exact Or.inr (hans y h1)
          · intro x
            have := cnt x
            have := owners_erase_le (Cont.reqAfterRemove o d) s.conts x
            simp only [own, dropCont] at *
            omega
        · cases h
          refine ⟨inv.ok, inv.mp, ?_, ?_⟩
          · intro y hy
            rcases inv.pm y hy with h1 | h1
            · exact Or.inl h1
            · exact Or.inr (answering_cons.mpr (Or.inr (hans y h1)))
          · intro x
            have := cnt x
            have := her x
            count_tac o, x
    · cases h
  | touchPop c o =>
    simp only [step] at h
    split at h
    · cases h
    · split at h
      · rename_i hm
        cases h
        have hc1 := cnt o
        have hmo : 1 ≤ s.map.count o := List.count_pos_iff.mpr hm.1
        refine ⟨inv.ok, fun o' ho' => inv.mp o' (List.mem_of_mem_erase ho'), ?_, ?_⟩
        · intro y hy
          rcases inv.pm y hy with h1 | h1
          · by_cases e : y = o
            · exact Or.inr (answering_cons.mpr (Or.inl (by simp [ansCont, e])))
            · exact Or.inl ((List.mem_erase_of_ne e).mpr h1)
          · exact Or.inr (answering_cons.mpr (Or.inr h1))
        · intro x
          have := cnt x
          count_tac o, x
      · cases h; exact inv
  | touchRemove o =>
    simp only [step, okH] at h
    split at h
    · rename_i hm
      split at h
      · cases h
      · rename_i h' hr
        cases h
        have hmem := removeFromPQ_mem s.h h' o inv.ok hr
        have ho1 := count_own_of_mem hm (show o ∈ ownCont (Cont.touchAfterPop o) by simp [ownCont])
        have hnm : o ∉ s.map := by
          intro hmm
          have : 1 ≤ s.map.count o := List.count_pos_iff.mpr hmm
          have := cnt o; simp only [own] at this; omega
        refine ⟨removeFromPQ_indexOK _ _ _ inv.ok hr, ?_, ?_, ?_⟩
        · intro o'' ho'
          exact (hmem o'').mpr ⟨inv.mp o'' ho', fun e => hnm (e ▸ ho')⟩
        · intro y hy
          obtain ⟨hy1, hy2⟩ := (hmem y).mp hy
          rcases inv.pm y hy1 with h1 | h1
          · exact Or.inl h1
          · exact Or.inr (answering_cons.mpr (Or.inr (answering_erase_of h1 (by simp [ansCont, hy2]))))
        · intro x
          have := cnt x
          have := owners_erase hm x
          simp only [own, dropCont, owners_cons, ownCont] at *
          omega
    · cases h
  | touchMapPush o p =>
    have okp : IndexOK { s.h with objs := setPri s.h.objs o p } :=
      indexOK_objs_congr s.h _ inv.ok (fun o' _ => by simp only [setPri]; split <;> rfl)
    simp only [step, okH, hpa, if_true] at h
    split at h
    · rename_i hm
      have her := fun x => owners_erase hm x
      have hans : ∀ y, y ∈ answering s.conts → y ∈ answering (s.conts.erase (Cont.touchAfterRemove o)) :=
        fun y hy => answering_erase_of hy (by simp [ansCont])
      split at h
      · cases h
        refine ⟨okp, inv.mp, ?_, ?_⟩
        · intro y hy
          rcases inv.pm y hy with h1 | h1
          · exact Or.inl h1
          · exact Or.inr (hans y h1)
        · intro x
          have := cnt x
          have := owners_erase_le (Cont.touchAfterRemove o) s.conts x
          simp only [own, dropCont] at *
          omega
      · rename_i hnm
        split at h
        · cases h
        · rename_i h' hr
          cases h
          have hno : o ∉ s.h.pq := by
            intro hq
            rcases inv.pm o hq with h1 | h1
            · exact hnm h1
            · have := count_own_two hm (show o ∈ ownCont (Cont.touchAfterRemove o) by simp [ownCont])
                (by simp [ansCont]) h1
              have := cnt o; simp only [own] at this; omega
          have hmem := push_mem _ h' o hr
          refine ⟨push_indexOK _ _ _ okp hno hr, ?_, ?_, ?_⟩
          · intro o' ho'
            rcases List.mem_cons.mp ho' with e | e
            · exact (hmem o').mpr (Or.inl e)
            · exact (hmem o').mpr (Or.inr (inv.mp o' e))
          · intro y hy
            rcases (hmem y).mp hy with e | e
            · exact Or.inl (List.mem_cons.mpr (Or.inl e))
            · rcases inv.pm y e with h1 | h1
              · exact Or.inl (List.mem_cons_of_mem _ h1)
              · exact Or.inr (answering_cons.mpr (Or.inr (hans y h1)))
          · intro x
            have := cnt x
            have := her x
            count_tac o, x
    · cases h
  | touchPQPush o =>
    simp only [step, hpa, if_true] at h
    split at h
    · cases h
      refine ⟨inv.ok, inv.mp, ?_, ?_⟩
      · intro y hy
        rcases inv.pm y hy with h1 | h1
        · exact Or.inl h1
        · exact Or.inr (answering_erase_of h1 (by simp [ansCont]))
      · intro x
        have := cnt x
        have := owners_erase_le (Cont.touchAfterMapPush o) s.conts x
        simp only [own, dropCont] at *
        omega
    · cases h
  | startMapPush c o p =>
    have okp : IndexOK { s.h with objs := setDeliver s.h.objs o c p } :=
      indexOK_objs_congr s.h _ inv.ok (fun o' _ => by simp only [setDeliver]; split <;> rfl)
    simp only [step, okH, hpa, if_true] at h
    split at h
    · rename_i hq
      have hqc : 1 ≤ s.queued.count o := List.count_pos_iff.mpr hq
      split at h
      · cases h
        refine ⟨okp, inv.mp, inv.pm, ?_⟩
        intro x
        have := cnt x
        simp only [own, count_erase_nat] at *
        omega
      · rename_i hnm
        split at h
        · cases h
        · rename_i h' hr
          cases h
          have hno : o ∉ s.h.pq := by
            intro hpq
            rcases inv.pm o hpq with h1 | h1
            · exact hnm h1
            · have := count_own_of_answering h1
              have := cnt o; simp only [own] at this; omega
          have hmem := push_mem _ h' o hr
          refine ⟨push_indexOK _ _ _ okp hno hr, ?_, ?_, ?_⟩
          · intro o' ho'
            rcases List.mem_cons.mp ho' with e | e
            · exact (hmem o').mpr (Or.inl e)
            · exact (hmem o').mpr (Or.inr (inv.mp o' e))
          · intro y hy
            rcases (hmem y).mp hy with e | e
            · exact Or.inl (List.mem_cons.mpr (Or.inl e))
            · rcases inv.pm y e with h1 | h1
              · exact Or.inl (List.mem_cons_of_mem _ h1)
              · exact Or.inr (answering_cons.mpr (Or.inr h1))
          · intro x
            have := cnt x
            count_tac o, x
    · cases h
  | startPQPush o =>
    simp only [step, hpa, if_true] at h
    split at h
    · cases h
      refine ⟨inv.ok, inv.mp, ?_, ?_⟩
      · intro y hy
        rcases inv.pm y hy with h1 | h1
        · exact Or.inl h1
        · exact Or.inr (answering_erase_of h1 (by simp [ansCont]))
      · intro x
        have := cnt x
        have := owners_erase_le (Cont.inflightAfterMapPush o) s.conts x
        simp only [own, dropCont] at *
        omega
    · cases h
  | scanPeek t =>
    simp only [step, hsa, if_true] at h
    split at h
    · cases h
    · rename_i h' hr
      cases h
      rcases peekAndShift_mem s.h t _ inv.ok hr with ⟨_, e⟩ | ⟨o, e, _⟩
      · simp only at e
        exact ⟨by rw [e]; exact inv.ok, by rw [e]; exact inv.mp, by rw [e]; exact inv.pm, inv.own⟩
      · cases e
    · rename_i h' o hr
      rcases peekAndShift_mem s.h t _ inv.ok hr with ⟨e, _⟩ | ⟨o', e, ho, hmem⟩
      · cases e
      · simp only [Option.some.injEq] at e
        subst e
        simp only at hmem
        have hok := peekAndShift_indexOK _ _ _ inv.ok hr
        split at h
        · rename_i hm
          cases h
          have hcm : s.map.count o ≤ 1 := by have := cnt o; simp only [own] at this; omega
          refine ⟨hok, ?_, ?_, ?_⟩
          · intro y hy
            obtain ⟨hy1, hy2⟩ := mem_erase_ne_of_count hcm hy
            exact (hmem y).mpr ⟨inv.mp y hy1, hy2⟩
          · intro y hy
            obtain ⟨hy1, hy2⟩ := (hmem y).mp hy
            rcases inv.pm y hy1 with h1 | h1
            · exact Or.inl ((List.mem_erase_of_ne hy2).mpr h1)
            · exact Or.inr (answering_cons.mpr (Or.inr h1))
          · intro x
            have := cnt x
            have hmo : 1 ≤ s.map.count o := List.count_pos_iff.mpr hm
            count_tac o, x
        · rename_i hnm
          cases h
          refine ⟨hok, ?_, ?_, inv.own⟩
          · intro y hy
            exact (hmem y).mpr ⟨inv.mp y hy, fun e => hnm (e ▸ hy)⟩
          · intro y hy
            exact inv.pm y ((hmem y).mp hy).1
  | scanPop o =>
    simp only [step, hsa, if_true] at h
    split at h
    · rename_i hm
      cases h
      have her := fun x => owners_erase hm.1 x
      refine ⟨inv.ok, inv.mp, ?_, ?_⟩
      · intro y hy
        rcases inv.pm y hy with h1 | h1
        · exact Or.inl h1
        · exact Or.inr (answering_erase_of h1 (by simp [ansCont]))
      · intro x
        have := cnt x
        have := her x
        count_tac o, x
    · cases h
  | emptyResetInflight =>
    simp only [step] at h
    split at h
    · cases h
    · split at h
      · cases h
      · cases h
        refine ⟨(fun i hi => by simp at hi), (fun o ho => by cases ho), (fun o ho => by cases ho), ?_⟩
        intro x
        have := cnt x
        simp only [own, owners_cons, ownCont, List.count_nil] at *
        omega
  | emptyResetDeferred =>
    simp only [step] at h
    split at h
    · cases h
      refine ⟨inv.ok, inv.mp, ?_, ?_⟩
      · intro y hy
        rcases inv.pm y hy with h1 | h1
        · exact Or.inl h1
        · exact Or.inr (answering_cons.mpr (Or.inr (answering_erase_of h1 (by simp [ansCont]))))
      · intro x
        have := cnt x
        have := owners_erase_le Cont.emptyAfterInflightReset s.conts x
        simp only [own, owners_cons, ownCont, List.count_nil, dropCont] at *
        omega
    · cases h
  | emptyRest =>
    simp only [step] at h
    split at h
    · cases h
      refine ⟨inv.ok, inv.mp, ?_, ?_⟩
      · intro y hy
        rcases inv.pm y hy with h1 | h1
        · exact Or.inl h1
        · exact Or.inr (answering_erase_of h1 (by simp [ansCont]))
      · intro x
        have := cnt x
        have := owners_erase_le Cont.emptyAfterInitPQ s.conts x
        simp only [own, List.count_nil, dropCont] at *
        omega
    · cases h
  | deferMapPush o =>
    simp only [step] at h
    split at h
    · rename_i hq
      have hqc : 1 ≤ s.queued.count o := List.count_pos_iff.mpr hq
      split at h
      · cases h
        refine ⟨inv.ok, inv.mp, inv.pm, ?_⟩
        intro x
        have := cnt x
        simp only [own, count_erase_nat] at *
        omega
      · cases h
        refine ⟨inv.ok, inv.mp, ?_, ?_⟩
        · intro y hy
          rcases inv.pm y hy with h1 | h1
          · exact Or.inl h1
          · exact Or.inr (answering_cons.mpr (Or.inr h1))
        · intro x
          have := cnt x
          count_tac o, x
    · cases h
  | deferPQPush o p =>
    simp only [step] at h
    split at h
    · cases h
      refine ⟨inv.ok, inv.mp, ?_, ?_⟩
      · intro y hy
        rcases inv.pm y hy with h1 | h1
        · exact Or.inl h1
        · exact Or.inr (answering_erase_of h1 (by simp [ansCont]))
      · intro x
        have := cnt x
        have := owners_erase_le (Cont.deferAfterMapPush o) s.conts x
        simp only [own, dropCont] at *
        omega
    · split at h
      · cases h
        refine ⟨inv.ok, inv.mp, ?_, ?_⟩
        · intro y hy
          rcases inv.pm y hy with h1 | h1
          · exact Or.inl h1
          · exact Or.inr (answering_erase_of h1 (by simp [ansCont]))
        · intro x
          have := cnt x
          have := owners_erase_le (Cont.reqDeferAfterMapPush o) s.conts x
          simp only [own, dropCont] at *
          omega
      · cases h
  | dscanPeek t =>
    simp only [step] at h
    split at h
    · cases h; exact inv
    · split at h
      · cases h; exact inv
      · cases h
        refine ⟨inv.ok, inv.mp, ?_, ?_⟩
        · intro y hy
          rcases inv.pm y hy with h1 | h1
          · exact Or.inl h1
          · exact Or.inr (answering_cons.mpr (Or.inr h1))
        · intro x
          have := cnt x
          simp only [own, owners_cons, ownCont, List.count_nil] at *
          omega
  | dscanPop o =>
    simp only [step] at h
    split at h
    · split at h
      · rename_i hd
        have hdc : 1 ≤ s.dmap.count o := List.count_pos_iff.mpr hd
        cases h
        refine ⟨inv.ok, inv.mp, ?_, ?_⟩
        · intro y hy
          rcases inv.pm y hy with h1 | h1
          · exact Or.inl h1
          · exact Or.inr (answering_erase_of h1 (by simp [ansCont]))
        · intro x
          have := cnt x
          have := owners_erase_le (Cont.dscanAfterPQPop o) s.conts x
          count_tac o, x
      · cases h
        refine ⟨inv.ok, inv.mp, ?_, ?_⟩
        · intro y hy
          rcases inv.pm y hy with h1 | h1
          · exact Or.inl h1
          · exact Or.inr (answering_erase_of h1 (by simp [ansCont]))
        · intro x
          have := cnt x
          have := owners_erase_le (Cont.dscanAfterPQPop o) s.conts x
          simp only [own, dropCont] at *
          omega
    · cases h
  | reload o =>
    simp only [step] at h
    split at h
    · rename_i hq
      cases h
      refine ⟨?_, inv.mp, inv.pm, inv.own⟩
      apply indexOK_objs_congr s.h _ inv.ok
      intro o' ho'
      have : o' ≠ o := fun e => hq.2 (e ▸ ho')
      simp [freshObj, this]
    · cases h
  | put o =>
    simp only [step] at h
    split at h
    · cases h
    · rename_i hq
      cases h
      refine ⟨?_, inv.mp, inv.pm, ?_⟩
      · apply indexOK_objs_congr s.h _ inv.ok
        intro o' ho'
        have : o' ≠ o := by
          intro e; apply hq; subst e
          exact Or.inr (Or.inr (Or.inr (Or.inl ho')))
        simp [freshObj, this]
      · intro x
        have := cnt x
        have h1 : s.queued.count o = 0 := List.count_eq_zero.mpr (fun hh => hq (Or.inl hh))
        have h2 : s.map.count o = 0 := List.count_eq_zero.mpr (fun hh => hq (Or.inr (Or.inl hh)))
        have h3 : s.dmap.count o = 0 := List.count_eq_zero.mpr (fun hh => hq (Or.inr (Or.inr (Or.inl hh))))
        have h4 : (owners s.conts).count o = 0 :=
          List.count_eq_zero.mpr (fun hh => hq (Or.inr (Or.inr (Or.inr (Or.inr (Or.inr (owners_sub_contObjs hh)))))))
        count_tac o, x

theorem qinv_init (q : List Nat) (hq : q.Nodup) (sa pa al : Bool) :
    QInv { initSt q with scanAtomic := sa, pushAtomic := pa, ansLock := al } := by
  refine ⟨(fun i hi => by simp [initSt] at hi), (fun o ho => by simp [initSt] at ho), (fun o ho => by simp [initSt] at ho), ?_⟩
  intro x
  simp only [own, initSt, owners, List.map_nil, List.flatten_nil, List.count_nil, Nat.add_zero]
  exact List.nodup_iff_count.mp hq x

theorem run_qinv : ∀ (sched : List Step) (s s' : St), QInv s → s.pushAtomic = true → s.scanAtomic = true →
    run true s sched = Res.ok s' → QInv s' := by
  intro sched
  induction sched with
  | nil => intro s s' inv _ _ h; simp only [run] at h; cases h; exact inv
  | cons a as ih =>
    intro s s' inv hpa hsa h
    simp only [run] at h
    cases hs : step true s a with
    | ok s1 =>
      rw [hs] at h
      obtain ⟨p1, p2, _⟩ := Nsq.Proofs.InFlightEmpty.step_params true s s1 a hs
      exact ih s1 s' (step_qinv s s1 a inv hpa hsa hs) (by rw [p2]; exact hpa) (by rw [p1]; exact hsa) h
    | panic => rw [hs] at h; cases h
    | disabled => rw [hs] at h; cases h

/-- at quiescence (no operation in progress) the heap is a permutation of the in-flight map -/
theorem qinv_quiescent (s : St) (inv : QInv s) (hq : s.conts = []) : s.h.pq.Perm s.map := by
  have nd1 := indexOK_nodup inv.ok
  have nd2 : s.map.Nodup := by
    rw [List.nodup_iff_count]
    intro x
    have := inv.own x
    simp only [own] at this
    omega
  rw [List.perm_ext_iff_of_nodup nd1 nd2]
  intro x
  constructor
  · intro hx
    rcases inv.pm x hx with h1 | h1
    · exact h1
    · rw [hq] at h1; simp [answering] at h1
  · exact inv.mp x

end Nsq.Proofs.InFlightQuiesce
