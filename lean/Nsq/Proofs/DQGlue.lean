import Nsq.Props.E9DiskQueue
import Nsq.Model.RestartDQ
import Nsq.Proofs.Wire
import Nsq.Proofs.Restart
/-!
Glue between engine E9 (`Props.E9DiskQueue.diskqueue_law`) and the properties that used to assume
the disk queue (C05 `restart_preserves`, C07 `dq_roundtrip`): helper lemmas for
`Props.C07DQ` and `Props.C05DQ`.  (Imports a `Props` module on purpose: the law itself lives there.)
-/
namespace Nsq.Proofs.DQGlue
open Nsq.Model Nsq.Model.Wire Nsq.Model.DiskQueue Nsq.Proofs.DiskQueue Nsq.Props.E9DiskQueue Nsq.Model.RestartDQ

/-! ### the model-level functions are the law's functions -/

theorem writeAll_eq (cfg : Cfg) (hok : CfgOk cfg) (s0 : St) (l : List Bytes) :
    writeAll s0 l = l.foldl (diskqueue_law cfg hok).put s0 := rfl

theorem drainQ_eq (cfg : Cfg) (hok : CfgOk cfg) : ∀ (n : Nat) (s : St),
    drainQ n s = DQLaw.drain (diskqueue_law cfg hok) n s := by
  intro n
  induction n with
  | zero => intro s; rfl
  | succ n ih =>
    intro s
    show (match (recv s).1 with | some d => d :: drainQ n (recv s).2 | none => []) =
      (match (recv s).1 with | some d => d :: DQLaw.drain (diskqueue_law cfg hok) n (recv s).2 | none => [])
    rw [ih]

/-- flush + `Close` + `New` (possibly with another `maxBytesPerFile` / `syncEvery`): the re-opened
queue holds the old content followed by the flushed records -/
theorem flush_rep (cfg' : Cfg) (hok : CfgOk cfg') (s0 : St) (q l : List Bytes)
    (h : RepFor cfg'.minMsgSize cfg'.maxMsgSize s0 q)
    (hv : ∀ d ∈ l, cfg'.minMsgSize ≤ d.length ∧ d.length ≤ cfg'.maxMsgSize) :
    RepFor cfg'.minMsgSize cfg'.maxMsgSize (openQ cfg' (close (writeAll s0 l)).fs) (q ++ l) :=
  DQLaw.flush_then_restart (diskqueue_law cfg' hok) s0 q l h hv

theorem drain_rep (cfg' : Cfg) (hok : CfgOk cfg') (s : St) (q : List Bytes)
    (h : RepFor cfg'.minMsgSize cfg'.maxMsgSize s q) (n : Nat) (hn : q.length ≤ n) : drainQ n s = q := by
  rw [drainQ_eq cfg' hok]
  exact DQLaw.drain_all (diskqueue_law cfg' hok) q s h n hn

theorem depth_rep {a b : Nat} {s : St} {q : List Bytes} (h : RepFor a b s q) : s.depth.toNat = q.length := by
  rw [depth_Q h.1]; rfl

/-- every `Put` of a flush is accepted -/
theorem writeAll_all_ok (cfg' : Cfg) (hok : CfgOk cfg') : ∀ (l : List Bytes) (s0 : St) (q : List Bytes),
    RepFor cfg'.minMsgSize cfg'.maxMsgSize s0 q →
    (∀ d ∈ l, cfg'.minMsgSize ≤ d.length ∧ d.length ≤ cfg'.maxMsgSize) →
    ∀ (pre : List Bytes) (d : Bytes) (post : List Bytes), l = pre ++ d :: post → (put (writeAll s0 pre) d).1 = .ok := by
  intro l
  induction l with
  | nil => intro s0 q _ _ pre d post e; cases pre <;> cases e
  | cons x l ih =>
    intro s0 q h hv pre d post e
    have hx := hv x (by simp)
    have hput := put_ok_Q h.1 x (by unfold ValidRec; rw [h.2.1, h.2.2]; exact hx)
    cases pre with
    | nil =>
      injection e with e1 e2
      subst e1
      exact hput.1
    | cons y pre =>
      injection e with e1 e2
      subst e1
      have h' : RepFor cfg'.minMsgSize cfg'.maxMsgSize (put s0 x).2 (q ++ [x]) :=
        (diskqueue_law cfg' hok).put_law s0 q x h hx
      exact ih (put s0 x).2 (q ++ [x]) h' (fun d hd => hv d (by simp [hd])) pre d post e2

/-! ### codecs -/

theorem filterMap_dec_enc {μ : Type} {a b : Nat} (K : Codec μ a b) (l : List μ) (h : ∀ m ∈ l, K.ok m) :
    (l.map K.enc).filterMap K.dec = l := by
  induction l with
  | nil => rfl
  | cons m l ih =>
    rw [List.map_cons, List.filterMap_cons, K.dec_enc m (h m (by simp))]
    simp only []
    rw [ih (fun x hx => h x (by simp [hx]))]

theorem decAll_cons {μ : Type} (dec : Bytes → Option μ) (b : Bytes) (bs : List Bytes) :
    decAll dec (b :: bs) = (match dec b, decAll dec bs with
      | some m, some ms => some (m :: ms)
      | _, _ => none) := rfl

theorem decAll_map {μ : Type} (dec : Bytes → Option μ) (enc : μ → Bytes) (l : List μ)
    (h : ∀ m ∈ l, dec (enc m) = some m) : decAll dec (l.map enc) = some l := by
  induction l with
  | nil => rfl
  | cons m l ih =>
    rw [List.map_cons, decAll_cons, h m (by simp), ih (fun x hx => h x (by simp [hx]))]

theorem decAll_dec_enc {μ : Type} {a b : Nat} (K : Codec μ a b) (l : List μ) (h : ∀ m ∈ l, K.ok m) :
    decAll K.dec (l.map K.enc) = some l :=
  decAll_map K.dec K.enc l (fun m hm => K.dec_enc m (h m hm))

theorem enc_valid_all {μ : Type} {a b : Nat} (K : Codec μ a b) (l : List μ) (h : ∀ m ∈ l, K.ok m) :
    ∀ d ∈ l.map K.enc, a ≤ d.length ∧ d.length ≤ b := by
  intro d hd
  obtain ⟨m, hm, rfl⟩ := List.mem_map.mp hd
  exact K.valid m (h m hm)

/-- THE data part of a restart: what was on the disk queue, then what the shutdown flushed, comes
back — every message, in order, identical — from the files alone -/
theorem flush_reload {μ : Type} (cfg' : Cfg) (hok : CfgOk cfg') (K : Codec μ cfg'.minMsgSize cfg'.maxMsgSize)
    (s0 : St) (disk rest : List μ)
    (h0 : RepFor cfg'.minMsgSize cfg'.maxMsgSize s0 (disk.map K.enc))
    (hr : ∀ m ∈ rest, K.ok m) :
    RepFor cfg'.minMsgSize cfg'.maxMsgSize (openQ cfg' (flushTo K s0 rest)) ((disk ++ rest).map K.enc) := by
  rw [List.map_append]
  exact flush_rep cfg' hok s0 _ _ h0 (enc_valid_all K rest hr)

theorem readBack_of_rep {μ : Type} (cfg' : Cfg) (hok : CfgOk cfg') (K : Codec μ cfg'.minMsgSize cfg'.maxMsgSize)
    (fs : FS) (l : List μ) (h : RepFor cfg'.minMsgSize cfg'.maxMsgSize (openQ cfg' fs) (l.map K.enc))
    (hl : ∀ m ∈ l, K.ok m) :
    (∀ n, l.length ≤ n → readBack K cfg' fs n = l) ∧ readAll K cfg' fs = l := by
  have hn : ∀ n, l.length ≤ n → readBack K cfg' fs n = l := by
    intro n hn
    unfold readBack
    rw [drain_rep cfg' hok _ _ h n (by rw [List.length_map]; exact hn)]
    exact filterMap_dec_enc K l hl
  refine ⟨hn, ?_⟩
  unfold readAll
  apply hn
  rw [depth_rep h, List.length_map]
  exact Nat.le_refl _

/-! ### histories from any state that holds `q` -/

/-- `reachable_Q` from an arbitrary starting state (only the record-size bounds of its
configuration must be those of `cfg`) -/
theorem run_rep (cfg : Cfg) (hok : CfgOk cfg) : ∀ (ops : List Op) (s : St) (q : List Bytes),
    RepFor cfg.minMsgSize cfg.maxMsgSize s q →
    RepFor cfg.minMsgSize cfg.maxMsgSize (ops.foldl (stepOp cfg) s) (ops.foldl (specOp cfg) q) := by
  intro ops
  induction ops with
  | nil => intro s q h; exact h
  | cons o ops ih =>
    intro s q h
    simp only [List.foldl_cons]
    apply ih
    cases o with
    | put d =>
      show RepFor _ _ (put s d).2 (if cfg.minMsgSize ≤ d.length ∧ d.length ≤ cfg.maxMsgSize then q ++ [d] else q)
      by_cases hv : cfg.minMsgSize ≤ d.length ∧ d.length ≤ cfg.maxMsgSize
      · rw [if_pos hv]
        exact (diskqueue_law cfg hok).put_law s q d h hv
      · rw [if_neg hv]
        refine ⟨(put_invalid_Q h.1 d (by unfold ValidRec; rw [h.2.1, h.2.2]; exact hv)).2, ?_, ?_⟩
        · rw [put_cfg]; exact h.2.1
        · rw [put_cfg]; exact h.2.2
    | recv =>
      show RepFor _ _ (recv s).2 q.tail
      cases q with
      | nil => rw [recv_none_Q h.1]; exact h
      | cons d q => exact ((diskqueue_law cfg hok).recv_law s q d h).2
    | empty =>
      refine ⟨(empty_Q h.1).2.1, ?_, ?_⟩
      · show (empty s).2.cfg.minMsgSize = _
        unfold empty
        split
        · exact h.2.1
        · simp only []; rw [settle_cfg]; exact h.2.1
      · show (empty s).2.cfg.maxMsgSize = _
        unfold empty
        split
        · exact h.2.2
        · simp only []; rw [settle_cfg]; exact h.2.2
    | reopen => exact (diskqueue_law cfg hok).reopen_law s q h

/-- a history at the level of messages: publish (= `Put` of the encoding), a consumer receive,
`Empty`, `Close` + `New` -/
inductive HOp (μ : Type)
  | pub (m : μ) | recv | empty | reopen

def HOp.toOp {μ : Type} {a b : Nat} (K : Codec μ a b) : HOp μ → Op
  | .pub m => .put (K.enc m)
  | .recv => .recv
  | .empty => .empty
  | .reopen => .reopen

/-- the reference: a plain list of messages -/
def specH {μ : Type} (q : List μ) : HOp μ → List μ
  | .pub m => q ++ [m]
  | .recv => q.tail
  | .empty => []
  | .reopen => q

theorem spec_map {μ : Type} (cfg : Cfg) (K : Codec μ cfg.minMsgSize cfg.maxMsgSize) :
    ∀ (h : List (HOp μ)), (∀ m, HOp.pub m ∈ h → K.ok m) → ∀ (q : List μ),
    (h.map (HOp.toOp K)).foldl (specOp cfg) (q.map K.enc) = (h.foldl specH q).map K.enc := by
  intro h
  induction h with
  | nil => intro _ q; rfl
  | cons o h ih =>
    intro hv q
    simp only [List.map_cons, List.foldl_cons]
    have hv' : ∀ m, HOp.pub m ∈ h → K.ok m := fun m hm => hv m (by simp [hm])
    cases o with
    | pub m =>
      have e : specOp cfg (q.map K.enc) (HOp.toOp K (.pub m)) = (specH q (.pub m)).map K.enc := by
        show (if cfg.minMsgSize ≤ (K.enc m).length ∧ (K.enc m).length ≤ cfg.maxMsgSize then q.map K.enc ++ [K.enc m]
          else q.map K.enc) = (q ++ [m]).map K.enc
        rw [if_pos (K.valid m (hv m (by simp))), List.map_append]; rfl
      rw [e]; exact ih hv' _
    | recv =>
      have e : specOp cfg (q.map K.enc) (HOp.toOp K (.recv : HOp μ)) = (specH q (.recv : HOp μ)).map K.enc := by
        show (q.map K.enc).tail = q.tail.map K.enc
        cases q <;> rfl
      rw [e]; exact ih hv' _
    | empty =>
      have e : specOp cfg (q.map K.enc) (HOp.toOp K (.empty : HOp μ)) = (specH q (.empty : HOp μ)).map K.enc := rfl
      rw [e]; exact ih hv' _
    | reopen =>
      have e : specOp cfg (q.map K.enc) (HOp.toOp K (.reopen : HOp μ)) = (specH q (.reopen : HOp μ)).map K.enc := rfl
      rw [e]; exact ih hv' _

/-- whatever is in the reference list after a history came from the start or from a publish -/
theorem specH_mem {μ : Type} : ∀ (h : List (HOp μ)) (q : List μ) (m : μ),
    m ∈ h.foldl specH q → m ∈ q ∨ HOp.pub m ∈ h := by
  intro h
  induction h with
  | nil => intro q m hm; exact Or.inl hm
  | cons o h ih =>
    intro q m hm
    simp only [List.foldl_cons] at hm
    rcases ih _ m hm with h1 | h1
    · cases o with
      | pub x =>
        rcases List.mem_append.mp h1 with h2 | h2
        · exact Or.inl h2
        · have : m = x := by simpa using h2
          subst this
          exact Or.inr (by simp)
      | recv => exact Or.inl (List.mem_of_mem_tail h1)
      | empty => cases h1
      | reopen => exact Or.inl h1
    · exact Or.inr (by simp [h1])

/-! ### the real wire format as a codec -/

/-- what nsqd passes to `diskqueue.New`: `minValidMsgLength = 26`, `maxMsgSize = --max-msg-size + 26` -/
def nsqdCfg (maxBody maxBytesPerFile syncEvery : Nat) : Cfg :=
  { maxBytesPerFile := maxBytesPerFile, minMsgSize := 26, maxMsgSize := maxBody + 26, syncEvery := syncEvery }

theorem encode_valid (maxBody : Nat) (m : Wire.Msg) (hid : m.id.length = 16) (hb : m.body.length ≤ maxBody) :
    26 ≤ (encode m).length ∧ (encode m).length ≤ maxBody + 26 := by
  rw [Nsq.Proofs.Wire.encode_length m hid]
  omega

/-- `Message.WriteTo` / `decodeMessage` -/
def wireCodec (maxBody : Nat) : Codec Wire.Msg 26 (maxBody + 26) where
  ok := fun m => m.id.length = 16 ∧ m.body.length ≤ maxBody
  enc := encode
  dec := decode
  dec_enc := fun m h => Nsq.Proofs.Wire.decode_encode m h.1
  valid := fun m h => encode_valid maxBody m h.1 h.2

theorem toWire_id_length (m : Life.Msg) : (toWire m).id.length = 16 :=
  Nsq.Proofs.Wire.beBytes_length 16 m.id

theorem ofWire_toWire (maxBody : Nat) (m : Life.Msg) (h : LifeOk maxBody m) : ofWire (toWire m) = m := by
  obtain ⟨h1, h2, h3, h4, _⟩ := h
  have e1 : beVal (beBytes 16 m.id) = m.id := by
    rw [Nsq.Proofs.Wire.beVal_beBytes]; exact Nat.mod_eq_of_lt h1
  have e2 : (BitVec.ofInt 64 m.ts).toInt = m.ts := by
    rw [BitVec.toInt_ofInt, Int.bmod_def]
    have p : (2 : Int) ^ 64 = 18446744073709551616 := by decide
    have p' : ((2 ^ 64 : Nat) : Int) = 18446744073709551616 := by decide
    have q : (2 : Int) ^ 63 = 9223372036854775808 := by decide
    rw [q] at h2 h3
    simp only [p']
    split <;> omega
  have e3 : (BitVec.ofNat 16 m.attempts).toNat = m.attempts := by
    rw [BitVec.toNat_ofNat]; exact Nat.mod_eq_of_lt h4
  show ({ id := beVal (beBytes 16 m.id), ts := (BitVec.ofInt 64 m.ts).toInt,
          attempts := (BitVec.ofNat 16 m.attempts).toNat, body := m.body } : Life.Msg) = m
  rw [e1, e2, e3]

/-- the wire codec on `Life.Msg` (id rendered big-endian on 16 bytes) -/
def lifeCodec (maxBody : Nat) : Codec Life.Msg 26 (maxBody + 26) where
  ok := LifeOk maxBody
  enc := fun m => encode (toWire m)
  dec := fun b => (decode b).map ofWire
  dec_enc := by
    intro m h
    rw [Nsq.Proofs.Wire.decode_encode (toWire m) (toWire_id_length m)]
    show some (ofWire (toWire m)) = some m
    rw [ofWire_toWire maxBody m h]
  valid := fun m h => encode_valid maxBody (toWire m) (toWire_id_length m) h.2.2.2.2

/-! ### `Restart.reload` is `reloadW` at the list lookup -/

theorem reload_topics (memCap : Nat) (p : Nsq.Model.Restart.Persist) :
    (Nsq.Model.Restart.reload memCap p).topics = reloadW (Nsq.Model.Restart.lookupDQ p.dq) p.metadata := rfl

theorem reloadW_congr (look1 look2 : Life.BName → List Life.Msg) (h : ∀ b, look1 b = look2 b)
    (md : List (String × Bool × List (String × Bool))) : reloadW look1 md = reloadW look2 md := by
  have : look1 = look2 := funext h
  rw [this]

theorem lookupDQ_mem (dq : List (Life.BName × List Life.Msg)) (b : Life.BName) (m : Life.Msg)
    (h : m ∈ Nsq.Model.Restart.lookupDQ dq b) : ∃ e ∈ dq, m ∈ e.2 := by
  unfold Nsq.Model.Restart.lookupDQ at h
  split at h
  · rename_i e he
    exact ⟨e, List.mem_of_find?_eq_some he, h⟩
  · cases h

/-- the metadata written by a state that `reloadW` built is the metadata it was built from, whatever
the disk queues handed back -/
theorem persisted_reloadW (cap : Nat) (look : Life.BName → List Life.Msg)
    (md : List (String × Bool × List (String × Bool))) :
    Life.persisted { memCap := cap, topics := reloadW look md } = md := by
  unfold Life.persisted reloadW
  simp only []
  have h1 : (md.map (reloadTopicW look)).filter (fun T => !T.eph) = md.map (reloadTopicW look) := by
    rw [List.filter_eq_self]
    intro T hT
    obtain ⟨e, _, rfl⟩ := List.mem_map.mp hT
    rfl
  rw [h1, List.map_map]
  conv => rhs; rw [← List.map_id md]
  apply List.map_congr_left
  intro e _
  simp only [Function.comp, reloadTopicW, id]
  have h2 : (e.2.2.map (reloadChanW look e.1)).filter (fun C => !C.eph) = e.2.2.map (reloadChanW look e.1) := by
    rw [List.filter_eq_self]
    intro C hC
    obtain ⟨c, _, rfl⟩ := List.mem_map.mp hC
    rfl
  rw [h2, List.map_map]
  have h3 : e.2.2.map ((fun C : Life.Chan => (C.name, C.paused)) ∘ reloadChanW look e.1) = e.2.2 := by
    conv => rhs; rw [← List.map_id e.2.2]
    apply List.map_congr_left
    intro c _
    rfl
  rw [h3]

end Nsq.Proofs.DQGlue
