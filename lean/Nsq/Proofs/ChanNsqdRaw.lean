/-
E2 / C01 — fan-out completeness over runs of `Nsq.Model.ChanNsqd` that INCLUDE the raw halves of channel creation
`createChanRaw | refreshPump` (audit A15 remainder).

`NInv`/`TInv` (Proofs/ChanNsqd) contain `pfresh : pump = chans.map cid` and `fan` keyed on the field `born` (assigned at
the map insert): both are false between the halves. Here a ghost `E tid cid : Option Nat` = value of the id counter when
channel `cid` of topic `tid` ENTERED the pump's snapshot (`refreshPump`, or the atomic `createChan` / `sub`; reset to `none`
by `createChanRaw` of a new channel) accompanies the unchanged `step`, and the weaker invariant `FI` is preserved by
EVERY op (`gstep_fi`), raw halves included.
-/
import Nsq.Proofs.ChanNsqd
namespace Nsq.Proofs.ChanNsqdRaw
open Nsq.Model.Chan Nsq.Model.ChanNsqd Nsq.Proofs.Chan Nsq.Proofs.ChanNsqd

abbrev Gh := Nat → Nat → Option Nat

def setE (E : Gh) (t c : Nat) (v : Option Nat) : Gh := fun t' c' => if t' = t ∧ c' = c then v else E t' c'

/-- does `GetChannel t c` create the channel? (the test `step` itself makes, after `ensureTopic`) -/
def isNew (s : State) (t c : Nat) : Bool :=
  match findT (ensureTopic s t).topics t with
  | some tp => (findN tp.chans c).isNone
  | none => false

def gnext (s : State) (E : Gh) : Nsq.Model.ChanNsqd.Op → Gh
  | .createChanRaw t c _ => if isNew s t c then setE E t c none else E
  | .createChan t c _ => if isNew s t c then setE E t c (some s.nextId) else E
  | .sub k t c _ _ _ => if s.everSub.contains k then E else if isNew s t c then setE E t c (some s.nextId) else E
  | .refreshPump t => fun t' c' => if t' = t then (match E t' c' with | none => some s.nextId | some b => some b) else E t' c'
  | _ => E

def gstep (x : State × Gh) (op : Nsq.Model.ChanNsqd.Op) : State × Gh :=
  ((Nsq.Model.ChanNsqd.step x.1 op).1, gnext x.1 x.2 op)

def grun (x : State × Gh) : List Nsq.Model.ChanNsqd.Op → State × Gh
  | [] => x
  | op :: ops => grun (gstep x op) ops

theorem grun_fst (x : State × Gh) (ops : List Nsq.Model.ChanNsqd.Op) : (grun x ops).1 = Nsq.Model.ChanNsqd.run x.1 ops := by
  induction ops generalizing x with
  | nil => rfl
  | cons op ops ih => simp only [grun, Nsq.Model.ChanNsqd.run]; rw [ih]; rfl

/-! ### the invariant -/

structure FT (n : Nat) (e : Nat → Option Nat) (t : Topic) : Prop where
  chans  : ∀ nc ∈ t.chans, Inv 0 nc.ch
  cnodup : (t.chans.map (·.cid)).Nodup
  vis    : ∀ nc ∈ t.chans, (e nc.cid).isSome = true → t.pump.contains nc.cid = true
  fan    : ∀ nc ∈ t.chans, ∀ b, e nc.cid = some b → ∀ i ∈ t.pumped, b ≤ i → nFanout nc.ch.hist i ≠ 0
  ackq   : ∀ i ∈ t.acked, i ∈ t.queue.map (·.id) ∨ i ∈ t.pumped
  lt     : ∀ i, (i ∈ t.queue.map (·.id) ∨ i ∈ t.pumped) → i < n

structure FI (x : State × Gh) : Prop where
  topics : ∀ t ∈ x.1.topics, FT x.1.nextId (x.2 t.tid) t
  tnodup : (x.1.topics.map (·.tid)).Nodup

theorem FT.mono {n m : Nat} {e : Nat → Option Nat} {t : Topic} (h : FT n e t) (hnm : n ≤ m) : FT m e t :=
  { h with lt := fun i hi => Nat.lt_of_lt_of_le (h.lt i hi) hnm }

theorem fi_init (conf : NConf) (E : Gh) : FI ({ conf := conf }, E) := ⟨by simp, by simp⟩

theorem fi_updT {s : State} {E : Gh} (hi : FI (s, E)) (t : Nat) (f : Topic → Topic) (n : Nat) (E' : Gh)
    (hn : s.nextId ≤ n) (hE : ∀ t', t' ≠ t → E' t' = E t')
    (hf : ∀ y ∈ s.topics, y.tid = t → (f y).tid = y.tid ∧ FT n (E' t) (f y)) (subs : List Sub) (ever : List Nat) :
    FI ({ s with topics := updT s.topics t f, nextId := n, subs := subs, everSub := ever }, E') := by
  refine ⟨?_, ?_⟩
  · intro x hx
    obtain ⟨y, hy, rfl⟩ := mem_updT.1 hx
    by_cases hk : y.tid = t
    · simp only [hk, ↓reduceIte]
      have := hf y hy hk
      rw [this.1, hk]; exact this.2
    · simp only [hk, ↓reduceIte]
      show FT n (E' y.tid) y
      rw [hE _ hk]; exact (hi.topics y hy).mono hn
  · have : (updT s.topics t f).map (·.tid) = s.topics.map (·.tid) := by
      unfold updT
      rw [List.map_map]
      apply List.map_congr_left
      intro y hy
      simp only [Function.comp]
      by_cases hk : y.tid = t
      · simp only [hk, beq_self_eq_true, ↓reduceIte]; rw [← hk]; exact (hf y hy hk).1
      · simp [hk]
    show ((updT s.topics t f).map (·.tid)).Nodup
    rw [this]; exact hi.tnodup

/-- a channel-level step on one channel of a topic, for an operation that is not a fan-out -/
theorem ft_updN {n : Nat} {e : Nat → Option Nat} {t : Topic} (hi : FT n e t) (conf : Conf) (c : Nat) (op : Nsq.Model.Chan.Op)
    (hop : ∀ i e, op ≠ .put i e) (hop2 : ∀ i p e, op ≠ .putDeferred i p e) :
    FT n e { t with chans := updN t.chans c (fun ch => (Nsq.Model.Chan.step conf ch op).1) } := by
  have hmem : ∀ x ∈ updN t.chans c (fun ch => (Nsq.Model.Chan.step conf ch op).1), ∃ y ∈ t.chans, x.cid = y.cid ∧
      Inv 0 x.ch ∧ (∀ i, nFanout x.ch.hist i = nFanout y.ch.hist i) := by
    intro x hx
    obtain ⟨y, hy, rfl⟩ := mem_updN.1 hx
    refine ⟨y, hy, ?_⟩
    by_cases hk : y.cid = c
    · simp only [hk, ↓reduceIte]
      exact ⟨trivial, step_inv conf (hi.chans y hy) op, fun i => nonput_nFanout conf y.ch op i hop hop2⟩
    · simp only [hk, ↓reduceIte]
      exact ⟨trivial, hi.chans y hy, fun _ => trivial⟩
  exact {
    chans := fun x hx => let ⟨_, _, _, h, _⟩ := hmem x hx; h
    cnodup := by simp only [map_cid_updN]; exact hi.cnodup
    vis := by
      intro x hx hs
      obtain ⟨y, hy, hc, _, _⟩ := hmem x hx
      rw [hc] at hs ⊢; exact hi.vis y hy hs
    fan := by
      intro x hx b hb i hip hbi
      obtain ⟨y, hy, hc, _, hf⟩ := hmem x hx
      rw [hf i]; exact hi.fan y hy b (hc ▸ hb) i hip hbi
    ackq := hi.ackq, lt := hi.lt }

theorem fi_chanStep {s : State} {E : Gh} (hi : FI (s, E)) (t c : Nat) (op : Nsq.Model.Chan.Op)
    (hop : ∀ i e, op ≠ .put i e) (hop2 : ∀ i p e, op ≠ .putDeferred i p e) : FI ((chanStep s t c op).1, E) := by
  unfold chanStep
  split
  · exact hi
  · rename_i tp hft
    split
    · exact hi
    · rename_i nc hfn
      obtain ⟨htp, htt⟩ := findT_some hft
      obtain ⟨hnc, hcc⟩ := findN_some hfn
      have h0 := fi_updT hi t (fun tp => { tp with chans := updN tp.chans c (fun ch => (Nsq.Model.Chan.step s.conf.chan ch op).1) })
        s.nextId E (Nat.le_refl _) (fun _ _ => rfl)
        (fun y hy hk => ⟨rfl, hk ▸ ft_updN (hi.topics y hy) s.conf.chan c op hop hop2⟩) s.subs s.everSub
      have heq : updT s.topics t (fun tp => { tp with chans := updN tp.chans c (fun _ => (Nsq.Model.Chan.step s.conf.chan nc.ch op).1) })
          = updT s.topics t (fun tp => { tp with chans := updN tp.chans c (fun ch => (Nsq.Model.Chan.step s.conf.chan ch op).1) }) := by
        unfold updT
        apply List.map_congr_left
        intro y hy
        by_cases hk : y.tid = t
        · have : y = tp := eq_of_tid_eq hi.tnodup hy htp (hk.trans htt.symm)
          subst this
          simp only [hk, beq_self_eq_true, ↓reduceIte]
          congr 1
          unfold updN
          apply List.map_congr_left
          intro z hz
          by_cases hz' : z.cid = c
          · have : z = nc := eq_of_cid_eq (hi.topics y hy).cnodup hz hnc (hz'.trans hcc.symm)
            subst this
            rfl
          · simp [hz']
        · simp [hk]
      simp only
      rw [heq]
      exact h0

theorem fi_subs {s : State} {E : Gh} (hi : FI (s, E)) (subs : List Sub) (ever : List Nat) :
    FI ({ s with subs := subs, everSub := ever }, E) := ⟨hi.topics, hi.tnodup⟩

theorem ft_reap {n : Nat} {e : Nat → Option Nat} {t : Topic} (hi : FT n e t) (c : Nat) : FT n e (reapEphemeral t c) := by
  unfold reapEphemeral
  split
  · split
    · rename_i nc0 hfn _
      have hc0 := (findN_some hfn).2
      exact {
        chans := fun nc hnc => hi.chans nc (List.mem_filter.1 hnc).1
        cnodup := by
          have := hi.cnodup
          rw [List.Nodup] at this ⊢
          rw [List.pairwise_map] at this ⊢
          exact this.filter _
        vis := by
          intro nc hnc hs
          have hm := List.mem_filter.1 hnc
          have := hi.vis nc hm.1 hs
          simp only [List.contains_eq_mem, List.mem_filter, decide_eq_true_eq] at this ⊢
          exact ⟨this, by simpa using hm.2⟩
        fan := fun nc hnc => hi.fan nc (List.mem_filter.1 hnc).1
        ackq := hi.ackq, lt := hi.lt }
    · exact hi
  · exact hi

theorem fi_reap {s : State} {E : Gh} (hi : FI (s, E)) (t c : Nat) (subs : List Sub) :
    FI ({ s with topics := updT s.topics t (fun tp => reapEphemeral tp c), subs := subs }, E) :=
  fi_updT hi t (fun tp => reapEphemeral tp c) s.nextId E (Nat.le_refl _) (fun _ _ => rfl)
    (fun y hy hk => ⟨by unfold reapEphemeral; split <;> (try split) <;> rfl, hk ▸ ft_reap (hi.topics y hy) c⟩) subs s.everSub

theorem fi_connStep {s : State} {E : Gh} (hi : FI (s, E)) (k : Nat) (op : Nsq.Model.Chan.Op)
    (hop : ∀ i e, op ≠ .put i e) (hop2 : ∀ i p e, op ≠ .putDeferred i p e) : FI ((connStep s k op).1, E) := by
  unfold connStep
  split
  · exact hi
  · rename_i sb _
    have h1 := fi_chanStep hi sb.tid sb.cid op hop hop2
    simp only
    split
    · exact fi_reap h1 _ _ _
    · exact h1


/-! ### topics and channels come into being -/

theorem ft_empty (n t memq : Nat) (e : Nat → Option Nat) : FT n e { tid := t, memCap := memq } :=
  { chans := by simp, cnodup := by simp, vis := by simp, fan := by simp, ackq := by simp, lt := by simp }

theorem fi_ensureTopic {s : State} {E : Gh} (hi : FI (s, E)) (t : Nat) : FI (ensureTopic s t, E) := by
  unfold ensureTopic
  split
  · exact hi
  · rename_i hf
    have hfresh := findT_none hf
    refine ⟨?_, ?_⟩
    · intro x hx
      simp only [List.mem_append, List.mem_singleton] at hx
      rcases hx with hx | rfl
      · exact hi.topics x hx
      · exact ft_empty _ _ _ _
    · simp only [List.map_append, List.map_cons, List.map_nil]
      rw [List.nodup_append]
      refine ⟨hi.tnodup, by simp, ?_⟩
      intro a ha b hb
      simp only [List.mem_singleton] at hb
      subst hb
      simp only [List.mem_map] at ha
      obtain ⟨y, hy, rfl⟩ := ha
      exact hfresh y hy

theorem setE_other (E : Gh) (t c : Nat) (v : Option Nat) : ∀ t', t' ≠ t → setE E t c v t' = E t' := by
  intro t' h; funext c'; simp [setE, h]

theorem setE_same_ne (E : Gh) (t c : Nat) (v : Option Nat) {c' : Nat} (h : c' ≠ c) : setE E t c v t c' = E t c' := by
  simp [setE, h]

theorem setE_same (E : Gh) (t c : Nat) (v : Option Nat) : setE E t c v t c = v := by simp [setE]

/-- appending a fresh channel to a topic: `inSnap` says whether the pump's snapshot is refreshed in the same step -/
theorem ft_addChan {n : Nat} {E : Gh} {y : Topic} (hy' : FT n (E y.tid) y) (c : Nat) (ch0 : Chan) (born : Nat)
    (hch : Inv 0 ch0) (hfresh : ∀ z ∈ y.chans, z.cid ≠ c) (inSnap : Bool) :
    FT n (setE E y.tid c (if inSnap then some n else none) y.tid)
      { y with chans := y.chans ++ [(⟨c, born, ch0⟩ : NChan)],
               pump := if inSnap then (y.chans ++ [(⟨c, born, ch0⟩ : NChan)]).map (·.cid) else y.pump } := by
  exact {
    chans := by
      intro nc hnc
      simp only [List.mem_append, List.mem_singleton] at hnc
      rcases hnc with hnc | rfl
      · exact hy'.chans nc hnc
      · exact hch
    cnodup := by
      simp only [List.map_append, List.map_cons, List.map_nil]
      rw [List.nodup_append]
      refine ⟨hy'.cnodup, by simp, ?_⟩
      intro a ha b hb
      simp only [List.mem_singleton] at hb
      subst hb
      simp only [List.mem_map] at ha
      obtain ⟨z, hz, rfl⟩ := ha
      exact hfresh z hz
    vis := by
      intro nc hnc hs
      cases inSnap with
      | true =>
        simp only [if_true, List.contains_eq_mem, decide_eq_true_eq, List.mem_map]
        exact ⟨nc, hnc, rfl⟩
      | false =>
        simp only [Bool.false_eq_true, if_false] at hs ⊢
        simp only [List.mem_append, List.mem_singleton] at hnc
        rcases hnc with hnc | rfl
        · rw [setE_same_ne _ _ _ _ (hfresh nc hnc)] at hs
          exact hy'.vis nc hnc hs
        · rw [setE_same] at hs; cases hs
    fan := by
      intro nc hnc b hb i hip hbi
      simp only [List.mem_append, List.mem_singleton] at hnc
      rcases hnc with hnc | rfl
      · rw [setE_same_ne _ _ _ _ (hfresh nc hnc)] at hb
        exact hy'.fan nc hnc b hb i hip hbi
      · rw [setE_same] at hb
        have := hy'.lt i (Or.inr hip)
        cases inSnap with
        | true => simp only [if_true, Option.some.injEq] at hb; omega
        | false => simp at hb
    ackq := hy'.ackq, lt := hy'.lt }

theorem fi_doCreateChan {s : State} {E : Gh} (hi : FI (s, E)) (t c : Nat) (eph : Bool) :
    FI ((doCreateChan s t c eph).1, if isNew s t c then setE E t c (some s.nextId) else E) := by
  have h1 := fi_ensureTopic hi t
  have hn := (ensureTopic_nextId s t).1
  cases hft : findT (ensureTopic s t).topics t with
  | none => simp only [doCreateChan, isNew, hft]; simpa using h1
  | some tp =>
    cases hfn : findN tp.chans c with
    | some _ => simp only [doCreateChan, isNew, hft, hfn]; simpa using h1
    | none =>
      have hfresh := findN_none hfn
      simp only [doCreateChan, isNew, hft, hfn, Option.isNone_none, if_true]
      refine fi_updT h1 t _ _ _ (Nat.le_refl _) (setE_other E t c _) ?_ _ _
      intro y hy hyt
      obtain ⟨htp, htt⟩ := findT_some hft
      have : y = tp := eq_of_tid_eq h1.tnodup hy htp (hyt.trans htt.symm)
      subst this
      refine ⟨rfl, ?_⟩
      have := ft_addChan (E := E) (h1.topics y hy) c (newChan (ensureTopic s t).conf eph) (ensureTopic s t).nextId (inv_init _ _) hfresh true
      subst hyt
      rw [hn] at this
      simpa [hn] using this

theorem fi_createChanRaw {s : State} {E : Gh} (hi : FI (s, E)) (t c : Nat) (eph : Bool) :
    FI ((Nsq.Model.ChanNsqd.step s (.createChanRaw t c eph)).1, if isNew s t c then setE E t c none else E) := by
  have h1 := fi_ensureTopic hi t
  have hn := (ensureTopic_nextId s t).1
  cases hft : findT (ensureTopic s t).topics t with
  | none => simp only [Nsq.Model.ChanNsqd.step, isNew, hft]; simpa using h1
  | some tp =>
    cases hfn : findN tp.chans c with
    | some _ => simp only [Nsq.Model.ChanNsqd.step, isNew, hft, hfn]; simpa using h1
    | none =>
      have hfresh := findN_none hfn
      simp only [Nsq.Model.ChanNsqd.step, isNew, hft, hfn, Option.isNone_none, if_true]
      refine fi_updT h1 t _ _ _ (Nat.le_refl _) (setE_other E t c _) ?_ _ _
      intro y hy hyt
      obtain ⟨htp, htt⟩ := findT_some hft
      have : y = tp := eq_of_tid_eq h1.tnodup hy htp (hyt.trans htt.symm)
      subst this
      refine ⟨rfl, ?_⟩
      have := ft_addChan (E := E) (h1.topics y hy) c (newChan (ensureTopic s t).conf eph) (ensureTopic s t).nextId (inv_init _ _) hfresh false
      subst hyt
      simpa using this

theorem fi_refreshPump {s : State} {E : Gh} (hi : FI (s, E)) (t : Nat) :
    FI ((Nsq.Model.ChanNsqd.step s (.refreshPump t)).1, gnext s E (.refreshPump t)) := by
  simp only [Nsq.Model.ChanNsqd.step, gnext]
  refine fi_updT hi t _ _ _ (Nat.le_refl _) ?_ ?_ _ _
  · intro t' h; funext c'; simp [h]
  · intro y hy hyt
    have hy' : FT s.nextId (E t) y := by have := hi.topics y hy; rw [hyt] at this; exact this
    refine ⟨rfl, ?_⟩
    exact {
      chans := hy'.chans, cnodup := hy'.cnodup
      vis := by
        intro nc hnc _
        simp only [List.contains_eq_mem, decide_eq_true_eq, List.mem_map]
        exact ⟨nc, hnc, rfl⟩
      fan := by
        intro nc hnc b hb i hip hbi
        simp only [if_true] at hb
        cases he : E t nc.cid with
        | none =>
          simp only [he, Option.some.injEq] at hb
          have := hy'.lt i (Or.inr hip)
          omega
        | some b0 =>
          simp only [he, Option.some.injEq] at hb
          exact hy'.fan nc hnc b (by rw [he, hb]) i hip hbi
      ackq := hy'.ackq, lt := hy'.lt }


/-! ### publishing and fan-out -/

theorem ft_publish {n m : Nat} {e : Nat → Option Nat} {t : Topic} (hi : FT n e t) (ids : List Nat)
    (hids : ∀ i ∈ ids, i < m) (hnm : n ≤ m) (q : List TMsg) (hq : q.map (·.id) = ids ++ t.queue.map (·.id))
    (el : List (Nat × Env)) (mc mb : Nat) (ak uk : List Nat) (hak : ∀ i ∈ ak, i ∈ ids ∨ i ∈ t.acked) :
    FT m e { t with queue := q, envlog := el, msgCount := mc, msgBytes := mb, acked := ak, unacked := uk } :=
  { chans := hi.chans, cnodup := hi.cnodup, vis := hi.vis, fan := hi.fan
    ackq := by
      intro i hia
      simp only [hq, List.mem_append]
      rcases hak i hia with h | h
      · exact Or.inl (Or.inl h)
      · rcases hi.ackq i h with h' | h'
        · exact Or.inl (Or.inr h')
        · exact Or.inr h'
    lt := by
      intro i hiq
      simp only [hq, List.mem_append] at hiq
      rcases hiq with (h | h) | h
      · exact hids i h
      · exact Nat.lt_of_lt_of_le (hi.lt i (Or.inl h)) hnm
      · exact Nat.lt_of_lt_of_le (hi.lt i (Or.inr h)) hnm }

theorem put_rej (conf : Conf) (c : Chan) (id : Nat) (env : Env) (h : nFanout c.hist id ≠ 0) :
    (Nsq.Model.Chan.step conf c (.put id env)).1 = c := by
  simp [Nsq.Model.Chan.step, h]

theorem putDeferred_rej (conf : Conf) (c : Chan) (id : Nat) (pri : Int) (env : Env) (h : nFanout c.hist id ≠ 0) :
    (Nsq.Model.Chan.step conf c (.putDeferred id pri env)).1 = c := by
  simp [Nsq.Model.Chan.step, h]

theorem put_fan (conf : Conf) {c : Chan} (hi : Inv 0 c) (id : Nat) (env : Env) :
    (∀ j, nFanout c.hist j ≠ 0 → nFanout (Nsq.Model.Chan.step conf c (.put id env)).1.hist j ≠ 0) ∧
    nFanout (Nsq.Model.Chan.step conf c (.put id env)).1.hist id ≠ 0 := by
  by_cases hnew : nFanout c.hist id = 0
  · refine ⟨fun j hj => ?_, ?_⟩
    · rw [put_nFanout conf hi id env hnew j]; omega
    · rw [put_nFanout conf hi id env hnew id]; simp
  · rw [put_rej conf c id env hnew]; exact ⟨fun _ h => h, hnew⟩

theorem putDeferred_fan (conf : Conf) {c : Chan} (hi : Inv 0 c) (id : Nat) (pri : Int) (env : Env) :
    (∀ j, nFanout c.hist j ≠ 0 → nFanout (Nsq.Model.Chan.step conf c (.putDeferred id pri env)).1.hist j ≠ 0) ∧
    nFanout (Nsq.Model.Chan.step conf c (.putDeferred id pri env)).1.hist id ≠ 0 := by
  by_cases hnew : nFanout c.hist id = 0
  · refine ⟨fun j hj => ?_, ?_⟩
    · rw [putDeferred_nFanout conf hi id pri env hnew j]; omega
    · rw [putDeferred_nFanout conf hi id pri env hnew id]; simp
  · rw [putDeferred_rej conf c id pri env hnew]; exact ⟨fun _ h => h, hnew⟩

theorem fanOne_fan (conf : NConf) (pump : List Nat) (m : TMsg) (kept : Bool) (pris : List (Nat × Int)) {nc : NChan}
    (hi : Inv 0 nc.ch) :
    (fanOne conf pump m kept pris nc).cid = nc.cid ∧ Inv 0 (fanOne conf pump m kept pris nc).ch ∧
    (∀ j, nFanout nc.ch.hist j ≠ 0 → nFanout (fanOne conf pump m kept pris nc).ch.hist j ≠ 0) ∧
    (pump.contains nc.cid = true → nFanout (fanOne conf pump m kept pris nc).ch.hist m.id ≠ 0) := by
  unfold fanOne
  by_cases hp : pump.contains nc.cid = true
  · simp only [hp, Bool.not_true, Bool.false_eq_true, ↓reduceIte, true_implies]
    split
    · split
      · exact ⟨rfl, step_inv _ hi _, (putDeferred_fan _ hi _ _ _).1, (putDeferred_fan _ hi _ _ _).2⟩
      · exact ⟨rfl, step_inv _ hi _, (putDeferred_fan _ hi _ _ _).1, (putDeferred_fan _ hi _ _ _).2⟩
    · exact ⟨rfl, step_inv _ hi _, (put_fan _ hi _ _).1, (put_fan _ hi _ _).2⟩
  · have hp' : pump.contains nc.cid = false := by simpa using hp
    simp only [hp', Bool.not_false, ↓reduceIte]
    exact ⟨trivial, hi, fun _ h => h, fun h => by cases h⟩

theorem ft_pump {n : Nat} {e : Nat → Option Nat} {t : Topic} (hi : FT n e t) (conf : NConf) {m : TMsg} (hm : m ∈ t.queue)
    (kept : Bool) (pris : List (Nat × Int)) :
    FT n e { t with queue := t.queue.filter (fun x => x.id != m.id),
                    chans := t.chans.map (fanOne conf t.pump m kept pris),
                    pumped := m.id :: t.pumped } := by
  have hspec := fun nc (hnc : nc ∈ t.chans) => fanOne_fan conf t.pump m kept pris (hi.chans nc hnc)
  exact {
    chans := by
      intro x hx
      obtain ⟨nc, hnc, rfl⟩ := List.mem_map.1 hx
      exact (hspec nc hnc).2.1
    cnodup := by
      have : (t.chans.map (fanOne conf t.pump m kept pris)).map (·.cid) = t.chans.map (·.cid) := by
        rw [List.map_map]
        apply List.map_congr_left
        intro nc hnc
        exact (hspec nc hnc).1
      show ((t.chans.map (fanOne conf t.pump m kept pris)).map (·.cid)).Nodup
      rw [this]; exact hi.cnodup
    vis := by
      intro x hx hs
      obtain ⟨nc, hnc, rfl⟩ := List.mem_map.1 hx
      rw [(hspec nc hnc).1] at hs ⊢
      exact hi.vis nc hnc hs
    fan := by
      intro x hx b hb i hip hbi
      obtain ⟨nc, hnc, rfl⟩ := List.mem_map.1 hx
      rw [(hspec nc hnc).1] at hb
      rcases List.mem_cons.1 hip with rfl | hip
      · exact (hspec nc hnc).2.2.2 (hi.vis nc hnc (by rw [hb]; rfl))
      · exact (hspec nc hnc).2.2.1 i (hi.fan nc hnc b hb i hip hbi)
    ackq := by
      intro i hia
      show i ∈ (t.queue.filter (fun x => x.id != m.id)).map (·.id) ∨ i ∈ m.id :: t.pumped
      rcases hi.ackq i hia with h | h
      · by_cases he : i = m.id
        · exact Or.inr (he ▸ List.mem_cons_self)
        · left
          obtain ⟨x, hx, rfl⟩ := List.mem_map.1 h
          exact List.mem_map.2 ⟨x, List.mem_filter.2 ⟨hx, by simpa using he⟩, rfl⟩
      · exact Or.inr (List.mem_cons_of_mem _ h)
    lt := by
      intro i hiq
      rcases hiq with h | h
      · obtain ⟨x, hx, rfl⟩ := List.mem_map.1 h
        exact hi.lt _ (Or.inl (List.mem_map.2 ⟨x, (List.mem_filter.1 hx).1, rfl⟩))
      · rcases List.mem_cons.1 h with rfl | h
        · exact hi.lt _ (Or.inl (List.mem_map.2 ⟨m, hm, rfl⟩))
        · exact hi.lt _ (Or.inr h) }

theorem fi_ite (b : Bool) {x y : State × Out} {E : Gh} (hx : FI (x.1, E)) (hy : FI (y.1, E)) :
    FI ((if b = true then x else y).1, E) := by
  cases b <;> simpa

theorem fi_topicField {s : State} {E : Gh} (hi : FI (s, E)) (t : Nat) (f : Topic → Topic)
    (hf : ∀ y n e, FT n e y → (f y).tid = y.tid ∧ FT n e (f y)) :
    FI ({ s with topics := updT s.topics t f }, E) :=
  fi_updT hi t f s.nextId E (Nat.le_refl _) (fun _ _ => rfl)
    (fun y hy hk => ⟨(hf y _ _ (hi.topics y hy)).1, hk ▸ (hf y _ _ (hi.topics y hy)).2⟩) s.subs s.everSub

/-- **one-step preservation for EVERY op**, the raw halves of channel creation included -/
theorem gstep_fi {x : State × Gh} (hi : FI x) (op : Nsq.Model.ChanNsqd.Op) : FI (gstep x op) := by
  obtain ⟨s, E⟩ := x
  cases op with
  | createChanRaw t c e => exact fi_createChanRaw hi t c e
  | refreshPump t => exact fi_refreshPump hi t
  | createTopic t => exact fi_ensureTopic hi t
  | createChan t c e => exact fi_doCreateChan hi t c e
  | sub k t c e mt sm =>
    simp only [gstep, gnext, Nsq.Model.ChanNsqd.step]
    by_cases hk : s.everSub.contains k = true
    · simp only [hk, if_true]; exact hi
    · simp only [hk, Bool.false_eq_true, if_false]
      have h1 := fi_doCreateChan hi t c e
      have h2 := fi_chanStep h1 t c (.addClient k mt sm) (fun _ _ h => by cases h) (fun _ _ _ h => by cases h)
      split
      · exact fi_subs h2 _ _
      · exact h1
  | disconnect k =>
    simp only [gstep, gnext, Nsq.Model.ChanNsqd.step]
    split
    · exact hi
    · rename_i sb _
      have h1 := fi_chanStep hi sb.tid sb.cid (.removeClient k) (fun _ _ h => by cases h) (fun _ _ _ h => by cases h)
      exact fi_reap h1 _ _ _
  | rdy k n =>
    simp only [gstep, gnext, Nsq.Model.ChanNsqd.step]
    split
    · exact fi_connStep hi k _ (fun _ _ h => by cases h) (fun _ _ _ h => by cases h)
    · split
      · exact hi
      · exact fi_ite _ hi (fi_connStep hi k _ (fun _ _ h => by cases h) (fun _ _ _ h => by cases h))
  | cls k => exact fi_connStep hi k _ (fun _ _ h => by cases h) (fun _ _ _ h => by cases h)
  | deliver k id now => exact fi_connStep hi k _ (fun _ _ h => by cases h) (fun _ _ _ h => by cases h)
  | sampleDrop k id => exact fi_connStep hi k _ (fun _ _ h => by cases h) (fun _ _ _ h => by cases h)
  | fin k id => exact fi_connStep hi k _ (fun _ _ h => by cases h) (fun _ _ _ h => by cases h)
  | finChan k id => exact fi_connStep hi k _ (fun _ _ h => by cases h) (fun _ _ _ h => by cases h)
  | finClient k => exact fi_connStep hi k _ (fun _ _ h => by cases h) (fun _ _ _ h => by cases h)
  | guard k => exact fi_connStep hi k _ (fun _ _ h => by cases h) (fun _ _ _ h => by cases h)
  | deliverArmed k id now => exact fi_connStep hi k _ (fun _ _ h => by cases h) (fun _ _ _ h => by cases h)
  | req k id d now => exact fi_connStep hi k _ (fun _ _ h => by cases h) (fun _ _ _ h => by cases h)
  | touch k id now => exact fi_connStep hi k _ (fun _ _ h => by cases h) (fun _ _ _ h => by cases h)
  | scanInFlight t c tm => exact fi_chanStep hi t c _ (fun _ _ h => by cases h) (fun _ _ _ h => by cases h)
  | scanDeferred t c tm => exact fi_chanStep hi t c _ (fun _ _ h => by cases h) (fun _ _ _ h => by cases h)
  | pauseChan t c => exact fi_chanStep hi t c _ (fun _ _ h => by cases h) (fun _ _ _ h => by cases h)
  | unpauseChan t c => exact fi_chanStep hi t c _ (fun _ _ h => by cases h) (fun _ _ _ h => by cases h)
  | emptyChan t c => exact fi_chanStep hi t c _ (fun _ _ h => by cases h) (fun _ _ _ h => by cases h)
  | resplit t c m d => exact fi_chanStep hi t c _ (fun _ _ h => by cases h) (fun _ _ _ h => by cases h)
  | pauseTopic t =>
    simp only [gstep, gnext, Nsq.Model.ChanNsqd.step]
    split
    · exact hi
    · exact fi_topicField hi t _ (fun y n e h => ⟨rfl, { h with }⟩)
  | unpauseTopic t =>
    simp only [gstep, gnext, Nsq.Model.ChanNsqd.step]
    split
    · exact hi
    · exact fi_topicField hi t _ (fun y n e h => ⟨rfl, { h with }⟩)
  | pumpTopic t id kept pris =>
    simp only [gstep, gnext, Nsq.Model.ChanNsqd.step]
    split
    · exact hi
    · split
      · exact hi
      · split
        · exact hi
        · rename_i _ tp hft _ _ m hfm
          split
          · exact hi
          · have hm1 := List.mem_of_find?_eq_some hfm
            have hm2 : m.id = id := by simpa using List.find?_some hfm
            subst hm2
            obtain ⟨htp, htt⟩ := findT_some hft
            refine fi_updT hi t _ s.nextId E (Nat.le_refl _) (fun _ _ => rfl) ?_ s.subs s.everSub
            intro y hy hyt
            have : y = tp := eq_of_tid_eq hi.tnodup hy htp (hyt.trans htt.symm)
            subst this
            exact ⟨rfl, hyt ▸ ft_pump (hi.topics y hy) s.conf hm1 kept pris⟩
  | pub t sz env =>
    simp only [gstep, gnext, Nsq.Model.ChanNsqd.step]
    have h1 := fi_ensureTopic (E := E) hi t
    have hn := (ensureTopic_nextId s t).1
    refine fi_updT h1 t _ _ E (Nat.le_succ _) (fun _ _ => rfl) ?_ _ _
    intro y hy hyt
    obtain ⟨q, hq1, hq2, hq3⟩ := putT_spec y (ensureTopic s t).nextId sz 0 env
    refine ⟨by rw [hq1], ?_⟩
    rw [hq1]
    subst hyt
    exact ft_publish (h1.topics y hy) [(ensureTopic s y.tid).nextId] (by simp) (Nat.le_succ _) q (by simpa using hq2)
      _ _ _ _ _ (by simp)
  | dpub t sz d env =>
    simp only [gstep, gnext, Nsq.Model.ChanNsqd.step]
    have h1 := fi_ensureTopic (E := E) hi t
    refine fi_updT h1 t _ _ E (Nat.le_succ _) (fun _ _ => rfl) ?_ _ _
    intro y hy hyt
    obtain ⟨q, hq1, hq2, hq3⟩ := putT_spec y (ensureTopic s t).nextId sz d env
    refine ⟨by rw [hq1], ?_⟩
    rw [hq1]
    subst hyt
    exact ft_publish (h1.topics y hy) [(ensureTopic s y.tid).nextId] (by simp) (Nat.le_succ _) q (by simpa using hq2)
      _ _ _ _ _ (by simp)
  | mpub t sizes envs =>
    simp only [gstep, gnext, Nsq.Model.ChanNsqd.step]
    have h1 := fi_ensureTopic (E := E) hi t
    refine fi_updT h1 t _ _ E (Nat.le_add_right _ _) (fun _ _ => rfl) ?_ _ _
    intro y hy hyt
    obtain ⟨q, el, hq1, hq2, hel, hold, hqe⟩ := putMany_spec y (ensureTopic s t).nextId sizes envs
    refine ⟨by rw [hq1], ?_⟩
    rw [hq1]
    subst hyt
    refine ft_publish (h1.topics y hy) (idsFrom (ensureTopic s y.tid).nextId sizes.length).reverse ?_ (Nat.le_add_right _ _) q hq2
      _ _ _ _ _ (fun i h => List.mem_append.1 h)
    intro i hi'
    exact (mem_idsFrom.1 (List.mem_reverse.1 hi')).2
  | mpubFail t sizes j envs =>
    simp only [gstep, gnext, Nsq.Model.ChanNsqd.step]
    have h1 := fi_ensureTopic (E := E) hi t
    split
    · exact h1
    · rename_i hj
      refine fi_updT h1 t _ _ E (Nat.le_add_right _ _) (fun _ _ => rfl) ?_ _ _
      intro y hy hyt
      obtain ⟨q, el, hq1, hq2, hel, hold, hqe⟩ := putMany_spec y (ensureTopic s t).nextId (sizes.take j) envs
      have hlen : (sizes.take j).length = j := by simp; omega
      refine ⟨by rw [hq1], ?_⟩
      rw [hq1]
      subst hyt
      refine ft_publish (h1.topics y hy) (idsFrom (ensureTopic s y.tid).nextId j).reverse ?_ (Nat.le_add_right _ _) q (by rw [hq2, hlen])
        _ _ _ _ _ (fun i h => Or.inr h)
      intro i hi'
      have := mem_idsFrom.1 (List.mem_reverse.1 hi')
      show i < (ensureTopic s y.tid).nextId + sizes.length
      omega

theorem grun_fi {x : State × Gh} (hi : FI x) (ops : List Nsq.Model.ChanNsqd.Op) : FI (grun x ops) := by
  induction ops generalizing x with
  | nil => exact hi
  | cons op ops ih => exact ih (gstep_fi hi op)

end Nsq.Proofs.ChanNsqdRaw
