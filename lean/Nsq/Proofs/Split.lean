import Nsq.Model.Split
/-!
Helper lemmas for the to_nsq clause of C20: the `ReadBytes` loop publishes exactly the non-empty
delimiter-separated records of its input.
-/
namespace Nsq.Proofs.Split
open Nsq.Model.Split

/-- the raw lines `ReadBytes` hands out one after the other (delimiter attached; the last one is
the unterminated rest, possibly empty) -/
def rawLines (d : UInt8) : Bytes → List Bytes
  | [] => [[]]
  | b :: rest =>
    if b = d then [d] :: rawLines d rest
    else match rawLines d rest with
      | [] => [[b]]
      | l :: ls => (b :: l) :: ls

theorem rawLines_ne_nil (d : UInt8) (input : Bytes) : rawLines d input ≠ [] := by
  cases input with
  | nil => simp [rawLines]
  | cons b rest =>
    unfold rawLines
    by_cases hb : b = d
    · simp [hb]
    · simp only [hb, if_false]; split <;> simp

/-- one `ReadBytes` call peels off the first raw line -/
theorem rawLines_read (d : UInt8) (input : Bytes) :
    rawLines d input = (readBytes d input).1 ::
      (if (readBytes d input).2.2 = true then [] else rawLines d (readBytes d input).2.1) := by
  induction input with
  | nil => simp [rawLines, readBytes]
  | cons b rest ih =>
    by_cases hb : b = d
    · simp [rawLines, readBytes, hb]
    · simp only [rawLines, readBytes, hb, if_false]
      rw [ih]

def keep (trim : UInt8 → Bytes → Bytes) (d : UInt8) (l : Bytes) : Option Bytes :=
  if (trim d l).length = 0 then none else some (trim d l)

/-- the loop = trim + skip-empty over the raw lines -/
theorem published_eq (trim : UInt8 → Bytes → Bytes) (d : UInt8) (input : Bytes) :
    published trim d input = (rawLines d input).filterMap (keep trim d) := by
  induction h : input.length using Nat.strongRecOn generalizing input with
  | _ n ih =>
    rw [published, rawLines_read]
    by_cases he : (readBytes d input).2.2 = true
    · simp only [he, dite_true, if_true, List.filterMap_cons, List.filterMap_nil, keep]
      split <;> simp_all
    · simp only [he, List.filterMap_cons, keep]
      have hlt := readBytes_lt d input (by simpa using he)
      rw [ih _ (by omega) _ rfl]
      by_cases ht : trim d (readBytes d input).1 = [] <;> simp [ht]

/-- the pieces of `splitOn` with the delimiter put back on all but the last -/
def attach (d : UInt8) : List Bytes → List Bytes
  | [] => []
  | [p] => [p]
  | p :: q :: ps => (p ++ [d]) :: attach d (q :: ps)

theorem splitOn_ne_nil (d : UInt8) (input : Bytes) : splitOn d input ≠ [] := by
  cases input with
  | nil => simp [splitOn]
  | cons b rest =>
    unfold splitOn
    by_cases hb : b = d
    · simp [hb]
    · simp only [hb, if_false]; split <;> simp

theorem rawLines_attach (d : UInt8) (input : Bytes) : rawLines d input = attach d (splitOn d input) := by
  induction input with
  | nil => simp [rawLines, splitOn, attach]
  | cons b rest ih =>
    unfold rawLines splitOn
    by_cases hb : b = d
    · simp only [hb, if_true]
      rw [ih]
      cases hs : splitOn d rest with
      | nil => exact absurd hs (splitOn_ne_nil d rest)
      | cons p ps => simp [attach]
    · simp only [hb, if_false]
      rw [ih]
      cases hs : splitOn d rest with
      | nil => exact absurd hs (splitOn_ne_nil d rest)
      | cons p ps =>
        cases ps with
        | nil => simp [attach]
        | cons q qs => simp [attach]

theorem splitOn_no_delim (d : UInt8) (input : Bytes) : ∀ p ∈ splitOn d input, d ∉ p := by
  induction input with
  | nil => simp [splitOn]
  | cons b rest ih =>
    unfold splitOn
    by_cases hb : b = d
    · simp only [hb, if_true]
      intro p hp
      cases hp with
      | head => simp
      | tail _ hp => exact ih p hp
    · simp only [hb, if_false]
      cases hs : splitOn d rest with
      | nil => exact absurd hs (splitOn_ne_nil d rest)
      | cons q qs =>
        rw [hs] at ih
        intro p hp
        simp only [] at hp
        cases hp with
        | head =>
          intro hm
          cases hm with
          | head => exact hb rfl
          | tail _ hm => exact ih q (List.mem_cons_self ..) hm
        | tail _ hp => exact ih p (List.mem_cons_of_mem _ hp)

theorem trimFixed_terminated (d : UInt8) (p : Bytes) : trimFixed d (p ++ [d]) = p := by
  unfold trimFixed; simp

theorem trimFixed_unterminated (d : UInt8) (p : Bytes) (h : d ∉ p) : trimFixed d p = p := by
  unfold trimFixed
  by_cases hl : p.getLast? = some d
  · exact absurd (List.mem_of_getLast? hl) h
  · simp [hl]

theorem keep_attach (d : UInt8) (ps : List Bytes) (h : ∀ p ∈ ps, d ∉ p) :
    (attach d ps).filterMap (keep trimFixed d) = ps.filter (fun p => p ≠ []) := by
  induction ps with
  | nil => simp [attach]
  | cons p qs ih =>
    cases qs with
    | nil =>
      have := trimFixed_unterminated d p (h p (List.mem_cons_self ..))
      cases p <;> simp_all [attach, keep]
    | cons q qs =>
      have hq : ∀ x ∈ q :: qs, d ∉ x := fun x hx => h x (List.mem_cons_of_mem _ hx)
      have := ih hq
      simp only [attach, List.filterMap_cons, keep, trimFixed_terminated]
      rw [this]
      cases p <;> simp

/-- **the fixed loop publishes exactly the non-empty records** -/
theorem published_fixed (d : UInt8) (input : Bytes) : published trimFixed d input = records d input := by
  rw [published_eq, rawLines_attach, keep_attach d _ (splitOn_no_delim d input)]
  rfl

/-- the old rule agrees with the fixed one on every raw line that ends with the delimiter -/
theorem trimOld_terminated (d : UInt8) (p : Bytes) : trimOld d (p ++ [d]) = p := by
  unfold trimOld; simp

theorem keep_attach_old (d : UInt8) (ps : List Bytes) (hlast : ps.getLast? = some []) :
    (attach d ps).filterMap (keep trimOld d) = ps.filter (fun p => p ≠ []) := by
  induction ps with
  | nil => simp at hlast
  | cons p qs ih =>
    cases qs with
    | nil =>
      simp at hlast
      subst hlast
      simp [attach, keep, trimOld]
    | cons q qs =>
      have := ih (by simpa using hlast)
      simp only [attach, List.filterMap_cons, keep, trimOld_terminated]
      rw [this]
      cases p <;> simp

theorem splitOn_last_of_terminated (d : UInt8) (input : Bytes) (h : input = [] ∨ input.getLast? = some d) :
    (splitOn d input).getLast? = some [] := by
  induction input with
  | nil => simp [splitOn]
  | cons b rest ih =>
    have hrest : rest = [] ∨ rest.getLast? = some d := by
      cases rest with
      | nil => exact Or.inl rfl
      | cons c cs =>
        right
        cases h with
        | inl h => cases h
        | inr h => simpa [List.getLast?_cons_cons] using h
    have ih' := ih hrest
    unfold splitOn
    by_cases hb : b = d
    · simp only [hb, if_true]
      cases hs : splitOn d rest with
      | nil => exact absurd hs (splitOn_ne_nil d rest)
      | cons q qs => rw [hs] at ih'; simpa [List.getLast?_cons_cons] using ih'
    · simp only [hb, if_false]
      cases hs : splitOn d rest with
      | nil => exact absurd hs (splitOn_ne_nil d rest)
      | cons q qs =>
        rw [hs] at ih'
        simp only []
        cases qs with
        | nil =>
          -- rest has a single (empty) piece, so rest = [] : then b is the last byte, which must be d
          simp at ih'
          subst ih'
          have hr : rest = [] := by
            cases rest with
            | nil => rfl
            | cons c cs =>
              exfalso
              unfold splitOn at hs
              by_cases hc : c = d
              · simp [hc] at hs
                exact splitOn_ne_nil d cs hs
              · simp only [hc, if_false] at hs
                split at hs <;> simp at hs
          subst hr
          cases h with
          | inl h => cases h
          | inr h => simp at h; exact absurd h hb
        | cons q2 qs2 => simpa [List.getLast?_cons_cons] using ih'

/-- the tree before fix F5 is right exactly on delimiter-terminated (or empty) input -/
theorem published_old_terminated (d : UInt8) (input : Bytes) (h : input = [] ∨ input.getLast? = some d) :
    published trimOld d input = records d input := by
  rw [published_eq, rawLines_attach, keep_attach_old d _ (splitOn_last_of_terminated d input h)]
  rfl

theorem received_deliver (n i : Nat) (hi : i < n) (recs : List Bytes) : received i (deliver n recs) = recs := by
  induction recs with
  | nil => simp [deliver, received]
  | cons r rs ih =>
    unfold deliver received at *
    simp only [List.flatMap_cons, List.filterMap_append]
    rw [ih]
    have : List.filterMap (fun e : Nat × Bytes => if e.1 = i then some e.2 else none)
        (List.map (fun j => (j, r)) (List.range n)) = [r] := by
      rw [List.filterMap_map]
      clear ih
      induction n with
      | zero => omega
      | succ k ihk =>
        rw [List.range_succ, List.filterMap_append]
        by_cases hik : i = k
        · subst hik
          have hnone : List.filterMap ((fun e : Nat × Bytes => if e.1 = i then some e.2 else none) ∘ fun j => (j, r)) (List.range i) = [] := by
            rw [List.filterMap_eq_nil_iff]
            intro a ha
            have := List.mem_range.mp ha
            simp; omega
          simp [hnone]
        · have : i < k := by omega
          rw [ihk this]
          simp; omega
    rw [this]; rfl

end Nsq.Proofs.Split
