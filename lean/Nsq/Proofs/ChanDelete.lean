import Nsq.Model.ChanDelete
/-
Invariant of the tree with fixes/F22 (a channel deletion unlinks only the object it looked up): an object
leaves the channel map only completely deleted — exit flag set, exit finished, no consumer, no message.
-/
namespace Nsq.Proofs.ChanDelete
open Nsq.Model.ChanDelete

structure FixedInv (s : CSt) : Prop where
  g : s.ownUnlink = true
  unl : ∀ T ∈ s.unlinked, T.exiting = true ∧ T.exited = true ∧ T.subs = [] ∧ T.queue = []
  mp : ∀ T, s.map = some T → T.exited = true → T.exiting = true ∧ T.subs = [] ∧ T.queue = []
  del : ∀ T, s.map = some T → T.id ∈ s.deleters → T.exiting = true
  fr1 : ∀ id ∈ s.deleters, id < s.nextId
  fr2 : ∀ T, s.map = some T → T.id < s.nextId

theorem fixedInv_init : FixedInv fixedTree where
  g := rfl
  unl := by intro T h; cases h
  mp := by intro T h; cases h
  del := by intro T h; cases h
  fr1 := by intro id h; cases h
  fr2 := by intro T h; cases h

theorem mem_erase_or {l : List Nat} {x m : Nat} (h : x ∈ l) : x = m ∨ x ∈ l.erase m := by
  by_cases hx : x = m
  · exact Or.inl hx
  · exact Or.inr ((List.mem_erase_of_ne hx).mpr h)

theorem findObj_map (s : CSt) (id : Nat) (T M : CObj) (h : findObj s id = some T) (hm : s.map = some M)
    (hid : M.id = id) : T = M := by
  unfold findObj at h
  rw [hm] at h
  simp only [hid, if_true] at h
  cases h; rfl

theorem unlink_deleters (s : CSt) (id : Nat) : (unlink s id).deleters = s.deleters := by
  unfold unlink
  split
  · rfl
  · split <;> rfl

/-- the identity-checked unlink of an exited object keeps the invariant, whatever the bookkeeping lists become -/
theorem fixedInv_unlink (s : CSt) (id : Nat) (T : CObj) (h : FixedInv s) (hf : findObj s id = some T)
    (hex : T.exited = true) (dl ls an : List Nat) (hdl : ∀ x ∈ dl, x ∈ s.deleters) :
    FixedInv { unlink s id with deleters := dl, losers := ls, answered := an } := by
  obtain ⟨g, unl, mp, del, fr1, fr2⟩ := h
  unfold unlink
  split
  · constructor <;> grind
  · rename_i M hM
    split
    · constructor <;> grind
    · rename_i hcond
      have hid : M.id = id := by
        simp only [g, Bool.true_and, bne_iff_ne, ne_eq, Decidable.not_not] at hcond
        exact hcond
      have hTM := findObj_map s id T M hf hM hid
      subst hTM
      have := mp T hM hex
      constructor <;> grind

theorem fixedInv_step (s s' : CSt) (a : CStep) (h : FixedInv s) (hs : cstep s a = some s') : FixedInv s' := by
  cases a with
  | sub k =>
    obtain ⟨g, unl, mp, del, fr1, fr2⟩ := h
    simp only [cstep] at hs
    split at hs
    · cases hs
    · (repeat' split at hs) <;> cases hs <;> (constructor <;> grind)
  | create =>
    obtain ⟨g, unl, mp, del, fr1, fr2⟩ := h
    simp only [cstep] at hs
    split at hs <;> cases hs <;> (constructor <;> grind)
  | leave k =>
    obtain ⟨g, unl, mp, del, fr1, fr2⟩ := h
    simp only [cstep] at hs
    split at hs
    · cases hs
    · cases hs
      constructor <;> (try simp only [List.mem_map, Option.map_eq_some_iff]) <;> grind
  | pub =>
    obtain ⟨g, unl, mp, del, fr1, fr2⟩ := h
    simp only [cstep] at hs
    (repeat' split at hs) <;> cases hs <;> (constructor <;> grind)
  | delBegin =>
    obtain ⟨g, unl, mp, del, fr1, fr2⟩ := h
    simp only [cstep] at hs
    (repeat' split at hs) <;> (try cases hs) <;> (constructor <;> grind)
  | delExit id =>
    obtain ⟨g, unl, mp, del, fr1, fr2⟩ := h
    simp only [cstep] at hs
    (repeat' split at hs) <;> (try cases hs)
    unfold updObj
    constructor <;> (try simp only [List.mem_map, Option.map_eq_some_iff]) <;> grind
  | delUnlink id =>
    simp only [cstep] at hs
    (repeat' split at hs) <;> (try cases hs)
    rename_i _ T hf hcd
    exact fixedInv_unlink s id T h hf (by simpa using hcd) _ _ _ (fun x hx => List.mem_of_mem_erase hx)
  | loserUnlink id =>
    simp only [cstep] at hs
    (repeat' split at hs) <;> (try cases hs)
    rename_i _ T hf hcd
    exact fixedInv_unlink s id T h hf (by simpa using hcd) _ _ _ (fun x hx => by rw [unlink_deleters] at hx; exact hx)

theorem fixedInv_run : ∀ (sched : List CStep) (s s' : CSt), FixedInv s → crun s sched = some s' → FixedInv s' := by
  intro sched
  induction sched with
  | nil => intro s s' h hs; cases hs; exact h
  | cons a as ih =>
    intro s s' h hs
    simp only [crun] at hs
    split at hs
    · cases hs
    · rename_i s1 h1
      exact ih s1 s' (fixedInv_step s s1 a h h1) hs

end Nsq.Proofs.ChanDelete
