/-
E2 — envelope integrity on every queue path (C07.4). Every located message carries the envelope
(timestamp, body) it was put on the channel with; every delivery hands out that envelope; an id
has one envelope. Preserved by every step (atomic operations and all micro-steps).
-/
import Nsq.Proofs.ChanFan
namespace Nsq.Proofs.Chan
open Nsq.Model.Chan

/-- every entry of `l'` is an entry of `l` up to attempts / location: same id, same envelope -/
def EnvSub (l' l : List Entry) : Prop := ∀ e' ∈ l', ∃ e ∈ l, e.id = e'.id ∧ e.env = e'.env

theorem EnvSub.refl (l : List Entry) : EnvSub l l := fun e he => ⟨e, he, rfl, rfl⟩
theorem EnvSub.trans {a b c : List Entry} (h1 : EnvSub a b) (h2 : EnvSub b c) : EnvSub a c := by
  intro e he
  obtain ⟨e1, he1, i1, v1⟩ := h1 e he
  obtain ⟨e2, he2, i2, v2⟩ := h2 e1 he1
  exact ⟨e2, he2, i2.trans i1, v2.trans v1⟩
theorem envSub_nil (l : List Entry) : EnvSub [] l := by intro e he; cases he
theorem envSub_setE (l : List Entry) (x a : Nat) (loc : Loc) : EnvSub (setE l x a loc) l := by
  intro e' he'
  obtain ⟨e, he, rfl⟩ := mem_setE.1 he'
  refine ⟨e, he, ?_, ?_⟩ <;> split <;> rfl
theorem envSub_removeE (l : List Entry) (x : Nat) : EnvSub (removeE l x) l :=
  fun e he => ⟨e, (mem_removeE.1 he).1, rfl, rfl⟩

theorem enqueue_env (c : Chan) (x : Nat) : (enqueue c x).elog = c.elog ∧ EnvSub (enqueue c x).msgs c.msgs := by
  unfold enqueue
  split
  · exact ⟨rfl, EnvSub.refl _⟩
  · split
    · exact ⟨rfl, envSub_removeE _ _⟩
    · exact ⟨rfl, EnvSub.refl _⟩

theorem timeoutOne_env (c : Chan) (x : Nat) : (timeoutOne c x).elog = c.elog ∧ EnvSub (timeoutOne c x).msgs c.msgs := by
  unfold timeoutOne
  split
  · split
    · exact ⟨(enqueue_env _ _).1, (enqueue_env _ _).2.trans (envSub_setE _ _ _ _)⟩
    · exact ⟨rfl, EnvSub.refl _⟩
  · exact ⟨rfl, EnvSub.refl _⟩

theorem deferDueOne_env (c : Chan) (x : Nat) : (deferDueOne c x).elog = c.elog ∧ EnvSub (deferDueOne c x).msgs c.msgs := by
  unfold deferDueOne
  split
  · split
    · exact ⟨(enqueue_env _ _).1, (enqueue_env _ _).2.trans (envSub_setE _ _ _ _)⟩
    · exact ⟨rfl, EnvSub.refl _⟩
  · exact ⟨rfl, EnvSub.refl _⟩

theorem foldl_env (f : Chan → Nat → Chan) (hf : ∀ c x, (f c x).elog = c.elog ∧ EnvSub (f c x).msgs c.msgs)
    (l : List Nat) (c : Chan) : (l.foldl f c).elog = c.elog ∧ EnvSub (l.foldl f c).msgs c.msgs := by
  induction l generalizing c with
  | nil => exact ⟨rfl, EnvSub.refl _⟩
  | cons x l ih =>
    simp only [List.foldl_cons]
    exact ⟨(ih _).1.trans (hf c x).1, (ih _).2.trans (hf c x).2⟩

theorem finChanPart_env {c c' : Chan} {k id : Nat} (h : finChanPart c k id = some c') :
    c'.elog = c.elog ∧ EnvSub c'.msgs c.msgs := by
  unfold finChanPart at h
  split at h
  · split at h
    · split at h
      · cases h; exact ⟨rfl, envSub_removeE _ _⟩
      · cases h
    · cases h
  · cases h

/-- **frame**: every operation except the two puts and the two deliveries leaves the envelope log
alone and keeps every remaining message's id and envelope -/
theorem step_env_frame (conf : Conf) (c : Chan) (op : Op)
    (h1 : ∀ i e, op ≠ .put i e) (h2 : ∀ i p e, op ≠ .putDeferred i p e)
    (h3 : ∀ k i n, op ≠ .deliver k i n) (h4 : ∀ k i n, op ≠ .deliverArmed k i n) :
    (step conf c op).1.elog = c.elog ∧ EnvSub (step conf c op).1.msgs c.msgs := by
  cases op with
  | put i e => exact absurd rfl (h1 i e)
  | putDeferred i p e => exact absurd rfl (h2 i p e)
  | deliver k i n => exact absurd rfl (h3 k i n)
  | deliverArmed k i n => exact absurd rfl (h4 k i n)
  | scanInFlight t => exact foldl_env _ timeoutOne_env _ _
  | scanDeferred t => exact foldl_env _ deferDueOne_env _ _
  | _ =>
    simp only [step]
    repeat' split
    all_goals first
      | exact ⟨rfl, EnvSub.refl _⟩
      | exact ⟨rfl, envSub_nil _⟩
      | exact ⟨rfl, envSub_setE _ _ _ _⟩
      | exact ⟨rfl, envSub_removeE _ _⟩
      | exact ⟨(enqueue_env _ _).1, (enqueue_env _ _).2.trans (envSub_setE _ _ _ _)⟩
      | exact ⟨trivial, EnvSub.refl _⟩
      | exact ⟨trivial, envSub_nil _⟩
      | (rename_i hfc; exact finChanPart_env hfc)
      | (rename_i hfc; exact ⟨(finChanPart_env hfc).1, (finChanPart_env hfc).2⟩)
      | (rename_i _ _ _ hfc; exact finChanPart_env hfc)

structure EnvInv (c : Chan) : Prop where
  loc : ∀ e ∈ c.msgs, EEv.put e.id e.env ∈ c.elog
  del : ∀ k id a env, EEv.deliver k id a env ∈ c.elog → EEv.put id env ∈ c.elog
  uniq : ∀ id e1 e2, EEv.put id e1 ∈ c.elog → EEv.put id e2 ∈ c.elog → e1 = e2
  fresh : ∀ id env, EEv.put id env ∈ c.elog → nFanout c.hist id ≠ 0

theorem envInv_init (eph : Bool) (cap : Nat) : EnvInv { ephemeral := eph, memCap := cap } :=
  ⟨by simp, by simp, by simp, by simp⟩


theorem envInv_frame {c c' : Chan} (h : EnvInv c) (hel : c'.elog = c.elog) (hsub : EnvSub c'.msgs c.msgs)
    (hf : ∀ id, nFanout c'.hist id = nFanout c.hist id) : EnvInv c' := by
  refine ⟨?_, ?_, ?_, ?_⟩
  · intro e' he'
    obtain ⟨e, he, hid, henv⟩ := hsub e' he'
    rw [hel, ← hid, ← henv]; exact h.loc e he
  · intro k id a env hd; rw [hel] at hd ⊢; exact h.del k id a env hd
  · intro id e1 e2 h1 h2; rw [hel] at h1 h2; exact h.uniq id e1 e2 h1 h2
  · intro id env hp; rw [hel] at hp; rw [hf]; exact h.fresh id env hp

theorem doDeliver_env (c : Chan) (cl : Client) (k id : Nat) (now : Int) :
    (doDeliver c cl k id now).1 = c ∨
    ∃ e ∈ c.msgs, e.id = id ∧
      (doDeliver c cl k id now).1.elog = EEv.deliver k id (e.att + 1) e.env :: c.elog ∧
      EnvSub (doDeliver c cl k id now).1.msgs c.msgs := by
  unfold doDeliver
  split
  · exact Or.inl rfl
  · rename_i e hfe
    obtain ⟨he, hid⟩ := findE_some hfe
    split
    · exact Or.inl rfl
    · exact Or.inr ⟨e, he, hid, rfl, envSub_setE _ _ _ _⟩

theorem envInv_deliverLike {c : Chan} (h : EnvInv c) (cl : Client) (k id : Nat) (now : Int)
    (hf : ∀ j, nFanout (doDeliver c cl k id now).1.hist j = nFanout c.hist j) :
    EnvInv (doDeliver c cl k id now).1 := by
  rcases doDeliver_env c cl k id now with heq | ⟨e, he, hid, hel, hsub⟩
  · rw [heq]; exact h
  · refine ⟨?_, ?_, ?_, ?_⟩
    · intro e' he'
      obtain ⟨e0, he0, hid0, henv0⟩ := hsub e' he'
      rw [hel, ← hid0, ← henv0]
      exact List.mem_cons_of_mem _ (h.loc e0 he0)
    · intro k' id' a env hd
      rw [hel] at hd ⊢
      simp only [List.mem_cons] at hd
      rcases hd with hd | hd
      · cases hd
        rw [← hid]
        exact List.mem_cons_of_mem _ (h.loc e he)
      · exact List.mem_cons_of_mem _ (h.del k' id' a env hd)
    · intro i e1 e2 h1 h2
      rw [hel] at h1 h2
      simp only [List.mem_cons, reduceCtorEq, false_or] at h1 h2
      exact h.uniq i e1 e2 h1 h2
    · intro i env hp
      rw [hel] at hp
      simp only [List.mem_cons, reduceCtorEq, false_or] at hp
      rw [hf]; exact h.fresh i env hp

/-- what an accepted `put` / `putDeferred` does to the envelope log and the messages -/
theorem envInv_putLike {c c' : Chan} (hi : Inv 0 c) (h : EnvInv c) (id : Nat) (env : Env)
    (hnew : nFanout c.hist id = 0)
    (hel : c'.elog = EEv.put id env :: c.elog)
    (hsub : ∀ e' ∈ c'.msgs, (e'.id = id ∧ e'.env = env) ∨ ∃ e ∈ c.msgs, e.id = e'.id ∧ e.env = e'.env)
    (hf : ∀ j, nFanout c'.hist j = nFanout c.hist j + (if id = j then 1 else 0)) : EnvInv c' := by
  have _ := hi
  refine ⟨?_, ?_, ?_, ?_⟩
  · intro e' he'
    rw [hel]
    rcases hsub e' he' with ⟨h1, h2⟩ | ⟨e, he, h1, h2⟩
    · rw [h1, h2]; exact List.mem_cons_self
    · rw [← h1, ← h2]; exact List.mem_cons_of_mem _ (h.loc e he)
  · intro k i a ev hd
    rw [hel] at hd ⊢
    simp only [List.mem_cons, reduceCtorEq, false_or] at hd
    exact List.mem_cons_of_mem _ (h.del k i a ev hd)
  · intro i e1 e2 h1 h2
    rw [hel] at h1 h2
    simp only [List.mem_cons] at h1 h2
    rcases h1 with h1 | h1 <;> rcases h2 with h2 | h2
    · cases h1; cases h2; rfl
    · cases h1; exact absurd hnew (h.fresh id e2 h2)
    · cases h2; exact absurd hnew (h.fresh id e1 h1)
    · exact h.uniq i e1 e2 h1 h2
  · intro i ev hp
    rw [hel] at hp
    rw [hf]
    simp only [List.mem_cons] at hp
    rcases hp with hp | hp
    · cases hp; simp
    · have := h.fresh i ev hp; omega

/-- **one-step preservation of the envelope invariant** (all operations, micro-steps included) -/
theorem step_envInv (conf : Conf) {c : Chan} (hi : Inv 0 c) (h : EnvInv c) (op : Op) : EnvInv (step conf c op).1 := by
  by_cases h1 : ∃ i e, op = .put i e
  · obtain ⟨id, env, rfl⟩ := h1
    by_cases hacc : nFanout c.hist id = 0 ∧ hasId c.msgs id = false
    · refine envInv_putLike hi h id env hacc.1 ?_ ?_ (fun j => put_nFanout conf hi id env hacc.1 j)
      · simp only [step, hacc.1, hacc.2, bne_self_eq_false, Bool.or_self, Bool.false_eq_true, ↓reduceIte]
        exact (enqueue_env _ _).1
      · simp only [step, hacc.1, hacc.2, bne_self_eq_false, Bool.or_self, Bool.false_eq_true, ↓reduceIte]
        intro e' he'
        obtain ⟨e, he, hid, henv⟩ := (enqueue_env _ _).2 e' he'
        simp only [List.mem_cons] at he
        rcases he with rfl | he
        · exact Or.inl ⟨hid.symm, henv.symm⟩
        · exact Or.inr ⟨e, he, hid, henv⟩
    · have : (step conf c (.put id env)).1 = c := by
        simp only [step]
        split
        · rfl
        · rename_i hc
          simp only [bne_iff_ne, ne_eq, Bool.or_eq_true, not_or, Decidable.not_not, Bool.not_eq_true] at hc
          exact absurd hc hacc
      rw [this]; exact h
  by_cases h2 : ∃ i p e, op = .putDeferred i p e
  · obtain ⟨id, pri, env, rfl⟩ := h2
    by_cases hacc : nFanout c.hist id = 0 ∧ hasId c.msgs id = false
    · refine envInv_putLike hi h id env hacc.1 ?_ ?_ (fun j => putDeferred_nFanout conf hi id pri env hacc.1 j)
      · simp [step, hacc.1, hacc.2]
      · simp only [step, hacc.1, hacc.2, bne_self_eq_false, Bool.or_self, Bool.false_eq_true, ↓reduceIte]
        intro e' he'
        simp only [List.mem_cons] at he'
        rcases he' with rfl | he'
        · exact Or.inl ⟨rfl, rfl⟩
        · exact Or.inr ⟨e', he', rfl, rfl⟩
    · have : (step conf c (.putDeferred id pri env)).1 = c := by
        simp only [step]
        split
        · rfl
        · rename_i hc
          simp only [bne_iff_ne, ne_eq, Bool.or_eq_true, not_or, Decidable.not_not, Bool.not_eq_true] at hc
          exact absurd hc hacc
      rw [this]; exact h
  have hp1 : ∀ i e, op ≠ .put i e := fun i e heq => h1 ⟨i, e, heq⟩
  have hp2 : ∀ i p e, op ≠ .putDeferred i p e := fun i p e heq => h2 ⟨i, p, e, heq⟩
  have hfan := fun j => nonput_nFanout conf c op j hp1 hp2
  by_cases h3 : ∃ k i n, op = .deliver k i n
  · obtain ⟨k, id, now, rfl⟩ := h3
    simp only [step] at hfan ⊢
    split
    · exact h
    · split
      · exact h
      · rename_i cl hfc hr
        simp only [hfc, hr, ↓reduceIte] at hfan
        exact envInv_deliverLike h cl k id now hfan
  by_cases h4 : ∃ k i n, op = .deliverArmed k i n
  · obtain ⟨k, id, now, rfl⟩ := h4
    simp only [step] at hfan ⊢
    split
    · exact h
    · split
      · exact h
      · rename_i cl hfc hr
        simp only [hfc, hr, ↓reduceIte] at hfan
        exact envInv_deliverLike h cl k id now hfan
  have hfr := step_env_frame conf c op hp1 hp2 (fun k i n heq => h3 ⟨k, i, n, heq⟩) (fun k i n heq => h4 ⟨k, i, n, heq⟩)
  exact envInv_frame h hfr.1 hfr.2 hfan

/-- only `put` / `putDeferred` add `put` records to the envelope log -/
theorem nonput_puts (conf : Conf) (c : Chan) (op : Op) (hp1 : ∀ i e, op ≠ .put i e) (hp2 : ∀ i p e, op ≠ .putDeferred i p e)
    (id : Nat) (ev : Env) (h : EEv.put id ev ∈ (step conf c op).1.elog) : EEv.put id ev ∈ c.elog := by
  by_cases h3 : ∃ k i n, op = .deliver k i n
  · obtain ⟨k, i, now, rfl⟩ := h3
    simp only [step] at h
    split at h
    · exact h
    · split at h
      · exact h
      · rename_i cl _ _
        rcases doDeliver_env c cl k i now with heq | ⟨e, _, _, hel, _⟩
        · rw [heq] at h; exact h
        · rw [hel] at h; simpa using h
  by_cases h4 : ∃ k i n, op = .deliverArmed k i n
  · obtain ⟨k, i, now, rfl⟩ := h4
    simp only [step] at h
    split at h
    · exact h
    · split at h
      · exact h
      · rename_i cl _ _
        rcases doDeliver_env c cl k i now with heq | ⟨e, _, _, hel, _⟩
        · rw [heq] at h; exact h
        · rw [hel] at h; simpa using h
  have hfr := step_env_frame conf c op hp1 hp2 (fun k i n heq => h3 ⟨k, i, n, heq⟩) (fun k i n heq => h4 ⟨k, i, n, heq⟩)
  rw [hfr.1] at h; exact h

/-- an accepted or refused `put` / `putDeferred` adds at most the record `(id, env)` -/
theorem put_puts (conf : Conf) (c : Chan) (id : Nat) (env : Env) (i : Nat) (ev : Env)
    (h : EEv.put i ev ∈ (step conf c (.put id env)).1.elog) : EEv.put i ev ∈ c.elog ∨ (i = id ∧ ev = env) := by
  simp only [step] at h
  split at h
  · exact Or.inl h
  · rw [(enqueue_env _ _).1] at h
    simp only [List.mem_cons, EEv.put.injEq] at h
    rcases h with h | h
    · exact Or.inr h
    · exact Or.inl h

theorem putDeferred_puts (conf : Conf) (c : Chan) (id : Nat) (pri : Int) (env : Env) (i : Nat) (ev : Env)
    (h : EEv.put i ev ∈ (step conf c (.putDeferred id pri env)).1.elog) : EEv.put i ev ∈ c.elog ∨ (i = id ∧ ev = env) := by
  simp only [step] at h
  split at h
  · exact Or.inl h
  · simp only [List.mem_cons, EEv.put.injEq] at h
    rcases h with h | h
    · exact Or.inr h
    · exact Or.inl h

theorem run_envInv (conf : Conf) (ops : List Op) {c : Chan} (hi : Inv 0 c) (h : EnvInv c) : EnvInv (run conf c ops) := by
  induction ops generalizing c with
  | nil => exact h
  | cons op ops ih => exact ih (step_inv conf hi op) (step_envInv conf hi h op)

end Nsq.Proofs.Chan
