import Nsq.Model.Line
import Nsq.Model.Gate
import Nsq.Model.GateRegex
import Nsq.Model.AuthQuery
/-!
Driver for engine `gate` (property C11). One op per line in, one canonical line out.

  cfg <tlsreq 0|1|2> <policy-hex> <cert 0|1> <authAddrs> <max-body-size> <max-msg-size>   new nsqd: resets broker and connections
  http <tlsListener 0|1>                                        the HTTP TLS gate of the current config
  https <cert>                                                  a request on the HTTPS listener with this client certificate
  conn <id>                                                     a fresh connection
  c <id> <now> <ans> <CMD> …                                    one command on a connection
  cx <id> <now> <ans> <CMD> …                                   one command, then the client disconnects
  cp <id> <now> <ans> IDENTIFY …                                an IDENTIFY with further plaintext lines pipelined behind it (= c)
  cb <id> <now> <ans> <rd> <CMD> …                              such a pipelined line: received by reader generation <rd>
  cz <id> <now> <ans> IDENTIFY …                                the barrier IDENTIFY sent after a pipelined one (= c)
  x <id>                                                        the client disconnects
  ia <grants> <topic-hex> <chan-hex>                            State.IsAllowed
  rx <pat-hex> <text-hex>                                       regexp family used by the harness
  aq <authd-hex> <ip-hex> <tls> <cn-hex> <secret-hex> <method-hex>   auth.QueryAuthd: the request it builds (`HOST` stands for the server)
  anyq <n> <start> <okbits>                                     auth.QueryAnyAuthd: servers asked, who answered
  ttlq <ttl>                                                    Expires - now, rounded to seconds

  ans    := E | A:<ttl>:<identity-hex>:<url-hex>:<grants>
  grants := ~ | grant(;grant)*         grant := <topic-hex>/<list>/<list>      list := ~ | hex(,hex)*
-/
open Nsq Nsq.Line Nsq.Model.Gate

def unhexS (s : String) : Option String := (unhex s).map bytesToString

def hexS (s : String) : String := hex (s.toList.map (fun c => c.toNat.toUInt8))

def parseList (s : String) : Option (List String) :=
  if s = "~" then some [] else (s.splitOn ",").mapM unhexS

def parseGrant (s : String) : Option Grant :=
  match s.splitOn "/" with
  | [t, cs, ps] =>
    match unhexS t, parseList cs, parseList ps with
    | some t, some cs, some ps => some { topic := t, channels := cs, perms := ps }
    | _, _, _ => none
  | _ => none

def parseGrants (s : String) : Option (List Grant) :=
  if s = "~" then some [] else (s.splitOn ";").mapM parseGrant

/-- `none` = malformed; `some none` = the server fails; `some (some r)` = a 200 answer -/
def parseAns (s : String) : Option (Option Resp) :=
  if s = "E" then some none else
  match s.splitOn ":" with
  | ["A", ttl, idn, url, gs] =>
    match ttl.toInt?, unhexS idn, unhexS url, parseGrants gs with
    | some ttl, some idn, some url, some gs => some (some { ttl := ttl, grants := gs, identity := idn, url := url })
    | _, _, _, _ => none
  | _ => none

def parseBool (s : String) : Option Bool :=
  if s = "1" then some true else if s = "0" then some false else none

def parseCert (s : String) : Option ClientCert :=
  match s.splitOn ":" with
  | ["nohs"] => some .noHandshake
  | ["nocert"] => some .noCert
  | ["untrusted", cn] => (unhexS cn).map .untrusted
  | ["trusted", cn] => (unhexS cn).map .trusted
  | _ => none

def parseInts (s : String) : Option (List Int) :=
  if s = "~" then some [] else (s.splitOn ",").mapM (·.toInt?)

def parseCmd (w : List String) : Option Cmd :=
  match w with
  | ["IDENTIFY", bodyOk, fn, tlsv1, hbOff, cert] =>
    -- hbOff: 0 = absent, 1 = `heartbeat_interval: -1`, 2 = a permitted positive interval (audit B24)
    match parseBool bodyOk, parseBool fn, parseBool tlsv1, parseBool (if hbOff = "2" then "0" else hbOff), parseCert cert with
    | some a, some b, some c, some d, some e =>
      some (.identify { bodyOk := a, featureNegotiation := b, tlsv1 := c, hbOff := d, hbOn := hbOff = "2", cert := e })
    | _, _, _, _, _ => none
  | ["IDENTIFY", bodyOk, fn, tlsv1, hbOff, cert, _ob] =>
    -- 7th token `ob=<n>`: an output_buffer_size (audit A2); no decision of the gate model reads it
    match parseBool bodyOk, parseBool fn, parseBool tlsv1, parseBool (if hbOff = "2" then "0" else hbOff), parseCert cert with
    | some a, some b, some c, some d, some e =>
      some (.identify { bodyOk := a, featureNegotiation := b, tlsv1 := c, hbOff := d, hbOn := hbOff = "2", cert := e })
    | _, _, _, _, _ => none
  | ["AUTH", args, size, secret] =>
    match parseList args, size.toInt?, unhexS secret with
    | some a, some n, some s => some (.auth a n s)
    | _, _, _ => none
  | ["PUB", args, size] =>
    match parseList args, size.toInt? with
    | some a, some n => some (.pub a n)
    | _, _ => none
  | ["DPUB", args, size] =>
    match parseList args, size.toInt? with
    | some a, some n => some (.dpub a n)
    | _, _ => none
  | ["MPUB", args, size, count, sizes] =>
    match parseList args, size.toInt?, count.toInt?, parseInts sizes with
    | some a, some n, some k, some ss => some (.mpub a n k ss)
    | _, _, _, _ => none
  | ["SUB", args] => (parseList args).map .sub
  | ["RDY", args] => (parseList args).map .rdy
  | ["FIN", args] => (parseList args).map .fin
  | ["REQ", args] => (parseList args).map .req
  | ["TOUCH", args] => (parseList args).map .touch
  | ["CLS"] => some .cls
  | ["NOP"] => some .nop
  | ["UNK", name] => (unhexS name).map .unknown
  | _ => none

def showReply : Reply → String
  | .ok => "OK"
  | .closeWait => "CLOSE_WAIT"
  | .identify t a => s!"ident:tls={if t then 1 else 0}:auth={if a then 1 else 0}"
  | .auth i u n => s!"auth:{hexS i}:{hexS u}:{n}"
  | .err code fatal => s!"{code}:{if fatal then "fatal" else "nonfatal"}"

def showState : CState → String
  | .init => "init" | .subscribed => "sub" | .closing => "closing"

def showQuery : Option Request → String
  | none => "none"
  | some q => s!"{if q.tls then 1 else 0}:{hexS q.cn}:{hexS q.secret}"

def showChan (c : Chan) : String := s!"{c.name}:{c.clients.length}"

def showTopic (t : Topic) : String :=
  let cs := (t.chans.map showChan).mergeSort (fun a b => a ≤ b)
  s!"{t.name}({t.msgs.length})[{",".intercalate cs}]"

def showBroker (b : Broker) : String :=
  if b.isEmpty then "-" else ";".intercalate ((b.map showTopic).mergeSort (fun a b => a ≤ b))

def b01 (b : Bool) : String := if b then "1" else "0"

/-- FIN / REQ / TOUCH of a message that is not in flight (the harness never has one in flight) -/
def driverExt : Ext :=
  { chanCmd := fun name _ _ b => (b, [.err (s!"E_{name}_FAILED") false]) }

structure DState where
  cfg : Option Config
  broker : Broker
  conns : List (Nat × Conn)

def defaultOpts (tr : TlsReq) (pol : String) (cert : Bool) (auth : Nat) (maxBody maxMsg : Int) : Options :=
  { tlsRequired := tr, clientAuthPolicy := pol, hasCert := cert, authAddrs := auth,
    maxBodySize := maxBody, maxMsgSize := maxMsg, maxReqTimeoutNs := 3600 * 1000000000 }

def lookupConn (id : Nat) : List (Nat × Conn) → Option Conn
  | [] => none
  | (k, c) :: r => if k = id then some c else lookupConn id r

def setConn (id : Nat) (c : Conn) (l : List (Nat × Conn)) : List (Nat × Conn) :=
  (id, c) :: l.filter (fun p => p.1 ≠ id)

def showPol : CertPolicy → String
  | .none => "none" | .require => "require" | .requireVerify => "verify"

def showReq : TlsReq → String
  | .no => "0" | .exceptHTTP => "1" | .yes => "2"

/-- `cp` and `cz` lines are ordinary commands for the model -/
def normVerb : List String → List String
  | "cp" :: rest => "c" :: rest
  | "cz" :: rest => "c" :: rest
  | w => w

def stepLine (st : DState) (line : String) : DState × String :=
  match normVerb (words line) with
  | ["cfg", tr, pol, cert, auth, maxBody, maxMsg] =>
    let tr? : Option TlsReq := if tr = "0" then some .no else if tr = "1" then some .exceptHTTP
      else if tr = "2" then some .yes else none
    match tr?, unhexS pol, parseBool cert, auth.toNat?, maxBody.toInt?, maxMsg.toInt? with
    | some tr, some pol, some cert, some auth, some maxBody, some maxMsg =>
      match mkConfig (defaultOpts tr pol cert auth maxBody maxMsg) with
      | none => ({ cfg := none, broker := [], conns := [] }, "cfg err")
      | some cfg =>
        ({ cfg := some cfg, broker := [], conns := [] },
         s!"cfg ok eff={showReq cfg.tlsRequired} pol={showPol cfg.certPolicy} tls={b01 cfg.hasTls} auth={b01 cfg.authEnabled}")
    | _, _, _, _, _, _ => (st, "bad-op")
  | ["http", l] =>
    match st.cfg, parseBool l with
    | some cfg, some l => (st, if httpGate cfg l = .forbidden403 then "403" else "routed")
    | _, _ => (st, "bad-op")
  | ["https", cert] =>
    match st.cfg, parseCert cert with
    | some cfg, some cert =>
      (st, match handshake cfg.certPolicy cert with
           | none => "hsfail"
           | some _ => if httpGate cfg true = .forbidden403 then "403" else "routed")
    | _, _ => (st, "bad-op")
  | ["conn", id] =>
    match id.toNat? with
    | some id => ({ st with conns := setConn id (Conn.fresh id) st.conns }, "conn")
    | none => (st, "bad-op")
  | "cb" :: id :: now :: ans :: rd :: cmd =>
    -- a command line whose bytes were received by reader generation `rd` (sent in the same segment as
    -- the IDENTIFY before it): the event `Ev.cmd rd now ans cmd`
    match st.cfg, id.toNat?, now.toInt?, parseAns ans, rd.toNat?, parseCmd cmd with
    | some cfg, some id, some now, some ans, some rd, some cmd =>
      match lookupConn id st.conns with
      | none => (st, "bad-op")
      | some c =>
        let r := stepEv driverExt cfg Nsq.Model.GateRegex.matcher { conn := c, broker := st.broker }
                   (.cmd rd now (fun _ => ans) cmd)
        let a := after r
        ({ st with broker := a.broker, conns := setConn id a.conn st.conns },
         s!"{"|".intercalate (r.replies.map showReply)} close={b01 r.close} q={showQuery r.query} tls={b01 r.conn.tls} st={showState r.conn.state} authed={b01 (hasAuthorizations r.conn)} broker={showBroker a.broker}")
    | _, _, _, _, _, _ => (st, "bad-op")
  | "c" :: id :: now :: ans :: cmd =>
    match st.cfg, id.toNat?, now.toInt?, parseAns ans, parseCmd cmd with
    | some cfg, some id, some now, some ans, some cmd =>
      match lookupConn id st.conns with
      | none => (st, "bad-op")
      | some c =>
        -- the harness sends this line after the previous reply: it is received by the current reader
        let r := stepEv driverExt cfg Nsq.Model.GateRegex.matcher { conn := c, broker := st.broker }
                   (.cmd c.rd now (fun _ => ans) cmd)
        let a := after r
        ({ st with broker := a.broker, conns := setConn id a.conn st.conns },
         s!"{"|".intercalate (r.replies.map showReply)} close={b01 r.close} q={showQuery r.query} tls={b01 r.conn.tls} st={showState r.conn.state} authed={b01 (hasAuthorizations r.conn)} broker={showBroker a.broker}")
    | _, _, _, _, _ => (st, "bad-op")
  | "cx" :: id :: now :: ans :: cmd =>
    match st.cfg, id.toNat?, now.toInt?, parseAns ans, parseCmd cmd with
    | some cfg, some id, some now, some ans, some cmd =>
      match lookupConn id st.conns with
      | none => (st, "bad-op")
      | some c =>
        let r := step driverExt cfg Nsq.Model.GateRegex.matcher (fun _ => ans) now c st.broker cmd
        let d := disconnect (after r).conn (after r).broker
        ({ st with broker := d.2, conns := setConn id d.1 st.conns },
         s!"{"|".intercalate (r.replies.map showReply)} close={b01 r.close} q={showQuery r.query} tls={b01 r.conn.tls} st={showState r.conn.state} authed={b01 (hasAuthorizations r.conn)} broker={showBroker d.2}")
    | _, _, _, _, _ => (st, "bad-op")
  | ["x", id] =>
    match id.toNat? with
    | some id =>
      match lookupConn id st.conns with
      | none => (st, "bad-op")
      | some c =>
        let d := disconnect c st.broker
        ({ st with broker := d.2, conns := setConn id d.1 st.conns }, s!"x broker={showBroker d.2}")
    | none => (st, "bad-op")
  | ["ia", gs, t, c] =>
    match parseGrants gs, unhexS t, unhexS c with
    | some gs, some t, some c => (st, b01 (isAllowed Nsq.Model.GateRegex.matcher t c gs))
    | _, _, _ => (st, "bad-op")
  | ["rx", p, t] =>
    match unhexS p, unhexS t with
    | some p, some t =>
      (st, s!"c={b01 (Nsq.Model.GateRegex.compiles p)} m={b01 (Nsq.Model.GateRegex.isMatch p t)}")
    | _, _ => (st, "bad-op")
  | ["aq", ha, hi, tls, hc, hs, hm] =>
    match unhex ha, unhex hi, unhex hc, unhex hs, unhex hm with
    | some authd, some ip, some cn, some secret, some method =>
      let r := Nsq.Model.AuthQuery.buildRequest authd ip cn secret (tls == "1") method
      let pre := Nsq.Model.Names.ascii "http://HOST"
      let uri := if pre.isPrefixOf r.url then r.url.drop pre.length else r.url
      -- what the server's url.ParseQuery makes of the raw query (everything after the first `?`)
      let rawq := (uri.dropWhile (· != 63)).drop 1
      let pairs := if r.post then r.form else (Nsq.Model.HttpApi.parseQuery rawq).getD []
      let showP := ",".intercalate (pairs.map (fun p => s!"{hex p.1}={hex p.2}"))
      -- net/http sends `/` for a URL without a path
      let path := if r.post then uri else uri.takeWhile (· != 63)
      (st, s!"P={b01 r.post} U={hex (if path.isEmpty then [47] else path)} F={if showP.isEmpty then "-" else showP}")
    | _, _, _, _, _ => (st, "bad-op")
  | ["anyq", n, start, bits] =>
    match n.toNat?, start.toNat? with
    | some n, some start =>
      let ok (i : Nat) : Bool := (bits.toList.drop i).head? == some '1'
      let r := Nsq.Model.AuthQuery.queryAny n start ok
      (st, s!"asked={if r.1.isEmpty then "-" else ",".intercalate (r.1.map toString)} got={match r.2 with | some i => toString i | none => "none"}")
    | _, _ => (st, "bad-op")
  | ["ttlq", t] =>
    match t.toInt? with
    | some ttl => (st, s!"s={(Nsq.Model.AuthQuery.ttlNs ttl + 500000000).fdiv 1000000000}")
    | none => (st, "bad-op")
  | _ => (st, "bad-op")

partial def loop (h : IO.FS.Stream) (out : IO.FS.Stream) (st : DState) : IO Unit := do
  let line ← h.getLine
  if line.isEmpty then return ()
  let (st', o) := stepLine st (line.dropRightWhile (· == '\n'))
  out.putStrLn o
  loop h out st'

def main : IO Unit := do
  let out ← IO.getStdout
  loop (← IO.getStdin) out { cfg := none, broker := [], conns := [] }
  out.flush
