def main : IO Unit := IO.println "stub"
