import Nsq.Model.Line
import Nsq.Model.AdminGate
import Nsq.Model.AdminFanout
import Nsq.Model.AdminProg
import Nsq.Model.Aggregate
import Nsq.Model.AggregateWire
import Nsq.Gen.AdminRoutes
import Nsq.Model.Fetch
import Nsq.Model.Latency
import Nsq.Model.ViewOrder
/-! Driver for engine E7 (nsqadmin): one operation per input line, one canonical answer line out.

  routes                      → the regenerated route table, `METHOD /path handler;…`
  gate k=v …                  → C17: status, upstream requests, notifications, config write
  view …                      → C18: see `Nsq.Model.AggregateWire`
  fan kind=k topic=h channel=h node=sym lk=… na=… nd=…  → C17: `AdminProg.runAction`: result, number of errors in the ErrList, requests phase by phase
  strfn canon|esc <hex>       → C17: `AdminGate.canon` (CanonicalMIMEHeaderKey) / `AdminFanout.esc` (url.QueryEscape), hex
  proxy on=b m=M q=<hex> who=… g=…  → C17: the graphite reverse proxy `GET /render`
  getv1 https=b mode=n        → C18: `Fetch.getV1` against a stub behaviour: outcome, requests seen on the plain / TLS port
  add topic|channel …         → C18: `TopicAgg.addAll` / `ChanAgg.add` on reports given directly (`AggregateWire.addLine`)
-/
open Nsq Nsq.Line Nsq.Model.AdminGate

namespace E7

def unhexStr (s : String) : Option String :=
  match unhex s with
  | some bs => String.fromUTF8? (ByteArray.mk bs.toArray)
  | none => none

def field (toks : List String) (k : String) : String :=
  match toks.find? (fun t => t.startsWith (k ++ "=")) with
  | some t => (t.drop (k.length + 1)).toString
  | none => ""

def splitList (s : String) (sep : Char) : List String :=
  if s == "-" || s == "" then [] else s.split (· == sep) |>.toList |>.map (·.toString)

def hexList (s : String) : List String :=
  (splitList s ',').filterMap unhexStr

def sortStrings (xs : List String) : List String :=
  xs.foldr (fun x acc =>
    let rec ins : List String → List String
      | [] => [x]
      | y :: ys => if x ≤ y then x :: y :: ys else y :: ins ys
    ins acc) []

def joinOr (xs : List String) (sep : String) : String :=
  if xs.isEmpty then "-" else String.intercalate sep xs

/-- Does a registered pattern match the request path? Returns the parameters. -/
def matchSegs : List String → List String → Option (List (String × String))
  | [], [] => some []
  | p :: ps, s :: ss =>
    if p.startsWith ":" then
      if s == "" then none else (matchSegs ps ss).map (fun r => ((p.drop 1).toString, s) :: r)
    else if p == s then matchSegs ps ss else none
  | _, _ => none

def renderRoutes : String :=
  String.intercalate ";" (Nsq.Gen.AdminRoutes.adminRoutes.map (fun r =>
    r.method ++ " /" ++ String.intercalate "/" r.segs ++ " " ++ r.handler))

open Nsq.Model.AdminFanout in
def parseWorld (toks : List String) : World :=
  let lks := (splitList (field toks "lk") ',').filterMap (fun t =>
    match t.split (· == ':') |>.toList |>.map (·.toString) with
    | [a, up, prods] => some { addr := a, up := up == "1", producers := splitList prods '+' : Lookupd }
    | [a, up, prods, pu] => some { addr := a, up := up == "1", producers := splitList prods '+', postUp := pu == "1" : Lookupd }
    | _ => none)
  let nds := (splitList (field toks "nd") ',').filterMap (fun t =>
    match t.split (· == ':') |>.toList |>.map (·.toString) with
    | [a, up, ht] => some { addr := a, up := up == "1", hasTopic := ht == "1" : Nsqd }
    | [a, up, ht, pu] => some { addr := a, up := up == "1", hasTopic := ht == "1", postUp := pu == "1" : Nsqd }
    | [a, up, ht, pu, rep] => some { addr := a, up := up == "1", hasTopic := ht == "1", postUp := pu == "1", reports := rep : Nsqd }
    | _ => none)
  { lookupds := lks, nsqdAddrs := splitList (field toks "na") ',', nsqds := nds }

open Nsq.Model.AdminFanout in
def renderReq : Nsq.Model.AdminFanout.Req → String
  | .get a p => "G:" ++ a ++ p
  | .post a p => "P:" ++ a ++ p

def errOf : Nsq.Model.AdminFanout.Err → ErrKind
  | .none => .none
  | .partialErr => .partialErr
  | .full => .full

open Nsq.Model.AdminFanout in
def gate (toks : List String) : String :=
  let method := field toks "m"
  let path := (splitList (field toks "p") ',').filterMap unhexStr
  let cands := Nsq.Gen.AdminRoutes.adminRoutes.filterMap (fun r =>
    (matchSegs r.segs path).map (fun ps => (r, ps)))
  match cands.find? (fun c => c.1.method == method) with
  | none =>
    -- httprouter: no route for the path → 404; a route under another method → 405, except that an OPTIONS request
    -- is answered by the router itself (`HandleOPTIONS`, 200 with an `Allow` header) — no handler runs in any case
    if cands.isEmpty then "404 - - 0" else if method == "OPTIONS" then "200 - - 0" else "405 - - 0"
  | some (r, params) =>
    match lookupHandler Nsq.Gen.AdminRoutes.adminHandlers r.handler with
    | none => "0 - - 0"
    | some sk =>
      let w := parseWorld toks
      let btopic := (unhexStr (field toks "btopic")).getD ""
      let bchan := (unhexStr (field toks "bchan")).getD ""
      let param := fun (k : String) => match params.find? (·.1 == k) with | some kv => kv.2 | none => ""
      let others := hexList (field toks "other")
      let lfail := hexList (field toks "lfail")
      let actionFor : String → Option Action := fun name =>
        if name == "CreateTopicChannel" then
          some { kind := if bchan == "" then .createTopic else .createChannel, topic := btopic, channel := bchan }
        else if name == "TombstoneNodeForTopic" then
          some { kind := .tombstone, topic := btopic, node := param "node" }
        else (kindOfName name).map (fun k => { kind := k, topic := param "topic", channel := param "channel" })
      let conf : Conf :=
        { adminUsers := hexList (field toks "users"),
          aclHeader := (unhexStr (field toks "acl")).getD "",
          cidrSet := field toks "cidr" == "1",
          lookupdMode := lookupdMode w,
          notifyOn := field toks "notify" == "1" }
      let hdrs := (splitList (field toks "hdrs") ',').filterMap (fun t =>
        match t.split (· == ':') |>.toList |>.map (·.toString) with
        | [n, v] => match unhexStr n, unhexStr v with
          | some n, some v => some (n, v)
          | _, _ => none
        | _ => none)
      let req : Nsq.Model.AdminGate.Req :=
        { method := method, headers := hdrs,
          action := (unhexStr (field toks "action")).getD "",
          opt := param "opt",
          nonEmptyParams := (params.filter (fun kv => kv.2 != "")).map (·.1),
          nonEmptyBody := (if btopic != "" then ["Topic"] else []) ++ (if bchan != "" then ["Channel"] else []) }
      let env : Env :=
        { conf := conf, req := req, inNet := field toks "innet" == "1",
          bodyOk := field toks "body" == "1",
          upstreamErr := fun name _ => match actionFor name with
            | some a => errOf (result w a)
            | none => .none,
          localErr := fun name _ => lfail.contains name,
          otherCond := fun t => others.contains t }
      let (status, obs) := run env sk
      let ups := obs.filterMap (fun o => match o with | .upstream n => some n | _ => none)
      -- the index page hands the value of the admin check to its template (`var IS_ADMIN = …`)
      let showsFlag := r.handler == "indexHandler" && status == 200 && ups.isEmpty && method == "GET" &&
        (paths sk).all (fun p => p.2.1.contains (.pureCall "isAuthorizedAdminRequest"))
      let reqs :=
        if showsFlag then (if isAdmin conf req then "isadmin=true" else "isadmin=false")
        else if ups.all (fun n => (actionFor n).isSome) then
          joinOr (sortStrings (ups.flatMap (fun n => match actionFor n with
            | some a => ((requests w a).filter (observable w)).map renderReq
            | none => []))) "|"
        else "*"
      let notes := obs.filterMap (fun o => match o with | .notify a => some a | _ => none)
      let cfgw := if obs.contains .configWrite then "1" else "0"
      s!"{status} {reqs} {joinOr (sortStrings notes) ","} {cfgw}"

/-- Group consecutive requests with the same phase key (all GETs of a lookup; POSTs by target kind and path);
inside a group the order is not fixed (goroutines / order of the producer list): sorted. -/
def phaseKey (r : Nsq.Model.AdminProg.PReq) : String :=
  if !r.post then "G" else (if r.target == .lookupd then "PL" else "PN") ++ r.path

def groupPhases : List Nsq.Model.AdminProg.PReq → List (String × List String) → List (String × List String)
  | [], acc => acc.reverse
  | r :: rest, [] => groupPhases rest [(phaseKey r, [Nsq.Model.AdminProg.renderReq r])]
  | r :: rest, (k, g) :: acc =>
    if phaseKey r == k then groupPhases rest ((k, Nsq.Model.AdminProg.renderReq r :: g) :: acc)
    else groupPhases rest ((phaseKey r, [Nsq.Model.AdminProg.renderReq r]) :: (k, g) :: acc)

open Nsq.Model.AdminFanout Nsq.Model.AdminProg in
def fan (toks : List String) : String :=
  match kindOfString (field toks "kind") with
  | none => "bad-op"
  | some k =>
    let w := parseWorld toks
    let a : Action := { kind := k, topic := (unhexStr (field toks "topic")).getD "",
                        channel := (unhexStr (field toks "channel")).getD "", node := field toks "node" }
    let st := runAction w a
    let res := resultOf (progOf k) st
    let seen := st.reqs.filter (fun r => w.lookupds.any (·.addr == r.addr) || w.nsqds.any (·.addr == r.addr))
    let phases := (groupPhases seen []).map (fun kg => String.intercalate "|" (sortStrings kg.2))
    let rs := match res.1 with | .none => "none" | .partialErr => "partial" | .full => "full"
    s!"{rs} errs={res.2} {joinOr phases ";"}"

/-- `strfn canon <hex>` | `strfn esc <hex>`: the two string functions of the standard library the C17 model
contains (`textproto.CanonicalMIMEHeaderKey`, `url.QueryEscape`); answer in hex. -/
def hexOfString (s : String) : String :=
  if s == "" then "-" else
  String.join (s.toUTF8.toList.map (fun b =>
    String.ofList [Nsq.Model.AdminFanout.hexDigit (b.toNat / 16), Nsq.Model.AdminFanout.hexDigit (b.toNat % 16)])) |>.toLower

def strfn (toks : List String) : String :=
  match toks with
  | [f, h] =>
    match unhexStr (if h == "-" then "" else h) with
    | none => "bad-op"
    | some s =>
      if f == "canon" then hexOfString (Nsq.Model.AdminGate.canon s)
      else if f == "esc" then hexOfString (Nsq.Model.AdminFanout.esc s)
      else "bad-op"
  | _ => "bad-op"

/-- `proxy on=b m=M q=<hex> who=… g=<200|404|500|down>`: the graphite reverse proxy `GET /render`. Registered only with
`--proxy-graphite` (the regenerated table lists it: `Route.isProxy`), under GET only; it forwards the request it
received — same method, path and query — to the graphite URL with that URL's basic-auth user, hands back
graphite's status (502 when graphite cannot be reached), looks at no identity and asks no nsqd / nsqlookupd. -/
def proxy (toks : List String) : String :=
  let registered := Nsq.Gen.AdminRoutes.adminRoutes.any (fun r => r.isProxy && r.method == "GET" && r.segs == ["render"])
  let others := Nsq.Gen.AdminRoutes.adminRoutes.any (fun r => r.segs == ["render"] && !r.isProxy)
  if !registered || others then "bad-table"
  else
    let m := field toks "m"
    let q := (unhexStr (field toks "q")).getD ""
    let g := field toks "g"
    if field toks "on" != "1" then "404 - auth=- nsq=0"
    else if m != "GET" then "405 - auth=- nsq=0"
    else if g == "down" then "502 - auth=- nsq=0"
    else s!"{g} GET:/render{if q == "" then "" else "?" ++ q} auth=guser nsq=0"

def getv1 (toks : List String) : String :=
  match (field toks "mode").toNat? with
  | none => "bad-op"
  | some mode =>
    let start : Nsq.Model.Fetch.Endpoint := if field toks "https" == "1" then ⟨true, 2⟩ else ⟨false, 1⟩
    let r := Nsq.Model.Fetch.getV1 (Nsq.Model.Fetch.stub mode) start
    let plain := (r.2.filter (fun e => !e.https && e.port == 1)).length
    let tls := (r.2.filter (fun e => e.https && e.port == 2)).length
    (if r.1 == .ok then "ok" else "failed") ++ s!" {plain} {tls}"

/-- `lat <fresh|first> <k> <p:…> × k`: the shape of the latency aggregate (`Nsq.Model.Latency`, tree with F53). -/
def lat (toks : List String) : String :=
  match toks with
  | start :: _ :: docs =>
    let parsed := docs.map (fun d => Nsq.Model.AggregateWire.e2eTok [d])
    if parsed.any (·.isNone) then "bad-op"
    else
      let ds : List (List Nsq.Model.Latency.Pct) := parsed.filterMap (fun x => x.map (·.1.2))
      let render (l : List Nsq.Model.Latency.Pct) : String :=
        String.intercalate "," (((l.map Nsq.Model.Latency.key).mergeSort (fun a b => decide (a ≤ b))).map toString)
      match Nsq.Model.Latency.decodeAll true ds with
      | .error _ => "panic decode"
      | .ok dec =>
        let r :=
          if start == "fresh" then Nsq.Model.Latency.addAll [] dec
          else match dec with
            | [] => .ok []
            | d0 :: rest => Nsq.Model.Latency.addAll d0 rest
        match r with
        | .error _ => "panic add"
        | .ok l => if dec.isEmpty then "ok nil" else "ok " ++ render l
  | _ => "bad-op"

/-- `less host <a> <b>` | `less topo <node regionOfNode zoneOfNode region zone> × 2`: the comparators. -/
def less (toks : List String) : String :=
  let u (t : String) : String := if t == "-" then "" else t
  match toks with
  | ["host", a, b] => if Nsq.Model.ViewOrder.hostLess (u a) (u b) then "1" else "0"
  | ["topo", n1, nr1, nz1, r1, z1, n2, nr2, nz2, r2, z2] =>
    if Nsq.Model.ViewOrder.topoLess ⟨u n1, u nr1, u nz1, u r1, u z1⟩ ⟨u n2, u nr2, u nz2, u r2, u z2⟩ then "1" else "0"
  | _ => "bad-op"

end E7

def stepLine (line : String) : String :=
  match words line with
  | ["routes"] => E7.renderRoutes
  | "gate" :: toks => E7.gate toks
  | "view" :: toks => Nsq.Model.AggregateWire.viewLine toks
  | "fan" :: toks => E7.fan toks
  | "getv1" :: toks => E7.getv1 toks
  | "strfn" :: toks => E7.strfn toks
  | "proxy" :: toks => E7.proxy toks
  | "lat" :: toks => E7.lat toks
  | "less" :: toks => E7.less toks
  | "add" :: toks => Nsq.Model.AggregateWire.addLine toks
  | "latval" :: _ => "marshal-ok"   -- no model of the float values: the line states what the property demands
  | _ => "bad-op"

partial def loop (h : IO.FS.Stream) (out : IO.FS.Stream) : IO Unit := do
  let line ← h.getLine
  if line.isEmpty then return ()
  out.putStrLn (stepLine (line.dropEndWhile (· == '\n')).toString)
  loop h out

def main : IO Unit := do
  let out ← IO.getStdout
  loop (← IO.getStdin) out
  out.flush
