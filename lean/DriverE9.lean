import Nsq.Model.DiskQueue
import Nsq.Model.Line
/-
Driver of engine E9 (go-diskqueue model). One op per line, one canonical answer line per op:

  <result> st=rf,rp,wf,wp,depth,nrf,nrp,mbr,ropen md=depth,rf,rp,wf,wp|none dat=i:len:fnv;… bad=i:len:fnv;…

ops: new/reopen <maxBytesPerFile> <min> <max> <syncEvery> · put <hex> · recv · depth · empty · tick ·
close · delete · crash · (queue closed:) trunc <i> <n> · poke <i> <off> <byte> · rmfile <i> · rmmeta ·
append <i> <hex>
-/
open Nsq.Line Nsq.Model.DiskQueue

def fnv (b : List UInt8) : UInt64 :=
  b.foldl (fun h x => (h ^^^ x.toUInt64) * 1099511628211) 14695981039346656037

def showFiles (f : Nat → Option (List UInt8)) (hi : Nat) : String :=
  let items := (List.range (hi + 1)).filterMap (fun i =>
    match f i with
    | some c => some s!"{i}:{c.length}:{(fnv c).toNat}"
    | none => none)
  if items.isEmpty then "-" else ";".intercalate items

def showMeta : Option Meta → String
  | none => "none"
  | some m => s!"{m.depth},{m.rf},{m.rp},{m.wf},{m.wp}"

def showSt (s : St) (hi : Nat) : String :=
  s!"st={s.rf},{s.rp},{s.wf},{s.wp},{s.depth},{s.nrf},{s.nrp},{s.mbr},{if s.rOpen then 1 else 0},{if s.rOpen then s.rbuf.length else 0} " ++
  s!"md={showMeta s.fs.md} dat={showFiles s.fs.dat hi} bad={showFiles s.fs.bad hi}"

def showFS (fs : FS) (hi : Nat) : String :=
  s!"md={showMeta fs.md} dat={showFiles fs.dat hi} bad={showFiles fs.bad hi}"

structure D where
  s : St := { cfg := { maxBytesPerFile := 0, minMsgSize := 0, maxMsgSize := 0, syncEvery := 0 }, fs := FS.empty, exited := true }
  hi : Nat := 2

def D.upd (d : D) (s : St) : D := { s := s, hi := max d.hi (max (s.wf + 2) (s.rf + 2)) }

def cfgOf (a b c e : String) : Option Cfg :=
  match a.toNat?, b.toNat?, c.toNat?, e.toNat? with
  | some a, some b, some c, some e => some { maxBytesPerFile := a, minMsgSize := b, maxMsgSize := c, syncEvery := e }
  | _, _, _, _ => none

def withFS (d : D) (f : FS → FS) : D := { d with s := { d.s with fs := f d.s.fs } }

def step (d : D) (w : List String) : D × String :=
  match w with
  | ["new", a, b, c, e] =>
    match cfgOf a b c e with
    | some cfg => let d' := ({ } : D).upd (openQ cfg FS.empty); (d', "ok " ++ showSt d'.s d'.hi)
    | none => (d, "bad-op")
  | ["reopen", a, b, c, e] =>
    match cfgOf a b c e with
    | some cfg => let d' := d.upd (openQ cfg d.s.fs); (d', "ok " ++ showSt d'.s d'.hi)
    | none => (d, "bad-op")
  | ["put", h] =>
    match unhex h with
    | some b =>
      let r := put d.s b
      let d' := d.upd r.2
      ((d', (match r.1 with | .ok => "ok " | .invalid => "invalid " | .exiting => "exiting ") ++ showSt d'.s d'.hi))
    | none => (d, "bad-op")
  | ["recv"] =>
    let r := recv d.s
    let d' := d.upd r.2
    (d', (match r.1 with | some b => "msg:" ++ hex b ++ " " | none => "none ") ++ showSt d'.s d'.hi)
  | ["depth"] => (d, s!"depth:{d.s.depth} " ++ showSt d.s d.hi)
  | ["empty"] =>
    let r := empty d.s
    let d' := d.upd r.2
    (d', (if r.1 then "ok " else "exiting ") ++ showSt d'.s d'.hi)
  | ["tick"] => let d' := d.upd (tick d.s); (d', "ok " ++ showSt d'.s d'.hi)
  | ["close"] => let d' := d.upd (close d.s); (d', "ok " ++ showSt d'.s d'.hi)
  | ["delete"] => let d' := d.upd (delete d.s); (d', "ok " ++ showSt d'.s d'.hi)
  | ["crash"] => let d' := d.upd { d.s with exited := true, rOpen := false }; (d', "ok " ++ showFS d'.s.fs d'.hi)
  | ["trunc", i, n] =>
    match i.toNat?, n.toNat? with
    | some i, some n =>
      let d' := withFS d (fun fs => { fs with dat := match fs.dat i with
        | some c => setFile fs.dat i (some (c.take n))
        | none => fs.dat })
      ({ d' with hi := max d'.hi (i + 1) }, "ok " ++ showFS d'.s.fs (max d'.hi (i + 1)))
    | _, _ => (d, "bad-op")
  | ["poke", i, off, v] =>
    match i.toNat?, off.toNat?, v.toNat? with
    | some i, some off, some v =>
      let d' := withFS d (fun fs => { fs with dat := match fs.dat i with
        | some c => if off < c.length then setFile fs.dat i (some (c.set off v.toUInt8)) else fs.dat
        | none => fs.dat })
      (d', "ok " ++ showFS d'.s.fs d'.hi)
    | _, _, _ => (d, "bad-op")
  | ["rmfile", i] =>
    match i.toNat? with
    | some i => let d' := withFS d (fun fs => { fs with dat := setFile fs.dat i none }); (d', "ok " ++ showFS d'.s.fs d'.hi)
    | none => (d, "bad-op")
  | ["rmmeta"] => let d' := withFS d (fun fs => { fs with md := none }); (d', "ok " ++ showFS d'.s.fs d'.hi)
  | ["setmeta", a, b, c, e, f] =>
    match a.toInt?, b.toNat?, c.toNat?, e.toNat?, f.toNat? with
    | some a, some b, some c, some e, some f =>
      let d' := withFS d (fun fs => { fs with md := some { depth := a, rf := b, rp := c, wf := e, wp := f } })
      let d' := { d' with hi := max d'.hi (max (e + 2) (b + 2)) }
      (d', "ok " ++ showFS d'.s.fs d'.hi)
    | _, _, _, _, _ => (d, "bad-op")
  | ["append", i, h] =>
    match i.toNat?, unhex h with
    | some i, some b =>
      let d' := withFS d (fun fs => { fs with dat := setFile fs.dat i (some (fs.content i ++ b)) })
      ({ d' with hi := max d'.hi (i + 1) }, "ok " ++ showFS d'.s.fs (max d'.hi (i + 1)))
    | _, _ => (d, "bad-op")
  | _ => (d, "bad-op")

partial def loop (h : IO.FS.Stream) (out : IO.FS.Stream) (d : D) : IO Unit := do
  let line ← h.getLine
  if line.isEmpty then return ()
  let l := line.dropRightWhile (· == '\n')
  let r := step d (words l)
  out.putStrLn r.2
  loop h out r.1

def main : IO Unit := do
  let out ← IO.getStdout
  loop (← IO.getStdin) out {}
  out.flush
