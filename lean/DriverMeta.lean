import Nsq.Model.Line
import Nsq.Model.MetaAccept
/-! Driver for engine E5/meta (C06): one client-level operation per line in, one canonical answer out.
The model is the tree WITH fixes/F6_persist_after_delete.patch (`fix = true`). -/
open Nsq Nsq.Line Nsq.Model.FS Nsq.Model.Meta

structure DS where
  s : Sys B
  lo : Nat          -- index in `s.hist` of the state of the last completed synchronous persist

def fixOn : Bool := true

def datDoc (s : Sys B) : Option Doc := s.fs.dat.map (·.1)

def fileFlag (s : Sys B) (t : String) (c : Option String) : String :=
  match datDoc s with
  | none => "-"
  | some d =>
    match d.find? (·.name == t), c with
    | none, _ => "-"
    | some e, none => bit e.paused
    | some e, some c => match e.chans.find? (·.name == c) with | none => "-" | some x => bit x.paused

def fileGone (s : Sys B) (t : String) (c : Option String) : String :=
  if fileFlag s t c == "-" then "1" else "0"

def isSyncOp (w : List String) : Bool :=
  match w with
  | "pausetopic" :: _ => true | "pausechan" :: _ => true
  | "deletetopic" :: _ => true | "deletechan" :: _ => true
  | _ => false

def answer (s : Sys B) (w : List String) (code : Nat) : String :=
  if code != 200 then toString code else
  match w with
  | ["pausetopic", t, _] => s!"200 file={fileFlag s t none}"
  | ["pausechan", t, c, _] => s!"200 file={fileFlag s t (some c)}"
  | ["deletetopic", t] => s!"200 gone={fileGone s t none}"
  | ["deletechan", t, c] => s!"200 gone={fileGone s t (some c)}"
  | _ => "200"

def persistUntilSnapped : Nat → Sys B → Sys B
  | 0, s => s
  | fuel + 1, s =>
    match s.persist with
    | some p => if p.phase = .reading then persistUntilSnapped fuel (runSteps fixOn s [.persist .read]) else s
    | none => s

def stepLine (d : DS) (line : String) : DS × String :=
  let w := words line
  match w with
  | ["start"] =>
    if d.s.alive then (d, "bad-op") else
    let s := runSteps fixOn d.s [.start]
    ({ s := s, lo := s.hist.length - 1 }, if s.lastStart == .ok then "ok" else "startfail")
  | ["second"] =>
    let s := runSteps fixOn d.s [.start]
    ({ d with s := s }, if s.lastStart == .locked then "refused" else "started")
  | ["idle"] =>
    let s := drain fixOn d.s
    ({ s := s, lo := s.hist.length - 1 },
     s!"dat={match datDoc s with | none => "absent" | some x => showDoc x} mem={showDoc (snap s.mem)}")
  | ["exitpark", pt] =>
    -- NSQD.Exit started and parked at a verif point: after the snapshot of its persist, or (persist done) while
    -- closing the topics; the flock is still held
    if !d.s.alive then (d, "bad-op") else
    let s0 := drain fixOn d.s
    let s1 := runSteps fixOn s0 [.exitBegin, .persist (.beginHandler 0)]
    let s2 := if pt == "meta.persist.afterSnapshot" then
        persistUntilSnapped (s1.mem.length + 2) s1
      else runPersist fixOn s1
    ({ d with s := s2 }, if s2.exiting then "parked" else "bad-op")
  | ["exitrelease"] =>
    let s1 := drainHandlers fixOn 4 (match d.s.persist with | some _ => runPersist fixOn d.s | none => d.s)
    let lo := s1.hist.length - 1
    let s2 := runSteps fixOn s1 [.exitEnd]
    ({ s := s2, lo := lo }, if s2.alive then "bad-op" else "exited")
  | "arm" :: _ => (d, "ok")
  | "force" :: _ => (d, "ok")
  | ["kill"] => ({ d with s := runSteps fixOn d.s [.kill] }, "ok")
  | "dead" :: op =>
    match opSteps d.s.mem op with
    | none => (d, "bad-op")
    | some (sts, _) => ({ d with s := runSteps fixOn (runSteps fixOn d.s sts) [.kill] }, "dead")
  | "killduring" :: _ :: op =>
    match opSteps d.s.mem op with
    | none => (d, "bad-op")
    | some (sts, _) => ({ d with s := runSteps fixOn (runSteps fixOn d.s sts) [.kill] }, "killed")
  | ["restart", obs] =>
    match parseDoc obs with
    | none => (d, "bad-op")
    | some o =>
      if d.s.alive then (d, "bad-op") else
      let window := d.s.hist.drop d.lo
      if allowedIn window o then
        let s0 := { d.s with fs := { d.s.fs with dat := some (toyCodec.marshal (canonDoc o)) } }
        let s := runSteps fixOn s0 [.start]
        ({ s := s, lo := s.hist.length - 1 }, "ok")
      else (d, s!"bad: loaded state is not a cut of the {window.length} live states since the last synchronous persist")
  | _ =>
    if !d.s.alive then (d, "bad-op") else
    match opSteps d.s.mem w with
    | none => (d, "bad-op")
    | some (sts, code) =>
      let s1 := runSteps fixOn d.s sts
      if isSyncOp w && code == 200 then
        let s2 := drainHandlers fixOn (s1.handlers.length + 1) s1
        ({ s := s2, lo := s2.hist.length - 1 }, answer s2 w code)
      else ({ d with s := s1 }, answer s1 w code)

partial def loop (h : IO.FS.Stream) (out : IO.FS.Stream) (d : DS) : IO Unit := do
  let line ← h.getLine
  if line.isEmpty then return ()
  let l := line.dropRightWhile (· == '\n')
  if l == "reset" then
    out.putStrLn "ok"
    loop h out { s := Sys.init, lo := 0 }
  else
    let (d', o) := stepLine d l
    out.putStrLn o
    loop h out d'

def main : IO Unit := do
  let out ← IO.getStdout
  loop (← IO.getStdin) out { s := Sys.init, lo := 0 }
  out.flush
