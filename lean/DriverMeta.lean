import Nsq.Model.Line
import Nsq.Model.MetaAccept
import Nsq.Model.MetaLoad
/-! Driver for engine E5/meta (C06): one client-level operation per line in, one canonical answer out.
The model is the tree WITH fixes/F6_persist_after_delete.patch (`fix = true`). -/
open Nsq Nsq.Line Nsq.Model.FS Nsq.Model.Meta Nsq.Model.MetaLoad

structure DS where
  s : Sys B
  lo : Nat          -- index in `s.hist` of the state of the last completed synchronous persist
  lm : Mem := []    -- (load legs) the maps after the last `load`

def fixOn : Bool := true

def datDoc (s : Sys B) : Option Doc := s.fs.dat.map (·.1)

def fileFlag (s : Sys B) (t : String) (c : Option String) : String :=
  match datDoc s with
  | none => "-"
  | some d =>
    match d.find? (·.name == t), c with
    | none, _ => "-"
    | some e, none => bit e.paused
    | some e, some c => match e.chans.find? (·.name == c) with | none => "-" | some x => bit x.paused

def fileGone (s : Sys B) (t : String) (c : Option String) : String :=
  if fileFlag s t c == "-" then "1" else "0"

def isSyncOp (w : List String) : Bool :=
  match w with
  | "pausetopic" :: _ => true | "pausechan" :: _ => true
  | "deletetopic" :: _ => true | "deletechan" :: _ => true
  | _ => false

def answer (s : Sys B) (w : List String) (code : Nat) : String :=
  if code != 200 then toString code else
  match w with
  | ["pausetopic", t, _] => s!"200 file={fileFlag s t none}"
  | ["pausechan", t, c, _] => s!"200 file={fileFlag s t (some c)}"
  | ["deletetopic", t] => s!"200 gone={fileGone s t none}"
  | ["deletechan", t, c] => s!"200 gone={fileGone s t (some c)}"
  | _ => "200"

def persistUntilSnapped : Nat → Sys B → Sys B
  | 0, s => s
  | fuel + 1, s =>
    match s.persist with
    | some p => if p.phase = .reading then persistUntilSnapped fuel (runSteps fixOn s [.persist .read]) else s
    | none => s


/-! ### round 6: `load` / `reload` / `persistfault` / `new` (Model.MetaLoad) -/

def nameHex (s : String) : String := "x" ++ (if s.isEmpty then "" else hex s.toUTF8.toList)
def unName (s : String) : Option String :=
  if !s.startsWith "x" then none else
  match unhex (if s.length == 1 then "-" else (s.drop 1).toString) with
  | none => none
  | some b => String.fromUTF8? (ByteArray.mk b.toArray)

def sortStr (l : List String) : List String := sortBy (fun a b => decide (a < b)) l
def joinOr (l : List String) (sep : String) : String := if l.isEmpty then "." else sep.intercalate l

def showMemX (m : Mem) : String :=
  joinOr (sortStr (m.map (fun t => nameHex t.name ++ ":" ++ bit t.paused ++ ":" ++ bit t.eph ++ "[" ++
    ",".intercalate (sortStr (t.chans.map (fun c => nameHex c.name ++ ":" ++ bit c.paused ++ ":" ++ bit c.eph))) ++ "]"))) ";"
def showDocX (d : Doc) : String :=
  joinOr (sortStr (d.map (fun t => nameHex t.name ++ ":" ++ bit t.paused ++ "[" ++
    ",".intercalate (sortStr (t.chans.map (fun c => nameHex c.name ++ ":" ++ bit c.paused))) ++ "]"))) ";"

def parseChanX (s : String) : Option ChanM :=
  match s.splitOn ":" with
  | [n, f] => match unName n, parseFlag f with
    | some n, some b => some ⟨n, b⟩
    | _, _ => none
  | _ => none
def parseTopicX (s : String) : Option TopicM :=
  match s.splitOn "[" with
  | [hd, tl] =>
    match hd.splitOn ":" with
    | [n, f] =>
      let body := (tl.dropRightWhile (· == ']'))
      let cs := if body.isEmpty then some [] else (body.splitOn ",").mapM parseChanX
      match unName n, parseFlag f, cs with
      | some n, some b, some cs => some ⟨n, b, cs⟩
      | _, _, _ => none
    | _ => none
  | _ => none
/-- the decoded document in file order; `.` = no topics -/
def parseDocX (s : String) : Option Doc := if s = "." then some [] else (s.splitOn ";").mapM parseTopicX

def showLoad (r : LoadRes) : String :=
  match r.mem with
  | none => "refuse"
  | some m => s!"ok mem={showMemX m} snap={showDocX (snap m)}"

/-- bytes that `encoding/json` rejects, in the toy codec -/
def badBytes : B := ([], some 0)

def loadLine (d : DS) (w : List String) : DS × String :=
  match w with
  | ["load", kind, _, doc] =>
    let fc : Option (FileContent B) :=
      if kind == "absent" then some .absent
      else if kind == "dir" then some .unreadable
      else if kind == "bytes" then
        (if doc == "-" then some (.present badBytes) else (parseDocX doc).map (fun x => .present (toyCodec.marshal x)))
      else none
    match fc with
    | none => (d, "bad-op")
    | some fc =>
      let r := startOn toyCodec .dir false fc
      match r with
      | none => (d, "newfail")
      | some r => ({ d with lm := (r.mem.getD []) }, showLoad r)
  | ["reload"] =>
    -- PersistMetadata right after the load, graceful stop, next start
    let r := load toyCodec (.present (toyCodec.marshal (snap d.lm)))
    ({ d with lm := (r.mem.getD []) }, showLoad r)
  | ["persistfault", what] =>
    let fs0 : FS B := { dat := some ([⟨"old", false, []⟩], none), tmps := [] }
    let doc : Doc := [⟨"t0", false, [⟨"c0", false⟩]⟩]
    let out : Option POutcome := if what == "rename" then some .renameFails else if what == "open" then some .openFails
      else if what == "sync" then some .syncFails else if what == "write" then some (.writeFails 3) else none
    match out with
    | none => (d, "bad-op")
    | some out =>
      let r := persistOnce toyCodec fs0 5 doc out
      let base := s!"err={bit (!r.2)} dat={if r.1.dat == fs0.dat then "unchanged" else "changed"}"
      if what == "rename" then
        -- the handlers store the flag first (MemStep.pauseTopic / pauseChan), persist, and answer `pauseAnswer`
        (d, base ++ s!" tmpcomplete={bit (r.1.tmp 5 == some (toyCodec.marshal doc))} pause={pauseAnswer r.2},{pauseAnswer r.2} memflag=1")
      else (d, base)
  | ["new", what] =>
    let good : FileContent B := .present (toyCodec.marshal [⟨"t0", false, []⟩])
    let r : Option (Option LoadRes × String) :=
      if what == "missing" then some (startOn toyCodec .missing false good, " created=0")
      else if what == "file" then some (startOn toyCodec .regularFile false good, " untouched=1")
      else if what == "held" then some (startOn toyCodec .dir true good, " untouched=1")
      else none
    match r with
    | none => (d, "bad-op")
    | some (none, sfx) => (d, "lockerror" ++ sfx)
    | some (some lr, sfx) => (d, "locked " ++ (if lr.mem.isNone then "refuse" else "ok") ++ sfx)
  | _ => (d, "bad-op")

def stepLine (d : DS) (line : String) : DS × String :=
  let w := words line
  match w with
  | "load" :: _ => loadLine d w
  | ["reload"] => loadLine d w
  | "persistfault" :: _ => loadLine d w
  | "new" :: _ => loadLine d w
  | ["start"] =>
    if d.s.alive then (d, "bad-op") else
    let s := runSteps fixOn d.s [.start]
    ({ s := s, lo := s.hist.length - 1 }, if s.lastStart == .ok then "ok" else "startfail")
  | ["second"] =>
    let s := runSteps fixOn d.s [.start]
    ({ d with s := s }, if s.lastStart == .locked then "refused" else "started")
  | ["idle"] =>
    let s := drain fixOn d.s
    ({ s := s, lo := s.hist.length - 1 },
     s!"dat={match datDoc s with | none => "absent" | some x => showDoc x} mem={showDoc (snap s.mem)}")
  | ["exitpark", pt] =>
    -- NSQD.Exit started and parked at a verif point: after the snapshot of its persist, or (persist done) while
    -- closing the topics; the flock is still held
    if !d.s.alive then (d, "bad-op") else
    let s0 := drain fixOn d.s
    let s1 := runSteps fixOn s0 [.exitBegin, .persist (.beginHandler 0)]
    let s2 := if pt == "meta.persist.afterSnapshot" then
        persistUntilSnapped (s1.mem.length + 2) s1
      else runPersist fixOn s1
    ({ d with s := s2 }, if s2.exiting then "parked" else "bad-op")
  | ["exitrelease"] =>
    let s1 := drainHandlers fixOn 4 (match d.s.persist with | some _ => runPersist fixOn d.s | none => d.s)
    let lo := s1.hist.length - 1
    let s2 := runSteps fixOn s1 [.exitEnd]
    ({ s := s2, lo := lo }, if s2.alive then "bad-op" else "exited")
  | "arm" :: _ => (d, "ok")
  | "force" :: _ => (d, "ok")
  | ["kill"] => ({ d with s := runSteps fixOn d.s [.kill] }, "ok")
  | "dead" :: op =>
    match opSteps d.s.mem op with
    | none => (d, "bad-op")
    | some (sts, _) => ({ d with s := runSteps fixOn (runSteps fixOn d.s sts) [.kill] }, "dead")
  | "killduring" :: _ :: op =>
    match opSteps d.s.mem op with
    | none => (d, "bad-op")
    | some (sts, _) => ({ d with s := runSteps fixOn (runSteps fixOn d.s sts) [.kill] }, "killed")
  | ["restart", obs] =>
    match parseDoc obs with
    | none => (d, "bad-op")
    | some o =>
      if d.s.alive then (d, "bad-op") else
      let window := d.s.hist.drop d.lo
      if allowedIn window o then
        let s0 := { d.s with fs := { d.s.fs with dat := some (toyCodec.marshal (canonDoc o)) } }
        let s := runSteps fixOn s0 [.start]
        ({ s := s, lo := s.hist.length - 1 }, "ok")
      else (d, s!"bad: loaded state is not a cut of the {window.length} live states since the last synchronous persist")
  | _ =>
    if !d.s.alive then (d, "bad-op") else
    match opSteps d.s.mem w with
    | none => (d, "bad-op")
    | some (sts, code) =>
      let s1 := runSteps fixOn d.s sts
      if isSyncOp w && code == 200 then
        let s2 := drainHandlers fixOn (s1.handlers.length + 1) s1
        ({ s := s2, lo := s2.hist.length - 1 }, answer s2 w code)
      else ({ d with s := s1 }, answer s1 w code)

partial def loop (h : IO.FS.Stream) (out : IO.FS.Stream) (d : DS) : IO Unit := do
  let line ← h.getLine
  if line.isEmpty then return ()
  let l := line.dropRightWhile (· == '\n')
  if l == "reset" then
    out.putStrLn "ok"
    loop h out { s := Sys.init, lo := 0 }
  else
    let (d', o) := stepLine d l
    out.putStrLn o
    loop h out d'

def main : IO Unit := do
  let out ← IO.getStdout
  loop (← IO.getStdin) out { s := Sys.init, lo := 0 }
  out.flush
