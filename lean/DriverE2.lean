import Nsq.Model.Line
import Nsq.Model.Chan
import Nsq.Model.ChanNsqd
import Nsq.Model.ChanInv
import Nsq.Model.Pump
import Nsq.Model.TopicPause
import Nsq.Model.TopicEph
import Nsq.Model.ChanStats
/-! Driver for engine E2 (nsqd / topic / channel / client state machine).
One operation per input line, one canonical answer line out (DESIGN Appendix B). -/
open Nsq Nsq.Line
open Nsq.Model.Chan (Chan Client Entry Out Conf Loc Env findC findE isInflight isDeferred)
open Nsq.Model.ChanNsqd

def nat? (s : String) : Option Nat := s.toNat?
def int? (s : String) : Option Int := s.toInt?

def joinSp (l : List String) : String := " ".intercalate l

def insSorted (lt : α → α → Bool) (x : α) : List α → List α
  | [] => [x]
  | y :: ys => if lt x y then x :: y :: ys else y :: insSorted lt x ys
def sortBy (lt : α → α → Bool) (l : List α) : List α := l.foldr (insSorted lt) []

def showOut : Out → String
  | .ok => "ok"
  | .msg a => s!"msg {Nsq.Model.Chan.wireAttempts a}"
  | .err code fatal => s!"{code} {if fatal then "fatal" else "nonfatal"}"
  | .ids l => joinSp ("ids" :: l.map toString)
  | .reject why => s!"REJECT {why}"

def showSorted : Out → String
  | .ids l => joinSp ("ids" :: (sortBy (· < ·) l).map toString)
  | o => showOut o

def b (x : Bool) : String := if x then "1" else "0"

def dumpChan (c : Chan) : String :=
  let es := sortBy (fun (a b : Entry) => a.id < b.id) c.msgs
  let infl := es.filterMap (fun e => match e.loc with
    | .inflight k p d => some s!"{e.id}:{k}:{Nsq.Model.Chan.wireAttempts e.att}:{p}:{d}:{e.env.ts}:{e.env.body}" | _ => none)
  let defd := es.filterMap (fun e => match e.loc with
    | .deferred p => some s!"{e.id}:{Nsq.Model.Chan.wireAttempts e.att}:{p}:{e.env.ts}:{e.env.body}" | _ => none)
  let cls := (sortBy (fun (a b : Client) => a.conn < b.conn) c.clients).map (fun cl =>
    s!"{cl.conn}:{cl.rdy}:{cl.inFlight}:{cl.msgCount}:{cl.finCount}:{cl.reqCount}:{b cl.closing}")
  s!"depth={c.memLen + c.dqLen} inflight=[{joinSp infl}] deferred=[{joinSp defd}] mc={c.messageCount} rq={c.requeueCount} to={c.timeoutCount} paused={b c.paused} clients=[{joinSp cls}]"

/-- the `/stats` projection of a channel (what `NewChannelStats` + `clientV2.Stats` report) -/
def statsChan (c : Chan) : String :=
  let cls := (sortBy (fun (a b : Client) => a.conn < b.conn) c.clients).map (fun cl =>
    s!"{cl.conn}:{cl.rdy}:{cl.inFlight}:{cl.msgCount}:{cl.finCount}:{cl.reqCount}")
  s!"depth={c.memLen + c.dqLen} bdepth={c.dqLen} inflight={(c.msgs.filter isInflight).length} deferred={(c.msgs.filter isDeferred).length} mc={c.messageCount} rq={c.requeueCount} to={c.timeoutCount} paused={b c.paused} nclients={c.clients.length} clients=[{joinSp cls}]"

def dumpTopic (t : Topic) : String :=
  s!"depth={t.queue.length} bdepth={dqLenT t} mc={t.msgCount} mb={t.msgBytes} paused={b t.paused} chans=[{joinSp ((sortBy (· < ·) (t.chans.map (·.cid))).map toString)}]"

def withChan (s : State) (t c : Nat) (f : Chan → String) : String :=
  match findT s.topics t with
  | none => "no-topic"
  | some tp => match findN tp.chans c with
    | none => "no-chan"
    | some nc => f nc.ch

/-- `protocol.ByteToBase10` followed by `int64(b10)`: digits only, values ≥ 2^64 are a parse
error (fix 43ed751), values ≥ 2^63 wrap negative -/
def parseCount (s : String) : Option Int :=
  if s.isEmpty then none else
  if !s.all Char.isDigit then none else
  match s.toNat? with
  | none => none
  | some v => if v ≥ 18446744073709551616 then none
              else if v ≥ 9223372036854775808 then some ((v : Int) - 18446744073709551616) else some v

def natList (s : String) : Option (List Nat) :=
  if s = "-" then some [] else
  (s.splitOn ",").mapM (·.toNat?)

def priPairs (ws : List String) : Option (List (Nat × Int)) :=
  ws.mapM (fun w => match w.splitOn ":" with
    | [c, p] => match c.toNat?, p.toInt? with
      | some c, some p => some (c, p)
      | _, _ => none
    | _ => none)

/-- a real channel state dumped at a quiescent point of the concurrent leg: rebuild the model
channel (locations, counters) and evaluate the history-free conjuncts of the invariant on it -/
def rchanCheck (eph memq mem dq mc q ifs dfs cls : String) : String :=
  let lst (s : String) : List String := if s = "-" then [] else s.splitOn ","
  let qids := (lst ((q.drop 2).toString)).filterMap (·.toNat?)
  let ife := (lst ((ifs.drop 3).toString)).filterMap (fun w => match w.splitOn ":" with
    | [i, c] => match i.toNat?, c.toNat? with | some i, some c => some (i, c) | _, _ => none
    | _ => none)
  let dids := (lst ((dfs.drop 3).toString)).filterMap (·.toNat?)
  let cl := (lst ((cls.drop 3).toString)).filterMap (fun w => match w.splitOn ":" with
    | [c, r, i] => match c.toNat?, r.toInt?, i.toInt? with | some c, some r, some i => some (c, r, i) | _, _, _ => none
    | _ => none)
  match memq.toNat?, mem.toNat?, dq.toNat?, mc.toNat? with
  | some memq, some mem, some dq, some mc =>
    let msgs : List Entry := qids.map (fun i => { id := i, att := 0, loc := .queued }) ++
      ife.map (fun p => { id := p.1, att := 0, loc := .inflight p.2 0 0 }) ++ dids.map (fun i => { id := i, att := 0, loc := .deferred 0 })
    let bad : List String :=
      (if Nsq.Model.Chan.nodupB (msgs.map (·.id)) then [] else ["an id occurs in two places"]) ++
      (if mem == qids.length then [] else ["memory queue length"]) ++
      (if eph == "1" || memq > 0 || mem == 0 then [] else ["memory queue used although mem-queue-size is 0"]) ++
      (if mem ≤ memq || (eph == "1" && memq == 0) then [] else ["memory queue above its capacity"]) ++
      (if eph == "0" || dq == 0 then [] else ["ephemeral channel with disk depth"]) ++
      (if mc ≥ msgs.length + dq then [] else ["message_count below the number of messages held"]) ++
      cl.foldr (fun (c : Nat × Int × Int) acc =>
        (if c.2.2 == (Nsq.Model.Chan.heldBy msgs c.1 : Int) then [] else [s!"client {c.1} in_flight_count {c.2.2} but holds {Nsq.Model.Chan.heldBy msgs c.1}"]) ++
        (if c.2.2 ≥ 0 && c.2.1 ≥ 0 then [] else [s!"client {c.1} negative counter"]) ++ acc) []
    if bad.isEmpty then "rchan ok" else "rchan BAD " ++ "; ".intercalate bad
  | _, _, _, _ => "bad-op"

def intList (s : String) : Option (List Int) :=
  if s = "-" then some [] else (s.splitOn ",").mapM (·.toInt?)

def envs? (tss bodies : String) : Option (List Env) :=
  match intList tss, natList bodies with
  | some ts, some bs => some ((ts.zip bs).map (fun p => ⟨p.1, p.2⟩))
  | _, _ => none

/-- the envelope the model holds for message `id` on the channel connection `k` is subscribed to -/
def envOfConn (s : State) (k id : Nat) : Env :=
  match findS s.subs k with
  | none => {}
  | some sb => match findT s.topics sb.tid with
    | none => {}
    | some tp => match findN tp.chans sb.cid with
      | none => {}
      | some nc => match findE nc.ch.msgs id with
        | some e => e.env
        | none => {}

/-- a delivery: the frame carries attempts, timestamp and body of the model's copy -/
def applyDeliver (s : State) (op : Nsq.Model.ChanNsqd.Op) (k id : Nat) : State × String :=
  let r := step s op
  (r.1, match r.2 with
    | .msg a => let e := envOfConn r.1 k id; s!"msg {Nsq.Model.Chan.wireAttempts a} {e.ts} {e.body}"
    | o => showOut o)

def apply (s : State) (op : Nsq.Model.ChanNsqd.Op) (sorted : Bool := false) : State × String :=
  let r := step s op
  (r.1, if sorted then showSorted r.2 else showOut r.2)

/-- `statsq` lines (audit B14): the rows `Nsq.Model.ChanStats.rows fmt (filterSnap ft fc incl (snapshot s))` — the
very function `Props.C13.render_agree` / `render_complete` are about — in a canonical form the harness also derives
from the real `/stats` answer (JSON or text) under the same filter -/
def statsqLine (s : State) (fmt ft fc incl : String) : String :=
  open Nsq.Model.ChanStats in
  let f : Fmt := if fmt == "json" then .json else .text
  let inc := incl == "1"
  let rs := rows f (filterSnap (nat? ft) (nat? fc) inc (snapshot s))
  let key (r : Row) : Nat × Nat := (r.key.1, match r.key.2 with | none => 0 | some c => c + 1)
  let srt := sortBy (fun (a b : Row) => (key a).1 < (key b).1 || ((key a).1 == (key b).1 && (key a).2 < (key b).2)) rs
  let nums (l : List Int) : String := joinSp (l.map toString)
  let one (r : Row) : String :=
    match r.key.2 with
    | none => s!"T{r.key.1} {nums r.nums}" ++ (match r.jsonOnly with | [] => "" | l => s!" b={nums l}")
    | some c =>
      let cls := sortBy (· < ·) (r.clients.map (fun cl => s!"{cl.rdy}:{cl.inFlight}:{cl.msgs}:{cl.fin}:{cl.req}"))
      s!"C{r.key.1}/{c} {nums r.nums}" ++ (match r.jsonOnly with | [] => "" | l => s!" n={nums l}") ++
        (if inc then " cl=[" ++ "|".intercalate cls ++ "]" else "")
  if srt.isEmpty then "-" else "; ".intercalate (srt.map one)

/-- one token of a `tpause` line (leg `busypause`, audit A10): a micro-step of `Nsq.Model.TopicPause` -/
def tpTok (w : String) : Option Nsq.Model.TopicPause.Op :=
  open Nsq.Model.TopicPause in
  match w with
  | "u" => some .updAck
  | "s" => some .start
  | "A" => some .pauseAck
  | "S0" => some (.storeFlag false)
  | "S1" => some (.storeFlag true)
  | _ =>
    match w.toList with
    | 'm' :: r => (nat? (String.ofList r)).map .mapChange
    | 'p' :: r => (nat? (String.ofList r)).map .pub
    | 'f' :: r => (nat? (String.ofList r)).map .fan
    | _ => none

/-- replay a schedule through the topic-pause model (hand-shake on): `+` accepted, `-` refused, `?` unknown token -/
def tpRun (s : Nsq.Model.TopicPause.St) : List String → String
  | [] => ""
  | w :: ws => match tpTok w with
    | none => "?" ++ tpRun s ws
    | some op =>
      let r := Nsq.Model.TopicPause.step true s op
      (if r.2 then "+" else "-") ++ tpRun r.1 ws

/-- `teph eph=<0|1> cap=<mem-queue-size> size=<body bytes> tok…` (leg `ephtopic`, audit A5): publishes to ONE fresh topic
while nothing is pumped, through `Nsq.Model.TopicEph.stepE` — `pubE` (→ `putTE`) for an `#ephemeral` topic, the base model's
`pub` for a durable one. Token `p` = publish (pump not receiving), `P` = publish while the pump is receiving (matters with cap 0).
Answer: per token `k` (kept: the topic queue grew) / `d` (dropped) / `R` (refused), then the topic's counters and depth. -/
def tephDepth (es : Nsq.Model.TopicEph.ES) : Nat :=
  match findT es.s.topics 1 with
  | some tp => tp.queue.length
  | none => 0

def tephRun (eph : Bool) (size : Nat) (es : Nsq.Model.TopicEph.ES) : List String → String
  | [] => match findT es.s.topics 1 with
    | some tp => s!" mc={tp.msgCount} mb={tp.msgBytes} depth={tp.queue.length}"
    | none => " no-topic"
  | w :: ws =>
    if w != "p" && w != "P" then "?" ++ tephRun eph size es ws else
    let op : Nsq.Model.TopicEph.EOp := if eph then .pubE 1 size 0 {} (w == "P") else .base (.pub 1 size)
    let r := Nsq.Model.TopicEph.stepE es op
    let letter := match r.2 with
      | .ids _ => if tephDepth r.1 > tephDepth es then "k" else "d"
      | _ => "R"
    letter ++ tephRun eph size r.1 ws

def tephLine (e c sz : String) (toks : List String) : String :=
  if !(e.startsWith "eph=" && c.startsWith "cap=" && sz.startsWith "size=") then "bad-op" else
  match nat? (e.drop 4).toString, nat? (c.drop 4).toString, nat? (sz.drop 5).toString with
  | some e, some cap, some size =>
    let es0 : Nsq.Model.TopicEph.ES := { s := { conf := { memq := cap } } }
    let es1 := (Nsq.Model.TopicEph.stepE es0 (if e == 1 then .createEphTopic 1 else .base (.createTopic 1))).1
    tephRun (e == 1) size es1 toks
  | _, _, _ => "bad-op"

def stepLine (s : State) (line : String) : State × String :=
  match words line with
  | ["conf", memq, maxrdy, maxmsgto, maxreq] =>
    match nat? memq, int? maxrdy, int? maxmsgto, nat? maxreq with
    | some m, some r, some mt, some rq =>
      ({ conf := { memq := m, maxReqMs := rq, chan := { maxRdy := r, maxMsgTimeout := mt } } }, "ok")
    | _, _, _, _ => (s, "bad-op")
  | ["topic", t] => match nat? t with
    | some t => apply s (.createTopic t) | _ => (s, "bad-op")
  | ["chan", t, c, e] => match nat? t, nat? c with
    | some t, some c => apply s (.createChan t c (e == "1")) | _, _ => (s, "bad-op")
  | ["chanraw", t, c, e] => match nat? t, nat? c with
    | some t, some c => apply s (.createChanRaw t c (e == "1")) | _, _ => (s, "bad-op")
  | ["refresh", t] => match nat? t with
    | some t => apply s (.refreshPump t) | _ => (s, "bad-op")
  | ["sub", k, t, c, e, mt, sm] => match nat? k, nat? t, nat? c, int? mt, nat? sm with
    | some k, some t, some c, some mt, some sm => apply s (.sub k t c (e == "1") mt sm)
    | _, _, _, _, _ => (s, "bad-op")
  | ["disc", k] => match nat? k with
    | some k => apply s (.disconnect k) | _ => (s, "bad-op")
  | ["rdy", k, n] => match nat? k with
    | some k => apply s (.rdy k (parseCount n)) | _ => (s, "bad-op")
  | ["cls", k] => match nat? k with
    | some k => apply s (.cls k) | _ => (s, "bad-op")
  | ["pub", t, sz] => match nat? t, nat? sz with
    | some t, some sz => apply s (.pub t sz) | _, _ => (s, "bad-op")
  | ["pub", t, sz, ts, body] => match nat? t, nat? sz, int? ts, nat? body with
    | some t, some sz, some ts, some body => apply s (.pub t sz ⟨ts, body⟩) | _, _, _, _ => (s, "bad-op")
  | ["dpub", t, sz, d, ts, body] => match nat? t, nat? sz, nat? d, int? ts, nat? body with
    | some t, some sz, some d, some ts, some body => apply s (.dpub t sz d ⟨ts, body⟩) | _, _, _, _, _ => (s, "bad-op")
  | ["mpub", t, szs, tss, bodies] => match nat? t, natList szs, envs? tss bodies with
    | some t, some szs, some es => apply s (.mpub t szs es) | _, _, _ => (s, "bad-op")
  | ["mpubfail", t, szs, j, tss, bodies] => match nat? t, natList szs, nat? j, envs? tss bodies with
    | some t, some szs, some j, some es => apply s (.mpubFail t szs j es) | _, _, _, _ => (s, "bad-op")
  | ["dpub", t, sz, d] => match nat? t, nat? sz, nat? d with
    | some t, some sz, some d => apply s (.dpub t sz d) | _, _, _ => (s, "bad-op")
  | ["mpub", t, szs] => match nat? t, natList szs with
    | some t, some szs => apply s (.mpub t szs) | _, _ => (s, "bad-op")
  | ["mpubfail", t, szs, j] => match nat? t, natList szs, nat? j with
    | some t, some szs, some j => apply s (.mpubFail t szs j) | _, _, _ => (s, "bad-op")
  | "pump" :: t :: id :: kept :: pris => match nat? t, nat? id, priPairs pris with
    | some t, some id, some pris => apply s (.pumpTopic t id (kept == "1") pris) true
    | _, _, _ => (s, "bad-op")
  | ["deliver", k, id, now] => match nat? k, nat? id, int? now with
    | some k, some id, some now => applyDeliver s (.deliver k id now) k id | _, _, _ => (s, "bad-op")
  | ["sdrop", k, id] => match nat? k, nat? id with
    | some k, some id => apply s (.sampleDrop k id) | _, _ => (s, "bad-op")
  | ["fin", k, id] => match nat? k, nat? id with
    | some k, some id => apply s (.fin k id) | _, _ => (s, "bad-op")
  | ["finchan", k, id] => match nat? k, nat? id with
    | some k, some id => apply s (.finChan k id) | _, _ => (s, "bad-op")
  | ["fincli", k] => match nat? k with
    | some k => apply s (.finClient k) | _ => (s, "bad-op")
  | ["guard", k] => match nat? k with
    | some k => apply s (.guard k) | _ => (s, "bad-op")
  | ["deliverarmed", k, id, now] => match nat? k, nat? id, int? now with
    | some k, some id, some now => applyDeliver s (.deliverArmed k id now) k id | _, _, _ => (s, "bad-op")
  | ["req", k, id, d, now] => match nat? k, nat? id, nat? d, int? now with
    | some k, some id, some d, some now => apply s (.req k id d now) | _, _, _, _ => (s, "bad-op")
  | ["touch", k, id, now] => match nat? k, nat? id, int? now with
    | some k, some id, some now => apply s (.touch k id now) | _, _, _ => (s, "bad-op")
  | ["scanif", t, c, tm] => match nat? t, nat? c, int? tm with
    | some t, some c, some tm => apply s (.scanInFlight t c tm) true | _, _, _ => (s, "bad-op")
  | ["scandf", t, c, tm] => match nat? t, nat? c, int? tm with
    | some t, some c, some tm => apply s (.scanDeferred t c tm) true | _, _, _ => (s, "bad-op")
  | ["pausec", t, c] => match nat? t, nat? c with
    | some t, some c => apply s (.pauseChan t c) | _, _ => (s, "bad-op")
  | ["unpausec", t, c] => match nat? t, nat? c with
    | some t, some c => apply s (.unpauseChan t c) | _, _ => (s, "bad-op")
  | ["pauset", t] => match nat? t with
    | some t => apply s (.pauseTopic t) | _ => (s, "bad-op")
  | ["unpauset", t] => match nat? t with
    | some t => apply s (.unpauseTopic t) | _ => (s, "bad-op")
  | ["empty", t, c] => match nat? t, nat? c with
    | some t, some c =>
      let r := step s (.emptyChan t c)
      (r.1, match r.2 with | .ids l => s!"emptied {l.length}" | o => showOut o)
    | _, _ => (s, "bad-op")
  | ["split", t, c, m, d] => match nat? t, nat? c, nat? m, nat? d with
    | some t, some c, some m, some d => apply s (.resplit t c m d) | _, _, _, _ => (s, "bad-op")
  | ["dump", t, c] => match nat? t, nat? c with
    | some t, some c => (s, withChan s t c dumpChan) | _, _ => (s, "bad-op")
  | ["stats", t, c] => match nat? t, nat? c with
    | some t, some c => (s, withChan s t c statsChan) | _, _ => (s, "bad-op")
  | ["tdump", t] => match nat? t with
    | some t => (s, match findT s.topics t with | some tp => dumpTopic tp | none => "no-topic")
    | _ => (s, "bad-op")
  | ["settle"] =>
    let en := enabledAt s
    (s, if en.isEmpty then "quiet" else joinSp ("ENABLED" :: en))
  | ["inv"] => (s, Nsq.Model.ChanInv.invReport s)
  | ["rchan", eph, memq, mem, dq, mc, q, ifs, dfs, cls] => (s, rchanCheck eph memq mem dq mc q ifs dfs cls)
  | ["reset"] => ({}, "ok")
  | "tpause" :: toks => (s, tpRun {} toks)
  | "teph" :: e :: c :: sz :: toks => (s, tephLine e c sz toks)
  | ["statsq", fmt, ft, fc, incl] => (s, statsqLine s fmt ft fc incl)
  | _ => (s, "bad-op")

/-- lines of the pump / output-buffer leg (`P …`, harness/e2/e2_pump_test.go) -/
def stepPump (a : Nsq.Model.Pump.Acc) (w : List String) : Nsq.Model.Pump.Acc × String :=
  open Nsq.Model.Pump in
  match w with
  | ["top"] => obsTop a
  | ["recv"] => obsRecv a
  | ["write", shape] => obsWrite a (shape.splitOn ",")
  | ["settle"] => (a, obsSettle a)
  | ["expect-resp"] => ({ a with pendingResp := a.pendingResp + 1 }, "ok")
  | ["subpend"] => ({ a with subPend := true }, "ok")
  | ["idpend", ob, hb, sm] => match nat? sm with
    | some sm => ({ a with idPend := some (ob == "1", hb == "1", sm) }, "ok")
    | none => (a, "bad-op")
  | ["rdy", n] => match int? n with
    | some n => ({ a with s := (step a.s (.setRdy n)).1 }, "ok") | none => (a, "bad-op")
  | ["infl", n] => match int? n with
    | some n => ({ a with s := (step a.s (.setInFlight n)).1 }, "ok") | none => (a, "bad-op")
  | ["paused", p] => ({ a with s := (step a.s (.setPaused (p == "1"))).1 }, "ok")
  | _ => (a, "bad-op")

partial def loop (h : IO.FS.Stream) (out : IO.FS.Stream) (s : State) (a : Nsq.Model.Pump.Acc) : IO Unit := do
  let line ← h.getLine
  if line.isEmpty then return ()
  let l := line.dropRightWhile (· == '\n')
  match l.splitOn " " with
  | "P" :: w =>
    let r := stepPump a w
    out.putStrLn r.2
    loop h out s r.1
  | _ =>
    let r := stepLine s l
    out.putStrLn r.2
    loop h out r.1 (if l == "reset" then {} else a)

def main : IO Unit := do
  let out ← IO.getStdout
  loop (← IO.getStdin) out {} {}
  out.flush
