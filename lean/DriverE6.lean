import Nsq.Model.Line
import Nsq.Model.LookupSync
import Nsq.Model.LookupPeer
/-! Driver for engine E6 (C16): replays the harness scripts through `Nsq.Model.LookupSync.step`
(the model is the tree WITH fixes/F3_lookup_peer_negative_size.patch). -/
open Nsq Nsq.Line Nsq.Model.LookupSync

structure DS where
  s : State
  modes : List Bool        -- per peer: true = the lookupd currently answers normally
  rKnown : List Key        -- channel keys the real nsqlookupd (last peer) has kept since its last restart
  npeers : Nat

def insertBy (lt : String → String → Bool) (x : String) : List String → List String
  | [] => [x]
  | y :: ys => if lt x y then x :: y :: ys else y :: insertBy lt x ys
def sortStrs (l : List String) : List String := l.foldr (insertBy (fun a b => decide (a < b))) []

def showSet (ks : List Key) : String :=
  "{" ++ ",".intercalate (sortStrs ((ks.map (fun k => k.1 ++ "/" ++ k.2)).eraseDups)) ++ "}"

/-- one outcome per configured peer, in the order of the peer list (a peer's address is its index at `reset`) -/
def outs (d : DS) : List Outcome := d.s.peers.map (fun p => if d.modes.getD p.addr false then .ok else .fail)

/-- the real nsqlookupd is the peer with the highest address -/
def realPeer (d : DS) : Option Peer := d.s.peers.find? (fun p => p.addr + 1 == d.npeers)

def stepD (d : DS) (st : Step) : DS :=
  match step d.s st with
  | some s' => { d with s := s' }
  | none => d

def isEph (n : String) : Bool := n.endsWith "#ephemeral"

/-- process every pending notification (creation order), tracking what the real lookupd keeps -/
def drainBag : Nat → DS → DS
  | 0, d => d
  | fuel + 1, d =>
    match d.s.bag.getLast? with
    | none => d
    | some r =>
      let realUp := match realPeer d with
        | some p => d.modes.getLast?.getD false && p.conn != .stale
        | none => false
      let dead := d.s.dead.contains r
      let d1 := stepD d (.notify r (outs d))
      -- the real lookupd keeps channel keys after UNREGISTER (unless ephemeral); a reconnect re-registers everything
      let reg := ((realPeer d1).map (·.regs)).getD []
      let known := (d1.rKnown ++ reg.filter (fun k => k.2 != "")).eraseDups
      let known := if dead && realUp && isEph r.chan then known.filter (· != r.key) else known
      drainBag fuel { d1 with rKnown := known }

def findRef (d : DS) (t c : String) : Option Ref := d.s.objs.find? (fun r => r.topic == t && r.chan == c)

def createChan (d : DS) (t c : String) : DS :=
  if (findRef d t c).isSome then d else drainBag 8 (stepD d (.createChan t c))

def createTopic (d : DS) (t : String) : DS :=
  if (findRef d t "").isSome then d else
  let d1 := drainBag 8 (stepD d (.createTopic t))
  -- GetTopic: blocking query of the lookupds for channels to pre-create (only the real one keeps keys)
  let pre := precreate [ ⟨true, some ((d.rKnown.filter (fun k => k.1 == t)).map (·.2))⟩ ]
  pre.foldl (fun acc c => createChan acc t c) d1

def ticks (d : DS) : DS :=
  let d1 := stepD (stepD (stepD d (.tick (outs d))) (.tick (outs d))) (.tick (outs d))
  let reg := ((realPeer d1).map (·.regs)).getD []
  { d1 with rKnown := (d1.rKnown ++ reg.filter (fun k => k.2 != "")).eraseDups }

def probe (d : DS) : DS :=
  createChan (createTopic d "probe#ephemeral") "probe#ephemeral" "p#ephemeral"

def peerName (d : DS) (i : Nat) : String := if i + 1 == d.npeers then "R" else s!"L{i}"

def viewLine (d : DS) : String :=
  let want := showSet (d.s.objs.map Ref.key)
  let vs := (List.range d.npeers).map (fun i =>
    peerName d i ++ "=" ++ (match d.s.peers.find? (fun p => p.addr == i) with
      | some p => if p.conn == .up then showSet p.regs else "down"
      | none => "down"))
  "want=" ++ want ++ " " ++ " ".intercalate vs

def setMode (d : DS) (i : Nat) (ok : Bool) : DS :=
  { d with modes := (List.range d.modes.length).zip d.modes |>.map (fun (j, m) => if j == i then ok else m) }

def peerIdx (d : DS) (n : String) : Nat := if n == "R" then d.npeers - 1 else (n.drop 1).toNat!

def hexBytes (s : String) : Option (List UInt8) := unhex s

def stepLine (d : DS) (line : String) : DS × String :=
  match words line with
  | ["reset", n] =>
    let k := n.toNat!
    let s := (List.range k).foldl (fun s a => (step s (.addPeer a .ok)).getD s) State.init
    ({ s := s, modes := List.replicate k true, rKnown := [], npeers := k }, "ok")
  | ["createtopic", t] => (createTopic d t, "ok")
  | ["createchan", t, c] => (createChan (createTopic d t) t c, "ok")
  | ["deletetopic", t] =>
    match findRef d t "" with
    | none => (d, "notfound")
    | some r =>
      let cs := d.s.objs.filter (fun x => x.topic == t && x.chan != "")
      let d1 := stepD d (.delBegin r)
      let d2 := cs.foldl (fun acc c => stepD (stepD acc (.delBegin c)) (.delUnlink c)) d1
      (drainBag 16 (stepD d2 (.delUnlink r)), "ok")
  | ["deletechan", t, c] =>
    match findRef d t c with
    | none => (d, "notfound")
    | some r => (drainBag 8 (stepD (stepD d (.delBegin r)) (.delUnlink r)), "ok")
  | "fault" :: n :: _ => (probe (setMode d (peerIdx d n) false), "ok")
  | ["heal", n] => (setMode d (peerIdx d n) true, "ok")
  | ["restart", n] =>
    let i := peerIdx d n
    let d1 := stepD d (.lookupdDrop i)
    let d2 := if n == "R" then { d1 with rKnown := [] } else d1
    (probe d2, "ok")
  | "hook" :: _ => (d, "ok")
  | ["removepeer", n] => (stepD d (.removePeer (peerIdx d n)), "ok")
  | ["addpeer", n] =>
    let i := peerIdx d n
    (stepD d (.addPeer i (if d.modes.getD i false then .ok else .fail)), "ok")
  | ["drop", n] => (stepD d (.lookupdDrop (peerIdx d n)), "ok")
  | ["settle"] => let d1 := ticks d; (d1, viewLine d1)
  | ["read", limit, hex] =>
    match limit.toInt?, hexBytes hex with
    | some l, some b =>
      (d, match readResponse true l b with
          | .ok body => "ok " ++ Nsq.Line.hex body
          | .err => "err"
          | .panic => "panic")
    | _, _ => (d, "bad-op")
  | "precreate" :: answers =>
    -- one word per queried lookupd: `fail`, `-` (answered, knows nothing) or a comma separated channel list
    let parse (w : String) : Option (List String) :=
      if w == "fail" then none else if w == "-" then some [] else some (w.splitOn ",")
    let pre := precreate (answers.map (fun w => ⟨true, parse w⟩))
    (d, showSet (pre.map (fun c => (c, ""))))
  | "fine" :: args =>
    -- the real lookupPeer.Command driven one interaction at a time: objs=<nsqd's objects> cmd=<nil|ping|reg:t/c|unreg:t/c>
    -- st=<disc|conn> sess=<none|{regs the lookupd holds}> net=<outcome bits of the interactions, in order>
    let get (k : String) : Option String :=
      (args.find? (fun a => a.startsWith (k ++ "="))).map (fun a => (a.drop (k.length + 1)).toString)
    let parseKey (w : String) : Key := match w.splitOn "/" with | [t, c] => (t, c) | _ => (w, "")
    let parseSet (w : String) : List Key :=
      let inner := ((w.replace "{" "").replace "}" "")
      if inner == "-" || inner == "" then [] else (inner.splitOn ",").map parseKey
    match get "objs", get "cmd", get "st", get "sess", get "net" with
    | some o, some c, some st, some se, some nt =>
      let objs : List Ref := (parseSet o).map (fun k => ⟨k.1, k.2, 0⟩)
      let cb := callbackCmds objs []
      let cmd : Option (Option (List Key → List Key)) :=
        if c == "nil" then some none else if c == "ping" then some (some id)
        else match c.splitOn ":" with
          | ["reg", k] => some (some (register (parseKey k).1 (parseKey k).2))
          | ["unreg", k] => some (some (unregister (parseKey k).1 (parseKey k).2))
          | _ => none
      match cmd with
      | none => (d, "bad-op")
      | some cmd =>
        let pst := if st == "conn" then PState.connected else PState.disconnected
        let sess : Session := if se == "none" then none else some (parseSet se)
        let net := nt.toList.map (· == '1')
        let res := fineCommand cb cmd pst sess net
        (d, (if res.1 == .connected then "conn" else "disc") ++ " " ++
          (match res.2 with | none => "none" | some r => showSet r))
    | _, _, _, _, _ => (d, "bad-op")
  | "prex" :: answers =>
    -- one word per CONFIGURED lookupd: `id:<ans>` (an IDENTIFY to it has succeeded) or `unid:<ans>`; <ans> = `fail`,
    -- `none` (answered, knows nothing) or a comma separated list of hex-encoded channel names (`-` = the empty name)
    let name (h : String) : Option String := (hexBytes h).bind (fun b => String.fromUTF8? (ByteArray.mk b.toArray))
    let parseAns (w : String) : Option (Option (List String)) :=
      if w == "fail" then some none else if w == "none" then some (some [])
      else ((w.splitOn ",").mapM name).map some
    let parse (w : String) : Option Lookupd :=
      match w.splitOn ":" with
      | ["id", a] => (parseAns a).map (fun x => ⟨true, x⟩)
      | ["unid", a] => (parseAns a).map (fun x => ⟨false, x⟩)
      | _ => none
    match answers.mapM parse with
    | none => (d, "bad-op")
    | some ls =>
      (d, "{" ++ ",".intercalate (sortStrs ((precreate ls).map (fun c => Nsq.Line.hex c.toUTF8.toList))) ++ "}")
  | _ => (d, "bad-op")

partial def loop (h : IO.FS.Stream) (out : IO.FS.Stream) (d : DS) : IO Unit := do
  let line ← h.getLine
  if line.isEmpty then return ()
  let (d', o) := stepLine d (line.dropRightWhile (· == '\n'))
  out.putStrLn o
  loop h out d'

def main : IO Unit := do
  let out ← IO.getStdout
  loop (← IO.getStdin) out { s := State.init, modes := [], rKnown := [], npeers := 0 }
  out.flush
