import Nsq.Model.Line
import Nsq.Model.Registry
import Nsq.Model.RegistryStar
import Nsq.Model.RegistryProto
/-! Driver for engine E4 (nsqlookupd): replays `.ops` lines through the Registry / RegistryProto
models and prints one canonical answer line per op (see harness/e4/*_test.go for the writer).

  conf <inactive> <tombLife> <unit> <variant:fixed|unfixed> <hex topic>,<hex topic>,…
  reset
  <now> identify <p> <bcast> <host> <ver> <tcp> <http>
  <now> register|unregister <p> <hex param>…
  <now> ping|disconnect <p>
  <now> http <handler> <bad 0|1> <topic|_> <channel|_> <node|_>
  <now> raw <method> <path> <bad 0|1> <topic|_> <channel|_> <node|_> [q=<hex extra query>] [obs=<status>]
  <now> stream <p> <hex bytes> [<hex body>=<bcast>/<host>/<ver>/<tcp>/<http> …]
  <now> spoof <p> <victim conn> <extra keys|-> <bcast> <host> <ver> <tcp> <http> <hex of what follows the body> [k=<n>]
  <now> abort <p> identify|register|unregister|ping <args as above>   (send, do not read the answer, close)
  <now> q
  <now> http tombstone 0 2a _ <node> pick=<p>:<hex topic>,…|-   wild-card tombstone; the pick is what the real run chose
        (ACCEPTOR: answered `invalid-pick` unless the pick is admissible — `pickValidB`, one entry per peer, node matches)
  <now> qstar obs=<p>,…|-|404    /channels?topic=* and /lookup?topic=*; obs = the producers the real answer listed; the
        model answers with `qLookupStar` under a pick chosen to reproduce obs (if no admissible pick does, the lines differ)
  noq <line>   apply, print `noq`;   st <line>   apply, print only the reply (no query answers)
-/
open Nsq Nsq.Line Nsq.Model.Registry Nsq.Model.RegistryProto

structure DSt where
  conf : Conf := ⟨0, 0⟩
  unit : Int := 1
  variant : Variant := fixedV
  topics : List Name := []
  reg : Registry := init

def nm (n : Name) : String := bytesToString n

def sortStrs (l : List String) : List String := (l.toArray.qsort (· < ·)).toList

def joinS (l : List String) : String := ",".intercalate (sortStrs l)

def infoStr (i : Info) : String := s!"{nm i.bcast}:{nm i.host}:{nm i.ver}:{i.tcp}:{i.http}"

def catStr : Cat → String
  | .client => "client" | .topic => "topic" | .channel => "channel"

def ageOf (s : DSt) (now t : Int) : Int := (now - t) / s.unit

def queries (s : DSt) (now : Int) : String :=
  let r := s.reg
  let t := "T=" ++ joinS ((qTopics r).map nm)
  let cs := s.topics.map (fun tp => s!"C[{nm tp}]=" ++ joinS ((qChannels r tp).map nm))
  let ls := s.topics.map (fun tp =>
    match qLookup s.conf r tp now with
    | none => s!"L[{nm tp}]=404"
    | some a => s!"L[{nm tp}]=ch=" ++ joinS (a.channels.map nm) ++ ";pr=" ++
        joinS (a.producers.map (fun e => s!"{e.1}:{infoStr e.2}")))
  let ns := "N=" ++ joinS ((qNodes s.conf r now).map (fun n =>
    s!"{n.id}:{infoStr n.info}" ++ "{" ++
      joinS (n.topics.map (fun tb => s!"{nm tb.1}={if tb.2 then 1 else 0}")) ++ "}"))
  let ds := "D=" ++ " ".intercalate (sortStrs ((qDebug r).map (fun e =>
    s!"{catStr e.1.cat}:{nm e.1.key}:{nm e.1.sub}[" ++
      joinS (e.2.map (fun d => s!"{d.id}:{ageOf s now d.lastUpdate}:" ++
        (if d.tombstoned then s!"1:{ageOf s now d.tombAt}" else "0"))) ++ "]")))
  " | ".intercalate ([t] ++ cs ++ ls ++ [ns, ds])

def tcpOutStr : TcpOut → String
  | .ok => "OK"
  | .identified => "IDENTIFIED"
  | .err c msg => codeName c ++ " " ++ hex msg

def httpOutStr : HttpOut → String
  | .ok => "200"
  | .err st msg => s!"{st} {msg}"

def optArg (w : String) : Option (Option Name) :=
  if w = "_" then some none else (unhex w).map some

def parseArgs (bad t c n : String) : Option HttpArgs :=
  match optArg t, optArg c, optArg n with
  | some t, some c, some n => some ⟨bad = "1", t, c, n⟩
  | _, _, _ => none

def unhexAll : List String → Option (List Name)
  | [] => some []
  | w :: ws =>
    match unhex w, unhexAll ws with
    | some b, some bs => some (b :: bs)
    | _, _ => none

def parseInfo (bc ho ve tcp http : String) : Option Info :=
  match unhex bc, unhex ho, unhex ve, tcp.toInt?, http.toInt? with
  | some bc, some ho, some ve, some tcp, some http => some ⟨bc, ho, ve, tcp, http⟩
  | _, _, _, _, _ => none

/-- `body=bcast/host/ver/tcp/http[/used]` entries: what the JSON value parser (json.Decoder on exactly
these bytes) returned for those bodies: the five fields and how many bytes the first value
occupies (absent = all of them). Whether the REST is acceptable is decided by the model
(`unmarshal`), not by the harness. -/
def parseDecode : List String → List (List UInt8 × Info × Nat)
  | [] => []
  | w :: ws =>
    match w.splitOn "=" with
    | [b, i] =>
      match unhex b, i.splitOn "/" with
      | some b, [bc, ho, ve, tcp, http] =>
        match parseInfo bc ho ve tcp http with
        | some inf => (b, inf, b.length) :: parseDecode ws
        | none => parseDecode ws
      | some b, [bc, ho, ve, tcp, http, used] =>
        match parseInfo bc ho ve tcp http, used.toNat? with
        | some inf, some u => (b, inf, u) :: parseDecode ws
        | _, _ => parseDecode ws
      | _, _ => parseDecode ws
    | _ => parseDecode ws

def valueOf (tbl : List (List UInt8 × Info × Nat)) (b : List UInt8) : Option (Info × Nat) :=
  (tbl.find? (fun e => e.1 = b)).map (·.2)

def decodeOf (tbl : List (List UInt8 × Info × Nat)) : List UInt8 → Option Info :=
  unmarshal (valueOf tbl)

def endStr : End → String
  | .panic => "panic"
  | _ => "closed"

def parsePick (tok : String) : Option (List (Nat × Name)) :=
  match tok.splitOn "=" with
  | ["pick", body] =>
    if body = "-" then some []
    else (body.splitOn ",").mapM (fun e =>
      match e.splitOn ":" with
      | [p, t] =>
        match p.toNat?, unhex t with
        | some p, some t => some (p, t)
        | _, _ => none
      | _ => none)
  | _ => none

def parseObs (tok : String) : Option (List Nat) :=
  match tok.splitOn "=" with
  | ["obs", body] =>
    if body = "-" || body = "404" then some []
    else (body.splitOn ",").mapM (fun e => e.toNat?)
  | _ => none

/-- the pick the observation names; peers it does not name keep the list-order pick -/
def pickOfList (db : DB) (l : List (Nat × Name)) : Pick :=
  fun id => match l.find? (fun e => e.1 = id) with
    | some e => e.2
    | none => firstPick db id

/-- a pick under which `/lookup?topic=*` lists exactly `obs`, if there is one: a listed peer is
represented by a topic it is not tombstoned for, an unlisted one by a topic it is tombstoned for -/
def pickForObs (c : Conf) (r : Registry) (obs : List Nat) (now : Int) : Pick :=
  fun id => match (topicsOf r.db id).find? (fun t => tombFlag c r id t now != obs.contains id) with
    | some t => t
    | none => firstPick r.db id

def withQ (s : DSt) (now : Int) (out : String) : DSt × String := (s, out ++ " | " ++ queries s now)

def stepLine1 (s : DSt) (line : String) : DSt × String :=
  match words line with
  | ["conf", ina, tl, unit, v, tps] =>
    match ina.toInt?, tl.toInt?, unit.toInt?, unhexAll ((tps.splitOn ",").filter (· ≠ "")) with
    | some ina, some tl, some unit, some tps =>
      ({ s with conf := ⟨ina, tl⟩, unit := unit, topics := tps,
                variant := if v = "unfixed" then unfixedV else fixedV }, "conf")
    | _, _, _, _ => (s, "bad-op")
  | ["reset"] => ({ s with reg := init }, "reset")
  | nowS :: rest =>
    match nowS.toInt? with
    | none => (s, "bad-op")
    | some now =>
      match rest with
      | ["q"] => withQ s now "q"
      | ["identify", p, bc, ho, ve, tcp, http] =>
        match p.toNat?, parseInfo bc ho ve tcp http with
        | some p, some inf =>
          let x := identify s.reg p inf now
          withQ { s with reg := x.1 } now (tcpOutStr x.2)
        | _, _ => (s, "bad-op")
      | "register" :: p :: params =>
        match p.toNat?, unhexAll params with
        | some p, some ps =>
          let x := register s.reg p ps
          withQ { s with reg := x.1 } now (tcpOutStr x.2)
        | _, _ => (s, "bad-op")
      | "unregister" :: p :: params =>
        match p.toNat?, unhexAll params with
        | some p, some ps =>
          let x := unregister s.reg p ps
          withQ { s with reg := x.1 } now (tcpOutStr x.2)
        | _, _ => (s, "bad-op")
      | ["ping", p] =>
        match p.toNat? with
        | some p => withQ { s with reg := ping s.reg p now } now "OK"
        | none => (s, "bad-op")
      | ["disconnect", p] =>
        match p.toNat? with
        | some p => withQ { s with reg := disconnect s.reg p } now "closed"
        | none => (s, "bad-op")
      | ["qstar", obsTok] =>
        match parseObs obsTok with
        | none => (s, "bad-op")
        | some obs =>
          let pick := pickForObs s.conf s.reg obs now
          let cs := "C[*]=" ++ joinS ((qChannels s.reg star).map nm)
          let l := match qLookupStar s.conf s.reg pick now with
            | none => "L[*]=404"
            | some (a : LookupAns) => "L[*]=ch=" ++ joinS (a.channels.map nm) ++ ";pr=" ++
                joinS (a.producers.map (fun (e : Nat × Info) => s!"{e.1}:{infoStr e.2}"))
          withQ s now (if pickValidB s.reg.db pick then s!"qstar {cs} {l}" else "invalid-pick")
      | ["http", "tombstone", bad, t, c, n, pickTok] =>
        match parseArgs bad t c n, parsePick pickTok with
        | some a, some pl =>
          match a.node with
          | some node =>
            let pick := pickOfList s.reg.db pl
            if a.badQuery || a.topic != some star then (s, "bad-op")
            else if pickValidB s.reg.db pick && (pl.map (·.1)).eraseDups.length == pl.length &&
                    pl.all (fun (e : Nat × Name) => nodeMatches s.reg e.1 node && (topicsOf s.reg.db e.1).contains e.2) then
              withQ { s with reg := tombstoneStar s.reg pick node now } now "200"
            else withQ s now "invalid-pick"
          | none => (s, "bad-op")
        | _, _ => (s, "bad-op")
      | ["http", h, bad, t, c, n] =>
        match parseArgs bad t c n with
        | none => (s, "bad-op")
        | some a =>
          let x : Option (Registry × HttpOut) :=
            if h = "createTopic" then some (createTopic s.reg a)
            else if h = "deleteTopic" then some (deleteTopic s.reg a)
            else if h = "createChannel" then some (createChannel s.reg a)
            else if h = "deleteChannel" then some (deleteChannel s.reg a)
            else if h = "tombstone" then some (tombstone s.reg a now)
            else none
          match x with
          | some x => withQ { s with reg := x.1 } now (httpOutStr x.2)
          | none => (s, "bad-op")
      | "raw" :: m :: path :: bad :: t :: c :: n :: extra =>
        -- optional tokens: `q=<hex extra query>` (pprof arguments, not interpreted) and `obs=<status>` = the status
        -- the real run answered on a row whose answer is a SET (`httpOutcomes`): ACCEPTOR — printed back iff allowed
        match parseArgs bad t c n with
        | none => (s, "bad-op")
        | some a =>
          let x := httpStep s.conf s.reg m path a now
          let outs := httpOutcomes s.conf s.reg m path a now
          let obs : Option Nat := (extra.find? (fun w => w.startsWith "obs=")).bind (fun w => (w.drop 4).toNat?)
          let y : Option (Registry × Nat) :=
            match obs with
            | none => some x
            | some st => outs.find? (fun o => o.2 == st)
          match y with
          | none => withQ s now (s!"status-not-allowed allowed=" ++ ",".intercalate (outs.map (fun o => toString o.2)))
          | some x =>
            -- `/ping` answers the two bytes "OK" (`pingBody`), `/info` the document {"version": …} (`infoKeys`)
            let body := if m = "GET" && path = "/ping" && x.2 = 200 then " body=" ++ hex pingBody
                        else if m = "GET" && path = "/info" && x.2 = 200 then " body=" ++ ",".intercalate infoKeys
                        else ""
            withQ { s with reg := x.1 } now (s!"status={x.2}" ++ body)
      | "stream" :: p :: bytes :: dec =>
        match p.toNat?, unhex bytes with
        | some p, some bs =>
          let res := handle s.variant (decodeOf (parseDecode dec)) s.reg p now bs
          withQ { s with reg := res.reg } now
            (s!"fin={endStr res.fin} replies=" ++ ",".intercalate (res.replies.map hex))
        | _, _ => (s, "bad-op")
      | "abort" :: p :: kind :: args =>
        -- the peer sends one command and goes away WITHOUT reading the answer: the command is executed,
        -- the write of its answer fails, the exit path of IOLoop runs (model: the step, then disconnect)
        match p.toNat? with
        | none => (s, "bad-op")
        | some p =>
          let r1 : Option Registry :=
            match kind, args with
            | "identify", [bc, ho, ve, tcp, http] => (parseInfo bc ho ve tcp http).map (fun inf => (identify s.reg p inf now).1)
            | "register", ps => (unhexAll ps).map (fun ps => (register s.reg p ps).1)
            | "unregister", ps => (unhexAll ps).map (fun ps => (unregister s.reg p ps).1)
            | "ping", [] => some (ping s.reg p now)
            | _, _ => none
          match r1 with
          | some r1 => withQ { s with reg := disconnect r1 p } now "aborted"
          | none => (s, "bad-op")
      | ["spoof", p, _victim, _keys, bc, ho, ve, tcp, http, restHex, kS] =>
        -- as below, but the peer reads only the first k answers and then goes away (pending answer unread)
        match p.toNat?, parseInfo bc ho ve tcp http, unhex restHex, (kS.drop 2).toNat? with
        | some p, some inf, some rest, some k =>
          let bs := magicV1 ++ cmdIDENTIFY ++ [10, 0, 0, 0, 1, 66] ++ rest
          let res := handleW s.variant (fun b => if b = [66] then some inf else none) (fun n => decide (n < k)) s.reg p now bs
          withQ { s with reg := res.reg } now
            (s!"fin={endStr res.fin} replies=" ++ ",".intercalate (res.replies.map hex))
        | _, _, _, _ => (s, "bad-op")
      | ["spoof", p, _victim, _keys, bc, ho, ve, tcp, http, restHex] =>
        -- a valid IDENTIFY whose document has extra members (they are not IDENTIFY fields: the decoder's
        -- result is the five fields); the body is a one-byte placeholder here
        match p.toNat?, parseInfo bc ho ve tcp http, unhex restHex with
        | some p, some inf, some rest =>
          let bs := magicV1 ++ cmdIDENTIFY ++ [10, 0, 0, 0, 1, 66] ++ rest
          let res := handle s.variant (fun b => if b = [66] then some inf else none) s.reg p now bs
          withQ { s with reg := res.reg } now
            (s!"fin={endStr res.fin} replies=" ++ ",".intercalate (res.replies.map hex))
        | _, _, _ => (s, "bad-op")
      | _ => (s, "bad-op")
  | _ => (s, "bad-op")

/-- `noq <line>`: apply the line, print no answers (concurrent histories) -/
def stepLine (s : DSt) (line : String) : DSt × String :=
  match words line with
  | "noq" :: rest => ((stepLine1 s (" ".intercalate rest)).1, "noq")
  | "st" :: rest =>
    ((stepLine1 s (" ".intercalate rest)).1,
     (((stepLine1 s (" ".intercalate rest)).2.splitOn " | ").headD ""))
  | _ => stepLine1 s line

partial def loop (h : IO.FS.Stream) (out : IO.FS.Stream) (s : DSt) : IO Unit := do
  let line ← h.getLine
  if line.isEmpty then return ()
  let r := stepLine s (line.dropRightWhile (· == '\n'))
  out.putStrLn r.2
  loop h out r.1

def main : IO Unit := do
  let out ← IO.getStdout
  loop (← IO.getStdin) out {}
  out.flush
