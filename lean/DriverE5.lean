import Nsq.Model.Line
import Nsq.Model.Life
import Nsq.Model.InFlight
import Nsq.Model.Restart
/-
drv_e5: replays the op lines written by harness/e5/*_test.go through the Lean models
(Life = C08 atomic, InFlight = C08 micro-step) and prints one canonical answer line per op.
-/
open Nsq.Line
open Nsq.Model

namespace E5

def b01 (b : Bool) : String := if b then "1" else "0"

def parseB (s : String) : Bool := s == "1"

def sortStrings (l : List String) : List String := (l.toArray.qsort (· < ·)).toList
def sortNats (l : List Nat) : List Nat := (l.toArray.qsort (· < ·)).toList

def joinC (l : List String) : String := String.intercalate "," l

def ansStr : Life.Ans → String
  | .ok => "ok"
  | .noTopic => "notopic"
  | .noChan => "nochan"
  | .exiting => "exiting"
  | .notAllowed => "not-allowed"
  | .failed => "failed"

def chanDump (C : Life.Chan) : String :=
  let inf := sortStrings (C.inflight.map (fun e => s!"{e.1.id}:{e.1.attempts}:{e.2}"))
  let df := sortStrings (C.deferred.map (fun m => s!"{m.id}"))
  let cl := (C.clients.toArray.qsort (fun a b => a.id < b.id)).toList.map (fun k => s!"{k.id}:{k.inFlight}")
  s!"C {C.name} e={b01 C.eph} p={b01 C.paused} ml={C.memLen} dl={C.diskLen} if=[{joinC inf}] df=[{joinC df}] cl=[{joinC cl}] n={C.msgCount}"

def topicDump (T : Life.Topic) : String :=
  let cs := (T.chans.toArray.qsort (fun a b => a.name < b.name)).toList
  let head := s!"T {T.name} e={b01 T.eph} p={b01 T.paused} ml={T.memLen} dl={T.diskLen} n={T.msgCount}"
  cs.foldl (fun acc C => acc ++ " | " ++ chanDump C) head

def dump (s : Life.St) : String :=
  let ts := (s.topics.toArray.qsort (fun a b => a.name < b.name)).toList
  let closed := (sortNats s.closed.eraseDups).map toString
  String.intercalate " ; " (ts.map topicDump ++ [s!"closed=[{joinC closed}]"])

def metaStr (s : Life.St) : String :=
  let ts := (Life.persisted s).map (fun t =>
    let cs := sortStrings (t.2.2.map (fun c => c.1 ++ ":" ++ b01 c.2))
    t.1 ++ ":" ++ b01 t.2.1 ++ "[" ++ joinC cs ++ "]")
  "meta " ++ String.intercalate ";" (sortStrings ts)

def filesStr (s : Life.St) : String :=
  let names := s.files.map (fun b => match b.2 with | none => b.1 | some c => b.1 ++ ":" ++ c)
  "files " ++ joinC (sortStrings names)

def settle (s : Life.St) : Life.St :=
  s.topics.foldl (fun acc T => (Life.step acc (Life.Op.pump T.name)).1) s

def lifeOp (s : Life.St) (w : List String) : Option (Life.St × String) :=
  let ap (o : Life.Op) : Option (Life.St × String) :=
    let r := Life.step s o
    some (r.1, ansStr r.2)
  match w with
  | ["new", m] => some (Life.init m.toNat!, "ok")
  | ["ctopic", t, e] => ap (.createTopic t (parseB e))
  | ["cchan", t, c, e] => ap (.createChan t c (parseB e))
  | ["dtopic", t] => ap (.deleteTopic t)
  | ["dchan", t, c] =>
    let r := Life.step s (.deleteChanBegin t c)
    if r.2 != Life.Ans.ok then some (r.1, ansStr r.2)
    else
      let r2 := Life.step r.1 (.deleteChanUnlink t c)
      some (r2.1, ansStr r2.2)
  | ["etopic", t] => ap (.emptyTopic t)
  | ["echan", t, c] => ap (.emptyChan t c)
  | ["ptopic", t, p] => ap (.pauseTopic t (parseB p))
  | ["pchan", t, c, p] => ap (.pauseChan t c (parseB p))
  | ["pub", t, id, ts, body] =>
    match id.toNat?, ts.toInt?, unhex body with
    | some i, some tsv, some b => ap (.pub t { id := i, ts := tsv, attempts := 0, body := b })
    | _, _, _ => none
  | ["settle"] => some (settle s, "ok")
  | ["sub", t, c, k] => ap (.sub t c k.toNat!)
  | ["unsub", t, c, k] =>
    let r := Life.step s (.unsub t c k.toNat!)
    match Life.getChan r.1 t c with
    | some C =>
      if C.exiting then
        let r2 := Life.step r.1 (.deleteChanUnlink t c)
        some (r2.1, ansStr r2.2)
      else some (r.1, ansStr r.2)
    | none => some (r.1, ansStr r.2)
  | ["deliver", t, c, k, src, id] =>
    let r := Life.step s (.deliver t c k.toNat! (src == "mem") id.toNat!)
    if r.2 != Life.Ans.ok then some (r.1, ansStr r.2)
    else
      match Life.getChan r.1 t c with
      | some C =>
        match C.inflight.find? (fun e => e.1.id == id.toNat!) with
        | some e => some (r.1, s!"ok att={e.1.attempts} ts={e.1.ts} body={hex e.1.body}")
        | none => some (r.1, "ok ?")
      | none => some (r.1, "ok ?")
  | ["fin", t, c, k, id] => ap (.fin t c k.toNat! id.toNat!)
  | ["req", t, c, k, id, d] => ap (.req t c k.toNat! id.toNat! (parseB d))
  | ["release", t, c, id] => ap (.release t c id.toNat!)
  | ["dump"] => some (s, dump s)
  | ["meta"] => some (s, metaStr s)
  | ["files"] => some (s, filesStr s)
  | _ => none


/-! ### micro-step model (`if …` lines) -/

structure MS where
  fixed : Bool := false
  st : InFlight.St := InFlight.initSt []
  known : List Nat := []
  dead : Bool := false

def contStr : InFlight.Cont → String
  | .finAfterPop o => s!"fin.{o}@fin.afterPop"
  | .reqAfterPop o _ => s!"req.{o}@req.afterPop"
  | .reqAfterRemove o _ => s!"req.{o}@req.afterRemove"
  | .touchAfterPop o => s!"touch.{o}@touch.afterPop"
  | .touchAfterRemove o => s!"touch.{o}@touch.afterRemove"
  | .touchAfterMapPush o => s!"touch.{o}@touch.afterMapPush"
  | .inflightAfterMapPush o => s!"start.{o}@inflight.afterMapPush"
  | .scanAfterPQPop o => s!"scan.{o}@scan.afterPQPop"
  | .emptyAfterInflightReset => "empty.0@empty.afterInflightReset"
  | .emptyAfterInitPQ => "empty.0@empty.afterInitPQ"
  | .deferAfterMapPush o => s!"req.{o}@deferred.afterMapPush"
  | .dscanAfterPQPop o => s!"dscan.{o}@dscan.afterPQPop"
  | .reqDeferAfterMapPush o => s!"req.{o}@deferred.afterMapPush"

def microDump (m : MS) : String :=
  let s := m.st
  let mp := sortStrings (s.map.map toString)
  let pq := s.h.pq.map toString
  let dm := sortStrings (s.dmap.map toString)
  let dq := sortStrings (s.dpq.map (fun e => s!"{e.1}:{e.2}"))
  let q := sortStrings (s.queued.map toString)
  let objs := (sortNats m.known).map (fun o =>
    let x := s.h.objs o
    s!"{o}:{x.index}:{x.client}:{x.pri}")
  let cs := sortStrings (s.conts.map contStr)
  s!"map=[{joinC mp}] pq=[{joinC pq}] dmap=[{joinC dm}] dpq=[{joinC dq}] q=[{joinC q}] obj=[{joinC objs}] conts=[{joinC cs}]"

/-- apply a list of micro-steps; `none` = panic, disabled steps abort with "disabled" -/
def applySteps (fixed : Bool) (s : InFlight.St) : List InFlight.Step → Except String InFlight.St
  | [] => .ok s
  | a :: as =>
    match InFlight.step fixed s a with
    | InFlight.Res.ok s' => applySteps fixed s' as
    | InFlight.Res.panic => .error "panic"
    | InFlight.Res.disabled => .error "disabled"

def dscanLoop (fixed : Bool) (t : Int) : Nat → InFlight.St → Except String InFlight.St
  | 0, s => .ok s
  | fuel + 1, s =>
    match InFlight.step fixed s (.dscanPeek t) with
    | InFlight.Res.ok s1 =>
      match s1.conts with
      | InFlight.Cont.dscanAfterPQPop o :: _ =>
        if s1.conts.length > s.conts.length then
          let had := decide (o ∈ s1.dmap)
          match InFlight.step fixed s1 (.dscanPop o) with
          | InFlight.Res.ok s2 => if had then dscanLoop fixed t fuel s2 else .ok s2
          | _ => .error "disabled"
        else .ok s1
      | _ => .ok s1
    | InFlight.Res.panic => .error "panic"
    | InFlight.Res.disabled => .error "disabled"

def microOp (m : MS) (w : List String) : MS × String :=
  let fin (r : Except String InFlight.St) (okAns : InFlight.St → String) : MS × String :=
    match r with
    | .ok s' => ({ m with st := s' }, okAns s')
    | .error "panic" => ({ m with dead := true }, "panic")
    | .error e => (m, e)
  let s := m.st
  let f := m.fixed
  match w with
  | ["new", fx] => ({ fixed := fx == "1" }, "ok")
  | ["new", fx, sa] =>
    ({ fixed := fx == "1", st := { InFlight.initSt [] with scanAtomic := sa == "1" } }, "ok")
  | ["new", fx, sa, pa, al] =>
    ({ fixed := fx == "1", st := { InFlight.initSt [] with scanAtomic := sa == "1", pushAtomic := pa == "1",
                                                           ansLock := al == "1" } }, "ok")
  | ["dump"] => (m, microDump m)
  | ["put", o] =>
    let r := fin (applySteps f s [.put o.toNat!]) (fun _ => "ok")
    ({ r.1 with known := if o.toNat! ∈ m.known then m.known else o.toNat! :: m.known }, r.2)
  | ["reload", o] => fin (applySteps f s [.reload o.toNat!]) (fun _ => "ok")
  | ["startMapPush", c, o, p] =>
    let had := decide (o.toNat! ∈ s.map)
    fin (applySteps f s [.startMapPush c.toInt! o.toNat! p.toInt!]) (fun _ => if had then "err" else "parked")
  | ["startPQPush", o] => fin (applySteps f s [.startPQPush o.toNat!]) (fun _ => "ok")
  | ["finPop", c, o] =>
    let owns := decide (o.toNat! ∈ s.map) && (s.h.objs o.toNat!).client == c.toInt!
    fin (applySteps f s [.finPop c.toInt! o.toNat!]) (fun _ => if owns then "parked" else "err")
  | ["finRemove", o] => fin (applySteps f s [.finRemove o.toNat!]) (fun _ => "ok")
  | ["reqPop", c, o, d] =>
    let owns := decide (o.toNat! ∈ s.map) && (s.h.objs o.toNat!).client == c.toInt!
    fin (applySteps f s [.reqPop c.toInt! o.toNat! d.toInt!]) (fun _ => if owns then "parked" else "err")
  | ["reqResume", o] =>
    let n := o.toNat!
    let d : Option Int := (s.conts.filterMap (fun k => match k with
      | InFlight.Cont.reqAfterPop o' dd => if o' = n then (some dd : Option Int) else none
      | _ => none)).head?
    let hadD := decide (n ∈ s.dmap)
    fin (applySteps f s [.reqRemove n, .reqPut n]) (fun _ =>
      match d with
      | some 0 => "ok"
      | some _ => if hadD then "err" else "parked"
      | none => "disabled")
  | ["deferPQPush", o, p] => fin (applySteps f s [.deferPQPush o.toNat! p.toInt!]) (fun _ => "ok")
  | ["touchPop", c, o] =>
    let owns := decide (o.toNat! ∈ s.map) && (s.h.objs o.toNat!).client == c.toInt!
    fin (applySteps f s [.touchPop c.toInt! o.toNat!]) (fun _ => if owns then "parked" else "err")
  | ["touchResume", o, p] =>
    let n := o.toNat!
    match applySteps f s [.touchRemove n] with
    | .ok s1 =>
      let had := decide (n ∈ s1.map)
      fin (applySteps f s1 [.touchMapPush n p.toInt!]) (fun _ => if had then "err" else "parked")
    | .error "panic" => ({ m with dead := true }, "panic")
    | .error e => (m, e)
  | ["touchPQPush", o] => fin (applySteps f s [.touchPQPush o.toNat!]) (fun _ => "ok")
  | ["scanPeek", t] =>
    fin (applySteps f s [.scanPeek t.toInt!]) (fun s' => if s'.conts.length > s.conts.length then "parked" else "ok")
  | ["scanResume", o, t] =>
    let n := o.toNat!
    let had := s.scanAtomic || decide (n ∈ s.map)
    match applySteps f s [.scanPop n] with
    | .ok s1 =>
      if had then
        fin (applySteps f s1 [.scanPeek t.toInt!]) (fun s' => if s'.conts.length > s1.conts.length then "parked" else "ok")
      else ({ m with st := s1 }, "ok")
    | .error "panic" => ({ m with dead := true }, "panic")
    | .error e => (m, e)
  | ["dscan", t] => fin (dscanLoop f t.toInt! 64 s) (fun _ => "ok")
  | ["emptyInit"] => fin (applySteps f s [.emptyResetInflight, .emptyResetDeferred]) (fun _ => "parked")
  | ["emptyRest"] => fin (applySteps f s [.emptyRest]) (fun _ => "ok")
  | _ => (m, "bad-op")

structure DS where
  life : Life.St := Life.init 0
  micro : MS := {}
  persist : Restart.Persist := { metadata := [], dq := [], closed := [] }

partial def loop (h : IO.FS.Stream) (out : IO.FS.Stream) (st : DS) : IO Unit := do
  let line ← h.getLine
  if line.isEmpty then return ()
  let w := words (line.trimRight)
  if w.head? == some "if" then
    let r := microOp st.micro w.tail
    out.putStrLn r.2
    loop h out { st with micro := r.1 }
  else if w == ["closeall"] then
    let p := Restart.closeAll st.life
    out.putStrLn s!"ok closed=[{joinC ((sortNats p.closed).map toString)}]"
    -- until `reload` the model state only keeps what is on disk (for the `files` line)
    loop h out { st with persist := p, life := Restart.reload st.life.memCap p }
  else if w.head? == some "reload" then
    out.putStrLn "ok"
    loop h out { st with life := Restart.reload (w.getD 1 "0").toNat! st.persist }
  else if w == ["filesexact"] then
    out.putStrLn (filesStr st.life)
    loop h out st
  else
  match lifeOp st.life w with
  | some (s', a) =>
    out.putStrLn a
    loop h out { st with life := s' }
  | none =>
    out.putStrLn "bad-op"
    loop h out st

end E5

def main : IO Unit := do
  let stdin ← IO.getStdin
  let stdout ← IO.getStdout
  E5.loop stdin stdout {}
