import Nsq.Props.T0
