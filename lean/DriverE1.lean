import Nsq.Model.Line
import Nsq.Model.Guid
/-! Driver for engine E1 (codec): one operation per input line, one canonical answer line out. -/
open Nsq Nsq.Line

def errName : Nsq.Model.Guid.Err → String
  | .none => "none" | .timeBackwards => "timeBackwards"
  | .sequenceExpired => "sequenceExpired" | .idBackwards => "idBackwards"

def stepLine (line : String) : String :=
  match words line with
  | ["guid", node, seq, lastTs, lastID, now] =>
    match bv64 node, bv64 seq, bv64 lastTs, bv64 lastID, bv64 now with
    | some node, some seq, some lastTs, some lastID, some now =>
      let r := Nsq.Model.Guid.newGUID { nodeID := node, seq := seq, lastTs := lastTs, lastID := lastID } now
      s!"{r.2.1.toInt} {errName r.2.2} {r.1.seq.toInt} {r.1.lastTs.toInt} {r.1.lastID.toInt}"
    | _, _, _, _, _ => "bad-op"
  | ["hex", g] =>
    match bv64 g with
    | some g => bytesToString (Nsq.Model.Guid.hex g)
    | none => "bad-op"
  | _ => "bad-op"

partial def loop (h : IO.FS.Stream) (out : IO.FS.Stream) : IO Unit := do
  let line ← h.getLine
  if line.isEmpty then return ()
  out.putStrLn (stepLine (line.dropRightWhile (· == '\n')))
  loop h out

def main : IO Unit := do
  let out ← IO.getStdout
  loop (← IO.getStdin) out
  out.flush
