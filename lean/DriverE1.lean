import Nsq.Model.Line
import Nsq.Model.Guid
import Nsq.Model.GuidClock
import Nsq.Model.Num
import Nsq.Model.RdyBytes
import Nsq.Model.PQ
import Nsq.Model.Timing
import Nsq.Model.TimingOpts
import Nsq.Model.Wire
import Nsq.Model.WireStackLine
import Nsq.Tie.WireStackTree
/-! Driver for engine E1 (codec / numeric / timing): one operation per input line, one canonical
answer line out. The only state kept between lines is the channel of the `ch …` operations. -/
open Nsq Nsq.Line

def errName : Nsq.Model.Guid.Err → String
  | .none => "none" | .timeBackwards => "timeBackwards"
  | .sequenceExpired => "sequenceExpired" | .idBackwards => "idBackwards"

/-! ### helpers -/

def toBV8 (b : List UInt8) : List (BitVec 8) := b.map (fun x => BitVec.ofNat 8 x.toNat)

def joinWith (sep : String) (xs : List String) : String :=
  if xs.isEmpty then "-" else sep.intercalate xs

def parseE (s : String) : Option Nsq.Model.PQ.E :=
  match s.splitOn ":" with
  | [a, b, c] =>
    match a.toNat?, b.toInt?, c.toInt? with
    | some id, some pri, some ix => some { id := id, pri := pri, index := ix }
    | _, _, _ => none
  | _ => none

def parseHeap (s : String) : Option Nsq.Model.PQ.H :=
  if s = "-" then some #[] else
  (s.splitOn ",").foldl (fun acc x => match acc, parseE x with
    | some a, some e => some (a.push e)
    | _, _ => none) (some #[])

def showE (e : Nsq.Model.PQ.E) : String := s!"{e.id}:{e.pri}:{e.index}"

def showHeap (a : Nsq.Model.PQ.H) : String := joinWith "," (a.toList.map showE)

def showPopped (none_ : String) : Option (Nsq.Model.PQ.H × Nsq.Model.PQ.E) → String
  | none => none_
  | some (a, e) => s!"{showE e} | {showHeap a}"

def parseNats (s : String) : Option (List Nat) :=
  if s = "-" then some [] else (s.splitOn ",").mapM (·.toNat?)

def insertSorted (x : Nat) : List Nat → List Nat
  | [] => [x]
  | y :: ys => if x ≤ y then x :: y :: ys else y :: insertSorted x ys

def sortNats (l : List Nat) : List Nat := l.foldr insertSorted []

def insertInF (x : Nsq.Model.Timing.InF) : List Nsq.Model.Timing.InF → List Nsq.Model.Timing.InF
  | [] => [x]
  | y :: ys => if x.id ≤ y.id then x :: y :: ys else y :: insertInF x ys

def showChan (c : Nsq.Model.Timing.Chan) : String :=
  let ifm := (c.ifmap.foldr insertInF []).map (fun r => s!"{r.id}:{r.client}:{r.dts}")
  s!"ifpq={showHeap c.ifpq} ifmap={joinWith "," ifm} dpq={showHeap c.dpq} " ++
  s!"dmap={joinWith "," ((sortNats c.dmap).map toString)} ready={joinWith "," (c.ready.map toString)}"

def resName : Nsq.Model.Timing.Res → String
  | .ok => "ok" | .alreadyInFlight => "alreadyInFlight" | .notInFlight => "notInFlight"
  | .notOwner => "notOwner" | .alreadyDeferred => "alreadyDeferred" | .panic => "panic"

def heapChecks (a : Nsq.Model.PQ.H) : String :=
  s!"ord={Nsq.Model.PQ.heapOrdOk a} idx={Nsq.Model.PQ.indexOk a}"

/-! ### the channel operations (stateful) -/

def chanStep (c : Nsq.Model.Timing.Chan) (w : List String) : Nsq.Model.Timing.Chan × String :=
  open Nsq.Model.Timing in
  let fin (r : Chan × Res) : Chan × String :=
    ({ r.1 with ready := [] }, s!"{resName r.2} {showChan r.1}")
  match w with
  | ["reset"] => ({}, "ok " ++ showChan {})
  | ["inflight", now, id, client, timeout] =>
    match now.toInt?, id.toNat?, client.toInt?, timeout.toInt? with
    | some now, some id, some client, some timeout => fin (startInFlight c now id client timeout)
    | _, _, _, _ => (c, "bad-op")
  | ["setdts", id, dts] =>
    match id.toNat?, dts.toInt? with
    | some id, some dts =>
      let c' := { c with ifmap := c.ifmap.map (fun r => if r.id == id then { r with dts := dts } else r) }
      (c', "ok " ++ showChan c')
    | _, _ => (c, "bad-op")
  | ["touch", now, client, id, mt, maxmt] =>
    match now.toInt?, client.toInt?, id.toNat?, mt.toInt?, maxmt.toInt? with
    | some now, some client, some id, some mt, some maxmt => fin (touch c now client id mt maxmt)
    | _, _, _, _, _ => (c, "bad-op")
  | ["finish", client, id] =>
    match client.toInt?, id.toNat? with
    | some client, some id => fin (finish c client id)
    | _, _ => (c, "bad-op")
  | ["requeue", now, client, id, timeout] =>
    match now.toInt?, client.toInt?, id.toNat?, timeout.toInt? with
    | some now, some client, some id, some timeout => fin (requeue c now client id timeout)
    | _, _, _, _ => (c, "bad-op")
  | ["defer", now, id, timeout] =>
    match now.toInt?, id.toNat?, timeout.toInt? with
    | some now, some id, some timeout => fin (startDeferred c now id timeout)
    | _, _, _ => (c, "bad-op")
  | ["scanif", t] =>
    match t.toInt? with
    | some t =>
      let s := scanInFlight c t
      ({ s.chan with ready := [] },
       s!"dirty={s.dirty} rel={joinWith "," (s.released.map showE)} {showChan s.chan} {heapChecks s.chan.ifpq}")
    | none => (c, "bad-op")
  | ["scandef", t] =>
    match t.toInt? with
    | some t =>
      let s := scanDeferred c t
      ({ s.chan with ready := [] },
       s!"dirty={s.dirty} rel={joinWith "," (s.released.map showE)} {showChan s.chan} {heapChecks s.chan.dpq}")
    | none => (c, "bad-op")
  | _ => (c, "bad-op")

/-! ### stateless operations -/

def showBytesList (l : List (List UInt8)) : String := joinWith "," (l.map hex)

def stepLine (line : String) : String :=
  match words line with
  | ["guid", node, seq, lastTs, lastID, now] =>
    match bv64 node, bv64 seq, bv64 lastTs, bv64 lastID, bv64 now with
    | some node, some seq, some lastTs, some lastID, some now =>
      let r := Nsq.Model.Guid.newGUID { nodeID := node, seq := seq, lastTs := lastTs, lastID := lastID } now
      s!"{r.2.1.toInt} {errName r.2.2} {r.1.seq.toInt} {r.1.lastTs.toInt} {r.1.lastID.toInt}"
    | _, _, _, _, _ => "bad-op"
  | ["genids", node, seq, lastTs, lastID, t0, tss] =>
    match bv64 node, bv64 seq, bv64 lastTs, bv64 lastID, bv64 t0, (tss.splitOn ",").mapM bv64 with
    | some node, some seq, some lastTs, some lastID, some t0, some tss =>
      Nsq.Model.GuidClock.genidsAnswer node seq lastTs lastID t0 tss
    | _, _, _, _, _, _ => "bad-op"
  | ["optcheck", fixed, mt, max] =>
    match mt.toInt?, max.toInt? with
    | some mt, some max => Nsq.Model.TimingOpts.optcheckAnswer (fixed == "1") mt max
    | _, _ => "bad-op"
  | ["rdy", maxRdy, arg] =>
    match bv64 maxRdy, (if arg = "none" then some none else (unhex arg).map some) with
    | some maxRdy, some a => Nsq.Model.RdyBytes.rdyAnswer maxRdy (a.map toBV8)
    | _, _ => "bad-op"
  | ["hex", g] =>
    match bv64 g with
    | some g => bytesToString (Nsq.Model.Guid.hex g)
    | none => "bad-op"
  -- numeric
  | ["b10", h] =>
    match unhex h with
    | some b => match Nsq.Model.Num.byteToBase10 (toBV8 b) with
      | some n => s!"ok {n.toNat}"
      | none => "err"
    | none => "bad-op"
  | ["ms2dur", ms] =>
    match ms.toNat? with
    | some ms => s!"{(Nsq.Model.Num.msToDuration (BitVec.ofNat 64 ms)).toInt}"
    | none => "bad-op"
  | ["req", maxReq, h] =>
    match bv64 maxReq, unhex h with
    | some m, some b => match Nsq.Model.Num.reqTimeout m (toBV8 b) with
      | some d => s!"{d.toInt}"
      | none => "err"
    | _, _ => "bad-op"
  | ["reqtcp", maxReq, h, lo, hi] =>
    match bv64 maxReq, unhex h, lo.toInt?, hi.toInt? with
    | some m, some b, some lo, some hi => match Nsq.Model.Num.reqTimeout m (toBV8 b) with
      | some d => s!"ok in={decide (lo ≤ d.toInt ∧ d.toInt ≤ hi)}"
      | none => "err"
    | _, _, _, _ => "bad-op"
  | ["dpub", maxReq, h] =>
    match bv64 maxReq, unhex h with
    | some m, some b => match Nsq.Model.Num.dpubDefer m (toBV8 b) with
      | .ok d => s!"{d.toInt}"
      | .error .parse => "parse"
      | .error .range => "range"
    | _, _ => "bad-op"
  | ["hdefer", maxReq, h] =>
    match bv64 maxReq, unhex h with
    | some m, some b => match Nsq.Model.Num.httpDefer m (toBV8 b) with
      | some d => s!"{d.toInt}"
      | none => "invalid"
    | _, _ => "bad-op"
  | ["setmsgtimeout", maxmt, cur, v] =>
    match bv64 maxmt, bv64 cur, bv64 v with
    | some m, some c, some v => match Nsq.Model.Num.setMsgTimeout m c v with
      | some d => s!"{d.toInt}"
      | none => "invalid"
    | _, _, _ => "bad-op"
  -- heaps (stateless: the whole array is part of the line)
  | ["pq1", "push", a, id, pri] =>
    match parseHeap a, id.toNat?, pri.toInt? with
    | some a, some id, some pri => showHeap (Nsq.Model.PQ.push a id pri)
    | _, _, _ => "bad-op"
  | ["pq2", "push", a, id, pri] =>
    match parseHeap a, id.toNat?, pri.toInt? with
    | some a, some id, some pri => showHeap (Nsq.Model.PQ.push a id pri)
    | _, _, _ => "bad-op"
  | ["pq1", "pop", a] =>
    match parseHeap a with
    | some a => showPopped "panic" (Nsq.Model.PQ.pop1 a)
    | none => "bad-op"
  | ["pq1", "remove", a, i] =>
    match parseHeap a, i.toNat? with
    | some a, some i => showPopped "panic" (Nsq.Model.PQ.remove1 a i)
    | _, _ => "bad-op"
  | ["pq2", "remove", a, i] =>
    match parseHeap a, i.toNat? with
    | some a, some i => showPopped "panic" (Nsq.Model.PQ.remove2 a i)
    | _, _ => "bad-op"
  | ["pq1", "peek", a, t] =>
    match parseHeap a, t.toInt? with
    | some a, some t => showPopped "nil" (Nsq.Model.PQ.peekAndShift1 a t)
    | _, _ => "bad-op"
  | ["pq2", "peek", a, t] =>
    match parseHeap a, t.toInt? with
    | some a, some t => showPopped "nil" (Nsq.Model.PQ.peekAndShift2 a t)
    | _, _ => "bad-op"
  | ["pqinv", a] =>
    match parseHeap a with
    | some a => heapChecks a
    | none => "bad-op"
  | ["uniq", q, n, rs] =>
    match q.toNat?, n.toNat?, parseNats rs with
    | some q, some n, some rs =>
      match Nsq.Model.Timing.uniqRands q n (fun i => match rs[i]? with | some v => v | none => 0) with
      | some l => joinWith "," (l.map toString)
      | none => "panic"
    | _, _, _ => "bad-op"
  -- wire formats
  | ["enc", ts, att, id, body] =>
    match bv64 ts, att.toNat?, unhex id, unhex body with
    | some ts, some att, some id, some body =>
      hex (Nsq.Model.Wire.encode { ts := ts, attempts := BitVec.ofNat 16 att, id := id, body := body })
    | _, _, _, _ => "bad-op"
  | ["dec", b] =>
    match unhex b with
    | some b => match Nsq.Model.Wire.decode b with
      | some m => s!"{m.ts.toInt} {m.attempts.toNat} {hex m.id} {hex m.body}"
      | none => "err"
    | none => "bad-op"
  | ["frame", ft, d] =>
    match ft.toInt?, unhex d with
    | some ft, some d => hex (Nsq.Model.Wire.encodeFrame { ftype := BitVec.ofInt 32 ft, data := d })
    | _, _ => "bad-op"
  | ["frames", s] =>
    match unhex s with
    | some s => match Nsq.Model.Wire.parseFrames s with
      | some fs => joinWith "," (fs.map (fun f => s!"{f.ftype.toInt}:{hex f.data}"))
      | none => "err"
    | none => "bad-op"
  | ["mpub", maxMsg, maxBody, s] =>
    match maxMsg.toInt?, maxBody.toInt?, unhex s with
    | some mm, some mb, some s => match Nsq.Model.Wire.readMPUB s mm mb with
      | .ok (bs, rest) => s!"ok {bs.length} {showBytesList bs} rest={rest.length}"
      | .error .badBody => "E_BAD_BODY"
      | .error .badMessage => "E_BAD_MESSAGE"
    | _, _, _ => "bad-op"
  | "stack" :: toks => Nsq.Model.WireStack.stackLine Nsq.Tie.WireStack.tree toks
  | "bufw" :: cap :: ops =>
    match cap.toNat? with
    | some cap =>
      let r := ops.foldl (fun (acc : Option Nsq.Model.Wire.BufW) o =>
        match acc with
        | none => none
        | some w =>
          if o = "f" then some (Nsq.Model.Wire.bufFlush w)
          else if o.startsWith "w" then (unhex (String.ofList (o.toList.drop 1))).map (Nsq.Model.Wire.bufWrite w)
          else none) (some { cap := cap })
      match r with
      | some w => s!"sink={hex w.sink} buf={hex w.buf}"
      | none => "bad-op"
    | none => "bad-op"
  | [hp, maxMsg, s] =>
    if hp != "hpub" && hp != "hpubcl" then "bad-op" else
    match maxMsg.toNat?, unhex s with
    | some mm, some s => match Nsq.Model.Wire.httpPub (hp == "hpubcl") s mm with
      | .ok b => s!"ok {hex b}"
      | .error .tooBig => "MSG_TOO_BIG"
      | .error .empty => "MSG_EMPTY"
    | _, _ => "bad-op"
  | [tm, maxMsg, maxBody, s] =>
    if tm != "textmpub" && tm != "textmpubcl" then "bad-op" else
    match maxMsg.toNat?, maxBody.toNat?, unhex s with
    | some mm, some mb, some s => match Nsq.Model.Wire.textMpubHttp (tm == "textmpubcl") s mm mb with
      | .ok bs => s!"ok {bs.length} {showBytesList bs}"
      | .error .bodyTooBig => "BODY_TOO_BIG"
      | .error .msgTooBig => "MSG_TOO_BIG"
    | _, _, _ => "bad-op"
  | _ => "bad-op"

partial def loop (h : IO.FS.Stream) (out : IO.FS.Stream) (c : Nsq.Model.Timing.Chan) : IO Unit := do
  let line ← h.getLine
  if line.isEmpty then return ()
  let l := line.dropRightWhile (· == '\n')
  match words l with
  | "ch" :: rest =>
    let r := chanStep c rest
    out.putStrLn r.2
    loop h out r.1
  | _ =>
    out.putStrLn (stepLine l)
    loop h out c

def main : IO Unit := do
  let out ← IO.getStdout
  loop (← IO.getStdin) out {}
  out.flush
