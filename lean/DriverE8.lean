import Nsq.Model.Line
import Nsq.Model.ToFile
import Nsq.Model.Split
import Nsq.Model.Relay
import Nsq.Model.ToFileTrace
import Nsq.Model.ToFileName
import Nsq.Model.ToFileDisc
import Nsq.Model.ToFileMain
import Nsq.Model.ToNsqLoop   -- relay sub-builder (C20 round 6): to_nsq main loop
import Nsq.Model.RelayOpts   -- relay sub-builder (C20 round 6): option surface of nsq_to_http / nsq_to_nsq
import Nsq.Model.RelayRedirect   -- tools2 (audit round 7, C3): nsq_to_http through the http.Client of main()
import Nsq.Model.RelayAudit7 -- C20 audit round 7 (sub-builder c20b): n2n histories, to_nsq refusal, GET endpoint
/-! Driver for engine E8 (tools): one operation per input line, one canonical answer line out.

`tf …`  nsq_to_file router model (stateful: conf / pre / events / tree)
`sp …`  to_nsq record splitter
`rl …`  relay handlers (nsq_to_nsq, nsq_to_http)
`tr …`  syscall-trace checker (FIN only after fsync)
`fn …`  nsq_to_file file names (computeFilenameFormat / currentFilename)
`mn …`  nsq_to_file main(): start-up checks (refused / started)
`td …`  nsq_to_file TopicDiscoverer (stateful: new / upd / tick-err / hup / term)
`lp …`  to_nsq main loop (throttle / EOF / Stop) under a given schedule      [relay block]
`opt …` relay option surface: hdr / req / args / pass / wl / topic / hmark / nmark [relay block]
`rd …`  nsq_to_http wire level: one message through HandleMessage + http.Client (redirects)  [tools2 block]
`a7 …`  C20 audit round 7: n2n-hist / refuse / get                                  [audit7-b block]
-/
open Nsq Nsq.Line

namespace E8
open Nsq.Model.ToFile

def pad6 (n : Nat) : String :=
  let s := toString n
  String.ofList (List.replicate (6 - s.length) '0') ++ s

def render (p : Path) : String :=
  (if p.out then "o/" else "w/") ++ p.tmpl.replace "<REV>" ("-" ++ pad6 p.rev)

def statusName : Status → String
  | .running => "running" | .done => "done" | .fatalExit => "fatal" | .killed => "killed"
  | .panicked => "panic" | .diverged => "diverged"

def liveNames (fs : FS) : List Path :=
  (fs.dom.eraseDups).filter (fun p => (fs.get p).isSome)

def sortStr (xs : List String) : List String := xs.mergeSort (fun a b => decide (a ≤ b))

def filesLine (fs : FS) (full : Bool) : String :=
  let items := (liveNames fs).filterMap fun p =>
    match fs.get p with
    | none => none
    | some f => some (render p ++ (if full then "=" ++ hex f.data else ":" ++ toString f.data.length))
  ",".intercalate (sortStr items)

/-- where the coming event is hit (audit C30.1): the harness names the primitive by what it can observe on the real
code — "the first primitive of the event", "the n-th Finish", "the first primitive after the FIN batch" — and the
driver resolves that to an index of the schedule `io : Nat → Fault` by running the model itself -/
inductive FSel | first | fin (n : Nat) | afterFins | sync | move
deriving Repr

structure D where
  cfg : Cfg := ⟨false, 0, 0, false, false, 1, true, false, false, false, false⟩
  st : St := init FS.empty
  nfin : Nat := 0
  fault : Option (Fault × FSel) := none
  unreadable : Bool := false     -- round 11: every read of a last byte fails (`Fault.rdErr` in every slot not hit by `fault`)
  disc : Nsq.Model.ToFileDisc.D := {}

def stateLine (d : D) : String × D :=
  let newFins := (d.st.finished.take (d.st.finished.length - d.nfin)).reverse
  let fins := " ".intercalate (newFins.map fun m => toString m.id)
  (s!"st={statusName d.st.status} fin=[{fins}] files={filesLine d.st.fs false}",
   { d with nfin := d.st.finished.length })

def noFault : Nat → Fault := fun _ => .ok

def ioAt (t : Nat) (k : Fault) : Nat → Fault := fun i => if i = t then k else .ok

/-- the schedule without an injected stop: all `ok`, or (files unreadable) all `rdErr` -/
def baseIo (unreadable : Bool) : Nat → Fault := fun _ => if unreadable then .rdErr else .ok

def ioAtB (unreadable : Bool) (t : Nat) (k : Fault) : Nat → Fault := fun i => if i = t then k else baseIo unreadable i

def newFins (st0 s : St) : Nat := s.finished.length - st0.finished.length

/-- `kill` at index t freezes the state right before primitive t: scanning t = t0, t0+1, … walks through the
primitives of the event. Result: the last t whose frozen state has exactly `n - 1` new FINs, i.e. the index of the
n-th Finish (if the event has one). -/
def scanFin (f : (Nat → Fault) → St) (st0 : St) (n : Nat) : Nat → Nat → Option Nat → Option Nat
  | 0, _, last => last
  | fuel + 1, t, last =>
    let s := f (ioAt t .kill)
    if s.status ≠ .killed then last
    else if newFins st0 s ≥ n then last
    else scanFin f st0 n fuel (t + 1) (if newFins st0 s + 1 = n then some t else last)

/-- the first primitive index at which all `total` FINs of the event are done and something is still to come -/
def scanAfter (f : (Nat → Fault) → St) (st0 : St) (total : Nat) : Nat → Nat → Option Nat
  | 0, _ => none
  | fuel + 1, t =>
    let s := f (ioAt t .kill)
    if s.status ≠ .killed then none
    else if newFins st0 s = total then some t
    else scanAfter f st0 total fuel (t + 1)

/-- the first primitive index whose frozen state satisfies `p` -/
def scanP (f : (Nat → Fault) → St) (p : St → Bool) : Nat → Nat → Option Nat
  | 0, _ => none
  | fuel + 1, t =>
    let s := f (ioAt t .kill)
    if s.status ≠ .killed then none
    else if p s then some t
    else scanP f p fuel (t + 1)

def resolve (f : (Nat → Fault) → St) (st0 : St) : FSel → Option Nat
  -- `Sync()` of the sync block of a `msg` event: the record is written (the message sits in `output[]`), nothing finished yet
  | .sync => scanP f (fun s => decide (s.pending.length > st0.pending.length) && newFins st0 s == 0) 4096 st0.tick
  -- the link that starts the work-dir → output-dir move in `Close()`: the descriptor was open and is closed now
  | .move => if st0.hasOut ∧ ¬ st0.outOpen then none
             else scanP f (fun s => s.hasOut && !s.outOpen) 4096 st0.tick
  | .first => if (f (ioAt st0.tick .kill)).status = .killed then some st0.tick else none
  | .fin n =>
    if n = 0 ∨ newFins st0 (f noFault) < n then none else scanFin f st0 n 4096 st0.tick none
  | .afterFins =>
    let total := newFins st0 (f noFault)
    if total = 0 then none else scanAfter f st0 total 4096 st0.tick

/-- run the event list (one router iteration, or two for `termstop`) under the pending fault, if any -/
def runEv (d : D) (evs : List (Ev × Bool)) : St × String :=
  let f := fun io => run d.cfg io d.st evs
  match d.fault with
  | none => (f (baseIo d.unreadable), "")
  | some (k, sel) =>
    match resolve f d.st sel with
    | none => (f (baseIo d.unreadable), "")            -- the event has no such primitive: nothing was injected
    | some t => (f (ioAtB d.unreadable t k), "")

def b01 (s : String) : Option Bool := if s = "1" then some true else if s = "0" then some false else none

def strOfHex (s : String) : Option String := (unhex s).map bytesToString

def tfStep (d : D) (ws : List String) : String × D :=
  match ws with
  | ["conf", gz, rs, ri, wd, se, mif, hr] =>
    match b01 gz, rs.toNat?, ri.toInt?, b01 wd, b01 se, mif.toNat?, b01 hr with
    | some gz, some rs, some ri, some wd, some se, some mif, some hr =>
      ("ok", { d with cfg := ⟨gz, rs, ri, wd, se, mif, hr, false, false, false, false⟩, st := init FS.empty, nfin := 0 })
    | _, _, _, _, _, _, _ => ("bad-op", d)
  | ["conf", gz, rs, ri, wd, se, mif, hr, cc] =>   -- cc: Close() clears f.out after a successful move (fix F44), probed on the real code
    match b01 gz, rs.toNat?, ri.toInt?, b01 wd, b01 se, mif.toNat?, b01 hr, b01 cc with
    | some gz, some rs, some ri, some wd, some se, some mif, some hr, some cc =>
      ("ok", { d with cfg := ⟨gz, rs, ri, wd, se, mif, hr, cc, false, false, false⟩, st := init FS.empty, nfin := 0 })
    | _, _, _, _, _, _, _, _ => ("bad-op", d)
  -- ---- c19a block (audit 7 C5/C4): ow = the router writes body+"\n" with one Write (fix F46), sl = updateFile seals a
  -- torn tail before appending (fix F47); both probed on the real code (harness/e8/tofile_lines_test.go)
  | ["conf", gz, rs, ri, wd, se, mif, hr, cc, ow, sl] =>
    match b01 gz, rs.toNat?, ri.toInt?, b01 wd, b01 se, mif.toNat?, b01 hr, b01 cc, b01 ow, b01 sl with
    | some gz, some rs, some ri, some wd, some se, some mif, some hr, some cc, some ow, some sl =>
      ("ok", { d with cfg := ⟨gz, rs, ri, wd, se, mif, hr, cc, ow, sl, false⟩, st := init FS.empty, nfin := 0, unreadable := false })
    | _, _, _, _, _, _, _, _, _, _ => ("bad-op", d)
  -- ---- round 11 (tools3-c19, F47b): rw = sealTornTail answers a failed READ of the last byte with a warning and appends
  -- unsealed (1) instead of returning the error = exit (0 = committed F47; a line without the field means 0)
  | ["conf", gz, rs, ri, wd, se, mif, hr, cc, ow, sl, rw] =>
    match b01 gz, rs.toNat?, ri.toInt?, b01 wd, b01 se, mif.toNat?, b01 hr, b01 cc, b01 ow, b01 sl, b01 rw with
    | some gz, some rs, some ri, some wd, some se, some mif, some hr, some cc, some ow, some sl, some rw =>
      ("ok", { d with cfg := ⟨gz, rs, ri, wd, se, mif, hr, cc, ow, sl, rw⟩, st := init FS.empty, nfin := 0, unreadable := false })
    | _, _, _, _, _, _, _, _, _, _, _ => ("bad-op", d)
  -- from now on no existing file can be read by the tool (1) / every file can (0): the base schedule is all `rdErr` / all `ok`
  | ["unreadable", b] =>
    match b01 b with
    | some b => ("ok", { d with unreadable := b })
    | none => ("bad-op", d)
  -- ---- end of round 11 block ----
  | ["extapp", dir, tmpl, rev, data] =>   -- another O_APPEND writer of the same plain file appends `data` with one write(2)
    match strOfHex tmpl, rev.toNat?, unhex data with
    | some tmpl, some rev, some data =>
      stateLine { d with st := step d.cfg noFault d.st (.extAppend ⟨dir = "o", tmpl, rev⟩ data) false }
    | _, _, _ => ("bad-op", d)
  -- ---- end of c19a block ----
  | ["pre", dir, tmpl, rev, data] =>
    match strOfHex tmpl, rev.toNat?, unhex data with
    | some tmpl, some rev, some data =>
      let p : Path := ⟨dir = "o", tmpl, rev⟩
      ("ok", { d with st := { d.st with fs := d.st.fs.set p ⟨data, [], data.length⟩ } })
    | _, _, _ => ("bad-op", d)
  | ["msg", id, body, now, fn, starved] =>
    match id.toNat?, unhex body, now.toInt?, strOfHex fn, b01 starved with
    | some id, some body, some now, some fn, some sv =>
      stateLine { d with st := (runEv d [(.msg ⟨id, body⟩ now fn, sv)]).1, fault := none }
    | _, _, _, _, _ => ("bad-op", d)
  | ["tick", now, fn] =>
    match now.toInt?, strOfHex fn with
    | some now, some fn => stateLine { d with st := (runEv d [(.tick now fn, false)]).1, fault := none }
    | _, _ => ("bad-op", d)
  | ["ext", dir, tmpl, rev, data] =>
    match strOfHex tmpl, rev.toNat?, unhex data with
    | some tmpl, some rev, some data =>
      stateLine { d with st := step d.cfg noFault d.st (.ext ⟨dir = "o", tmpl, rev⟩ data) false }
    | _, _, _ => ("bad-op", d)
  | ["hup"] => stateLine { d with st := (runEv d [(.hup, false)]).1, fault := none }
  | ["term"] => stateLine { d with st := (runEv d [(.term, false)]).1, fault := none }
  | ["stopped"] => stateLine { d with st := (runEv d [(.stopped, false)]).1, fault := none }
  | ["termstop"] => stateLine { d with st := (runEv d [(.term, false), (.stopped, false)]).1, fault := none }
  | ["fault", "kill", "fin", n] =>
    match n.toNat? with
    | some n => ("ok", { d with fault := some (.kill, .fin n) })
    | none => ("bad-op", d)
  | ["fault", "kill", "sync"] => ("ok", { d with fault := some (.kill, .sync) })
  | ["fault", "kill", "move"] => ("ok", { d with fault := some (.kill, .move) })
  | ["fault", "err", "first"] => ("ok", { d with fault := some (.err, .first) })
  | ["fault", "kill", "first"] => ("ok", { d with fault := some (.kill, .first) })
  | ["fault", "err", "afterfins"] => ("ok", { d with fault := some (.err, .afterFins) })
  | ["fault", "kill", "afterfins"] => ("ok", { d with fault := some (.kill, .afterFins) })
  | ["tree"] => (s!"st={statusName d.st.status} tree={filesLine d.st.fs true}", d)
  | _ => ("bad-op", d)

end E8

def stepLine (d : E8.D) (line : String) : String × E8.D :=
  if line.startsWith "#" then (line, d) else
  match words line with
  | "tf" :: ws => E8.tfStep d ws
  | "sp" :: ws => (Nsq.Model.Split.driverLine ws, d)
  | "rl" :: ws => (Nsq.Model.Relay.driverLine ws, d)
  | "tr" :: ws => (Nsq.Model.ToFileTrace.driverLine ws, d)
  | "trm" :: ws => (Nsq.Model.ToFileTrace.driverLineM ws, d)
  | "fn" :: ws => (Nsq.Model.ToFileName.driverLine ws, d)
  | "mn" :: ws => (Nsq.Model.ToFileMain.driverLine ws, d)
  | "td" :: ws => let r := Nsq.Model.ToFileDisc.driverStep d.disc ws; (r.1, { d with disc := r.2 })
  -- ---- relay block (C20 round 6, sub-builder `relay`): add new ops only below this line ----
  | "lp" :: ws => (Nsq.Model.ToNsqLoop.driverLine ws, d)
  | "opt" :: ws => (Nsq.Model.RelayOpts.driverLine ws, d)
  -- ---- end of relay block ----
  -- ---- tools2 block (audit round 7, C3) ----
  | "rd" :: _ => (Nsq.Model.RelayRedirect.driverLine (words line), d)
  -- ---- end of tools2 block ----
  -- ---- audit7-b block (C20 audit round 7, sub-builder c20b) ----
  | "a7" :: ws => (Nsq.Model.RelayAudit7.driverLine ws, d)
  -- ---- end of audit7-b block ----
  | _ => ("bad-op", d)

partial def loop (h : IO.FS.Stream) (out : IO.FS.Stream) (d : E8.D) : IO Unit := do
  let line ← h.getLine
  if line.isEmpty then return ()
  let (ans, d') := stepLine d (line.dropRightWhile (· == '\n'))
  out.putStrLn ans
  loop h out d'

def main : IO Unit := do
  let out ← IO.getStdout
  loop (← IO.getStdin) out {}
  out.flush
