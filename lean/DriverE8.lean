import Nsq.Model.Line
import Nsq.Model.ToFile
import Nsq.Model.Split
import Nsq.Model.Relay
import Nsq.Model.ToFileTrace
import Nsq.Model.ToFileName
import Nsq.Model.ToFileDisc
import Nsq.Model.ToFileMain
import Nsq.Model.ToNsqLoop   -- relay sub-builder (C20 round 6): to_nsq main loop
import Nsq.Model.RelayOpts   -- relay sub-builder (C20 round 6): option surface of nsq_to_http / nsq_to_nsq
/-! Driver for engine E8 (tools): one operation per input line, one canonical answer line out.

`tf …`  nsq_to_file router model (stateful: conf / pre / events / tree)
`sp …`  to_nsq record splitter
`rl …`  relay handlers (nsq_to_nsq, nsq_to_http)
`tr …`  syscall-trace checker (FIN only after fsync)
`fn …`  nsq_to_file file names (computeFilenameFormat / currentFilename)
`mn …`  nsq_to_file main(): start-up checks (refused / started)
`td …`  nsq_to_file TopicDiscoverer (stateful: new / upd / tick-err / hup / term)
`lp …`  to_nsq main loop (throttle / EOF / Stop) under a given schedule      [relay block]
`opt …` relay option surface: hdr / req / args / pass / wl / topic / hmark / nmark [relay block]
-/
open Nsq Nsq.Line

namespace E8
open Nsq.Model.ToFile

def pad6 (n : Nat) : String :=
  let s := toString n
  String.ofList (List.replicate (6 - s.length) '0') ++ s

def render (p : Path) : String :=
  (if p.out then "o/" else "w/") ++ p.tmpl.replace "<REV>" ("-" ++ pad6 p.rev)

def statusName : Status → String
  | .running => "running" | .done => "done" | .fatalExit => "fatal" | .killed => "killed"
  | .panicked => "panic" | .diverged => "diverged"

def liveNames (fs : FS) : List Path :=
  (fs.dom.eraseDups).filter (fun p => (fs.get p).isSome)

def sortStr (xs : List String) : List String := xs.mergeSort (fun a b => decide (a ≤ b))

def filesLine (fs : FS) (full : Bool) : String :=
  let items := (liveNames fs).filterMap fun p =>
    match fs.get p with
    | none => none
    | some f => some (render p ++ (if full then "=" ++ hex f.data else ":" ++ toString f.data.length))
  ",".intercalate (sortStr items)

structure D where
  cfg : Cfg := ⟨false, 0, 0, false, false, 1, true, false⟩
  st : St := init FS.empty
  nfin : Nat := 0
  disc : Nsq.Model.ToFileDisc.D := {}

def stateLine (d : D) : String × D :=
  let newFins := (d.st.finished.take (d.st.finished.length - d.nfin)).reverse
  let fins := " ".intercalate (newFins.map fun m => toString m.id)
  (s!"st={statusName d.st.status} fin=[{fins}] files={filesLine d.st.fs false}",
   { d with nfin := d.st.finished.length })

def noFault : Nat → Fault := fun _ => .ok

def b01 (s : String) : Option Bool := if s = "1" then some true else if s = "0" then some false else none

def strOfHex (s : String) : Option String := (unhex s).map bytesToString

def tfStep (d : D) (ws : List String) : String × D :=
  match ws with
  | ["conf", gz, rs, ri, wd, se, mif, hr] =>
    match b01 gz, rs.toNat?, ri.toInt?, b01 wd, b01 se, mif.toNat?, b01 hr with
    | some gz, some rs, some ri, some wd, some se, some mif, some hr =>
      ("ok", { d with cfg := ⟨gz, rs, ri, wd, se, mif, hr, false⟩, st := init FS.empty, nfin := 0 })
    | _, _, _, _, _, _, _ => ("bad-op", d)
  | ["conf", gz, rs, ri, wd, se, mif, hr, cc] =>   -- cc: Close() clears f.out after a successful move (fix F44), probed on the real code
    match b01 gz, rs.toNat?, ri.toInt?, b01 wd, b01 se, mif.toNat?, b01 hr, b01 cc with
    | some gz, some rs, some ri, some wd, some se, some mif, some hr, some cc =>
      ("ok", { d with cfg := ⟨gz, rs, ri, wd, se, mif, hr, cc⟩, st := init FS.empty, nfin := 0 })
    | _, _, _, _, _, _, _, _ => ("bad-op", d)
  | ["pre", dir, tmpl, rev, data] =>
    match strOfHex tmpl, rev.toNat?, unhex data with
    | some tmpl, some rev, some data =>
      let p : Path := ⟨dir = "o", tmpl, rev⟩
      ("ok", { d with st := { d.st with fs := d.st.fs.set p ⟨data, [], data.length⟩ } })
    | _, _, _ => ("bad-op", d)
  | ["msg", id, body, now, fn, starved] =>
    match id.toNat?, unhex body, now.toInt?, strOfHex fn, b01 starved with
    | some id, some body, some now, some fn, some sv =>
      stateLine { d with st := step d.cfg noFault d.st (.msg ⟨id, body⟩ now fn) sv }
    | _, _, _, _, _ => ("bad-op", d)
  | ["tick", now, fn] =>
    match now.toInt?, strOfHex fn with
    | some now, some fn => stateLine { d with st := step d.cfg noFault d.st (.tick now fn) false }
    | _, _ => ("bad-op", d)
  | ["ext", dir, tmpl, rev, data] =>
    match strOfHex tmpl, rev.toNat?, unhex data with
    | some tmpl, some rev, some data =>
      stateLine { d with st := step d.cfg noFault d.st (.ext ⟨dir = "o", tmpl, rev⟩ data) false }
    | _, _, _ => ("bad-op", d)
  | ["hup"] => stateLine { d with st := step d.cfg noFault d.st .hup false }
  | ["term"] => stateLine { d with st := step d.cfg noFault d.st .term false }
  | ["stopped"] => stateLine { d with st := step d.cfg noFault d.st .stopped false }
  | ["termstop"] => stateLine { d with st := step d.cfg noFault (step d.cfg noFault d.st .term false) .stopped false }
  | ["tree"] => (s!"st={statusName d.st.status} tree={filesLine d.st.fs true}", d)
  | _ => ("bad-op", d)

end E8

def stepLine (d : E8.D) (line : String) : String × E8.D :=
  if line.startsWith "#" then (line, d) else
  match words line with
  | "tf" :: ws => E8.tfStep d ws
  | "sp" :: ws => (Nsq.Model.Split.driverLine ws, d)
  | "rl" :: ws => (Nsq.Model.Relay.driverLine ws, d)
  | "tr" :: ws => (Nsq.Model.ToFileTrace.driverLine ws, d)
  | "trm" :: ws => (Nsq.Model.ToFileTrace.driverLineM ws, d)
  | "fn" :: ws => (Nsq.Model.ToFileName.driverLine ws, d)
  | "mn" :: ws => (Nsq.Model.ToFileMain.driverLine ws, d)
  | "td" :: ws => let r := Nsq.Model.ToFileDisc.driverStep d.disc ws; (r.1, { d with disc := r.2 })
  -- ---- relay block (C20 round 6, sub-builder `relay`): add new ops only below this line ----
  | "lp" :: ws => (Nsq.Model.ToNsqLoop.driverLine ws, d)
  | "opt" :: ws => (Nsq.Model.RelayOpts.driverLine ws, d)
  -- ---- end of relay block ----
  | _ => ("bad-op", d)

partial def loop (h : IO.FS.Stream) (out : IO.FS.Stream) (d : E8.D) : IO Unit := do
  let line ← h.getLine
  if line.isEmpty then return ()
  let (ans, d') := stepLine d (line.dropRightWhile (· == '\n'))
  out.putStrLn ans
  loop h out d'

def main : IO Unit := do
  let out ← IO.getStdout
  loop (← IO.getStdin) out {}
  out.flush
