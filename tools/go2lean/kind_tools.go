package main

// Extractors for engine E8 (apps/*).
//
//	skeleton {"name","dir","func","drop":[substr...]} → def <name> : List String
//	    the statement skeleton of a function in source order, one entry per statement, nesting
//	    shown by leading dots: control statements contribute their header (`if <cond>`, `else`,
//	    `for <cond>`, `range <expr>`, `select`, `case <comm>`, `switch <tag>`, `case <list>`), simple
//	    statements their normalised text. Statements containing one of the "drop" substrings
//	    (logging) are left out. Module path of "dir" may be "mod:<module>@<version>/<subdir>" for
//	    a dependency in the module cache (go-nsq).
//	trimrule {"name","dir","func","slice":"line","delim":"delim"} → def <name> (delim : UInt8) (line : List UInt8) : List UInt8
//	    the rule `if <cond> { line = line[:len(line)-1] }` of to_nsq's readAndPublish, with <cond>
//	    translated (len(line) → line.length, line[len(line)-1] → line.getLast?, integer compares,
//	    byte ==, &&, ||). Anything else is REJECTED.

import (
	"fmt"
	"go/ast"
	"go/parser"
	"go/token"
	"os"
	"path/filepath"
	"strings"
)

func init() {
	register("skeleton", kindSkeleton)
	register("trimrule", kindTrimRule)
}

// findFuncAny finds a function either in a repo package (type-checked) or, for "mod:" dirs, by
// parsing the files of a module-cache directory (syntax only).
func findFuncAny(c *Ctx, dir, name string) (*token.FileSet, *ast.FuncDecl, error) {
	if !strings.HasPrefix(dir, "mod:") {
		p, fd, err := c.FindFunc(dir, name)
		if err != nil {
			return nil, nil, err
		}
		return p.Fset, fd, nil
	}
	gomod := os.Getenv("GOMODCACHE")
	if gomod == "" {
		home, _ := os.UserHomeDir()
		gomod = filepath.Join(home, "go", "pkg", "mod")
	}
	full := filepath.Join(gomod, strings.TrimPrefix(dir, "mod:"))
	fset := token.NewFileSet()
	pkgs, err := parser.ParseDir(fset, full, func(fi os.FileInfo) bool { return !strings.HasSuffix(fi.Name(), "_test.go") }, 0)
	if err != nil {
		return nil, nil, err
	}
	recv, fn := "", name
	if i := strings.LastIndex(name, "."); i >= 0 {
		recv = strings.Trim(name[:i], "()*")
		fn = name[i+1:]
	}
	for _, p := range pkgs {
		for _, f := range p.Files {
			for _, d := range f.Decls {
				fd, ok := d.(*ast.FuncDecl)
				if !ok || fd.Name.Name != fn {
					continue
				}
				r := ""
				if fd.Recv != nil && len(fd.Recv.List) == 1 {
					t := fd.Recv.List[0].Type
					if s, ok := t.(*ast.StarExpr); ok {
						t = s.X
					}
					if id, ok := t.(*ast.Ident); ok {
						r = id.Name
					}
				}
				if r == recv {
					return fset, fd, nil
				}
			}
		}
	}
	return nil, nil, fmt.Errorf("function %s not found in %s", name, full)
}

func kindSkeleton(c *Ctx, it Item) (string, error) {
	fset, fd, err := findFuncAny(c, it.Str("dir"), it.Str("func"))
	if err != nil {
		// "optional": true — a function that only exists on a tree with a proposed fix: absent = empty skeleton
		if opt, _ := it["optional"].(bool); opt {
			return fmt.Sprintf("def %s : List String := []\n", it.Str("name")), nil
		}
		return "", err
	}
	drops := it.Strs("drop")
	var rows []string
	emit := func(depth int, s string) {
		for _, d := range drops {
			if strings.Contains(s, d) {
				return
			}
		}
		rows = append(rows, strings.Repeat(".", depth)+s)
	}
	var walk func(depth int, s ast.Stmt) error
	block := func(depth int, b *ast.BlockStmt) error {
		if b == nil {
			return nil
		}
		for _, s := range b.List {
			if err := walk(depth, s); err != nil {
				return err
			}
		}
		return nil
	}
	walk = func(depth int, s ast.Stmt) error {
		switch x := s.(type) {
		case *ast.BlockStmt:
			return block(depth, x)
		case *ast.IfStmt:
			hdr := "if "
			if x.Init != nil {
				hdr += exprText(fset, x.Init) + "; "
			}
			emit(depth, hdr+exprText(fset, x.Cond))
			if err := block(depth+1, x.Body); err != nil {
				return err
			}
			if x.Else != nil {
				emit(depth, "else")
				if eb, ok := x.Else.(*ast.BlockStmt); ok {
					return block(depth+1, eb)
				}
				return walk(depth+1, x.Else)
			}
		case *ast.ForStmt:
			hdr := "for"
			if x.Init != nil {
				hdr += " " + exprText(fset, x.Init) + ";"
			}
			if x.Cond != nil {
				hdr += " " + exprText(fset, x.Cond)
			}
			if x.Post != nil {
				hdr += "; " + exprText(fset, x.Post)
			}
			emit(depth, hdr)
			return block(depth+1, x.Body)
		case *ast.RangeStmt:
			emit(depth, "range "+exprText(fset, x.X))
			return block(depth+1, x.Body)
		case *ast.SelectStmt:
			emit(depth, "select")
			for _, cl := range x.Body.List {
				cc := cl.(*ast.CommClause)
				if cc.Comm == nil {
					emit(depth+1, "default")
				} else {
					emit(depth+1, "case "+exprText(fset, cc.Comm))
				}
				for _, s := range cc.Body {
					if err := walk(depth+2, s); err != nil {
						return err
					}
				}
			}
		case *ast.SwitchStmt:
			hdr := "switch"
			if x.Init != nil {
				hdr += " " + exprText(fset, x.Init) + ";"
			}
			if x.Tag != nil {
				hdr += " " + exprText(fset, x.Tag)
			}
			emit(depth, hdr)
			for _, cl := range x.Body.List {
				cc := cl.(*ast.CaseClause)
				if cc.List == nil {
					emit(depth+1, "default")
				} else {
					var parts []string
					for _, e := range cc.List {
						parts = append(parts, exprText(fset, e))
					}
					emit(depth+1, "case "+strings.Join(parts, ", "))
				}
				for _, s := range cc.Body {
					if err := walk(depth+2, s); err != nil {
						return err
					}
				}
			}
		case *ast.TypeSwitchStmt:
			emit(depth, "typeswitch "+exprText(fset, x.Assign))
			for _, cl := range x.Body.List {
				cc := cl.(*ast.CaseClause)
				if cc.List == nil {
					emit(depth+1, "default")
				} else {
					var parts []string
					for _, e := range cc.List {
						parts = append(parts, exprText(fset, e))
					}
					emit(depth+1, "case "+strings.Join(parts, ", "))
				}
				for _, s := range cc.Body {
					if err := walk(depth+2, s); err != nil {
						return err
					}
				}
			}
		case *ast.LabeledStmt:
			emit(depth, "label "+x.Label.Name)
			return walk(depth, x.Stmt)
		case *ast.AssignStmt, *ast.ExprStmt, *ast.ReturnStmt, *ast.IncDecStmt, *ast.BranchStmt,
			*ast.GoStmt, *ast.DeferStmt, *ast.DeclStmt, *ast.SendStmt:
			emit(depth, exprText(fset, x))
		case *ast.EmptyStmt:
		default:
			return fmt.Errorf("skeleton: unsupported statement %T", s)
		}
		return nil
	}
	if err := block(0, fd.Body); err != nil {
		return "", err
	}
	return fmt.Sprintf("def %s : List String := [\n  %s]\n", it.Str("name"), strings.Join(quoteAll(rows), ",\n  ")), nil
}

func kindTrimRule(c *Ctx, it Item) (string, error) {
	p, fd, err := c.FindFunc(it.Str("dir"), it.Str("func"))
	if err != nil {
		return "", err
	}
	sl, dl := it.Str("slice"), it.Str("delim")
	want := fmt.Sprintf("%s = %s[:len(%s)-1]", sl, sl, sl)
	var cond ast.Expr
	n := 0
	for _, s := range fd.Body.List {
		is, ok := s.(*ast.IfStmt)
		if !ok || is.Init != nil || is.Else != nil || len(is.Body.List) != 1 {
			continue
		}
		if strings.ReplaceAll(exprText(p.Fset, is.Body.List[0]), " ", "") == strings.ReplaceAll(want, " ", "") {
			cond = is.Cond
			n++
		}
	}
	if n != 1 {
		return "", fmt.Errorf("trimrule: expected exactly one `if … { %s }` at the top level of %s, found %d", want, it.Str("func"), n)
	}
	// the trimmed slice must not be assigned anywhere else (apart from its definition by ReadBytes)
	assigns := 0
	ast.Inspect(fd.Body, func(nd ast.Node) bool {
		if as, ok := nd.(*ast.AssignStmt); ok {
			for _, l := range as.Lhs {
				if id, ok := l.(*ast.Ident); ok && id.Name == sl {
					assigns++
				}
			}
		}
		return true
	})
	if assigns != 2 {
		return "", fmt.Errorf("trimrule: %s is assigned %d times (expected: ReadBytes result + the trim)", sl, assigns)
	}
	var tr func(e ast.Expr) (string, string, error) // (lean, type: "bool"|"nat"|"byte")
	tr = func(e ast.Expr) (string, string, error) {
		switch x := e.(type) {
		case *ast.ParenExpr:
			return tr(x.X)
		case *ast.BasicLit:
			if x.Kind == token.INT {
				return x.Value, "nat", nil
			}
		case *ast.Ident:
			if x.Name == dl {
				return "(some delim)", "byte", nil
			}
		case *ast.CallExpr:
			if id, ok := x.Fun.(*ast.Ident); ok && id.Name == "len" && len(x.Args) == 1 {
				if a, ok := x.Args[0].(*ast.Ident); ok && a.Name == sl {
					return "line.length", "nat", nil
				}
			}
		case *ast.IndexExpr:
			if a, ok := x.X.(*ast.Ident); ok && a.Name == sl &&
				strings.ReplaceAll(exprText(p.Fset, x.Index), " ", "") == "len("+sl+")-1" {
				return "line.getLast?", "byte", nil
			}
		case *ast.BinaryExpr:
			l, lt, err := tr(x.X)
			if err != nil {
				return "", "", err
			}
			r, rt, err := tr(x.Y)
			if err != nil {
				return "", "", err
			}
			switch x.Op {
			case token.LAND, token.LOR:
				if lt == "bool" && rt == "bool" {
					op := "&&"
					if x.Op == token.LOR {
						op = "||"
					}
					return fmt.Sprintf("(%s %s %s)", l, op, r), "bool", nil
				}
			case token.GTR, token.LSS, token.GEQ, token.LEQ, token.EQL, token.NEQ:
				if lt == "nat" && rt == "nat" {
					op := map[token.Token]string{token.GTR: ">", token.LSS: "<", token.GEQ: "≥", token.LEQ: "≤", token.EQL: "=", token.NEQ: "≠"}[x.Op]
					return fmt.Sprintf("decide (%s %s %s)", l, op, r), "bool", nil
				}
				if lt == "byte" && rt == "byte" && (x.Op == token.EQL || x.Op == token.NEQ) {
					op := "=="
					if x.Op == token.NEQ {
						op = "!="
					}
					return fmt.Sprintf("(%s %s %s)", l, op, r), "bool", nil
				}
			}
		}
		return "", "", fmt.Errorf("trimrule: unsupported expression %s", exprText(p.Fset, e))
	}
	lean, ty, err := tr(cond)
	if err != nil {
		return "", err
	}
	if ty != "bool" {
		return "", fmt.Errorf("trimrule: condition is not boolean")
	}
	return fmt.Sprintf("def %s (delim : UInt8) (line : List UInt8) : List UInt8 :=\n  if %s then line.dropLast else line\n",
		it.Str("name"), lean), nil
}
