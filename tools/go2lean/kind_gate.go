package main

// kind "toplevel" (engine gate, property C11): the top-level statement skeleton of a function,
// from which dominance facts can be decided in Lean ("the guard statement precedes every
// statement that calls one of the effectful functions").
//
//	toplevel {"name","dir","func","track":[...]} → def <name> : List (String × String × String × List String)
//
// One entry per top-level statement of the body, in source order: (shape, text, ret, calls)
//   shape  "if-return"  an `if` without `else` whose body ends in `return` — text is
//                       "<init; >cond", ret is that return statement
//          "if"         any other `if` — text is "<init; >cond"
//          "assign" | "decl" | "expr" | "return" — text is the whole statement (comments dropped)
//          "switch" | "for" | "other"           — text is the tag / condition, or ""
//   ret    "" except for "if-return"
//   calls  the tracked callee names occurring anywhere inside the statement, source order.
//
// A statement after an "if-return" entry executes only if that entry's condition was false:
// for straight-line top-level sequencing this is dominance. `goto`/labels at top level are
// rejected (the sequencing argument would not hold).

import (
	"fmt"
	"go/ast"
	"strings"
)

func init() { register("toplevel", kindTopLevel) }

func kindTopLevel(c *Ctx, it Item) (string, error) {
	p, fd, err := c.FindFunc(it.Str("dir"), it.Str("func"))
	if err != nil {
		return "", err
	}
	track := map[string]bool{}
	for _, s := range it.Strs("track") {
		track[s] = true
	}
	callsIn := func(n ast.Node) []string {
		var seq []string
		ast.Inspect(n, func(n ast.Node) bool {
			if ce, ok := n.(*ast.CallExpr); ok {
				if nm := calleeName(ce.Fun); track[nm] {
					seq = append(seq, nm)
				}
			}
			return true
		})
		return seq
	}
	var rows []string
	for _, st := range fd.Body.List {
		shape, text, ret := "other", "", ""
		switch x := st.(type) {
		case *ast.LabeledStmt, *ast.BranchStmt:
			return "", fmt.Errorf("%s: label/goto at top level", it.Str("func"))
		case *ast.IfStmt:
			cond := exprText(p.Fset, x.Cond)
			if x.Init != nil {
				cond = exprText(p.Fset, x.Init) + "; " + cond
			}
			shape, text = "if", cond
			if x.Else == nil && len(x.Body.List) > 0 {
				if rs, ok := x.Body.List[len(x.Body.List)-1].(*ast.ReturnStmt); ok {
					shape = "if-return"
					ret = exprText(p.Fset, rs)
				}
			}
		case *ast.AssignStmt:
			shape, text = "assign", exprText(p.Fset, x)
		case *ast.DeclStmt:
			shape = "decl"
			if gd, ok := x.Decl.(*ast.GenDecl); ok {
				cp := *gd
				cp.Doc = nil
				text = exprText(p.Fset, &cp)
			} else {
				text = exprText(p.Fset, x)
			}
		case *ast.ExprStmt:
			shape, text = "expr", exprText(p.Fset, x)
		case *ast.ReturnStmt:
			shape, text = "return", exprText(p.Fset, x)
		case *ast.SwitchStmt:
			shape = "switch"
			if x.Tag != nil {
				text = exprText(p.Fset, x.Tag)
			}
		case *ast.ForStmt:
			shape = "for"
			if x.Cond != nil {
				text = exprText(p.Fset, x.Cond)
			}
		}
		rows = append(rows, fmt.Sprintf("(%s, %s, %s, %s)", leanStr(shape), leanStr(text), leanStr(ret), leanStrList(callsIn(st))))
	}
	return fmt.Sprintf("def %s : List (String × String × String × List String) := [\n  %s]\n", it.Str("name"), strings.Join(rows, ",\n  ")), nil
}

// kind "callers": which functions of the package (non-test files) call a function/method of
// the given name.
//
//	callers {"name","dir","callee"} → def <name> : List String   (enclosing function names, source order, with repeats)
//
// kind "fieldwrites": every place where field <field> of struct type <type> is assigned or has
// its address taken (the only ways to change it).
//
//	fieldwrites {"name","dir","type","field"} → def <name> : List (String × String)
//	   (enclosing function, how) with how = "assign" | "incdec" | "addr:<callee the address is passed to>" | "addr"
func init() {
	register("callers", kindCallers)
	register("fieldwrites", kindFieldWrites)
}

func kindCallers(c *Ctx, it Item) (string, error) {
	p, err := c.Pkg(it.Str("dir"))
	if err != nil {
		return "", err
	}
	var out []string
	for _, f := range p.Syntax {
		if strings.HasSuffix(p.Fset.File(f.Pos()).Name(), "_test.go") {
			continue
		}
		for _, d := range f.Decls {
			fd, ok := d.(*ast.FuncDecl)
			if !ok || fd.Body == nil {
				continue
			}
			ast.Inspect(fd.Body, func(n ast.Node) bool {
				if ce, ok := n.(*ast.CallExpr); ok && calleeName(ce.Fun) == it.Str("callee") {
					out = append(out, fd.Name.Name)
				}
				return true
			})
		}
	}
	return fmt.Sprintf("def %s : List String := %s\n", it.Str("name"), leanStrList(out)), nil
}

func kindFieldWrites(c *Ctx, it Item) (string, error) {
	p, err := c.Pkg(it.Str("dir"))
	if err != nil {
		return "", err
	}
	isField := func(e ast.Expr) bool {
		se, ok := e.(*ast.SelectorExpr)
		if !ok || se.Sel.Name != it.Str("field") {
			return false
		}
		tv, ok := p.TypesInfo.Types[se.X]
		if !ok {
			return false
		}
		ts := tv.Type.String()
		return strings.HasSuffix(ts, "."+it.Str("type")) || strings.HasSuffix(ts, "/"+it.Str("type")) || ts == it.Str("type")
	}
	var rows []string
	for _, f := range p.Syntax {
		if strings.HasSuffix(p.Fset.File(f.Pos()).Name(), "_test.go") {
			continue
		}
		for _, d := range f.Decls {
			fd, ok := d.(*ast.FuncDecl)
			if !ok || fd.Body == nil {
				continue
			}
			handled := map[ast.Node]bool{}
			add := func(how string) {
				rows = append(rows, fmt.Sprintf("(%s, %s)", leanStr(fd.Name.Name), leanStr(how)))
			}
			ast.Inspect(fd.Body, func(n ast.Node) bool {
				switch x := n.(type) {
				case *ast.AssignStmt:
					for _, l := range x.Lhs {
						if isField(l) {
							add("assign")
						}
					}
				case *ast.IncDecStmt:
					if isField(x.X) {
						add("incdec")
					}
				case *ast.CallExpr:
					for _, a := range x.Args {
						if ue, ok := a.(*ast.UnaryExpr); ok && ue.Op.String() == "&" && isField(ue.X) {
							handled[ue] = true
							add("addr:" + calleeName(x.Fun))
						}
					}
				case *ast.UnaryExpr:
					// an address taken outside a call argument
					if x.Op.String() == "&" && isField(x.X) && !handled[x] {
						add("addr")
					}
				}
				return true
			})
		}
	}
	return fmt.Sprintf("def %s : List (String × String) := [\n  %s]\n", it.Str("name"), strings.Join(rows, ",\n  ")), nil
}
