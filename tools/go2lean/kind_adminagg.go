package main

// Extractors for nsqadmin's aggregation code (engine E7, property C18).
//
//	aggstruct {"name","dir","type"}
//	    → def <name> : List (String × String × String)      struct fields: (Go name, Go type, json tag)
//	aggadd {"name","dir","func"}
//	    → def <name> : List (Nat × String × String × String) the statements of an Add method, flattened in
//	      source order as (nesting depth, kind, a, b):
//	        sum F G        recv.F += arg.G                    set F e        recv.F = e
//	        append F x     recv.F = append(recv.F, x)         appendAll F x  recv.F = append(recv.F, x...)
//	        setvar v e     v = e / v := e                     if c / else    (body one level deeper)
//	        range xs v     for _, v := range xs               call f args    f(args)
//	        stmt text      anything else (kept as text, never dropped)
//	aggcounters {"name","dir","func","fields":{"GoField":"leanField",…}}
//	    → def <name> (t a : Counters) : Counters             the `+=` statements of an Add method as a record update
//	aggfetch {"name","dir","func","match":[…]}
//	    → def <name> : List (String × String)                facts about one parallel fetch function of data.go:
//	        range <expr>            what the goroutine-per-upstream loop ranges over
//	        errappend <how>         one entry per `errs = append(errs, err)`: "guarded-return" when it sits in an
//	                                `if err != nil { …; return }` block of the upstream's own goroutine (so one failing
//	                                upstream contributes exactly one error); otherwise the reason it does not
//	        nestedgo <n>            go statements / function literals nested inside the per-upstream goroutine
//	        allfailed <cond>        the condition of the `if` that returns the non-partial error
//	        partial <cond>          the condition of the `if` that returns ErrList(errs)
//	        stmt <text>             every assignment / call / if-condition containing one of "match"

import (
	"fmt"
	"go/ast"
	"go/token"
	"reflect"
	"sort"
	"strings"
)

func init() {
	register("aggstruct", kindAggStruct)
	register("aggadd", kindAggAdd)
	register("aggcounters", kindAggCounters)
	register("aggfetch", kindAggFetch)
}

func kindAggStruct(c *Ctx, it Item) (string, error) {
	p, err := c.Pkg(it.Str("dir"))
	if err != nil {
		return "", err
	}
	var rows []string
	found := false
	for _, f := range p.Syntax {
		for _, d := range f.Decls {
			gd, ok := d.(*ast.GenDecl)
			if !ok || gd.Tok != token.TYPE {
				continue
			}
			for _, sp := range gd.Specs {
				ts := sp.(*ast.TypeSpec)
				st, ok := ts.Type.(*ast.StructType)
				if !ok || ts.Name.Name != it.Str("type") {
					continue
				}
				found = true
				for _, fl := range st.Fields.List {
					tag := ""
					if fl.Tag != nil {
						tag = reflect.StructTag(strings.Trim(fl.Tag.Value, "`")).Get("json")
					}
					typ := exprText(p.Fset, fl.Type)
					if len(fl.Names) == 0 {
						rows = append(rows, fmt.Sprintf("(%s, %s, %s)", leanStr("(embedded)"), leanStr(typ), leanStr(tag)))
					}
					for _, n := range fl.Names {
						rows = append(rows, fmt.Sprintf("(%s, %s, %s)", leanStr(n.Name), leanStr(typ), leanStr(tag)))
					}
				}
			}
		}
	}
	if !found {
		return "", fmt.Errorf("struct type %s not found in %s", it.Str("type"), it.Str("dir"))
	}
	return fmt.Sprintf("def %s : List (String × String × String) := [\n  %s]\n", it.Str("name"), strings.Join(rows, ",\n  ")), nil
}

type aggRow struct {
	depth      int
	kind, a, b string
}

// selOf returns F when e is <root>.F.
func selOf(e ast.Expr, root string) (string, bool) {
	se, ok := e.(*ast.SelectorExpr)
	if !ok {
		return "", false
	}
	id, ok := se.X.(*ast.Ident)
	if !ok || id.Name != root {
		return "", false
	}
	return se.Sel.Name, true
}

func aggFlatten(c *Ctx, fset *token.FileSet, stmts []ast.Stmt, depth int, recv, arg string, out *[]aggRow) {
	txt := func(n ast.Node) string { return exprText(fset, n) }
	for _, st := range stmts {
		switch v := st.(type) {
		case *ast.AssignStmt:
			if len(v.Lhs) == 1 && len(v.Rhs) == 1 {
				if f, ok := selOf(v.Lhs[0], recv); ok {
					if v.Tok == token.ADD_ASSIGN {
						if g, ok := selOf(v.Rhs[0], arg); ok {
							*out = append(*out, aggRow{depth, "sum", f, g})
							continue
						}
					}
					if v.Tok == token.ASSIGN {
						if ce, ok := v.Rhs[0].(*ast.CallExpr); ok && txt(ce.Fun) == "append" && len(ce.Args) == 2 {
							if f2, ok := selOf(ce.Args[0], recv); ok && f2 == f {
								k := "append"
								if ce.Ellipsis != token.NoPos {
									k = "appendAll"
								}
								*out = append(*out, aggRow{depth, k, f, txt(ce.Args[1])})
								continue
							}
						}
						*out = append(*out, aggRow{depth, "set", f, txt(v.Rhs[0])})
						continue
					}
				}
				if id, ok := v.Lhs[0].(*ast.Ident); ok && (v.Tok == token.ASSIGN || v.Tok == token.DEFINE) {
					*out = append(*out, aggRow{depth, "setvar", id.Name, txt(v.Rhs[0])})
					continue
				}
			}
			*out = append(*out, aggRow{depth, "stmt", txt(v), ""})
		case *ast.IfStmt:
			if v.Init != nil {
				aggFlatten(c, fset, []ast.Stmt{v.Init}, depth, recv, arg, out)
			}
			*out = append(*out, aggRow{depth, "if", txt(v.Cond), ""})
			aggFlatten(c, fset, v.Body.List, depth+1, recv, arg, out)
			switch el := v.Else.(type) {
			case *ast.BlockStmt:
				*out = append(*out, aggRow{depth, "else", "", ""})
				aggFlatten(c, fset, el.List, depth+1, recv, arg, out)
			case *ast.IfStmt:
				*out = append(*out, aggRow{depth, "else", "", ""})
				aggFlatten(c, fset, []ast.Stmt{el}, depth+1, recv, arg, out)
			}
		case *ast.RangeStmt:
			val := ""
			if v.Value != nil {
				val = txt(v.Value)
			}
			key := ""
			if v.Key != nil {
				key = txt(v.Key)
			}
			if key != "_" && key != "" {
				val = key + "," + val
			}
			*out = append(*out, aggRow{depth, "range", txt(v.X), val})
			aggFlatten(c, fset, v.Body.List, depth+1, recv, arg, out)
		case *ast.ExprStmt:
			if ce, ok := v.X.(*ast.CallExpr); ok {
				args := make([]string, len(ce.Args))
				for i, a := range ce.Args {
					args[i] = txt(a)
				}
				*out = append(*out, aggRow{depth, "call", txt(ce.Fun), strings.Join(args, ", ")})
				continue
			}
			*out = append(*out, aggRow{depth, "stmt", txt(v), ""})
		case *ast.BlockStmt:
			aggFlatten(c, fset, v.List, depth, recv, arg, out)
		default:
			*out = append(*out, aggRow{depth, "stmt", txt(st), ""})
		}
	}
}

func recvAndArg(fd *ast.FuncDecl) (string, string, error) {
	if fd.Recv == nil || len(fd.Recv.List) != 1 || len(fd.Recv.List[0].Names) != 1 {
		return "", "", fmt.Errorf("%s: no named receiver", fd.Name.Name)
	}
	if len(fd.Type.Params.List) != 1 || len(fd.Type.Params.List[0].Names) != 1 {
		return "", "", fmt.Errorf("%s: expected exactly one parameter", fd.Name.Name)
	}
	return fd.Recv.List[0].Names[0].Name, fd.Type.Params.List[0].Names[0].Name, nil
}

func kindAggAdd(c *Ctx, it Item) (string, error) {
	p, fd, err := c.FindFunc(it.Str("dir"), it.Str("func"))
	if err != nil {
		return "", err
	}
	recv, arg, err := recvAndArg(fd)
	if err != nil {
		return "", err
	}
	var rows []aggRow
	aggFlatten(c, p.Fset, fd.Body.List, 0, recv, arg, &rows)
	var sb strings.Builder
	fmt.Fprintf(&sb, "def %s : List (Nat × String × String × String) := [\n", it.Str("name"))
	for i, r := range rows {
		sep := ","
		if i == len(rows)-1 {
			sep = ""
		}
		fmt.Fprintf(&sb, "  (%d, %s, %s, %s)%s\n", r.depth, leanStr(r.kind), leanStr(r.a), leanStr(r.b), sep)
	}
	sb.WriteString("]\n")
	return sb.String(), nil
}

func kindAggCounters(c *Ctx, it Item) (string, error) {
	p, fd, err := c.FindFunc(it.Str("dir"), it.Str("func"))
	if err != nil {
		return "", err
	}
	recv, arg, err := recvAndArg(fd)
	if err != nil {
		return "", err
	}
	fm, _ := it["fields"].(map[string]interface{})
	var rows []aggRow
	aggFlatten(c, p.Fset, fd.Body.List, 0, recv, arg, &rows)
	var ups []string
	seen := map[string]bool{}
	for _, r := range rows {
		if r.kind != "sum" {
			continue
		}
		if r.depth != 0 {
			return "", fmt.Errorf("%s: conditional sum of %s", it.Str("func"), r.a)
		}
		lf, ok1 := fm[r.a].(string)
		lg, ok2 := fm[r.b].(string)
		if !ok1 || !ok2 {
			return "", fmt.Errorf("%s: summed field %s/%s has no counterpart in the model's Counters", it.Str("func"), r.a, r.b)
		}
		if seen[lf] {
			return "", fmt.Errorf("%s: field %s is summed twice", it.Str("func"), r.a)
		}
		seen[lf] = true
		ups = append(ups, fmt.Sprintf("%s := t.%s + a.%s", lf, lf, lg))
	}
	_ = sort.Strings
	return fmt.Sprintf("def %s (t a : Nsq.Model.Aggregate.Counters) : Nsq.Model.Aggregate.Counters :=\n  { t with %s }\n",
		it.Str("name"), strings.Join(ups, ",\n           ")), nil
}

func kindAggFetch(c *Ctx, it Item) (string, error) {
	p, fd, err := c.FindFunc(it.Str("dir"), it.Str("func"))
	if err != nil {
		return "", err
	}
	txt := func(n ast.Node) string { return exprText(p.Fset, n) }
	var rows [][2]string
	add := func(k, v string) { rows = append(rows, [2]string{k, v}) }
	pats := it.Strs("match")
	matches := func(s string) bool {
		for _, pa := range pats {
			if strings.Contains(s, pa) {
				return true
			}
		}
		return false
	}
	// the goroutine-per-upstream loop: the first top-level range whose body starts a goroutine
	var workers []*ast.FuncLit
	for _, st := range fd.Body.List {
		rs, ok := st.(*ast.RangeStmt)
		if !ok {
			continue
		}
		for _, b := range rs.Body.List {
			if gs, ok := b.(*ast.GoStmt); ok {
				if fl, ok := gs.Call.Fun.(*ast.FuncLit); ok {
					add("range", txt(rs.X))
					workers = append(workers, fl)
				}
			}
		}
	}
	if len(workers) != 1 {
		return "", fmt.Errorf("%s: expected exactly one goroutine-per-upstream loop, found %d", it.Str("func"), len(workers))
	}
	nested := 0
	var visit func(stmts []ast.Stmt, guard string, inNested bool)
	visit = func(stmts []ast.Stmt, guard string, inNested bool) {
		for _, st := range stmts {
			// nested function literals / go statements anywhere in this statement
			if as, ok := st.(*ast.AssignStmt); ok && txt(as) == "errs = append(errs, err)" {
				last := stmts[len(stmts)-1]
				_, endsReturn := last.(*ast.ReturnStmt)
				switch {
				case inNested:
					add("errappend", "inside a nested function literal (may run more than once per upstream)")
				case guard != "err != nil":
					add("errappend", "not guarded by `if err != nil` (guard: "+guard+")")
				case !endsReturn:
					add("errappend", "the goroutine goes on after recording the error")
				default:
					add("errappend", "guarded-return")
				}
				continue
			}
			switch v := st.(type) {
			case *ast.IfStmt:
				if v.Init != nil {
					visit([]ast.Stmt{v.Init}, guard, inNested)
				}
				visit(v.Body.List, txt(v.Cond), inNested)
				switch el := v.Else.(type) {
				case *ast.BlockStmt:
					visit(el.List, "else of "+txt(v.Cond), inNested)
				case *ast.IfStmt:
					visit([]ast.Stmt{el}, guard, inNested)
				}
			case *ast.ForStmt:
				visit(v.Body.List, guard, inNested)
			case *ast.RangeStmt:
				visit(v.Body.List, guard, inNested)
			case *ast.BlockStmt:
				visit(v.List, guard, inNested)
			case *ast.GoStmt:
				nested++
				if fl, ok := v.Call.Fun.(*ast.FuncLit); ok {
					visit(fl.Body.List, "", true)
				}
			case *ast.DeferStmt:
				if fl, ok := v.Call.Fun.(*ast.FuncLit); ok {
					nested++
					visit(fl.Body.List, "", true)
				}
			default:
				ast.Inspect(st, func(n ast.Node) bool {
					if fl, ok := n.(*ast.FuncLit); ok {
						nested++
						visit(fl.Body.List, "", true)
						return false
					}
					return true
				})
			}
		}
	}
	visit(workers[0].Body.List, "", false)
	add("nestedgo", fmt.Sprintf("%d", nested))
	// the error mapping after wg.Wait()
	for _, st := range fd.Body.List {
		is, ok := st.(*ast.IfStmt)
		if !ok || !strings.Contains(txt(is.Cond), "errs") {
			continue
		}
		body := txt(is.Body)
		switch {
		case strings.Contains(body, "fmt.Errorf"):
			add("allfailed", txt(is.Cond))
		case strings.Contains(body, "ErrList(errs)"):
			add("partial", txt(is.Cond))
		default:
			add("errs-if", txt(is.Cond))
		}
	}
	// statements of interest (dedup keys, sort / uniq calls, recomputed fields, filters), source order
	ast.Inspect(fd.Body, func(n ast.Node) bool {
		switch v := n.(type) {
		case *ast.AssignStmt:
			if s := txt(v); matches(s) {
				add("stmt", s)
			}
		case *ast.ExprStmt:
			if s := txt(v); matches(s) {
				add("stmt", s)
			}
		case *ast.IfStmt:
			if s := txt(v.Cond); matches(s) {
				add("stmt", "if "+s)
			}
		}
		return true
	})
	var sb strings.Builder
	fmt.Fprintf(&sb, "def %s : List (String × String) := [\n", it.Str("name"))
	for i, r := range rows {
		sep := ","
		if i == len(rows)-1 {
			sep = ""
		}
		fmt.Fprintf(&sb, "  (%s, %s)%s\n", leanStr(r[0]), leanStr(r[1]), sep)
	}
	sb.WriteString("]\n")
	return sb.String(), nil
}

// ---------------------------------------------------------------------------------------------------------
//	retryloop {"name","dir","func"}
//	    → def <name> : List (String × String)   facts about the one retry loop of a request helper:
//	        loop <how>            "label <L> + goto" or "for"
//	        jumpcond <text>       condition of the `if` whose body jumps back (goto L / continue)
//	        update <text>         assignments inside that `if` before the jump (in order)
//	        invariant <ident>     an identifier of the jump condition that is NOT assigned inside the loop body
//	                              (package names and fields of loop-assigned variables excluded): the condition
//	                              would never change between passes
//	        requests <n>          calls of `.Do(` inside the loop body
func init() { register("retryloop", kindRetryLoop) }

func kindRetryLoop(c *Ctx, it Item) (string, error) {
	p, fd, err := c.FindFunc(it.Str("dir"), it.Str("func"))
	if err != nil {
		return "", err
	}
	txt := func(n ast.Node) string { return exprText(p.Fset, n) }
	var rows [][2]string
	add := func(k, v string) { rows = append(rows, [2]string{k, v}) }
	// the loop: a labelled statement that some `goto` targets (body = the rest of the function), or a `for`
	var body []ast.Stmt
	label := ""
	for i, st := range fd.Body.List {
		if ls, ok := st.(*ast.LabeledStmt); ok {
			label = ls.Label.Name
			body = append([]ast.Stmt{ls.Stmt}, fd.Body.List[i+1:]...)
			add("loop", "label "+label+" + goto")
			break
		}
		if fs, ok := st.(*ast.ForStmt); ok {
			body = fs.Body.List
			add("loop", "for")
			break
		}
	}
	if body == nil && it.Str("via") == "" {
		// the loop may have been moved into a helper method of the same receiver: follow a single such call
		var helpers []string
		ast.Inspect(fd.Body, func(n ast.Node) bool {
			if ce, ok := n.(*ast.CallExpr); ok {
				if se, ok := ce.Fun.(*ast.SelectorExpr); ok && fd.Recv != nil && len(fd.Recv.List[0].Names) == 1 {
					if id, ok := se.X.(*ast.Ident); ok && id.Name == fd.Recv.List[0].Names[0].Name {
						helpers = append(helpers, se.Sel.Name)
					}
				}
			}
			return true
		})
		if len(helpers) == 1 {
			recvT := it.Str("func")[:strings.LastIndex(it.Str("func"), ".")]
			it2 := Item{"kind": "retryloop", "name": it.Str("name"), "dir": it.Str("dir"), "func": recvT + "." + helpers[0], "via": helpers[0]}
			return kindRetryLoop(c, it2)
		}
	}
	if body == nil {
		return "", fmt.Errorf("%s: no retry loop (label+goto or for) in the function body", it.Str("func"))
	}
	if it.Str("via") != "" {
		add("via", it.Str("via"))
	}
	assigned := map[string]bool{}
	nreq := 0
	for _, st := range body {
		ast.Inspect(st, func(n ast.Node) bool {
			switch v := n.(type) {
			case *ast.AssignStmt:
				for _, l := range v.Lhs {
					if id, ok := l.(*ast.Ident); ok {
						assigned[id.Name] = true
					}
				}
			case *ast.CallExpr:
				if strings.HasSuffix(txt(v.Fun), ".Do") {
					nreq++
				}
			}
			return true
		})
	}
	jumps := 0
	var findJump func(stmts []ast.Stmt)
	findJump = func(stmts []ast.Stmt) {
		for _, st := range stmts {
			is, ok := st.(*ast.IfStmt)
			if !ok {
				if bs, ok := st.(*ast.BlockStmt); ok {
					findJump(bs.List)
				}
				continue
			}
			direct := false
			for _, b := range is.Body.List {
				if br, ok := b.(*ast.BranchStmt); ok && ((br.Tok == token.GOTO && br.Label != nil && br.Label.Name == label) || (br.Tok == token.CONTINUE && label == "")) {
					direct = true
				}
			}
			if direct {
				jumps++
				add("jumpcond", txt(is.Cond))
				for _, b := range is.Body.List {
					if as, ok := b.(*ast.AssignStmt); ok {
						add("update", txt(as))
					}
				}
				ast.Inspect(is.Cond, func(n ast.Node) bool {
					switch v := n.(type) {
					case *ast.SelectorExpr:
						// resp.StatusCode: the root decides; pkg.Func: a package name
						if id, ok := v.X.(*ast.Ident); ok {
							if _, isPkg := p.TypesInfo.Uses[id].(interface{ Imported() interface{} }); isPkg {
								return false
							}
							if obj := p.TypesInfo.Uses[id]; obj != nil && obj.Pkg() != nil && fmt.Sprintf("%T", obj) == "*types.PkgName" {
								return false
							}
							if !assigned[id.Name] {
								add("invariant", id.Name)
							}
							return false
						}
					case *ast.Ident:
						if obj := p.TypesInfo.Uses[v]; obj != nil && fmt.Sprintf("%T", obj) == "*types.Var" && !assigned[v.Name] {
							add("invariant", v.Name)
						}
					}
					return true
				})
			} else {
				findJump(is.Body.List)
				if el, ok := is.Else.(*ast.BlockStmt); ok {
					findJump(el.List)
				}
			}
		}
	}
	findJump(body)
	if jumps != 1 {
		return "", fmt.Errorf("%s: expected exactly one jump back to the loop head, found %d", it.Str("func"), jumps)
	}
	add("requests", fmt.Sprintf("%d", nreq))
	var sb strings.Builder
	fmt.Fprintf(&sb, "def %s : List (String × String) := [\n", it.Str("name"))
	for i, r := range rows {
		sep := ","
		if i == len(rows)-1 {
			sep = ""
		}
		fmt.Fprintf(&sb, "  (%s, %s)%s\n", leanStr(r[0]), leanStr(r[1]), sep)
	}
	sb.WriteString("]\n")
	return sb.String(), nil
}
