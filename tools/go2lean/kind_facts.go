package main

// Fact extractors. Each renders a Lean `def` holding data read off the current source:
//
//	consts   {"name","dir","names":[...]}                  → def <name>_<const> : Int := <value>
//	calls    {"name","dir","func","track":[...]}           → def <name> : List String   (tracked callee names, source order)
//	errsites {"name","dir","funcs":[...] (optional)}       → def <name> : List (String × String × String)  (func, ctor, code)
//	routes   {"name","dir","func"}                         → def <name> : List (String × String × String × List String)
//	                                                          (method, path, handler, decorators)
//	stmts    {"name","dir","func","match": substring list} → def <name> : List String  (normalised text of matching
//	                                                          if-conditions / assignments / returns, source order)
//	regex    {"name","dir","var"}                          → def <name> : String  (literal passed to regexp.MustCompile)
//	firstguard {"name","dir","funcs":[...],"guard":"isAuthorizedAdminRequest"}
//	                                                       → def <name> : List (String × Bool)
//	           true iff the first statement of the function is `if !recv.<guard>(…) { return … }`

import (
	"fmt"
	"go/ast"
	"go/constant"
	"go/token"
	"strconv"
	"strings"
)

func init() {
	register("consts", kindConsts)
	register("calls", kindCalls)
	register("errsites", kindErrSites)
	register("routes", kindRoutes)
	register("stmts", kindStmts)
	register("regex", kindRegex)
	register("firstguard", kindFirstGuard)
}

func kindConsts(c *Ctx, it Item) (string, error) {
	p, err := c.Pkg(it.Str("dir"))
	if err != nil {
		return "", err
	}
	var sb strings.Builder
	for _, n := range it.Strs("names") {
		obj := p.Types.Scope().Lookup(n)
		if obj == nil {
			return "", fmt.Errorf("constant %s not found", n)
		}
		cv, ok := obj.(interface{ Val() constant.Value })
		if !ok {
			return "", fmt.Errorf("%s is not a constant", n)
		}
		v := cv.Val()
		switch v.Kind() {
		case constant.Int:
			sb.WriteString(fmt.Sprintf("def %s_%s : Int := %s\n", it.Str("name"), n, v.ExactString()))
		case constant.String:
			sb.WriteString(fmt.Sprintf("def %s_%s : String := %s\n", it.Str("name"), n, leanStr(constant.StringVal(v))))
		default:
			return "", fmt.Errorf("constant %s of unsupported kind", n)
		}
	}
	return sb.String(), nil
}

func calleeName(e ast.Expr) string {
	switch x := e.(type) {
	case *ast.Ident:
		return x.Name
	case *ast.SelectorExpr:
		return x.Sel.Name
	case *ast.ParenExpr:
		return calleeName(x.X)
	}
	return ""
}

func kindCalls(c *Ctx, it Item) (string, error) {
	_, fd, err := c.FindFunc(it.Str("dir"), it.Str("func"))
	if err != nil {
		return "", err
	}
	track := map[string]bool{}
	for _, s := range it.Strs("track") {
		track[s] = true
	}
	var seq []string
	ast.Inspect(fd.Body, func(n ast.Node) bool {
		if ce, ok := n.(*ast.CallExpr); ok {
			if nm := calleeName(ce.Fun); track[nm] {
				seq = append(seq, nm)
			}
		}
		return true
	})
	return fmt.Sprintf("def %s : List String := %s\n", it.Str("name"), leanStrList(seq)), nil
}

func kindErrSites(c *Ctx, it Item) (string, error) {
	p, err := c.Pkg(it.Str("dir"))
	if err != nil {
		return "", err
	}
	only := map[string]bool{}
	for _, s := range it.Strs("funcs") {
		only[s] = true
	}
	var rows []string
	for _, f := range p.Syntax {
		if strings.HasSuffix(p.Fset.File(f.Pos()).Name(), "_test.go") {
			continue
		}
		for _, d := range f.Decls {
			fd, ok := d.(*ast.FuncDecl)
			if !ok || fd.Body == nil {
				continue
			}
			if len(only) > 0 && !only[fd.Name.Name] {
				continue
			}
			ast.Inspect(fd.Body, func(n ast.Node) bool {
				ce, ok := n.(*ast.CallExpr)
				if !ok {
					return true
				}
				nm := calleeName(ce.Fun)
				if nm != "NewFatalClientErr" && nm != "NewClientErr" {
					return true
				}
				code := "?"
				if len(ce.Args) >= 2 {
					if bl, ok := ce.Args[1].(*ast.BasicLit); ok && bl.Kind == token.STRING {
						code, _ = strconv.Unquote(bl.Value)
					}
				}
				rows = append(rows, fmt.Sprintf("(%s, %s, %s)", leanStr(fd.Name.Name), leanStr(nm), leanStr(code)))
				return true
			})
		}
	}
	return fmt.Sprintf("def %s : List (String × String × String) := [\n  %s]\n", it.Str("name"), strings.Join(rows, ",\n  ")), nil
}

func kindRoutes(c *Ctx, it Item) (string, error) {
	p, fd, err := c.FindFunc(it.Str("dir"), it.Str("func"))
	if err != nil {
		return "", err
	}
	var rows []string
	ast.Inspect(fd.Body, func(n ast.Node) bool {
		ce, ok := n.(*ast.CallExpr)
		if !ok || calleeName(ce.Fun) != "Handle" && calleeName(ce.Fun) != "HandlerFunc" {
			return true
		}
		if len(ce.Args) != 3 {
			return true
		}
		m, ok1 := ce.Args[0].(*ast.BasicLit)
		pa, ok2 := ce.Args[1].(*ast.BasicLit)
		if !ok1 || !ok2 {
			return true
		}
		method, _ := strconv.Unquote(m.Value)
		path, _ := strconv.Unquote(pa.Value)
		handler, decos := exprText(p.Fset, ce.Args[2]), []string{}
		if dc, ok := ce.Args[2].(*ast.CallExpr); ok && calleeName(dc.Fun) == "Decorate" && len(dc.Args) >= 1 {
			handler = calleeName(dc.Args[0])
			for _, a := range dc.Args[1:] {
				decos = append(decos, exprText(p.Fset, a))
			}
		}
		rows = append(rows, fmt.Sprintf("(%s, %s, %s, %s)", leanStr(method), leanStr(path), leanStr(handler), leanStrList(decos)))
		return true
	})
	if len(rows) == 0 {
		return "", fmt.Errorf("no routes found in %s", it.Str("func"))
	}
	return fmt.Sprintf("def %s : List (String × String × String × List String) := [\n  %s]\n", it.Str("name"), strings.Join(rows, ",\n  ")), nil
}

func kindStmts(c *Ctx, it Item) (string, error) {
	p, fd, err := c.FindFunc(it.Str("dir"), it.Str("func"))
	if err != nil {
		return "", err
	}
	pats := it.Strs("match")
	var rows []string
	add := func(kind string, n ast.Node) {
		txt := exprText(p.Fset, n)
		for _, pa := range pats {
			if strings.Contains(txt, pa) {
				rows = append(rows, kind+" "+txt)
				return
			}
		}
	}
	ast.Inspect(fd.Body, func(n ast.Node) bool {
		switch x := n.(type) {
		case *ast.IfStmt:
			add("if", x.Cond)
		case *ast.AssignStmt:
			add("assign", x)
		case *ast.ReturnStmt:
			add("return", x)
		case *ast.CaseClause:
			for _, e := range x.List {
				add("case", e)
			}
		}
		return true
	})
	return fmt.Sprintf("def %s : List String := [\n  %s]\n", it.Str("name"), strings.Join(quoteAll(rows), ",\n  ")), nil
}

func quoteAll(xs []string) []string {
	out := make([]string, len(xs))
	for i, x := range xs {
		out[i] = leanStr(x)
	}
	return out
}

func kindRegex(c *Ctx, it Item) (string, error) {
	p, err := c.Pkg(it.Str("dir"))
	if err != nil {
		return "", err
	}
	for _, f := range p.Syntax {
		for _, d := range f.Decls {
			gd, ok := d.(*ast.GenDecl)
			if !ok {
				continue
			}
			for _, sp := range gd.Specs {
				vs, ok := sp.(*ast.ValueSpec)
				if !ok {
					continue
				}
				for i, n := range vs.Names {
					if n.Name != it.Str("var") || len(vs.Values) <= i {
						continue
					}
					ce, ok := vs.Values[i].(*ast.CallExpr)
					if !ok || calleeName(ce.Fun) != "MustCompile" || len(ce.Args) != 1 {
						return "", fmt.Errorf("%s is not regexp.MustCompile(literal)", n.Name)
					}
					bl, ok := ce.Args[0].(*ast.BasicLit)
					if !ok {
						return "", fmt.Errorf("%s: non-literal pattern", n.Name)
					}
					s, err := strconv.Unquote(bl.Value)
					if err != nil {
						return "", err
					}
					return fmt.Sprintf("def %s : String := %s\n", it.Str("name"), leanStr(s)), nil
				}
			}
		}
	}
	return "", fmt.Errorf("variable %s not found", it.Str("var"))
}

func kindFirstGuard(c *Ctx, it Item) (string, error) {
	var rows []string
	for _, fn := range it.Strs("funcs") {
		p, fd, err := c.FindFunc(it.Str("dir"), fn)
		if err != nil {
			return "", err
		}
		guarded := false
		if len(fd.Body.List) > 0 {
			if is, ok := fd.Body.List[0].(*ast.IfStmt); ok && is.Init == nil {
				if ue, ok := is.Cond.(*ast.UnaryExpr); ok && ue.Op == token.NOT {
					if ce, ok := ue.X.(*ast.CallExpr); ok && calleeName(ce.Fun) == it.Str("guard") {
						if len(is.Body.List) > 0 {
							if _, ok := is.Body.List[len(is.Body.List)-1].(*ast.ReturnStmt); ok {
								guarded = true
							}
						}
					}
				}
			}
		}
		_ = p
		rows = append(rows, fmt.Sprintf("(%s, %v)", leanStr(fn), guarded))
	}
	return fmt.Sprintf("def %s : List (String × Bool) := [\n  %s]\n", it.Str("name"), strings.Join(rows, ",\n  ")), nil
}
