package main

// kind "cfgdefault": the value of a go-nsq Config field a tool's main() runs with when the operator
// passes no --consumer-opt for it.
//
//	{"kind":"cfgdefault","name":N,"dir":"apps/nsq_to_file","func":"main","var":"cfg","field":"MaxAttempts",
//	 "lib":"mod:github.com/nsqio/go-nsq@v1.1.0","opt":"max_attempts"}
//
// Emits
//	def N_lib : Nat          the library default (struct tag `default:"…"` of the field with `opt:"<opt>"` in config.go)
//	def N_tool : Option Nat  `some k` iff main() has the top-level statement `<var>.<field> = k` (k constant)
//	def N_overridable : Bool the assignment (if any) comes after `<var> := nsq.NewConfig()` and before the first
//	                         statement mentioning nsq.ConfigFlag (= before operator options are applied)
//	def N : Nat := N_tool.getD N_lib
// More than one assignment, a non-constant right-hand side, or an assignment nested in a block is REJECTED.

import (
	"fmt"
	"go/ast"
	"go/parser"
	"go/token"
	"os"
	"path/filepath"
	"reflect"
	"strconv"
	"strings"
)

func init() { register("cfgdefault", kindCfgDefault) }

func kindCfgDefault(c *Ctx, it Item) (string, error) {
	p, fd, err := c.FindFunc(it.Str("dir"), it.Str("func"))
	if err != nil {
		return "", err
	}
	v, field, opt, name := it.Str("var"), it.Str("field"), it.Str("opt"), it.Str("name")
	// library default from the struct tag
	gomod := os.Getenv("GOMODCACHE")
	if gomod == "" {
		home, _ := os.UserHomeDir()
		gomod = filepath.Join(home, "go", "pkg", "mod")
	}
	full := filepath.Join(gomod, strings.TrimPrefix(it.Str("lib"), "mod:"), "config.go")
	fset := token.NewFileSet()
	f, err := parser.ParseFile(fset, full, nil, 0)
	if err != nil {
		return "", err
	}
	lib := -1
	ast.Inspect(f, func(n ast.Node) bool {
		fl, ok := n.(*ast.Field)
		if !ok || fl.Tag == nil || len(fl.Names) != 1 || fl.Names[0].Name != field {
			return true
		}
		tag, err := strconv.Unquote(fl.Tag.Value)
		if err != nil {
			return true
		}
		st := reflect.StructTag(tag)
		if st.Get("opt") == opt {
			if d, err := strconv.Atoi(st.Get("default")); err == nil {
				lib = d
			}
		}
		return true
	})
	if lib < 0 {
		return "", fmt.Errorf("cfgdefault: no field %s with opt:%q and an integer default in %s", field, opt, full)
	}
	want := v + "." + field
	posNew, posFlag, posAssign, nAssign, val := -1, -1, -1, 0, ""
	for i, s := range fd.Body.List {
		txt := exprText(p.Fset, s)
		if posNew < 0 && strings.Contains(txt, v+" := nsq.NewConfig()") {
			posNew = i
		}
		if posFlag < 0 && strings.Contains(txt, "nsq.ConfigFlag") {
			posFlag = i
		}
		if as, ok := s.(*ast.AssignStmt); ok && len(as.Lhs) == 1 && exprText(p.Fset, as.Lhs[0]) == want {
			if as.Tok != token.ASSIGN || len(as.Rhs) != 1 {
				return "", fmt.Errorf("cfgdefault: unsupported assignment %s", txt)
			}
			tv, ok := p.TypesInfo.Types[as.Rhs[0]]
			if !ok || tv.Value == nil {
				return "", fmt.Errorf("cfgdefault: %s is assigned a non-constant", want)
			}
			posAssign, val = i, tv.Value.ExactString()
			nAssign++
		}
	}
	// nested assignments are not understood
	total := 0
	ast.Inspect(fd.Body, func(n ast.Node) bool {
		if as, ok := n.(*ast.AssignStmt); ok {
			for _, l := range as.Lhs {
				if exprText(p.Fset, l) == want {
					total++
				}
			}
		}
		return true
	})
	if nAssign > 1 || total != nAssign {
		return "", fmt.Errorf("cfgdefault: %s is assigned %d times (%d at top level)", want, total, nAssign)
	}
	if posNew < 0 {
		return "", fmt.Errorf("cfgdefault: `%s := nsq.NewConfig()` not found at the top level of %s", v, it.Str("func"))
	}
	tool := "none"
	over := "true"
	if nAssign == 1 {
		if _, err := strconv.ParseUint(val, 10, 32); err != nil {
			return "", fmt.Errorf("cfgdefault: value %s", val)
		}
		tool = "some " + val
		if !(posAssign > posNew && (posFlag < 0 || posAssign < posFlag)) {
			over = "false"
		}
	}
	return fmt.Sprintf("def %s_lib : Nat := %d\ndef %s_tool : Option Nat := %s\ndef %s_overridable : Bool := %s\ndef %s : Nat := %s_tool.getD %s_lib\n",
		name, lib, name, tool, name, over, name, name, name), nil
}
