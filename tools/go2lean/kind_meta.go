package main

// effseq {"name","dir","func","calls":[callee names],"assigns":[substrings]}
//   → def <name> : List String
// The ordered (source order, pre-order) events of one function body: "call:<callee>" for every call
// whose callee name is tracked, "assign:<normalised text>" for every assignment / inc-dec statement
// whose text contains one of the substrings, "return" for every return statement when "returns" is
// true, "go" / "defer" markers are rendered as "go:<callee>" / "defer:<callee>" when tracked.
// Used for order-of-effects ties (syscall order of the metadata write protocol, Notify relative to the
// map insert / unlink, persist-before-answer in the pause handlers).

import (
	"fmt"
	"go/ast"
	"strings"
)

func init() { register("effseq", kindEffSeq) }

func kindEffSeq(c *Ctx, it Item) (string, error) {
	p, fd, err := c.FindFunc(it.Str("dir"), it.Str("func"))
	if err != nil {
		return "", err
	}
	track := map[string]bool{}
	for _, s := range it.Strs("calls") {
		track[s] = true
	}
	pats := it.Strs("assigns")
	wantRet, _ := it["returns"].(bool)
	// "full": render a tracked call with its whole callee expression ("call:n.dl.Unlock" rather than "call:Unlock")
	full, _ := it["full"].(bool)
	callName := func(ce *ast.CallExpr) string {
		if full {
			return exprText(p.Fset, ce.Fun)
		}
		return calleeName(ce.Fun)
	}
	var seq []string
	skip := map[ast.Node]bool{}
	ast.Inspect(fd.Body, func(n ast.Node) bool {
		switch x := n.(type) {
		case *ast.GoStmt:
			if nm := calleeName(x.Call.Fun); track[nm] {
				seq = append(seq, "go:"+nm)
				skip[x.Call] = true
			}
		case *ast.DeferStmt:
			if nm := calleeName(x.Call.Fun); track[nm] {
				seq = append(seq, "defer:"+nm)
				skip[x.Call] = true
			}
		case *ast.CallExpr:
			if skip[x] {
				return true
			}
			if nm := calleeName(x.Fun); track[nm] {
				seq = append(seq, "call:"+callName(x))
			}
		case *ast.AssignStmt, *ast.IncDecStmt:
			txt := exprText(p.Fset, n)
			for _, pa := range pats {
				if strings.Contains(txt, pa) {
					seq = append(seq, "assign:"+txt)
					break
				}
			}
		case *ast.ReturnStmt:
			if wantRet {
				seq = append(seq, "return")
			}
		}
		return true
	})
	return fmt.Sprintf("def %s : List String := %s\n", it.Str("name"), leanStrList(seq)), nil
}

// enclosing {"name","dir","func","calls":[callee names]}
//   → def <name> : List (String × List String)
// For every call of a tracked callee (source order): the chain of control statements that enclose it, outermost
// first: "if <cond>", "else(<cond>)" (the call sits in the else branch of that if), "for <range/cond text>",
// "switch"/"case <exprs>", "select-case", "func" (a function literal). Used to tie statement *shape*: e.g. that the
// channel pre-creation loop of GetTopic is not inside a branch on the error of the lookupd query.
func init() { register("enclosing", kindEnclosing) }

func kindEnclosing(c *Ctx, it Item) (string, error) {
	p, fd, err := c.FindFunc(it.Str("dir"), it.Str("func"))
	if err != nil {
		return "", err
	}
	track := map[string]bool{}
	for _, s := range it.Strs("calls") {
		track[s] = true
	}
	var rows []string
	var walk func(n ast.Node, stack []string)
	walkList := func(list []ast.Stmt, stack []string) {
		for _, s := range list {
			walk(s, stack)
		}
	}
	push := func(stack []string, s string) []string {
		out := make([]string, len(stack), len(stack)+1)
		copy(out, stack)
		return append(out, s)
	}
	walk = func(n ast.Node, stack []string) {
		if n == nil {
			return
		}
		switch x := n.(type) {
		case *ast.IfStmt:
			if x.Init != nil {
				walk(x.Init, stack)
			}
			cond := exprText(p.Fset, x.Cond)
			walk(x.Cond, stack)
			walkList(x.Body.List, push(stack, "if "+cond))
			if x.Else != nil {
				switch e := x.Else.(type) {
				case *ast.BlockStmt:
					walkList(e.List, push(stack, "else("+cond+")"))
				default:
					walk(e, push(stack, "else("+cond+")"))
				}
			}
		case *ast.ForStmt:
			hd := "for"
			if x.Cond != nil {
				hd = "for " + exprText(p.Fset, x.Cond)
			}
			walkList(x.Body.List, push(stack, hd))
		case *ast.RangeStmt:
			walk(x.X, stack)
			walkList(x.Body.List, push(stack, "for range "+exprText(p.Fset, x.X)))
		case *ast.BlockStmt:
			walkList(x.List, stack)
		case *ast.CaseClause:
			var es []string
			for _, e := range x.List {
				es = append(es, exprText(p.Fset, e))
			}
			walkList(x.Body, push(stack, "case "+strings.Join(es, ",")))
		case *ast.CommClause:
			walkList(x.Body, push(stack, "select-case"))
		case *ast.FuncLit:
			walkList(x.Body.List, push(stack, "func"))
		case *ast.CallExpr:
			if nm := calleeName(x.Fun); track[nm] {
				rows = append(rows, fmt.Sprintf("(%s, %s)", leanStr(nm), leanStrList(stack)))
			}
			walk(x.Fun, stack)
			for _, a := range x.Args {
				walk(a, stack)
			}
		default:
			// generic descent over the remaining node kinds (one level), keeping the stack
			ast.Inspect(n, func(m ast.Node) bool {
				if m == nil || m == n {
					return true
				}
				switch m.(type) {
				case *ast.IfStmt, *ast.ForStmt, *ast.RangeStmt, *ast.BlockStmt, *ast.CaseClause, *ast.CommClause,
					*ast.FuncLit, *ast.CallExpr:
					walk(m, stack)
					return false
				}
				return true
			})
		}
	}
	walkList(fd.Body.List, nil)
	return fmt.Sprintf("def %s : List (String × List String) := [\n  %s]\n", it.Str("name"), strings.Join(rows, ",\n  ")), nil
}
