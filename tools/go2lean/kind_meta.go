package main

// effseq {"name","dir","func","calls":[callee names],"assigns":[substrings]}
//   → def <name> : List String
// The ordered (source order, pre-order) events of one function body: "call:<callee>" for every call
// whose callee name is tracked, "assign:<normalised text>" for every assignment / inc-dec statement
// whose text contains one of the substrings, "return" for every return statement when "returns" is
// true, "go" / "defer" markers are rendered as "go:<callee>" / "defer:<callee>" when tracked.
// Used for order-of-effects ties (syscall order of the metadata write protocol, Notify relative to the
// map insert / unlink, persist-before-answer in the pause handlers).

import (
	"fmt"
	"go/ast"
	"strings"
)

func init() { register("effseq", kindEffSeq) }

func kindEffSeq(c *Ctx, it Item) (string, error) {
	p, fd, err := c.FindFunc(it.Str("dir"), it.Str("func"))
	if err != nil {
		return "", err
	}
	track := map[string]bool{}
	for _, s := range it.Strs("calls") {
		track[s] = true
	}
	pats := it.Strs("assigns")
	wantRet, _ := it["returns"].(bool)
	var seq []string
	skip := map[ast.Node]bool{}
	ast.Inspect(fd.Body, func(n ast.Node) bool {
		switch x := n.(type) {
		case *ast.GoStmt:
			if nm := calleeName(x.Call.Fun); track[nm] {
				seq = append(seq, "go:"+nm)
				skip[x.Call] = true
			}
		case *ast.DeferStmt:
			if nm := calleeName(x.Call.Fun); track[nm] {
				seq = append(seq, "defer:"+nm)
				skip[x.Call] = true
			}
		case *ast.CallExpr:
			if skip[x] {
				return true
			}
			if nm := calleeName(x.Fun); track[nm] {
				seq = append(seq, "call:"+nm)
			}
		case *ast.AssignStmt, *ast.IncDecStmt:
			txt := exprText(p.Fset, n)
			for _, pa := range pats {
				if strings.Contains(txt, pa) {
					seq = append(seq, "assign:"+txt)
					break
				}
			}
		case *ast.ReturnStmt:
			if wantRet {
				seq = append(seq, "return")
			}
		}
		return true
	})
	return fmt.Sprintf("def %s : List String := %s\n", it.Str("name"), leanStrList(seq)), nil
}
