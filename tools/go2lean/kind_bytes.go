package main

// kind "bytes": translate a small Go function that builds / parses a byte format into a Lean
// definition over `List UInt8` and `BitVec` (prelude: lean/Nsq/Model/ByteOps.lean). Used for
// nsqd/message.go (WriteTo, decodeMessage), internal/protocol (SendResponse,
// SendFramedResponse), nsqd/protocol_v2.go (readLen) and nsqd/guid.go (guid.Hex).
//
//	{"kind":"bytes","name":N,"dir":D,"func":F}
//
// Accepted subset (anything else is REJECTED, never guessed):
//   - parameters / receiver: integers, []byte, [N]byte, io.Writer, io.Reader, a pointer to a
//     struct whose fields are read (each field read becomes one parameter `recv_Field`, in the
//     declaration order of the struct)
//   - results: integers, error (a string, "" = nil), *Struct (Option of a generated structure
//     holding the fields of supported type; the others are listed in a comment and may not be
//     touched), [N]byte
//   - statements: `var x T`, `x := e`, `x = e`, `x += e`, `x.f = e` (local struct), `b[i] = byte-expr`
//     (local array, constant index), `n, err := w.Write(e)`, `err := binary.Write(w, binary.BigEndian, intexpr)`,
//     `_, err := io.ReadFull(r, buf)`, `binary.BigEndian.PutUintNN(dst, e)`, `copy(dst, src)`,
//     `hex.Encode(dst, src)`, `if c { …; return … }` (no else, no init; the body must return),
//     `return …`
//   - expressions: constants (evaluated by go/types), + - on equal-width integers, << >> by a
//     constant, comparisons, `err != nil`, `&& || !`, integer conversions, `len(x)`,
//     `binary.BigEndian.UintNN(src)`, slice expressions with constant bounds, `make([]byte, N)`,
//     `fmt.Errorf("<const>", …)` / `errors.New("<const>")` (the error is identified by the constant
//     text, arguments are not rendered)
//
// Go semantics rendered: fixed-width wrap-around arithmetic (BitVec; signed/unsigned
// shifts and comparisons by the Go type; `int` is 64 bits); `len(x)` is the exact length (a
// natural number: it may only be compared with constants or converted); value semantics for
// byte slices — so a slice of a local array may not be kept in a variable and written through
// later (REJECTED); writes into a *parameter* slice are not part of the result.
// Bounds: for local arrays / `make([]byte, N)` every slice bound and minimum length is checked
// here on constants (a violation is REJECTED); for operands of unknown length an explicit
// guard `if ¬ (hi ≤ x.length) then .panic "<expr>" else …` is rendered before the statement —
// no `getD`/`head!` style defaults anywhere.

import (
	"fmt"
	"go/ast"
	"go/constant"
	"go/token"
	"go/types"
	"sort"
	"strings"

	"golang.org/x/tools/go/packages"
)

func init() { register("bytes", kindBytes) }

type byVal struct {
	s    string // Lean expression
	k    string // "bv" | "bytes" | "nat" | "err" | "bool" | "writer" | "reader"
	lt   ltype  // for bv
	slen int    // bytes: static length, -1 = unknown
	base string // bytes: the variable this value is (a slice of), "" for fresh values
}

type byVar struct {
	byVal
	local  bool // declared in the function (array / make): may be written
	frozen bool // a slice of it was stored somewhere: no more writes
	alias  bool // holds a slice of another variable: never written through
}

type byEnv struct {
	vars    map[string]*byVar
	structs map[string]*types.Named // local struct variables
}

func (e *byEnv) clone() *byEnv {
	n := &byEnv{vars: map[string]*byVar{}, structs: map[string]*types.Named{}}
	for k, v := range e.vars {
		c := *v
		n.vars[k] = &c
	}
	for k, v := range e.structs {
		n.structs[k] = v
	}
	return n
}

type byTrans struct {
	p        *packages.Package
	fset     *token.FileSet
	name     string
	counter  int
	params   []string          // rendered binders, in order
	pseen    map[string]bool   // parameter names already bound
	ptrRoots map[string]bool   // receiver / parameters that are pointers to structs
	states   []string          // writer / reader variables (returned first), in order
	guards   []string          // pending panic guards of the current statement
	results  []string          // result kinds: "bv" "err" "ptr" "bytes"
	resLT    []ltype
	resLen   []int
	structs  map[string]string // Go struct name -> Lean structure name (emitted)
	aux      []string
	fieldPs  map[string][]byFieldParam // pointer parameter -> fields read (rendered in declaration order of the struct)
}

type byFieldParam struct {
	idx      int
	name, ty string
}

// bindField records the parameter standing for field `sel` of pointer parameter root
func (t *byTrans) bindField(root string, sel *ast.SelectorExpr, name, ty string) error {
	s := t.p.TypesInfo.Selections[sel]
	if s == nil || len(s.Index()) != 1 {
		return fmt.Errorf("unsupported (embedded?) field %s.%s", root, sel.Sel.Name)
	}
	if t.pseen[name] {
		return nil
	}
	t.pseen[name] = true
	t.fieldPs[root] = append(t.fieldPs[root], byFieldParam{s.Index()[0], name, ty})
	return nil
}

func (t *byTrans) fresh(base string) string {
	t.counter++
	return fmt.Sprintf("%s_%d", strings.NewReplacer(".", "_").Replace(base), t.counter)
}

func isByte(t types.Type) bool {
	b, ok := t.Underlying().(*types.Basic)
	return ok && b.Kind() == types.Uint8
}

// byType classifies a Go type: kind, bit type, static length
func byType(t types.Type) (string, ltype, int, error) {
	if t == nil {
		return "", ltype{}, 0, fmt.Errorf("untyped expression")
	}
	switch t.String() {
	case "error":
		return "err", ltype{lean: "String"}, 0, nil
	case "io.Writer":
		return "writer", ltype{}, 0, nil
	case "io.Reader":
		return "reader", ltype{}, 0, nil
	}
	switch u := t.Underlying().(type) {
	case *types.Basic:
		if u.Info()&types.IsInteger != 0 {
			lt, err := goType(t)
			return "bv", lt, 0, err
		}
		if u.Info()&types.IsBoolean != 0 {
			return "bool", ltype{lean: "Bool"}, 0, nil
		}
	case *types.Slice:
		if isByte(u.Elem()) {
			return "bytes", ltype{}, -1, nil
		}
	case *types.Array:
		if isByte(u.Elem()) {
			return "bytes", ltype{}, int(u.Len()), nil
		}
	}
	return "", ltype{}, 0, fmt.Errorf("unsupported type %s", t)
}

func byLeanType(k string, lt ltype) string {
	switch k {
	case "bv":
		return lt.lean
	case "bytes":
		return "Bytes"
	case "err":
		return "String"
	case "bool":
		return "Bool"
	}
	return "?"
}

func byZero(k string, lt ltype, slen int) string {
	switch k {
	case "bv":
		return fmt.Sprintf("0#%d", lt.width)
	case "bytes":
		if slen > 0 {
			return fmt.Sprintf("(List.replicate %d (0 : UInt8))", slen)
		}
		return "([] : Bytes)"
	case "err":
		return "\"\""
	case "bool":
		return "false"
	}
	return "?"
}

func (t *byTrans) constInt(e ast.Expr) (int, bool) {
	if tv, ok := t.p.TypesInfo.Types[e]; ok && tv.Value != nil {
		if v := constant.ToInt(tv.Value); v.Kind() == constant.Int {
			if n, ok := constant.Int64Val(v); ok && n >= 0 && n < 1<<31 {
				return int(n), true
			}
		}
	}
	return 0, false
}

func (t *byTrans) pkgSel(e ast.Expr) (string, string) {
	// "pkg", "Name"  or  "encoding/binary.BigEndian", "PutUint64"
	se, ok := e.(*ast.SelectorExpr)
	if !ok {
		return "", ""
	}
	switch x := se.X.(type) {
	case *ast.Ident:
		if pn, ok := t.p.TypesInfo.Uses[x].(*types.PkgName); ok {
			return pn.Imported().Path(), se.Sel.Name
		}
	case *ast.SelectorExpr:
		if pk, nm := t.pkgSel(x); pk != "" {
			return pk + "." + nm, se.Sel.Name
		}
	}
	return "", ""
}

func (t *byTrans) bindParam(name, ty string) {
	if !t.pseen[name] {
		t.pseen[name] = true
		t.params = append(t.params, fmt.Sprintf("(%s : %s)", name, ty))
	}
}

// bytesBase resolves an expression denoting a whole byte variable: local, parameter or a field
// of a pointer parameter / local struct. Returns the env key.
func (t *byTrans) bytesBase(e ast.Expr, env *byEnv) (string, *byVar, error) {
	switch x := e.(type) {
	case *ast.ParenExpr:
		return t.bytesBase(x.X, env)
	case *ast.Ident:
		if v, ok := env.vars[x.Name]; ok && v.k == "bytes" {
			return x.Name, v, nil
		}
	case *ast.SelectorExpr:
		if id, ok := x.X.(*ast.Ident); ok {
			key := id.Name + "." + x.Sel.Name
			if v, ok := env.vars[key]; ok && v.k == "bytes" {
				return key, v, nil
			}
			if t.ptrRoots[id.Name] {
				k, _, sl, err := byType(t.p.TypesInfo.TypeOf(e))
				if err != nil || k != "bytes" {
					return "", nil, fmt.Errorf("field %s is not a byte slice / array", key)
				}
				nm := id.Name + "_" + x.Sel.Name
				cm := "Bytes"
				if sl >= 0 {
					cm = fmt.Sprintf("Bytes /- [%d]byte -/", sl)
				}
				if err := t.bindField(id.Name, x, nm, cm); err != nil {
					return "", nil, err
				}
				v := &byVar{byVal: byVal{s: nm, k: "bytes", slen: sl, base: key}}
				env.vars[key] = v
				return key, v, nil
			}
		}
	}
	return "", nil, fmt.Errorf("unsupported byte operand %s", exprText(t.fset, e))
}

// sliceOf resolves `x`, `x[:]`, `x[lo:hi]` … into (base key, offset, static length or -1, value)
func (t *byTrans) sliceOf(e ast.Expr, env *byEnv) (string, int, byVal, error) {
	if p, ok := e.(*ast.ParenExpr); ok {
		return t.sliceOf(p.X, env)
	}
	se, ok := e.(*ast.SliceExpr)
	if !ok {
		key, v, err := t.bytesBase(e, env)
		if err != nil {
			return "", 0, byVal{}, err
		}
		return key, 0, byVal{s: v.s, k: "bytes", slen: v.slen, base: key}, nil
	}
	if se.Slice3 {
		return "", 0, byVal{}, fmt.Errorf("3-index slice %s", exprText(t.fset, e))
	}
	key, v, err := t.bytesBase(se.X, env)
	if err != nil {
		return "", 0, byVal{}, err
	}
	txt := exprText(t.fset, e)
	lo, hi, hasHi := 0, 0, false
	if se.Low != nil {
		n, ok := t.constInt(se.Low)
		if !ok {
			return "", 0, byVal{}, fmt.Errorf("non-constant slice bound in %s", txt)
		}
		lo = n
	}
	if se.High != nil {
		n, ok := t.constInt(se.High)
		if !ok {
			return "", 0, byVal{}, fmt.Errorf("non-constant slice bound in %s", txt)
		}
		hi, hasHi = n, true
	}
	if hasHi && lo > hi {
		return "", 0, byVal{}, fmt.Errorf("inverted slice bounds in %s", txt)
	}
	if v.slen >= 0 {
		if !hasHi {
			hi = v.slen
		}
		if hi > v.slen || lo > hi {
			return "", 0, byVal{}, fmt.Errorf("slice %s is outside the %d bytes of %s (always panics)", txt, v.slen, key)
		}
		out := byVal{k: "bytes", slen: hi - lo, base: key}
		switch {
		case lo == 0 && hi == v.slen:
			out.s = v.s
		case lo == 0:
			out.s = fmt.Sprintf("(%s.take %d)", v.s, hi)
		case hi == v.slen:
			out.s = fmt.Sprintf("(%s.drop %d)", v.s, lo)
		default:
			out.s = fmt.Sprintf("(slice %s %d %d)", v.s, lo, hi)
		}
		return key, lo, out, nil
	}
	// unknown length: explicit guard
	out := byVal{k: "bytes", slen: -1, base: key}
	switch {
	case !hasHi && lo == 0:
		out.s = v.s
	case !hasHi:
		t.guards = append(t.guards, fmt.Sprintf("if ¬ (%d ≤ %s.length) then .panic %s else", lo, v.s, leanStr(txt)))
		out.s = fmt.Sprintf("(%s.drop %d)", v.s, lo)
	default:
		t.guards = append(t.guards, fmt.Sprintf("if ¬ (%d ≤ %s.length) then .panic %s else", hi, v.s, leanStr(txt)))
		out.slen = hi - lo
		if lo == 0 {
			out.s = fmt.Sprintf("(%s.take %d)", v.s, hi)
		} else {
			out.s = fmt.Sprintf("(slice %s %d %d)", v.s, lo, hi)
		}
	}
	return key, lo, out, nil
}

// atLeast makes sure a byte value has at least n bytes and returns its first n bytes
func (t *byTrans) firstN(v byVal, n int, what string) (string, error) {
	if v.slen >= 0 {
		if v.slen < n {
			return "", fmt.Errorf("%s needs %d bytes, operand has %d (always panics)", what, n, v.slen)
		}
		if v.slen == n {
			return v.s, nil
		}
		return fmt.Sprintf("(%s.take %d)", v.s, n), nil
	}
	t.guards = append(t.guards, fmt.Sprintf("if ¬ (%d ≤ %s.length) then .panic %s else", n, v.s, leanStr(what)))
	return fmt.Sprintf("(%s.take %d)", v.s, n), nil
}

func (t *byTrans) isNil(e ast.Expr) bool {
	id, ok := e.(*ast.Ident)
	return ok && id.Name == "nil" && t.p.TypesInfo.Uses[id] == types.Universe.Lookup("nil")
}

func (t *byTrans) expr(e ast.Expr, env *byEnv) (byVal, error) {
	txt := exprText(t.fset, e)
	if tv, ok := t.p.TypesInfo.Types[e]; ok && tv.Value != nil {
		k, lt, _, err := byType(tv.Type)
		if err != nil {
			return byVal{}, fmt.Errorf("constant %s: %v", txt, err)
		}
		switch k {
		case "bv", "bool":
			s, err := constLit(tv.Value, lt)
			return byVal{s: s, k: k, lt: lt}, err
		}
		return byVal{}, fmt.Errorf("unsupported constant %s", txt)
	}
	switch x := e.(type) {
	case *ast.ParenExpr:
		return t.expr(x.X, env)
	case *ast.Ident:
		if t.isNil(x) {
			return byVal{s: "\"\"", k: "err", lt: ltype{lean: "String"}}, nil
		}
		if v, ok := env.vars[x.Name]; ok {
			if v.k == "bytes" {
				return byVal{s: v.s, k: "bytes", slen: v.slen, base: x.Name}, nil
			}
			return v.byVal, nil
		}
		return byVal{}, fmt.Errorf("unknown identifier %s", x.Name)
	case *ast.SelectorExpr:
		if id, ok := x.X.(*ast.Ident); ok {
			key := id.Name + "." + x.Sel.Name
			if v, ok := env.vars[key]; ok {
				if v.k == "bytes" {
					return byVal{s: v.s, k: "bytes", slen: v.slen, base: key}, nil
				}
				return v.byVal, nil
			}
			if t.ptrRoots[id.Name] {
				k, lt, _, err := byType(t.p.TypesInfo.TypeOf(e))
				if err != nil {
					return byVal{}, fmt.Errorf("field %s: %v", key, err)
				}
				if k == "bytes" {
					_, _, v, err := t.sliceOf(e, env)
					return v, err
				}
				if k != "bv" && k != "bool" {
					return byVal{}, fmt.Errorf("field %s: unsupported kind %s", key, k)
				}
				nm := id.Name + "_" + x.Sel.Name
				if err := t.bindField(id.Name, x, nm, byLeanType(k, lt)); err != nil {
					return byVal{}, err
				}
				v := &byVar{byVal: byVal{s: nm, k: k, lt: lt}}
				env.vars[key] = v
				return v.byVal, nil
			}
		}
		return byVal{}, fmt.Errorf("unsupported selector %s", txt)
	case *ast.SliceExpr:
		_, _, v, err := t.sliceOf(e, env)
		return v, err
	case *ast.UnaryExpr:
		if x.Op == token.NOT {
			v, err := t.expr(x.X, env)
			if err != nil {
				return byVal{}, err
			}
			if v.k != "bool" {
				return byVal{}, fmt.Errorf("! on non-bool %s", txt)
			}
			return byVal{s: "(!" + v.s + ")", k: "bool", lt: v.lt}, nil
		}
		return byVal{}, fmt.Errorf("unsupported unary %s", txt)
	case *ast.BinaryExpr:
		return t.binary(x, env)
	case *ast.CallExpr:
		return t.call(x, env)
	}
	return byVal{}, fmt.Errorf("unsupported expression %s", txt)
}

func (t *byTrans) binary(x *ast.BinaryExpr, env *byEnv) (byVal, error) {
	txt := exprText(t.fset, x)
	boolV := func(s string) byVal { return byVal{s: s, k: "bool", lt: ltype{lean: "Bool"}} }
	// shifts by a constant
	if x.Op == token.SHL || x.Op == token.SHR {
		a, err := t.expr(x.X, env)
		if err != nil {
			return byVal{}, err
		}
		n, ok := t.constInt(x.Y)
		if !ok || a.k != "bv" {
			return byVal{}, fmt.Errorf("shift must be integer by constant: %s", txt)
		}
		switch {
		case x.Op == token.SHL:
			return byVal{s: fmt.Sprintf("(%s <<< %d)", a.s, n), k: "bv", lt: a.lt}, nil
		case a.lt.signed:
			return byVal{s: fmt.Sprintf("(BitVec.sshiftRight %s %d)", a.s, n), k: "bv", lt: a.lt}, nil
		default:
			return byVal{s: fmt.Sprintf("(%s >>> %d)", a.s, n), k: "bv", lt: a.lt}, nil
		}
	}
	// comparisons of len(x) with a constant: exact, over Nat
	cmp := map[token.Token]string{token.LSS: "<", token.LEQ: "≤", token.GTR: ">", token.GEQ: "≥", token.EQL: "=", token.NEQ: "≠"}
	if op, ok := cmp[x.Op]; ok {
		if nx, okx := t.natOperand(x.X, env); okx {
			if ny, oky := t.natOperand(x.Y, env); oky {
				return boolV(fmt.Sprintf("decide (%s %s %s)", nx, op, ny)), nil
			}
		}
	}
	// err != nil / err == nil
	if (x.Op == token.NEQ || x.Op == token.EQL) && (t.isNil(x.X) || t.isNil(x.Y)) {
		o := x.X
		if t.isNil(o) {
			o = x.Y
		}
		v, err := t.expr(o, env)
		if err != nil {
			return byVal{}, err
		}
		if v.k != "err" {
			return byVal{}, fmt.Errorf("nil comparison on non-error %s", txt)
		}
		if x.Op == token.NEQ {
			return boolV("(" + v.s + " != \"\")"), nil
		}
		return boolV("(" + v.s + " == \"\")"), nil
	}
	a, err := t.expr(x.X, env)
	if err != nil {
		return byVal{}, err
	}
	b, err := t.expr(x.Y, env)
	if err != nil {
		return byVal{}, err
	}
	if a.k == "bool" && b.k == "bool" {
		switch x.Op {
		case token.LAND:
			return boolV("(" + a.s + " && " + b.s + ")"), nil
		case token.LOR:
			return boolV("(" + a.s + " || " + b.s + ")"), nil
		}
	}
	if a.k != "bv" || b.k != "bv" || a.lt.width != b.lt.width || a.lt.signed != b.lt.signed {
		return byVal{}, fmt.Errorf("unsupported operands in %s", txt)
	}
	switch x.Op {
	case token.ADD:
		return byVal{s: "(" + a.s + " + " + b.s + ")", k: "bv", lt: a.lt}, nil
	case token.SUB:
		return byVal{s: "(" + a.s + " - " + b.s + ")", k: "bv", lt: a.lt}, nil
	case token.EQL:
		return boolV("(" + a.s + " == " + b.s + ")"), nil
	case token.NEQ:
		return boolV("(" + a.s + " != " + b.s + ")"), nil
	case token.LSS, token.LEQ, token.GTR, token.GEQ:
		l, r := a.s, b.s
		if x.Op == token.GTR || x.Op == token.GEQ {
			l, r = r, l
		}
		strict := x.Op == token.LSS || x.Op == token.GTR
		fn := map[[2]bool]string{{true, true}: "BitVec.slt", {true, false}: "BitVec.sle",
			{false, true}: "BitVec.ult", {false, false}: "BitVec.ule"}[[2]bool{a.lt.signed, strict}]
		return boolV("(" + fn + " " + l + " " + r + ")"), nil
	}
	return byVal{}, fmt.Errorf("unsupported operator in %s", txt)
}

// natOperand: `len(x)` or a non-negative integer constant, as a natural number
func (t *byTrans) natOperand(e ast.Expr, env *byEnv) (string, bool) {
	if p, ok := e.(*ast.ParenExpr); ok {
		return t.natOperand(p.X, env)
	}
	if n, ok := t.constInt(e); ok {
		return fmt.Sprint(n), true
	}
	if c, ok := e.(*ast.CallExpr); ok {
		if id, ok := c.Fun.(*ast.Ident); ok && id.Name == "len" && len(c.Args) == 1 {
			if _, isB := t.p.TypesInfo.Uses[id].(*types.Builtin); isB {
				save := len(t.guards)
				v, err := t.expr(c.Args[0], env)
				if err == nil && v.k == "bytes" {
					return v.s + ".length", true
				}
				t.guards = t.guards[:save]
			}
		}
	}
	return "", false
}

func (t *byTrans) call(x *ast.CallExpr, env *byEnv) (byVal, error) {
	txt := exprText(t.fset, x)
	// conversion
	if tv, ok := t.p.TypesInfo.Types[x.Fun]; ok && tv.IsType() && len(x.Args) == 1 {
		k, to, _, err := byType(tv.Type)
		if err != nil || k != "bv" {
			return byVal{}, fmt.Errorf("unsupported conversion %s", txt)
		}
		if n, ok := t.natOperand(x.Args[0], env); ok {
			if _, isConst := t.constInt(x.Args[0]); !isConst {
				// len(x) is non-negative and fits an int: truncation to the target width
				return byVal{s: fmt.Sprintf("(BitVec.ofNat %d %s)", to.width, n), k: "bv", lt: to}, nil
			}
		}
		v, err := t.expr(x.Args[0], env)
		if err != nil {
			return byVal{}, err
		}
		if v.k != "bv" {
			return byVal{}, fmt.Errorf("unsupported conversion %s", txt)
		}
		switch {
		case v.lt.width == to.width:
			return byVal{s: v.s, k: "bv", lt: to}, nil
		case to.width < v.lt.width:
			return byVal{s: fmt.Sprintf("(BitVec.setWidth %d %s)", to.width, v.s), k: "bv", lt: to}, nil
		case v.lt.signed:
			return byVal{s: fmt.Sprintf("(BitVec.signExtend %d %s)", to.width, v.s), k: "bv", lt: to}, nil
		default:
			return byVal{s: fmt.Sprintf("(BitVec.setWidth %d %s)", to.width, v.s), k: "bv", lt: to}, nil
		}
	}
	if id, ok := x.Fun.(*ast.Ident); ok {
		if _, isB := t.p.TypesInfo.Uses[id].(*types.Builtin); isB {
			switch id.Name {
			case "len":
				return byVal{}, fmt.Errorf("len(…) may only be compared with a constant or converted: %s", txt)
			case "make":
				if len(x.Args) == 2 {
					_, _, sl, err := byType(t.p.TypesInfo.TypeOf(x.Args[0]))
					n, okn := t.constInt(x.Args[1])
					if err == nil && sl == -1 && okn {
						return byVal{s: byZero("bytes", ltype{}, n), k: "bytes", slen: n}, nil
					}
				}
				return byVal{}, fmt.Errorf("only make([]byte, <const>) is supported: %s", txt)
			}
		}
	}
	pk, fn := t.pkgSel(x.Fun)
	switch {
	case pk == "encoding/binary.BigEndian" && (fn == "Uint64" || fn == "Uint32" || fn == "Uint16") && len(x.Args) == 1:
		w := map[string]int{"Uint64": 64, "Uint32": 32, "Uint16": 16}[fn]
		src, err := t.expr(x.Args[0], env)
		if err != nil {
			return byVal{}, err
		}
		if src.k != "bytes" {
			return byVal{}, fmt.Errorf("%s of a non-byte operand", txt)
		}
		s, err := t.firstN(src, w/8, txt)
		if err != nil {
			return byVal{}, err
		}
		return byVal{s: fmt.Sprintf("(getBE %d %s)", w, s), k: "bv", lt: ltype{fmt.Sprintf("BitVec %d", w), w, false}}, nil
	case (pk == "fmt" && fn == "Errorf" || pk == "errors" && fn == "New") && len(x.Args) >= 1:
		if tv, ok := t.p.TypesInfo.Types[x.Args[0]]; ok && tv.Value != nil && tv.Value.Kind() == constant.String {
			s := constant.StringVal(tv.Value)
			if s == "" {
				return byVal{}, fmt.Errorf("empty error text in %s", txt)
			}
			return byVal{s: leanStr(s), k: "err", lt: ltype{lean: "String"}}, nil
		}
	}
	return byVal{}, fmt.Errorf("unsupported call %s", txt)
}

// bind introduces a fresh Lean name for a Go variable and returns the `let` line
func (t *byTrans) bind(key string, v byVal, env *byEnv, local bool) string {
	nm := t.fresh(key)
	old := env.vars[key]
	nv := &byVar{byVal: byVal{s: nm, k: v.k, lt: v.lt, slen: v.slen}, local: local}
	if old != nil {
		nv.local, nv.frozen, nv.alias = old.local || local, old.frozen, old.alias
	}
	env.vars[key] = nv
	return fmt.Sprintf("let %s : %s := %s", nm, byLeanType(v.k, v.lt), v.s)
}

// writable checks that the variable behind a destination slice may be written
func (t *byTrans) writable(key string, env *byEnv) error {
	v := env.vars[key]
	if v == nil {
		return fmt.Errorf("unknown destination %s", key)
	}
	if v.alias {
		return fmt.Errorf("write through %s, which holds a slice of another variable (aliasing is not modelled)", key)
	}
	if v.frozen {
		return fmt.Errorf("write into %s after a slice of it was stored (aliasing is not modelled)", key)
	}
	return nil
}

// storeInto renders `key[off:off+len src] = src`
func (t *byTrans) storeInto(key string, off int, src string, env *byEnv) string {
	v := env.vars[key]
	return t.bind(key, byVal{s: fmt.Sprintf("store %s %d %s", v.s, off, src), k: "bytes", slen: v.slen}, env, v.local)
}

func (t *byTrans) flush(lines []string) []string {
	out := append(append([]string{}, t.guards...), lines...)
	t.guards = nil
	return out
}

// stateCall renders `w.Write(p)` / `io.ReadFull(r, buf)` / `binary.Write(w, BigEndian, v)`;
// returns the lines and the Lean names of (n, err) — n is "" for ReadFull / binary.Write
func (t *byTrans) stateCall(call *ast.CallExpr, env *byEnv) ([]string, string, string, bool, error) {
	txt := exprText(t.fset, call)
	if se, ok := call.Fun.(*ast.SelectorExpr); ok {
		if id, ok := se.X.(*ast.Ident); ok {
			if w, ok := env.vars[id.Name]; ok && w.k == "writer" && se.Sel.Name == "Write" && len(call.Args) == 1 {
				p, err := t.expr(call.Args[0], env)
				if err != nil {
					return nil, "", "", true, err
				}
				if p.k != "bytes" {
					return nil, "", "", true, fmt.Errorf("Write of a non-byte operand: %s", txt)
				}
				r := t.fresh("r")
				lines := []string{fmt.Sprintf("let %s := %s_wr.write %s %s", r, id.Name, w.s, p.s)}
				nw := t.fresh(id.Name)
				lines = append(lines, fmt.Sprintf("let %s := %s.1", nw, r))
				w.s = nw
				return lines, r + ".2.1", r + ".2.2", true, nil
			}
		}
	}
	pk, fn := t.pkgSel(call.Fun)
	switch {
	case pk == "encoding/binary" && fn == "Write" && len(call.Args) == 3:
		id, ok := call.Args[0].(*ast.Ident)
		if !ok || env.vars[id.Name] == nil || env.vars[id.Name].k != "writer" {
			return nil, "", "", true, fmt.Errorf("binary.Write to a non-parameter writer: %s", txt)
		}
		if a, b := t.pkgSel(call.Args[1]); a != "encoding/binary" || b != "BigEndian" {
			return nil, "", "", true, fmt.Errorf("binary.Write with a byte order other than BigEndian: %s", txt)
		}
		v, err := t.expr(call.Args[2], env)
		if err != nil {
			return nil, "", "", true, err
		}
		if v.k != "bv" || v.lt.width%8 != 0 {
			return nil, "", "", true, fmt.Errorf("binary.Write of a non-integer: %s", txt)
		}
		if b, ok := t.p.TypesInfo.TypeOf(call.Args[2]).Underlying().(*types.Basic); !ok || b.Kind() == types.Int || b.Kind() == types.Uint {
			return nil, "", "", true, fmt.Errorf("binary.Write needs a fixed-size integer: %s", txt)
		}
		w := env.vars[id.Name]
		r := t.fresh("r")
		lines := []string{fmt.Sprintf("let %s := %s_wr.write %s (putBE %d %s)", r, id.Name, w.s, v.lt.width/8, v.s)}
		nw := t.fresh(id.Name)
		lines = append(lines, fmt.Sprintf("let %s := %s.1", nw, r))
		w.s = nw
		return lines, "", r + ".2.2", true, nil
	case pk == "io" && fn == "ReadFull" && len(call.Args) == 2:
		id, ok := call.Args[0].(*ast.Ident)
		if !ok || env.vars[id.Name] == nil || env.vars[id.Name].k != "reader" {
			return nil, "", "", true, fmt.Errorf("io.ReadFull from a non-parameter reader: %s", txt)
		}
		key, off, dst, err := t.sliceOf(call.Args[1], env)
		if err != nil {
			return nil, "", "", true, err
		}
		if off != 0 || dst.s != env.vars[key].s {
			return nil, "", "", true, fmt.Errorf("io.ReadFull into a partial slice: %s", txt)
		}
		if err := t.writable(key, env); err != nil {
			return nil, "", "", true, err
		}
		rd := env.vars[id.Name]
		r := t.fresh("r")
		lines := []string{fmt.Sprintf("let %s := %s_rd.readFull %s %s.length", r, id.Name, rd.s, dst.s)}
		nr := t.fresh(id.Name)
		lines = append(lines, fmt.Sprintf("let %s := %s.1", nr, r))
		rd.s = nr
		// the buffer now holds what the reader delivered; its length is whatever the reader returned
		old := env.vars[key]
		lines = append(lines, t.bind(key, byVal{s: r + ".2.1", k: "bytes", slen: -1}, env, old.local))
		return lines, "", r + ".2.2", true, nil
	}
	return nil, "", "", false, nil
}

func (t *byTrans) stmts(list []ast.Stmt, env *byEnv, ind string) (string, error) {
	if len(list) == 0 {
		return "", fmt.Errorf("control reaches the end of a block without return")
	}
	s, rest := list[0], list[1:]
	var lines []string
	txt := exprText(t.fset, s)
	t.guards = nil
	cont := func() (string, error) {
		body, err := t.stmts(rest, env, ind)
		if err != nil {
			return "", err
		}
		return strings.Join(append(t2(lines), body), "\n"+ind), nil
	}
	switch x := s.(type) {
	case *ast.DeclStmt:
		gd, ok := x.Decl.(*ast.GenDecl)
		if !ok || gd.Tok != token.VAR {
			return "", fmt.Errorf("unsupported declaration %s", txt)
		}
		for _, sp := range gd.Specs {
			vs := sp.(*ast.ValueSpec)
			if len(vs.Values) != 0 || vs.Type == nil {
				return "", fmt.Errorf("unsupported declaration %s", txt)
			}
			for _, nm := range vs.Names {
				ty := t.p.TypesInfo.TypeOf(vs.Type)
				if named, ok := ty.(*types.Named); ok {
					if st, ok := named.Underlying().(*types.Struct); ok {
						env.structs[nm.Name] = named
						if _, err := t.structDecl(named); err != nil {
							return "", err
						}
						for i := 0; i < st.NumFields(); i++ {
							f := st.Field(i)
							k, lt, sl, err := byType(f.Type())
							if err != nil || k == "writer" || k == "reader" {
								continue
							}
							lines = append(lines, t.bind(nm.Name+"."+f.Name(), byVal{s: byZero(k, lt, sl), k: k, lt: lt, slen: sl}, env, true))
						}
						continue
					}
				}
				k, lt, sl, err := byType(ty)
				if err != nil || k == "writer" || k == "reader" {
					return "", fmt.Errorf("unsupported declaration %s", txt)
				}
				if k == "bytes" && sl < 0 {
					sl = 0 // nil slice
				}
				lines = append(lines, t.bind(nm.Name, byVal{s: byZero(k, lt, sl), k: k, lt: lt, slen: sl}, env, true))
			}
		}
		return cont()
	case *ast.AssignStmt:
		if len(x.Rhs) != 1 {
			return "", fmt.Errorf("unsupported assignment %s", txt)
		}
		if call, ok := x.Rhs[0].(*ast.CallExpr); ok {
			ls, n, er, handled, err := t.stateCall(call, env)
			if err != nil {
				return "", err
			}
			if handled {
				if x.Tok != token.DEFINE && x.Tok != token.ASSIGN {
					return "", fmt.Errorf("unsupported assignment %s", txt)
				}
				lines = t.flush(ls)
				var targets []ast.Expr = x.Lhs
				var vals []byVal
				if n != "" {
					vals = append(vals, byVal{s: n, k: "bv", lt: ltype{"BitVec 64", 64, true}})
				} else if len(targets) == 2 {
					// io.ReadFull's byte count is not modelled
					if id, ok := targets[0].(*ast.Ident); !ok || id.Name != "_" {
						return "", fmt.Errorf("the byte count of io.ReadFull is not modelled: %s", txt)
					}
					targets = targets[1:]
				}
				vals = append(vals, byVal{s: er, k: "err", lt: ltype{lean: "String"}})
				if len(targets) != len(vals) {
					return "", fmt.Errorf("wrong number of targets in %s", txt)
				}
				for i, l := range targets {
					id, ok := l.(*ast.Ident)
					if !ok {
						return "", fmt.Errorf("unsupported assignment target in %s", txt)
					}
					if id.Name == "_" {
						continue
					}
					if old, ok := env.vars[id.Name]; ok && (old.k != vals[i].k || old.lt != vals[i].lt) {
						return "", fmt.Errorf("variable %s changes type in %s", id.Name, txt)
					}
					lines = append(lines, t.bind(id.Name, vals[i], env, true))
				}
				return cont()
			}
		}
		if len(x.Lhs) != 1 {
			return "", fmt.Errorf("unsupported assignment %s", txt)
		}
		// right-hand side
		var v byVal
		var err error
		switch x.Tok {
		case token.DEFINE, token.ASSIGN:
			v, err = t.expr(x.Rhs[0], env)
		case token.ADD_ASSIGN, token.SUB_ASSIGN:
			op := token.ADD
			if x.Tok == token.SUB_ASSIGN {
				op = token.SUB
			}
			v, err = t.binary(&ast.BinaryExpr{X: x.Lhs[0], Op: op, Y: x.Rhs[0], OpPos: x.TokPos}, env)
		default:
			return "", fmt.Errorf("unsupported assignment operator in %s", txt)
		}
		if err != nil {
			return "", err
		}
		if v.k == "nat" || v.k == "writer" || v.k == "reader" {
			return "", fmt.Errorf("unsupported value in %s", txt)
		}
		switch l := x.Lhs[0].(type) {
		case *ast.Ident:
			if l.Name == "_" {
				return cont()
			}
			old, exists := env.vars[l.Name]
			if x.Tok != token.DEFINE && !exists {
				return "", fmt.Errorf("assignment to unknown variable %s", l.Name)
			}
			if exists && (old.k != v.k || old.lt != v.lt) {
				return "", fmt.Errorf("variable %s changes type in %s", l.Name, txt)
			}
			lines = t.flush(nil)
			lines = append(lines, t.bind(l.Name, v, env, v.k != "bytes" || v.base == ""))
			if v.k == "bytes" && v.base != "" {
				// the variable now shares storage with v.base
				env.vars[l.Name].alias = true
				env.vars[l.Name].local = false
				if b := env.vars[v.base]; b != nil {
					b.frozen = true
				}
			}
			return cont()
		case *ast.SelectorExpr:
			id, ok := l.X.(*ast.Ident)
			if !ok || env.structs[id.Name] == nil {
				return "", fmt.Errorf("unsupported assignment target in %s", txt)
			}
			key := id.Name + "." + l.Sel.Name
			old, ok := env.vars[key]
			if !ok {
				return "", fmt.Errorf("field %s has an unsupported type", key)
			}
			if old.k != v.k || old.lt != v.lt {
				return "", fmt.Errorf("field %s: type mismatch in %s", key, txt)
			}
			_, _, fl, _ := byType(t.p.TypesInfo.TypeOf(l))
			if v.k == "bytes" && fl >= 0 {
				return "", fmt.Errorf("array assignment %s", txt)
			}
			lines = t.flush(nil)
			lines = append(lines, t.bind(key, v, env, true))
			if v.k == "bytes" && v.base != "" {
				env.vars[key].alias = true
				if b := env.vars[v.base]; b != nil {
					b.frozen = true
				}
			}
			return cont()
		case *ast.IndexExpr:
			key, bv, err := t.bytesBase(l.X, env)
			if err != nil {
				return "", err
			}
			i, ok := t.constInt(l.Index)
			if !ok || bv.slen < 0 || i >= bv.slen || !bv.local {
				return "", fmt.Errorf("indexed store needs a local array and a constant index in range: %s", txt)
			}
			if err := t.writable(key, env); err != nil {
				return "", err
			}
			if v.k != "bv" || v.lt.width != 8 || x.Tok != token.ASSIGN {
				return "", fmt.Errorf("indexed store of a non-byte: %s", txt)
			}
			lines = t.flush(nil)
			lines = append(lines, t.bind(key, byVal{s: fmt.Sprintf("%s.set %d (toByte %s)", bv.s, i, v.s), k: "bytes", slen: bv.slen}, env, true))
			return cont()
		}
		return "", fmt.Errorf("unsupported assignment target in %s", txt)
	case *ast.ExprStmt:
		call, ok := x.X.(*ast.CallExpr)
		if !ok {
			return "", fmt.Errorf("unsupported statement %s", txt)
		}
		pk, fn := t.pkgSel(call.Fun)
		bi := ""
		if id, ok := call.Fun.(*ast.Ident); ok {
			if _, isB := t.p.TypesInfo.Uses[id].(*types.Builtin); isB {
				bi = id.Name
			}
		}
		switch {
		case pk == "encoding/binary.BigEndian" && (fn == "PutUint64" || fn == "PutUint32" || fn == "PutUint16") && len(call.Args) == 2:
			n := map[string]int{"PutUint64": 8, "PutUint32": 4, "PutUint16": 2}[fn]
			key, off, dst, err := t.sliceOf(call.Args[0], env)
			if err != nil {
				return "", err
			}
			if err := t.writable(key, env); err != nil {
				return "", err
			}
			if dst.slen >= 0 && dst.slen < n {
				return "", fmt.Errorf("%s needs %d bytes, destination has %d (always panics)", txt, n, dst.slen)
			}
			if dst.slen < 0 {
				t.guards = append(t.guards, fmt.Sprintf("if ¬ (%d ≤ %s.length) then .panic %s else", off+n, env.vars[key].s, leanStr(txt)))
			}
			v, err := t.expr(call.Args[1], env)
			if err != nil {
				return "", err
			}
			if v.k != "bv" || v.lt.width != 8*n {
				return "", fmt.Errorf("%s: value is not a %d-bit integer", txt, 8*n)
			}
			lines = t.flush(nil)
			lines = append(lines, t.storeInto(key, off, fmt.Sprintf("(putBE %d %s)", n, v.s), env))
			return cont()
		case bi == "copy" && len(call.Args) == 2:
			key, off, dst, err := t.sliceOf(call.Args[0], env)
			if err != nil {
				return "", err
			}
			if err := t.writable(key, env); err != nil {
				return "", err
			}
			if dst.slen < 0 {
				return "", fmt.Errorf("copy into a destination of unknown length: %s", txt)
			}
			src, err := t.expr(call.Args[1], env)
			if err != nil {
				return "", err
			}
			if src.k != "bytes" {
				return "", fmt.Errorf("copy of a non-byte operand: %s", txt)
			}
			if src.base == key {
				return "", fmt.Errorf("overlapping copy %s", txt)
			}
			ss := src.s
			if src.slen < 0 || src.slen > dst.slen {
				ss = fmt.Sprintf("(%s.take %d)", src.s, dst.slen)
			}
			lines = t.flush(nil)
			lines = append(lines, t.storeInto(key, off, ss, env))
			return cont()
		case pk == "encoding/hex" && fn == "Encode" && len(call.Args) == 2:
			key, off, dst, err := t.sliceOf(call.Args[0], env)
			if err != nil {
				return "", err
			}
			if err := t.writable(key, env); err != nil {
				return "", err
			}
			src, err := t.expr(call.Args[1], env)
			if err != nil {
				return "", err
			}
			if src.k != "bytes" || src.slen < 0 || dst.slen < 0 || 2*src.slen > dst.slen || src.base == key {
				return "", fmt.Errorf("hex.Encode needs operands of known length with len(dst) ≥ 2·len(src): %s", txt)
			}
			lines = t.flush(nil)
			lines = append(lines, t.storeInto(key, off, fmt.Sprintf("(hexEncode %s)", src.s), env))
			return cont()
		}
		return "", fmt.Errorf("unsupported statement %s", txt)
	case *ast.IfStmt:
		if x.Init != nil || x.Else != nil {
			return "", fmt.Errorf("only `if c { …; return … }` is supported: %s", strings.SplitN(txt, "{", 2)[0])
		}
		c, err := t.expr(x.Cond, env)
		if err != nil {
			return "", err
		}
		if c.k != "bool" {
			return "", fmt.Errorf("non-bool condition %s", exprText(t.fset, x.Cond))
		}
		pre := t.flush(nil)
		th, err := t.stmts(x.Body.List, env.clone(), ind+"  ")
		if err != nil {
			return "", err
		}
		el, err := t.stmts(rest, env, ind+"  ")
		if err != nil {
			return "", err
		}
		pre = append(pre, fmt.Sprintf("if %s then\n%s  %s\n%selse\n%s  %s", c.s, ind, th, ind, ind, el))
		return strings.Join(pre, "\n"+ind), nil
	case *ast.ReturnStmt:
		if len(x.Results) != len(t.results) {
			return "", fmt.Errorf("return with %d results, expected %d", len(x.Results), len(t.results))
		}
		var vals []string
		for i, r := range x.Results {
			switch t.results[i] {
			case "ptr":
				if t.isNil(r) {
					vals = append(vals, "none")
					continue
				}
				u, ok := r.(*ast.UnaryExpr)
				if !ok || u.Op != token.AND {
					return "", fmt.Errorf("unsupported pointer result %s", exprText(t.fset, r))
				}
				id, ok := u.X.(*ast.Ident)
				if !ok || env.structs[id.Name] == nil {
					return "", fmt.Errorf("unsupported pointer result %s", exprText(t.fset, r))
				}
				named := env.structs[id.Name]
				sn, err := t.structDecl(named)
				if err != nil {
					return "", err
				}
				if sn != t.resLT[i].lean {
					return "", fmt.Errorf("result struct mismatch in %s", txt)
				}
				st := named.Underlying().(*types.Struct)
				var fs []string
				for j := 0; j < st.NumFields(); j++ {
					f := st.Field(j)
					if v, ok := env.vars[id.Name+"."+f.Name()]; ok {
						fs = append(fs, fmt.Sprintf("%s := %s", f.Name(), v.s))
					}
				}
				vals = append(vals, fmt.Sprintf("some { %s : %s }", strings.Join(fs, ", "), sn))
			default:
				v, err := t.expr(r, env)
				if err != nil {
					return "", err
				}
				if v.k != t.results[i] || (v.k == "bv" && v.lt != t.resLT[i]) || (v.k == "bytes" && v.slen != t.resLen[i]) {
					return "", fmt.Errorf("result %d of %s has the wrong kind", i, txt)
				}
				vals = append(vals, v.s)
			}
		}
		var all []string
		for _, st := range t.states {
			all = append(all, env.vars[st].s)
		}
		all = append(all, vals...)
		lines = t.flush(nil)
		lines = append(lines, ".ret ("+strings.Join(all, ", ")+")")
		return strings.Join(lines, "\n"+ind), nil
	}
	return "", fmt.Errorf("unsupported statement %s", txt)
}

func t2(x []string) []string { return x }

// structDecl emits (once) the Lean structure for a Go struct: the fields of supported type
func (t *byTrans) structDecl(named *types.Named) (string, error) {
	gn := named.Obj().Name()
	if n, ok := t.structs[gn]; ok {
		return n, nil
	}
	st := named.Underlying().(*types.Struct)
	ln := t.name + "_" + gn
	var fs, omitted []string
	for i := 0; i < st.NumFields(); i++ {
		f := st.Field(i)
		k, lt, sl, err := byType(f.Type())
		if err != nil || k == "writer" || k == "reader" {
			omitted = append(omitted, f.Name()+" "+f.Type().String())
			continue
		}
		cm := ""
		if k == "bytes" && sl >= 0 {
			cm = fmt.Sprintf("  -- [%d]byte", sl)
		}
		fs = append(fs, fmt.Sprintf("  %s : %s%s", f.Name(), byLeanType(k, lt), cm))
	}
	if len(fs) == 0 {
		return "", fmt.Errorf("struct %s has no field of a supported type", gn)
	}
	decl := fmt.Sprintf("open Nsq.Model.ByteOps in\nstructure %s where\n%s\nderiving DecidableEq, Repr\n", ln, strings.Join(fs, "\n"))
	if len(omitted) > 0 {
		decl = fmt.Sprintf("/- fields of %s not rendered (unsupported type; the function may not touch them): %s -/\n", gn, strings.Join(omitted, "; ")) + decl
	}
	t.aux = append(t.aux, decl)
	t.structs[gn] = ln
	return ln, nil
}

func kindBytes(c *Ctx, it Item) (string, error) {
	p, fd, err := c.FindFunc(it.Str("dir"), it.Str("func"))
	if err != nil {
		return "", err
	}
	if fd.Body == nil {
		return "", fmt.Errorf("bytes: %s has no body", it.Str("func"))
	}
	t := &byTrans{p: p, fset: p.Fset, name: it.Str("name"), pseen: map[string]bool{}, ptrRoots: map[string]bool{},
		structs: map[string]string{}, fieldPs: map[string][]byFieldParam{}}
	env := &byEnv{vars: map[string]*byVar{}, structs: map[string]*types.Named{}}
	var fields []*ast.Field
	if fd.Recv != nil {
		fields = append(fields, fd.Recv.List...)
	}
	fields = append(fields, fd.Type.Params.List...)
	for _, f := range fields {
		ty := p.TypesInfo.TypeOf(f.Type)
		for _, n := range f.Names {
			if n.Name == "_" {
				continue
			}
			if ptr, ok := ty.(*types.Pointer); ok {
				if _, ok := ptr.Elem().Underlying().(*types.Struct); ok {
					t.ptrRoots[n.Name] = true
					t.params = append(t.params, "@fields:"+n.Name)
					continue
				}
			}
			k, lt, sl, err := byType(ty)
			if err != nil {
				// an unsupported parameter is fine as long as the body never mentions it
				continue
			}
			switch k {
			case "writer":
				t.params = append(t.params, "{W : Type}", fmt.Sprintf("(%s_wr : Writer W)", n.Name), fmt.Sprintf("(%s : W)", n.Name))
				t.states = append(t.states, n.Name)
				env.vars[n.Name] = &byVar{byVal: byVal{s: n.Name, k: "writer"}}
			case "reader":
				t.params = append(t.params, "{R : Type}", fmt.Sprintf("(%s_rd : Reader R)", n.Name), fmt.Sprintf("(%s : R)", n.Name))
				t.states = append(t.states, n.Name)
				env.vars[n.Name] = &byVar{byVal: byVal{s: n.Name, k: "reader"}}
			default:
				ty := byLeanType(k, lt)
				if k == "bytes" && sl >= 0 {
					ty = fmt.Sprintf("Bytes /- [%d]byte -/", sl)
				}
				t.bindParam(n.Name, ty)
				env.vars[n.Name] = &byVar{byVal: byVal{s: n.Name, k: k, lt: lt, slen: sl}}
			}
			t.pseen[n.Name] = true
		}
	}
	if len(t.states) > 1 {
		return "", fmt.Errorf("bytes: more than one writer/reader parameter")
	}
	var retParts []string
	for _, st := range t.states {
		if env.vars[st].k == "writer" {
			retParts = append(retParts, "W")
		} else {
			retParts = append(retParts, "R")
		}
	}
	if fd.Type.Results == nil {
		return "", fmt.Errorf("bytes: function without result")
	}
	for _, f := range fd.Type.Results.List {
		if len(f.Names) > 0 {
			return "", fmt.Errorf("bytes: named results are not supported")
		}
		ty := p.TypesInfo.TypeOf(f.Type)
		if ptr, ok := ty.(*types.Pointer); ok {
			if named, ok := ptr.Elem().(*types.Named); ok {
				if _, ok := named.Underlying().(*types.Struct); ok {
					sn, err := t.structDecl(named)
					if err != nil {
						return "", err
					}
					t.results = append(t.results, "ptr")
					t.resLT = append(t.resLT, ltype{lean: sn})
					t.resLen = append(t.resLen, 0)
					retParts = append(retParts, "Option "+sn)
					continue
				}
			}
		}
		k, lt, sl, err := byType(ty)
		if err != nil || k == "writer" || k == "reader" || (k == "bytes" && sl < 0) {
			return "", fmt.Errorf("bytes: unsupported result type %s", ty)
		}
		t.results = append(t.results, k)
		t.resLT = append(t.resLT, lt)
		t.resLen = append(t.resLen, sl)
		retParts = append(retParts, byLeanType(k, lt))
	}
	body, err := t.stmts(fd.Body.List, env, "  ")
	if err != nil {
		return "", fmt.Errorf("bytes %s: %v", it.Str("func"), err)
	}
	// the fields read off a pointer parameter, in the declaration order of its struct (stable
	// under reordering of the statements that read them)
	var params []string
	for _, p := range t.params {
		if !strings.HasPrefix(p, "@fields:") {
			params = append(params, p)
			continue
		}
		fs := t.fieldPs[strings.TrimPrefix(p, "@fields:")]
		sort.Slice(fs, func(i, j int) bool { return fs[i].idx < fs[j].idx })
		for _, f := range fs {
			params = append(params, fmt.Sprintf("(%s : %s)", f.name, f.ty))
		}
	}
	t.params = params
	var sb strings.Builder
	for _, a := range t.aux {
		sb.WriteString(a + "\n")
	}
	fmt.Fprintf(&sb, "open Nsq.Model.ByteOps in\n/-- translated from %s (%s) -/\ndef %s %s : Res (%s) :=\n  %s\n",
		it.Str("func"), it.Str("dir"), t.name, strings.Join(t.params, " "), strings.Join(retParts, " × "), body)
	return sb.String(), nil
}
