package main

import (
	"go/printer"
	"go/token"
	"io"
)

func printerFprint(w io.Writer, fset *token.FileSet, n interface{}) {
	_ = printer.Fprint(w, fset, n)
}
