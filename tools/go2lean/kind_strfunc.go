package main

// kind "strfunc": translate a small Go function over strings into a Lean definition over
// `Nsq.Model.Str.Str` (= List UInt8). Used for apps/nsq_to_file (computeFilenameFormat,
// currentFilename) and for small option predicates.
//
//	{"kind":"strfunc","name":N,"dir":D,"func":F,
//	 "externals":{"<expr text>":"param"},          pure inputs read off the environment (pid, clock…)
//	 "fallible":{"<expr text>":"param"},           `x, err := <expr>` + `if err != nil { … return … }` (x string or bool)
//	 "skip":["<stmt text>", …]}                    statements without effect on the result (t := time.Now())
//
// Accepted subset (anything else is REJECTED, never guessed):
//   - results: `string`, `bool`, or `(string, error)` (rendered as `Except Str Str`)
//   - statements: `x := e`, `x = e`, `if c { … } [else { … }]`, `return …`, the fallible pair above
//   - expressions: string literals, parameters, field paths rooted at a parameter / the receiver
//     (each distinct path becomes one Lean parameter, in order of first use), `a + b` on strings,
//     `== != < <= > >=` on integers (rendered over `Int`: no arithmetic is accepted, so no
//     wrap-around can occur), `== !=` on strings and bools, `&& || !`, `len(s)`,
//     strings.Replace(s, "<const>", new, -1), strings.Contains, strings.HasSuffix,
//     strings.HasPrefix, strings.Split(s, "<const>")[0], errors.New("<const>")
//
// Control flow is rendered with explicit join points (`let k_n := fun vars => …`) so that no
// statement is duplicated.

import (
	"fmt"
	"go/ast"
	"go/constant"
	"go/token"
	"go/types"
	"sort"
	"strconv"
	"strings"

	"golang.org/x/tools/go/packages"
)

func init() { register("strfunc", kindStrFunc) }

type sfTrans struct {
	p         *packages.Package
	fset      *token.FileSet
	externals map[string]string
	fallible  map[string]string
	skip      map[string]bool
	params    []string
	seen      map[string]string // lean param name -> type
	roots     map[string]bool   // Go identifiers that are parameters / the receiver
	counter   int
	resKind   string // "str" | "bool" | "except"
}

type sfEnv struct {
	vars  map[string]string
	types map[string]string
}

func (e *sfEnv) clone() *sfEnv {
	n := &sfEnv{vars: map[string]string{}, types: map[string]string{}}
	for k, v := range e.vars {
		n.vars[k] = v
	}
	for k, v := range e.types {
		n.types[k] = v
	}
	return n
}

func sfLeanType(k string) string {
	switch k {
	case "str", "err":
		return "Str"
	case "bool":
		return "Bool"
	case "int":
		return "Int"
	case "nat":
		return "Nat"
	}
	return "?"
}

func sfKindOf(t types.Type) (string, error) {
	if t == nil {
		return "", fmt.Errorf("untyped expression")
	}
	if b, ok := t.Underlying().(*types.Basic); ok {
		switch {
		case b.Info()&types.IsString != 0:
			return "str", nil
		case b.Info()&types.IsBoolean != 0:
			return "bool", nil
		case b.Info()&types.IsInteger != 0:
			return "int", nil
		}
	}
	if t.String() == "error" {
		return "err", nil
	}
	return "", fmt.Errorf("unsupported type %s", t)
}

func (t *sfTrans) param(name, kind string) string {
	name = strings.NewReplacer(".", "_", "(", "", ")", "", "*", "").Replace(name)
	if sfLeanKeywords[name] {
		name += "_"
	}
	if _, ok := t.seen[name]; !ok {
		t.seen[name] = kind
		t.params = append(t.params, name)
	}
	return name
}

var sfLeanKeywords = map[string]bool{"matches": true, "match": true, "fun": true, "let": true, "in": true, "if": true,
	"then": true, "else": true, "do": true, "end": true, "at": true, "from": true, "have": true, "show": true, "open": true,
	"theorem": true, "def": true, "by": true, "with": true, "where": true, "instance": true, "structure": true, "class": true,
	"namespace": true, "section": true, "variable": true, "universe": true, "local": true, "private": true, "protected": true,
	"deriving": true, "mutual": true, "inductive": true, "export": true, "import": true, "Type": true, "Prop": true, "Sort": true,
	"forall": true, "exists": true, "return": true, "for": true, "unless": true, "try": true, "catch": true, "finally": true}

func sfBytes(s string) string {
	if s == "" {
		return "([] : Str)"
	}
	parts := make([]string, len(s))
	for i := 0; i < len(s); i++ {
		parts[i] = strconv.Itoa(int(s[i]))
	}
	cm := ""
	if !strings.Contains(s, "-/") && !strings.Contains(s, "/-") && !strings.ContainsAny(s, "\n\r") {
		cm = "/- " + s + " -/ "
	}
	return "(" + cm + "[" + strings.Join(parts, ", ") + "] : Str)"
}

func (t *sfTrans) constStr(e ast.Expr) (string, bool) {
	if tv, ok := t.p.TypesInfo.Types[e]; ok && tv.Value != nil && tv.Value.Kind() == constant.String {
		return constant.StringVal(tv.Value), true
	}
	return "", false
}

func (t *sfTrans) pkgCall(x *ast.CallExpr) (string, string) {
	if se, ok := x.Fun.(*ast.SelectorExpr); ok {
		if id, ok := se.X.(*ast.Ident); ok {
			if pn, ok := t.p.TypesInfo.Uses[id].(*types.PkgName); ok {
				return pn.Imported().Path(), se.Sel.Name
			}
		}
	}
	return "", ""
}

// path renders x.y.z rooted at a parameter / receiver as one Lean parameter
func (t *sfTrans) path(e ast.Expr) (string, bool) {
	switch x := e.(type) {
	case *ast.Ident:
		if t.roots[x.Name] {
			return x.Name, true
		}
	case *ast.SelectorExpr:
		if p, ok := t.path(x.X); ok {
			return p + "." + x.Sel.Name, true
		}
	}
	return "", false
}

func (t *sfTrans) expr(e ast.Expr, env *sfEnv) (string, string, error) {
	txt := exprText(t.fset, e)
	if p, ok := t.externals[txt]; ok {
		k, err := sfKindOf(t.p.TypesInfo.TypeOf(e))
		if err != nil {
			return "", "", err
		}
		return t.param(p, k), k, nil
	}
	if tv, ok := t.p.TypesInfo.Types[e]; ok && tv.Value != nil {
		switch tv.Value.Kind() {
		case constant.String:
			return sfBytes(constant.StringVal(tv.Value)), "str", nil
		case constant.Bool:
			return strconv.FormatBool(constant.BoolVal(tv.Value)), "bool", nil
		case constant.Int:
			return "(" + tv.Value.ExactString() + " : Int)", "int", nil
		}
		return "", "", fmt.Errorf("unsupported constant %s", txt)
	}
	switch x := e.(type) {
	case *ast.ParenExpr:
		return t.expr(x.X, env)
	case *ast.Ident:
		if v, ok := env.vars[x.Name]; ok {
			return v, env.types[x.Name], nil
		}
		if t.roots[x.Name] {
			k, err := sfKindOf(t.p.TypesInfo.TypeOf(e))
			if err != nil {
				return "", "", fmt.Errorf("parameter %s: %v", x.Name, err)
			}
			return t.param(x.Name, k), k, nil
		}
		return "", "", fmt.Errorf("unknown identifier %s", x.Name)
	case *ast.SelectorExpr:
		if p, ok := t.path(x); ok {
			k, err := sfKindOf(t.p.TypesInfo.TypeOf(e))
			if err != nil {
				return "", "", fmt.Errorf("field %s: %v", p, err)
			}
			return t.param(p, k), k, nil
		}
		return "", "", fmt.Errorf("unsupported selector %s", txt)
	case *ast.UnaryExpr:
		if x.Op == token.NOT {
			s, k, err := t.expr(x.X, env)
			if err != nil {
				return "", "", err
			}
			if k != "bool" {
				return "", "", fmt.Errorf("! on non-bool %s", txt)
			}
			return "(!" + s + ")", "bool", nil
		}
		return "", "", fmt.Errorf("unsupported unary %s", txt)
	case *ast.BinaryExpr:
		a, ka, err := t.expr(x.X, env)
		if err != nil {
			return "", "", err
		}
		b, kb, err := t.expr(x.Y, env)
		if err != nil {
			return "", "", err
		}
		if ka != kb {
			return "", "", fmt.Errorf("operand kinds differ in %s", txt)
		}
		switch x.Op {
		case token.LAND, token.LOR:
			if ka != "bool" {
				break
			}
			op := "&&"
			if x.Op == token.LOR {
				op = "||"
			}
			return "(" + a + " " + op + " " + b + ")", "bool", nil
		case token.ADD:
			if ka == "str" {
				return "(" + a + " ++ " + b + ")", "str", nil
			}
		case token.EQL:
			return "decide (" + a + " = " + b + ")", "bool", nil
		case token.NEQ:
			return "decide (" + a + " ≠ " + b + ")", "bool", nil
		case token.LSS, token.LEQ, token.GTR, token.GEQ:
			if ka == "int" {
				op := map[token.Token]string{token.LSS: "<", token.LEQ: "≤", token.GTR: ">", token.GEQ: "≥"}[x.Op]
				return "decide (" + a + " " + op + " " + b + ")", "bool", nil
			}
		}
		return "", "", fmt.Errorf("unsupported operator in %s", txt)
	case *ast.IndexExpr:
		// strings.Split(s, "<const>")[0]
		if call, ok := x.X.(*ast.CallExpr); ok {
			if pk, fn := t.pkgCall(call); pk == "strings" && fn == "Split" && len(call.Args) == 2 {
				sep, okc := t.constStr(call.Args[1])
				iv, oki := t.p.TypesInfo.Types[x.Index]
				if okc && sep != "" && oki && iv.Value != nil && iv.Value.ExactString() == "0" {
					s, k, err := t.expr(call.Args[0], env)
					if err != nil {
						return "", "", err
					}
					if k != "str" {
						return "", "", fmt.Errorf("Split on non-string")
					}
					return "(splitFirst " + s + " " + sfBytes(sep) + ")", "str", nil
				}
			}
		}
		return "", "", fmt.Errorf("unsupported index expression %s", txt)
	case *ast.CallExpr:
		if id, ok := x.Fun.(*ast.Ident); ok && id.Name == "len" && len(x.Args) == 1 {
			// len of a slice-valued field path: the length itself becomes an (integer) parameter `<path>_len`
			if pth, ok := t.path(x.Args[0]); ok {
				if _, isSlice := t.p.TypesInfo.TypeOf(x.Args[0]).Underlying().(*types.Slice); isSlice {
					return "(Int.ofNat " + t.param(pth+"_len", "nat") + ")", "int", nil
				}
			}
			s, k, err := t.expr(x.Args[0], env)
			if err != nil {
				return "", "", err
			}
			if k != "str" {
				return "", "", fmt.Errorf("len of non-string %s", txt)
			}
			return "(Int.ofNat " + s + ".length)", "int", nil
		}
		pk, fn := t.pkgCall(x)
		switch {
		case pk == "errors" && fn == "New" && len(x.Args) == 1:
			if s, ok := t.constStr(x.Args[0]); ok {
				return sfBytes(s), "err", nil
			}
		case pk == "strings" && fn == "Replace" && len(x.Args) == 4:
			old, okc := t.constStr(x.Args[1])
			nv, okn := t.p.TypesInfo.Types[x.Args[3]]
			if !okc || old == "" || !okn || nv.Value == nil || nv.Value.ExactString() != "-1" {
				return "", "", fmt.Errorf("strings.Replace needs a non-empty constant `old` and n = -1: %s", txt)
			}
			s, ks, err := t.expr(x.Args[0], env)
			if err != nil {
				return "", "", err
			}
			nw, kn, err := t.expr(x.Args[2], env)
			if err != nil {
				return "", "", err
			}
			if ks != "str" || kn != "str" {
				return "", "", fmt.Errorf("strings.Replace on non-strings")
			}
			return "(replaceAll " + s + " " + sfBytes(old) + " " + nw + ")", "str", nil
		case pk == "strings" && (fn == "Contains" || fn == "HasSuffix" || fn == "HasPrefix") && len(x.Args) == 2:
			s, ks, err := t.expr(x.Args[0], env)
			if err != nil {
				return "", "", err
			}
			q, kq, err := t.expr(x.Args[1], env)
			if err != nil {
				return "", "", err
			}
			if ks != "str" || kq != "str" {
				return "", "", fmt.Errorf("strings.%s on non-strings", fn)
			}
			switch fn {
			case "Contains":
				return "(contains " + s + " " + q + ")", "bool", nil
			case "HasSuffix":
				return "(hasSuffix " + s + " " + q + ")", "bool", nil
			default:
				return "(List.isPrefixOf " + q + " " + s + ")", "bool", nil
			}
		}
		return "", "", fmt.Errorf("unsupported call %s", txt)
	}
	return "", "", fmt.Errorf("unsupported expression %s", txt)
}

// assigned collects the already-declared variables assigned inside stmts (for join points)
func (t *sfTrans) assigned(stmts []ast.Stmt, env *sfEnv, out map[string]bool) {
	for _, s := range stmts {
		ast.Inspect(s, func(n ast.Node) bool {
			if as, ok := n.(*ast.AssignStmt); ok && as.Tok == token.ASSIGN {
				for _, l := range as.Lhs {
					if id, ok := l.(*ast.Ident); ok {
						if _, ok := env.vars[id.Name]; ok {
							out[id.Name] = true
						}
					}
				}
			}
			return true
		})
	}
}

func isNilCheck(e ast.Expr, name string) bool {
	b, ok := e.(*ast.BinaryExpr)
	if !ok || b.Op != token.NEQ {
		return false
	}
	x, ok1 := b.X.(*ast.Ident)
	y, ok2 := b.Y.(*ast.Ident)
	return ok1 && ok2 && x.Name == name && y.Name == "nil"
}

// stmts renders a statement list; tail renders what follows when control falls off the end
func (t *sfTrans) stmts(list []ast.Stmt, env *sfEnv, ind string, tail func(*sfEnv) (string, error)) (string, error) {
	if len(list) == 0 {
		return tail(env)
	}
	s, rest := list[0], list[1:]
	if t.skip[exprText(t.fset, s)] {
		return t.stmts(rest, env, ind, tail)
	}
	switch x := s.(type) {
	case *ast.AssignStmt:
		// fallible external: `v, err := EXT` + `if err != nil { return …, err }`
		if len(x.Lhs) == 2 && len(x.Rhs) == 1 {
			pn, ok := t.fallible[exprText(t.fset, x.Rhs[0])]
			v, ok1 := x.Lhs[0].(*ast.Ident)
			er, ok2 := x.Lhs[1].(*ast.Ident)
			if !ok || !ok1 || !ok2 || len(rest) == 0 {
				return "", fmt.Errorf("unsupported two-value assignment %s", exprText(t.fset, s))
			}
			is, ok := rest[0].(*ast.IfStmt)
			if !ok || is.Init != nil || is.Else != nil || !isNilCheck(is.Cond, er.Name) {
				return "", fmt.Errorf("fallible external %s must be followed by `if %s != nil { return … }`", pn, er.Name)
			}
			k, err := sfKindOf(t.p.TypesInfo.TypeOf(x.Lhs[0]))
			if err != nil {
				return "", err
			}
			if k != "str" && k != "bool" {
				return "", fmt.Errorf("fallible external %s must yield a string or a bool", pn)
			}
			p := t.param(pn, "except"+k)
			// error branch: must end in return (control may not fall through with an unusable value)
			envE := env.clone()
			envE.vars[er.Name] = "e"
			envE.types[er.Name] = "err"
			eb, err := t.stmts(is.Body.List, envE, ind+"  ", func(*sfEnv) (string, error) {
				return "", fmt.Errorf("error branch of fallible external %s must return", pn)
			})
			if err != nil {
				return "", err
			}
			t.counter++
			nm := fmt.Sprintf("%s_%d", v.Name, t.counter)
			env2 := env.clone()
			env2.vars[v.Name] = nm
			env2.types[v.Name] = k
			body, err := t.stmts(rest[1:], env2, ind+"  ", tail)
			if err != nil {
				return "", err
			}
			return fmt.Sprintf("match %s with\n%s| .error e =>\n%s  %s\n%s| .ok %s =>\n%s  %s", p, ind, ind, eb, ind, nm, ind, body), nil
		}
		if len(x.Lhs) != 1 || len(x.Rhs) != 1 || (x.Tok != token.DEFINE && x.Tok != token.ASSIGN) {
			return "", fmt.Errorf("unsupported assignment %s", exprText(t.fset, s))
		}
		id, ok := x.Lhs[0].(*ast.Ident)
		if !ok {
			return "", fmt.Errorf("unsupported assignment target %s", exprText(t.fset, s))
		}
		val, k, err := t.expr(x.Rhs[0], env)
		if err != nil {
			return "", err
		}
		if x.Tok == token.ASSIGN {
			if _, ok := env.vars[id.Name]; !ok {
				return "", fmt.Errorf("assignment to unknown variable %s", id.Name)
			}
		}
		t.counter++
		nm := fmt.Sprintf("%s_%d", id.Name, t.counter)
		env2 := env.clone()
		env2.vars[id.Name] = nm
		env2.types[id.Name] = k
		body, err := t.stmts(rest, env2, ind, tail)
		if err != nil {
			return "", err
		}
		return fmt.Sprintf("let %s : %s := %s\n%s%s", nm, sfLeanType(k), val, ind, body), nil
	case *ast.ReturnStmt:
		switch t.resKind {
		case "except":
			if len(x.Results) != 2 {
				return "", fmt.Errorf("return with %d results", len(x.Results))
			}
			if id, ok := x.Results[1].(*ast.Ident); ok && id.Name == "nil" {
				v, k, err := t.expr(x.Results[0], env)
				if err != nil {
					return "", err
				}
				if k != "str" {
					return "", fmt.Errorf("non-string result")
				}
				return ".ok " + v, nil
			}
			v, k, err := t.expr(x.Results[1], env)
			if err != nil {
				return "", err
			}
			if k != "err" {
				return "", fmt.Errorf("second result is not an error")
			}
			return ".error " + v, nil
		default:
			if len(x.Results) != 1 {
				return "", fmt.Errorf("return with %d results", len(x.Results))
			}
			v, k, err := t.expr(x.Results[0], env)
			if err != nil {
				return "", err
			}
			if k != t.resKind {
				return "", fmt.Errorf("result kind %s, expected %s", k, t.resKind)
			}
			return v, nil
		}
	case *ast.IfStmt:
		if x.Init != nil {
			return "", fmt.Errorf("if with init statement")
		}
		c, k, err := t.expr(x.Cond, env)
		if err != nil {
			return "", err
		}
		if k != "bool" {
			return "", fmt.Errorf("non-bool condition")
		}
		var elseList []ast.Stmt
		switch eb := x.Else.(type) {
		case nil:
		case *ast.BlockStmt:
			elseList = eb.List
		default:
			elseList = []ast.Stmt{x.Else}
		}
		// join point for what follows
		set := map[string]bool{}
		t.assigned(x.Body.List, env, set)
		t.assigned(elseList, env, set)
		var vars []string
		for v := range set {
			vars = append(vars, v)
		}
		sort.Strings(vars)
		t.counter++
		kname := fmt.Sprintf("k_%d", t.counter)
		envK := env.clone()
		var binders []string
		for _, v := range vars {
			t.counter++
			nm := fmt.Sprintf("%s_%d", v, t.counter)
			envK.vars[v] = nm
			binders = append(binders, fmt.Sprintf("(%s : %s)", nm, sfLeanType(env.types[v])))
		}
		if len(binders) == 0 {
			binders = []string{"(_ : Unit)"}
		}
		kbody, err := t.stmts(rest, envK, ind+"  ", tail)
		if err != nil {
			return "", err
		}
		call := func(e *sfEnv) (string, error) {
			if len(vars) == 0 {
				return kname + " ()", nil
			}
			args := make([]string, len(vars))
			for i, v := range vars {
				args[i] = e.vars[v]
			}
			return kname + " " + strings.Join(args, " "), nil
		}
		th, err := t.stmts(x.Body.List, env.clone(), ind+"  ", call)
		if err != nil {
			return "", err
		}
		el, err := t.stmts(elseList, env.clone(), ind+"  ", call)
		if err != nil {
			return "", err
		}
		return fmt.Sprintf("let %s := fun %s =>\n%s  %s\n%sif %s then\n%s  %s\n%selse\n%s  %s",
			kname, strings.Join(binders, " "), ind, kbody, ind, c, ind, th, ind, ind, el), nil
	}
	return "", fmt.Errorf("unsupported statement %s", exprText(t.fset, s))
}

func kindStrFunc(c *Ctx, it Item) (string, error) {
	p, fd, err := c.FindFunc(it.Str("dir"), it.Str("func"))
	if err != nil {
		return "", err
	}
	t := &sfTrans{p: p, fset: p.Fset, externals: map[string]string{}, fallible: map[string]string{},
		skip: map[string]bool{}, seen: map[string]string{}, roots: map[string]bool{}}
	if m, ok := it["externals"].(map[string]interface{}); ok {
		for k, v := range m {
			t.externals[strings.Join(strings.Fields(k), " ")] = fmt.Sprint(v)
		}
	}
	if m, ok := it["fallible"].(map[string]interface{}); ok {
		for k, v := range m {
			t.fallible[strings.Join(strings.Fields(k), " ")] = fmt.Sprint(v)
		}
	}
	for _, s := range it.Strs("skip") {
		t.skip[strings.Join(strings.Fields(s), " ")] = true
	}
	if fd.Recv != nil {
		for _, f := range fd.Recv.List {
			for _, n := range f.Names {
				t.roots[n.Name] = true
			}
		}
	}
	for _, f := range fd.Type.Params.List {
		for _, n := range f.Names {
			t.roots[n.Name] = true
		}
	}
	res := fd.Type.Results
	if res == nil {
		return "", fmt.Errorf("strfunc: function without result")
	}
	var kinds []string
	for _, f := range res.List {
		if len(f.Names) > 0 {
			return "", fmt.Errorf("strfunc: named results are not supported")
		}
		k, err := sfKindOf(p.TypesInfo.TypeOf(f.Type))
		if err != nil {
			return "", err
		}
		kinds = append(kinds, k)
	}
	var retType string
	switch strings.Join(kinds, ",") {
	case "str":
		t.resKind, retType = "str", "Str"
	case "bool":
		t.resKind, retType = "bool", "Bool"
	case "str,err":
		t.resKind, retType = "except", "Except Str Str"
	default:
		return "", fmt.Errorf("strfunc: unsupported result list (%s)", strings.Join(kinds, ","))
	}
	body, err := t.stmts(fd.Body.List, &sfEnv{vars: map[string]string{}, types: map[string]string{}}, "  ",
		func(*sfEnv) (string, error) { return "", fmt.Errorf("control reaches the end of the function without return") })
	if err != nil {
		return "", fmt.Errorf("strfunc %s: %v", it.Str("func"), err)
	}
	var ps []string
	for _, n := range t.params {
		ty := sfLeanType(t.seen[n])
		if t.seen[n] == "exceptstr" {
			ty = "Except Str Str"
		}
		if t.seen[n] == "exceptbool" {
			ty = "Except Str Bool"
		}
		ps = append(ps, fmt.Sprintf("(%s : %s)", n, ty))
	}
	return fmt.Sprintf("open Nsq.Model.Str in\ndef %s %s : %s :=\n  %s\n", it.Str("name"), strings.Join(ps, " "), retType, body), nil
}

// kind "fatalcond": the condition under which a main() refuses to start with a given message.
//
//	{"kind":"fatalcond","name":N,"dir":D,"func":"main","contains":"--gzip-level","roots":["opts"]}
//
// Finds the unique top-level `if <cond> { log.Fatal[f](… "<text containing contains>" …) }` and renders <cond>
// (same expression subset as strfunc; field paths rooted at the listed local variables become parameters) as
// `def N (params) : Bool`. No match, several matches, an else branch or an init statement is REJECTED.
func init() { register("fatalcond", kindFatalCond) }

func kindFatalCond(c *Ctx, it Item) (string, error) {
	p, fd, err := c.FindFunc(it.Str("dir"), it.Str("func"))
	if err != nil {
		return "", err
	}
	t := &sfTrans{p: p, fset: p.Fset, externals: map[string]string{}, fallible: map[string]string{},
		skip: map[string]bool{}, seen: map[string]string{}, roots: map[string]bool{}, resKind: "bool"}
	for _, r := range it.Strs("roots") {
		t.roots[r] = true
	}
	var cond ast.Expr
	n := 0
	for _, s := range fd.Body.List {
		is, ok := s.(*ast.IfStmt)
		if !ok || len(is.Body.List) == 0 {
			continue
		}
		es, ok := is.Body.List[0].(*ast.ExprStmt)
		if !ok {
			continue
		}
		call, ok := es.X.(*ast.CallExpr)
		if !ok {
			continue
		}
		fn := exprText(p.Fset, call.Fun)
		if fn != "log.Fatal" && fn != "log.Fatalf" {
			continue
		}
		hit := false
		for _, a := range call.Args {
			if s, ok := t.constStr(a); ok && strings.Contains(s, it.Str("contains")) {
				hit = true
			}
		}
		if !hit {
			continue
		}
		if is.Init != nil || is.Else != nil {
			return "", fmt.Errorf("fatalcond: the matching if has an init statement or an else branch")
		}
		cond = is.Cond
		n++
	}
	if n != 1 {
		return "", fmt.Errorf("fatalcond: expected exactly one `if … { log.Fatal(…%q…) }` at the top level of %s, found %d", it.Str("contains"), it.Str("func"), n)
	}
	lean, k, err := t.expr(cond, &sfEnv{vars: map[string]string{}, types: map[string]string{}})
	if err != nil {
		return "", fmt.Errorf("fatalcond %s: %v", it.Str("name"), err)
	}
	if k != "bool" {
		return "", fmt.Errorf("fatalcond: condition is not boolean")
	}
	var ps []string
	for _, n := range t.params {
		ps = append(ps, fmt.Sprintf("(%s : %s)", n, sfLeanType(t.seen[n])))
	}
	return fmt.Sprintf("open Nsq.Model.Str in\ndef %s %s : Bool :=\n  %s\n", it.Str("name"), strings.Join(ps, " "), lean), nil
}
